/-
  Helper lemmas for C15 (output serialisers).
-/
import CTM.Model.Output

namespace CTM.Output

/-! ### node ↔ integer tables -/

theorem indexIn_of_mem {n : NodeId} : ∀ {nodes : List NodeId}, n ∈ nodes →
    ∃ i, indexIn n nodes = some i ∧ nodes[i]? = some n
  | [], h => by cases h
  | x :: xs, h => by
    by_cases hx : x = n
    · exact ⟨0, by simp [indexIn, hx], by simp [hx]⟩
    · have : n ∈ xs := by
        cases h with
        | head => exact absurd rfl hx
        | tail _ h => exact h
      obtain ⟨i, hi, hg⟩ := indexIn_of_mem this
      exact ⟨i + 1, by simp [indexIn, hx, hi], by simpa using hg⟩

theorem pyIndex_natCast {α} {l : List α} {i : Nat} {a : α} (h : l[i]? = some a) :
    pyIndex l (i : Int) = .ok a := by
  unfold pyIndex
  have h1 : ¬ ((i : Int) < 0) := by omega
  simp [h1, h]

theorem numOK_toFloat {x : Num} (h : numOK x = true) : x.toFloat = x := by
  cases x <;> simp_all [numOK, Num.toFloat]

theorem map_toFloat_of_all {xs : List Num} (h : xs.all numOK = true) :
    xs.map Num.toFloat = xs := by
  induction xs with
  | nil => rfl
  | cons x xs ih =>
    simp only [List.all_cons, Bool.and_eq_true] at h
    simp [numOK_toFloat h.1, ih h.2]

/-! ### runner-up rows: pad with −1 / 0, read back up to the first negative entry -/

theorem decRunners_replicate (nodes : List NodeId) (room : Nat) :
    decRunners nodes (List.replicate room (-1)) (List.replicate room (.val 0))
      (List.replicate room (.val 0)) = .ok ([], [], []) := by
  cases room with
  | zero => simp [decRunners]
  | succ k => simp [List.replicate_succ, decRunners]

theorem decRunners_encRunners (nodes : List NodeId) :
    ∀ (ra : List NodeId) (room : Nat) (rp rc : List Num),
      ra.length = rp.length → ra.length = rc.length → ra.length ≤ room →
      (∀ n ∈ ra, n ∈ nodes) → rp.all numOK = true → rc.all numOK = true →
      ∃ a p c, encRunners nodes true room ra rp rc = .ok (a, p, c) ∧
        decRunners nodes a p c = .ok (ra, rp, rc) ∧
        a.length = room ∧ p.length = room ∧ c.length = room := by
  intro ra
  induction ra with
  | nil =>
    intro room rp rc h1 h2 _ _ _ _
    have hp : rp = [] := List.eq_nil_of_length_eq_zero (by simpa using h1.symm)
    have hc : rc = [] := List.eq_nil_of_length_eq_zero (by simpa using h2.symm)
    subst hp; subst hc
    exact ⟨_, _, _, by simp [encRunners], decRunners_replicate nodes room, by simp, by simp, by simp⟩
  | cons n ns ih =>
    intro room rp rc h1 h2 h3 hmem hp hc
    cases rp with
    | nil => simp at h1
    | cons p ps =>
      cases rc with
      | nil => simp at h2
      | cons c cs =>
        cases room with
        | zero => simp at h3
        | succ room' =>
          obtain ⟨i, hi, hg⟩ := indexIn_of_mem (hmem n (by simp))
          simp only [List.all_cons, Bool.and_eq_true] at hp hc
          obtain ⟨a, p', c', he, hd, la, lp, lc⟩ := ih room' ps cs (by simpa using h1)
            (by simpa using h2) (by simpa using h3) (fun m hm => hmem m (by simp [hm])) hp.2 hc.2
          refine ⟨(i : Int) :: a, p :: p', c :: c', ?_, ?_, by simp [la], by simp [lp], by simp [lc]⟩
          · simp [encRunners, hi, he, numOK_toFloat hp.1, numOK_toFloat hc.1]
          · have h0 : ¬ ((i : Int) < 0) := by omega
            simp [decRunners, h0, pyIndex_natCast hg, hd]

/-! ### one `(cell, level)` -/

/-- the slot of a level without runners-up -/
def padSlot (i : Nat) (prob corr agg : Num) (nR : Nat) : Slot :=
  { asg := i, prob := prob.toFloat, corr := corr.toFloat, agg := agg.toFloat,
    rAsg := List.replicate nR (-1), rProb := List.replicate nR (.val 0),
    rCorr := List.replicate nR (.val 0) }

theorem decLevel_encLevel {nodes : List NodeId} {nR : Nat} {flag : Bool} {lr : LevelRec}
    {i2n : List (Lvl × List NodeId)} {l : Lvl}
    (hok : levelOK nodes nR flag lr = true) (hl : i2n.lookup l = some nodes) :
    ∃ s, encLevel nodes nR lr = .ok s ∧
      decLevel i2n (decide (nR > 0)) l flag s = .ok (l, lr) ∧
      s.rAsg.length = nR ∧ s.rProb.length = nR ∧ s.rCorr.length = nR := by
  obtain ⟨asg, prob, corr, agg, direct, ra, rp, rc⟩ := lr
  simp only [levelOK, Bool.and_eq_true, beq_iff_eq, List.contains_eq_mem, decide_eq_true_eq] at hok
  obtain ⟨⟨⟨⟨⟨hmem, hdir⟩, hp⟩, hc⟩, hg⟩, hrun⟩ := hok
  obtain ⟨i, hi, hgI⟩ := indexIn_of_mem hmem
  have hpy := pyIndex_natCast hgI
  subst hdir
  cases direct with
  | false =>
    simp only [Bool.false_eq_true, if_false, Bool.and_eq_true, Option.isNone_iff_eq_none] at hrun
    obtain ⟨⟨h1, h2⟩, h3⟩ := hrun
    subst h1; subst h2; subst h3
    refine ⟨padSlot i prob corr agg nR, by simp [encLevel, hi, padSlot], ?_, by simp [padSlot], by simp [padSlot], by simp [padSlot]⟩
    simp [decLevel, padSlot, hl, hpy, numOK_toFloat hp, numOK_toFloat hc, numOK_toFloat hg]
  | true =>
    simp only [if_true] at hrun
    cases ra with
    | none => simp at hrun
    | some ra =>
      cases rp with
      | none => simp at hrun
      | some rp =>
        cases rc with
        | none => simp at hrun
        | some rc =>
          simp only [Bool.and_eq_true, beq_iff_eq, decide_eq_true_eq, List.all_eq_true,
            List.contains_eq_mem] at hrun
          obtain ⟨⟨⟨⟨⟨h1, h2⟩, h3⟩, h4⟩, h5⟩, h6⟩ := hrun
          cases ra with
          | nil =>
            have hp' : rp = [] := List.eq_nil_of_length_eq_zero (by simpa using h1.symm)
            have hc' : rc = [] := List.eq_nil_of_length_eq_zero (by simpa using h2.symm)
            subst hp'; subst hc'
            refine ⟨padSlot i prob corr agg nR, by simp [encLevel, hi, padSlot], ?_, by simp [padSlot], by simp [padSlot], by simp [padSlot]⟩
            by_cases hn : nR > 0
            · simp [decLevel, padSlot, hl, hpy, hn, decRunners_replicate, numOK_toFloat hp,
                numOK_toFloat hc, numOK_toFloat hg]
            · simp [decLevel, padSlot, hl, hpy, hn, numOK_toFloat hp, numOK_toFloat hc, numOK_toFloat hg]
          | cons n ns =>
            have hn : nR > 0 := by simp at h3; omega
            obtain ⟨a, p, c, he, hd, la, lp, lc⟩ := decRunners_encRunners nodes (n :: ns) nR rp rc
              h1 h2 h3 (fun m hm => by simpa using h4 m hm)
              (by simpa [List.all_eq_true] using h5) (by simpa [List.all_eq_true] using h6)
            refine ⟨{ asg := i, prob := prob.toFloat, corr := corr.toFloat, agg := agg.toFloat,
                      rAsg := a, rProb := p, rCorr := c }, ?_, ?_, la, lp, lc⟩
            · simp [encLevel, hi, hn, he]
            · simp [decLevel, hl, hpy, hn, hd, numOK_toFloat hp, numOK_toFloat hc,
                numOK_toFloat hg]

/-! ### one cell -/

/-- the flag of a level = the flag of the first record at that level -/
def flagOf (first : Record) (l : Lvl) : Bool :=
  ((first.levels.lookup l).map (·.direct)).getD false

def nodesOf (t : Tree) (l : Lvl) : List NodeId := (t.nodesAt l).getD []

/-- the runner-up rows of a slot have the fixed width -/
def Slot.width (s : Slot) (nR : Nat) : Prop :=
  s.rAsg.length = nR ∧ s.rProb.length = nR ∧ s.rCorr.length = nR

theorem decCell_encCell {t : Tree} {nR : Nat} {r first : Record} {i2n : List (Lvl × List NodeId)} :
    ∀ (entries : List (Lvl × LevelRec)),
      (∀ e ∈ entries, r.levels.lookup e.1 = some e.2) →
      (∀ e ∈ entries, i2n.lookup e.1 = t.nodesAt e.1) →
      levelsOK t nR first entries = true →
      ∃ slots, encCell t nR r (entries.map (·.1)) = .ok slots ∧
        decCell i2n (decide (nR > 0))
          ((entries.map (·.1)).zip ((entries.map (fun e => flagOf first e.1)).zip slots))
          = .ok entries ∧
        (∀ s ∈ slots, s.width nR) := by
  intro entries
  induction entries with
  | nil => intro _ _ _; exact ⟨[], by simp [encCell], by simp [decCell], by simp⟩
  | cons e es ih =>
    intro hlook hi2n hok
    obtain ⟨l, lr⟩ := e
    simp only [levelsOK, Bool.and_eq_true] at hok
    obtain ⟨hl, hrest⟩ := hok
    cases hn : t.nodesAt l with
    | none => simp [hn] at hl
    | some nodes =>
      cases hf : first.levels.lookup l with
      | none => simp [hn, hf] at hl
      | some f =>
        simp only [hn, hf] at hl
        have hi : i2n.lookup l = some nodes := by
          have := hi2n (l, lr) (by simp); simpa [hn] using this
        obtain ⟨s, hes, hds, hw⟩ := decLevel_encLevel hl hi
        obtain ⟨ss, hess, hdss, hws⟩ := ih (fun e he => hlook e (by simp [he]))
          (fun e he => hi2n e (by simp [he])) hrest
        have hlk : r.levels.lookup l = some lr := hlook (l, lr) (by simp)
        refine ⟨s :: ss, ?_, ?_, ?_⟩
        · simp [encCell, hlk, hn, hes, hess]
        · have hfl : flagOf first l = f.direct := by simp [flagOf, hf]
          simp [decCell, hfl, hds, hdss]
        · intro s' hs'
          cases hs' with
          | head => exact hw
          | tail _ h => exact hws s' h

theorem lookup_of_nodupB {β} : ∀ {l : List (Nat × β)}, nodupB (l.map (·.1)) = true →
    ∀ e ∈ l, l.lookup e.1 = some e.2
  | [], _, e, he => by cases he
  | (k, v) :: rest, h, e, he => by
    simp only [List.map_cons, nodupB, Bool.and_eq_true, Bool.not_eq_true', List.contains_eq_mem,
      decide_eq_false_iff_not] at h
    cases he with
    | head => simp
    | tail _ he' =>
      have hne : e.1 ≠ k := by
        intro heq
        apply h.1
        rw [← heq]
        exact List.mem_map_of_mem he'
      have : (e.1 == k) = false := by simpa using hne
      simp only [List.lookup, this]
      exact lookup_of_nodupB h.2 e he'

theorem lookup_map_self {β} (f : Nat → β) : ∀ {ls : List Nat} {l : Nat}, l ∈ ls →
    (ls.map (fun l => (l, f l))).lookup l = some (f l)
  | [], _, h => by cases h
  | x :: xs, l, h => by
    by_cases hx : l = x
    · subst hx; simp
    · have : (l == x) = false := by simpa using hx
      have hm : l ∈ xs := by
        cases h with
        | head => exact absurd rfl hx
        | tail _ h => exact h
      simp only [List.map_cons, List.lookup, this]
      exact lookup_map_self f hm

theorem firstFlags_eq {t : Tree} {first : Record} : ∀ (ls : List Lvl),
    (∀ l ∈ ls, (t.nodesAt l).isSome ∧ (first.levels.lookup l).isSome) →
    firstFlags t first ls = .ok (ls.map (fun l => (flagOf first l, l, nodesOf t l)))
  | [], _ => by simp [firstFlags]
  | l :: ls, h => by
    have h1 := h l (by simp)
    have ih := firstFlags_eq ls (fun l' hl' => h l' (by simp [hl']))
    cases hn : t.nodesAt l with
    | none => simp [hn] at h1
    | some nodes =>
      cases hf : first.levels.lookup l with
      | none => simp [hf] at h1
      | some f => simp [firstFlags, hn, hf, ih, flagOf, nodesOf]

/-! ### struct of arrays ↔ array of structs -/

def reSlot (s : Slot) (ra : List Int) (rp rc : List Num) : Slot :=
  { asg := s.asg, prob := s.prob, corr := s.corr, agg := s.agg, rAsg := ra, rProb := rp, rCorr := rc }

theorem slotRow_maps (row : List Slot) (fa : Slot → List Int) (fp fc : Slot → List Num) :
    slotRow (row.map (·.asg)) (row.map (·.prob)) (row.map (·.corr)) (row.map (·.agg))
      (row.map fa) (row.map fp) (row.map fc) =
    row.map (fun s => reSlot s (fa s) (fp s) (fc s)) := by
  simp [slotRow, List.zip_map', List.map_map, Function.comp_def, reSlot]

theorem rows_maps (slots : List (List Slot)) (fa : Slot → List Int) (fp fc : Slot → List Num) :
    ((slots.map (·.map (·.asg))).zip ((slots.map (·.map (·.prob))).zip
      ((slots.map (·.map (·.corr))).zip ((slots.map (·.map (·.agg))).zip
      ((slots.map (·.map fa)).zip ((slots.map (·.map fp)).zip (slots.map (·.map fc)))))))).map
      (fun (a, p, c, g, ra, rp, rc) => slotRow a p c g ra rp rc) =
    slots.map (fun row => row.map (fun s => reSlot s (fa s) (fp s) (fc s))) := by
  simp [List.zip_map', List.map_map, Function.comp_def, slotRow_maps]

theorem map_slot_eta (slots : List (List Slot)) :
    slots.map (fun row => row.map (fun s => reSlot s s.rAsg s.rProb s.rCorr)) = slots := by
  simp [reSlot]

theorem map_slot_blank (slots : List (List Slot))
    (h : ∀ row ∈ slots, ∀ s ∈ row, s.width 0) :
    slots.map (fun row => row.map (fun s => reSlot s [] [] [])) = slots := by
  have : ∀ row ∈ slots, row.map (fun s => reSlot s [] [] []) = row := by
    intro row hrow
    have : ∀ s ∈ row, reSlot s [] [] [] = s := by
      intro s hs
      obtain ⟨h1, h2, h3⟩ := h row hrow s hs
      obtain ⟨a, p, c, g, ra, rp, rc⟩ := s
      simp only [List.length_eq_zero_iff] at h1 h2 h3
      simp [reSlot, h1, h2, h3]
    calc row.map _ = row.map id := List.map_congr_left this
      _ = row := by simp
  calc slots.map _ = slots.map id := List.map_congr_left this
    _ = slots := by simp

/-! ### all cells -/

theorem levelsOK_isSome {t : Tree} {nR : Nat} {first : Record} :
    ∀ {entries : List (Lvl × LevelRec)}, levelsOK t nR first entries = true →
      ∀ e ∈ entries, (t.nodesAt e.1).isSome ∧ (first.levels.lookup e.1).isSome
  | [], _, e, he => by cases he
  | (l, lr) :: rest, h, e, he => by
    simp only [levelsOK, Bool.and_eq_true] at h
    cases he with
    | head =>
      cases hn : t.nodesAt l with
      | none => simp [hn] at h
      | some nodes =>
        cases hf : first.levels.lookup l with
        | none => simp [hn, hf] at h
        | some f => simp
    | tail _ he' => exact levelsOK_isSome h.2 e he'

theorem decCells_encCells {t : Tree} {nR : Nat} {first : Record}
    {i2n : List (Lvl × List NodeId)}
    (hi : ∀ l ∈ t.hierarchy, i2n.lookup l = t.nodesAt l)
    (hnd : nodupB t.hierarchy = true) :
    ∀ (rs : List Record),
      (∀ r ∈ rs, r.levels.map (·.1) = t.hierarchy ∧ levelsOK t nR first r.levels = true) →
      ∃ slots, encCells t nR rs = .ok slots ∧
        decCells t.hierarchy (t.hierarchy.map (flagOf first)) i2n (decide (nR > 0))
          ((rs.map (·.cellId)).zip slots) = .ok rs ∧
        (∀ row ∈ slots, ∀ s ∈ row, s.width nR) := by
  intro rs
  induction rs with
  | nil => intro _; exact ⟨[], by simp [encCells], by simp [decCells], by simp⟩
  | cons r rs ih =>
    intro hall
    obtain ⟨hkeys, hok⟩ := hall r (by simp)
    obtain ⟨rows, herows, hdrows, hwrows⟩ := ih (fun r' hr' => hall r' (by simp [hr']))
    have hlook : ∀ e ∈ r.levels, r.levels.lookup e.1 = some e.2 :=
      lookup_of_nodupB (by rw [hkeys]; exact hnd)
    have hi2n : ∀ e ∈ r.levels, i2n.lookup e.1 = t.nodesAt e.1 := by
      intro e he
      apply hi
      rw [← hkeys]
      exact List.mem_map_of_mem he
    obtain ⟨row, herow, hdrow, hwrow⟩ := decCell_encCell r.levels hlook hi2n hok
    have hflags : r.levels.map (fun e => flagOf first e.1) = t.hierarchy.map (flagOf first) := by
      rw [← hkeys, List.map_map]; rfl
    rw [hkeys] at herow
    rw [hflags, hkeys] at hdrow
    refine ⟨row :: rows, ?_, ?_, ?_⟩
    · simp [encCells, herow, herows]
    · simp [decCells, hdrow, hdrows]
    · intro row' hrow'
      cases hrow' with
      | head => exact hwrow
      | tail _ h' => exact hwrows row' h'

/-- `hdf5_to_blob (blob_to_hdf5 b) = b` under `OutInv` -/
theorem ofH5_toH5 (b : Blob) (hinv : outInv b = true) :
    ∃ h, toH5 b = .ok h ∧ ofH5 h = .ok b := by
  obtain ⟨t, nR, results⟩ := b
  cases results with
  | nil => simp [outInv] at hinv
  | cons first rest =>
    simp only [outInv, Bool.and_eq_true, List.all_eq_true, beq_iff_eq] at hinv
    obtain ⟨hnd, hall⟩ := hinv
    have hfirst := hall first (by simp)
    have hsome : ∀ l ∈ t.hierarchy, (t.nodesAt l).isSome ∧ (first.levels.lookup l).isSome := by
      intro l hl
      rw [← hfirst.1] at hl
      obtain ⟨e, he, rfl⟩ := List.mem_map.mp hl
      exact levelsOK_isSome hfirst.2 e he
    have hff := firstFlags_eq t.hierarchy hsome
    have hi2n : ∀ l ∈ t.hierarchy,
        (t.hierarchy.map (fun l => (l, nodesOf t l))).lookup l = t.nodesAt l := by
      intro l hl
      rw [lookup_map_self (nodesOf t) hl]
      cases hn : t.nodesAt l with
      | none => have := (hsome l hl).1; simp [hn] at this
      | some nodes => simp [nodesOf, hn]
    obtain ⟨slots, hes, hds, hws⟩ :=
      decCells_encCells (t := t) (nR := nR) (first := first) hi2n hnd (first :: rest) hall
    simp only [toH5, hff, hes]
    refine ⟨_, rfl, ?_⟩
    by_cases hn : nR > 0
    · simp only [hn, decide_true] at hds
      simp only [ofH5, hn, if_true, List.map_map, Function.comp_def, rows_maps, map_slot_eta]
      rw [hds]
    · have h0 : nR = 0 := by omega
      subst h0
      simp only [hn, decide_false] at hds
      simp only [ofH5, hn, if_false, List.map_map, Function.comp_def, rows_maps,
        map_slot_blank slots hws]
      rw [hds]

/-! ### what `toH5` writes, for any blob (no `OutInv`) -/

theorem numOK_toFloat' (x : Num) : numOK x.toFloat = true := by
  cases x <;> simp [numOK, Num.toFloat]

/-- the numbers of a slot are floats (never `null`) and its runner-up rows
have the fixed width -/
def Slot.good (s : Slot) (nR : Nat) : Prop :=
  numOK s.prob = true ∧ numOK s.corr = true ∧ numOK s.agg = true ∧ s.width nR

theorem encRunners_length (nodes : List NodeId) (b : Bool) :
    ∀ (ra : List NodeId) (room : Nat) (rp rc : List Num) (a : List Int) (p c : List Num),
      encRunners nodes b room ra rp rc = .ok (a, p, c) →
      a.length = room ∧ p.length = room ∧ c.length = room := by
  intro ra
  induction ra with
  | nil =>
    intro room rp rc a p c h
    simp only [encRunners, Except.ok.injEq, Prod.mk.injEq] at h
    obtain ⟨rfl, rfl, rfl⟩ := h
    simp
  | cons n ns ih =>
    intro room rp rc a p c h
    simp only [encRunners] at h
    cases hi : indexIn n nodes with
    | none => simp [hi] at h
    | some idx =>
      simp only [hi] at h
      cases b with
      | false => simp at h
      | true =>
        simp only [Bool.not_true, Bool.false_eq_true, if_false] at h
        cases room with
        | zero => simp at h
        | succ room' =>
          cases rp with
          | nil => simp at h
          | cons p0 ps =>
            cases rc with
            | nil => simp at h
            | cons c0 cs =>
              simp only at h
              cases hr : encRunners nodes true room' ns ps cs with
              | error e => simp [hr] at h
              | ok v =>
                obtain ⟨a', p', c'⟩ := v
                simp only [hr, Except.ok.injEq, Prod.mk.injEq] at h
                obtain ⟨rfl, rfl, rfl⟩ := h
                obtain ⟨h1, h2, h3⟩ := ih room' ps cs a' p' c' hr
                simp [h1, h2, h3]

theorem encLevel_good {nodes : List NodeId} {nR : Nat} {lr : LevelRec} {s : Slot}
    (h : encLevel nodes nR lr = .ok s) : s.good nR := by
  unfold encLevel at h
  cases hi : indexIn lr.assignment nodes with
  | none => simp [hi] at h
  | some idx =>
    simp only [hi] at h
    cases hra : lr.runAsg with
    | none =>
      simp only [hra, Except.ok.injEq] at h
      subst h
      simp [Slot.good, Slot.width, numOK_toFloat']
    | some ra =>
      simp only [hra] at h
      cases ra with
      | nil =>
        simp only [Except.ok.injEq] at h
        subst h
        simp [Slot.good, Slot.width, numOK_toFloat']
      | cons n ns =>
        cases hrp : lr.runProb with
        | none =>
          simp only [hrp] at h
          split at h <;> try split at h
          all_goals simp at h
        | some rp =>
          cases hrc : lr.runCorr with
          | none =>
            simp only [hrp, hrc] at h
            split at h <;> try split at h
            all_goals (try split at h)
            all_goals simp at h
          | some rc =>
            simp only [hrp, hrc] at h
            cases he : encRunners nodes (decide (nR > 0)) nR (n :: ns) rp rc with
            | error e => simp [he] at h
            | ok v =>
              obtain ⟨a, p, c⟩ := v
              simp only [he, Except.ok.injEq] at h
              subst h
              have := encRunners_length nodes _ (n :: ns) nR rp rc a p c he
              simp [Slot.good, Slot.width, numOK_toFloat', this]

theorem encCell_good {t : Tree} {nR : Nat} {r : Record} :
    ∀ {ls : List Lvl} {row : List Slot}, encCell t nR r ls = .ok row →
      row.length = ls.length ∧ ∀ s ∈ row, s.good nR
  | [], row, h => by
    simp only [encCell, Except.ok.injEq] at h
    subst h; simp
  | l :: ls, row, h => by
    simp only [encCell] at h
    cases h1 : r.levels.lookup l with
    | none => simp [h1] at h
    | some lr =>
      cases h2 : t.nodesAt l with
      | none => simp [h1, h2] at h
      | some nodes =>
        cases h3 : encLevel nodes nR lr with
        | error e => simp [h1, h2, h3] at h
        | ok s =>
          cases h4 : encCell t nR r ls with
          | error e => simp [h1, h2, h3, h4] at h
          | ok ss =>
            simp only [h1, h2, h3, h4, Except.ok.injEq] at h
            subst h
            obtain ⟨hl, hg⟩ := encCell_good h4
            refine ⟨by simp [hl], ?_⟩
            intro s' hs'
            cases hs' with
            | head => exact encLevel_good h3
            | tail _ h' => exact hg s' h'

theorem encCells_good {t : Tree} {nR : Nat} :
    ∀ {rs : List Record} {rows : List (List Slot)}, encCells t nR rs = .ok rows →
      rows.length = rs.length ∧
      ∀ row ∈ rows, row.length = t.hierarchy.length ∧ ∀ s ∈ row, s.good nR
  | [], rows, h => by
    simp only [encCells, Except.ok.injEq] at h
    subst h; simp
  | r :: rs, rows, h => by
    simp only [encCells] at h
    cases h1 : encCell t nR r t.hierarchy with
    | error e => simp [h1] at h
    | ok row =>
      cases h2 : encCells t nR rs with
      | error e => simp [h1, h2] at h
      | ok rows' =>
        simp only [h1, h2, Except.ok.injEq] at h
        subst h
        obtain ⟨hl, hg⟩ := encCells_good h2
        refine ⟨by simp [hl], ?_⟩
        intro row' hrow'
        cases hrow' with
        | head => exact encCell_good h1
        | tail _ h' => exact hg row' h'

theorem toH5_inv {b : Blob} {h : H5} (hh : toH5 b = .ok h) :
    ∃ slots, encCells b.tree b.nRunners b.results = .ok slots ∧
      h.tree = b.tree ∧ h.nRunners = b.nRunners ∧
      h.cellId = b.results.map (·.cellId) ∧
      h.assignment = slots.map (·.map (·.asg)) ∧
      h.prob = slots.map (·.map (·.prob)) ∧
      h.corr = slots.map (·.map (·.corr)) ∧
      h.agg = slots.map (·.map (·.agg)) ∧
      h.runners = (if b.nRunners > 0 then
          some { asg := slots.map (·.map (·.rAsg)), prob := slots.map (·.map (·.rProb)),
                 corr := slots.map (·.map (·.rCorr)) }
        else none) := by
  unfold toH5 at hh
  cases hr : b.results with
  | nil =>
    simp only [hr] at hh
    cases hhi : b.tree.hierarchy with
    | nil =>
      simp only [hhi, Except.ok.injEq] at hh
      subst hh
      refine ⟨[], by simp [encCells], rfl, rfl, rfl, rfl, rfl, rfl, rfl, ?_⟩
      by_cases hn : b.nRunners > 0 <;> simp [hn]
    | cons x xs => simp [hhi] at hh
  | cons first rest =>
    simp only [hr] at hh
    cases hf : firstFlags b.tree first b.tree.hierarchy with
    | error e => simp [hf] at hh
    | ok flags =>
      simp only [hf] at hh
      rw [← hr] at hh
      cases he : encCells b.tree b.nRunners b.results with
      | error e => simp [he] at hh
      | ok slots =>
        simp only [he, Except.ok.injEq] at hh
        subst hh
        rw [← hr]
        exact ⟨slots, he, rfl, rfl, rfl, rfl, rfl, rfl, rfl, rfl⟩

/-! ### what `ofH5` copies -/

theorem decLevel_nums {i2n : List (Lvl × List NodeId)} {hasR : Bool} {l : Lvl} {d : Bool}
    {s : Slot} {e : Lvl × LevelRec} (h : decLevel i2n hasR l d s = .ok e) :
    e.2.prob = s.prob ∧ e.2.corr = s.corr ∧ e.2.agg = s.agg := by
  unfold decLevel at h
  cases h1 : i2n.lookup l with
  | none => simp [h1] at h
  | some nodes =>
    cases h2 : pyIndex nodes s.asg with
    | error x => simp [h1, h2] at h
    | ok a =>
      simp only [h1, h2] at h
      cases d with
      | false =>
        simp only [Bool.false_eq_true, if_false, Except.ok.injEq] at h
        subst h; simp
      | true =>
        cases hasR with
        | false =>
          simp only [if_true, Bool.false_eq_true, if_false, Except.ok.injEq] at h
          subst h; simp
        | true =>
          simp only [if_true] at h
          cases h3 : decRunners nodes s.rAsg s.rProb s.rCorr with
          | error x => simp [h3] at h
          | ok v =>
            obtain ⟨ra, rp, rc⟩ := v
            simp only [h3, Except.ok.injEq] at h
            subst h; simp

theorem decCell_mem {i2n : List (Lvl × List NodeId)} {hasR : Bool} :
    ∀ {input : List (Lvl × Bool × Slot)} {es : List (Lvl × LevelRec)},
      decCell i2n hasR input = .ok es →
      ∀ e ∈ es, ∃ x ∈ input, decLevel i2n hasR x.1 x.2.1 x.2.2 = .ok e
  | [], es, h, e, he => by
    simp only [decCell, Except.ok.injEq] at h
    subst h; cases he
  | (l, d, s) :: rest, es, h, e, he => by
    simp only [decCell] at h
    cases h1 : decLevel i2n hasR l d s with
    | error x => simp [h1] at h
    | ok e0 =>
      cases h2 : decCell i2n hasR rest with
      | error x => simp [h1, h2] at h
      | ok es' =>
        simp only [h1, h2, Except.ok.injEq] at h
        subst h
        cases he with
        | head => exact ⟨(l, d, s), by simp, h1⟩
        | tail _ he' =>
          obtain ⟨x, hx, hd⟩ := decCell_mem h2 e he'
          exact ⟨x, by simp [hx], hd⟩

theorem decCells_mem {hier : List Lvl} {flags : List Bool} {i2n : List (Lvl × List NodeId)}
    {hasR : Bool} :
    ∀ {input : List (StrId × List Slot)} {rs : List Record},
      decCells hier flags i2n hasR input = .ok rs →
      ∀ r ∈ rs, ∃ x ∈ input, decCell i2n hasR (hier.zip (flags.zip x.2)) = .ok r.levels
  | [], rs, h, r, hr => by
    simp only [decCells, Except.ok.injEq] at h
    subst h; cases hr
  | (cid, row) :: rest, rs, h, r, hr => by
    simp only [decCells] at h
    cases h1 : decCell i2n hasR (hier.zip (flags.zip row)) with
    | error x => simp [h1] at h
    | ok levels =>
      cases h2 : decCells hier flags i2n hasR rest with
      | error x => simp [h1, h2] at h
      | ok rs' =>
        simp only [h1, h2, Except.ok.injEq] at h
        subst h
        cases hr with
        | head => exact ⟨(cid, row), by simp, h1⟩
        | tail _ hr' =>
          obtain ⟨x, hx, hd⟩ := decCells_mem h2 r hr'
          exact ⟨x, by simp [hx], hd⟩

/-- whatever was written, the numbers read back are never JSON `null` -/
theorem ofH5_toH5_numOK {b b' : Blob} {h : H5} (h1 : toH5 b = .ok h) (h2 : ofH5 h = .ok b') :
    ∀ r ∈ b'.results, ∀ e ∈ r.levels,
      numOK e.2.prob = true ∧ numOK e.2.corr = true ∧ numOK e.2.agg = true := by
  obtain ⟨slots, hes, ht, hn, hc, ha, hp, hco, hag, hrun⟩ := toH5_inv h1
  obtain ⟨_, hgood⟩ := encCells_good hes
  intro r hr e he
  -- the rows `ofH5` re-assembles are the slots up to their runner-up parts
  have key : ∃ (fa : Slot → List Int) (fp fc : Slot → List Num) (hasR : Bool),
      decCells h.tree.hierarchy h.directlyAssigned h.intToNode hasR
        (h.cellId.zip (slots.map (fun row => row.map (fun s => reSlot s (fa s) (fp s) (fc s)))))
        = .ok b'.results := by
    unfold ofH5 at h2
    by_cases hnr : b.nRunners > 0
    · simp only [hrun, hnr, if_true, ha, hp, hco, hag, rows_maps] at h2
      refine ⟨fun s => s.rAsg, fun s => s.rProb, fun s => s.rCorr, true, ?_⟩
      cases hd : decCells h.tree.hierarchy h.directlyAssigned h.intToNode true
          (h.cellId.zip (slots.map (fun row => row.map
            (fun s => reSlot s s.rAsg s.rProb s.rCorr)))) with
      | error x => simp [hd] at h2
      | ok rs =>
        simp only [hd, Except.ok.injEq] at h2
        subst h2; rfl
    · simp only [hrun, hnr, if_false, ha, hp, hco, hag, List.map_map, Function.comp_def,
        rows_maps] at h2
      refine ⟨fun _ => [], fun _ => [], fun _ => [], false, ?_⟩
      cases hd : decCells h.tree.hierarchy h.directlyAssigned h.intToNode false
          (h.cellId.zip (slots.map (fun row => row.map (fun s => reSlot s [] [] [])))) with
      | error x => simp [hd] at h2
      | ok rs =>
        simp only [hd, Except.ok.injEq] at h2
        subst h2; rfl
  obtain ⟨fa, fp, fc, hasR, hdec⟩ := key
  obtain ⟨x, hx, hcell⟩ := decCells_mem hdec r hr
  obtain ⟨y, hy, hlev⟩ := decCell_mem hcell e he
  have hrow : x.2 ∈ slots.map (fun row => row.map (fun s => reSlot s (fa s) (fp s) (fc s))) :=
    (List.of_mem_zip (a := x.1) (b := x.2) hx).2
  obtain ⟨row0, hrow0, hx2⟩ := List.mem_map.mp hrow
  have hs : y.2.2 ∈ x.2 := by
    have h1 := (List.of_mem_zip (a := y.1) (b := y.2) hy).2
    exact (List.of_mem_zip (a := y.2.1) (b := y.2.2) h1).2
  rw [← hx2] at hs
  obtain ⟨s0, hs0, hs0e⟩ := List.mem_map.mp hs
  obtain ⟨g1, g2, g3, _⟩ := (hgood row0 hrow0).2 s0 hs0
  obtain ⟨e1, e2, e3⟩ := decLevel_nums hlev
  rw [e1, e2, e3, ← hs0e]
  exact ⟨g1, g2, g3⟩

/-! ### the shape of whatever `ofH5` returns -/

theorem decRunners_lengths (nodes : List NodeId) :
    ∀ (a : List Int) (p c : List Num) (ra : List NodeId) (rp rc : List Num),
      decRunners nodes a p c = .ok (ra, rp, rc) →
      ra.length = rp.length ∧ ra.length = rc.length ∧ ra.length ≤ a.length := by
  intro a
  induction a with
  | nil => intro p c ra rp rc h; simp [decRunners] at h; obtain ⟨rfl, rfl, rfl⟩ := h; simp
  | cons a0 as ih =>
    intro p c ra rp rc h
    cases p with
    | nil => simp [decRunners] at h; obtain ⟨rfl, rfl, rfl⟩ := h; simp
    | cons p0 ps =>
      cases c with
      | nil => simp [decRunners] at h; obtain ⟨rfl, rfl, rfl⟩ := h; simp
      | cons c0 cs =>
        simp only [decRunners] at h
        by_cases hneg : a0 < 0
        · simp [hneg] at h; obtain ⟨rfl, rfl, rfl⟩ := h; simp
        · simp only [hneg, if_false] at h
          cases h1 : pyIndex nodes a0 with
          | error x => simp [h1] at h
          | ok n =>
            cases h2 : decRunners nodes as ps cs with
            | error x => simp [h1, h2] at h
            | ok v =>
              obtain ⟨ns, ps', cs'⟩ := v
              simp only [h1, h2, Except.ok.injEq, Prod.mk.injEq] at h
              obtain ⟨rfl, rfl, rfl⟩ := h
              obtain ⟨g1, g2, g3⟩ := ih ps cs ns ps' cs' h2
              simp [g1]
              omega

/-- runner-up lists as `hdf5_to_blob` builds them: all three present with
equal length on a directly assigned level, all three absent otherwise -/
def LevelRec.runnerShape (lr : LevelRec) (width : Nat) : Prop :=
  (lr.direct = true → ∃ ra rp rc, lr.runAsg = some ra ∧ lr.runProb = some rp ∧
      lr.runCorr = some rc ∧ ra.length = rp.length ∧ ra.length = rc.length ∧ ra.length ≤ width) ∧
  (lr.direct = false → lr.runAsg = none ∧ lr.runProb = none ∧ lr.runCorr = none)

theorem decLevel_shape {i2n : List (Lvl × List NodeId)} {hasR : Bool} {l : Lvl} {d : Bool}
    {s : Slot} {e : Lvl × LevelRec} (h : decLevel i2n hasR l d s = .ok e) :
    e.1 = l ∧ e.2.direct = d ∧ e.2.runnerShape s.rAsg.length := by
  unfold decLevel at h
  cases h1 : i2n.lookup l with
  | none => simp [h1] at h
  | some nodes =>
    cases h2 : pyIndex nodes s.asg with
    | error x => simp [h1, h2] at h
    | ok a =>
      simp only [h1, h2] at h
      cases d with
      | false =>
        simp only [Bool.false_eq_true, if_false, Except.ok.injEq] at h
        subst h; simp [LevelRec.runnerShape]
      | true =>
        cases hasR with
        | false =>
          simp only [if_true, Bool.false_eq_true, if_false, Except.ok.injEq] at h
          subst h; simp [LevelRec.runnerShape]
        | true =>
          simp only [if_true] at h
          cases h3 : decRunners nodes s.rAsg s.rProb s.rCorr with
          | error x => simp [h3] at h
          | ok v =>
            obtain ⟨ra, rp, rc⟩ := v
            simp only [h3, Except.ok.injEq] at h
            subst h
            obtain ⟨g1, g2, g3⟩ := decRunners_lengths nodes _ _ _ _ _ _ h3
            refine ⟨rfl, rfl, ?_, ?_⟩
            · intro _
              exact ⟨ra, rp, rc, rfl, rfl, rfl, g1, g2, g3⟩
            · intro hd
              simp at hd

theorem decCell_flags {i2n : List (Lvl × List NodeId)} {hasR : Bool} :
    ∀ {input : List (Lvl × Bool × Slot)} {es : List (Lvl × LevelRec)},
      decCell i2n hasR input = .ok es →
      es.map (fun e => (e.1, e.2.direct)) = input.map (fun x => (x.1, x.2.1))
  | [], es, h => by
    simp only [decCell, Except.ok.injEq] at h
    subst h; rfl
  | (l, d, s) :: rest, es, h => by
    simp only [decCell] at h
    cases h1 : decLevel i2n hasR l d s with
    | error x => simp [h1] at h
    | ok e0 =>
      cases h2 : decCell i2n hasR rest with
      | error x => simp [h1, h2] at h
      | ok es' =>
        simp only [h1, h2, Except.ok.injEq] at h
        subst h
        obtain ⟨g1, g2, _⟩ := decLevel_shape h1
        simp [g1, g2, decCell_flags h2]

theorem zip_zip_fst {α β γ} : ∀ (xs : List α) (ys : List β) (zs : List γ),
    (xs.zip (ys.zip zs)).map (fun x => (x.1, x.2.1)) = (xs.zip ys).take zs.length
  | [], _, _ => by simp
  | _ :: _, [], _ => by simp
  | _ :: _, _ :: _, [] => by simp
  | x :: xs, y :: ys, z :: zs => by simp [zip_zip_fst xs ys zs]

/-- whatever was written: every record read back has runner-up lists of the
`hdf5_to_blob` shape, and all records carry the same `(level, flag)` list -/
theorem ofH5_toH5_shape {b b' : Blob} {h : H5} (h1 : toH5 b = .ok h) (h2 : ofH5 h = .ok b') :
    (∀ r ∈ b'.results, ∀ e ∈ r.levels, e.2.runnerShape b.nRunners) ∧
    (∀ r ∈ b'.results, r.levels.map (fun e => (e.1, e.2.direct)) =
      (h.tree.hierarchy.zip h.directlyAssigned).take b.tree.hierarchy.length) := by
  obtain ⟨slots, hes, ht, hn, hc, ha, hp, hco, hag, hrun⟩ := toH5_inv h1
  obtain ⟨_, hgood⟩ := encCells_good hes
  have key : ∃ (fa : Slot → List Int) (fp fc : Slot → List Num) (hasR : Bool),
      (∀ s : Slot, s.rAsg.length = b.nRunners → (fa s).length ≤ b.nRunners) ∧
      decCells h.tree.hierarchy h.directlyAssigned h.intToNode hasR
        (h.cellId.zip (slots.map (fun row => row.map (fun s => reSlot s (fa s) (fp s) (fc s)))))
        = .ok b'.results := by
    unfold ofH5 at h2
    by_cases hnr : b.nRunners > 0
    · simp only [hrun, hnr, if_true, ha, hp, hco, hag, rows_maps] at h2
      refine ⟨fun s => s.rAsg, fun s => s.rProb, fun s => s.rCorr, true,
        fun s hs => by simp [hs], ?_⟩
      cases hd : decCells h.tree.hierarchy h.directlyAssigned h.intToNode true
          (h.cellId.zip (slots.map (fun row => row.map
            (fun s => reSlot s s.rAsg s.rProb s.rCorr)))) with
      | error x => simp [hd] at h2
      | ok rs =>
        simp only [hd, Except.ok.injEq] at h2
        subst h2; rfl
    · simp only [hrun, hnr, if_false, ha, hp, hco, hag, List.map_map, Function.comp_def,
        rows_maps] at h2
      refine ⟨fun _ => [], fun _ => [], fun _ => [], false, fun s hs => by simp, ?_⟩
      cases hd : decCells h.tree.hierarchy h.directlyAssigned h.intToNode false
          (h.cellId.zip (slots.map (fun row => row.map (fun s => reSlot s [] [] [])))) with
      | error x => simp [hd] at h2
      | ok rs =>
        simp only [hd, Except.ok.injEq] at h2
        subst h2; rfl
  obtain ⟨fa, fp, fc, hasR, hfa, hdec⟩ := key
  constructor
  · intro r hr e he
    obtain ⟨x, hx, hcell⟩ := decCells_mem hdec r hr
    obtain ⟨y, hy, hlev⟩ := decCell_mem hcell e he
    have hrow : x.2 ∈ slots.map (fun row => row.map (fun s => reSlot s (fa s) (fp s) (fc s))) :=
      (List.of_mem_zip (a := x.1) (b := x.2) hx).2
    obtain ⟨row0, hrow0, hx2⟩ := List.mem_map.mp hrow
    have hs : y.2.2 ∈ x.2 := by
      have h1 := (List.of_mem_zip (a := y.1) (b := y.2) hy).2
      exact (List.of_mem_zip (a := y.2.1) (b := y.2.2) h1).2
    rw [← hx2] at hs
    obtain ⟨s0, hs0, hs0e⟩ := List.mem_map.mp hs
    obtain ⟨_, _, _, hw, _, _⟩ := (hgood row0 hrow0).2 s0 hs0
    obtain ⟨_, _, hshape⟩ := decLevel_shape hlev
    have hlen : y.2.2.rAsg.length ≤ b.nRunners := by
      rw [← hs0e]; simpa [reSlot] using hfa s0 hw
    obtain ⟨g1, g2⟩ := hshape
    refine ⟨?_, g2⟩
    intro hd
    obtain ⟨ra, rp, rc, e1, e2, e3, l1, l2, l3⟩ := g1 hd
    exact ⟨ra, rp, rc, e1, e2, e3, l1, l2, by omega⟩
  · intro r hr
    obtain ⟨x, hx, hcell⟩ := decCells_mem hdec r hr
    have hrow : x.2 ∈ slots.map (fun row => row.map (fun s => reSlot s (fa s) (fp s) (fc s))) :=
      (List.of_mem_zip (a := x.1) (b := x.2) hx).2
    obtain ⟨row0, hrow0, hx2⟩ := List.mem_map.mp hrow
    have hlen : x.2.length = b.tree.hierarchy.length := by
      rw [← hx2]; simp [(hgood row0 hrow0).1]
    rw [decCell_flags hcell, zip_zip_fst, hlen]

/-! ### CSV rows, column by column -/

/-- the columns of one level, before level names are made readable -/
def levelKeys (t : Tree) (l : Lvl) : List (Option (Lvl × ColKind)) :=
  [some (l, .label), some (l, .name)]
    ++ (if some l = t.leafLevel then [some (l, .alias)] else [])
    ++ [some (l, .conf)]

/-- the column keys of the CSV file (`none` = `cell_id`) -/
def csvKeys (t : Tree) : List (Option (Lvl × ColKind)) :=
  none :: t.hierarchy.flatMap (levelKeys t)

/-- what a field must hold, given only its column key and the JSON record:
the label is the assignment, name / alias are the table look-ups (defaulting
to the label), the confidence is the number under the confidence key printed
with `%.4f` -/
def cellSpec (t : Tree) (taint : List Lvl) (ck : ConfKey) (r : Record) :
    Option (Lvl × ColKind) → Cell
  | none => .str r.cellId
  | some (l, kind) =>
    match r.levels.lookup l with
    | none => .empty
    | some lr =>
      match kind with
      | .label => .str lr.assignment
      | .name => .str (t.labelToName l lr.assignment .name)
      | .alias => .str (t.labelToName l lr.assignment .alias)
      | .conf => confCell (taint.contains l) (lr.conf ck)

theorem flatMap_congr' {α β} {f g : α → List β} : ∀ (ls : List α),
    (∀ a ∈ ls, f a = g a) → ls.flatMap f = ls.flatMap g
  | [], _ => rfl
  | a :: as, h => by
    simp only [List.flatMap_cons]
    rw [h a (by simp), flatMap_congr' as (fun b hb => h b (by simp [hb]))]

theorem csvColumns_eq (t : Tree) :
    csvColumns t = (csvKeys t).map (Option.map (fun (l, k) => (t.levelToName l, k))) := by
  simp only [csvColumns, csvKeys, List.map_cons, Option.map_none, List.map_flatMap]
  congr 1
  apply flatMap_congr'
  intro l _
  by_cases h : some l = t.leafLevel <;> simp [levelKeys, h]

theorem csvLevelCells_eq (t : Tree) (taint : List Lvl) (ck : ConfKey) (r : Record) (l : Lvl)
    (lr : LevelRec) (h : r.levels.lookup l = some lr) :
    csvLevelCells t taint ck l lr = (levelKeys t l).map (cellSpec t taint ck r) := by
  by_cases hl : some l = t.leafLevel <;> simp [csvLevelCells, levelKeys, cellSpec, h, hl]

theorem csvLevels_eq (t : Tree) (taint : List Lvl) (ck : ConfKey) (r : Record) :
    ∀ (ls : List Lvl), (∀ l ∈ ls, (r.levels.lookup l).isSome) →
      csvLevels t taint ck r ls =
        .ok ((ls.flatMap (levelKeys t)).map (cellSpec t taint ck r))
  | [], _ => by simp [csvLevels]
  | l :: ls, h => by
    have ih := csvLevels_eq t taint ck r ls (fun l' hl' => h l' (by simp [hl']))
    cases hl : r.levels.lookup l with
    | none => have := h l (by simp); simp [hl] at this
    | some lr =>
      simp [csvLevels, hl, ih, csvLevelCells_eq t taint ck r l lr hl]

theorem csvRows_eq (t : Tree) (taint : List Lvl) (ck : ConfKey) :
    ∀ (rs : List Record), (∀ r ∈ rs, ∀ l ∈ t.hierarchy, (r.levels.lookup l).isSome) →
      csvRows t taint ck rs = .ok (rs.map (fun r => (csvKeys t).map (cellSpec t taint ck r)))
  | [], _ => by simp [csvRows]
  | r :: rs, h => by
    have ih := csvRows_eq t taint ck rs (fun r' hr' => h r' (by simp [hr']))
    have h1 := csvLevels_eq t taint ck r t.hierarchy (h r (by simp))
    simp [csvRows, csvRow, h1, ih, csvKeys, cellSpec]

/-! ### the embedded taxonomy -/

theorem lookup_map_val {β γ} (f : Nat → β → γ) (l : Nat) :
    ∀ (xs : List (Nat × β)),
      (xs.map (fun kv => (kv.1, f kv.1 kv.2))).lookup l = (xs.lookup l).map (f l)
  | [] => by simp
  | (k, v) :: xs => by
    by_cases h : l = k
    · subst h; simp [List.lookup]
    · have : (l == k) = false := by simpa using h
      simp only [List.map_cons, List.lookup, this]
      exact lookup_map_val f l xs

/-- what `dropCells` does to the dict of one level -/
def dropLevelCells (t : Tree) (l : Lvl) (m : List (NodeId × List Nat)) : List (NodeId × List Nat) :=
  if some l = t.leafLevel then m.map (fun nv => (nv.1, [])) else m

theorem dropCells_levels (t : Tree) :
    t.dropCells.levels = t.levels.map (fun kv => (kv.1, dropLevelCells t kv.1 kv.2)) := by
  simp only [Tree.dropCells, dropLevelCells]
  apply List.map_congr_left
  intro kv _
  obtain ⟨k, v⟩ := kv
  by_cases h : some k = t.leafLevel <;> simp [h]

theorem dropCells_lookup (t : Tree) (l : Lvl) :
    t.dropCells.levels.lookup l = (t.levels.lookup l).map (dropLevelCells t l) := by
  rw [dropCells_levels]
  exact lookup_map_val (dropLevelCells t) l t.levels

theorem dropCells_nodesAt (t : Tree) (l : Lvl) : t.dropCells.nodesAt l = t.nodesAt l := by
  simp only [Tree.nodesAt, dropCells_lookup, Option.map_map]
  congr 1
  funext m
  by_cases h : some l = t.leafLevel <;> simp [dropLevelCells, h, Function.comp_def]

/-! ### `re_order_blob` -/

theorem lookupLast_some {c : StrId} : ∀ {rs : List Record} {r : Record},
    lookupLast c rs = some r → r ∈ rs ∧ r.cellId = c
  | [], r, h => by simp [lookupLast] at h
  | x :: xs, r, h => by
    simp only [lookupLast] at h
    cases hx : lookupLast c xs with
    | some y =>
      rw [hx] at h
      simp only [Option.some.injEq] at h
      subst h
      have := lookupLast_some hx
      exact ⟨by simp [this.1], this.2⟩
    | none =>
      rw [hx] at h
      by_cases hc : x.cellId = c
      · simp [hc] at h; subst h; exact ⟨by simp, hc⟩
      · simp [hc] at h

theorem lookupLast_isSome {c : StrId} : ∀ {rs : List Record},
    c ∈ rs.map (·.cellId) → (lookupLast c rs).isSome
  | [], h => by simp at h
  | x :: xs, h => by
    simp only [lookupLast]
    cases hx : lookupLast c xs with
    | some y => simp
    | none =>
      by_cases hc : x.cellId = c
      · simp [hc]
      · have : c ∈ xs.map (·.cellId) := by
          simp only [List.map_cons, List.mem_cons] at h
          rcases h with h | h
          · exact absurd h.symm hc
          · exact h
        have := lookupLast_isSome this
        simp [hx] at this

theorem reorder_ok (rs : List Record) : ∀ (order : List StrId),
    (∀ c ∈ order, c ∈ rs.map (·.cellId)) →
    ∃ rs', reorder rs order = .ok rs' ∧ rs'.map (·.cellId) = order ∧ ∀ r ∈ rs', r ∈ rs
  | [], _ => ⟨[], by simp [reorder], by simp, by simp⟩
  | c :: cs, h => by
    obtain ⟨rs', h1, h2, h3⟩ := reorder_ok rs cs (fun c' hc' => h c' (by simp [hc']))
    have hs := lookupLast_isSome (h c (by simp))
    cases hl : lookupLast c rs with
    | none => simp [hl] at hs
    | some r =>
      have := lookupLast_some hl
      refine ⟨r :: rs', by simp [reorder, hl, h1], by simp [this.2, h2], ?_⟩
      intro r' hr'
      cases hr' with
      | head => exact this.1
      | tail _ h' => exact h3 r' h'

/-! ### `blob_to_df`'s substring-based column typing -/

theorem isPrefixOf_append_sep (c : Char) (b : List Char) :
    ∀ (w a : List Char), c ∉ w → w.isPrefixOf (a ++ c :: b) = w.isPrefixOf a
  | [], _, _ => by simp [List.isPrefixOf]
  | x :: w, [], h => by
    have hx : (x == c) = false := by
      simp only [List.mem_cons, not_or] at h
      simpa using (fun e => h.1 e.symm)
    simp [List.isPrefixOf, hx]
  | x :: w, y :: a, h => by
    have h' : c ∉ w := fun hm => h (List.mem_cons_of_mem _ hm)
    simp [List.isPrefixOf, isPrefixOf_append_sep c b w a h']

/-- a word without the separator occurs in `a ++ sep :: b` iff it occurs in `a`
or in `b` (it cannot straddle the separator) -/
theorem infixB_append_sep (c : Char) (b w : List Char) (hc : c ∉ w) (hw : w ≠ []) :
    ∀ (a : List Char), infixB w (a ++ c :: b) = (infixB w a || infixB w b)
  | [] => by
    have h0 := isPrefixOf_append_sep c b w [] hc
    simp only [List.nil_append] at h0
    have h1 : w.isPrefixOf [] = false := by
      cases w with
      | nil => exact absurd rfl hw
      | cons x w => rfl
    have h2 : w.isEmpty = false := by
      cases w with
      | nil => exact absurd rfl hw
      | cons x w => rfl
    simp [infixB, h0, h1, h2]
  | y :: a => by
    have h0 := isPrefixOf_append_sep c b w (y :: a) hc
    simp only [List.cons_append] at h0
    simp only [List.cons_append, infixB, h0, infixB_append_sep c b w hc hw a, Bool.or_assoc]

/-- the confidence column of a level is categorical exactly when the READABLE
LEVEL NAME contains one of the four words: the suffixes
`_bootstrapping_probability` / `_avg_correlation` contain none, and no word can
straddle the `_` -/
theorem colIsCategory_dfConfColumn (name : String) (ck : ConfKey) :
    colIsCategory (dfConfColumn name ck) = taintWords.any (strContains name) := by
  have key : ∀ w : String, '_' ∉ w.toList → w.toList ≠ [] →
      infixB w.toList ck.keyName.toList = false →
      strContains (dfConfColumn name ck) w = strContains name w := by
    intro w h1 h2 h3
    simp only [strContains, dfConfColumn, String.toList_append]
    have : "_".toList = ['_'] := by decide
    rw [this, List.append_assoc, List.singleton_append, infixB_append_sep '_' _ _ h1 h2, h3,
      Bool.or_false]
  simp only [colIsCategory, taintWords, List.any_cons, List.any_nil, Bool.or_false]
  rw [key "label" (by decide) (by decide) (by cases ck <;> decide),
    key "name" (by decide) (by decide) (by cases ck <;> decide),
    key "alias" (by decide) (by decide) (by cases ck <;> decide),
    key "assignment" (by decide) (by decide) (by cases ck <;> decide)]

theorem mem_taintOf (text : Lvl → String) (ck : ConfKey) (h : List Lvl) (l : Lvl) :
    (taintOf text ck h).contains l = true ↔
      l ∈ h ∧ colIsCategory (dfConfColumn (text l) ck) = true := by
  simp [taintOf, List.mem_filter]

end CTM.Output
