/-
  Lemmas about the stage-file model (`CTM.Model.StageFiles`), used by
  `CTM.Props.C18.Names`: rearrangements of a list, the name → column dict, the
  reader of the statistics file (`leafMeanRow`, `leafMeans`), the matrices
  `downsampleGenes` / `downsampleCells`, the per-node data of the mapper.
-/
import CTM.Model.StageFiles
import CTM.Lemmas.Stats
import CTM.Lemmas.Markers
import CTM.Lemmas.TreeLeaves
import CTM.Lemmas.TreeValidate
import Mathlib.Data.List.Perm.Basic
import Mathlib.Data.List.Nodup
import Mathlib.Data.List.Pairwise

namespace CTM.StageFiles
open CTM CTM.Stats CTM.Markers

/-- `perm` lists `0 … n-1`, each once, in some order -/
def IsPerm (perm : List Nat) (n : Nat) : Prop := perm.Perm (List.range n)

theorem IsPerm.length_eq {perm : List Nat} {n : Nat} (h : IsPerm perm n) : perm.length = n := by
  simpa using List.Perm.length_eq h

theorem IsPerm.nodup {perm : List Nat} {n : Nat} (h : IsPerm perm n) : perm.Nodup :=
  (List.Perm.nodup_iff h).2 List.nodup_range

theorem IsPerm.mem_iff {perm : List Nat} {n : Nat} (h : IsPerm perm n) (i : Nat) :
    i ∈ perm ↔ i < n := by
  rw [List.Perm.mem_iff h]; simp

theorem IsPerm.getElem_lt {perm : List Nat} {n : Nat} (h : IsPerm perm n) (j : Nat)
    (hj : j < perm.length) : perm[j] < n :=
  (h.mem_iff _).1 (List.getElem_mem hj)

theorem IsPerm.idxOf_lt {perm : List Nat} {n : Nat} (h : IsPerm perm n) (i : Nat) (hi : i < n) :
    perm.idxOf i < n := by
  have := List.idxOf_lt_length_of_mem ((h.mem_iff i).2 hi)
  rwa [h.length_eq] at this

theorem filterMap_all_some {α β : Type} (f : α → Option β) :
    ∀ (l : List α), (∀ a ∈ l, (f a).isSome) →
      (l.filterMap f).length = l.length ∧ ∀ k : Nat, (l.filterMap f)[k]? = l[k]?.bind f := by
  intro l
  induction l with
  | nil => intro _; exact ⟨rfl, fun k => by simp⟩
  | cons a l ih =>
    intro h
    obtain ⟨b, hb⟩ := Option.isSome_iff_exists.1 (h a (by simp))
    obtain ⟨i1, i2⟩ := ih (fun x hx => h x (by simp [hx]))
    rw [List.filterMap_cons_some hb]
    refine ⟨by simp [i1], fun k => ?_⟩
    cases k with
    | zero => simp [hb]
    | succ k => simpa using i2 k

theorem permuteList_all_some {α : Type} (perm : List Nat) (xs : List α) (h : IsPerm perm xs.length) :
    ∀ i ∈ List.range xs.length, (xs[perm.idxOf i]?).isSome := by
  intro i hi
  have hi' : i < xs.length := by simpa using hi
  have := h.idxOf_lt i hi'
  simp [this]

theorem permuteList_length {α : Type} (perm : List Nat) (xs : List α) (h : IsPerm perm xs.length) :
    (permuteList perm xs).length = xs.length := by
  have := (filterMap_all_some (fun i => xs[perm.idxOf i]?) _ (permuteList_all_some perm xs h)).1
  simpa [permuteList] using this

theorem permuteList_getElem? {α : Type} (perm : List Nat) (xs : List α) (h : IsPerm perm xs.length)
    (i : Nat) (hi : i < xs.length) : (permuteList perm xs)[i]? = xs[perm.idxOf i]? := by
  have := (filterMap_all_some (fun i => xs[perm.idxOf i]?) _ (permuteList_all_some perm xs h)).2 i
  simp only [permuteList]
  rw [this, List.getElem?_range hi]
  rfl

/-- the element at position `j` moves to position `perm[j]` -/
theorem permuteList_at {α : Type} (perm : List Nat) (xs : List α) (h : IsPerm perm xs.length)
    (j : Nat) (hj : j < perm.length) : (permuteList perm xs)[perm[j]]? = xs[j]? := by
  rw [permuteList_getElem? perm xs h _ (h.getElem_lt j hj), h.nodup.idxOf_getElem]

theorem permuteList_at' {α : Type} (perm : List Nat) (xs : List α) (h : IsPerm perm xs.length)
    (j q : Nat) (hq : perm[j]? = some q) : (permuteList perm xs)[q]? = xs[j]? := by
  obtain ⟨hj, rfl⟩ := List.getElem?_eq_some_iff.1 hq
  exact permuteList_at perm xs h j hj

theorem permuteList_perm {α : Type} (perm : List Nat) (xs : List α) (h : IsPerm perm xs.length) :
    (permuteList perm xs).Perm xs := by
  have h1 : (permuteList perm xs).Perm (perm.filterMap (fun i => xs[perm.idxOf i]?)) :=
    List.Perm.filterMap _ (List.Perm.symm h)
  have h2 : perm.map (fun i => xs[perm.idxOf i]?) = xs.map some := by
    apply List.ext_getElem?
    intro j
    by_cases hj : j < perm.length
    · have hj' : j < xs.length := by rw [← h.length_eq]; exact hj
      simp [hj, hj', h.nodup.idxOf_getElem]
    · have hj' : ¬ j < xs.length := by rw [← h.length_eq]; exact hj
      simp [hj, hj']
  have h3 : perm.filterMap (fun i => xs[perm.idxOf i]?) = xs := by
    have : perm.filterMap (fun i => xs[perm.idxOf i]?)
        = (perm.map (fun i => xs[perm.idxOf i]?)).filterMap id := by
      rw [List.filterMap_map]; rfl
    rw [this, h2, List.filterMap_map]
    simp
  rw [h3] at h1
  exact h1

theorem permuteList_nodup {α : Type} (perm : List Nat) (xs : List α) (h : IsPerm perm xs.length)
    (hn : xs.Nodup) : (permuteList perm xs).Nodup :=
  (List.Perm.nodup_iff (permuteList_perm perm xs h)).2 hn

theorem permuteList_mem {α : Type} (perm : List Nat) (xs : List α) (h : IsPerm perm xs.length)
    (a : α) : a ∈ permuteList perm xs ↔ a ∈ xs :=
  List.Perm.mem_iff (permuteList_perm perm xs h)

/-- with distinct names the name → column dict is the inverse of indexing -/
theorem nameToIdx_iff (names : List Gene) (hn : names.Nodup) (g : Gene) (i : Nat) :
    nameToIdx names g = some i ↔ names[i]? = some g := by
  constructor
  · exact nameToIdx_some names g i
  · intro h
    obtain ⟨k, hk⟩ := nameToIdx_of_mem names g (List.mem_of_getElem? h)
    have hk' := nameToIdx_some names g k hk
    obtain ⟨hi, e1⟩ := List.getElem?_eq_some_iff.1 h
    obtain ⟨hk2, e2⟩ := List.getElem?_eq_some_iff.1 hk'
    have : k = i := (List.Nodup.getElem_inj_iff hn).1 (e2.trans e1.symm)
    rw [hk, this]

theorem nameToIdx_none (names : List Gene) (g : Gene) : nameToIdx names g = none ↔ g ∉ names := by
  constructor
  · intro h hm
    obtain ⟨i, hi⟩ := nameToIdx_of_mem names g hm
    rw [h] at hi; cases hi
  · intro h
    cases hx : nameToIdx names g with
    | none => rfl
    | some i => exact absurd (nameToIdx_mem names g i hx) h

end CTM.StageFiles

namespace CTM.StageFiles
open CTM CTM.Stats CTM.Markers

/-- the value the mapper sees for (leaf, gene NAME) -/
def meanByName (f : StatsFile) (leaf : Leaf) (g : Gene) : Option Rat :=
  match leafMeanRow f leaf, nameToIdx f.colNames g with
  | .ok row, some j => row[j]?
  | _, _ => none

/-- every leaf of the stored taxonomy has a row inside the arrays, of the width of `col_names` -/
def FileOK (f : StatsFile) : Prop :=
  ∀ leaf ∈ leavesOf f.tree, ∃ r row, f.clusterToRow.lookup leaf = some r ∧
    f.data[r]? = some row ∧ row.genes.length = f.colNames.length

/-- `sum / max(1, n_cells)` of one row read into a zeroed accumulator of `g` genes -/
def meanRow (g : Nat) (row : Row) : List Rat :=
  ((Row.zero g).add row).genes.map (fun s => meanOf ((Row.zero g).add row).n s.sum)

theorem vadd_replicate_zero_left (k : Nat) : ∀ (xs : List GStat), k ≤ xs.length →
    vadd (List.replicate k GStat.zero) xs = xs := by
  induction k with
  | zero => intro xs _; cases xs <;> simp
  | succ k ih =>
    intro xs h
    cases xs with
    | nil => simp at h
    | cons x xs =>
      simp only [List.replicate_succ, vadd, GStat.zero_add]
      rw [ih xs (by simpa using h)]

theorem meanRow_of_width (g : Nat) (row : Row) (h : row.genes.length = g) :
    meanRow g row = row.genes.map (fun s => meanOf row.n s.sum) := by
  simp only [meanRow, Row.add, Row.zero, Nat.zero_add]
  rw [vadd_replicate_zero_left g row.genes (by omega)]

theorem meanRow_length (g : Nat) (row : Row) (h : row.genes.length = g) :
    (meanRow g row).length = g := by
  rw [meanRow_of_width g row h]; simpa using h

/-- `leafMeanRow` depends on the file only through the row `cluster_to_row` points to -/
theorem leafMeanRow_eq (f : StatsFile) (leaf : Leaf) :
    leafMeanRow f leaf = match readRow f.data f.clusterToRow leaf with
      | .error e => .error (.stats e)
      | .ok row => .ok (meanRow f.colNames.length row) := by
  unfold leafMeanRow aggregateStats
  simp only [mapMExcept]
  cases h : readRow f.data f.clusterToRow leaf with
  | error e => rfl
  | ok row => simp [meanRow]

theorem readRow_ok (data : Buffer) (c2r : List (Nat × Nat)) (leaf r : Nat) (row : Row)
    (h1 : c2r.lookup leaf = some r) (h2 : data[r]? = some row) : readRow data c2r leaf = .ok row := by
  simp [readRow, h1, h2]

theorem leafMeanRow_of_row (f : StatsFile) (leaf : Leaf) (r : Nat) (row : Row)
    (h1 : f.clusterToRow.lookup leaf = some r) (h2 : f.data[r]? = some row)
    (h3 : row.genes.length = f.colNames.length) :
    leafMeanRow f leaf = .ok (row.genes.map (fun s => meanOf row.n s.sum)) := by
  rw [leafMeanRow_eq, readRow_ok _ _ _ _ _ h1 h2]
  simp only
  rw [meanRow_of_width _ _ h3]

/-! ### `mapME` -/

theorem mapME_ok_length {α β ε : Type} (f : α → Except ε β) : ∀ (l : List α) (out : List β),
    mapME f l = .ok out → out.length = l.length ∧
      ∀ (i : Nat) (a : α), l[i]? = some a → ∃ b, out[i]? = some b ∧ f a = .ok b := by
  intro l
  induction l with
  | nil =>
    intro out h
    simp only [mapME, Except.ok.injEq] at h
    subst h
    exact ⟨rfl, fun i a hi => by simp at hi⟩
  | cons a l ih =>
    intro out h
    simp only [mapME] at h
    cases ha : f a with
    | error e => simp [ha] at h
    | ok b =>
      cases hl : mapME f l with
      | error e => simp [ha, hl] at h
      | ok bs =>
        simp only [ha, hl, Except.ok.injEq] at h
        subst h
        obtain ⟨i1, i2⟩ := ih bs hl
        refine ⟨by simp [i1], fun i x hi => ?_⟩
        cases i with
        | zero =>
          simp only [List.getElem?_cons_zero, Option.some.injEq] at hi
          subst hi
          exact ⟨b, by simp, ha⟩
        | succ i =>
          simp only [List.getElem?_cons_succ] at hi ⊢
          exact i2 i x hi

theorem mapME_congr {α β ε : Type} (f g : α → Except ε β) : ∀ (l : List α),
    (∀ a ∈ l, f a = g a) → mapME f l = mapME g l := by
  intro l
  induction l with
  | nil => intro _; rfl
  | cons a l ih =>
    intro h
    simp only [mapME]
    rw [h a (by simp), ih (fun x hx => h x (by simp [hx]))]

theorem mapME_ok_of_forall {α β ε : Type} (f : α → Except ε β) : ∀ (l : List α),
    (∀ a ∈ l, ∃ b, f a = .ok b) → ∃ out, mapME f l = .ok out := by
  intro l
  induction l with
  | nil => intro _; exact ⟨[], rfl⟩
  | cons a l ih =>
    intro h
    obtain ⟨b, hb⟩ := h a (by simp)
    obtain ⟨bs, hbs⟩ := ih (fun x hx => h x (by simp [hx]))
    exact ⟨b :: bs, by simp [mapME, hb, hbs]⟩

theorem leafMeans_shape (f : StatsFile) (M : Matrix) (h : leafMeans f = .ok M) :
    M.cellIds = RawTree.sortNat (leavesOf f.tree) ∧ M.geneIds = f.colNames ∧
    M.data.length = M.cellIds.length ∧
    ∀ (i : Nat) (leaf : Leaf), M.cellIds[i]? = some leaf →
      ∃ row, M.data[i]? = some row ∧ leafMeanRow f leaf = .ok row := by
  unfold leafMeans at h
  simp only at h
  cases hm : mapME (leafMeanRow f) (RawTree.sortNat (leavesOf f.tree)) with
  | error e => simp [hm] at h
  | ok rows =>
    simp only [hm, Except.ok.injEq] at h
    subst h
    obtain ⟨i1, i2⟩ := mapME_ok_length _ _ _ hm
    exact ⟨rfl, rfl, i1, i2⟩

/-- a file whose leaves all have a row is read without error -/
theorem leafMeans_ok (f : StatsFile) (h : FileOK f) : ∃ M, leafMeans f = .ok M := by
  unfold leafMeans
  obtain ⟨rows, hr⟩ := mapME_ok_of_forall (leafMeanRow f) (RawTree.sortNat (leavesOf f.tree)) (by
    intro leaf hl
    obtain ⟨r, row, h1, h2, h3⟩ := h leaf ((mem_sortNat _ _).1 hl)
    exact ⟨_, leafMeanRow_of_row f leaf r row h1 h2 h3⟩)
  exact ⟨{ cellIds := RawTree.sortNat (leavesOf f.tree), geneIds := f.colNames, data := rows }, by
    simp only [hr]⟩

/-! ### another row order -/

theorem lookup_map_snd (φ : Nat × Nat → Nat × Nat) (hφ : ∀ p, (φ p).1 = p.1) (k : Nat) :
    ∀ (l : List (Nat × Nat)), (l.map φ).lookup k = (l.lookup k).map (fun v => (φ (k, v)).2) := by
  intro l
  induction l with
  | nil => rfl
  | cons p l ih =>
    obtain ⟨a, b⟩ := p
    simp only [List.map_cons]
    have e : φ (a, b) = ((φ (a, b)).1, (φ (a, b)).2) := rfl
    rw [e, hφ (a, b)]
    simp only [List.lookup_cons]
    by_cases hk : k = a
    · subst hk; simp
    · have : (k == a) = false := by simpa using hk
      simp only [this]
      exact ih

theorem readRow_permuteRows (perm : List Nat) (f : StatsFile) (h : IsPerm perm f.data.length)
    (leaf : Leaf) :
    readRow (permuteRows perm f).data (permuteRows perm f).clusterToRow leaf
      = readRow f.data f.clusterToRow leaf := by
  simp only [permuteRows, readRow]
  rw [lookup_map_snd _ (by intro p; cases hp : perm[p.2]? <;> simp) leaf]
  cases hl : f.clusterToRow.lookup leaf with
  | none => rfl
  | some r =>
    simp only [Option.map_some]
    by_cases hr : r < f.data.length
    · have hr' : r < perm.length := by rw [h.length_eq]; exact hr
      have e : perm[r]? = some perm[r] := by simp [hr']
      simp only [e]
      rw [permuteList_at perm f.data h r hr']
    · have hr' : ¬ r < perm.length := by rw [h.length_eq]; exact hr
      have e : perm[r]? = none := by simp; omega
      simp only [e]
      have e1 : f.data[r]? = none := by simp; omega
      have e2 : (permuteList perm f.data)[r]? = none := by
        rw [List.getElem?_eq_none_iff, permuteList_length perm f.data h]; omega
      rw [e1, e2]

theorem leafMeanRow_permuteRows (perm : List Nat) (f : StatsFile) (h : IsPerm perm f.data.length)
    (leaf : Leaf) : leafMeanRow (permuteRows perm f) leaf = leafMeanRow f leaf := by
  rw [leafMeanRow_eq, leafMeanRow_eq, readRow_permuteRows perm f h leaf]
  rfl

theorem leafMeans_permuteRows (perm : List Nat) (f : StatsFile) (h : IsPerm perm f.data.length) :
    leafMeans (permuteRows perm f) = leafMeans f := by
  unfold leafMeans
  have : leafMeanRow (permuteRows perm f) = leafMeanRow f :=
    funext (leafMeanRow_permuteRows perm f h)
  rw [this]
  rfl

end CTM.StageFiles

namespace CTM.StageFiles
open CTM CTM.Stats CTM.Markers

/-! ### another gene order -/

theorem permuteList_map {α β : Type} (perm : List Nat) (φ : α → β) (xs : List α) :
    permuteList perm (xs.map φ) = (permuteList perm xs).map φ := by
  simp only [permuteList, List.length_map, List.getElem?_map, List.map_filterMap]

theorem readRow_permuteGenes (perm : List Nat) (f : StatsFile) (leaf : Leaf) :
    readRow (permuteGenes perm f).data (permuteGenes perm f).clusterToRow leaf
      = match readRow f.data f.clusterToRow leaf with
        | .error e => .error e
        | .ok row => .ok { row with genes := permuteList perm row.genes } := by
  simp only [permuteGenes, readRow]
  cases hl : f.clusterToRow.lookup leaf with
  | none => rfl
  | some r =>
    simp only [List.getElem?_map]
    cases hr : f.data[r]? with
    | none => rfl
    | some row => rfl

theorem readRow_mem (data : Buffer) (c2r : List (Nat × Nat)) (leaf : Nat) (row : Row)
    (h : readRow data c2r leaf = .ok row) : row ∈ data := by
  unfold readRow at h
  cases hl : c2r.lookup leaf with
  | none => simp [hl] at h
  | some r =>
    cases hr : data[r]? with
    | none => simp [hl, hr] at h
    | some row' =>
      simp only [hl, hr, Except.ok.injEq] at h
      subst h
      exact List.mem_of_getElem? hr

theorem leafMeanRow_permuteGenes (perm : List Nat) (f : StatsFile)
    (h : IsPerm perm f.colNames.length)
    (hw : ∀ row ∈ f.data, row.genes.length = f.colNames.length) (leaf : Leaf) :
    leafMeanRow (permuteGenes perm f) leaf = match leafMeanRow f leaf with
      | .error e => .error e
      | .ok row => .ok (permuteList perm row) := by
  rw [leafMeanRow_eq, leafMeanRow_eq, readRow_permuteGenes]
  cases hr : readRow f.data f.clusterToRow leaf with
  | error e => rfl
  | ok row =>
    have hlen := hw row (readRow_mem _ _ _ _ hr)
    have hcl : (permuteGenes perm f).colNames.length = f.colNames.length :=
      permuteList_length perm f.colNames h
    simp only [hcl]
    rw [meanRow_of_width _ row hlen, meanRow_of_width _ _ (by
      simp only
      rw [permuteList_length perm row.genes (by rw [hlen]; exact h)]
      exact hlen)]
    simp only [permuteList_map]

theorem leafMeanRow_length (f : StatsFile) (hw : ∀ row ∈ f.data, row.genes.length = f.colNames.length)
    (leaf : Leaf) (row : List Rat) (h : leafMeanRow f leaf = .ok row) :
    row.length = f.colNames.length := by
  rw [leafMeanRow_eq] at h
  cases hr : readRow f.data f.clusterToRow leaf with
  | error e => simp [hr] at h
  | ok r =>
    simp only [hr, Except.ok.injEq] at h
    subst h
    exact meanRow_length _ _ (hw r (readRow_mem _ _ _ _ hr))

theorem nameToIdx_permuteList (perm : List Nat) (names : List Gene) (h : IsPerm perm names.length)
    (hn : names.Nodup) (g : Gene) :
    nameToIdx (permuteList perm names) g = (nameToIdx names g).bind (fun j => perm[j]?) := by
  cases hj : nameToIdx names g with
  | none =>
    simp only [Option.bind_none]
    rw [nameToIdx_none, permuteList_mem perm names h, ← nameToIdx_none]
    exact hj
  | some j =>
    have hj' := nameToIdx_some names g j hj
    obtain ⟨hlt, _⟩ := List.getElem?_eq_some_iff.1 hj'
    have hlt' : j < perm.length := by rw [h.length_eq]; exact hlt
    simp only [Option.bind_some, List.getElem?_eq_getElem hlt']
    rw [nameToIdx_iff _ (permuteList_nodup perm names h hn), permuteList_at perm names h j hlt']
    exact hj'

theorem meanByName_permuteGenes (perm : List Nat) (f : StatsFile)
    (h : IsPerm perm f.colNames.length) (hn : f.colNames.Nodup)
    (hw : ∀ row ∈ f.data, row.genes.length = f.colNames.length) (leaf : Leaf) (g : Gene) :
    meanByName (permuteGenes perm f) leaf g = meanByName f leaf g := by
  unfold meanByName
  rw [leafMeanRow_permuteGenes perm f h hw leaf]
  have hc : (permuteGenes perm f).colNames = permuteList perm f.colNames := rfl
  rw [hc, nameToIdx_permuteList perm f.colNames h hn g]
  cases hr : leafMeanRow f leaf with
  | error e => rfl
  | ok row =>
    cases hj : nameToIdx f.colNames g with
    | none => rfl
    | some j =>
      have hj' := nameToIdx_some _ g j hj
      obtain ⟨hlt, _⟩ := List.getElem?_eq_some_iff.1 hj'
      have hlt' : j < perm.length := by rw [h.length_eq]; exact hlt
      have hrl := leafMeanRow_length f hw leaf row hr
      simp only [Option.bind_some, List.getElem?_eq_getElem hlt']
      exact permuteList_at perm row (by rw [hrl]; exact h) j hlt'

end CTM.StageFiles

namespace CTM.StageFiles
open CTM CTM.Stats CTM.Markers

/-! ### `downsample_genes`, `downsample_cells` -/

theorem pick_eq_mapME (row : List Rat) : ∀ (idx : List Nat),
    pick row idx = mapME (fun i => match row[i]? with
      | none => .error SErr.badIndex
      | some v => .ok v) idx := by
  intro idx
  induction idx with
  | nil => rfl
  | cons i is ih =>
    simp only [pick, mapME]
    cases row[i]? with
    | none => rfl
    | some v => simp only [ih]; cases mapME _ is <;> rfl

theorem pickRows_eq_mapME (data : List (List Rat)) : ∀ (idx : List Nat),
    pickRows data idx = mapME (fun i => match data[i]? with
      | none => .error SErr.badIndex
      | some v => .ok v) idx := by
  intro idx
  induction idx with
  | nil => rfl
  | cons i is ih =>
    simp only [pickRows, mapME]
    cases data[i]? with
    | none => rfl
    | some v => simp only [ih]; cases mapME _ is <;> rfl

/-- selecting positions of a list: succeeds when all positions are inside, and entry `j` of the
result is the entry at position `idx[j]` -/
theorem pick_spec (row : List Rat) (idx : List Nat) (h : ∀ i ∈ idx, i < row.length) :
    ∃ out, pick row idx = .ok out ∧ out.length = idx.length ∧
      ∀ (j i : Nat), idx[j]? = some i → out[j]? = row[i]? := by
  rw [pick_eq_mapME]
  obtain ⟨out, ho⟩ := mapME_ok_of_forall (fun i => match row[i]? with
      | none => Except.error SErr.badIndex
      | some v => Except.ok v) idx (by
    intro i hi
    have := h i hi
    exact ⟨row[i], by simp [this]⟩)
  obtain ⟨h1, h2⟩ := mapME_ok_length _ _ _ ho
  refine ⟨out, ho, h1, fun j i hj => ?_⟩
  obtain ⟨b, hb, hf⟩ := h2 j i hj
  rw [hb]
  cases hr : row[i]? with
  | none => simp [hr] at hf
  | some v =>
    simp only [hr, Except.ok.injEq] at hf
    rw [hf]

theorem pickRows_spec (data : List (List Rat)) (idx : List Nat) (h : ∀ i ∈ idx, i < data.length) :
    ∃ out, pickRows data idx = .ok out ∧ out.length = idx.length ∧
      ∀ (j i : Nat), idx[j]? = some i → out[j]? = data[i]? := by
  rw [pickRows_eq_mapME]
  obtain ⟨out, ho⟩ := mapME_ok_of_forall (fun i => match data[i]? with
      | none => Except.error SErr.badIndex
      | some v => Except.ok v) idx (by
    intro i hi
    have := h i hi
    exact ⟨data[i], by simp [this]⟩)
  obtain ⟨h1, h2⟩ := mapME_ok_length _ _ _ ho
  refine ⟨out, ho, h1, fun j i hj => ?_⟩
  obtain ⟨b, hb, hf⟩ := h2 j i hj
  rw [hb]
  cases hr : data[i]? with
  | none => simp [hr] at hf
  | some v =>
    simp only [hr, Except.ok.injEq] at hf
    rw [hf]

/-- `[name_to_col[n] for n in sel]` succeeds when every selected name is known -/
theorem colsOf_spec (names sel : List Gene) (h : ∀ g ∈ sel, g ∈ names) :
    ∃ idx, colsOf names sel = .ok idx ∧ idx.length = sel.length ∧
      (∀ i ∈ idx, i < names.length) ∧
      ∀ (j : Nat) (g : Gene), sel[j]? = some g → ∃ i, idx[j]? = some i ∧ nameToIdx names g = some i := by
  unfold colsOf
  obtain ⟨idx, hi⟩ := mapME_ok_of_forall (fun g => match nameToIdx names g with
      | some i => Except.ok i
      | none => Except.error SErr.keyError) sel (by
    intro g hg
    obtain ⟨i, hi⟩ := nameToIdx_of_mem names g (h g hg)
    exact ⟨i, by simp [hi]⟩)
  obtain ⟨h1, h2⟩ := mapME_ok_length _ _ _ hi
  have h3 : ∀ (j : Nat) (g : Gene), sel[j]? = some g →
      ∃ i, idx[j]? = some i ∧ nameToIdx names g = some i := by
    intro j g hj
    obtain ⟨b, hb, hf⟩ := h2 j g hj
    cases hn : nameToIdx names g with
    | none => simp [hn] at hf
    | some i =>
      simp only [hn, Except.ok.injEq] at hf
      exact ⟨i, by rw [hb, hf], rfl⟩
  refine ⟨idx, hi, h1, ?_, h3⟩
  intro i hi'
  obtain ⟨j, hj, he⟩ := List.getElem_of_mem hi'
  have hj' : j < sel.length := by omega
  obtain ⟨i', hi1, hi2⟩ := h3 j sel[j] (List.getElem?_eq_getElem hj')
  rw [List.getElem?_eq_getElem hj, he] at hi1
  cases hi1
  exact (List.getElem?_eq_some_iff.1 (nameToIdx_some names _ i hi2)).1

/-- `downsample_genes` by NAME: column `j` of the result is the column of the name `sel[j]` -/
theorem downsampleGenes_spec (m : Matrix) (sel : List Gene) (hsel : ∀ g ∈ sel, g ∈ m.geneIds)
    (hw : ∀ row ∈ m.data, row.length = m.geneIds.length) :
    ∃ out, downsampleGenes m sel = .ok out ∧ out.cellIds = m.cellIds ∧ out.geneIds = sel ∧
      out.data.length = m.data.length ∧
      ∀ (k j : Nat) (g : Gene), sel[j]? = some g →
        (out.data[k]?.bind (·[j]?)) =
          (m.data[k]?.bind (fun row => (nameToIdx m.geneIds g).bind (row[·]?))) := by
  obtain ⟨idx, hc, _, hlt, hidx⟩ := colsOf_spec m.geneIds sel hsel
  obtain ⟨d, hd⟩ := mapME_ok_of_forall (fun row => pick row idx) m.data (by
    intro row hr
    obtain ⟨out, ho, _⟩ := pick_spec row idx (fun i hi => by rw [hw row hr]; exact hlt i hi)
    exact ⟨out, ho⟩)
  obtain ⟨h1, h2⟩ := mapME_ok_length _ _ _ hd
  refine ⟨{ cellIds := m.cellIds, geneIds := sel, data := d }, ?_, rfl, rfl, h1, ?_⟩
  · unfold downsampleGenes
    simp only [hc, hd]
  · intro k j g hj
    obtain ⟨i, hi1, hi2⟩ := hidx j g hj
    simp only [hi2, Option.bind_some]
    cases hk : m.data[k]? with
    | none =>
      have : d[k]? = none := by
        rw [List.getElem?_eq_none_iff] at hk ⊢; omega
      simp [this]
    | some row =>
      obtain ⟨b, hb, hf⟩ := h2 k row hk
      obtain ⟨out, ho, _, hent⟩ := pick_spec row idx (fun i hi => by
        rw [hw row (List.mem_of_getElem? hk)]; exact hlt i hi)
      rw [ho] at hf
      cases hf
      simp only [hb, Option.bind_some]
      exact hent j i hi1

/-- `downsample_cells` by NAME: row `i` of the result is the row of the name `sel[i]` -/
theorem downsampleCells_spec (m : Matrix) (sel : List Nat) (hsel : ∀ c ∈ sel, c ∈ m.cellIds)
    (hlen : m.data.length = m.cellIds.length) :
    ∃ out, downsampleCells m sel = .ok out ∧ out.cellIds = sel ∧ out.geneIds = m.geneIds ∧
      out.data.length = sel.length ∧
      ∀ (i : Nat) (c : Nat), sel[i]? = some c →
        ∃ r, nameToIdx m.cellIds c = some r ∧ out.data[i]? = m.data[r]? := by
  obtain ⟨idx, hc, hl, hlt, hidx⟩ := colsOf_spec m.cellIds sel hsel
  obtain ⟨d, hd, hdl, hent⟩ := pickRows_spec m.data idx (fun i hi => by rw [hlen]; exact hlt i hi)
  refine ⟨{ cellIds := sel, geneIds := m.geneIds, data := d }, ?_, rfl, rfl, by simp [hdl, hl], ?_⟩
  · unfold downsampleCells
    simp only [hc, hd]
  · intro i c hi
    obtain ⟨r, hr1, hr2⟩ := hidx i c hi
    exact ⟨r, hr2, hent i r hr1⟩

end CTM.StageFiles

namespace CTM.StageFiles
open CTM CTM.Stats CTM.Markers

/-! ### the mapper: per-node matrices -/

theorem createCache_names (t : RawTree) (lk : Lookup) (R Q : List Gene) (m : Nat) (c : Cache)
    (h : createCache (some t) lk R Q m = .ok c) : c.refNames = R ∧ c.queryNames = Q := by
  obtain ⟨_, _, _, _, _, _, _, _, hc⟩ := createCache_ok_parts t lk R Q m c h
  subst hc
  exact ⟨rfl, rfl⟩

theorem rowsFor_mem (R Q : List Gene) (ps : List (Nat × Nat)) (gs : List Gene) (h : RowsFor R Q ps gs) :
    ∀ g ∈ gs, g ∈ R ∧ g ∈ Q := by
  intro g hg
  obtain ⟨p, _, h1, h2⟩ := (rowsFor_row R Q ps gs h).2 g hg
  exact ⟨List.mem_of_getElem? h1, List.mem_of_getElem? h2⟩

/-- the level below a parent exists -/
theorem childLevelOf_some (t : RawTree) (hT : TreeWF t) (p : PKey) (hp : p ∈ t.allParents) :
    ∃ cl, childLevelOf t p = some cl := by
  cases p with
  | none =>
    cases hh : t.hierarchy with
    | nil => exact absurd hh hT.hierNonempty
    | cons a l => exact ⟨a, by simp [childLevelOf, hh]⟩
  | some ln =>
    obtain ⟨l, n⟩ := ln
    obtain ⟨hl, _⟩ := (mem_allParents t l n).1 hp
    obtain ⟨i, hi, he⟩ := List.getElem_of_mem hl
    have hlen : i + 1 < t.hierarchy.length := by
      have := List.length_dropLast (xs := t.hierarchy); omega
    have he' : t.hierarchy[i]'(by omega) = l := by
      rw [← he, List.getElem_dropLast]
    refine ⟨t.hierarchy[i + 1], ?_⟩
    simp only [childLevelOf]
    rw [← he', RawTree.childLevel_getElem hT.hierNodup (by omega)]
    exact List.getElem?_eq_getElem hlen

theorem leavesUnder_ok (t : RawTree) (hT : TreeWF t) (p : PKey) (hp : p ∈ t.allParents)
    (hc : Consulted t p) : ∃ leaves, leavesUnder t p = .ok leaves := by
  obtain ⟨ch, hch, _⟩ := hc
  obtain ⟨cl, hcl⟩ := childLevelOf_some t hT p hp
  have : t.children p = .ok ch := by
    unfold childrenOf at hch
    cases h : t.children p with
    | ok c => simp only [h, Except.ok.injEq] at hch; rw [hch]
    | error e => simp [h] at hch
  exact ⟨RawTree.sortNat (ch.flatMap (t.asLeaves cl)), by simp only [leavesUnder, this, hcl]⟩

/-- **the matrices of one node**: with a statistics file whose leaves all have a row, a marker
cache created for the file's gene names and the query's gene names, and a rectangular query
matrix, `assemble_query_data` succeeds for every consulted parent; column `j` of both matrices
is the gene NAMED `names[j]`, row `i` of the reference matrix is the leaf NAMED
`reference.cellIds[i]`.  `hsub`: the leaves below the parent are leaves of the stored taxonomy
(true for a validated tree, `leavesUnder_sub`). -/
theorem mapperNode_spec (f : StatsFile) (lk : Lookup) (query : Matrix) (m : Nat) (p : PKey)
    (c : Cache) (hT : TreeWF f.tree)
    (hq : ∀ row ∈ query.data, row.length = query.geneIds.length) (hf : FileOK f)
    (hp : p ∈ f.tree.allParents) (hc : Consulted f.tree p)
    (hcache : createCache (some f.tree) lk f.colNames query.geneIds m = .ok c)
    (hsub : ∀ leaves, leavesUnder f.tree p = .ok leaves → ∀ leaf ∈ leaves, leaf ∈ leavesOf f.tree) :
    ∃ names nd, mapperNode f lk query m p = .ok nd ∧ nd.query.geneIds = names ∧
      nd.reference.geneIds = names ∧
      (∀ g, g ∈ names ↔ g ∈ specGenes f.tree lk query.geneIds m p) ∧ names.Nodup ∧
      (∀ g ∈ names, g ∈ f.colNames ∧ g ∈ query.geneIds) ∧
      leavesUnder f.tree p = .ok nd.reference.cellIds ∧ nd.query.cellIds = query.cellIds ∧
      nd.reference.data.length = nd.reference.cellIds.length ∧
      nd.query.data.length = query.data.length ∧
      (∀ (i : Nat) (leaf : Leaf) (j : Nat) (g : Gene), nd.reference.cellIds[i]? = some leaf →
        names[j]? = some g → (nd.reference.data[i]?.bind (·[j]?)) = meanByName f leaf g) ∧
      (∀ (k j : Nat) (g : Gene), names[j]? = some g →
        (nd.query.data[k]?.bind (·[j]?)) =
          (query.data[k]?.bind (fun row => (nameToIdx query.geneIds g).bind (row[·]?)))) := by
  obtain ⟨rows, names, hg, hrf, _, _, _, hmem, hnd⟩ :=
    createCache_group f.tree (treeOK_of_wf f.tree hT) lk f.colNames query.geneIds m c hcache p hp hc
  obtain ⟨hR, hQ⟩ := createCache_names _ _ _ _ _ _ hcache
  obtain ⟨hnR, hnQ⟩ := rowsFor_namesAt _ _ _ _ hrf
  obtain ⟨means, hmeans⟩ := leafMeans_ok f hf
  obtain ⟨hm1, hm2, hm3, hm4⟩ := leafMeans_shape f means hmeans
  obtain ⟨leaves, hleaves⟩ := leavesUnder_ok f.tree hT p hp hc
  have hinR := rowsFor_mem _ _ _ _ hrf
  -- the query side
  obtain ⟨qd, hqd, hqc, hqg, hql, hqe⟩ := downsampleGenes_spec query names
    (fun g hg => (hinR g hg).2) hq
  -- the rows of the leaves
  obtain ⟨sub, hsd, hsc, hsg, hsl, hse⟩ := downsampleCells_spec means leaves (by
    intro leaf hl
    rw [hm1, mem_sortNat]
    exact hsub leaves hleaves leaf hl) hm3
  -- every row of `sub` is the row read for its leaf
  have hrow : ∀ (i : Nat) (leaf : Leaf), leaves[i]? = some leaf →
      ∃ row, sub.data[i]? = some row ∧ leafMeanRow f leaf = .ok row ∧
        row.length = f.colNames.length := by
    intro i leaf hi
    obtain ⟨r, hr1, hr2⟩ := hse i leaf hi
    obtain ⟨row, hrow1, hrow2⟩ := hm4 r leaf (nameToIdx_some _ _ _ hr1)
    refine ⟨row, by rw [hr2, hrow1], hrow2, ?_⟩
    obtain ⟨r', row', h1, h2, h3⟩ := hf leaf (hsub leaves hleaves leaf (List.mem_of_getElem? hi))
    rw [leafMeanRow_of_row f leaf r' row' h1 h2 h3] at hrow2
    cases hrow2
    simpa using h3
  obtain ⟨rd, hrd, hrc, hrg, hrl, hre⟩ := downsampleGenes_spec sub names
    (fun g hg => by rw [hsg, hm2]; exact (hinR g hg).1) (by
    intro row hr
    obtain ⟨i, hi, he⟩ := List.getElem_of_mem hr
    have hi' : i < leaves.length := by omega
    obtain ⟨row', h1, _, h3⟩ := hrow i leaves[i] (List.getElem?_eq_getElem hi')
    rw [List.getElem?_eq_getElem hi, he] at h1
    cases h1
    rw [hsg, hm2]
    exact h3)
  refine ⟨names, { query := qd, reference := rd }, ?_, hqg, hrg, hmem, hnd, hinR, ?_, hqc, ?_, hql, ?_, ?_⟩
  · unfold mapperNode
    simp only [hmeans, hcache]
    unfold assembleData
    simp only [hleaves, hg, hQ, hR, hnQ, hnR, hqd, hsd, hrd, hqg, hrg, bne_self_eq_false,
      Bool.false_eq_true, if_false]
  · simp only [hrc, hsc]
    exact hleaves
  · simp only [hrl, hrc, hsl, hsc]
  · intro i leaf j g hi hj
    simp only [hrc, hsc] at hi
    obtain ⟨row, h1, h2, _⟩ := hrow i leaf hi
    simp only
    rw [hre i j g hj, h1, hsg, hm2]
    simp only [Option.bind_some, meanByName, h2]
    cases nameToIdx f.colNames g <;> rfl
  · intro k j g hj
    exact hqe k j g hj

end CTM.StageFiles

namespace CTM.StageFiles
open CTM CTM.Stats CTM.Markers

theorem leavesOf_eq (t : RawTree) (hne : t.hierarchy ≠ []) :
    leavesOf t = t.nodesAt (t.hierarchy[t.hierarchy.length - 1]'(by
      have := List.length_pos_iff.2 hne; omega)) := by
  simp only [leavesOf, RawTree.leafLevel_eq hne]

/-- in a strict tree (what `validate_taxonomy_tree` accepts) the leaves below a parent are
leaves of the taxonomy -/
theorem leavesUnder_sub (t : RawTree) (hT : TreeWF t) (s : RawTree.Strict t) (p : PKey)
    (hp : p ∈ t.allParents) (leaves : List Leaf) (h : leavesUnder t p = .ok leaves) :
    ∀ leaf ∈ leaves, leaf ∈ leavesOf t := by
  intro leaf hl
  rw [leavesOf_eq t hT.hierNonempty]
  have hpos := List.length_pos_iff.2 hT.hierNonempty
  unfold leavesUnder at h
  cases p with
  | none =>
    have h0 : t.hierarchy.head? = some t.hierarchy[0] := by
      rw [List.head?_eq_getElem?]; exact List.getElem?_eq_getElem hpos
    simp only [RawTree.children, childLevelOf, h0, Except.ok.injEq] at h
    subst h
    rw [mem_sortNat, List.mem_flatMap] at hl
    obtain ⟨n, hn, ha⟩ := hl
    exact RawTree.asLeaves_sub_leaf s hT.hierNodup hpos hn ha
  | some ln =>
    obtain ⟨l, n⟩ := ln
    obtain ⟨hl', hn⟩ := (mem_allParents t l n).1 hp
    obtain ⟨i, hi, he⟩ := List.getElem_of_mem hl'
    have hlen : i + 1 < t.hierarchy.length := by
      have := List.length_dropLast (xs := t.hierarchy); omega
    have he' : t.hierarchy[i]'(by omega) = l := by
      rw [← he, List.getElem_dropLast]
    subst he'
    have hcl : childLevelOf t (some (t.hierarchy[i], n)) = some t.hierarchy[i + 1] := by
      simp only [childLevelOf]
      rw [RawTree.childLevel_getElem hT.hierNodup (by omega)]
      exact List.getElem?_eq_getElem hlen
    have hlv : (t.levels.map (·.1)).contains t.hierarchy[i] = true := by
      simpa using hT.hasLevels _ (List.getElem_mem _)
    have hnn : (t.nodesAt t.hierarchy[i]).contains n = true := by simpa using hn
    simp only [RawTree.children, hlv, hnn, hcl, Bool.not_true, Bool.false_eq_true, if_false,
      Except.ok.injEq] at h
    subst h
    rw [mem_sortNat, List.mem_flatMap] at hl
    obtain ⟨c, hc, ha⟩ := hl
    exact RawTree.asLeaves_sub_leaf s hT.hierNodup hlen (s.entry_sub hlen hn hc) ha

end CTM.StageFiles

namespace CTM.StageFiles
open CTM CTM.Stats CTM.Markers

/-! ### both rearrangements at once -/

theorem meanByName_permuteRows (perm : List Nat) (f : StatsFile) (h : IsPerm perm f.data.length)
    (leaf : Leaf) (g : Gene) : meanByName (permuteRows perm f) leaf g = meanByName f leaf g := by
  unfold meanByName
  rw [leafMeanRow_permuteRows perm f h leaf]
  rfl

theorem meanByName_permute (σ π : List Nat) (f : StatsFile) (hσ : IsPerm σ f.data.length)
    (hπ : IsPerm π f.colNames.length) (hn : f.colNames.Nodup)
    (hw : ∀ row ∈ f.data, row.genes.length = f.colNames.length) (leaf : Leaf) (g : Gene) :
    meanByName (permuteGenes π (permuteRows σ f)) leaf g = meanByName f leaf g := by
  rw [meanByName_permuteGenes π (permuteRows σ f) hπ hn (by
    intro row hr
    exact hw row ((permuteList_mem σ f.data hσ row).1 hr))]
  exact meanByName_permuteRows σ f hσ leaf g

theorem fileOK_permuteRows (σ : List Nat) (f : StatsFile) (hσ : IsPerm σ f.data.length)
    (h : FileOK f) : FileOK (permuteRows σ f) := by
  intro leaf hl
  obtain ⟨r, row, h1, h2, h3⟩ := h leaf hl
  have hr : r < f.data.length := (List.getElem?_eq_some_iff.1 h2).1
  have hr' : r < σ.length := by rw [hσ.length_eq]; exact hr
  refine ⟨σ[r], row, ?_, ?_, h3⟩
  · simp only [permuteRows]
    rw [lookup_map_snd _ (by intro p; cases hp : σ[p.2]? <;> simp) leaf, h1]
    simp [hr']
  · simp only [permuteRows]
    rw [permuteList_at σ f.data hσ r hr', h2]

theorem fileOK_permuteGenes (π : List Nat) (f : StatsFile) (hπ : IsPerm π f.colNames.length)
    (h : FileOK f) : FileOK (permuteGenes π f) := by
  intro leaf hl
  obtain ⟨r, row, h1, h2, h3⟩ := h leaf hl
  refine ⟨r, { row with genes := permuteList π row.genes }, h1, ?_, ?_⟩
  · simp only [permuteGenes, List.getElem?_map, h2, Option.map_some]
  · simp only [permuteGenes]
    rw [permuteList_length π row.genes (by rw [h3]; exact hπ), permuteList_length π f.colNames hπ]
    exact h3

theorem fileOK_permute (σ π : List Nat) (f : StatsFile) (hσ : IsPerm σ f.data.length)
    (hπ : IsPerm π f.colNames.length) (h : FileOK f) :
    FileOK (permuteGenes π (permuteRows σ f)) :=
  fileOK_permuteGenes π (permuteRows σ f) hπ (fileOK_permuteRows σ f hσ h)

end CTM.StageFiles

namespace CTM.StageFiles
open CTM CTM.Stats CTM.Markers

/-! ### the file written by the first stage -/

/-- the cells, over all files, named in the taxonomy's cell list of `leaf` -/
def membersOf (t : RawTree) (ll : Level) (files : List (Nat × List CellRec)) (leaf : Leaf) :
    List CellRec :=
  (files.flatMap (·.2)).filter (fun cell => (t.entry ll leaf).contains cell.name)

theorem lookup_zipIdx (x : Nat) : ∀ (xs : List Nat) (k : Nat),
    (xs.zipIdx k).lookup x = (indexIn xs x).map (· + k) := by
  intro xs
  induction xs with
  | nil => intro k; rfl
  | cons y ys ih =>
    intro k
    simp only [List.zipIdx_cons, List.lookup_cons, indexIn]
    by_cases hxy : x = y
    · subst hxy; simp
    · have : (x == y) = false := by simpa using hxy
      simp only [this, hxy, if_false, ih (k + 1), Option.map_map]
      congr 1
      funext i
      simp only [Function.comp]
      omega

theorem lookup_enumerate (xs : List Nat) (x : Nat) : (enumerate xs).lookup x = indexIn xs x := by
  simp [enumerate, lookup_zipIdx]

/-- which cells the table sends to the row of `leaf`: those of the leaf's cell list -/
theorem rowOf_leaf (l2c : List (Nat × List Nat)) (hkeys : (l2c.map (·.1)).Nodup)
    (hdisj : l2c.Pairwise (fun a b => ∀ c ∈ a.2, c ∉ b.2)) (tbl : List (Nat × Nat))
    (hnone : ∀ k, (∀ q ∈ l2c, k ∉ q.2) → tbl.lookup k = none)
    (hsome : ∀ q ∈ l2c, ∀ k ∈ q.2, tbl.lookup k = indexIn (uniqueSorted (l2c.map (·.1))) q.1)
    (leaf : Nat) (cs : List Nat) (hleaf : (leaf, cs) ∈ l2c) (r : Nat)
    (hr : indexIn (uniqueSorted (l2c.map (·.1))) leaf = some r) (cell : CellRec) :
    (rowOf tbl cell == some r) = cs.contains cell.name := by
  unfold rowOf
  by_cases hex : ∃ q ∈ l2c, cell.name ∈ q.2
  · obtain ⟨q, hq, hin⟩ := hex
    rw [hsome q hq _ hin]
    by_cases hql : q.1 = leaf
    · have hq' : q = (leaf, cs) := by
        have h1 := RawTree.lookup_of_mem_nodup hkeys (show (q.1, q.2) ∈ l2c from hq)
        have h2 := RawTree.lookup_of_mem_nodup hkeys hleaf
        rw [hql, h2] at h1
        cases h1
        exact Prod.ext hql rfl
      subst hq'
      simp only at hin
      rw [hr]
      simp [hin]
    · have hne : indexIn (uniqueSorted (l2c.map (·.1))) q.1 ≠ some r := by
        intro he
        have h1 := indexIn_getElem? _ _ _ he
        have h2 := indexIn_getElem? _ _ _ hr
        rw [h1] at h2
        exact hql (Option.some.inj h2)
      have hne' : q ≠ (leaf, cs) := fun he => hql (by rw [he])
      have hsymm : Std.Symm (fun a b : Nat × List Nat => ∀ c ∈ a.2, c ∉ b.2) :=
        ⟨fun a b h c hc hca => h c hca hc⟩
      have hd := List.Pairwise.forall hdisj hq hleaf hne'
      have : cell.name ∉ cs := hd _ hin
      have e1 : (indexIn (uniqueSorted (l2c.map (·.1))) q.1 == some r) = false := by
        simpa using hne
      rw [e1]
      simpa using this
  · have hno : ∀ q ∈ l2c, cell.name ∉ q.2 := fun q hq hin => hex ⟨q, hq, hin⟩
    rw [hnone _ hno]
    have : cell.name ∉ cs := hno _ hleaf
    simpa using this

theorem cellsOfRow_eq_membersOf (t : RawTree) (ll : Level) (files : List (Nat × List CellRec))
    (hkeys : (t.nodesAt ll).Nodup)
    (hdisj : (t.level ll).Pairwise (fun a b => ∀ c ∈ a.2, c ∉ b.2)) (tbl : List (Nat × Nat))
    (hnone : ∀ k, (∀ q ∈ t.level ll, k ∉ q.2) → tbl.lookup k = none)
    (hsome : ∀ q ∈ t.level ll, ∀ k ∈ q.2,
      tbl.lookup k = indexIn (uniqueSorted ((t.level ll).map (·.1))) q.1)
    (leaf : Nat) (hleaf : leaf ∈ t.nodesAt ll) (r : Nat)
    (hr : indexIn (uniqueSorted ((t.level ll).map (·.1))) leaf = some r) :
    cellsOfRow tbl r (files.flatMap (·.2)) = membersOf t ll files leaf := by
  unfold cellsOfRow membersOf
  apply List.filter_congr
  intro cell _
  exact rowOf_leaf (t.level ll) hkeys hdisj tbl hnone hsome leaf (t.entry ll leaf)
    (RawTree.mem_level_entry hleaf) r hr cell

/-- **the file the first stage writes**: `cluster_to_row` sends every leaf of the taxonomy to
a row inside the arrays, of the width of `col_names`, and the mean the reader reports for
(leaf, gene position `j`) is the mean over the cells the taxonomy lists for that leaf. -/
theorem writeStats_spec (t : RawTree) (genes : List Gene) (files : List (Nat × List CellRec))
    (rows nProc : Nat) (f : StatsFile) (ll : Level) (hrows : 1 ≤ rows) (hproc : 1 ≤ nProc)
    (hll : t.leafLevel = some ll) (hkeys : (t.nodesAt ll).Nodup)
    (hdisj : (t.level ll).Pairwise (fun a b => ∀ c ∈ a.2, c ∉ b.2))
    (hg : ∀ fl ∈ files, ∀ cell ∈ fl.2, cell.vals.length = genes.length)
    (h : writeStats t genes files rows nProc = .ok f) :
    FileOK f ∧ f.colNames = genes ∧ f.tree = t ∧
    f.clusterToRow = enumerate (uniqueSorted (t.nodesAt ll)) ∧
    f.data.length = (uniqueSorted (t.nodesAt ll)).length ∧
    ∀ leaf ∈ leavesOf t, ∃ r row,
      indexIn (uniqueSorted (t.nodesAt ll)) leaf = some r ∧ f.clusterToRow.lookup leaf = some r ∧
      f.data[r]? = some row ∧ row.genes.length = genes.length ∧
      row.n = (membersOf t ll files leaf).length ∧
      leafMeanRow f leaf = .ok (row.genes.map (fun s => meanOf row.n s.sum)) ∧
      ∀ j, j < genes.length →
        (row.genes.map (fun s => meanOf row.n s.sum))[j]? =
          some (meanOf (membersOf t ll files leaf).length
            ((membersOf t ll files leaf).map (fun cell => cell.vals.getD j 0)).sum) := by
  unfold writeStats at h
  simp only [hll] at h
  obtain ⟨tbl, htbl, hbound, hnone, hsome⟩ := nameToRowOfTree_spec (t.level ll)
  have hsome := hsome hdisj
  simp only [htbl] at h
  cases hpre : precompute (uniqueSorted ((t.level ll).map (·.1))).length genes.length tbl files rows
      nProc with
  | error e => simp [hpre] at h
  | ok buf =>
    simp only [hpre, Except.ok.injEq] at h
    subst h
    have hw : ∃ fl ∈ files, wanted tbl fl.2 = true := by
      by_contra hno
      have : ∀ fl ∈ files, wanted tbl fl.2 = false := by
        intro fl hfl
        cases hwf : wanted tbl fl.2 with
        | false => rfl
        | true => exact absurd ⟨fl, hfl, hwf⟩ hno
      rw [precompute_no_wanted _ _ _ _ _ _ hproc this] at hpre
      cases hpre
    obtain ⟨buf1, hb1, hlen1, hrow1⟩ := precompute_spec _ genes.length tbl files rows nProc hrows
      hproc hbound hw
    obtain ⟨buf2, hb2, hfld⟩ := precompute_fields _ genes.length tbl files rows nProc hrows
      hproc hbound hw hg
    rw [hpre] at hb1 hb2
    cases hb1
    cases hb2
    have hnodes : (t.level ll).map (·.1) = t.nodesAt ll := rfl
    have hmain : ∀ leaf ∈ leavesOf t, ∃ r row,
        indexIn (uniqueSorted (t.nodesAt ll)) leaf = some r ∧
        (enumerate (uniqueSorted (t.nodesAt ll))).lookup leaf = some r ∧
        buf[r]? = some row ∧ row.genes.length = genes.length ∧
        row.n = (membersOf t ll files leaf).length ∧
        ∀ j, j < genes.length →
          (row.genes.map (fun s => meanOf row.n s.sum))[j]? =
            some (meanOf (membersOf t ll files leaf).length
              ((membersOf t ll files leaf).map (fun cell => cell.vals.getD j 0)).sum) := by
      intro leaf hl
      have hl' : leaf ∈ t.nodesAt ll := by simpa [leavesOf, hll] using hl
      obtain ⟨r, hr⟩ := indexIn_of_mem (uniqueSorted (t.nodesAt ll)) leaf
        ((mem_uniqueSorted _ _).2 hl')
      have hrlt := indexIn_lt _ _ _ hr
      have hcells := cellsOfRow_eq_membersOf t ll files hkeys hdisj tbl hnone hsome leaf hl' r hr
      have hwidth : ((Row.zero genes.length).add (S tbl r (files.flatMap (·.2)))).genes.length
          = genes.length := by
        rw [← summaryStats_cellsOfRow]
        apply zero_add_summaryStats_length
        intro c hc
        obtain ⟨cell, hcell, rfl⟩ := List.mem_map.1 hc
        have hcell' := (List.mem_filter.1 hcell).1
        obtain ⟨fl, hfl, hin⟩ := List.mem_flatMap.1 hcell'
        exact hg fl hfl cell hin
      refine ⟨r, _, hr, by rw [lookup_enumerate]; exact hr, hrow1 r hrlt, hwidth, ?_, ?_⟩
      · by_cases hg0 : 0 < genes.length
        · obtain ⟨row, s, e1, _, e3, _⟩ := hfld r 0 hrlt hg0
          rw [hrow1 r hrlt] at e1
          cases e1
          rw [e3, hcells]
        · simp only [Row.add, Row.zero, S, rowSum_cellStat_n, Nat.zero_add, hcells]
      · intro j hj
        obtain ⟨row, s, e1, e2, e3, e4, _⟩ := hfld r j hrlt hj
        rw [hrow1 r hrlt] at e1
        cases e1
        rw [List.getElem?_map, e2, Option.map_some, e3, e4, hcells]
    refine ⟨?_, rfl, rfl, rfl, hlen1, ?_⟩
    · intro leaf hl
      obtain ⟨r, row, _, h2, h3, h4, _⟩ := hmain leaf hl
      exact ⟨r, row, h2, h3, h4⟩
    · intro leaf hl
      obtain ⟨r, row, h1, h2, h3, h4, h5, h6⟩ := hmain leaf hl
      exact ⟨r, row, h1, h2, h3, h4, h5,
        leafMeanRow_of_row _ leaf r row h2 h3 h4, h6⟩

end CTM.StageFiles

namespace CTM.StageFiles
open CTM CTM.Stats CTM.Markers

/-- the mean over the taxonomy's cells of `leaf` of the value in gene column `j` -/
def memberMean (t : RawTree) (ll : Level) (files : List (Nat × List CellRec)) (leaf : Leaf)
    (j : Nat) : Rat :=
  meanOf (membersOf t ll files leaf).length
    ((membersOf t ll files leaf).map (fun cell => cell.vals.getD j 0)).sum

/-- every row of the written arrays has the width of `col_names` -/
theorem writeStats_widths (t : RawTree) (genes : List Gene) (files : List (Nat × List CellRec))
    (rows nProc : Nat) (f : StatsFile) (ll : Level) (hrows : 1 ≤ rows) (hproc : 1 ≤ nProc)
    (hll : t.leafLevel = some ll) (hkeys : (t.nodesAt ll).Nodup)
    (hdisj : (t.level ll).Pairwise (fun a b => ∀ c ∈ a.2, c ∉ b.2))
    (hg : ∀ fl ∈ files, ∀ cell ∈ fl.2, cell.vals.length = genes.length)
    (h : writeStats t genes files rows nProc = .ok f) :
    ∀ row ∈ f.data, row.genes.length = f.colNames.length := by
  obtain ⟨_, hcn, _, _, hlen, hmain⟩ :=
    writeStats_spec t genes files rows nProc f ll hrows hproc hll hkeys hdisj hg h
  intro row hr
  obtain ⟨r, hrl, he⟩ := List.getElem_of_mem hr
  have hrl' : r < (uniqueSorted (t.nodesAt ll)).length := by omega
  have hleaf : (uniqueSorted (t.nodesAt ll))[r] ∈ leavesOf t := by
    simp only [leavesOf, hll]
    exact (mem_uniqueSorted _ _).1 (List.getElem_mem hrl')
  obtain ⟨r', row', h1, _, h3, h4, _⟩ := hmain _ hleaf
  rw [indexIn_of_nodup _ (uniqueSorted_nodup _) r hrl'] at h1
  cases h1
  rw [List.getElem?_eq_getElem hrl, he] at h3
  cases h3
  rw [hcn]
  exact h4

/-- the written file read by NAME: the value for (leaf name, gene name) is the mean over the
leaf's cells of the column the gene name has in `genes` -/
theorem writeStats_meanByName (t : RawTree) (genes : List Gene) (files : List (Nat × List CellRec))
    (rows nProc : Nat) (f : StatsFile) (ll : Level) (hrows : 1 ≤ rows) (hproc : 1 ≤ nProc)
    (hll : t.leafLevel = some ll) (hkeys : (t.nodesAt ll).Nodup)
    (hdisj : (t.level ll).Pairwise (fun a b => ∀ c ∈ a.2, c ∉ b.2))
    (hg : ∀ fl ∈ files, ∀ cell ∈ fl.2, cell.vals.length = genes.length)
    (h : writeStats t genes files rows nProc = .ok f) (leaf : Leaf) (hl : leaf ∈ leavesOf t)
    (g : Gene) (j : Nat) (hj : nameToIdx genes g = some j) :
    meanByName f leaf g = some (memberMean t ll files leaf j) := by
  obtain ⟨_, hcn, _, _, _, hmain⟩ :=
    writeStats_spec t genes files rows nProc f ll hrows hproc hll hkeys hdisj hg h
  obtain ⟨r, row, _, _, _, _, _, h6, h7⟩ := hmain leaf hl
  have hjl : j < genes.length := (List.getElem?_eq_some_iff.1 (nameToIdx_some genes g j hj)).1
  unfold meanByName
  rw [h6, hcn, hj]
  exact h7 j hjl

/-- a validated taxonomy lists no cell under two leaves -/
theorem disjoint_of_strict (t : RawTree) (s : RawTree.Strict t) (ll : Level)
    (hll : t.leafLevel = some ll) :
    (t.level ll).Pairwise (fun a b => ∀ c ∈ a.2, c ∉ b.2) := by
  have h := s.rowsNodup
  simp only [RawTree.allRows, hll] at h
  have := (List.nodup_flatMap.1 h).2
  refine List.Pairwise.imp ?_ this
  intro a b hd c hca hcb
  exact hd hca hcb

end CTM.StageFiles

namespace CTM.StageFiles
open CTM CTM.Stats CTM.Markers

theorem leafLevel_mem (t : RawTree) (ll : Level) (hll : t.leafLevel = some ll) : ll ∈ t.hierarchy := by
  unfold RawTree.leafLevel at hll
  exact List.mem_of_getLast? hll

/-- no file holds a cell the taxonomy names: the first stage fails instead of writing zeros -/
theorem writeStats_no_cells (t : RawTree) (genes : List Gene) (files : List (Nat × List CellRec))
    (rows nProc : Nat) (ll : Level) (hproc : 1 ≤ nProc) (hll : t.leafLevel = some ll)
    (hno : ∀ fl ∈ files, ∀ cell ∈ fl.2, ∀ q ∈ t.level ll, cell.name ∉ q.2) :
    writeStats t genes files rows nProc = .error (.stats .noBuffers) := by
  unfold writeStats
  simp only [hll]
  obtain ⟨tbl, htbl, _, hnone, _⟩ := nameToRowOfTree_spec (t.level ll)
  simp only [htbl]
  rw [precompute_no_wanted _ _ _ _ _ _ hproc (by
    intro fl hfl
    unfold wanted
    rw [List.any_eq_false]
    intro cell hc
    simp only [rowOf, hnone cell.name (hno fl hfl cell hc), Option.isSome_none, Bool.false_eq_true,
      not_false_eq_true])]

end CTM.StageFiles

namespace CTM.StageFiles
open CTM CTM.Stats CTM.Markers

/-- `FileOK` as a check -/
def fileOKb (f : StatsFile) : Bool :=
  (leavesOf f.tree).all (fun leaf =>
    match f.clusterToRow.lookup leaf with
    | none => false
    | some r => match f.data[r]? with
      | none => false
      | some row => row.genes.length == f.colNames.length)

theorem fileOK_of_check (f : StatsFile) (h : fileOKb f = true) : FileOK f := by
  intro leaf hl
  have := List.all_eq_true.1 h leaf hl
  cases h1 : f.clusterToRow.lookup leaf with
  | none => simp [h1] at this
  | some r =>
    cases h2 : f.data[r]? with
    | none => simp [h1, h2] at this
    | some row =>
      simp only [h1, h2, beq_iff_eq] at this
      exact ⟨r, row, rfl, h2, this⟩

end CTM.StageFiles

/-! ### a small instance used by the non-vacuity examples of `CTM.Props.C18.Names`

classes 10 (clusters 30, 31) and 11 (cluster 33); cells 100 | 101, 102 | 103, 104
spread over two files, cell 199 unnamed; genes named 7, 5, 9. -/
namespace CTM.StageFiles.Ex
open CTM CTM.Stats CTM.Markers

def tr : RawTree :=
  { hierarchy := [0, 1]
    levels := [(0, [(11, [33]), (10, [31, 30])]),
               (1, [(33, [103, 104]), (30, [100]), (31, [101, 102])])] }

def files : List (Nat × List CellRec) :=
  [(0, [⟨100, [1, 2, 3]⟩, ⟨199, [9, 9, 9]⟩, ⟨103, [4, 0, 1]⟩]),
   (1, [⟨101, [2, 2, 2]⟩, ⟨102, [4, 6, 0]⟩, ⟨104, [0, 2, 5]⟩])]

def genes : List Gene := [7, 5, 9]

/-- the file `writeStats tr genes files 2 2` writes -/
def f0 : StatsFile :=
  { clusterToRow := [(30, 0), (31, 1), (33, 2)]
    colNames := [7, 5, 9]
    data := [⟨1, [⟨1, 1, 1, 0, 1⟩, ⟨2, 4, 1, 1, 1⟩, ⟨3, 9, 1, 1, 1⟩]⟩,
             ⟨2, [⟨6, 20, 2, 2, 2⟩, ⟨8, 40, 2, 2, 2⟩, ⟨2, 4, 1, 1, 1⟩]⟩,
             ⟨2, [⟨4, 16, 1, 1, 1⟩, ⟨2, 4, 1, 1, 1⟩, ⟨6, 26, 2, 1, 2⟩]⟩]
    tree := tr }

/-- a marker table: class 10 ↦ gene 5, root ↦ genes 7, 9, class 11 (single child) ↦ gene 5 -/
def lk : Lookup := [(some (0, 10), [5]), (none, [7, 9]), (some (0, 11), [5])]

/-- a query with two cells and the gene columns 9, 8, 7, 5 -/
def query : Matrix := { cellIds := [0, 1], geneIds := [9, 8, 7, 5], data := [[1, 2, 3, 4], [5, 6, 7, 8]] }

end CTM.StageFiles.Ex
