/-
  C10 lemma library, top file: imports the parts
    TreeDefs      specification vocabulary (Strict, DictOK, WF, leavesSpec)
    TreeValidate  validate_taxonomy_tree  ⇔  Strict          (sound + complete)
    TreePairs     combos2 / orderPair / crossPairs combinatorics
    TreeLeaves    hierarchy indexing, asLeaves, partition, parents
    TreeAnc       ancestorAt vs asLeaves
    TreeDrop      flatten / dropLevel: result well formed, leaves unchanged
    TreeRecords   fromRecordsRaw characterised by the records
    TreePaths     root-to-leaf paths of the built tree = the records
    TreeCells     dropCells (to_str(drop_cells=True)); flatten after drop = flatten
    (TreeLca      every pair of leaves is listed under exactly one parent; imports this file)
    TreeCommute   dropLevel ∘ fromRecords ≈ fromRecords on the erased column (C17's tree lemma)
  and glues the model's `leafPairs` to `crossPairs`.
-/
import CTM.Lemmas.TreeLeaves
import CTM.Lemmas.TreeValidate
import CTM.Lemmas.TreePairs
import CTM.Lemmas.TreeAnc
import CTM.Lemmas.TreeDrop
import CTM.Lemmas.TreeRecords
import CTM.Lemmas.TreePaths
import CTM.Lemmas.TreeCommute
import CTM.Lemmas.TreeCells
namespace CTM.RawTree
variable {t : RawTree}

/-- boolean form of `DictOK` (for concrete trees: `by decide`) -/
def dictOKb (t : RawTree) : Bool :=
  decide ((t.levels.map (·.1)).Nodup) && t.levels.all (fun lm => decide ((lm.2.map (·.1)).Nodup))

theorem dictOK_of_b (h : dictOKb t = true) : DictOK t := by
  simp only [dictOKb, Bool.and_eq_true, decide_eq_true_eq, List.all_eq_true] at h
  exact ⟨h.1, fun l m hm => h.2 (l, m) hm⟩

/-- the level that holds the children of a parent (`None` = the root) -/
def levelUnder (t : RawTree) : Option (Level × Node) → Option Level
  | none => t.hierarchy.head?
  | some (l, _) => t.childLevel l

theorem flatMap_snd_eq_flatMap_entry (d : DictOK t) (l : Level) :
    (t.level l).flatMap (·.2) = (t.nodesAt l).flatMap (t.entry l) := by
  unfold nodesAt
  rw [List.flatMap_map]
  exact flatMap_congr' (fun e he => (entry_of_mem d (n := e.1) (cs := e.2) he).symm)

theorem leafPairs_root (l0 : Level) (h0 : t.hierarchy.head? = some l0) :
    t.leafPairs none = crossPairs (t.asLeaves l0) (t.nodesAt l0) := by
  simp [leafPairs, h0, crossPairs]

theorem leafPairs_node {l cl : Level} (n : Node) (hl : (some l == t.leafLevel) = false)
    (hcl : t.childLevel l = some cl) :
    t.leafPairs (some (l, n)) = crossPairs (t.asLeaves cl) (t.entry l n) := by
  simp [leafPairs, hl, hcl, crossPairs]

theorem leafPairs_leaf {l : Level} (n : Node) (hl : t.leafLevel = some l) :
    t.leafPairs (some (l, n)) = [] := by
  simp [leafPairs, hl]

/-- `Except` has no `DecidableEq` in core; needed to `decide` examples -/
instance instDecidableEqExcept {ε α} [DecidableEq ε] [DecidableEq α] : DecidableEq (Except ε α) :=
  fun a b =>
  match a, b with
  | .ok x, .ok y =>
    if h : x = y then isTrue (by rw [h]) else isFalse (by intro e; cases e; exact h rfl)
  | .error x, .error y =>
    if h : x = y then isTrue (by rw [h]) else isFalse (by intro e; cases e; exact h rfl)
  | .ok _, .error _ => isFalse (by intro e; cases e)
  | .error _, .ok _ => isFalse (by intro e; cases e)

theorem children_some_ok_iff {l : Level} {n : Node} {cs : List Node} :
    t.children (some (l, n)) = .ok cs ↔
      l ∈ t.levels.map (·.1) ∧ n ∈ t.nodesAt l ∧ cs = t.entry l n := by
  simp only [children]
  by_cases h1 : l ∈ t.levels.map (·.1)
  · by_cases h2 : n ∈ t.nodesAt l
    · simp [h1, h2, eq_comm]
    · simp [h1, h2]
  · simp [h1]

theorem children_none_ok_iff {cs : List Node} :
    t.children none = .ok cs ↔ ∃ l0, t.hierarchy.head? = some l0 ∧ cs = t.nodesAt l0 := by
  simp only [children]
  cases h : t.hierarchy.head? with
  | none => simp
  | some l0 => simp [eq_comm]

/-! ### level-name forms, ancestors across `dropLevel` -/

theorem mem_asLeaves_iff_ancestorAt_lv (s : Strict t) (d : DictOK t) (hn : t.hierarchy.Nodup)
    {l leaf : Level} (hl : l ∈ t.hierarchy) (hleaf : t.leafLevel = some leaf)
    {a : Node} (ha : a ∈ t.nodesAt l) {n : Node} (hnl : n ∈ t.nodesAt leaf) :
    n ∈ t.asLeaves l a ↔ t.ancestorAt leaf n l = some a := by
  obtain ⟨i, hi, rfl⟩ := List.mem_iff_getElem.1 hl
  have hne : t.hierarchy ≠ [] := List.ne_nil_of_length_pos (by omega)
  rw [leafLevel_eq hne] at hleaf
  cases hleaf
  exact mem_asLeaves_iff_ancestorAt s d hn hi ha hnl

theorem ancestorAt_isSome_lv (s : Strict t) (hn : t.hierarchy.Nodup)
    {l leaf : Level} (hl : l ∈ t.hierarchy) (hleaf : t.leafLevel = some leaf)
    {n : Node} (hnl : n ∈ t.nodesAt leaf) :
    ∃ a, t.ancestorAt leaf n l = some a ∧ a ∈ t.nodesAt l := by
  obtain ⟨i, hi, rfl⟩ := List.mem_iff_getElem.1 hl
  have hne : t.hierarchy ≠ [] := List.ne_nil_of_length_pos (by omega)
  rw [leafLevel_eq hne] at hleaf
  cases hleaf
  exact ancestorAt_isSome s hn (by omega) (by omega) hnl

/-- dropping a non-leaf level changes no leaf's ancestor at any remaining level -/
theorem drop_ancestorAt (w : WF t) {i : Nat} (hi : i < t.hierarchy.length)
    (hnl : i + 1 < t.hierarchy.length) {allowLeaf : Bool} {t' : RawTree}
    (ht' : t.dropLevelRaw t.hierarchy[i] allowLeaf = .ok t') {leaf : Level}
    (hleaf : t.leafLevel = some leaf) {n : Node} (hmem : n ∈ t.nodesAt leaf)
    {l : Level} (hl : l ∈ t'.hierarchy) :
    t'.ancestorAt leaf n l = t.ancestorAt leaf n l := by
  have s := strict_of_validate w.valid
  have w' := dropLevelRaw_wf w hi ht'
  have s' := strict_of_validate w'.valid
  have hleaf' : t'.leafLevel = some leaf := by
    rw [drop_leafLevel_nonleaf w.hNodup hi ht' hnl]; exact hleaf
  -- l is an old level other than the dropped one
  have hl0 := hl
  rw [drop_hierarchy w.hNodup hi ht'] at hl0
  have hlt : l ∈ t.hierarchy := (List.eraseIdx_sublist _ _).subset hl0
  obtain ⟨j, hj, rfl⟩ := List.mem_iff_getElem.1 hlt
  have hji : j ≠ i := by
    rintro rfl
    have hnd := w'.hNodup
    rw [drop_hierarchy w.hNodup hi ht'] at hnd
    -- h[i] would occur in h.eraseIdx i, i.e. twice in h
    rw [List.mem_eraseIdx_iff_getElem] at hl0
    obtain ⟨k, hk, hki, hke⟩ := hl0
    exact hki ((List.getElem_inj w.hNodup).1 hke)
  have hleafmem : leaf ∈ t.hierarchy := by
    rw [leafLevel_eq w.hNe] at hleaf; cases hleaf; exact List.getElem_mem _
  have hlne : leaf ≠ t.hierarchy[i] := by
    rw [leafLevel_eq w.hNe] at hleaf; cases hleaf
    intro e; have := (List.getElem_inj w.hNodup).1 e; omega
  have hmem' : n ∈ t'.nodesAt leaf := by
    rw [drop_nodesAt w.hNodup hi ht' hlne]; exact hmem
  obtain ⟨a, ha, ham⟩ := ancestorAt_isSome_lv s w.hNodup hlt hleaf hmem
  have h1 : n ∈ t.asLeaves t.hierarchy[j] a :=
    (mem_asLeaves_iff_ancestorAt_lv s w.dict w.hNodup hlt hleaf ham hmem).2 ha
  have h2 : n ∈ t'.asLeaves t.hierarchy[j] a :=
    (drop_asLeaves w.hNodup hi ht' hnl hj hji a).mem_iff.2 h1
  have ham' : a ∈ t'.nodesAt t.hierarchy[j] := by
    rw [drop_nodesAt_idx w.hNodup hi ht' hj hji]; exact ham
  rw [ha]
  exact (mem_asLeaves_iff_ancestorAt_lv s' w'.dict w'.hNodup hl hleaf' ham' hmem').1 h2

/-! ### every node has at least one leaf below it -/

theorem leavesSpec_ne_nil (s : Strict t) :
    ∀ (below : List Level) (i : Nat) (hi : i < t.hierarchy.length),
      below = t.hierarchy.drop (i+1) → ∀ n, n ∈ t.nodesAt t.hierarchy[i] →
      leavesSpec t below t.hierarchy[i] n ≠ []
  | [], _, _, _, n, _ => by simp [leavesSpec]
  | cl :: rest, i, hi, hb, n, hmem => by
    have hi1 : i + 1 < t.hierarchy.length := by
      rcases Nat.lt_or_ge (i+1) t.hierarchy.length with hc | hc
      · exact hc
      · rw [List.drop_eq_nil_of_le hc] at hb
        cases hb
    rw [List.drop_eq_getElem_cons hi1] at hb
    have hcl : cl = t.hierarchy[i+1] := (List.cons.inj hb).1
    have hrest : rest = t.hierarchy.drop (i+1+1) := (List.cons.inj hb).2
    subst hcl
    have hne := s.childNe _ _ (mem_levelPairs_of_idx hi1) n _ (mem_level_entry hmem)
    rw [leavesSpec]
    cases he : t.entry t.hierarchy[i] n with
    | nil => exact absurd he hne
    | cons c cs =>
      have hc : c ∈ t.nodesAt t.hierarchy[i+1] :=
        s.entry_sub hi1 hmem (by rw [he]; exact List.mem_cons_self)
      have ih := leavesSpec_ne_nil s rest (i+1) hi1 hrest c hc
      intro hnil
      rw [List.flatMap_cons] at hnil
      exact ih (List.append_eq_nil_iff.1 hnil).1

theorem asLeaves_ne_nil (s : Strict t) (hn : t.hierarchy.Nodup) {i : Nat}
    (hi : i < t.hierarchy.length) {n : Node} (hmem : n ∈ t.nodesAt t.hierarchy[i]) :
    t.asLeaves t.hierarchy[i] n ≠ [] := by
  have hp := asLeaves_perm_spec t t.hierarchy[i] n
  rw [levelsBelow_getElem hn hi] at hp
  intro hnil
  rw [hnil] at hp
  exact leavesSpec_ne_nil s _ i hi rfl n hmem hp.symm.eq_nil

end CTM.RawTree
