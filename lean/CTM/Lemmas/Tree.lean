/-
  C10 lemma library, top file: imports the parts
    TreeDefs      specification vocabulary (Strict, DictOK, WF, leavesSpec)
    TreeValidate  validate_taxonomy_tree  ⇔  Strict          (sound + complete)
    TreePairs     combos2 / orderPair / crossPairs combinatorics
    TreeLeaves    hierarchy indexing, asLeaves, partition, parents
  and glues the model's `leafPairs` to `crossPairs`.
-/
import CTM.Lemmas.TreeLeaves
import CTM.Lemmas.TreeValidate
import CTM.Lemmas.TreePairs
namespace CTM.RawTree
variable {t : RawTree}

/-- boolean form of `DictOK` (for concrete trees: `by decide`) -/
def dictOKb (t : RawTree) : Bool :=
  decide ((t.levels.map (·.1)).Nodup) && t.levels.all (fun lm => decide ((lm.2.map (·.1)).Nodup))

theorem dictOK_of_b (h : dictOKb t = true) : DictOK t := by
  simp only [dictOKb, Bool.and_eq_true, decide_eq_true_eq, List.all_eq_true] at h
  exact ⟨h.1, fun l m hm => h.2 (l, m) hm⟩

/-- the level that holds the children of a parent (`None` = the root) -/
def levelUnder (t : RawTree) : Option (Level × Node) → Option Level
  | none => t.hierarchy.head?
  | some (l, _) => t.childLevel l

theorem flatMap_snd_eq_flatMap_entry (d : DictOK t) (l : Level) :
    (t.level l).flatMap (·.2) = (t.nodesAt l).flatMap (t.entry l) := by
  unfold nodesAt
  rw [List.flatMap_map]
  exact flatMap_congr' (fun e he => (entry_of_mem d (n := e.1) (cs := e.2) he).symm)

theorem leafPairs_root (l0 : Level) (h0 : t.hierarchy.head? = some l0) :
    t.leafPairs none = crossPairs (t.asLeaves l0) (t.nodesAt l0) := by
  simp [leafPairs, h0, crossPairs]

theorem leafPairs_node {l cl : Level} (n : Node) (hl : (some l == t.leafLevel) = false)
    (hcl : t.childLevel l = some cl) :
    t.leafPairs (some (l, n)) = crossPairs (t.asLeaves cl) (t.entry l n) := by
  simp [leafPairs, hl, hcl, crossPairs]

theorem leafPairs_leaf {l : Level} (n : Node) (hl : t.leafLevel = some l) :
    t.leafPairs (some (l, n)) = [] := by
  simp [leafPairs, hl]

/-- `Except` has no `DecidableEq` in core; needed to `decide` examples -/
instance instDecidableEqExcept {ε α} [DecidableEq ε] [DecidableEq α] : DecidableEq (Except ε α) :=
  fun a b =>
  match a, b with
  | .ok x, .ok y =>
    if h : x = y then isTrue (by rw [h]) else isFalse (by intro e; cases e; exact h rfl)
  | .error x, .error y =>
    if h : x = y then isTrue (by rw [h]) else isFalse (by intro e; cases e; exact h rfl)
  | .ok _, .error _ => isFalse (by intro e; cases e)
  | .error _, .ok _ => isFalse (by intro e; cases e)

theorem children_some_ok_iff {l : Level} {n : Node} {cs : List Node} :
    t.children (some (l, n)) = .ok cs ↔
      l ∈ t.levels.map (·.1) ∧ n ∈ t.nodesAt l ∧ cs = t.entry l n := by
  simp only [children]
  by_cases h1 : l ∈ t.levels.map (·.1)
  · by_cases h2 : n ∈ t.nodesAt l
    · simp [h1, h2, eq_comm]
    · simp [h1, h2]
  · simp [h1]

theorem children_none_ok_iff {cs : List Node} :
    t.children none = .ok cs ↔ ∃ l0, t.hierarchy.head? = some l0 ∧ cs = t.nodesAt l0 := by
  simp only [children]
  cases h : t.hierarchy.head? with
  | none => simp
  | some l0 => simp [eq_comm]

end CTM.RawTree
