/-
  Bridge between the well-formedness notions of the separately built models.

    tree model (C10)       `RawTree.WF t`   = `validate t = .ok ()` + distinct level names
                                              + non-empty hierarchy + `DictOK t`
    level loop (C01/06/17) `LevelLoop.wfb t = true`   (decidable)
    marker stage (C08)     `Markers.TreeWF t`, `Markers.Populated t`

  Result: acceptance by the validator (+ the modelling convention `DictOK t`,
  Python dict keys) implies all of them: `wfb_of_validate`, `treeWF_of_WF`,
  `populated_of_WF`.  `HasNode t` ("a node at the top level") and
  `hierarchy.Nodup` used to be extra hypotheses — the validator accepted the
  node-less taxonomy and a hierarchy listing a level twice; both were findings
  of this bridge and are now refused (`fix:` 6649211, 799c7a6;
  `RawTree.hasNode_of_validate`, `RawTree.hierarchy_nodup_of_validate`).
  The converse `wfb → validate` holds with exactly the facts `wfb` does not
  look at (`validate_of_wfb`, `WF_iff_wfb`).

  LevelLoop has no child/parent functions of its own: it calls the tree
  model's `children` / `childToParent` (through `kidsD`); the glue lemmas below
  say what these are on a `WF` tree.
-/
import CTM.Lemmas.Tree
import CTM.Lemmas.LevelLoop
import CTM.Lemmas.Markers

namespace CTM.Bridge
open CTM CTM.RawTree

/-- the taxonomy has at least one node: the top level is not empty.  (On a
validated tree this is equivalent to "some level is not empty", and to "every
level is not empty".) -/
def HasNode (t : RawTree) : Prop := ∀ l0, t.hierarchy.head? = some l0 → t.nodesAt l0 ≠ []

/-! ### adjacent levels: the two `levelPairs` -/

theorem mem_levelPairs_of_split (pl cl : Level) (post : List Level) :
    ∀ (pre : List Level), (pl, cl) ∈ RawTree.levelPairs (pre ++ pl :: cl :: post)
  | [] => by simp [RawTree.levelPairs]
  | a :: pre => by
    have ih := mem_levelPairs_of_split pl cl post pre
    unfold RawTree.levelPairs at ih ⊢
    cases pre with
    | nil =>
      simp only [List.nil_append, List.cons_append, List.tail_cons, List.zip_cons_cons,
        List.mem_cons] at ih ⊢
      exact Or.inr ih
    | cons b pre' =>
      simp only [List.cons_append, List.tail_cons, List.zip_cons_cons, List.mem_cons] at ih ⊢
      exact Or.inr ih

theorem split_of_mem_levelPairs {pl cl : Level} :
    ∀ {h : List Level}, (pl, cl) ∈ RawTree.levelPairs h → ∃ pre post, h = pre ++ pl :: cl :: post
  | [], hm => by simp [RawTree.levelPairs] at hm
  | [_], hm => by simp [RawTree.levelPairs] at hm
  | a :: b :: rest, hm => by
    unfold RawTree.levelPairs at hm
    simp only [List.tail_cons, List.zip_cons_cons, List.mem_cons, Prod.mk.injEq] at hm
    rcases hm with ⟨rfl, rfl⟩ | hm
    · exact ⟨[], rest, rfl⟩
    · obtain ⟨pre, post, hs⟩ := split_of_mem_levelPairs (h := b :: rest) hm
      exact ⟨a :: pre, post, by rw [hs]; rfl⟩

/-- the `(parent_level, child_level)` pairs of the level loop with a parent
level are the adjacent-level pairs of the tree model -/
theorem levelLoop_levelPairs_iff (t : RawTree) (pl cl : Level) :
    (some pl, cl) ∈ LevelLoop.levelPairs t ↔ (pl, cl) ∈ RawTree.levelPairs t.hierarchy := by
  rw [LevelLoop.mem_levelPairs_iff]
  constructor
  · rintro (⟨h, _⟩ | ⟨p, a, b, hp, hs⟩)
    · cases h
    · cases hp; rw [hs]; exact mem_levelPairs_of_split _ _ _ _
  · intro h
    obtain ⟨pre, post, hs⟩ := split_of_mem_levelPairs h
    exact Or.inr ⟨pl, pre, post, rfl, hs⟩

theorem exists_levelPair_of_mem_dropLast {l : Level} :
    ∀ {h : List Level}, l ∈ h.dropLast → ∃ cl, (l, cl) ∈ RawTree.levelPairs h
  | [], hm => by simp at hm
  | [_], hm => by simp at hm
  | a :: b :: rest, hm => by
    simp only [List.dropLast_cons_cons, List.mem_cons] at hm
    unfold RawTree.levelPairs
    rcases hm with rfl | hm
    · exact ⟨b, by simp⟩
    · obtain ⟨cl, hcl⟩ := exists_levelPair_of_mem_dropLast (h := b :: rest) hm
      exact ⟨cl, by
        unfold RawTree.levelPairs at hcl
        simp only [List.tail_cons, List.zip_cons_cons, List.mem_cons]
        exact Or.inr hcl⟩

/-! ### glue: `children`, `kidsD`, `childToParent` on a `WF` tree -/

/-- `TaxonomyTree.children(level, node)` of a node of the tree is its stored list -/
theorem children_eq_entry {t : RawTree} (d : DictOK t) {l : Level} {n : Node}
    (hn : n ∈ t.nodesAt l) : t.children (some (l, n)) = .ok (t.entry l n) :=
  LevelLoop.children_of_mem_level (d.nodesAt_nodup l) (mem_level_entry hn)

/-- the level loop's `kidsD` (children, `[]` on error) is the stored list -/
theorem kidsD_eq_entry {t : RawTree} (d : DictOK t) {l : Level} {n : Node}
    (hn : n ∈ t.nodesAt l) : LevelLoop.kidsD t (some (l, n)) = t.entry l n :=
  LevelLoop.kidsD_of_ok (children_eq_entry d hn)

theorem children_root {t : RawTree} {l0 : Level} (h0 : t.hierarchy.head? = some l0) :
    t.children none = .ok (t.nodesAt l0) := by
  simp [RawTree.children, h0]

theorem kidsD_root {t : RawTree} {l0 : Level} (h0 : t.hierarchy.head? = some l0) :
    LevelLoop.kidsD t none = t.nodesAt l0 :=
  LevelLoop.kidsD_of_ok (children_root h0)

/-- on a `WF` tree the level loop's children relation is the inverse of the
tree model's `childToParent` (C10 `parent_child_inverse`) -/
theorem mem_kidsD_iff_childToParent {t : RawTree} (w : WF t) {pl cl : Level}
    (hpc : (pl, cl) ∈ RawTree.levelPairs t.hierarchy) {p : Node} (hp : p ∈ t.nodesAt pl) (c : Node) :
    c ∈ LevelLoop.kidsD t (some (pl, p)) ↔ t.childToParent cl c = some p := by
  have s := strict_of_validate w.valid
  obtain ⟨i, hi, rfl, rfl⟩ := idx_of_mem_levelPairs hpc
  rw [kidsD_eq_entry w.dict hp, childToParent_eq_some_iff s w.hNodup hi, isChild_iff w.dict]
  exact ⟨fun h => ⟨hp, h⟩, fun h => h.2⟩

/-! ### `WF` ⇒ `wfb` -/

/-- The validator's acceptance implies the level loop's well-formedness.  (The
argument `hnode` is a consequence of `w.valid` since `fix:` 6649211 — use
`WF_wfb`; the two-argument form is kept because `Props/C04/Enum.lean` calls it.) -/
theorem wfb_of_WF {t : RawTree} (w : WF t) (hnode : HasNode t) : LevelLoop.wfb t = true := by
  have s := strict_of_validate w.valid
  simp only [LevelLoop.wfb, Bool.and_eq_true, Bool.not_eq_true', List.all_eq_true]
  refine ⟨LevelLoop.nodup_hasDup_false _ w.hNodup, ?_⟩
  rintro ⟨plo, cl⟩ hm
  rcases (LevelLoop.mem_levelPairs_iff t plo cl).mp hm with ⟨rfl, h0⟩ | ⟨pl, a, b, rfl, hs⟩
  · -- the root
    have hch := children_root h0
    have hkD := kidsD_root h0
    apply LevelLoop.levelOK_of_facts t none cl (w.dict.nodesAt_nodup cl)
    · intro p hp
      simp only [LevelLoop.parentNodeList, List.mem_singleton] at hp
      subst hp
      exact ⟨_, hch, hnode cl h0, fun c hc => hc⟩
    · intro p hp p' hp' hne
      simp only [LevelLoop.parentNodeList, List.mem_singleton] at hp hp'
      exact absurd (hp.trans hp'.symm) hne
    · intro c hc
      exact ⟨none, by simp [LevelLoop.parentNodeList], by rw [hkD]; exact hc⟩
  · -- a pair of adjacent levels
    have hpc : (pl, cl) ∈ RawTree.levelPairs t.hierarchy := by
      rw [hs]; exact mem_levelPairs_of_split _ _ _ _
    apply LevelLoop.levelOK_of_facts t (some pl) cl (w.dict.nodesAt_nodup cl)
    · intro q hq
      obtain ⟨k, hk, rfl⟩ := (LevelLoop.mem_parentNodeList_some t pl q).mp hq
      refine ⟨_, children_eq_entry w.dict hk, s.childNe pl cl hpc k _ (mem_level_entry hk), ?_⟩
      intro c hc
      exact s.childExists pl cl hpc k _ (mem_level_entry hk) c hc
    · intro q hq q' hq' hne c hc hc'
      obtain ⟨k, hk, rfl⟩ := (LevelLoop.mem_parentNodeList_some t pl q).mp hq
      obtain ⟨k', hk', rfl⟩ := (LevelLoop.mem_parentNodeList_some t pl q').mp hq'
      rw [kidsD_eq_entry w.dict hk] at hc
      rw [kidsD_eq_entry w.dict hk'] at hc'
      have := s.oneParent pl cl hpc k _ k' _ (mem_level_entry hk) (mem_level_entry hk') c hc hc'
      exact hne (by rw [this])
    · intro c hc
      obtain ⟨k, cs, hkm, hcs⟩ := s.hasParent pl cl hpc c hc
      have hk : k ∈ t.nodesAt pl := mem_nodesAt.2 ⟨cs, hkm⟩
      refine ⟨some (pl, k), (LevelLoop.mem_parentNodeList_some t pl _).mpr ⟨k, hk, rfl⟩, ?_⟩
      rw [LevelLoop.kidsD_of_mem_level (w.dict.nodesAt_nodup pl) hkm]
      exact hcs

/-- `HasNode` is necessary: `wfb` demands a node at the top (the root must have
a child) -/
theorem hasNode_of_wfb {t : RawTree} (h : LevelLoop.wfb t = true) : HasNode t := by
  intro l0 h0
  exact LevelLoop.wfb_nodesAt_nonempty h (List.mem_of_mem_head? h0)

/-- since `fix:` 6649211 the validator gives `HasNode`
(`RawTree.hasNode_of_validate`, CTM/Lemmas/TreeValidate.lean) -/
theorem hasNode_of_valid {t : RawTree} (hv : t.validate = .ok ()) : HasNode t :=
  RawTree.hasNode_of_validate hv

/-- **the validator's acceptance implies the level loop's well-formedness**
(`WF` = acceptance + dict-key uniqueness, `RawTree.WF.of_validate`) -/
theorem WF_wfb {t : RawTree} (w : WF t) : LevelLoop.wfb t = true :=
  wfb_of_WF w (hasNode_of_valid w.valid)

/-- contrapositive: what `wfb` refuses, the validator refuses -/
theorem rejected_of_not_wfb {t : RawTree} (d : DictOK t) (h : LevelLoop.wfb t = false) :
    ∃ e, t.validate = .error e := by
  cases hv : t.validate with
  | error e => exact ⟨e, rfl⟩
  | ok u =>
    cases u
    have := WF_wfb (WF.of_validate hv d)
    rw [h] at this; cases this

/-! ### `wfb` ⇒ `validate`, with exactly what `wfb` does not look at -/

/-- The converse direction.  `wfb` reads the tree only through `children` /
`nodesAt`, so it says nothing about: the hierarchy being non-empty (`wfb` holds
vacuously for `hierarchy = []`, which the validator refuses), the `hierarchy`
key being present (`hasH`), stray level keys outside the hierarchy
(`keysSub`), node keys being `str`, a child listed twice by ONE parent
(`childNodup`; `wfb` only compares different parents), repeated reference rows
(`rows`), and duplicate dict keys (`DictOK`: an association list with a
repeated key is read at its first binding by the model).  With those, `wfb`
gives back the validator's acceptance. -/
theorem validate_of_wfb {t : RawTree} (h : LevelLoop.wfb t = true) (d : DictOK t)
    (hne : t.hierarchy ≠ [])
    (hasH : t.hasHierarchy = true) (str : t.nodesAreStr = true)
    (keysSub : ∀ k, k ∈ t.levels.map (·.1) → k ∈ t.hierarchy)
    (childNodup : ∀ pl cl, (pl, cl) ∈ RawTree.levelPairs t.hierarchy →
      ∀ p cs, (p, cs) ∈ t.level pl → cs.Nodup)
    (rows : t.allRows.Nodup) : t.validate = .ok () := by
  have hnd := LevelLoop.wfb_nodup_hierarchy h
  have hfacts : ∀ pl cl, (pl, cl) ∈ RawTree.levelPairs t.hierarchy →
      LevelLoop.LevelFacts t (some pl) cl := by
    intro pl cl hpc
    obtain ⟨pre, post, hs⟩ := split_of_mem_levelPairs hpc
    exact LevelLoop.facts_of_split h hs
  apply validate_of_strict hnd hne (hasNode_of_wfb h)
  refine ⟨hasH, keysSub, ?_, str, ?_, ?_, ?_, ?_, childNodup, rows⟩
  · -- every level of the hierarchy has its dict (it has a node)
    intro k hk
    have hn := LevelLoop.wfb_nodesAt_nonempty h hk
    rcases level_mem_or_nil t k with hm | hm
    · exact List.mem_map.2 ⟨_, hm, rfl⟩
    · exact absurd (by simp [nodesAt, hm]) hn
  · intro pl cl hpc p cs hp c hc
    have hpn : p ∈ t.nodesAt pl := mem_nodesAt.2 ⟨cs, hp⟩
    have := (LevelLoop.facts_kidsD (hfacts pl cl hpc) hpn).2 c
    rw [LevelLoop.kidsD_of_mem_level (d.nodesAt_nodup pl) hp] at this
    exact this hc
  · intro pl cl hpc c hc
    obtain ⟨q, hq, hcq⟩ := (hfacts pl cl hpc).surj c hc
    obtain ⟨k, hk, rfl⟩ := (LevelLoop.mem_parentNodeList_some t pl q).mp hq
    rw [kidsD_eq_entry d hk] at hcq
    exact ⟨k, _, mem_level_entry hk, hcq⟩
  · intro pl cl hpc p₁ cs₁ p₂ cs₂ h₁ h₂ c hc₁ hc₂
    have hp₁ : p₁ ∈ t.nodesAt pl := mem_nodesAt.2 ⟨cs₁, h₁⟩
    have hp₂ : p₂ ∈ t.nodesAt pl := mem_nodesAt.2 ⟨cs₂, h₂⟩
    if he : p₁ = p₂ then exact he else
    exfalso
    refine (hfacts pl cl hpc).disj (some (pl, p₁))
      ((LevelLoop.mem_parentNodeList_some t pl _).mpr ⟨p₁, hp₁, rfl⟩) (some (pl, p₂))
      ((LevelLoop.mem_parentNodeList_some t pl _).mpr ⟨p₂, hp₂, rfl⟩)
      (by intro hh; cases hh; exact he rfl) c ?_ ?_
    · rw [LevelLoop.kidsD_of_mem_level (d.nodesAt_nodup pl) h₁]; exact hc₁
    · rw [LevelLoop.kidsD_of_mem_level (d.nodesAt_nodup pl) h₂]; exact hc₂
  · intro pl cl hpc p cs hp
    have hpn : p ∈ t.nodesAt pl := mem_nodesAt.2 ⟨cs, hp⟩
    have := (LevelLoop.facts_kidsD (hfacts pl cl hpc) hpn).1
    rw [LevelLoop.kidsD_of_mem_level (d.nodesAt_nodup pl) hp] at this
    exact this

/-- `WF` and `wfb` side by side: they differ exactly by the facts listed at
`validate_of_wfb` -/
theorem WF_iff_wfb {t : RawTree} (d : DictOK t) (hne : t.hierarchy ≠ []) :
    WF t ↔
      (LevelLoop.wfb t = true ∧ t.hasHierarchy = true ∧ t.nodesAreStr = true ∧
        (∀ k, k ∈ t.levels.map (·.1) → k ∈ t.hierarchy) ∧
        (∀ pl cl, (pl, cl) ∈ RawTree.levelPairs t.hierarchy →
          ∀ p cs, (p, cs) ∈ t.level pl → cs.Nodup) ∧
        t.allRows.Nodup) := by
  constructor
  · intro w
    have s := strict_of_validate w.valid
    exact ⟨WF_wfb w, s.hasH, s.str, s.keysSub, s.childNodup, s.rowsNodup⟩
  · rintro ⟨h, hasH, str, keysSub, childNodup, rows⟩
    exact WF.of_validate (validate_of_wfb h d hne hasH str keysSub childNodup rows) d

/-! ### `WF` ⇒ the marker stage's hypotheses -/

/-- the marker model's `TreeWF` -/
theorem treeWF_of_WF {t : RawTree} (w : WF t) : Markers.TreeWF t :=
  Markers.treeWF_of_validate t w.valid w.hNodup w.hNe (fun l _ => w.dict.nodesAt_nodup l)

/-- the marker model's `Populated` ("every parent has at least one child"):
the validator's no-childless-parent test, and its no-nodes test for the root -/
theorem populated_of_WF {t : RawTree} (w : WF t) : Markers.Populated t := by
  have s := strict_of_validate w.valid
  have hnode := hasNode_of_valid w.valid
  intro p hp ch hch
  have hch' : t.children p = .ok ch := by
    unfold Markers.childrenOf at hch
    cases hc : t.children p with
    | ok c => rw [hc] at hch; cases hch; rfl
    | error e => rw [hc] at hch; cases hch
  cases p with
  | none =>
    obtain ⟨l0, h0, rfl⟩ := children_none_ok_iff.1 hch'
    exact List.length_pos_iff.2 (hnode l0 h0)
  | some ln =>
    obtain ⟨l, n⟩ := ln
    obtain ⟨hl, hn⟩ := (Markers.mem_allParents t l n).1 hp
    obtain ⟨_, _, rfl⟩ := children_some_ok_iff.1 hch'
    obtain ⟨cl, hpc⟩ := exists_levelPair_of_mem_dropLast hl
    exact List.length_pos_iff.2 (s.childNe l cl hpc n _ (mem_level_entry hn))

/-! ### from the validator's verdict itself -/

/-- acceptance + dict-key uniqueness gives the level loop's `wfb`
(`RawTree.WF.of_validate` gives `WF`) -/
theorem wfb_of_validate {t : RawTree} (hv : t.validate = .ok ()) (d : DictOK t) :
    LevelLoop.wfb t = true :=
  WF_wfb (WF.of_validate hv d)

/-! ### the tree of the run (`runTree`: `drop_level` / `flatten`) stays well formed -/

theorem split_of_mem_ne_getLast {l : Level} {h : List Level} (hm : l ∈ h)
    (hl : h.getLast? ≠ some l) : ∃ pre cl post, h = pre ++ l :: cl :: post := by
  obtain ⟨pre, rest, rfl⟩ := List.append_of_mem hm
  cases rest with
  | nil => exact absurd (by simp) hl
  | cons cl post => exact ⟨pre, cl, post, rfl⟩

/-- a successful `drop_level` (without `allow_leaf`) dropped a non-leaf level -/
theorem dropLevel_not_leaf {t t' : RawTree} {l : Level} (h : t.dropLevel l = .ok t') :
    t.hierarchy.getLast? ≠ some l := by
  unfold RawTree.dropLevel at h
  cases hraw : t.dropLevelRaw l with
  | error e => rw [hraw] at h; cases h
  | ok t1 =>
    unfold RawTree.dropLevelRaw at hraw
    split at hraw
    · cases hraw
    · cases hidx : t.levelIdx l with
      | none => simp only [hidx] at hraw; cases hraw
      | some idx =>
        simp only [hidx] at hraw
        split at hraw
        · cases hraw
        · rename_i hleaf
          intro he
          apply hleaf
          simp [RawTree.leafLevel, he]

/-- whatever `drop_level` / `flatten` the configuration asks for, the tree the
run votes on inherits `wfb` from the stored tree -/
theorem wfb_runTree {t0 t : RawTree} {cfg : LevelLoop.Config} (h0 : LevelLoop.wfb t0 = true)
    (hrun : LevelLoop.runTree t0 cfg = .ok t) : LevelLoop.wfb t = true := by
  have hflat : ∀ t1, LevelLoop.wfb t1 = true → LevelLoop.wfb (if cfg.flatten then t1.flatten else t1) = true := by
    intro t1 h1
    split
    · by_cases hne : t1.hierarchy = []
      · -- with an empty hierarchy `flatten` is the identity
        have : t1.flatten = t1 := by simp [RawTree.flatten, RawTree.leafLevel, hne]
        rw [this]; exact h1
      · exact LevelLoop.wfb_flatten h1 (ll := t1.hierarchy.getLast hne)
          (by simp [RawTree.leafLevel, List.getLast?_eq_some_getLast hne])
    · exact h1
  unfold LevelLoop.runTree at hrun
  cases hd : cfg.dropLevel with
  | none =>
    simp only [hd, Except.ok.injEq] at hrun
    subst hrun
    exact hflat t0 h0
  | some l =>
    simp only [hd] at hrun
    by_cases hc : t0.hierarchy.contains l = true
    · simp only [hc, if_true] at hrun
      cases hdl : t0.dropLevel l with
      | error e => simp only [hdl] at hrun; cases hrun
      | ok t1 =>
        simp only [hdl, Except.ok.injEq] at hrun
        subst hrun
        obtain ⟨hm, _⟩ := LevelLoop.dropLevel_hierarchy hdl
        obtain ⟨pre, cl, post, hs⟩ := split_of_mem_ne_getLast hm (dropLevel_not_leaf hdl)
        exact hflat t1 (LevelLoop.wfb_dropLevel h0 hdl hs)
    · simp only [hc, Bool.false_eq_true, if_false, Except.ok.injEq] at hrun
      subst hrun
      exact hflat t0 h0

/-! ### the level loop's root-to-leaf paths are the tree model's paths -/

theorem linkedFrom_getElem (t : RawTree) : ∀ (A : List (Level × Node)) (p : LevelLoop.Parent),
    LevelLoop.LinkedFrom t p A → ∀ j (hj : j + 1 < A.length),
      t.childToParent A[j+1].1 A[j+1].2 = some (A[j]'(by omega)).2
  | [], _, _, j, hj => by simp at hj
  | (l, n) :: rest, p, h, j, hj => by
    have h' : LevelLoop.LinkedFrom t (some (l, n)) rest := by
      cases p with
      | none => exact h
      | some q => exact h.2
    cases j with
    | zero =>
      cases rest with
      | nil => simp at hj
      | cons x rest' => exact h'.1
    | succ j =>
      have := linkedFrom_getElem t rest (some (l, n)) h' j (by simpa using hj)
      simpa using this

/-- C01's `IsRootToLeafPath` (one node per level, consecutive ones related by
`child_to_parent`) is C10's `IsPath` (each node a LISTED CHILD of the previous
one) on a `WF` tree -/
theorem isPath_of_rootToLeaf {t : RawTree} (w : WF t) {es : List (Level × LevelLoop.Entry)}
    (h : LevelLoop.IsRootToLeafPath t es) : IsPath t (es.map (·.2.assignment)) := by
  have s := strict_of_validate w.valid
  obtain ⟨hlv, hnodes, hlink⟩ := h
  have hlen : es.length = t.hierarchy.length := by
    have := congrArg List.length hlv; simpa using this
  have hlevel : ∀ j (hj : j < es.length), es[j].1 = t.hierarchy[j]'(by omega) := by
    intro j hj
    have : (es.map (·.1))[j]'(by simpa using hj) = t.hierarchy[j]'(by omega) := by
      simp only [hlv]
    simpa using this
  refine ⟨by simpa using hlen, ?_, ?_⟩
  · intro j hj hj'
    have hj0 : j < es.length := by simpa using hj
    have := hnodes es[j] (List.getElem_mem hj0)
    rw [hlevel j hj0] at this
    simpa using this
  · intro j hj hj'
    have hj0 : j + 1 < es.length := by simpa using hj
    have hA : j + 1 < (LevelLoop.assignments es).length := by
      simpa [LevelLoop.assignments] using hj0
    have hc := linkedFrom_getElem t _ none hlink j hA
    simp only [LevelLoop.assignments, List.getElem_map] at hc
    rw [hlevel (j+1) hj0, childToParent_eq_some_iff s w.hNodup hj', isChild_iff w.dict] at hc
    simpa using hc.2

/-! ### the example taxonomy of the C01/C06/C17 non-vacuity examples is validator-accepted -/

theorem exTree_accepted : LevelLoop.exTree.validate = .ok () ∧ DictOK LevelLoop.exTree :=
  ⟨by rfl, dictOK_of_b (by decide)⟩

/-! ### trees equal up to the order of dict keys / child lists give the same mapping

C10's `drop_commutes_build` relates the dropped tree and the tree built without
the column by `TreeEquiv` (same hierarchy, same nodes, same entries UP TO
ORDER).  The level loop hands the oracle the children in stored order, each
with its leaf list in `as_leaves` order; so the two mappings agree for oracles
that do not look at these orders (`OrderBlind`). -/

/-- two `kids` arguments of the oracle that differ only in the order of the
children and of each child's leaf list -/
def KidsEquiv (a b : List (Node × List Node)) : Prop :=
  (a.map (·.1)).Perm (b.map (·.1)) ∧ ∀ k la lb, (k, la) ∈ a → (k, lb) ∈ b → la.Perm lb

/-- the oracle reads the children of the parent and their leaves as SETS (on
arguments whose children are distinct, as they are on a validated tree) -/
def OrderBlind {κ} (vote : LevelLoop.Oracle κ) : Prop :=
  ∀ p a b c, (a.map (·.1)).Nodup → KidsEquiv a b → vote p a c = vote p b c

/-- tree-independent form of `VoteOK`: the oracle returns one of the children it
was given -/
def VoteChild {κ} (vote : LevelLoop.Oracle κ) : Prop :=
  ∀ p kl c, 2 ≤ kl.length → (vote p kl c).assignment ∈ kl.map (·.1)

theorem voteOK_of_voteChild {κ} {vote : LevelLoop.Oracle κ} (h : VoteChild vote) (t : RawTree) :
    LevelLoop.VoteOK t vote := by
  intro p cl kids c hk
  have := h p (LevelLoop.kidsOf t cl kids) c (by simpa [LevelLoop.kidsOf] using hk)
  simpa [LevelLoop.kidsOf, List.map_map, Function.comp_def] using this

theorem leavesSpec_equiv {t₁ t₂ : RawTree} (e : TreeEquiv t₁ t₂) (s₁ : Strict t₁) :
    ∀ (below : List Level) (i : Nat) (hi : i < t₁.hierarchy.length),
      below = t₁.hierarchy.drop (i+1) → ∀ n, n ∈ t₁.nodesAt t₁.hierarchy[i] →
        (leavesSpec t₁ below t₁.hierarchy[i] n).Perm (leavesSpec t₂ below t₁.hierarchy[i] n)
  | [], _, _, _, _, _ => List.Perm.refl _
  | cl :: rest, i, hi, hb, n, hn => by
    have hi1 : i + 1 < t₁.hierarchy.length := by
      rcases Nat.lt_or_ge (i+1) t₁.hierarchy.length with h | h
      · exact h
      · rw [List.drop_eq_nil_of_le h] at hb; cases hb
    rw [List.drop_eq_getElem_cons hi1] at hb
    obtain ⟨rfl, rfl⟩ := List.cons.inj hb
    simp only [leavesSpec]
    have hl : t₁.hierarchy[i] ∈ t₁.hierarchy := List.getElem_mem hi
    refine (perm_flatMap_congr (fun c hc => ?_)).trans ((e.entries _ hl n hn).flatMap_right _)
    exact leavesSpec_equiv e s₁ _ (i+1) hi1 rfl c (s₁.entry_sub hi1 hn hc)

/-- `as_leaves` of equivalent trees agree up to order -/
theorem asLeaves_equiv {t₁ t₂ : RawTree} (e : TreeEquiv t₁ t₂) (s₁ : Strict t₁)
    (hN : t₁.hierarchy.Nodup) {l : Level} (hl : l ∈ t₁.hierarchy) {n : Node}
    (hn : n ∈ t₁.nodesAt l) : (t₁.asLeaves l n).Perm (t₂.asLeaves l n) := by
  obtain ⟨i, hi, rfl⟩ := List.getElem_of_mem hl
  have hb₂ : t₂.levelsBelow t₁.hierarchy[i] = t₁.hierarchy.drop (i+1) := by
    have h2 : i < t₂.hierarchy.length := by rw [← e.hier]; exact hi
    have : t₁.hierarchy[i] = t₂.hierarchy[i] := by simp only [e.hier]
    rw [this, levelsBelow_getElem (e.hier ▸ hN) h2, e.hier]
  refine (asLeaves_perm_spec t₁ _ n).trans (List.Perm.trans ?_ (asLeaves_perm_spec t₂ _ n).symm)
  rw [hb₂, levelsBelow_getElem hN hi]
  exact leavesSpec_equiv e s₁ _ i hi rfl n hn

/-- children of a legitimate parent: present in both trees, equal up to order -/
theorem children_equiv {t₁ t₂ : RawTree} (e : TreeEquiv t₁ t₂) (w₁ : WF t₁) (w₂ : WF t₂)
    {p : LevelLoop.Parent} {k₁ : List Node} (h₁ : t₁.children p = .ok k₁) :
    ∃ k₂, t₂.children p = .ok k₂ ∧ k₁.Perm k₂ ∧ k₁.Nodup := by
  have s₁ := strict_of_validate w₁.valid
  cases p with
  | none =>
    obtain ⟨l0, h0, rfl⟩ := children_none_ok_iff.1 h₁
    have hl0 : l0 ∈ t₁.hierarchy := List.mem_of_mem_head? h0
    refine ⟨t₂.nodesAt l0, children_root (e.hier ▸ h0), ?_, w₁.dict.nodesAt_nodup l0⟩
    exact perm_of_nodup_of_mem_iff (w₁.dict.nodesAt_nodup l0) (w₂.dict.nodesAt_nodup l0)
      (e.nodes l0 hl0)
  | some ln =>
    obtain ⟨l, n⟩ := ln
    obtain ⟨hlk, hn, rfl⟩ := children_some_ok_iff.1 h₁
    have hl : l ∈ t₁.hierarchy := s₁.keysSub l hlk
    have hn₂ : n ∈ t₂.nodesAt l := (e.nodes l hl n).1 hn
    exact ⟨_, children_eq_entry w₂.dict hn₂, e.entries l hl n hn,
      s₁.entry_nodup_of_mem hl hn⟩

theorem voteFn_equiv {κ} {t₁ t₂ : RawTree} {vote : LevelLoop.Oracle κ} (hob : OrderBlind vote)
    (p : LevelLoop.Parent) (cl : Level) {k₁ k₂ : List Node} (hperm : k₁.Perm k₂) (hnd : k₁.Nodup)
    (hleaves : ∀ k ∈ k₁, (t₁.asLeaves cl k).Perm (t₂.asLeaves cl k)) (c : κ) :
    LevelLoop.voteFn t₁ vote p cl k₁ c = LevelLoop.voteFn t₂ vote p cl k₂ c := by
  have hke : KidsEquiv (LevelLoop.kidsOf t₁ cl k₁) (LevelLoop.kidsOf t₂ cl k₂) := by
    refine ⟨by simpa [LevelLoop.kidsOf, List.map_map, Function.comp_def] using hperm, ?_⟩
    intro k la lb ha hb
    simp only [LevelLoop.kidsOf, List.mem_map, Prod.mk.injEq] at ha hb
    obtain ⟨k', hk', rfl, rfl⟩ := ha
    obtain ⟨k'', _, rfl, rfl⟩ := hb
    exact hleaves _ hk'
  have hvote := hob p _ _ c (by simpa [LevelLoop.kidsOf, List.map_map, Function.comp_def] using hnd) hke
  match k₁, k₂, hperm with
  | [], k₂, hp =>
    have : k₂ = [] := List.nil_perm.mp hp
    subst this
    simpa [LevelLoop.voteFn] using hvote
  | [a], k₂, hp =>
    have : k₂ = [a] := List.perm_singleton.mp hp.symm
    subst this
    simp [LevelLoop.voteFn]
  | a :: b :: r, k₂, hp =>
    have hlen : k₂.length = r.length + 2 := by simpa using hp.length_eq.symm
    match k₂, hlen with
    | a' :: b' :: r', _ => simpa [LevelLoop.voteFn] using hvote

/-- the one-cell walk is the same on equivalent trees, for an order-blind oracle -/
theorem walkFrom_equiv {κ} {t₁ t₂ : RawTree} {vote : LevelLoop.Oracle κ} (e : TreeEquiv t₁ t₂)
    (w₁ : WF t₁) (w₂ : WF t₂) (hob : OrderBlind vote) (hv : LevelLoop.VoteOK t₁ vote) (c : κ) :
    ∀ (ls pre : List Level) (p : LevelLoop.Parent), t₁.hierarchy = pre ++ ls →
      LevelLoop.At t₁ pre p →
      LevelLoop.walkFrom t₁ vote c ls p = LevelLoop.walkFrom t₂ vote c ls p
  | [], _, _, _, _ => rfl
  | cl :: rest, pre, p, hs, hat => by
    have s₁ := strict_of_validate w₁.valid
    have hkids : ∃ k₁, t₁.children p = .ok k₁ ∧ ∀ k ∈ k₁, k ∈ t₁.nodesAt cl := by
      rcases hat with ⟨rfl, rfl⟩ | ⟨pre', pl, n, rfl, rfl, hn⟩
      · have h0 : t₁.hierarchy.head? = some cl := by rw [hs]; rfl
        exact ⟨_, children_root h0, fun k hk => hk⟩
      · have hpc : (pl, cl) ∈ RawTree.levelPairs t₁.hierarchy := by
          rw [hs, List.append_assoc]; exact mem_levelPairs_of_split _ _ _ _
        exact ⟨_, children_eq_entry w₁.dict hn,
          fun k hk => s₁.childExists pl cl hpc n _ (mem_level_entry hn) k hk⟩
    obtain ⟨k₁, h₁, hsub⟩ := hkids
    obtain ⟨k₂, h₂, hperm, hnd⟩ := children_equiv e w₁ w₂ h₁
    have hcl : cl ∈ t₁.hierarchy := by rw [hs]; simp
    have hvf := voteFn_equiv (t₁ := t₁) (t₂ := t₂) hob p cl hperm hnd
      (fun k hk => asLeaves_equiv e s₁ w₁.hNodup hcl (hsub k hk)) c
    by_cases hne : k₁ = []
    · subst hne
      have : k₂ = [] := List.nil_perm.mp hperm
      subst this
      simp [LevelLoop.walkFrom, h₁, h₂]
    · have hne₂ : k₂ ≠ [] := fun h => hne (List.perm_nil.mp (h ▸ hperm))
      have hmem := LevelLoop.voteFn_mem hv p cl k₁ c hne
      have hat' : LevelLoop.At t₁ (pre ++ [cl])
          (some (cl, (LevelLoop.voteFn t₁ vote p cl k₁ c).assignment)) :=
        Or.inr ⟨pre, cl, _, rfl, rfl, hsub _ hmem⟩
      have ih := walkFrom_equiv e w₁ w₂ hob hv c rest (pre ++ [cl]) _
        (by rw [hs]; simp) hat'
      have e₁ : k₁.isEmpty = false := by cases k₁ <;> simp_all
      have e₂ : k₂.isEmpty = false := by cases k₂ <;> simp_all
      rw [hvf] at ih
      simp only [LevelLoop.walkFrom, h₁, h₂, e₁, e₂, Bool.false_eq_true, if_false, hvf, ih]

theorem walk_equiv {κ} {t₁ t₂ : RawTree} {vote : LevelLoop.Oracle κ} (e : TreeEquiv t₁ t₂)
    (w₁ : WF t₁) (w₂ : WF t₂) (hob : OrderBlind vote) (hv : LevelLoop.VoteOK t₁ vote) (c : κ) :
    LevelLoop.walk t₁ vote c = LevelLoop.walk t₂ vote c := by
  unfold LevelLoop.walk
  rw [← e.hier, walkFrom_equiv e w₁ w₂ hob hv c t₁.hierarchy [] none rfl (Or.inl ⟨rfl, rfl⟩)]

theorem mkRecord_equiv {κ} {t₁ t₂ : RawTree} {vote : LevelLoop.Oracle κ} (e : TreeEquiv t₁ t₂)
    (w₁ : WF t₁) (w₂ : WF t₂) (hob : OrderBlind vote) (hv : LevelLoop.VoteOK t₁ vote) :
    LevelLoop.mkRecord t₁ vote = LevelLoop.mkRecord t₂ vote := by
  funext id c
  simp only [LevelLoop.mkRecord, LevelLoop.walkD, walk_equiv e w₁ w₂ hob hv c]

/-- **mapping on equivalent taxonomies**: two stored taxonomies that differ only
in the order of dict keys and of child / row lists give, for an order-blind
oracle, the same mapping output (run without `drop_level` / `flatten`) -/
theorem mapPipeline_equiv {κ} {t₁ t₂ : RawTree} {vote : LevelLoop.Oracle κ} (e : TreeEquiv t₁ t₂)
    (w₁ : WF t₁) (w₂ : WF t₂) (hnode : HasNode t₁) (hob : OrderBlind vote)
    (hv₁ : LevelLoop.VoteOK t₁ vote) (hv₂ : LevelLoop.VoteOK t₂ vote)
    (cfg : LevelLoop.Config) (hdrop : cfg.dropLevel = none) (hflat : cfg.flatten = false)
    (ids : List LevelLoop.CellId) (cells : List κ) (order : List Nat)
    (hlen : ids.length = cells.length) (hnd : ids.Nodup)
    (hproc : 1 ≤ cfg.nProc) (hcs : 1 ≤ cfg.chunkSize)
    (horder : order.Perm (List.range (LevelLoop.chunks cells.length
      (LevelLoop.effChunk cells.length cfg.nProc cfg.chunkSize)).length)) :
    LevelLoop.mapPipeline t₁ cfg vote ids cells order =
      LevelLoop.mapPipeline t₂ cfg vote ids cells order := by
  have hnode₂ : HasNode t₂ := by
    intro l0 h0 he
    have h0' : t₁.hierarchy.head? = some l0 := by rw [e.hier]; exact h0
    have hl0 : l0 ∈ t₁.hierarchy := List.mem_of_mem_head? h0'
    cases hn : t₁.nodesAt l0 with
    | nil => exact hnode l0 h0' hn
    | cons a as =>
      have : a ∈ t₂.nodesAt l0 := (e.nodes l0 hl0 a).1 (by rw [hn]; simp)
      rw [he] at this; cases this
  rw [LevelLoop.mapPipeline_plain_ok t₁ cfg vote ids cells order hdrop hflat (wfb_of_WF w₁ hnode)
      hv₁ hlen hnd hproc hcs horder,
    LevelLoop.mapPipeline_plain_ok t₂ cfg vote ids cells order hdrop hflat (wfb_of_WF w₂ hnode₂)
      hv₂ hlen hnd hproc hcs horder,
    mkRecord_equiv e w₁ w₂ hob hv₁, e.hier]

/-- `mapPipeline_equiv` without the (now redundant) `HasNode` argument -/
theorem mapPipeline_equiv_wf {κ} {t₁ t₂ : RawTree} {vote : LevelLoop.Oracle κ} (e : TreeEquiv t₁ t₂)
    (w₁ : WF t₁) (w₂ : WF t₂) (hob : OrderBlind vote)
    (hv₁ : LevelLoop.VoteOK t₁ vote) (hv₂ : LevelLoop.VoteOK t₂ vote)
    (cfg : LevelLoop.Config) (hdrop : cfg.dropLevel = none) (hflat : cfg.flatten = false)
    (ids : List LevelLoop.CellId) (cells : List κ) (order : List Nat)
    (hlen : ids.length = cells.length) (hnd : ids.Nodup)
    (hproc : 1 ≤ cfg.nProc) (hcs : 1 ≤ cfg.chunkSize)
    (horder : order.Perm (List.range (LevelLoop.chunks cells.length
      (LevelLoop.effChunk cells.length cfg.nProc cfg.chunkSize)).length)) :
    LevelLoop.mapPipeline t₁ cfg vote ids cells order =
      LevelLoop.mapPipeline t₂ cfg vote ids cells order :=
  mapPipeline_equiv e w₁ w₂ (hasNode_of_valid w₁.valid) hob hv₁ hv₂ cfg hdrop hflat ids cells order
    hlen hnd hproc hcs horder

/-! ### taxonomies built from label columns -/

theorem split_at_idx {α} (l : List α) {i : Nat} (hi : i + 1 < l.length) :
    l = l.take i ++ l[i] :: l[i+1] :: l.drop (i+2) := by
  have h1 : l.drop i = l[i] :: l.drop (i+1) := List.drop_eq_getElem_cons (by omega)
  have h2 : l.drop (i+1) = l[i+1] :: l.drop (i+2) := List.drop_eq_getElem_cons hi
  calc l = l.take i ++ l.drop i := (List.take_append_drop i l).symm
    _ = _ := by rw [h1, h2]

/-! ### an order-blind oracle (non-vacuity of `OrderBlind`, `VoteChild`) -/

/-- an order-blind oracle for non-vacuity examples: the smallest child -/
def minVote : LevelLoop.Oracle Nat := fun _ kids _ =>
  { assignment := (kids.map (·.1)).foldl min ((kids.map (·.1)).headD 0), prob := 1, corr := none,
    runnersUp := none }

theorem foldl_min_mem : ∀ (xs : List Nat) (a : Nat), xs.foldl min a = a ∨ xs.foldl min a ∈ xs
  | [], _ => Or.inl rfl
  | x :: xs, a => by
    simp only [List.foldl_cons, List.mem_cons]
    rcases foldl_min_mem xs (min a x) with h | h
    · rw [h]
      rcases Nat.le_total a x with hax | hxa
      · left; exact Nat.min_eq_left hax
      · right; left; exact Nat.min_eq_right hxa
    · right; right; exact h

theorem foldl_min_le : ∀ (xs : List Nat) (a : Nat), xs.foldl min a ≤ a ∧ ∀ x ∈ xs, xs.foldl min a ≤ x
  | [], _ => ⟨Nat.le_refl _, by simp⟩
  | y :: ys, a => by
    obtain ⟨h1, h2⟩ := foldl_min_le ys (min a y)
    simp only [List.foldl_cons, List.mem_cons]
    refine ⟨Nat.le_trans h1 (Nat.min_le_left _ _), ?_⟩
    rintro x (rfl | hx)
    · exact Nat.le_trans h1 (Nat.min_le_right _ _)
    · exact h2 x hx

theorem minVote_child : VoteChild minVote := by
  intro p kl c hk
  simp only [minVote]
  cases hkl : kl.map (·.1) with
  | nil =>
    have : kl.length = 0 := by simpa using congrArg List.length hkl
    omega
  | cons a as =>
    simp only [List.headD_cons]
    rcases foldl_min_mem (a :: as) a with h | h
    · rw [h]; simp
    · exact h

theorem minVote_orderBlind : OrderBlind minVote := by
  intro p a b c _ hke
  have hperm := hke.1
  simp only [minVote]
  congr 1
  -- the minimum of a list does not depend on its order
  have key : ∀ (xs : List Nat), xs ≠ [] → ∀ m, (m ∈ xs ∧ ∀ x ∈ xs, m ≤ x) →
      xs.foldl min (xs.headD 0) = m := by
    intro xs hne m ⟨hm, hle⟩
    cases xs with
    | nil => exact absurd rfl hne
    | cons y ys =>
      simp only [List.headD_cons]
      obtain ⟨h1, h2⟩ := foldl_min_le (y :: ys) y
      have hmem : (y :: ys).foldl min y ∈ y :: ys := by
        rcases foldl_min_mem (y :: ys) y with h | h
        · rw [h]; simp
        · exact h
      exact Nat.le_antisymm (h2 m hm) (hle _ hmem)
  cases ha : a.map (·.1) with
  | nil =>
    rw [ha] at hperm
    rw [List.nil_perm.mp hperm]
  | cons y ys =>
    rw [ha] at hperm
    have hbne : b.map (·.1) ≠ [] := by
      intro h; rw [h] at hperm; exact absurd (List.perm_nil.mp hperm) (by simp)
    obtain ⟨h1, h2⟩ := foldl_min_le (y :: ys) y
    have hmem : (y :: ys).foldl min y ∈ y :: ys := by
      rcases foldl_min_mem (y :: ys) y with h | h
      · rw [h]; simp
      · exact h
    have := key (b.map (·.1)) hbne ((y :: ys).foldl min y)
      ⟨hperm.mem_iff.mp hmem, fun x hx => h2 x (hperm.mem_iff.mpr hx)⟩
    simp only [List.headD_cons]
    exact this.symm

/-! ### `WF` of the tree of the run; the marker stage works on the level loop's run tree -/

/-- a successful `drop_level` of a `WF` tree returns a `WF` tree (C10 `drop_preserves`,
by level name) -/
theorem WF_dropLevel {t t' : RawTree} {l : Level} (w : WF t) (h : t.dropLevel l = .ok t') :
    WF t' := by
  obtain ⟨hm, _⟩ := LevelLoop.dropLevel_hierarchy h
  have hnl := dropLevel_not_leaf h
  obtain ⟨i, hi, rfl⟩ := List.getElem_of_mem hm
  have hi1 : i + 1 < t.hierarchy.length := by
    rcases Nat.lt_or_ge (i+1) t.hierarchy.length with h1 | h1
    · exact h1
    · exfalso; apply hnl
      rw [List.getLast?_eq_getElem?, show t.hierarchy.length - 1 = i by omega]
      exact List.getElem?_eq_getElem hi
  obtain ⟨t'', h'', _, w''⟩ := dropLevel_eq_ok w (i := i) (allowLeaf := false) hi (by omega)
    (Or.inr hi1)
  rw [h] at h''
  cases h''
  exact w''

/-- the tree of the run (`drop_level` / `flatten`) of a `WF` stored tree is `WF` -/
theorem WF_runTree {t0 t : RawTree} {cfg : LevelLoop.Config} (w : WF t0)
    (hrun : LevelLoop.runTree t0 cfg = .ok t) : WF t := by
  have hflat : ∀ t1, WF t1 → WF (if cfg.flatten then t1.flatten else t1) := by
    intro t1 w1; split
    · exact flatten_wf w1
    · exact w1
  unfold LevelLoop.runTree at hrun
  cases hd : cfg.dropLevel with
  | none =>
    simp only [hd, Except.ok.injEq] at hrun
    subst hrun; exact hflat t0 w
  | some l =>
    simp only [hd] at hrun
    by_cases hc : t0.hierarchy.contains l = true
    · simp only [hc, if_true] at hrun
      cases hdl : t0.dropLevel l with
      | error e => simp only [hdl] at hrun; cases hrun
      | ok t1 =>
        simp only [hdl, Except.ok.injEq] at hrun
        subst hrun
        exact hflat t1 (WF_dropLevel w hdl)
    · simp only [hc, Bool.false_eq_true, if_false, Except.ok.injEq] at hrun
      subst hrun; exact hflat t0 w

/-- **the marker stage and the level loop work on the same tree**: the marker
stage with `drop_level` / `flatten` is the plain marker stage on the level
loop's `runTree` (with the flattened table when flattening) -/
theorem stage_eq_stage_runTree {t0 t : RawTree} {cfg : LevelLoop.Config}
    (hrun : LevelLoop.runTree t0 cfg = .ok t) (lk : Markers.Lookup) (R Q : List Markers.Gene)
    (m : Nat) :
    Markers.stage t0 lk R Q m cfg.dropLevel cfg.flatten =
      Markers.stage t (if cfg.flatten then Markers.flattenLookup lk else lk) R Q m none false := by
  unfold LevelLoop.runTree at hrun
  cases hd : cfg.dropLevel with
  | none =>
    simp only [hd, Except.ok.injEq] at hrun
    subst hrun
    cases hf : cfg.flatten <;> simp [Markers.stage]
  | some l =>
    simp only [hd] at hrun
    by_cases hc : t0.hierarchy.contains l = true
    · simp only [hc, if_true] at hrun
      cases hdl : t0.dropLevel l with
      | error e => simp only [hdl] at hrun; cases hrun
      | ok t1 =>
        simp only [hdl, Except.ok.injEq] at hrun
        subst hrun
        have hc' : l ∈ t0.hierarchy := by simpa using hc
        cases hf : cfg.flatten <;> simp [Markers.stage, hc', hdl]
    · simp only [hc, Bool.false_eq_true, if_false, Except.ok.injEq] at hrun
      subst hrun
      have hc' : l ∉ t0.hierarchy := by simpa using hc
      cases hf : cfg.flatten <;> simp [Markers.stage, hc']

/-! ### C10 side of C17's flatten clause: flatten = build from the leaf column

`flatten()` of the taxonomy built from the label columns IS (equal, not only
`TreeEquiv`) the one-level taxonomy built from the leaf column alone: the leaf
level's dict is filled by `tree[leaf_column][leaf].append(i_row)` whatever the
other columns are. -/

theorem getLast?_eq_getLastD {α} {r : List α} (hne : r ≠ []) (d : α) :
    r.getLast? = some (r.getLastD d) := by
  rw [List.getLastD_eq_getLast?, List.getLast?_eq_some_getLast hne]
  rfl

/-- the leaf column of the accumulator only depends on the leaf labels -/
theorem go_leaf_col {cols : List Level} (hc : cols.Nodup) {leaf : Level}
    (hl : cols.getLast? = some leaf) :
    ∀ (recs : List (List Node)) (acc acc' : List (Level × LevelMap)) (i : Nat),
      acc.map (·.1) = cols → acc'.map (·.1) = [leaf] → col acc leaf = col acc' leaf →
      RecsOK cols recs →
      col (fromRecordsRaw.go cols acc i recs) leaf =
        col (fromRecordsRaw.go [leaf] acc' i (recs.map (fun r => [r.getLastD 0]))) leaf
  | [], _, _, _, _, _, h, _ => h
  | r :: rs, acc, acc', i, hk, hk', h, hr => by
    have hrl : r.length = cols.length := hr r (by simp)
    have hcne : cols ≠ [] := by intro he; rw [he] at hl; cases hl
    have hrne : r ≠ [] := by
      intro he; rw [he] at hrl
      exact hcne (List.eq_nil_of_length_eq_zero hrl.symm)
    have hf := getLast?_eq_getLastD hrne 0
    show col (fromRecordsRaw.go cols (addRecord cols acc i r) (i+1) rs) leaf =
      col (fromRecordsRaw.go [leaf] (addRecord [leaf] acc' i [r.getLastD 0]) (i+1)
        (rs.map (fun r => [r.getLastD 0]))) leaf
    apply go_leaf_col hc hl rs _ _ (i+1) (by rw [addRecord_keys]; exact hk)
      (by rw [addRecord_keys]; exact hk') ?_ (fun r' h' => hr r' (List.mem_cons_of_mem _ h'))
    rw [addRecord_col_leaf hc hk hrl i hl hf,
      addRecord_col_leaf (cols := [leaf]) (r := [r.getLastD 0]) (l := leaf) (leaf := r.getLastD 0)
        (by simp) hk' rfl i rfl rfl, h]

/-- an association list whose keys are `ks ++ [leaf]` (distinct), filtered to
the keys outside `ks`, is its last binding -/
theorem filter_not_mem_init {β} (ks : List Level) (leaf : Level) :
    ∀ (L : List (Level × β)), L.map (·.1) = ks ++ [leaf] → (ks ++ [leaf]).Nodup →
      ∃ v, L.filter (fun kv => !(ks.contains kv.1)) = [(leaf, v)] ∧ L.lookup leaf = some v := by
  induction ks with
  | nil =>
    intro L hL _
    match L, hL with
    | [(k, v)], hL =>
      simp only [List.map_cons, List.map_nil, List.nil_append, List.cons.injEq, and_true] at hL
      subst hL
      exact ⟨v, by simp, by simp [List.lookup]⟩
  | cons k ks ih =>
    intro L hL hnd
    match L, hL with
    | (k', v') :: L', hL =>
      simp only [List.map_cons, List.cons_append, List.cons.injEq] at hL
      obtain ⟨rfl, hL'⟩ := hL
      have hnd2 : (k' :: (ks ++ [leaf])).Nodup := hnd
      have hnd' := List.nodup_cons.mp hnd2
      obtain ⟨v, hf, hlk⟩ := ih L' hL' hnd'.2
      refine ⟨v, ?_, ?_⟩
      · -- the head is dropped; on the tail the two filters agree
        have hne : ∀ kv ∈ L', kv.1 ≠ k' := by
          intro kv hkv he
          exact hnd'.1 (by rw [← hL', ← he]; exact List.mem_map.2 ⟨kv, hkv, rfl⟩)
        have : L'.filter (fun kv => !(kv.1 == k' || ks.contains kv.1)) =
            L'.filter (fun kv => !(ks.contains kv.1)) := by
          apply List.filter_congr
          intro kv hkv
          have hb : (kv.1 == k') = false := beq_false_of_ne (hne kv hkv)
          simp [hb]
        simp only [List.filter_cons, List.contains_cons, beq_self_eq_true, Bool.true_or,
          Bool.not_true, Bool.false_eq_true, if_false]
        rw [this, hf]
      · have hne : (leaf == k') = false := by
          apply beq_false_of_ne
          intro he
          exact hnd'.1 (by rw [← he]; simp)
        simp only [List.lookup, hne]
        exact hlk

theorem eq_singleton_of_keys {β} {leaf : Level} :
    ∀ (L : List (Level × β)), L.map (·.1) = [leaf] → ∃ v, L = [(leaf, v)]
  | [], h => by simp at h
  | [(k, v)], h => by
    simp only [List.map_cons, List.map_nil, List.cons.injEq, and_true] at h
    exact ⟨v, by rw [h]⟩
  | _ :: _ :: _, h => by simp at h

/-- **flatten = build from the leaf column** (C10 side of C17) -/
theorem flatten_fromRecords_eq {cols : List Level} {recs : List (List Node)} (hc : cols.Nodup)
    (hne : cols ≠ []) (hr : RecsOK cols recs) :
    (fromRecordsRaw cols recs).flatten =
      fromRecordsRaw [cols.getLast hne] (recs.map (fun r => [r.getLastD 0])) := by
  have hl : cols.getLast? = some (cols.getLast hne) := List.getLast?_eq_some_getLast hne
  have hll : (fromRecordsRaw cols recs).leafLevel = some (cols.getLast hne) := hl
  rw [flatten_eq hll]
  -- the two level lists
  have hkeys := fromRecordsRaw_keys cols recs
  have hsplit : cols = cols.dropLast ++ [cols.getLast hne] := (List.dropLast_concat_getLast hne).symm
  obtain ⟨v, hf, hlk⟩ := filter_not_mem_init cols.dropLast (cols.getLast hne)
    (fromRecordsRaw cols recs).levels (by rw [hkeys]; exact hsplit) (by rw [← hsplit]; exact hc)
  have hkeys' := fromRecordsRaw_keys [cols.getLast hne] (recs.map (fun r => [r.getLastD 0]))
  obtain ⟨v', hL'⟩ := eq_singleton_of_keys _ hkeys'
  have hcol := go_leaf_col hc hl recs (cols.map (fun c => (c, []))) [(cols.getLast hne, [])] 0
    (by simp [List.map_map, Function.comp_def]) rfl
    (by
      have hm : cols.getLast hne ∈ cols := List.getLast_mem hne
      simp only [col, List.lookup, beq_self_eq_true, Option.getD_some]
      rw [lookup_of_mem_nodup (m := cols.map (fun c => (c, ([] : LevelMap)))) (k := cols.getLast hne)
        (v := []) (by simpa [List.map_map, Function.comp_def] using hc)
        (List.mem_map.2 ⟨_, hm, rfl⟩)]
      rfl) hr
  have hvv : v = v' := by
    have h1 : col (fromRecordsRaw cols recs).levels (cols.getLast hne) = v := by
      simp [col, hlk]
    have h2 : col (fromRecordsRaw [cols.getLast hne] (recs.map (fun r => [r.getLastD 0]))).levels
        (cols.getLast hne) = v' := by
      unfold col
      rw [hL']
      simp [List.lookup]
    rw [← h1, ← h2]
    exact hcol
  show ({ fromRecordsRaw cols recs with
      hierarchy := [cols.getLast hne]
      levels := (fromRecordsRaw cols recs).levels.filter
        (fun (k, _) => !((fromRecordsRaw cols recs).hierarchy.dropLast.contains k)) } : RawTree) = _
  have hfilter : (fromRecordsRaw cols recs).levels.filter
        (fun (k, _) => !((fromRecordsRaw cols recs).hierarchy.dropLast.contains k)) =
      (fromRecordsRaw [cols.getLast hne] (recs.map (fun r => [r.getLastD 0]))).levels := by
    rw [hL', ← hvv, ← hf]
    rfl
  rw [hfilter]
  rfl

end CTM.Bridge
