/-
  Lemmas about the row access part of `CTM/Model/Sparse.lean`
  (`_load_sparse`, `_csr_to_dense`, `load_csr`, the row iterators).
-/
import CTM.Lemmas.Sparse

namespace CTM.Sparse
open CTM.Chunking

theorem slice_slice {β} (l : List β) (A B x y : Nat) (h : A + y ≤ B) :
    slice (slice l A B) x y = slice l (A + x) (A + y) := by
  unfold slice
  rw [List.drop_take, List.drop_drop, List.take_take]
  congr 1
  omega

/-- the loop of `_csr_to_dense` reads row after row between consecutive
pointers when the running `data_idx` starts at the first pointer -/
theorem csrRowsAux_eq {α} (zero : α) (nCols : Nat) (ind : List Nat) (dat : List α) :
    ∀ (ps : List Nat) (di : Nat), ps.Pairwise (· ≤ ·) → (∀ p ∈ ps, p ≤ ind.length) →
      ps.head? = some di →
      csrRowsAux zero nCols ind dat ps di
        = (ps.zip ps.tail).map fun ab =>
            scatter zero nCols (slice ind ab.1 ab.2) (slice dat ab.1 ab.2) := by
  intro ps
  induction ps with
  | nil => intro di _ _ h; simp at h
  | cons p0 rest ih =>
    intro di hs hb hh
    simp only [List.head?_cons, Option.some.injEq] at hh
    subst hh
    cases rest with
    | nil => simp [csrRowsAux]
    | cons p1 rest' =>
      rw [List.pairwise_cons] at hs
      have h01 : p0 ≤ p1 := hs.1 p1 (by simp)
      have hp1 : p1 ≤ ind.length := hb p1 (by simp)
      have hl : (slice ind p0 p1).length = p1 - p0 := slice_length_le ind hp1
      simp only [csrRowsAux, List.tail_cons, List.zip_cons_cons, List.map_cons, hl]
      have e : p0 + (p1 - p0) = p1 := by omega
      rw [e]
      congr 1
      have := ih p1 hs.2 (fun p hp => hb p (by simp [hp])) rfl
      simpa using this

theorem slice_getElem? {β} (l : List β) (a b k : Nat) (hk : k < b - a) :
    (slice l a b)[k]? = l[a + k]? := by
  unfold slice
  rw [List.getElem?_take]
  simp [hk]

theorem ptr_eq_getElem?_getD (ip : List Nat) (i : Nat) : ptr ip i = ip[i]?.getD 0 := by
  simp [ptr, List.getD_eq_getElem?_getD]

theorem loadSparse_ok {α} (M : Mat α) (nRows : Nat) (w : WFptr M.indptr nRows M.indices.length)
    (r0 r1 : Nat) (h01 : r0 ≤ r1) (h1 : r1 ≤ nRows) :
    loadSparse M r0 r1
      = .ok ⟨(slice M.indptr r0 (r1 + 1)).map (· - ptr M.indptr r0),
             slice M.indices (ptr M.indptr r0) (ptr M.indptr r1),
             slice M.data (ptr M.indptr r0) (ptr M.indptr r1)⟩ := by
  have hl := w.len
  have hsorted : (slice M.indptr r0 (r1 + 1)).Pairwise (· ≤ ·) :=
    List.Pairwise.sublist (slice_sublist _ _ _) w.sorted
  have hlen : (slice M.indptr r0 (r1 + 1)).length = r1 + 1 - r0 :=
    slice_length_le _ (by omega)
  have hhead : (slice M.indptr r0 (r1 + 1)).head? = some (ptr M.indptr r0) := by
    rw [List.head?_eq_getElem?, slice_getElem? _ _ _ _ (by omega), ptr_eq_getElem _ _ (by omega)]
    simp [List.getElem?_eq_getElem (by omega : r0 < M.indptr.length)]
  have hlast : (slice M.indptr r0 (r1 + 1)).getLast? = some (ptr M.indptr r1) := by
    rw [List.getLast?_eq_getElem?, hlen, slice_getElem? _ _ _ _ (by omega),
      ptr_eq_getElem _ _ (by omega)]
    have : r0 + (r1 + 1 - r0 - 1) = r1 := by omega
    rw [this]
    simp [List.getElem?_eq_getElem (by omega : r1 < M.indptr.length)]
  have hmin : (slice M.indptr r0 (r1 + 1)).min? = some (ptr M.indptr r0) := by
    rw [List.min?_eq_head?, hhead]
    apply List.Pairwise.imp _ hsorted
    intro a b hab
    exact Nat.min_eq_left hab
  unfold loadSparse
  simp only [hhead, hlast, hmin]

theorem slice_tail {β} (l : List β) (a b : Nat) : (slice l a b).tail = slice l (a + 1) b := by
  unfold slice
  rw [← List.drop_one, List.drop_take, List.drop_drop]
  congr 1

/-- consecutive pointer pairs of a pointer slice -/
theorem slice_pairs (ip : List Nat) : ∀ (d r0 : Nat), r0 + d < ip.length →
    (slice ip r0 (r0 + d + 1)).zip (slice ip r0 (r0 + d + 1)).tail
      = (List.range' r0 d).map (fun i => (ptr ip i, ptr ip (i + 1))) := by
  intro d
  induction d with
  | zero =>
    intro r0 h
    rw [slice_tail]
    simp [slice]
  | succ d ih =>
    intro r0 h
    rw [slice_tail]
    have h1 : slice ip r0 (r0 + (d + 1) + 1) = ptr ip r0 :: slice ip (r0 + 1) (r0 + (d + 1) + 1) := by
      unfold slice
      rw [List.drop_eq_getElem_cons (by omega : r0 < ip.length)]
      have : r0 + (d + 1) + 1 - r0 = (r0 + (d + 1) + 1 - (r0 + 1)) + 1 := by omega
      rw [this, List.take_succ_cons, ptr_eq_getElem _ _ (by omega)]
    have h2 : slice ip (r0 + 1) (r0 + (d + 1) + 1)
        = ptr ip (r0 + 1) :: slice ip (r0 + 1 + 1) (r0 + (d + 1) + 1) := by
      unfold slice
      rw [List.drop_eq_getElem_cons (by omega : r0 + 1 < ip.length)]
      have : r0 + (d + 1) + 1 - (r0 + 1) = (r0 + (d + 1) + 1 - (r0 + 1 + 1)) + 1 := by omega
      rw [this, List.take_succ_cons, ptr_eq_getElem _ _ (by omega)]
    rw [h1]
    conv => lhs; arg 2; rw [h2]
    rw [List.zip_cons_cons, List.range'_succ, List.map_cons]
    congr 1
    have := ih (r0 + 1) (by omega)
    rw [slice_tail] at this
    have e : r0 + 1 + d + 1 = r0 + (d + 1) + 1 := by omega
    rw [e] at this
    exact this

theorem mem_slice_ptr {ip : List Nat} {nRows nnz : Nat} (w : WFptr ip nRows nnz) (r0 r1 : Nat)
    (h01 : r0 ≤ r1) (h1 : r1 ≤ nRows) :
    ∀ p ∈ slice ip r0 (r1 + 1), ptr ip r0 ≤ p ∧ p ≤ ptr ip r1 := by
  intro p hp
  have hl := w.len
  rw [List.mem_iff_getElem?] at hp
  obtain ⟨k, hk⟩ := hp
  have hk2 : k < r1 + 1 - r0 := by
    have hlen : (slice ip r0 (r1 + 1)).length = r1 + 1 - r0 := slice_length_le _ (by omega)
    have := (List.getElem?_eq_some_iff.mp hk).1
    omega
  rw [slice_getElem? _ _ _ _ hk2] at hk
  have hp : p = ptr ip (r0 + k) := by
    rw [ptr_eq_getElem?_getD, hk]; rfl
  rw [hp]
  exact ⟨w.mono (by omega) (by omega), w.mono (by omega) (by omega)⟩

/-- **`load_csr`**: the dense block of rows `r0 ..< r1` is the corresponding
slice of the stored matrix -/
theorem loadCsr_ok {α} (zero : α) (M : Mat α) (nRows nCols : Nat)
    (w : WFptr M.indptr nRows M.indices.length)
    (hr : ∀ x ∈ M.indices, x < nCols) (r0 r1 : Nat) (h01 : r0 ≤ r1) (h1 : r1 ≤ nRows) :
    loadCsr zero M nCols r0 r1 = .ok (slice (toDense zero M nRows nCols) r0 r1) := by
  have hl := w.len
  unfold loadCsr
  rw [loadSparse_ok M nRows w r0 r1 h01 h1]
  simp only [bind, Except.bind]
  have hA : ptr M.indptr r0 ≤ ptr M.indptr r1 := w.mono h01 h1
  have hB : ptr M.indptr r1 ≤ M.indices.length := by
    have := w.mono h1 (Nat.le_refl nRows); rw [w.last] at this; exact this
  have hplen : (slice M.indptr r0 (r1 + 1)).length = r1 + 1 - r0 := slice_length_le _ (by omega)
  have hmem := mem_slice_ptr w r0 r1 h01 h1
  unfold csrToDense
  simp only [List.length_map, hplen]
  have c1 : ¬ (r1 + 1 - r0 - 1 > r1 - r0) := by omega
  simp only [c1, if_false]
  -- every used column is one of the matrix's column indices
  have c2 : (usedCols (⟨(slice M.indptr r0 (r1 + 1)).map (· - ptr M.indptr r0),
      slice M.indices (ptr M.indptr r0) (ptr M.indptr r1),
      slice M.data (ptr M.indptr r0) (ptr M.indptr r1)⟩ : Mat α)).any (· ≥ nCols) = false := by
    rw [List.any_eq_false]
    intro x hx
    unfold usedCols at hx
    rw [List.mem_flatMap] at hx
    obtain ⟨p, _, hx⟩ := hx
    have := hr x ((slice_sublist _ _ _).subset ((slice_sublist _ _ _).subset hx))
    simp; omega
  rw [c2]
  simp only [Bool.false_eq_true, if_false]
  -- the rows
  rw [csrRowsAux_eq zero nCols _ _ _ 0]
  · rw [← List.map_tail, List.zip_map, List.map_map]
    have e : r1 + 1 = r0 + (r1 - r0) + 1 := by omega
    rw [e, slice_pairs M.indptr (r1 - r0) r0 (by omega), List.map_map]
    have hrows : (List.range' r0 (r1 - r0)).map
        (((fun ab : Nat × Nat =>
            scatter zero nCols
              (slice (slice M.indices (ptr M.indptr r0) (ptr M.indptr r1)) ab.1 ab.2)
              (slice (slice M.data (ptr M.indptr r0) (ptr M.indptr r1)) ab.1 ab.2)) ∘
          Prod.map (· - ptr M.indptr r0) (· - ptr M.indptr r0)) ∘
          fun i => (ptr M.indptr i, ptr M.indptr (i + 1)))
        = (List.range' r0 (r1 - r0)).map (rowSpec zero M nCols) := by
      apply List.map_congr_left
      intro i hi
      rw [List.mem_range'_1] at hi
      simp only [Function.comp, Prod.map]
      have h3 : ptr M.indptr r0 ≤ ptr M.indptr i := w.mono (by omega) (by omega)
      have h4 : ptr M.indptr (i + 1) ≤ ptr M.indptr r1 := w.mono (by omega) (by omega)
      have h5 : ptr M.indptr i ≤ ptr M.indptr (i + 1) := w.mono (by omega) (by omega)
      rw [slice_slice _ _ _ _ _ (by omega), slice_slice _ _ _ _ _ (by omega)]
      unfold rowSpec
      congr 2 <;> omega
    rw [hrows]
    have hslice : slice (toDense zero M nRows nCols) r0 r1
        = (List.range' r0 (r1 - r0)).map (rowSpec zero M nCols) := by
      unfold toDense
      rw [slice_map]
      congr 1
      unfold slice
      rw [List.range_eq_range', List.drop_range',
        List.take_range'_of_length_ge (by omega)]
      congr 1; omega
    rw [hslice]
    simp
  · rw [List.pairwise_map]
    apply List.Pairwise.imp _ (List.Pairwise.sublist (slice_sublist _ _ _) w.sorted)
    intro a b hab; omega
  · intro p hp
    rw [List.mem_map] at hp
    obtain ⟨q, hq, rfl⟩ := hp
    have := hmem q hq
    rw [slice_length_le _ hB]
    omega
  · rw [List.head?_map]
    have : (slice M.indptr r0 (r1 + 1)).head? = some (ptr M.indptr r0) := by
      rw [List.head?_eq_getElem?, slice_getElem? _ _ _ _ (by omega), ptr_eq_getElem _ _ (by omega)]
      simp [List.getElem?_eq_getElem (by omega : r0 < M.indptr.length)]
    rw [this]; simp

theorem mapM_ok {β γ ε} (f : β → Except ε γ) (g : β → γ) :
    ∀ (l : List β), (∀ x ∈ l, f x = .ok (g x)) → l.mapM f = .ok (l.map g) := by
  intro l
  induction l with
  | nil => intro _; rfl
  | cons x xs ih =>
    intro h
    rw [List.mapM_cons, h x (by simp), ih (fun y hy => h y (by simp [hy]))]
    rfl

/-- **the CSR row iterator**: for every chunk size `cs ≥ 1` it yields the
chunks `chunks nRows cs`, each with the corresponding rows of the stored
matrix -/
theorem csrIter_ok {α} (zero : α) (M : Mat α) (nRows nCols cs : Nat) (hcs : 1 ≤ cs)
    (w : WFptr M.indptr nRows M.indices.length) (hr : ∀ x ∈ M.indices, x < nCols) :
    csrIter zero M nRows nCols cs
      = .ok ((chunks nRows cs).map fun p =>
          (slice (toDense zero M nRows nCols) p.1 p.2, p.1, p.2)) := by
  unfold csrIter
  apply mapM_ok
  intro p hp
  have hb := chunksAux_bounds nRows cs hcs _ _ p hp
  unfold csrGetChunk
  rw [loadCsr_ok zero M nRows nCols w hr p.1 p.2 (by omega) (by omega)]
  rfl

theorem toDense_length {α} (zero : α) (M : Mat α) (nMajor nMinor : Nat) :
    (toDense zero M nMajor nMinor).length = nMajor := by simp [toDense]

/-- the blocks of an iteration, concatenated, are the whole matrix -/
theorem chunks_blocks_flatten {β} (D : List β) (cs : Nat) (hcs : 1 ≤ cs) :
    ((chunks D.length cs).map fun p => slice D p.1 p.2).flatten = D := by
  rw [← List.flatMap_def]
  unfold chunks
  rw [chunksAux_slices D D.length cs hcs D.length 0 (by omega) (by omega)]
  exact slice_zero_length D

theorem entriesOf_major_lt {α} (M : Mat α) (nMajor : Nat)
    (w : WFptr M.indptr nMajor M.indices.length) :
    ∀ e ∈ entriesOf M, e.major < nMajor := by
  intro e he
  unfold entriesOf at he
  rw [List.mem_map] at he
  obtain ⟨x, hx, rfl⟩ := he
  have hx2 : x.2 < M.indices.length := by
    have := List.snd_lt_of_mem_zipIdx hx
    simp only [List.length_zip, Nat.add_zero] at this
    omega
  have hl := w.len
  have h5 := sorted_le_iff_lt_countP M.indptr w.sorted x.2 nMajor (by omega)
  have h6 := w.last
  rw [ptr_eq_getElem _ _ (by omega)] at h6
  have h7 := w.first
  rw [ptr_eq_getElem _ _ (by omega)] at h7
  simp only
  unfold majorOf
  by_cases hz : nMajor = 0
  · subst hz; omega
  · omega

theorem mem_bucketSpec {α} (F : List (Entry α)) (n : Nat) : ∀ e ∈ bucketSpec F n, e ∈ F := by
  intro e he
  unfold bucketSpec at he
  rw [List.mem_flatMap] at he
  obtain ⟨v, _, hv⟩ := he
  exact (List.mem_filter.mp hv).1

/-- **the row iterator over a CSC layer**: `csc_to_csr_on_disk` followed by the
CSR iterator yields, for every chunk size `≥ 1` and every memory budget, the
rows of the stored matrix (the transpose of what the CSC arrays denote
column-wise) -/
theorem cscIter_ok {α} (zero : α) (M : Mat α) (nRows nCols cs : Nat) (B : Budget)
    (hcs : 1 ≤ cs) (hlo : 1 ≤ B.lo) (hc : 1 ≤ B.loCount)
    (w : WFptr M.indptr nCols M.indices.length) (hlen : M.data.length = M.indices.length)
    (hr : ∀ x ∈ M.indices, x < nRows) :
    cscIter zero M nRows nCols cs B
      = .ok ((chunks nRows cs).map fun p =>
          (slice (transposeDense zero (toDense zero M nCols nRows) nRows) p.1 p.2, p.1, p.2)) := by
  unfold cscIter
  rw [transposeOnDisk_eq M nRows none B hlo hc hlen hr]
  simp only [bind, Except.bind, nMinorOf]
  have hE : ∀ e ∈ entriesOf M, e.minor < nRows := by
    intro e he
    apply hr
    rw [← entriesOf_map_minor M hlen]
    exact List.mem_map_of_mem he
  have w2 := canonOut_wfptr (entriesOf M) nRows hE
  have hl2 := (canonOut_lengths (entriesOf M) nRows hE).1
  rw [← hl2] at w2
  have hr2 : ∀ x ∈ (canonOut (sliceEntries none (entriesOf M)) nRows).indices, x < nCols := by
    intro x hx
    unfold canonOut at hx
    simp only [List.mem_map] at hx
    obtain ⟨e, he, rfl⟩ := hx
    exact entriesOf_major_lt M nCols w e (mem_bucketSpec _ _ e he)
  have := csrIter_ok zero (canonOut (sliceEntries none (entriesOf M)) nRows) nRows nCols cs hcs w2 hr2
  rw [this]
  have hd := canonOut_toDense zero M nCols nRows w
  simp only [sliceEntries] at hd ⊢
  rw [hd]

end CTM.Sparse
