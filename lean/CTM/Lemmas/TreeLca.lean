/-
  Every unordered pair of distinct leaves is listed by `leaves_to_compare`
  (`leafPairs`) under exactly one parent of `all_parents`: their lowest common
  ancestor, or the root.  Core Lean only.

  In every statement the leaf level is spelled
  `t.hierarchy[t.hierarchy.length - 1]` (the form used by `TreeAnc`); the local
  macro `leafOf(t, w)` expands to exactly that (`getLast_eq_leafIdx` bridges to
  `t.hierarchy.getLast w.hNe`).
-/
import CTM.Lemmas.Tree
namespace CTM.RawTree
variable {t : RawTree}

/-- the leaf level `hierarchy[-1]` of a well-formed tree, as an indexed access -/
local macro "leafOf(" t:term "," w:term ")" : term =>
  `((RawTree.hierarchy $t)[(RawTree.hierarchy $t).length - 1]'(by
    have := List.length_pos_iff.2 (WF.hNe $w); omega))

/-- bridge to the `getLast` spelling of the leaf level used in `CTM/Props/C10.lean` -/
theorem getLast_eq_leafIdx (w : WF t) : t.hierarchy.getLast w.hNe = leafOf(t, w) :=
  List.getLast_eq_getElem ..

theorem hierarchy_ne_leafLevel (w : WF t) {i : Nat} (hi : i + 1 < t.hierarchy.length) :
    (some (t.hierarchy[i]'(by omega)) == t.leafLevel) = false := by
  rw [leafLevel_eq w.hNe]
  simp only [beq_eq_false_iff_ne, ne_eq, Option.some.injEq]
  intro he
  have := (List.getElem_inj w.hNodup).1 he
  omega

/-- equal ancestors one level down give equal ancestors one level up -/
theorem ancestorAt_eq_up (w : WF t) {i : Nat} (hi : i + 1 < t.hierarchy.length) {a b : Node}
    (ha : a ∈ t.nodesAt leafOf(t, w)) (hb : b ∈ t.nodesAt leafOf(t, w))
    (he : t.ancestorAt leafOf(t, w) a t.hierarchy[i+1] = t.ancestorAt leafOf(t, w) b t.hierarchy[i+1]) :
    t.ancestorAt leafOf(t, w) a (t.hierarchy[i]'(by omega)) =
      t.ancestorAt leafOf(t, w) b (t.hierarchy[i]'(by omega)) := by
  have s := strict_of_validate w.valid
  have hn := w.hNodup
  have hL : t.hierarchy.length - 1 < t.hierarchy.length := by omega
  obtain ⟨sa, hsa, _⟩ := ancestorAt_isSome s hn (i := i+1) (j := t.hierarchy.length - 1) (by omega) hL ha
  obtain ⟨sb, hsb, _⟩ := ancestorAt_isSome s hn (i := i+1) (j := t.hierarchy.length - 1) (by omega) hL hb
  rw [ancestorAt_step s hn (i := i) (by omega) hL ha hsa,
    ancestorAt_step s hn (i := i) (by omega) hL hb hsb]
  rw [hsa, hsb] at he
  cases he
  rfl


/-- membership in `leafPairs` in terms of ancestors, for a non-root parent `(h[i], p)` -/
theorem mem_leafPairs_node_iff (w : WF t) {i : Nat} (hi : i + 1 < t.hierarchy.length) {p : Node}
    (hp : p ∈ t.nodesAt (t.hierarchy[i]'(by omega))) {a b : Node}
    (ha : a ∈ t.nodesAt leafOf(t, w)) (hb : b ∈ t.nodesAt leafOf(t, w)) :
    (a, b) ∈ t.leafPairs (some (t.hierarchy[i]'(by omega), p)) ↔
      a < b ∧ t.ancestorAt leafOf(t, w) a (t.hierarchy[i]'(by omega)) = some p ∧
      t.ancestorAt leafOf(t, w) b (t.hierarchy[i]'(by omega)) = some p ∧
      t.ancestorAt leafOf(t, w) a t.hierarchy[i+1] ≠ t.ancestorAt leafOf(t, w) b t.hierarchy[i+1] := by
  have s := strict_of_validate w.valid
  have hn := w.hNodup
  have hL : t.hierarchy.length - 1 < t.hierarchy.length := by omega
  rw [leafPairs_node p (hierarchy_ne_leafLevel w hi)
    (by rw [childLevel_getElem hn (by omega)]; exact List.getElem?_eq_getElem hi)]
  rw [mem_crossPairs _ _ (asLeaves_flatMap_nodup s hn hi (s.entry_nodup hi hp)
    (fun c hc => s.entry_sub hi hp hc))]
  obtain ⟨sa, hsa, hsam⟩ :=
    ancestorAt_isSome s hn (i := i+1) (j := t.hierarchy.length - 1) (by omega) hL ha
  obtain ⟨sb, hsb, hsbm⟩ :=
    ancestorAt_isSome s hn (i := i+1) (j := t.hierarchy.length - 1) (by omega) hL hb
  rw [ancestorAt_step s hn (i := i) (by omega) hL ha hsa,
    ancestorAt_step s hn (i := i) (by omega) hL hb hsb, hsa, hsb,
    childToParent_eq_some_iff s hn hi, childToParent_eq_some_iff s hn hi,
    isChild_iff w.dict, isChild_iff w.dict]
  constructor
  · rintro ⟨hlt, s0, s1, h0, h1, hne, ha0, hb1⟩
    have e0 := (mem_asLeaves_iff_ancestorAt s w.dict hn hi (s.entry_sub hi hp h0) ha).1 ha0
    have e1 := (mem_asLeaves_iff_ancestorAt s w.dict hn hi (s.entry_sub hi hp h1) hb).1 hb1
    rw [hsa] at e0
    rw [hsb] at e1
    cases e0
    cases e1
    exact ⟨hlt, ⟨hp, h0⟩, ⟨hp, h1⟩, fun h => hne (Option.some.inj h)⟩
  · rintro ⟨hlt, ⟨_, h0⟩, ⟨_, h1⟩, hne⟩
    exact ⟨hlt, sa, sb, h0, h1, fun h => hne (by rw [h]),
      (mem_asLeaves_iff_ancestorAt s w.dict hn hi hsam ha).2 hsa,
      (mem_asLeaves_iff_ancestorAt s w.dict hn hi hsbm hb).2 hsb⟩

/-- … and for the root -/
theorem mem_leafPairs_root_iff (w : WF t) {a b : Node}
    (ha : a ∈ t.nodesAt leafOf(t, w)) (hb : b ∈ t.nodesAt leafOf(t, w)) :
    (a, b) ∈ t.leafPairs none ↔
      a < b ∧
      t.ancestorAt leafOf(t, w) a (t.hierarchy[0]'(by have := List.length_pos_iff.2 w.hNe; omega)) ≠
      t.ancestorAt leafOf(t, w) b (t.hierarchy[0]'(by have := List.length_pos_iff.2 w.hNe; omega)) := by
  have s := strict_of_validate w.valid
  have hn := w.hNodup
  have hlen := List.length_pos_iff.2 w.hNe
  have hL : t.hierarchy.length - 1 < t.hierarchy.length := by omega
  have h0 : t.hierarchy.head? = some t.hierarchy[0] := by
    rw [List.head?_eq_getElem?]; exact List.getElem?_eq_getElem hlen
  rw [leafPairs_root _ h0]
  rw [mem_crossPairs _ _ (asLeaves_flatMap_nodup s hn hlen (w.dict.nodesAt_nodup _) (fun _ h => h))]
  obtain ⟨sa, hsa, hsam⟩ :=
    ancestorAt_isSome s hn (i := 0) (j := t.hierarchy.length - 1) (by omega) hL ha
  obtain ⟨sb, hsb, hsbm⟩ :=
    ancestorAt_isSome s hn (i := 0) (j := t.hierarchy.length - 1) (by omega) hL hb
  rw [hsa, hsb]
  constructor
  · rintro ⟨hlt, s0, s1, h0, h1, hne, ha0, hb1⟩
    have e0 := (mem_asLeaves_iff_ancestorAt s w.dict hn hlen h0 ha).1 ha0
    have e1 := (mem_asLeaves_iff_ancestorAt s w.dict hn hlen h1 hb).1 hb1
    rw [hsa] at e0
    rw [hsb] at e1
    cases e0
    cases e1
    exact ⟨hlt, fun h => hne (Option.some.inj h)⟩
  · rintro ⟨hlt, hne⟩
    exact ⟨hlt, sa, sb, hsam, hsbm, fun h => hne (by rw [h]),
      (mem_asLeaves_iff_ancestorAt s w.dict hn hlen hsam ha).2 hsa,
      (mem_asLeaves_iff_ancestorAt s w.dict hn hlen hsbm hb).2 hsb⟩

/-- equal ancestors at a level give equal ancestors at every level above -/
theorem ancestorAt_eq_mono (w : WF t) {i j : Nat} (hij : i ≤ j) (hj : j < t.hierarchy.length)
    {a b : Node} (ha : a ∈ t.nodesAt leafOf(t, w)) (hb : b ∈ t.nodesAt leafOf(t, w))
    (he : t.ancestorAt leafOf(t, w) a t.hierarchy[j] = t.ancestorAt leafOf(t, w) b t.hierarchy[j]) :
    t.ancestorAt leafOf(t, w) a (t.hierarchy[i]'(by omega)) =
      t.ancestorAt leafOf(t, w) b (t.hierarchy[i]'(by omega)) := by
  have key : ∀ d i (h : i + d = j),
      t.ancestorAt leafOf(t, w) a (t.hierarchy[i]'(by omega)) =
        t.ancestorAt leafOf(t, w) b (t.hierarchy[i]'(by omega)) := by
    intro d
    induction d with
    | zero => intro i h; simp only [Nat.add_zero] at h; subst h; exact he
    | succ d ih =>
      intro i h
      exact ancestorAt_eq_up w (i := i) (by omega) ha hb (ih (i+1) (by omega))
  exact key (j - i) i (by omega)

/-- different ancestors stay different further down (parents are functions of children) -/
theorem ancestorAt_ne_mono (w : WF t) {i j : Nat} (hij : i ≤ j) (hj : j < t.hierarchy.length)
    {a b : Node} (ha : a ∈ t.nodesAt leafOf(t, w)) (hb : b ∈ t.nodesAt leafOf(t, w))
    (hne : t.ancestorAt leafOf(t, w) a (t.hierarchy[i]'(by omega)) ≠
      t.ancestorAt leafOf(t, w) b (t.hierarchy[i]'(by omega))) :
    t.ancestorAt leafOf(t, w) a t.hierarchy[j] ≠ t.ancestorAt leafOf(t, w) b t.hierarchy[j] :=
  fun he => hne (ancestorAt_eq_mono w hij hj ha hb he)


/-- the non-leaf levels are the `hierarchy[i]` with `i + 1 < length` -/
theorem mem_dropLast_hierarchy {l : Level} :
    l ∈ t.hierarchy.dropLast ↔
      ∃ (i : Nat) (hi : i + 1 < t.hierarchy.length), t.hierarchy[i]'(by omega) = l := by
  rw [List.mem_iff_getElem]
  constructor
  · rintro ⟨i, hi, rfl⟩
    have hi' := hi
    rw [List.length_dropLast] at hi'
    exact ⟨i, by omega, (List.getElem_dropLast hi).symm⟩
  · rintro ⟨i, hi, rfl⟩
    have hi' : i < t.hierarchy.dropLast.length := by rw [List.length_dropLast]; omega
    exact ⟨i, hi', List.getElem_dropLast hi'⟩

/-- the non-root members of `all_parents`: the nodes of the non-leaf levels -/
theorem mem_allParents_some {l : Level} {n : Node} :
    some (l, n) ∈ t.allParents ↔
      ∃ (i : Nat) (hi : i + 1 < t.hierarchy.length),
        t.hierarchy[i]'(by omega) = l ∧ n ∈ t.nodesAt l := by
  constructor
  · intro h
    rcases List.mem_cons.1 h with h | h
    · cases h
    · obtain ⟨l', hl', hm⟩ := List.mem_flatMap.1 h
      obtain ⟨n', hn', he⟩ := List.mem_map.1 hm
      cases he
      obtain ⟨i, hi, e⟩ := mem_dropLast_hierarchy.1 hl'
      exact ⟨i, hi, e, hn'⟩
  · rintro ⟨i, hi, rfl, hn⟩
    exact List.mem_cons_of_mem _ (List.mem_flatMap.2
      ⟨_, mem_dropLast_hierarchy.2 ⟨i, hi, rfl⟩, List.mem_map.2 ⟨n, hn, rfl⟩⟩)

theorem none_mem_allParents : none ∈ t.allParents := List.mem_cons_self ..

/-- MAIN existence: some parent of `all_parents` lists the pair -/
theorem pairs_cover (w : WF t) {a b : Node}
    (ha : a ∈ t.nodesAt leafOf(t, w)) (hb : b ∈ t.nodesAt leafOf(t, w)) (hab : a < b) :
    ∃ parent, parent ∈ t.allParents ∧ (a, b) ∈ t.leafPairs parent := by
  have s := strict_of_validate w.valid
  have hn := w.hNodup
  have hlen := List.length_pos_iff.2 w.hNe
  have hL : t.hierarchy.length - 1 < t.hierarchy.length := by omega
  have key : ∀ k (hk : k < t.hierarchy.length),
      t.ancestorAt leafOf(t, w) a t.hierarchy[k] ≠ t.ancestorAt leafOf(t, w) b t.hierarchy[k] →
      ∃ parent, parent ∈ t.allParents ∧ (a, b) ∈ t.leafPairs parent := by
    intro k
    induction k with
    | zero =>
      intro hk hne
      exact ⟨none, none_mem_allParents, (mem_leafPairs_root_iff w ha hb).2 ⟨hab, hne⟩⟩
    | succ k ih =>
      intro hk hne
      by_cases hd : t.ancestorAt leafOf(t, w) a (t.hierarchy[k]'(by omega)) =
          t.ancestorAt leafOf(t, w) b (t.hierarchy[k]'(by omega))
      · obtain ⟨p, hpa, hpm⟩ :=
          ancestorAt_isSome s hn (i := k) (j := t.hierarchy.length - 1) (by omega) hL ha
        exact ⟨some (t.hierarchy[k]'(by omega), p), mem_allParents_some.2 ⟨k, hk, rfl, hpm⟩,
          (mem_leafPairs_node_iff w hk hpm ha hb).2 ⟨hab, hpa, by rw [← hd]; exact hpa, hne⟩⟩
      · exact ih (by omega) hd
  refine key (t.hierarchy.length - 1) hL ?_
  rw [ancestorAt_self, ancestorAt_self]
  intro h
  cases h
  exact Nat.lt_irrefl _ hab

/-- MAIN uniqueness: only one parent does -/
theorem pairs_cover_unique (w : WF t) {a b : Node}
    (ha : a ∈ t.nodesAt leafOf(t, w)) (hb : b ∈ t.nodesAt leafOf(t, w))
    {P Q : Option (Level × Node)} (hP : P ∈ t.allParents) (hQ : Q ∈ t.allParents)
    (h1 : (a, b) ∈ t.leafPairs P) (h2 : (a, b) ∈ t.leafPairs Q) : P = Q := by
  -- the root and a node cannot both list the pair
  have rootnode : ∀ {l : Level} {n : Node}, some (l, n) ∈ t.allParents →
      (a, b) ∈ t.leafPairs none → (a, b) ∈ t.leafPairs (some (l, n)) → False := by
    intro l n hm hr hnode
    obtain ⟨i, hi, rfl, hnm⟩ := mem_allParents_some.1 hm
    have r := (mem_leafPairs_root_iff w ha hb).1 hr
    have nd := (mem_leafPairs_node_iff w hi hnm ha hb).1 hnode
    exact ancestorAt_ne_mono w (Nat.zero_le i) (by omega) ha hb r.2 (by rw [nd.2.1, nd.2.2.1])
  -- nor two nodes of different levels
  have nodenode : ∀ {i j : Nat} (hi : i + 1 < t.hierarchy.length) (hj : j + 1 < t.hierarchy.length)
      {p q : Node}, p ∈ t.nodesAt (t.hierarchy[i]'(by omega)) →
      q ∈ t.nodesAt (t.hierarchy[j]'(by omega)) → i < j →
      (a, b) ∈ t.leafPairs (some (t.hierarchy[i]'(by omega), p)) →
      (a, b) ∈ t.leafPairs (some (t.hierarchy[j]'(by omega), q)) → False := by
    intro i j hi hj p q hp hq hij hpi hqj
    have n1 := (mem_leafPairs_node_iff w hi hp ha hb).1 hpi
    have n2 := (mem_leafPairs_node_iff w hj hq ha hb).1 hqj
    exact ancestorAt_ne_mono w (i := i+1) (j := j) (by omega) (by omega) ha hb n1.2.2.2
      (by rw [n2.2.1, n2.2.2.1])
  cases P with
  | none =>
    cases Q with
    | none => rfl
    | some q => exact (rootnode hQ h1 h2).elim
  | some p =>
    cases Q with
    | none => exact (rootnode hP h2 h1).elim
    | some q =>
      obtain ⟨lp, np⟩ := p
      obtain ⟨lq, nq⟩ := q
      obtain ⟨i, hi, rfl, hpm⟩ := mem_allParents_some.1 hP
      obtain ⟨j, hj, rfl, hqm⟩ := mem_allParents_some.1 hQ
      rcases Nat.lt_trichotomy i j with hij | rfl | hij
      · exact (nodenode hi hj hpm hqm hij h1 h2).elim
      · have n1 := (mem_leafPairs_node_iff w hi hpm ha hb).1 h1
        have n2 := (mem_leafPairs_node_iff w hi hqm ha hb).1 h2
        have := n1.2.1.symm.trans n2.2.1
        cases this
        rfl
      · exact (nodenode hj hi hqm hpm hij h2 h1).elim

end CTM.RawTree
