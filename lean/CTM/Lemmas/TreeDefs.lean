/-
  Specification-level vocabulary for the taxonomy tree model
  (CTM/Model/Tree.lean) shared by the C10 lemma files and by
  CTM/Props/C10.lean.  Definitions only + the basic association-list
  plumbing every other lemma file needs.  Core Lean only.
-/
import CTM.Model.Tree

namespace CTM.RawTree

/-! ### Python dict key uniqueness (a hypothesis, never a subtype) -/

/-- Every Python `dict` of the tree has distinct keys: the top-level dict
(level names) and each level's dict (node names). -/
structure DictOK (t : RawTree) : Prop where
  levelKeys : (t.levels.map (·.1)).Nodup
  nodeKeys : ∀ l m, (l, m) ∈ t.levels → (m.map (·.1)).Nodup

/-- `c` is listed as a child of `p` in the dict of level `pl` -/
def IsChild (t : RawTree) (pl : Level) (p c : Node) : Prop :=
  ∃ cs, (p, cs) ∈ t.level pl ∧ c ∈ cs

/-- The strict-tree specification: what `validate_taxonomy_tree` is meant to
decide, stated directly on the data (no loops, no accumulator).
`(pl, cl) ∈ levelPairs t.hierarchy` = `cl` is the level right below `pl`. -/
structure Strict (t : RawTree) : Prop where
  hasH : t.hasHierarchy = true
  /-- no stray level key -/
  keysSub : ∀ k, k ∈ t.levels.map (·.1) → k ∈ t.hierarchy
  /-- no ghost level in the hierarchy -/
  hierSub : ∀ k, k ∈ t.hierarchy → k ∈ t.levels.map (·.1)
  str : t.nodesAreStr = true
  /-- every listed child is a key of the next level -/
  childExists : ∀ pl cl, (pl, cl) ∈ levelPairs t.hierarchy →
    ∀ p cs, (p, cs) ∈ t.level pl → ∀ c, c ∈ cs → c ∈ t.nodesAt cl
  /-- no orphan -/
  hasParent : ∀ pl cl, (pl, cl) ∈ levelPairs t.hierarchy →
    ∀ c, c ∈ t.nodesAt cl → ∃ p cs, (p, cs) ∈ t.level pl ∧ c ∈ cs
  /-- no second parent -/
  oneParent : ∀ pl cl, (pl, cl) ∈ levelPairs t.hierarchy →
    ∀ p₁ cs₁ p₂ cs₂, (p₁, cs₁) ∈ t.level pl → (p₂, cs₂) ∈ t.level pl →
    ∀ c, c ∈ cs₁ → c ∈ cs₂ → p₁ = p₂
  /-- every node above the leaf level has at least one child -/
  childNe : ∀ pl cl, (pl, cl) ∈ levelPairs t.hierarchy →
    ∀ p cs, (p, cs) ∈ t.level pl → cs ≠ []
  /-- no parent lists a child twice -/
  childNodup : ∀ pl cl, (pl, cl) ∈ levelPairs t.hierarchy →
    ∀ p cs, (p, cs) ∈ t.level pl → cs.Nodup
  /-- no reference row in two leaves (or twice in one) -/
  rowsNodup : t.allRows.Nodup

/-- Well-formedness used by the C10 theorems: accepted by the validator, a
non-empty hierarchy of distinct level names, Python dict key uniqueness. -/
structure WF (t : RawTree) : Prop where
  valid : t.validate = .ok ()
  hNodup : t.hierarchy.Nodup
  hNe : t.hierarchy ≠ []
  dict : DictOK t

/-- `_get_leaves_from_tree` without the `hierarchy[-2]` shortcut and without
the sort: plain recursion down the levels below. -/
def leavesSpec (t : RawTree) : List Level → Level → Node → List Node
  | [], _, n => [n]
  | cl :: rest, l, n => (t.entry l n).flatMap (fun c => leavesSpec t rest cl c)

/-! ### association lists -/

theorem lookup_of_mem_nodup {α β} [BEq α] [LawfulBEq α] :
    ∀ {m : List (α × β)} {k : α} {v : β},
      (m.map (·.1)).Nodup → (k, v) ∈ m → m.lookup k = some v
  | [], _, _, _, h => by cases h
  | (k', v') :: m, k, v, hn, h => by
    simp only [List.map_cons, List.nodup_cons] at hn
    rcases List.mem_cons.1 h with h1 | h2
    · cases h1; simp [List.lookup]
    · have hne : (k == k') = false := by
        apply beq_false_of_ne
        intro hkk
        exact hn.1 (List.mem_map.2 ⟨(k, v), h2, hkk⟩)
      simp only [List.lookup, hne]
      exact lookup_of_mem_nodup hn.2 h2

theorem mem_of_lookup {α β} [BEq α] [LawfulBEq α] :
    ∀ {m : List (α × β)} {k : α} {v : β}, m.lookup k = some v → (k, v) ∈ m
  | [], _, _, h => by simp [List.lookup] at h
  | (k', v') :: m, k, v, h => by
    by_cases hk : k == k'
    · simp only [List.lookup, hk] at h
      have := eq_of_beq hk
      cases h; subst this; exact List.mem_cons_self
    · have hk' : (k == k') = false := by simpa using hk
      simp only [List.lookup, hk'] at h
      exact List.mem_cons_of_mem _ (mem_of_lookup h)

theorem lookup_eq_none_iff' {α β} [BEq α] [LawfulBEq α] {m : List (α × β)} {k : α} :
    m.lookup k = none ↔ k ∉ m.map (·.1) := by
  induction m with
  | nil => simp [List.lookup]
  | cons kv m ih =>
    obtain ⟨k', v'⟩ := kv
    by_cases hk : k == k'
    · have := eq_of_beq hk; subst this
      simp [List.lookup]
    · have hk' : (k == k') = false := by simpa using hk
      have hne : k ≠ k' := by simpa using hk
      simp only [List.lookup, hk', ih, List.map_cons, List.mem_cons, hne, false_or]

/-! ### levels, entries -/

theorem level_of_mem {t : RawTree} {l : Level} {m : LevelMap}
    (hk : (t.levels.map (·.1)).Nodup) (h : (l, m) ∈ t.levels) : t.level l = m := by
  simp [level, lookup_of_mem_nodup hk h]

theorem level_eq_nil_of_not_mem {t : RawTree} {l : Level}
    (h : l ∉ t.levels.map (·.1)) : t.level l = [] := by
  simp [level, lookup_eq_none_iff'.2 h]

theorem level_mem_or_nil (t : RawTree) (l : Level) :
    (l, t.level l) ∈ t.levels ∨ t.level l = [] := by
  unfold level
  cases h : t.levels.lookup l with
  | none => right; rfl
  | some m => left; exact mem_of_lookup h

/-- the node keys of any level of a `DictOK` tree are distinct -/
theorem DictOK.nodesAt_nodup {t : RawTree} (d : DictOK t) (l : Level) : (t.nodesAt l).Nodup := by
  unfold nodesAt
  rcases level_mem_or_nil t l with h | h
  · exact d.nodeKeys _ _ h
  · rw [h]; exact List.nodup_nil

theorem mem_nodesAt {t : RawTree} {l : Level} {n : Node} :
    n ∈ t.nodesAt l ↔ ∃ cs, (n, cs) ∈ t.level l := by
  simp [nodesAt]

/-- with distinct node keys, `tree[l][n]` is the unique listed value -/
theorem entry_of_mem {t : RawTree} (d : DictOK t) {l : Level} {n : Node} {cs : List Nat}
    (h : (n, cs) ∈ t.level l) : t.entry l n = cs := by
  have := d.nodesAt_nodup l
  unfold nodesAt at this
  simp [entry, lookup_of_mem_nodup this h]

theorem mem_level_entry {t : RawTree} {l : Level} {n : Node} (h : n ∈ t.nodesAt l) :
    (n, t.entry l n) ∈ t.level l := by
  unfold entry
  cases hl : (t.level l).lookup n with
  | none =>
    have := lookup_eq_none_iff'.1 hl
    exact absurd h this
  | some cs => exact mem_of_lookup hl

theorem isChild_iff {t : RawTree} (d : DictOK t) {pl : Level} {p c : Node} :
    t.IsChild pl p c ↔ p ∈ t.nodesAt pl ∧ c ∈ t.entry pl p := by
  constructor
  · rintro ⟨cs, hm, hc⟩
    exact ⟨mem_nodesAt.2 ⟨cs, hm⟩, by rw [entry_of_mem d hm]; exact hc⟩
  · rintro ⟨hp, hc⟩
    exact ⟨_, mem_level_entry hp, hc⟩

end CTM.RawTree
