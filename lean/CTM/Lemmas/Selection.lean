/-
  Helper lemmas for property C12 (greedy marker selection).
-/
import CTM.Model.Selection
import Mathlib.Data.List.Perm.Subperm
import Mathlib.Data.List.Nodup

namespace CTM.Selection

/-! ### counting -/

/-- how many genes of the marker list `l` have been chosen -/
def cnt (chosen l : List Nat) : Nat := l.countP (fun g => chosen.contains g)

theorem cnt_le (chosen l : List Nat) : cnt chosen l ≤ l.length := List.countP_le_length

theorem cnt_nil (l : List Nat) : cnt [] l = 0 := by
  simp [cnt]

theorem cnt_eq_length_iff (chosen l : List Nat) :
    cnt chosen l = l.length ↔ ∀ g ∈ l, g ∈ chosen := by
  simp [cnt, List.countP_eq_length]

theorem cnt_snoc (chosen l : List Nat) (g : Nat) (hg : g ∉ chosen) (hl : l.Nodup) :
    cnt (chosen ++ [g]) l = cnt chosen l + (if g ∈ l then 1 else 0) := by
  induction l with
  | nil => simp [cnt]
  | cons x xs ih =>
    have hx : x ∉ xs := (List.nodup_cons.mp hl).1
    have hxs := (List.nodup_cons.mp hl).2
    have ih' := ih hxs
    simp only [cnt, List.countP_cons, List.contains_eq_mem, List.mem_append,
      List.mem_cons] at ih' ⊢
    by_cases hxg : x = g
    · subst hxg
      have : x ∉ xs := hx
      simp_all
    · have : ¬ g = x := fun h => hxg h.symm
      simp_all
      omega

/-- pigeonhole: a duplicate-free list of numbers below `n` has at most `n` entries -/
theorem length_le_of_nodup_lt {l : List Nat} {n : Nat} (hd : l.Nodup) (h : ∀ g ∈ l, g < n) :
    l.length ≤ n := by
  have hs : l ⊆ List.range n := fun g hg => List.mem_range.mpr (h g hg)
  have := (hd.subperm hs).length_le
  simpa using this

theorem sum_nonneg {l : List Int} (h0 : ∀ x ∈ l, 0 ≤ x) : 0 ≤ l.sum := by
  induction l with
  | nil => simp
  | cons y ys ih =>
    simp only [List.sum_cons]
    have := h0 y (by simp)
    have := ih (fun z hz => h0 z (by simp [hz]))
    omega

theorem le_sum_of_mem {l : List Int} (h0 : ∀ x ∈ l, 0 ≤ x) {a : Int} (ha : a ∈ l) : a ≤ l.sum := by
  induction l with
  | nil => cases ha
  | cons x xs ih =>
    simp only [List.sum_cons]
    have hx : 0 ≤ x := h0 x (by simp)
    have hxs : ∀ y ∈ xs, 0 ≤ y := fun y hy => h0 y (by simp [hy])
    have hsum : 0 ≤ xs.sum := sum_nonneg hxs
    rcases List.mem_cons.mp ha with rfl | ha
    · omega
    · have := ih hxs ha
      omega

theorem sum_map_sub {α} (l : List α) (f g : α → Int) :
    (l.map (fun a => f a - g a)).sum = (l.map f).sum - (l.map g).sum := by
  induction l with
  | nil => simp
  | cons a as ih => simp only [List.map_cons, List.sum_cons, ih]; omega

theorem ind_nonneg (b : Bool) : 0 ≤ ind b := by cases b <;> simp [ind]


/-! ### slots -/

/-- static well-formedness of one pair's marker lists: what `markers.py`
writes (no gene listed twice, no gene both up and down) and gene indices in
range -/
structure SlotWF (nG : Nat) (s : Slot) : Prop where
  upNodup : s.up.Nodup
  downNodup : s.down.Nodup
  disj : ∀ g ∈ s.up, g ∉ s.down
  upLt : ∀ g ∈ s.up, g < nG
  downLt : ∀ g ∈ s.down, g < nG

/-- the bookkeeping of one slot agrees with the chosen genes -/
structure SlotInv (n : Nat) (chosen : List Nat) (s : Slot) : Prop where
  cUp : s.cUp = cnt chosen s.up
  cDown : s.cDown = cnt chosen s.down
  agg : s.agg = s.cDown + s.cUp
  fDown : s.fDown = true → s.condDown n = true
  fUp : s.fUp = true → s.condUp n = true

@[simp] theorem fill_up (n : Nat) (s : Slot) : (s.fill n).up = s.up := rfl
@[simp] theorem fill_down (n : Nat) (s : Slot) : (s.fill n).down = s.down := rfl
@[simp] theorem fill_cUp (n : Nat) (s : Slot) : (s.fill n).cUp = s.cUp := rfl
@[simp] theorem fill_cDown (n : Nat) (s : Slot) : (s.fill n).cDown = s.cDown := rfl
@[simp] theorem fill_agg (n : Nat) (s : Slot) : (s.fill n).agg = s.agg := rfl
@[simp] theorem fill_fUp (n : Nat) (s : Slot) : (s.fill n).fUp = (s.fUp || s.condUp n) := rfl
@[simp] theorem fill_fDown (n : Nat) (s : Slot) : (s.fill n).fDown = (s.fDown || s.condDown n) := rfl
@[simp] theorem fill_condUp (n : Nat) (s : Slot) : (s.fill n).condUp n = s.condUp n := rfl
@[simp] theorem fill_condDown (n : Nat) (s : Slot) : (s.fill n).condDown n = s.condDown n := rfl

@[simp] theorem bump_up (g : Nat) (s : Slot) : (s.bump g).up = s.up := by
  unfold Slot.bump; split <;> [rfl; (split <;> rfl)]
@[simp] theorem bump_down (g : Nat) (s : Slot) : (s.bump g).down = s.down := by
  unfold Slot.bump; split <;> [rfl; (split <;> rfl)]
@[simp] theorem bump_fUp (g : Nat) (s : Slot) : (s.bump g).fUp = s.fUp := by
  unfold Slot.bump; split <;> [rfl; (split <;> rfl)]
@[simp] theorem bump_fDown (g : Nat) (s : Slot) : (s.bump g).fDown = s.fDown := by
  unfold Slot.bump; split <;> [rfl; (split <;> rfl)]

/-- the marker lists of a slot (never modified) -/
def Slot.toPair (s : Slot) : Pair := { down := s.down, up := s.up }

@[simp] theorem toPair_fill (n : Nat) (s : Slot) : (s.fill n).toPair = s.toPair := rfl
@[simp] theorem toPair_bump (g : Nat) (s : Slot) : (s.bump g).toPair = s.toPair := by
  simp [Slot.toPair]

theorem possible_iff (n : Nat) (s : Slot) :
    s.possible n = true ↔ n ≤ s.down.length ∧ n ≤ s.up.length := by
  unfold Slot.possible Slot.censusDown Slot.censusUp
  rw [Bool.and_eq_true, decide_eq_true_eq, decide_eq_true_eq]

theorem condDown_iff (n : Nat) (s : Slot) : s.condDown n = true ↔
    (n ≤ s.cDown ∧ n ≤ s.down.length ∧ n ≤ s.up.length) ∨ s.cDown = s.down.length ∨
      2 * n ≤ s.agg := by
  unfold Slot.condDown
  rw [Bool.or_eq_true, Bool.or_eq_true, Bool.and_eq_true, possible_iff, decide_eq_true_eq,
    decide_eq_true_eq, beq_iff_eq]
  rfl

theorem condUp_iff (n : Nat) (s : Slot) : s.condUp n = true ↔
    (n ≤ s.cUp ∧ n ≤ s.down.length ∧ n ≤ s.up.length) ∨ s.cUp = s.up.length ∨
      2 * n ≤ s.agg := by
  unfold Slot.condUp
  rw [Bool.or_eq_true, Bool.or_eq_true, Bool.and_eq_true, possible_iff, decide_eq_true_eq,
    decide_eq_true_eq, beq_iff_eq]
  rfl

theorem SlotWF.fill {nG n : Nat} {s : Slot} (h : SlotWF nG s) : SlotWF nG (s.fill n) :=
  ⟨h.upNodup, h.downNodup, h.disj, h.upLt, h.downLt⟩

theorem SlotWF.bump {nG g : Nat} {s : Slot} (h : SlotWF nG s) : SlotWF nG (s.bump g) := by
  constructor <;> simp only [bump_up, bump_down]
  · exact h.upNodup
  · exact h.downNodup
  · exact h.disj
  · exact h.upLt
  · exact h.downLt

theorem SlotInv.fill {n : Nat} {c : List Nat} {s : Slot} (h : SlotInv n c s) :
    SlotInv n c (s.fill n) := by
  constructor
  · exact h.cUp
  · exact h.cDown
  · exact h.agg
  · intro hf
    simp only [fill_fDown, Bool.or_eq_true] at hf
    simp only [fill_condDown]
    rcases hf with hf | hf
    · exact h.fDown hf
    · exact hf
  · intro hf
    simp only [fill_fUp, Bool.or_eq_true] at hf
    simp only [fill_condUp]
    rcases hf with hf | hf
    · exact h.fUp hf
    · exact hf

theorem SlotInv.bump {nG n g : Nat} {c : List Nat} {s : Slot} (hw : SlotWF nG s)
    (hg : g ∉ c) (h : SlotInv n c s) : SlotInv n (c ++ [g]) (s.bump g) := by
  have hu := cnt_snoc c s.up g hg hw.upNodup
  have hd := cnt_snoc c s.down g hg hw.downNodup
  have hcu := h.cUp
  have hcd := h.cDown
  have hagg := h.agg
  have hfd := h.fDown
  have hfu := h.fUp
  have leu' := cnt_le (c ++ [g]) s.up
  have led' := cnt_le (c ++ [g]) s.down
  rw [condDown_iff] at hfd
  rw [condUp_iff] at hfu
  by_cases hgu : g ∈ s.up
  · have hgd : g ∉ s.down := hw.disj g hgu
    have hb : s.bump g = { s with cUp := s.cUp + 1, agg := s.agg + 1 } := by
      simp [Slot.bump, hgu]
    rw [if_pos hgu] at hu
    rw [if_neg hgd] at hd
    rw [hb]
    constructor
    · show s.cUp + 1 = cnt (c ++ [g]) s.up; omega
    · show s.cDown = cnt (c ++ [g]) s.down; omega
    · show s.agg + 1 = s.cDown + (s.cUp + 1); omega
    · intro hf
      have := hfd hf
      rw [condDown_iff]; simp only
      omega
    · intro hf
      have := hfu hf
      rw [condUp_iff]; simp only
      omega
  · by_cases hgd : g ∈ s.down
    · have hb : s.bump g = { s with cDown := s.cDown + 1, agg := s.agg + 1 } := by
        simp [Slot.bump, hgu, hgd]
      rw [if_neg hgu] at hu
      rw [if_pos hgd] at hd
      rw [hb]
      constructor
      · show s.cUp = cnt (c ++ [g]) s.up; omega
      · show s.cDown + 1 = cnt (c ++ [g]) s.down; omega
      · show s.agg + 1 = (s.cDown + 1) + s.cUp; omega
      · intro hf
        have := hfd hf
        rw [condDown_iff]; simp only
        omega
      · intro hf
        have := hfu hf
        rw [condUp_iff]; simp only
        omega
    · have hb : s.bump g = s := by simp [Slot.bump, hgu, hgd]
      rw [if_neg hgu] at hu
      rw [if_neg hgd] at hd
      rw [hb]
      exact ⟨by omega, by omega, hagg, h.fDown, h.fUp⟩

/-! ### the utility of a gene as a census of unfilled slots -/

/-- number of unfilled (direction) slots of one pair that `g` marks -/
def Slot.spec (g : Nat) (s : Slot) : Int :=
  ind (!s.fUp && s.up.contains g) + ind (!s.fDown && s.down.contains g)

/-- the number of unfilled (pair, direction) slots `g` marks -/
def specUtil (slots : List Slot) (g : Nat) : Int := (slots.map (Slot.spec g)).sum

theorem spec_nonneg (g : Nat) (s : Slot) : 0 ≤ s.spec g := by
  have := ind_nonneg (!s.fUp && s.up.contains g)
  have := ind_nonneg (!s.fDown && s.down.contains g)
  simp only [Slot.spec]; omega

theorem decr_nonneg (n g : Nat) (s : Slot) : 0 ≤ s.decr n g := by
  have := ind_nonneg (s.newUp n && s.up.contains g)
  have := ind_nonneg (s.newDown n && s.down.contains g)
  simp only [Slot.decr]; omega

theorem decrAll_nonneg (n : Nat) (slots : List Slot) (g : Nat) : 0 ≤ decrAll n slots g := by
  apply sum_nonneg
  intro x hx
  simp only [List.mem_map] at hx
  obtain ⟨s, _, rfl⟩ := hx
  exact decr_nonneg n g s

theorem spec_fill (n g : Nat) (s : Slot) : (s.fill n).spec g = s.spec g - s.decr n g := by
  simp only [Slot.spec, Slot.decr, Slot.newUp, Slot.newDown, fill_fUp, fill_fDown, fill_up,
    fill_down]
  cases s.fUp <;> cases s.fDown <;> cases s.condUp n <;> cases s.condDown n <;>
    cases s.up.contains g <;> cases s.down.contains g <;> simp [ind]

theorem spec_bump (g' g : Nat) (s : Slot) : (s.bump g').spec g = s.spec g := by
  simp [Slot.spec]

theorem specUtil_fill (n : Nat) (slots : List Slot) (g : Nat) :
    specUtil (slots.map (Slot.fill n)) g = specUtil slots g - decrAll n slots g := by
  simp only [specUtil, decrAll, List.map_map]
  rw [← sum_map_sub]
  congr 1
  apply List.map_congr_left
  intro s _
  simp [spec_fill]

theorem specUtil_bump (g' : Nat) (slots : List Slot) (g : Nat) :
    specUtil (slots.map (Slot.bump g')) g = specUtil slots g := by
  simp only [specUtil, List.map_map]
  congr 1
  apply List.map_congr_left
  intro s _
  simp [spec_bump]

theorem sum_eq_zero_of_all_zero {l : List Int} (h : ∀ x ∈ l, x = 0) : l.sum = 0 := by
  induction l with
  | nil => rfl
  | cons x xs ih =>
    simp only [List.sum_cons]
    have := h x (by simp)
    have := ih (fun y hy => h y (by simp [hy]))
    omega

/-- positive utility means some slot lists the gene -/
theorem exists_marks_of_specUtil_pos {slots : List Slot} {g : Nat} (h : 0 < specUtil slots g) :
    ∃ s ∈ slots, g ∈ s.toPair.up ∨ g ∈ s.toPair.down := by
  by_contra hc
  have : specUtil slots g = 0 := by
    apply sum_eq_zero_of_all_zero
    intro x hx
    simp only [List.mem_map] at hx
    obtain ⟨s, hs, rfl⟩ := hx
    have hn : ¬ (g ∈ s.up ∨ g ∈ s.down) := fun hh => hc ⟨s, hs, hh⟩
    simp only [not_or] at hn
    simp [Slot.spec, hn.1, hn.2, ind]
  omega

/-- an unfilled slot that `g` marks contributes to `g`'s utility -/
theorem one_le_specUtil_down {slots : List Slot} {s : Slot} {g : Nat} (hs : s ∈ slots)
    (hf : s.fDown = false) (hg : g ∈ s.down) : 1 ≤ specUtil slots g := by
  have h1 : 1 ≤ s.spec g := by
    have := ind_nonneg (!s.fUp && s.up.contains g)
    simp only [Slot.spec, hf, Bool.not_false, Bool.true_and, List.contains_eq_mem, hg,
      decide_true, ind] at this ⊢
    simp; omega
  have : s.spec g ≤ specUtil slots g := by
    apply le_sum_of_mem
    · intro x hx
      simp only [List.mem_map] at hx
      obtain ⟨t, _, rfl⟩ := hx
      exact spec_nonneg g t
    · exact List.mem_map.mpr ⟨s, hs, rfl⟩
  omega

theorem one_le_specUtil_up {slots : List Slot} {s : Slot} {g : Nat} (hs : s ∈ slots)
    (hf : s.fUp = false) (hg : g ∈ s.up) : 1 ≤ specUtil slots g := by
  have h1 : 1 ≤ s.spec g := by
    have := ind_nonneg (!s.fDown && s.down.contains g)
    simp only [Slot.spec, hf, Bool.not_false, Bool.true_and, List.contains_eq_mem, hg,
      decide_true, ind] at this ⊢
    simp; omega
  have : s.spec g ≤ specUtil slots g := by
    apply le_sum_of_mem
    · intro x hx
      simp only [List.mem_map] at hx
      obtain ⟨t, _, rfl⟩ := hx
      exact spec_nonneg g t
    · exact List.mem_map.mpr ⟨s, hs, rfl⟩
  omega


/-! ### `maxUtil`, `legalPick` -/

theorem foldl_max_spec (us : List Int) (u : Int) :
    us.foldl max u ∈ u :: us ∧ ∀ x ∈ u :: us, x ≤ us.foldl max u := by
  induction us generalizing u with
  | nil => simp
  | cons v vs ih =>
    simp only [List.foldl_cons]
    obtain ⟨hm, hle⟩ := ih (max u v)
    constructor
    · rcases List.mem_cons.mp hm with h | h
      · rw [h]
        by_cases huv : u ≤ v
        · simp [Int.max_eq_right huv]
        · simp [Int.max_eq_left (by omega : v ≤ u)]
      · simp [h]
    · intro x hx
      have hmax := hle (max u v) (by simp)
      rcases List.mem_cons.mp hx with rfl | hx
      · have : x ≤ max x v := Int.le_max_left x v
        omega
      · rcases List.mem_cons.mp hx with rfl | hx
        · have : x ≤ max u x := Int.le_max_right u x
          omega
        · exact hle x (by simp [hx])

theorem maxUtil_spec {l : List Int} {m : Int} (h : maxUtil l = some m) :
    m ∈ l ∧ ∀ u ∈ l, u ≤ m := by
  cases l with
  | nil => simp [maxUtil] at h
  | cons u us =>
    simp only [maxUtil, Option.some.injEq] at h
    subst h
    exact foldl_max_spec us u

theorem legalPick_spec {util : List Int} {g : Nat} (h : legalPick util g = true) :
    ∃ ug, util[g]? = some ug ∧ ∀ u ∈ util, u ≤ ug := by
  unfold legalPick at h
  split at h
  · cases h
  · rename_i ug hug
    refine ⟨ug, hug, ?_⟩
    intro u hu
    have := List.all_eq_true.mp h u hu
    simpa using this

/-! ### the invariant of the greedy loop -/

/-- `C12.inv`: the bookkeeping agrees with the chosen genes; the utility of an
unchosen gene is the number of unfilled slots it marks; chosen genes have
negative utility -/
structure Inv (n nG : Nat) (pairs : List Pair) (st : St) : Prop where
  shape : st.slots.map Slot.toPair = pairs
  wf : ∀ s ∈ st.slots, SlotWF nG s
  slot : ∀ s ∈ st.slots, SlotInv n st.chosen s
  len : st.util.length = nG
  nodup : st.chosen.Nodup
  lt : ∀ g ∈ st.chosen, g < nG
  neg : ∀ g ∈ st.chosen, ∀ u, st.util[g]? = some u → u ≤ -1
  util : ∀ g, g < nG → g ∉ st.chosen → st.util[g]? = some (specUtil st.slots g)
  marks : ∀ g ∈ st.chosen, ∃ p ∈ pairs, g ∈ p.up ∨ g ∈ p.down

/-- right after `_update_been_filled` every slot whose condition holds is
flagged -/
def Fresh (n : Nat) (st : St) : Prop :=
  ∀ s ∈ st.slots, (s.condDown n = true → s.fDown = true) ∧ (s.condUp n = true → s.fUp = true)

theorem Inv.update {n nG : Nat} {pairs : List Pair} {st : St} (h : Inv n nG pairs st) :
    Inv n nG pairs (updateBeenFilled n st) := by
  constructor
  · rw [← h.shape]
    simp only [updateBeenFilled, List.map_map]
    apply List.map_congr_left
    intro s _
    simp
  · intro s hs
    simp only [updateBeenFilled, List.mem_map] at hs
    obtain ⟨t, ht, rfl⟩ := hs
    exact (h.wf t ht).fill
  · intro s hs
    simp only [updateBeenFilled, List.mem_map] at hs
    obtain ⟨t, ht, rfl⟩ := hs
    exact (h.slot t ht).fill
  · simp [updateBeenFilled, h.len]
  · exact h.nodup
  · exact h.lt
  · intro g hg u hu
    simp only [updateBeenFilled, List.getElem?_mapIdx, Option.map_eq_some_iff] at hu
    obtain ⟨v, hv, rfl⟩ := hu
    have := h.neg g hg v hv
    have := decrAll_nonneg n st.slots g
    omega
  · intro g hg hgc
    have := h.util g hg hgc
    simp only [updateBeenFilled, List.getElem?_mapIdx, this, Option.map_some, specUtil_fill]
  · exact h.marks

theorem fresh_update (n : Nat) (st : St) : Fresh n (updateBeenFilled n st) := by
  intro s hs
  simp only [updateBeenFilled, List.mem_map] at hs
  obtain ⟨t, _, rfl⟩ := hs
  simp only [fill_condDown, fill_condUp, fill_fDown, fill_fUp, Bool.or_eq_true]
  exact ⟨fun h => Or.inr h, fun h => Or.inr h⟩

theorem chooseGene_ok {g : Nat} {st st' : St} (h : chooseGene g st = .ok st') :
    g ∉ st.chosen ∧ st' = { chosen := st.chosen ++ [g], util := st.util.set g (-1),
                             slots := st.slots.map (Slot.bump g) } := by
  unfold chooseGene at h
  split at h
  · cases h
  · rename_i hc
    simp only [List.contains_eq_mem, decide_eq_true_eq] at hc
    exact ⟨hc, by cases h; rfl⟩

theorem Inv.choose {n nG g : Nat} {pairs : List Pair} {st st' : St} (h : Inv n nG pairs st)
    (hg : g < nG) (hm : ∃ p ∈ pairs, g ∈ p.up ∨ g ∈ p.down)
    (hc : chooseGene g st = .ok st') : Inv n nG pairs st' := by
  obtain ⟨hgc, rfl⟩ := chooseGene_ok hc
  constructor
  · rw [← h.shape]
    simp only [List.map_map]
    apply List.map_congr_left
    intro s _
    simp
  · intro s hs
    simp only [List.mem_map] at hs
    obtain ⟨t, ht, rfl⟩ := hs
    exact (h.wf t ht).bump
  · intro s hs
    simp only [List.mem_map] at hs
    obtain ⟨t, ht, rfl⟩ := hs
    exact (h.slot t ht).bump (h.wf t ht) hgc
  · simp [h.len]
  · simp only
    rw [List.nodup_append]
    refine ⟨h.nodup, by simp, ?_⟩
    intro a ha b hb
    simp only [List.mem_singleton] at hb
    subst hb
    intro hab
    subst hab
    exact hgc ha
  · intro x hx
    simp only [List.mem_append, List.mem_singleton] at hx
    rcases hx with hx | rfl
    · exact h.lt x hx
    · exact hg
  · intro x hx u hu
    simp only [List.mem_append, List.mem_singleton] at hx
    simp only [List.getElem?_set] at hu
    split at hu
    · split at hu
      · simp only [Option.some.injEq] at hu; omega
      · cases hu
    · rcases hx with hx | rfl
      · exact h.neg x hx u hu
      · rename_i hne; exact absurd rfl hne
  · intro x hx hxc
    simp only [List.mem_append, List.mem_singleton, not_or] at hxc
    have hne : ¬ g = x := fun e => hxc.2 e.symm
    simp only [List.getElem?_set, hne, if_false, specUtil_bump]
    exact h.util x hx hxc.1
  · intro x hx
    simp only [List.mem_append, List.mem_singleton] at hx
    rcases hx with hx | rfl
    · exact h.marks x hx
    · exact hm


/-! ### initial state -/

/-- what `markers.py` writes for one pair, after thinning: no gene listed
twice, no gene both up and down, indices below the number of genes -/
structure PairWF (nG : Nat) (p : Pair) : Prop where
  upNodup : p.up.Nodup
  downNodup : p.down.Nodup
  disj : ∀ g ∈ p.up, g ∉ p.down
  upLt : ∀ g ∈ p.up, g < nG
  downLt : ∀ g ∈ p.down, g < nG

/-! ### the block loop of `create_utility_array` -/

theorem initUtil_append (a b : List Slot) (g : Nat) :
    initUtil (a ++ b) g = initUtil a g + initUtil b g := by
  simp [initUtil, List.sum_append]

theorem initUtilB_aux (bs : Nat) (hbs : 0 < bs) (g : Nat) : ∀ (fuel : Nat) (l : List Slot),
    l.length ≤ fuel →
    ((blockSlicesAux fuel bs l).map (fun blk => initUtil blk g)).sum = initUtil l g := by
  intro fuel
  induction fuel with
  | zero =>
    intro l hl
    have : l = [] := List.length_eq_zero_iff.mp (by omega)
    subst this
    simp [blockSlicesAux, initUtil]
  | succ fuel ih =>
    intro l hl
    simp only [blockSlicesAux]
    cases l with
    | nil => simp [initUtil]
    | cons x xs =>
      simp only [List.isEmpty_cons, Bool.false_eq_true, if_false, List.map_cons, List.sum_cons]
      rw [ih ((x :: xs).drop bs) (by simp only [List.length_drop, List.length_cons] at hl ⊢; omega),
        ← initUtil_append, List.take_append_drop]

/-- the trailing partial block and every block border are visited exactly
once: for every block size ≥ 1 the blockwise utility is the utility over all
the parent's pairs -/
theorem initUtilB_eq (bs : Nat) (hbs : 0 < bs) (slots : List Slot) (g : Nat) :
    initUtilB bs slots g = initUtil slots g :=
  initUtilB_aux bs hbs g slots.length slots (Nat.le_refl _)

theorem initStateB_eq (bs : Nat) (hbs : 0 < bs) (nGenes : Nat) (pairs : List Pair) :
    initStateB bs nGenes pairs = initStateWhole nGenes pairs := by
  simp only [initStateB, initStateWhole, St.mk.injEq, true_and, and_true]
  apply List.map_congr_left
  intro g _
  exact initUtilB_eq bs hbs _ g

theorem utilityBlock_pos (gb nGenes : Nat) : 0 < utilityBlock gb nGenes := by
  unfold utilityBlock; omega

theorem initState_eq_whole (nGenes : Nat) (pairs : List Pair) :
    initState nGenes pairs = initStateWhole nGenes pairs :=
  initStateB_eq _ (utilityBlock_pos _ _) nGenes pairs

theorem specUtil_init (pairs : List Pair) (g : Nat) :
    specUtil (pairs.map (fun p => ({ down := p.down, up := p.up } : Slot))) g =
      initUtil (pairs.map (fun p => ({ down := p.down, up := p.up } : Slot))) g := by
  simp only [specUtil, initUtil, List.map_map]
  congr 1

theorem Inv.init {n nG : Nat} {pairs : List Pair} (hp : ∀ p ∈ pairs, PairWF nG p) :
    Inv n nG pairs (initState nG pairs) := by
  constructor
  · simp only [initState_eq_whole, initStateWhole, List.map_map]
    conv => rhs; rw [← List.map_id pairs]
    apply List.map_congr_left
    intro p _
    rfl
  · intro s hs
    simp only [initState_eq_whole, initStateWhole, List.mem_map] at hs
    obtain ⟨p, hpm, rfl⟩ := hs
    have := hp p hpm
    exact ⟨this.upNodup, this.downNodup, this.disj, this.upLt, this.downLt⟩
  · intro s hs
    simp only [initState_eq_whole, initStateWhole, List.mem_map] at hs
    obtain ⟨p, _, rfl⟩ := hs
    exact ⟨(cnt_nil p.up).symm, (cnt_nil p.down).symm, rfl, by simp, by simp⟩
  · simp [initState_eq_whole, initStateWhole]
  · simp [initState_eq_whole, initStateWhole]
  · simp [initState_eq_whole, initStateWhole]
  · simp [initState_eq_whole, initStateWhole]
  · intro g hg _
    simp only [initState_eq_whole, initStateWhole, List.getElem?_map, List.getElem?_range hg, Option.map_some,
      specUtil_init]
  · simp [initState_eq_whole, initStateWhole]

/-! ### desperate phase -/

theorem Inv.desperateGenes {n nG : Nat} {pairs : List Pair} :
    ∀ (gs : List Nat) (st st' : St),
      (∀ g ∈ gs, g < nG ∧ ∃ p ∈ pairs, g ∈ p.up ∨ g ∈ p.down) → Inv n nG pairs st →
      desperateGenes gs st = .ok st' → Inv n nG pairs st' := by
  intro gs
  induction gs with
  | nil =>
    intro st st' _ h he
    simp only [Selection.desperateGenes, Except.ok.injEq] at he
    subst he; exact h
  | cons g gs ih =>
    intro st st' hlt h he
    simp only [Selection.desperateGenes] at he
    have hgs : ∀ x ∈ gs, x < nG ∧ ∃ p ∈ pairs, x ∈ p.up ∨ x ∈ p.down :=
      fun x hx => hlt x (by simp [hx])
    split at he
    · exact ih st st' hgs h he
    · split at he
      · cases he
      · rename_i st1 hc
        exact ih st1 st' hgs (h.choose (hlt g (by simp)).1 (hlt g (by simp)).2 hc) he

theorem validGenes_spec (nG : Nat) (s : Slot) :
    ∀ g ∈ s.validGenes nG, g < nG ∧ (g ∈ s.up ∨ g ∈ s.down) := by
  intro g hg
  simp only [Slot.validGenes, List.mem_filter, List.mem_range, List.contains_eq_mem,
    Bool.or_eq_true, decide_eq_true_eq] at hg
  exact hg

theorem Inv.desperateSlots {n nG : Nat} {pairs : List Pair} :
    ∀ (ss : List Slot) (st st' : St), (∀ s ∈ ss, s.toPair ∈ pairs) → Inv n nG pairs st →
      desperateSlots n nG ss st = .ok st' → Inv n nG pairs st' := by
  intro ss
  induction ss with
  | nil =>
    intro st st' _ h he
    simp only [Selection.desperateSlots, Except.ok.injEq] at he
    subst he; exact h
  | cons s ss ih =>
    intro st st' hss h he
    have hss' : ∀ t ∈ ss, t.toPair ∈ pairs := fun t ht => hss t (by simp [ht])
    have hsp : s.toPair ∈ pairs := hss s (by simp)
    simp only [Selection.desperateSlots] at he
    split at he
    · split at he
      · cases he
      · split at he
        · cases he
        · rename_i st1 hd
          refine ih st1 st' hss' (Inv.desperateGenes _ _ _ ?_ h hd) he
          intro g hg
          have := validGenes_spec nG s g hg
          exact ⟨this.1, s.toPair, hsp, this.2⟩
    · exact ih st st' hss' h he

theorem Inv.pre {n nG : Nat} {pairs : List Pair} {st : St} (hp : ∀ p ∈ pairs, PairWF nG p)
    (h : preState nG pairs n = .ok st) : Inv n nG pairs st := by
  unfold preState at h
  have hu : Inv n nG pairs (updateBeenFilled n (initState nG pairs)) := (Inv.init hp).update
  refine Inv.desperateSlots _ _ _ ?_ hu h
  intro s hs
  rw [← hu.shape]
  exact List.mem_map.mpr ⟨s, hs, rfl⟩

/-! ### the loop -/

/-- one of the two `break` tests fired -/
def Stop (st : St) : Prop := (∀ u ∈ st.util, u ≤ 0) ∨ allFilled st.slots = true

/-- a legal pick when the maximum is positive is an unchosen gene -/
theorem pick_unchosen {n nG : Nat} {pairs : List Pair} {st : St} {m : Int} {g : Nat}
    (h : Inv n nG pairs st) (hm : maxUtil st.util = some m) (hpos : ¬ m ≤ 0)
    (hl : legalPick st.util g = true) :
    g < nG ∧ g ∉ st.chosen ∧ ∃ p ∈ pairs, g ∈ p.up ∨ g ∈ p.down := by
  obtain ⟨ug, hug, hall⟩ := legalPick_spec hl
  obtain ⟨hmem, _⟩ := maxUtil_spec hm
  have h1 : m ≤ ug := hall m hmem
  have hlt : g < st.util.length := by
    rcases Nat.lt_or_ge g st.util.length with h | h
    · exact h
    · rw [List.getElem?_eq_none h] at hug; cases hug
  have hlt' : g < nG := by rw [← h.len]; exact hlt
  have hnc : g ∉ st.chosen := by
    intro hc
    have := h.neg g hc ug hug
    omega
  refine ⟨hlt', hnc, ?_⟩
  have hu := h.util g hlt' hnc
  rw [hug] at hu
  simp only [Option.some.injEq] at hu
  have hpos : 0 < specUtil st.slots g := by omega
  obtain ⟨s, hs, hsg⟩ := exists_marks_of_specUtil_pos hpos
  refine ⟨s.toPair, ?_, hsg⟩
  rw [← h.shape]
  exact List.mem_map.mpr ⟨s, hs, rfl⟩

theorem loop_ok {n nG : Nat} {pairs : List Pair} {tie : Tie} :
    ∀ (fuel : Nat) (st st' : St), Inv n nG pairs st → loop n tie fuel st = .ok st' →
      Inv n nG pairs st' ∧ Fresh n st' ∧ Stop st' := by
  intro fuel
  induction fuel with
  | zero => intro st st' _ he; simp [loop] at he
  | succ fuel ih =>
    intro st st' h he
    simp only [loop] at he
    have hu := h.update
    have hf := fresh_update n st
    split at he
    · cases he
    · rename_i m hm
      split at he
      · rename_i hle
        simp only [Except.ok.injEq] at he
        subst he
        refine ⟨hu, hf, Or.inl ?_⟩
        intro u huu
        have := (maxUtil_spec hm).2 u huu
        omega
      · rename_i hpos
        split at he
        · rename_i hall
          simp only [Except.ok.injEq] at he
          subst he
          exact ⟨hu, hf, Or.inr hall⟩
        · split at he
          · cases he
          · rename_i hl
            have hl : legalPick (updateBeenFilled n st).util
                (tie (updateBeenFilled n st).chosen (updateBeenFilled n st).util) = true := by
              simpa using hl
            split at he
            · cases he
            · rename_i st1 hc
              have := pick_unchosen hu hm hpos hl
              exact ih st1 st' (hu.choose this.1 this.2.2 hc) he

/-! ### the terminal state -/

theorem terminal_cond {n nG : Nat} {pairs : List Pair} {st : St} (hI : Inv n nG pairs st)
    (hS : Stop st) :
    ∀ s ∈ st.slots, s.condDown n = true ∧ s.condUp n = true := by
  intro s hs
  have hinv := hI.slot s hs
  have hwf := hI.wf s hs
  rcases hS with hS | hS
  · constructor
    · by_contra hc
      have hfd : s.fDown = false := by
        cases hfd : s.fDown
        · rfl
        · exact absurd (hinv.fDown hfd) hc
      have hall : ∀ g ∈ s.down, g ∈ st.chosen := by
        intro g hg
        by_contra hgc
        have hlt := hwf.downLt g hg
        have hu := hI.util g hlt hgc
        have h1 := one_le_specUtil_down hs hfd hg
        have := hS _ (List.mem_of_getElem? hu)
        omega
      have := (cnt_eq_length_iff st.chosen s.down).mpr hall
      apply hc
      rw [condDown_iff]
      right; left
      rw [hinv.cDown, this]
    · by_contra hc
      have hfu : s.fUp = false := by
        cases hfu : s.fUp
        · rfl
        · exact absurd (hinv.fUp hfu) hc
      have hall : ∀ g ∈ s.up, g ∈ st.chosen := by
        intro g hg
        by_contra hgc
        have hlt := hwf.upLt g hg
        have hu := hI.util g hlt hgc
        have h1 := one_le_specUtil_up hs hfu hg
        have := hS _ (List.mem_of_getElem? hu)
        omega
      have := (cnt_eq_length_iff st.chosen s.up).mpr hall
      apply hc
      rw [condUp_iff]
      right; left
      rw [hinv.cUp, this]
  · have := List.all_eq_true.mp hS s hs
    simp only [Bool.and_eq_true] at this
    exact ⟨hinv.fDown this.1, hinv.fUp this.2⟩

/-- the arithmetic of a terminal slot: the three ways a direction can be
"filled" give, over the two directions, `min (2n) (all markers)` -/
theorem coverage_slot {n : Nat} {c : List Nat} {s : Slot} (hinv : SlotInv n c s)
    (hd : s.condDown n = true) (hu : s.condUp n = true) :
    min (2 * n) (s.up.length + s.down.length) ≤ cnt c s.up + cnt c s.down := by
  rw [condDown_iff] at hd
  rw [condUp_iff] at hu
  have h1 := hinv.cUp
  have h2 := hinv.cDown
  have h3 := hinv.agg
  have := cnt_le c s.up
  have := cnt_le c s.down
  omega


/-! ### termination and totality -/

/-- a tie-breaking policy is legal when it always names an index of maximal
utility (numpy's `argsort(...)[-1]` is one, whatever its order among ties) -/
def LegalTie (tie : Tie) : Prop :=
  ∀ (chosen : List Nat) (util : List Int), util ≠ [] → legalPick util (tie chosen util) = true

theorem chooseGene_error {g : Nat} {st : St} {e : Err} (h : chooseGene g st = .error e) :
    g ∈ st.chosen := by
  unfold chooseGene at h
  split at h
  · rename_i hc; simpa using hc
  · cases h

theorem desperateGenes_total : ∀ (gs : List Nat) (st : St), ∃ st', desperateGenes gs st = .ok st' := by
  intro gs
  induction gs with
  | nil => intro st; exact ⟨st, rfl⟩
  | cons g gs ih =>
    intro st
    simp only [desperateGenes]
    split
    · exact ih st
    · rename_i hc
      split
      · rename_i e he
        have := chooseGene_error he
        simp only [List.contains_eq_mem, decide_eq_true_eq] at hc
        exact absurd this hc
      · rename_i st1 _
        exact ih st1

theorem desperateSlots_total {n nG : Nat} : ∀ (ss : List Slot) (st : St),
    (∀ s ∈ ss, SlotWF nG s) → ∃ st', desperateSlots n nG ss st = .ok st' := by
  intro ss
  induction ss with
  | nil => intro st _; exact ⟨st, rfl⟩
  | cons s ss ih =>
    intro st hw
    have hw' : ∀ t ∈ ss, SlotWF nG t := fun t ht => hw t (by simp [ht])
    simp only [desperateSlots]
    split
    · split
      · rename_i hov
        simp only [List.any_eq_true, List.contains_eq_mem, decide_eq_true_eq] at hov
        obtain ⟨g, hgu, hgd⟩ := hov
        exact absurd hgd ((hw s (by simp)).disj g hgu)
      · obtain ⟨st1, h1⟩ := desperateGenes_total (s.validGenes nG) st
        rw [h1]
        exact ih st1 hw'
    · exact ih st hw'

theorem preState_total {n nG : Nat} {pairs : List Pair} (hp : ∀ p ∈ pairs, PairWF nG p) :
    ∃ st, preState nG pairs n = .ok st := by
  unfold preState
  apply desperateSlots_total
  exact ((Inv.init (n := n) hp).update).wf

theorem loop_error {n nG : Nat} {pairs : List Pair} {tie : Tie} :
    ∀ (fuel : Nat) (st : St) (e : Err), Inv n nG pairs st → nG < fuel + st.chosen.length →
      loop n tie fuel st = .error e →
      (e = .illegalPick ∧ ¬ LegalTie tie) ∨ (e = .emptyMax ∧ nG = 0) := by
  intro fuel
  induction fuel with
  | zero =>
    intro st e h hf _
    have := length_le_of_nodup_lt h.nodup h.lt
    omega
  | succ fuel ih =>
    intro st e h hf he
    simp only [loop] at he
    have hu := h.update
    split at he
    · rename_i hm
      simp only [Except.error.injEq] at he
      subst he
      right
      refine ⟨rfl, ?_⟩
      have hl := hu.len
      cases hutil : (updateBeenFilled n st).util with
      | nil => rw [hutil] at hl; simpa using hl.symm
      | cons a as => rw [hutil] at hm; simp [maxUtil] at hm
    · rename_i m hm
      split at he
      · cases he
      · rename_i hpos
        split at he
        · cases he
        · split at he
          · rename_i hl
            simp only [Except.error.injEq] at he
            subst he
            left
            refine ⟨rfl, ?_⟩
            intro hlegal
            have hne : (updateBeenFilled n st).util ≠ [] := by
              intro h0; rw [h0] at hm; simp [maxUtil] at hm
            have := hlegal (updateBeenFilled n st).chosen _ hne
            rw [this] at hl
            simp at hl
          · rename_i hl
            have hl : legalPick (updateBeenFilled n st).util
                (tie (updateBeenFilled n st).chosen (updateBeenFilled n st).util) = true := by
              simpa using hl
            have hp := pick_unchosen hu hm hpos hl
            split at he
            · rename_i e' hc
              exact absurd (chooseGene_error hc) hp.2.1
            · rename_i st1 hc
              refine ih st1 e (hu.choose hp.1 hp.2.2 hc) ?_ he
              obtain ⟨_, rfl⟩ := chooseGene_ok hc
              simp only [List.length_append, List.length_singleton]
              have : (updateBeenFilled n st).chosen = st.chosen := rfl
              rw [this]
              omega

theorem runState_error {n nG : Nat} {pairs : List Pair} {tie : Tie} {e : Err}
    (hp : ∀ p ∈ pairs, PairWF nG p) (h : runState nG pairs n tie = .error e) :
    (e = .illegalPick ∧ ¬ LegalTie tie) ∨ (e = .emptyMax ∧ nG = 0) := by
  unfold runState at h
  obtain ⟨st2, h2⟩ := preState_total (n := n) hp
  rw [h2] at h
  simp only at h
  exact loop_error (nG + 1) st2 e (Inv.pre hp h2) (by omega) h

theorem runState_total {n nG : Nat} {pairs : List Pair} {tie : Tie}
    (hp : ∀ p ∈ pairs, PairWF nG p) (hG : 0 < nG) (ht : LegalTie tie) :
    ∃ st, runState nG pairs n tie = .ok st := by
  cases h : runState nG pairs n tie with
  | ok st => exact ⟨st, rfl⟩
  | error e =>
    rcases runState_error hp h with ⟨_, hn⟩ | ⟨_, h0⟩
    · exact absurd ht hn
    · omega

/-- everything known about the exit state of `_run_selection` -/
theorem runState_exit {n nG : Nat} {pairs : List Pair} {tie : Tie} {st : St}
    (hp : ∀ p ∈ pairs, PairWF nG p) (h : runState nG pairs n tie = .ok st) :
    Inv n nG pairs st ∧ Fresh n st ∧ Stop st := by
  unfold runState at h
  split at h
  · cases h
  · rename_i st2 h2
    exact loop_ok (nG + 1) st2 st (Inv.pre hp h2) h


/-! ### counting both ways -/

theorem countP_mem_comm {a b : List Nat} (ha : a.Nodup) (hb : b.Nodup) :
    a.countP (fun g => b.contains g) = b.countP (fun g => a.contains g) := by
  rw [List.countP_eq_length_filter, List.countP_eq_length_filter]
  apply List.Perm.length_eq
  rw [List.perm_ext_iff_of_nodup (ha.filter _) (hb.filter _)]
  intro x
  simp only [List.mem_filter, List.contains_eq_mem, decide_eq_true_eq]
  exact ⟨fun h => ⟨h.2, h.1⟩, fun h => ⟨h.2, h.1⟩⟩

theorem countP_or_disjoint (l a b : List Nat) (h : ∀ g ∈ a, g ∉ b) :
    l.countP (fun g => (a ++ b).contains g) =
      l.countP (fun g => a.contains g) + l.countP (fun g => b.contains g) := by
  induction l with
  | nil => simp
  | cons x xs ih =>
    rw [List.countP_cons, List.countP_cons, List.countP_cons, ih]
    simp only [List.contains_eq_mem, List.mem_append, decide_eq_true_eq]
    by_cases hxa : x ∈ a
    · have := h x hxa
      simp only [hxa, this, true_or, if_true, if_false]; omega
    · by_cases hxb : x ∈ b
      · simp only [hxa, hxb, or_true, if_true, if_false]; omega
      · simp only [hxa, hxb, or_self, if_false]; omega

/-! ### thinning to the query genes -/

theorem mem_keptGenes {G : Nat} {Q : List Nat} {g : Nat} :
    g ∈ keptGenes G Q ↔ g < G ∧ g ∈ Q := by
  simp [keptGenes, List.mem_filter]

theorem keptGenes_nodup (G : Nat) (Q : List Nat) : (keptGenes G Q).Nodup :=
  List.nodup_range.filter _

theorem mem_thinList {kept l : List Nat} {i : Nat} :
    i ∈ thinList kept l ↔ ∃ g, g ∈ l ∧ g ∈ kept ∧ kept.idxOf g = i := by
  simp only [thinList, List.mem_map, List.mem_filter, List.contains_eq_mem, decide_eq_true_eq]
  constructor
  · rintro ⟨g, ⟨h1, h2⟩, h3⟩; exact ⟨g, h1, h2, h3⟩
  · rintro ⟨g, h1, h2, h3⟩; exact ⟨g, ⟨h1, h2⟩, h3⟩

theorem thinList_nodup {kept l : List Nat} (hl : l.Nodup) : (thinList kept l).Nodup := by
  unfold thinList
  apply List.Nodup.map_on _ (hl.filter _)
  intro x hx y _ h
  simp only [List.mem_filter, List.contains_eq_mem, decide_eq_true_eq] at hx
  exact (List.idxOf_inj hx.2).mp h

theorem thinList_lt {kept l : List Nat} : ∀ i ∈ thinList kept l, i < kept.length := by
  intro i hi
  obtain ⟨g, _, hk, rfl⟩ := mem_thinList.mp hi
  exact List.idxOf_lt_length_of_mem hk

theorem length_thinList (kept l : List Nat) :
    (thinList kept l).length = l.countP (fun g => kept.contains g) := by
  simp [thinList, List.countP_eq_length_filter]

theorem getD_idxOf {kept : List Nat} {g : Nat} (h : g ∈ kept) : kept.getD (kept.idxOf g) 0 = g := by
  rw [List.getD_eq_getElem?_getD, List.getElem?_idxOf h]
  rfl

theorem mem_thinList_iff_getD {kept l : List Nat} {i : Nat} (hk : kept.Nodup)
    (hi : i < kept.length) : i ∈ thinList kept l ↔ kept.getD i 0 ∈ l := by
  have hget : kept.getD i 0 = kept[i] := by
    rw [List.getD_eq_getElem?_getD, List.getElem?_eq_getElem hi]; rfl
  rw [mem_thinList, hget]
  constructor
  · rintro ⟨g, hgl, hgk, hidx⟩
    have : kept[i] = g := by
      have h1 := List.getElem_idxOf (List.idxOf_lt_length_of_mem hgk)
      simp only [hidx] at h1
      exact h1
    rw [this]; exact hgl
  · intro h
    exact ⟨kept[i], h, List.getElem_mem hi, hk.idxOf_getElem i hi⟩

theorem thinPair_wf {G : Nat} {kept : List Nat} {p : Pair} (hp : PairWF G p) :
    PairWF kept.length (thinPair kept p) := by
  refine ⟨thinList_nodup hp.upNodup, thinList_nodup hp.downNodup, ?_, thinList_lt, thinList_lt⟩
  intro i hiu hid
  obtain ⟨g, hgl, hgk, rfl⟩ := mem_thinList.mp hiu
  obtain ⟨g', hgl', hgk', hidx⟩ := mem_thinList.mp hid
  have : g' = g := (List.idxOf_inj hgk').mp hidx
  subst this
  exact hp.disj _ hgl hgl'

/-! ### one parent -/

/-- the reference-marker table is as `markers.py` writes it -/
def TableWF (t : RefTable) : Prop := ∀ p ∈ t.pairs, PairWF t.nGenes p

theorem lookupPairs_spec {pairs : List Pair} : ∀ (ks : List Nat) (ps : List Pair),
    lookupPairs pairs ks = .ok ps → ps = ks.filterMap (fun k => pairs[k]?) ∧
      ∀ k ∈ ks, ∃ p, pairs[k]? = some p := by
  intro ks
  induction ks with
  | nil => intro ps h; simp only [lookupPairs, Except.ok.injEq] at h; subst h; simp
  | cons k ks ih =>
    intro ps h
    simp only [lookupPairs] at h
    split at h
    · cases h
    · rename_i p hp
      split at h
      · cases h
      · rename_i ps' hps
        simp only [Except.ok.injEq] at h
        subst h
        obtain ⟨h1, h2⟩ := ih ps' hps
        constructor
        · simp [hp, h1]
        · intro k' hk'
          rcases List.mem_cons.mp hk' with rfl | hk'
          · exact ⟨p, hp⟩
          · exact h2 k' hk'

theorem mem_localOrder {leaves : List Nat} {b : Bool} {k : Nat} :
    k ∈ localOrder leaves b ↔ k ∈ leaves := by
  unfold localOrder
  split
  · exact (List.mergeSort_perm leaves _).mem_iff
  · rfl

/-- what a successful `selectParent` on a non-empty pair list consists of -/
theorem selectParent_ok {th : Thinned} {leaves : List Nat} {beh : Bool} {n : Nat} {tie : Tie}
    {names : List Nat} (hne : leaves ≠ []) (h : selectParent th leaves beh n tie = .ok names) :
    ∃ ps st, lookupPairs th.pairs (localOrder leaves beh) = .ok ps ∧
      runState th.kept.length ps n tie = .ok st ∧
      names = st.chosen.map (fun i => th.kept.getD i 0) := by
  unfold selectParent at h
  have : leaves.isEmpty = false := by cases leaves <;> simp_all
  simp only [this, Bool.false_eq_true, if_false] at h
  split at h
  · cases h
  · split at h
    · cases h
    · rename_i ps hps
      simp only [runSelection] at h
      cases hr : runState th.kept.length ps n tie with
      | error e => rw [hr] at h; simp [Except.map] at h
      | ok st =>
        rw [hr] at h
        simp only [Except.map, Except.ok.injEq] at h
        exact ⟨ps, st, hps, hr, h.symm⟩


/-! ### coverage, at the level of the thinned arrays and of the reference table -/

theorem coverage_pairs {n nG : Nat} {ps : List Pair} {tie : Tie} {st : St}
    (hp : ∀ p ∈ ps, PairWF nG p) (hr : runState nG ps n tie = .ok st) :
    ∀ p ∈ ps, min (2 * n) (p.up.length + p.down.length) ≤ cnt st.chosen p.up + cnt st.chosen p.down := by
  intro p hpm
  obtain ⟨hI, _, hS⟩ := runState_exit hp hr
  rw [← hI.shape] at hpm
  obtain ⟨s, hs, rfl⟩ := List.mem_map.mp hpm
  obtain ⟨hd, hu⟩ := terminal_cond hI hS s hs
  exact coverage_slot (hI.slot s hs) hd hu

/-- the census of chosen (thinned) indices in a thinned marker list is the
number of selected *names* among the pair's reference markers -/
theorem cnt_thin {kept chosen l : List Nat} (hk : kept.Nodup) (hc : chosen.Nodup)
    (hlt : ∀ i ∈ chosen, i < kept.length) (hl : l.Nodup) :
    cnt chosen (thinList kept l) =
      (chosen.map (fun i => kept.getD i 0)).countP (fun g => l.contains g) := by
  unfold cnt
  rw [← countP_mem_comm hc (thinList_nodup hl), List.countP_map]
  apply List.countP_congr
  intro i hi
  simp only [List.contains_eq_mem, decide_eq_true_eq, Function.comp]
  exact mem_thinList_iff_getD hk (hlt i hi)

theorem thin_ok {t : RefTable} {query : List Nat} {th : Thinned} (h : thin t query = .ok th) :
    th.kept = keptGenes t.nGenes query ∧ th.pairs = t.pairs.map (thinPair th.kept) ∧
      th.kept ≠ [] := by
  unfold thin at h
  simp only at h
  split at h
  · cases h
  · rename_i hne
    simp only [Except.ok.injEq] at h
    subst h
    refine ⟨rfl, rfl, ?_⟩
    intro h0
    simp only [List.isEmpty_iff] at hne
    exact hne h0

/-- available-in-the-query census of a marker list -/
theorem length_thinList_kept {G : Nat} {query l : List Nat} (hl : ∀ g ∈ l, g < G) :
    (thinList (keptGenes G query) l).length = l.countP (fun g => query.contains g) := by
  rw [length_thinList]
  apply List.countP_congr
  intro g hg
  simp only [List.contains_eq_mem, decide_eq_true_eq, mem_keptGenes]
  exact ⟨fun h => h.2, fun h => ⟨hl g hg, h⟩⟩

/-- the pieces of a successful selection for one parent, tied back to the
reference table -/
theorem selectParent_pieces {t : RefTable} {query leaves : List Nat} {beh : Bool} {n : Nat}
    {tie : Tie} {th : Thinned} {names : List Nat}
    (ht : TableWF t) (hth : thin t query = .ok th) (hne : leaves ≠ [])
    (h : selectParent th leaves beh n tie = .ok names) :
    ∃ ps st, runState th.kept.length ps n tie = .ok st ∧
      names = st.chosen.map (fun i => th.kept.getD i 0) ∧
      (∀ p ∈ ps, PairWF th.kept.length p) ∧
      (∀ k ∈ leaves, ∀ p, t.pairs[k]? = some p → thinPair th.kept p ∈ ps) ∧
      (∀ p' ∈ ps, ∃ k ∈ leaves, ∃ p, t.pairs[k]? = some p ∧ p' = thinPair th.kept p) := by
  obtain ⟨ps, st, hps, hr, hnames⟩ := selectParent_ok hne h
  obtain ⟨_, hpairs, _⟩ := thin_ok hth
  obtain ⟨hps1, _⟩ := lookupPairs_spec _ _ hps
  have hback : ∀ p' ∈ ps, ∃ k ∈ leaves, ∃ p, t.pairs[k]? = some p ∧ p' = thinPair th.kept p := by
    intro p' hp'
    rw [hps1, List.mem_filterMap] at hp'
    obtain ⟨k, hk, hkp⟩ := hp'
    rw [hpairs, List.getElem?_map] at hkp
    cases hq : t.pairs[k]? with
    | none => rw [hq] at hkp; cases hkp
    | some q =>
      rw [hq] at hkp
      simp only [Option.map_some, Option.some.injEq] at hkp
      exact ⟨k, mem_localOrder.mp hk, q, hq, hkp.symm⟩
  refine ⟨ps, st, hr, hnames, ?_, ?_, hback⟩
  · intro p' hp'
    obtain ⟨k, _, q, hq, rfl⟩ := hback p' hp'
    exact thinPair_wf (ht q (List.mem_of_getElem? hq))
  · intro k hk p hp
    rw [hps1, List.mem_filterMap]
    refine ⟨k, mem_localOrder.mpr hk, ?_⟩
    rw [hpairs, List.getElem?_map, hp]
    rfl

theorem tieFirst_legal : LegalTie tieFirst := by
  intro chosen util hne
  unfold tieFirst legalPick
  cases hm : maxUtil util with
  | none => cases util <;> simp_all [maxUtil]
  | some m =>
    obtain ⟨hmem, hle⟩ := maxUtil_spec hm
    simp only [List.getElem?_idxOf hmem]
    exact List.all_eq_true.mpr (fun u hu => by simpa using hle u hu)


/-! ### independence of the local pair order (`spawn_copy` vs `downsample_pairs_to_other`) -/

theorem sum_perm {l l' : List Int} (h : l.Perm l') : l.sum = l'.sum := by
  induction h with
  | nil => rfl
  | cons x _ ih => simp only [List.sum_cons, ih]
  | swap x y l => simp only [List.sum_cons]; omega
  | trans _ _ ih1 ih2 => omega

/-- two states that differ only in the order of the slots and in the order in
which the same genes were chosen -/
structure Sim (st st' : St) : Prop where
  slots : st'.slots.Perm st.slots
  util : st'.util = st.util
  chosen : st'.chosen.Perm st.chosen

theorem Sim.refl (st : St) : Sim st st := ⟨List.Perm.refl _, rfl, List.Perm.refl _⟩

theorem Sim.trans {a b c : St} (h1 : Sim a b) (h2 : Sim b c) : Sim a c :=
  ⟨h2.slots.trans h1.slots, h2.util.trans h1.util, h2.chosen.trans h1.chosen⟩

theorem decrAll_perm {n : Nat} {l l' : List Slot} (h : l'.Perm l) (g : Nat) :
    decrAll n l' g = decrAll n l g := sum_perm (h.map _)

theorem Sim.update {n : Nat} {st st' : St} (h : Sim st st') :
    Sim (updateBeenFilled n st) (updateBeenFilled n st') := by
  refine ⟨h.slots.map _, ?_, h.chosen⟩
  simp only [updateBeenFilled, h.util]
  apply List.ext_getElem? 
  intro i
  simp only [List.getElem?_mapIdx, decrAll_perm h.slots]

/-- the total form of the guarded `_choose_one_gene` of the desperate loop -/
def chooseIfNew (st : St) (g : Nat) : St :=
  if st.chosen.contains g then st
  else { chosen := st.chosen ++ [g], util := st.util.set g (-1),
         slots := st.slots.map (Slot.bump g) }

theorem Sim.stepNew {st st' : St} (h : Sim st st') (g : Nat) :
    Sim (chooseIfNew st g) (chooseIfNew st' g) := by
  unfold Selection.chooseIfNew
  have hc : st'.chosen.contains g = st.chosen.contains g := by
    rw [Bool.eq_iff_iff]; simp [h.chosen.mem_iff]
  rw [hc]
  split
  · exact h
  · exact ⟨h.slots.map _, by simp only [h.util], h.chosen.append_right _⟩

theorem Sim.foldNew {gs : List Nat} : ∀ {st st' : St}, Sim st st' →
    Sim (gs.foldl chooseIfNew st) (gs.foldl chooseIfNew st') := by
  induction gs with
  | nil => intro st st' h; exact h
  | cons g gs ih => intro st st' h; exact ih (h.stepNew g)

theorem bump_eq (g : Nat) (s : Slot) : s.bump g =
    { s with cUp := s.cUp + (if s.up.contains g then 1 else 0),
             cDown := s.cDown + (if !s.up.contains g && s.down.contains g then 1 else 0),
             agg := s.agg + (if s.up.contains g || s.down.contains g then 1 else 0) } := by
  unfold Slot.bump
  cases h1 : s.up.contains g <;> cases h2 : s.down.contains g <;> simp

theorem bump_comm (a b : Nat) (s : Slot) : (s.bump a).bump b = (s.bump b).bump a := by
  rw [bump_eq b (s.bump a), bump_eq a (s.bump b), bump_eq a s, bump_eq b s]
  simp only [Slot.mk.injEq, true_and, and_true]
  refine ⟨?_, ?_, ?_⟩ <;> omega

theorem chooseIfNew_swap (st : St) (a b : Nat) :
    Sim (chooseIfNew (chooseIfNew st a) b) (chooseIfNew (chooseIfNew st b) a) := by
  by_cases hab : a = b
  · subst hab; exact Sim.refl _
  have hba : ¬ b = a := fun h => hab h.symm
  by_cases ha : a ∈ st.chosen <;> by_cases hb : b ∈ st.chosen
  · simp only [chooseIfNew, List.contains_eq_mem, ha, hb, decide_true, if_true]
    exact Sim.refl _
  · simp only [chooseIfNew, List.contains_eq_mem, ha, hb, decide_true, decide_false, if_true,
      Bool.false_eq_true, if_false, List.mem_append, List.mem_singleton, true_or]
    exact Sim.refl _
  · simp only [chooseIfNew, List.contains_eq_mem, ha, hb, decide_true, decide_false, if_true,
      Bool.false_eq_true, if_false, List.mem_append, List.mem_singleton, true_or]
    exact Sim.refl _
  · simp only [chooseIfNew, List.contains_eq_mem, ha, hb, hab, hba, decide_false,
      Bool.false_eq_true, if_false, List.mem_append, List.mem_singleton, or_self]
    refine ⟨?_, ?_, ?_⟩
    · simp only [List.map_map]
      apply List.Perm.of_eq
      apply List.map_congr_left
      intro s _
      exact bump_comm b a s
    · exact List.set_comm _ _ hba
    · simp only [List.append_assoc, List.singleton_append]
      exact List.Perm.append_left _ (List.Perm.swap _ _ _)

theorem Sim.foldNew_perm {gs gs' : List Nat} (h : gs.Perm gs') :
    ∀ st : St, Sim (gs.foldl chooseIfNew st) (gs'.foldl chooseIfNew st) := by
  induction h with
  | nil => intro st; exact Sim.refl _
  | cons x _ ih => intro st; exact ih _
  | swap x y l =>
    intro st
    simp only [List.foldl_cons]
    exact Sim.foldNew (chooseIfNew_swap st y x)
  | trans _ _ ih1 ih2 => intro st; exact (ih1 st).trans (ih2 st)

theorem desperateGenes_eq_foldl : ∀ (gs : List Nat) (st : St),
    desperateGenes gs st = .ok (gs.foldl chooseIfNew st) := by
  intro gs
  induction gs with
  | nil => intro st; rfl
  | cons g gs ih =>
    intro st
    simp only [desperateGenes, List.foldl_cons, chooseIfNew, chooseGene]
    split
    · exact ih st
    · exact ih _

/-- the genes the desperate phase walks through, in order -/
def desperateList (n nG : Nat) (ss : List Slot) : List Nat :=
  (ss.filter (Slot.desperate n)).flatMap (Slot.validGenes nG)

theorem desperateSlots_eq_foldl {n nG : Nat} : ∀ (ss : List Slot) (st : St),
    (∀ s ∈ ss, SlotWF nG s) →
    desperateSlots n nG ss st = .ok ((desperateList n nG ss).foldl chooseIfNew st) := by
  intro ss
  induction ss with
  | nil => intro st _; rfl
  | cons s ss ih =>
    intro st hw
    have hw' : ∀ t ∈ ss, SlotWF nG t := fun t ht => hw t (by simp [ht])
    by_cases hd : s.desperate n = true
    · have hno : (s.up.any fun g => s.down.contains g) = false := by
        rw [Bool.eq_false_iff]
        intro hov
        simp only [List.any_eq_true, List.contains_eq_mem, decide_eq_true_eq] at hov
        obtain ⟨g, hgu, hgd⟩ := hov
        exact absurd hgd ((hw s (by simp)).disj g hgu)
      have hl : desperateList n nG (s :: ss) = s.validGenes nG ++ desperateList n nG ss := by
        simp [desperateList, List.filter_cons, hd]
      rw [hl, List.foldl_append]
      simp only [desperateSlots, hd, if_true, hno, Bool.false_eq_true, if_false,
        desperateGenes_eq_foldl]
      exact ih _ hw'
    · have hl : desperateList n nG (s :: ss) = desperateList n nG ss := by
        simp [desperateList, List.filter_cons, hd]
      rw [hl]
      simp only [desperateSlots, hd, if_false]
      exact ih st hw'

theorem desperateList_perm {n nG : Nat} {ss ss' : List Slot} (h : ss'.Perm ss) :
    (desperateList n nG ss').Perm (desperateList n nG ss) :=
  (h.filter _).flatMap_right _

theorem allFilled_perm {l l' : List Slot} (h : l'.Perm l) : allFilled l' = allFilled l := by
  rw [Bool.eq_iff_iff]
  simp only [allFilled, List.all_eq_true]
  exact ⟨fun hh s hs => hh s (h.mem_iff.mpr hs), fun hh s hs => hh s (h.mem_iff.mp hs)⟩

theorem Sim.choose {st st' s1 : St} {g : Nat} (h : Sim st st')
    (hc : Selection.chooseGene g st = .ok s1) :
    ∃ s1', Selection.chooseGene g st' = .ok s1' ∧ Sim s1 s1' := by
  obtain ⟨hg, rfl⟩ := chooseGene_ok hc
  have hg' : g ∉ st'.chosen := fun hh => hg (h.chosen.mem_iff.mp hh)
  refine ⟨{ chosen := st'.chosen ++ [g], util := st'.util.set g (-1),
            slots := st'.slots.map (Slot.bump g) }, ?_, ?_⟩
  · simp [Selection.chooseGene, hg']
  · exact ⟨h.slots.map _, by simp only [h.util], h.chosen.append_right _⟩

/-- the greedy loop does not depend on the slot order when the tie-breaking
policy looks at the utility array only (as `np.argsort` does) -/
theorem loop_succ (n : Nat) (tie : Tie) (fuel : Nat) (st : St) :
    loop n tie (fuel + 1) st =
      match maxUtil (updateBeenFilled n st).util with
      | none => .error .emptyMax
      | some m =>
        if m ≤ 0 then .ok (updateBeenFilled n st)
        else if allFilled (updateBeenFilled n st).slots then .ok (updateBeenFilled n st)
        else if !legalPick (updateBeenFilled n st).util
            (tie (updateBeenFilled n st).chosen (updateBeenFilled n st).util) then .error .illegalPick
        else match chooseGene (tie (updateBeenFilled n st).chosen (updateBeenFilled n st).util)
            (updateBeenFilled n st) with
          | .error e => .error e
          | .ok st' => loop n tie fuel st' := rfl

theorem Sim.loopOk {n : Nat} {t : List Int → Nat} : ∀ (fuel : Nat) {st st' r : St}, Sim st st' →
    loop n (fun _ u => t u) fuel st = .ok r →
    ∃ r', loop n (fun _ u => t u) fuel st' = .ok r' ∧ Sim r r' := by
  intro fuel
  induction fuel with
  | zero => intro st st' r _ he; simp [Selection.loop] at he
  | succ fuel ih =>
    intro st st' r h he
    have hu := h.update (n := n)
    rw [loop_succ] at he ⊢
    rw [hu.util, allFilled_perm hu.slots]
    cases hm : maxUtil (updateBeenFilled n st).util with
    | none => rw [hm] at he; cases he
    | some m =>
      rw [hm] at he
      simp only at he ⊢
      by_cases hle : m ≤ 0
      · simp only [hle, if_true, Except.ok.injEq] at he ⊢
        subst he
        exact ⟨_, rfl, hu⟩
      · simp only [hle, if_false] at he ⊢
        by_cases hall : allFilled (updateBeenFilled n st).slots = true
        · simp only [hall, if_true, Except.ok.injEq] at he ⊢
          subst he
          exact ⟨_, rfl, hu⟩
        · simp only [hall, Bool.false_eq_true, if_false] at he ⊢
          cases hl : legalPick (updateBeenFilled n st).util (t (updateBeenFilled n st).util) with
          | false => rw [hl] at he; simp at he
          | true =>
            rw [hl] at he
            simp only [Bool.not_true, Bool.false_eq_true, if_false] at he ⊢
            cases hc : chooseGene (t (updateBeenFilled n st).util) (updateBeenFilled n st) with
            | error e => rw [hc] at he; cases he
            | ok s1 =>
              rw [hc] at he
              obtain ⟨s1', hc', hs1⟩ := hu.choose hc
              rw [hc']
              exact ih hs1 he

theorem initUtil_perm {l l' : List Slot} (h : l'.Perm l) (g : Nat) :
    initUtil l' g = initUtil l g := sum_perm (h.map _)

/-- `_run_selection` on a permuted pair list reaches a state that differs only
in the slot order and the order of the chosen genes -/
theorem runState_perm {nG n : Nat} {ps ps' : List Pair} {t : List Int → Nat} {st st' : St}
    (hp : ∀ p ∈ ps, PairWF nG p) (hperm : ps'.Perm ps)
    (h : runState nG ps n (fun _ u => t u) = .ok st)
    (h' : runState nG ps' n (fun _ u => t u) = .ok st') : Sim st st' := by
  have hp' : ∀ p ∈ ps', PairWF nG p := fun p hpm => hp p (hperm.mem_iff.mp hpm)
  have h0 : Sim (initState nG ps) (initState nG ps') := by
    rw [initState_eq_whole, initState_eq_whole]
    refine ⟨hperm.map _, ?_, List.Perm.refl _⟩
    simp only [initStateWhole]
    apply List.map_congr_left
    intro g _
    exact initUtil_perm (hperm.map _) g
  have h1 := h0.update (n := n)
  unfold runState preState at h h'
  rw [desperateSlots_eq_foldl _ _ ((Inv.init (n := n) hp).update).wf] at h
  rw [desperateSlots_eq_foldl _ _ ((Inv.init (n := n) hp').update).wf] at h'
  simp only at h h'
  have h2 : Sim
      ((desperateList n nG (updateBeenFilled n (initState nG ps)).slots).foldl chooseIfNew
        (updateBeenFilled n (initState nG ps)))
      ((desperateList n nG (updateBeenFilled n (initState nG ps')).slots).foldl chooseIfNew
        (updateBeenFilled n (initState nG ps'))) :=
    (Sim.foldNew h1).trans (Sim.foldNew_perm (desperateList_perm h1.slots).symm _)
  obtain ⟨r', hr', hs⟩ := Sim.loopOk (nG + 1) h2 h
  rw [hr'] at h'
  cases h'
  exact hs

/-! ### the desperate phase takes every marker of a desperate pair -/

theorem chosen_subset_chooseIfNew (st : St) (g x : Nat) (h : x ∈ st.chosen) :
    x ∈ (chooseIfNew st g).chosen := by
  unfold chooseIfNew
  split
  · exact h
  · simp [h]

theorem mem_chooseIfNew (st : St) (g : Nat) : g ∈ (chooseIfNew st g).chosen := by
  unfold chooseIfNew
  split
  · rename_i hc; simpa using hc
  · simp

theorem chosen_subset_foldl : ∀ (gs : List Nat) (st : St) (x : Nat), x ∈ st.chosen →
    x ∈ (gs.foldl chooseIfNew st).chosen := by
  intro gs
  induction gs with
  | nil => intro st x h; exact h
  | cons g gs ih => intro st x h; exact ih _ x (chosen_subset_chooseIfNew st g x h)

theorem mem_foldl_chooseIfNew : ∀ (gs : List Nat) (st : St) (x : Nat), x ∈ gs →
    x ∈ (gs.foldl chooseIfNew st).chosen := by
  intro gs
  induction gs with
  | nil => intro st x h; cases h
  | cons g gs ih =>
    intro st x h
    rcases List.mem_cons.mp h with rfl | h
    · exact chosen_subset_foldl gs _ x (mem_chooseIfNew st x)
    · exact ih _ x h

theorem preState_takes_desperate {n nG : Nat} {pairs : List Pair} {st : St}
    (hp : ∀ p ∈ pairs, PairWF nG p) (h : preState nG pairs n = .ok st) :
    ∀ p ∈ pairs, 0 < p.down.length + p.up.length → p.down.length + p.up.length ≤ n →
      ∀ g, g ∈ p.up ∨ g ∈ p.down → g ∈ st.chosen := by
  intro p hpm h0 hn g hg
  have hu : Inv n nG pairs (updateBeenFilled n (initState nG pairs)) := (Inv.init hp).update
  unfold preState at h
  rw [desperateSlots_eq_foldl _ _ hu.wf] at h
  simp only [Except.ok.injEq] at h
  subst h
  apply mem_foldl_chooseIfNew
  have hpm' := hpm
  rw [← hu.shape] at hpm'
  obtain ⟨s, hs, rfl⟩ := List.mem_map.mp hpm'
  simp only [desperateList, List.mem_flatMap, List.mem_filter]
  refine ⟨s, ⟨hs, ?_⟩, ?_⟩
  · unfold Slot.desperate Slot.censusDown Slot.censusUp
    rw [Bool.and_eq_true, decide_eq_true_eq, decide_eq_true_eq]
    exact ⟨h0, hn⟩
  · simp only [Slot.validGenes, List.mem_filter, List.mem_range, List.contains_eq_mem,
      Bool.or_eq_true, decide_eq_true_eq]
    have hw := hu.wf s hs
    refine ⟨?_, hg⟩
    rcases hg with hg | hg
    · exact hw.upLt g hg
    · exact hw.downLt g hg

/-- every pick of the main loop is greedy: the gene has the largest number of
unfilled slots among the genes not yet chosen -/
theorem pick_greedy {n nG : Nat} {pairs : List Pair} {st : St} {m : Int} {g : Nat}
    (h : Inv n nG pairs st) (hm : maxUtil st.util = some m) (hpos : ¬ m ≤ 0)
    (hl : legalPick st.util g = true) :
    g ∉ st.chosen ∧ 0 < specUtil st.slots g ∧
      ∀ g', g' < nG → g' ∉ st.chosen → specUtil st.slots g' ≤ specUtil st.slots g := by
  obtain ⟨hlt, hnc, _⟩ := pick_unchosen h hm hpos hl
  obtain ⟨ug, hug, hall⟩ := legalPick_spec hl
  have hu := h.util g hlt hnc
  rw [hug] at hu
  simp only [Option.some.injEq] at hu
  subst hu
  have hmem := (maxUtil_spec hm).1
  have := hall m hmem
  refine ⟨hnc, by omega, ?_⟩
  intro g' hg' hnc'
  have hu' := h.util g' hg' hnc'
  exact hall _ (List.mem_of_getElem? hu')

/-! ### file assignment -/

/-- invariant of the running maximum: `best = some (j, m)` with `j < i`,
`m = census[j]`, every earlier entry `≤ m`, every entry before `j` `< m` -/
theorem assignFileGo_spec (all : List Nat) : ∀ (cs : List Nat) (i : Nat) (best : Option (Nat × Nat))
    (f m : Nat), all.drop i = cs →
    (∀ j mj, best = some (j, mj) → j < i ∧ all[j]? = some mj ∧
      (∀ k, k < i → ∀ v, all[k]? = some v → v ≤ mj) ∧
      (∀ k, k < j → ∀ v, all[k]? = some v → v < mj)) →
    (best = none → i = 0) →
    assignFileGo cs i best = some (f, m) →
    all[f]? = some m ∧ (∀ (k v : Nat), all[k]? = some v → v ≤ m) ∧
      (∀ k, k < f → ∀ v, all[k]? = some v → v < m) := by
  intro cs
  induction cs with
  | nil =>
    intro i best f m hdrop hinv h0 h
    simp only [assignFileGo] at h
    subst h
    obtain ⟨hj, hget, hle, hlt⟩ := hinv f m rfl
    have hlen : all.length ≤ i := by
      have := congrArg List.length hdrop
      simp only [List.length_drop, List.length_nil] at this
      omega
    refine ⟨hget, ?_, hlt⟩
    intro k v hk
    have : k < all.length := by
      rcases Nat.lt_or_ge k all.length with h | h
      · exact h
      · rw [List.getElem?_eq_none h] at hk; cases hk
    exact hle k (by omega) v hk
  | cons c cs ih =>
    intro i best f m hdrop hinv h0 h
    have hci : all[i]? = some c := by
      have := congrArg (fun l => l[0]?) hdrop
      simpa [List.getElem?_drop] using this
    have hdrop' : all.drop (i + 1) = cs := by
      have := congrArg List.tail hdrop
      simpa [List.tail_drop] using this
    cases best with
    | none =>
      simp only [assignFileGo] at h
      have hi0 := h0 rfl
      subst hi0
      refine ih 1 (some (0, c)) f m hdrop' ?_ (by intro hh; cases hh) h
      intro j mj hb
      simp only [Option.some.injEq, Prod.mk.injEq] at hb
      obtain ⟨rfl, rfl⟩ := hb
      refine ⟨by omega, hci, ?_, ?_⟩
      · intro k hk v hv
        have : k = 0 := by omega
        subst this
        rw [hci] at hv; cases hv; exact Nat.le_refl _
      · intro k hk; omega
    | some jm =>
      obtain ⟨j, mj⟩ := jm
      obtain ⟨hj, hget, hle, hlt⟩ := hinv j mj rfl
      simp only [assignFileGo] at h
      split at h
      · rename_i hlt'
        refine ih (i + 1) (some (i, c)) f m hdrop' ?_ (by intro hh; cases hh) h
        intro j' mj' hb
        simp only [Option.some.injEq, Prod.mk.injEq] at hb
        obtain ⟨rfl, rfl⟩ := hb
        refine ⟨by omega, hci, ?_, ?_⟩
        · intro k hk v hv
          rcases Nat.lt_or_ge k i with hk' | hk'
          · have := hle k hk' v hv; omega
          · have : k = i := by omega
            subst this
            rw [hci] at hv; cases hv; exact Nat.le_refl _
        · intro k hk v hv
          have := hle k hk v hv; omega
      · rename_i hnlt
        refine ih (i + 1) (some (j, mj)) f m hdrop' ?_ (by intro hh; cases hh) h
        intro j' mj' hb
        simp only [Option.some.injEq, Prod.mk.injEq] at hb
        obtain ⟨rfl, rfl⟩ := hb
        refine ⟨by omega, hget, ?_, hlt⟩
        intro k hk v hv
        rcases Nat.lt_or_ge k i with hk' | hk'
        · exact hle k hk' v hv
        · have : k = i := by omega
          subst this
          rw [hci] at hv; cases hv; omega

theorem assignFile_spec {census : List Nat} {f : Nat} (h : assignFile census = some f) :
    ∃ m, census[f]? = some m ∧ (∀ (k v : Nat), census[k]? = some v → v ≤ m) ∧
      (∀ k, k < f → ∀ v, census[k]? = some v → v < m) := by
  unfold assignFile at h
  cases hg : assignFileGo census 0 none with
  | none => rw [hg] at h; cases h
  | some fm =>
    obtain ⟨f', m⟩ := fm
    rw [hg] at h
    simp only [Option.map_some, Option.some.injEq] at h
    subst h
    exact ⟨m, assignFileGo_spec census census 0 none f' m (by simp)
      (by intro j mj hh; cases hh) (fun _ => rfl) hg⟩

end CTM.Selection
