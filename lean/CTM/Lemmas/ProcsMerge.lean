/-
  Helper lemmas for C04 (merging worker results) over CTM/Model/Procs.lean.
-/
import CTM.Model.Procs

namespace CTM.Procs

/-! ### association lists with distinct keys -/

theorem lookup_of_mem {ν} {l : List (Nat × ν)} (hn : (l.map (·.1)).Nodup) {k : Nat} {v : ν}
    (h : (k, v) ∈ l) : l.lookup k = some v := by
  induction l with
  | nil => cases h
  | cons e r ih =>
    obtain ⟨k', v'⟩ := e
    simp only [List.map_cons, List.nodup_cons] at hn
    simp only [List.mem_cons] at h
    rcases h with h | h
    · cases h
      simp [List.lookup]
    · have hne : k ≠ k' := by
        intro hc
        subst hc
        exact hn.1 (List.mem_map.mpr ⟨(k, v), h, rfl⟩)
      have : (k == k') = false := by simpa using hne
      simp [List.lookup, this, ih hn.2 h]

theorem lookup_none_of_not_mem {ν} {l : List (Nat × ν)} {k : Nat}
    (h : k ∉ l.map (·.1)) : l.lookup k = none := by
  induction l with
  | nil => rfl
  | cons e r ih =>
    obtain ⟨k', v'⟩ := e
    simp only [List.map_cons, List.mem_cons, not_or] at h
    have : (k == k') = false := by simpa using h.1
    simp [List.lookup, this, ih h.2]

/-- looking a key up in a list with distinct keys does not depend on the order
of the list -/
theorem lookup_perm {ν} {l₁ l₂ : List (Nat × ν)} (hp : l₁.Perm l₂)
    (hn : (l₁.map (·.1)).Nodup) (k : Nat) : l₁.lookup k = l₂.lookup k := by
  have hn₂ : (l₂.map (·.1)).Nodup := (hp.map _).nodup hn
  by_cases hk : k ∈ l₁.map (·.1)
  · obtain ⟨e, he, rfl⟩ := List.mem_map.mp hk
    rw [lookup_of_mem hn (v := e.2) he, lookup_of_mem hn₂ (v := e.2) (hp.subset he)]
  · have hk₂ : k ∉ l₂.map (·.1) := fun h => hk ((hp.map _).symm.subset h)
    rw [lookup_none_of_not_mem hk, lookup_none_of_not_mem hk₂]

theorem dictSet_fresh {ν} (d : List (Nat × ν)) (k : Nat) (v : ν) (h : k ∉ d.map (·.1)) :
    dictSet d k v = d ++ [(k, v)] := by
  have : d.any (fun e => e.1 == k) = false := by
    rw [List.any_eq_false]
    intro e he hc
    exact h (List.mem_map.mpr ⟨e, he, by simpa using hc⟩)
  simp [dictSet, this]

theorem foldl_dictSet_nodup {ν} (items acc : List (Nat × ν))
    (hn : ((acc ++ items).map (·.1)).Nodup) :
    items.foldl (fun d e => dictSet d e.1 e.2) acc = acc ++ items := by
  induction items generalizing acc with
  | nil => simp
  | cons e r ih =>
    have hfresh : e.1 ∉ acc.map (·.1) := by
      intro hc
      simp only [List.map_append, List.map_cons] at hn
      have := (List.nodup_append.mp hn).2.2 _ hc e.1 (by simp)
      exact this rfl
    simp only [List.foldl_cons]
    rw [dictSet_fresh _ _ _ hfresh, ih]
    · simp
    · simpa using hn

/-- a dict built from records with distinct keys is those records, in order -/
theorem dictOfList_nodup {ν} (items : List (Nat × ν)) (hn : (items.map (·.1)).Nodup) :
    dictOfList items = items := by
  have := foldl_dictSet_nodup items [] (by simpa using hn)
  simpa [dictOfList] using this

/-- what is read from the store under a key does not depend on the order in
which the workers filled it -/
theorem dictGet_perm {ν} {d₁ d₂ : List (Nat × ν)} (hp : d₁.Perm d₂)
    (hn : (d₁.map (·.1)).Nodup) (k : Nat) :
    dictGet (dictOfList d₁) k = dictGet (dictOfList d₂) k := by
  have hn₂ : (d₂.map (·.1)).Nodup := (hp.map _).nodup hn
  rw [dictOfList_nodup _ hn, dictOfList_nodup _ hn₂]
  exact lookup_perm hp hn k

/-! ### `collect` keeps the requested order -/

theorem collect_map_fst {ν} (order : List Nat) (f : Nat → Option ν) (r : List (Nat × ν))
    (h : collect (order.map (fun c => (f c).map (fun v => (c, v)))) = some r) :
    r.map (·.1) = order := by
  induction order generalizing r with
  | nil =>
    simp only [List.map_nil, collect, Option.some.injEq] at h
    subst h; rfl
  | cons c cs ih =>
    simp only [List.map_cons] at h
    cases hf : f c with
    | none => simp [hf, collect] at h
    | some v =>
      simp only [hf, Option.map_some, collect] at h
      cases hc : collect (cs.map (fun c => (f c).map (fun v => (c, v)))) with
      | none => simp [hc] at h
      | some r' =>
        simp only [hc, Option.map_some, Option.some.injEq] at h
        subst h
        simp [ih r' hc]

/-! ### sorting keys -/

theorem insertKey_perm (k : Nat) (l : List Nat) : (insertKey k l).Perm (k :: l) := by
  induction l with
  | nil => exact List.Perm.refl _
  | cons x r ih =>
    simp only [insertKey]
    by_cases h : k ≤ x
    · simp [h]
    · simp only [h, if_false]
      exact (List.Perm.cons x ih).trans (List.Perm.swap k x r)

theorem insertKey_sorted (k : Nat) (l : List Nat) (h : l.Pairwise (· ≤ ·)) :
    (insertKey k l).Pairwise (· ≤ ·) := by
  induction l with
  | nil => simp [insertKey]
  | cons x r ih =>
    simp only [insertKey]
    have hx := List.pairwise_cons.mp h
    by_cases hk : k ≤ x
    · simp only [hk, if_true]
      refine List.pairwise_cons.mpr ⟨?_, h⟩
      intro y hy
      simp only [List.mem_cons] at hy
      rcases hy with rfl | hy
      · exact hk
      · exact Nat.le_trans hk (hx.1 y hy)
    · simp only [hk, if_false]
      refine List.pairwise_cons.mpr ⟨?_, ih hx.2⟩
      intro y hy
      have := (insertKey_perm k r).subset hy
      simp only [List.mem_cons] at this
      rcases this with rfl | hy'
      · omega
      · exact hx.1 y hy'

theorem sortKeys_perm_self (l : List Nat) : (sortKeys l).Perm l := by
  induction l with
  | nil => exact List.Perm.refl _
  | cons x r ih =>
    simp only [sortKeys, List.foldr_cons]
    exact (insertKey_perm x _).trans (List.Perm.cons x ih)

theorem sortKeys_sorted (l : List Nat) : (sortKeys l).Pairwise (· ≤ ·) := by
  induction l with
  | nil => simp [sortKeys]
  | cons x r ih =>
    simp only [sortKeys, List.foldr_cons]
    exact insertKey_sorted x _ ih

theorem sortKeys_perm {l₁ l₂ : List Nat} (hp : l₁.Perm l₂) : sortKeys l₁ = sortKeys l₂ := by
  apply List.Perm.eq_of_pairwise (le := fun a b => a ≤ b)
  · intro a b _ _ h1 h2
    omega
  · exact sortKeys_sorted l₁
  · exact sortKeys_sorted l₂
  · exact (sortKeys_perm_self l₁).trans (hp.trans (sortKeys_perm_self l₂).symm)

theorem sortKeys_of_sorted {l : List Nat} (h : l.Pairwise (· ≤ ·)) : sortKeys l = l := by
  apply List.Perm.eq_of_pairwise (le := fun a b => a ≤ b)
  · intro a b _ _ h1 h2
    omega
  · exact sortKeys_sorted l
  · exact h
  · exact sortKeys_perm_self l

/-! ### reading back in a fixed order -/

theorem collect_map_some {α β} (l : List α) (f : α → β) :
    collect (l.map (fun a => some (f a))) = some (l.map f) := by
  induction l with
  | nil => rfl
  | cons a r ih => simp [collect, ih]

/-- reading the paths of a creation-order job list back from the job list
itself gives the jobs' payloads in creation order -/
theorem collect_lookup_self {ν} (jobs : List (Nat × ν)) (hn : (jobs.map (·.1)).Nodup) :
    collect ((jobs.map (·.1)).map (dictGet jobs)) = some (jobs.map (·.2)) := by
  have : (jobs.map (·.1)).map (dictGet jobs) = jobs.map (fun e => some e.2) := by
    rw [List.map_map]
    apply List.map_congr_left
    intro e he
    simp only [Function.comp, dictGet]
    exact lookup_of_mem hn (k := e.1) (v := e.2) he
  rw [this]
  exact collect_map_some jobs (·.2)

/-! ### seeds are handed out at dispatch -/

/-- worker `k` was seeded with draw `k` of the parent generator, for every
worker started so far -/
def SeedInv (s : St) : Prop :=
  s.draws = s.started ∧ s.seeds = (List.range s.started).map (fun k => (k, k))

def seededBody : List LoopStmt := [.draw, .start true, .pollWhileFull]

theorem seededBody_inv (kind : Container) (env : Env) (s : St) (h : SeedInv s) :
    SeedInv (execBody kind env seededBody s).state := by
  obtain ⟨h1, h2⟩ := h
  simp only [seededBody, execBody, execLoopStmt, if_true]
  cases hw : waitBelow kind env.exit env.nProc
      (register kind s.procs (env.keyOf s.started) s.started) s.sched with
  | done p sc =>
    simp only [Res.state, SeedInv]
    exact ⟨by omega, by rw [h2, h1, List.range_succ]; simp⟩
  | failed c =>
    simp only [Res.state, SeedInv]
    exact ⟨by omega, by rw [h2, h1, List.range_succ]; simp⟩
  | spin =>
    simp only [Res.state, SeedInv]
    exact ⟨by omega, by rw [h2, h1, List.range_succ]; simp⟩

theorem seededDispatch_inv (kind : Container) (env : Env) (n : Nat) (s : St) (h : SeedInv s) :
    SeedInv (execDispatch kind env seededBody n s).state := by
  induction n generalizing s with
  | zero => exact h
  | succ n ih =>
    simp only [execDispatch]
    have hb := seededBody_inv kind env s h
    cases h1 : execBody kind env seededBody s with
    | ok s1 => rw [h1] at hb; exact ih s1 hb
    | failed c s1 => rw [h1] at hb; exact hb
    | spin s1 => rw [h1] at hb; exact hb

theorem seededProg_inv (kind : Container) (env : Env) (sched : List Poll) :
    SeedInv (exec kind env [.dispatch seededBody, .drain] { sched := sched }).state := by
  have h0 : SeedInv ({ sched := sched } : St) := ⟨rfl, rfl⟩
  simp only [exec, execStmt]
  have hd := seededDispatch_inv kind env env.nItems _ h0
  cases h1 : execDispatch kind env seededBody env.nItems { sched := sched } with
  | ok s1 =>
    rw [h1] at hd
    simp only [Res.state] at hd
    simp only
    cases waitBelow kind env.exit 1 s1.procs s1.sched <;> exact hd
  | failed c s1 => rw [h1] at hd; exact hd
  | spin s1 => rw [h1] at hd; exact hd

theorem dispatchSeeds_getElem? {σ} (cs : List (Nat × Nat)) (draws : Nat → σ) (k : Nat) :
    (dispatchSeeds cs draws)[k]? = cs[k]?.map (fun c => (c, draws k)) := by
  simp only [dispatchSeeds, List.getElem?_map, List.getElem?_zipIdx]
  cases cs[k]? <;> simp

/-! ### chunking -/

/-- as long as `chunk_size` fits into `ceil(n_rows / n_processors)` the
number of processes does not enter the chunk size -/
theorem effChunk_eq_chunkSize {nRows nProc chunkSize : Nat} (hp : 0 < nProc)
    (h : chunkSize * nProc ≤ nRows + nProc - 1) : effChunk nRows nProc chunkSize = chunkSize := by
  unfold effChunk
  have : chunkSize ≤ (nRows + nProc - 1) / nProc := (Nat.le_div_iff_mul_le hp).mpr h
  omega

/-! ### the enumerated completion orders are permutations -/

theorem insertEverywhere_perm {α} (x : α) (l : List α) :
    ∀ o ∈ insertEverywhere x l, o.Perm (x :: l) := by
  induction l with
  | nil =>
    intro o ho
    simp only [insertEverywhere, List.mem_singleton] at ho
    subst ho
    exact List.Perm.refl _
  | cons y r ih =>
    intro o ho
    simp only [insertEverywhere, List.mem_cons, List.mem_map] at ho
    rcases ho with rfl | ⟨o', ho', rfl⟩
    · exact List.Perm.refl _
    · exact (List.Perm.cons y (ih o' ho')).trans (List.Perm.swap x y r)

theorem permutations_perm {α} (l : List α) : ∀ o ∈ permutations l, o.Perm l := by
  induction l with
  | nil =>
    intro o ho
    simp only [permutations, List.mem_singleton] at ho
    subst ho
    exact List.Perm.refl _
  | cons x r ih =>
    intro o ho
    simp only [permutations, List.mem_flatMap] at ho
    obtain ⟨o', ho', hins⟩ := ho
    exact (insertEverywhere_perm x o' o hins).trans (List.Perm.cons x (ih o' ho'))

theorem completionOrders_perm (nWorkers nProc : Nat) :
    ∀ o ∈ completionOrders nWorkers nProc, o.Perm (List.range nWorkers) := by
  intro o ho
  simp only [completionOrders, List.mem_filter] at ho
  exact permutations_perm _ o ho.1

theorem filterMap_congr' {α β} {f g : α → Option β} {l : List α} (h : ∀ a ∈ l, f a = g a) :
    l.filterMap f = l.filterMap g := by
  induction l with
  | nil => rfl
  | cons a r ih =>
    have ha := h a (by simp)
    have hr := ih (fun b hb => h b (List.mem_cons_of_mem _ hb))
    simp only [List.filterMap_cons, ha, hr]

theorem filterMap_range_getElem? {ρ} (results : List ρ) :
    (List.range results.length).filterMap (fun w => results[w]?) = results := by
  have key : ∀ r : List ρ,
      (List.range r.reverse.length).filterMap (fun w => r.reverse[w]?) = r.reverse := by
    intro r
    induction r with
    | nil => simp
    | cons x r ih =>
      rw [List.reverse_cons, List.length_append, List.length_singleton, List.range_succ,
        List.filterMap_append]
      have h1 : (List.range r.reverse.length).filterMap (fun w => (r.reverse ++ [x])[w]?)
          = (List.range r.reverse.length).filterMap (fun w => r.reverse[w]?) := by
        apply filterMap_congr'
        intro w hw
        rw [List.getElem?_append_left (List.mem_range.mp hw)]
      rw [h1, ih]
      simp
  have := key results.reverse
  simpa using this

theorem gather_perm {ρ} (results : List ρ) (completion : List Nat)
    (h : completion.Perm (List.range results.length)) : (gather results completion).Perm results := by
  unfold gather
  have h1 := h.filterMap (fun w => results[w]?)
  rw [filterMap_range_getElem?] at h1
  exact h1

end CTM.Procs
