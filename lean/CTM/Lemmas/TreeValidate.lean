import CTM.Lemmas.TreeDefs
namespace CTM.RawTree

theorem hasDup_false_iff_nodup (xs : List Nat) : hasDup xs = false ↔ xs.Nodup := by
  induction xs with
  | nil => simp [hasDup]
  | cons x xs ih => simp [hasDup, ih, List.nodup_cons]

/-! ### soundness -/

theorem checkChildren_sound {childSet : List Node} {cl : Level} {p : Node} :
    ∀ (cs : List Node) (acc acc' : C2P), checkChildren childSet cl p cs acc = .ok acc' →
      (∀ k v, acc.lookup k = some v → acc'.lookup k = some v) ∧
      ∀ c, c ∈ cs → c ∈ childSet ∧ acc'.lookup (cl, c) = some p := by
  intro cs
  induction cs with
  | nil =>
    intro acc acc' h
    simp only [checkChildren, Except.ok.injEq] at h
    subst h
    exact ⟨fun _ _ h => h, fun c hc => by cases hc⟩
  | cons c cs ih =>
    intro acc acc' h
    simp only [checkChildren] at h
    split at h
    · cases h
    · rename_i hc
      have hc : c ∈ childSet := by simpa using hc
      split at h
      · rename_i p' hl
        split at h
        · cases h
        · rename_i hpp
          have hpp : p' = p := by simpa using hpp
          subst hpp
          obtain ⟨hext, hall⟩ := ih acc acc' h
          refine ⟨hext, ?_⟩
          intro c' hc'
          rcases List.mem_cons.1 hc' with rfl | hc'
          · exact ⟨hc, hext _ _ hl⟩
          · exact hall c' hc'
      · rename_i hl
        obtain ⟨hext, hall⟩ := ih _ acc' h
        have hnew : acc'.lookup (cl, c) = some p := by
          apply hext
          simp [List.lookup]
        have hext' : ∀ k v, acc.lookup k = some v → acc'.lookup k = some v := by
          intro k v hk
          apply hext
          have hne : (k == (cl, c)) = false := by
            apply beq_false_of_ne
            rintro rfl
            rw [hl] at hk
            cases hk
          simp only [List.lookup, hne]
          exact hk
        refine ⟨hext', ?_⟩
        intro c' hc'
        rcases List.mem_cons.1 hc' with rfl | hc'
        · exact ⟨hc, hnew⟩
        · exact hall c' hc'

theorem checkParents_sound {childSet : List Node} {cl : Level} :
    ∀ (lm : LevelMap) (acc acc' : C2P), checkParents childSet cl lm acc = .ok acc' →
      (∀ k v, acc.lookup k = some v → acc'.lookup k = some v) ∧
      ∀ p cs, (p, cs) ∈ lm → ∀ c, c ∈ cs → c ∈ childSet ∧ acc'.lookup (cl, c) = some p := by
  intro lm
  induction lm with
  | nil =>
    intro acc acc' h
    simp only [checkParents, Except.ok.injEq] at h
    subst h
    exact ⟨fun _ _ h => h, fun p cs hm => by cases hm⟩
  | cons e rest ih =>
    obtain ⟨p, cs⟩ := e
    intro acc acc' h
    simp only [checkParents] at h
    split at h
    · cases h
    · rename_i acc1 h1
      obtain ⟨hext1, hall1⟩ := checkChildren_sound cs acc acc1 h1
      obtain ⟨hext2, hall2⟩ := ih acc1 acc' h
      refine ⟨fun k v hk => hext2 _ _ (hext1 _ _ hk), ?_⟩
      intro p' cs' hm c hc
      rcases List.mem_cons.1 hm with heq | hm
      · cases heq
        exact ⟨(hall1 c hc).1, hext2 _ _ (hall1 c hc).2⟩
      · exact hall2 p' cs' hm c hc

/-- the three per-pair facts of `Strict` -/
def PairOK (t : RawTree) (pl cl : Level) : Prop :=
  (∀ p cs, (p, cs) ∈ t.level pl → ∀ c, c ∈ cs → c ∈ t.nodesAt cl) ∧
  (∀ c, c ∈ t.nodesAt cl → ∃ p cs, (p, cs) ∈ t.level pl ∧ c ∈ cs) ∧
  (∀ p₁ cs₁ p₂ cs₂, (p₁, cs₁) ∈ t.level pl → (p₂, cs₂) ∈ t.level pl →
    ∀ c, c ∈ cs₁ → c ∈ cs₂ → p₁ = p₂)

theorem orphan_false_iff {t : RawTree} {pl cl : Level} :
    ((t.nodesAt cl).any (fun c => !(((t.level pl).flatMap (·.2)).contains c))) = false ↔
      ∀ c, c ∈ t.nodesAt cl → ∃ p cs, (p, cs) ∈ t.level pl ∧ c ∈ cs := by
  simp only [List.any_eq_false, Bool.not_eq_true, Bool.not_eq_false', List.contains_iff_mem,
    List.mem_flatMap, Prod.exists]

theorem checkLevelPair_sound {t : RawTree} {pl cl : Level} {acc acc' : C2P}
    (h : checkLevelPair t pl cl acc = .ok acc') : PairOK t pl cl := by
  simp only [checkLevelPair] at h
  split at h
  · cases h
  · rename_i ho
    have ho := orphan_false_iff.1 (by simpa using ho)
    obtain ⟨_, hall⟩ := checkParents_sound _ _ _ h
    refine ⟨fun p cs hm c hc => (hall p cs hm c hc).1, ho, ?_⟩
    intro p₁ cs₁ p₂ cs₂ h₁ h₂ c hc₁ hc₂
    have e₁ := (hall p₁ cs₁ h₁ c hc₁).2
    have e₂ := (hall p₂ cs₂ h₂ c hc₂).2
    rw [e₁] at e₂
    exact Option.some.inj e₂

theorem checkLevelPairs_sound {t : RawTree} :
    ∀ (ps : List (Level × Level)) (acc acc' : C2P), checkLevelPairs t ps acc = .ok acc' →
      ∀ pl cl, (pl, cl) ∈ ps → PairOK t pl cl := by
  intro ps
  induction ps with
  | nil => intro acc acc' _ pl cl hm; cases hm
  | cons e rest ih =>
    obtain ⟨pl0, cl0⟩ := e
    intro acc acc' h pl cl hm
    simp only [checkLevelPairs] at h
    split at h
    · cases h
    · rename_i acc1 h1
      rcases List.mem_cons.1 hm with heq | hm
      · cases heq
        exact checkLevelPair_sound h1
      · exact ih acc1 acc' h pl cl hm

theorem keysMatch_iff {t : RawTree} :
    t.keysMatch = true ↔
      (∀ k, k ∈ t.levels.map (·.1) → k ∈ t.hierarchy) ∧
      (∀ k, k ∈ t.hierarchy → k ∈ t.levels.map (·.1)) := by
  simp only [keysMatch, Bool.and_eq_true, List.all_eq_true, List.contains_iff_mem]

theorem repeatsChild_false_iff {t : RawTree} :
    t.repeatsChild = false ↔
      ∀ pl cl, (pl, cl) ∈ levelPairs t.hierarchy → ∀ p cs, (p, cs) ∈ t.level pl → cs.Nodup := by
  simp only [repeatsChild, List.any_eq_false, List.any_eq_true, Prod.forall, Prod.exists,
    not_exists, not_and, Bool.not_eq_true, hasDup_false_iff_nodup]

theorem childListErr_none_iff (cs : List Node) : childListErr cs = none ↔ cs ≠ [] ∧ cs.Nodup := by
  unfold childListErr
  cases cs with
  | nil => simp
  | cons c cs =>
    simp only [List.isEmpty_cons, Bool.false_eq_true, if_false, ne_eq, reduceCtorEq,
      not_false_eq_true, true_and]
    cases h : hasDup (c :: cs) with
    | true => simp [(hasDup_false_iff_nodup _).symm, h]
    | false => simp [(hasDup_false_iff_nodup _).1 h]

theorem firstChildListErr_none_iff {t : RawTree} :
    t.firstChildListErr = none ↔
      ∀ pl cl, (pl, cl) ∈ levelPairs t.hierarchy → ∀ p cs, (p, cs) ∈ t.level pl →
        cs ≠ [] ∧ cs.Nodup := by
  unfold firstChildListErr
  rw [List.findSome?_eq_none_iff]
  simp only [List.mem_flatMap, List.mem_map, Prod.exists, forall_exists_index, and_imp,
    childListErr_none_iff]
  constructor
  · intro h pl cl hm p cs hp
    exact h cs pl cl hm p cs hp rfl
  · intro h cs pl cl hm p cs' hp he
    subst he
    exact h pl cl hm p cs' hp

theorem topLevelEmpty_false_iff {t : RawTree} :
    t.topLevelEmpty = false ↔ ∃ l0, t.hierarchy.head? = some l0 ∧ t.nodesAt l0 ≠ [] := by
  unfold topLevelEmpty nodesAt
  cases h : t.hierarchy.head? with
  | none => simp
  | some l0 =>
    cases hl : t.level l0 with
    | nil => simp
    | cons a m => simp

/-- what `validateWith true` tests, one conjunct per `if` -/
theorem validate_ok_iff_checks {t : RawTree} :
    t.validate = .ok () ↔
      t.hasHierarchy = true ∧ hasDup t.hierarchy = false ∧ t.keysMatch = true ∧
      t.nodesAreStr = true ∧ t.topLevelEmpty = false ∧
      (∃ acc, checkLevelPairs t (levelPairs t.hierarchy) [] = .ok acc) ∧
      t.firstChildListErr = none ∧ t.hierarchy ≠ [] ∧ hasDup t.allRows = false := by
  have hl : t.leafLevel = none ↔ t.hierarchy = [] := by simp [leafLevel]
  unfold validate validateWith
  cases hll : t.leafLevel with
  | none =>
    have := hl.1 hll
    cases t.hasHierarchy <;> cases hasDup t.hierarchy <;> cases t.keysMatch <;>
      cases t.nodesAreStr <;> cases t.topLevelEmpty <;>
      cases checkLevelPairs t (levelPairs t.hierarchy) [] <;>
      cases t.firstChildListErr <;> simp [this]
  | some l =>
    have : t.hierarchy ≠ [] := fun h => by rw [hl.2 h] at hll; cases hll
    cases t.hasHierarchy <;> cases hasDup t.hierarchy <;> cases t.keysMatch <;>
      cases t.nodesAreStr <;> cases t.topLevelEmpty <;>
      cases checkLevelPairs t (levelPairs t.hierarchy) [] <;>
      cases t.firstChildListErr <;> cases hasDup t.allRows <;> simp [this]

/-- soundness: everything the validator accepts is a strict tree -/
theorem strict_of_validate {t : RawTree} (h : t.validate = .ok ()) : Strict t := by
  obtain ⟨hh, _, hk, hs, _, ⟨acc, hc⟩, hr, _, hd⟩ := validate_ok_iff_checks.1 h
  have hk := keysMatch_iff.1 hk
  have hp := checkLevelPairs_sound _ _ _ hc
  exact
    { hasH := hh
      keysSub := hk.1
      hierSub := hk.2
      str := hs
      childExists := fun pl cl hm => (hp pl cl hm).1
      hasParent := fun pl cl hm => (hp pl cl hm).2.1
      oneParent := fun pl cl hm => (hp pl cl hm).2.2
      childNe := fun pl cl hm p cs hp => (firstChildListErr_none_iff.1 hr pl cl hm p cs hp).1
      childNodup := fun pl cl hm p cs hp => (firstChildListErr_none_iff.1 hr pl cl hm p cs hp).2
      rowsNodup := (hasDup_false_iff_nodup _).1 hd }

/-- an accepted tree has at least one level (`hierarchy[-1]` is evaluated) -/
theorem hierarchy_ne_nil_of_validate {t : RawTree} (h : t.validate = .ok ()) :
    t.hierarchy ≠ [] :=
  (validate_ok_iff_checks.1 h).2.2.2.2.2.2.2.1

/-- an accepted tree lists no level twice (`fix:` 799c7a6): `hierarchy.Nodup` is
a consequence of acceptance -/
theorem hierarchy_nodup_of_validate {t : RawTree} (h : t.validate = .ok ()) :
    t.hierarchy.Nodup :=
  (hasDup_false_iff_nodup _).1 (validate_ok_iff_checks.1 h).2.1

/-- an accepted tree has a node at its top level (`fix:` 6649211).  The
conclusion is literally `Bridge.HasNode t`. -/
theorem hasNode_of_validate {t : RawTree} (h : t.validate = .ok ()) :
    ∀ l0, t.hierarchy.head? = some l0 → t.nodesAt l0 ≠ [] := by
  obtain ⟨l0, h0, hne⟩ := topLevelEmpty_false_iff.1 (validate_ok_iff_checks.1 h).2.2.2.2.1
  intro l hl
  rw [h0] at hl
  cases hl
  exact hne

theorem exists_top_node_of_validate {t : RawTree} (h : t.validate = .ok ()) :
    ∃ l0 n, t.hierarchy.head? = some l0 ∧ n ∈ t.nodesAt l0 := by
  obtain ⟨l0, h0, hne⟩ := topLevelEmpty_false_iff.1 (validate_ok_iff_checks.1 h).2.2.2.2.1
  cases hn : t.nodesAt l0 with
  | nil => exact absurd hn hne
  | cons n ns => exact ⟨l0, n, h0, by rw [hn]; exact List.mem_cons_self⟩

theorem rejects_dup_level {t : RawTree} (h : ¬ t.hierarchy.Nodup) : ∃ e, t.validate = .error e := by
  cases hv : t.validate with
  | error e => exact ⟨e, rfl⟩
  | ok u => cases u; exact absurd (hierarchy_nodup_of_validate hv) h

theorem rejects_no_nodes {t : RawTree} {l0 : Level} (h0 : t.hierarchy.head? = some l0)
    (h : t.nodesAt l0 = []) : ∃ e, t.validate = .error e := by
  cases hv : t.validate with
  | error e => exact ⟨e, rfl⟩
  | ok u => cases u; exact absurd h (hasNode_of_validate hv l0 h0)

theorem rejects_empty_hierarchy {t : RawTree} (h : t.hierarchy = []) :
    ∃ e, t.validate = .error e := by
  cases hv : t.validate with
  | error e => exact ⟨e, rfl⟩
  | ok u => cases u; exact absurd h (hierarchy_ne_nil_of_validate hv)

theorem validate_error_of_not_strict {t : RawTree} (h : ¬ Strict t) :
    ∃ e, t.validate = .error e := by
  cases hv : t.validate with
  | error e => exact ⟨e, rfl⟩
  | ok u => cases u; exact absurd (strict_of_validate hv) h

theorem rejects_no_hierarchy {t : RawTree} (h : t.hasHierarchy = false) :
    t.validate = .error .noHierarchy := by
  simp [validate, validateWith, h]

theorem rejects_bad_keys {t : RawTree} (hh : t.hasHierarchy = true) (hn : t.hierarchy.Nodup)
    (hk : t.keysMatch = false) : t.validate = .error .badKeys := by
  simp [validate, validateWith, hh, hk, (hasDup_false_iff_nodup _).2 hn]

theorem rejects_stray_key {t : RawTree} (hh : t.hasHierarchy = true) (hn : t.hierarchy.Nodup)
    {k : Level}
    (hk : k ∈ t.levels.map (·.1)) (hnot : k ∉ t.hierarchy) : t.validate = .error .badKeys := by
  apply rejects_bad_keys hh hn
  cases hkm : t.keysMatch with
  | false => rfl
  | true => exact absurd ((keysMatch_iff.1 hkm).1 k hk) hnot

theorem rejects_ghost_level {t : RawTree} (hh : t.hasHierarchy = true) (hn : t.hierarchy.Nodup)
    {k : Level}
    (hk : k ∈ t.hierarchy) (hnot : k ∉ t.levels.map (·.1)) : t.validate = .error .badKeys := by
  apply rejects_bad_keys hh hn
  cases hkm : t.keysMatch with
  | false => rfl
  | true => exact absurd ((keysMatch_iff.1 hkm).2 k hk) hnot

theorem rejects_non_str_node {t : RawTree} (hh : t.hasHierarchy = true) (hn : t.hierarchy.Nodup)
    (hk : t.keysMatch = true)
    (h : t.nodesAreStr = false) : t.validate = .error .nonStrNode := by
  simp [validate, validateWith, hh, hk, h, (hasDup_false_iff_nodup _).2 hn]

theorem rejects_dup_level_exact {t : RawTree} (hh : t.hasHierarchy = true)
    (h : ¬ t.hierarchy.Nodup) : t.validate = .error .dupLevel := by
  have : hasDup t.hierarchy = true := by
    cases hd : hasDup t.hierarchy with
    | true => rfl
    | false => exact absurd ((hasDup_false_iff_nodup _).1 hd) h
  simp [validate, validateWith, hh, this]

/-! ### completeness -/

theorem levelPairs_snd_nodup {h : List Level} (hn : h.Nodup) :
    ((levelPairs h).map (·.2)).Nodup := by
  have : (levelPairs h).map Prod.snd = h.tail :=
    List.map_snd_zip (by simp)
  show ((levelPairs h).map Prod.snd).Nodup
  rw [this]
  exact hn.sublist (List.tail_sublist h)

theorem checkChildren_complete {childSet : List Node} {cl : Level} {p : Node} :
    ∀ (cs : List Node) (acc : C2P), (∀ c, c ∈ cs → c ∈ childSet) →
      (∀ c, c ∈ cs → ∀ p', acc.lookup (cl, c) = some p' → p' = p) →
      ∃ acc', checkChildren childSet cl p cs acc = .ok acc' ∧
        ∀ k v, acc'.lookup k = some v →
          acc.lookup k = some v ∨ (k.1 = cl ∧ k.2 ∈ cs ∧ v = p) := by
  intro cs
  induction cs with
  | nil =>
    intro acc _ _
    exact ⟨acc, by simp [checkChildren], fun k v h => Or.inl h⟩
  | cons c cs ih =>
    intro acc hsub hacc
    have hc : childSet.contains c = true := by
      simpa using hsub c List.mem_cons_self
    simp only [checkChildren, hc, Bool.not_true, Bool.false_eq_true, if_false]
    cases hl : acc.lookup (cl, c) with
    | some p' =>
      have hp : p' = p := hacc c List.mem_cons_self p' hl
      subst hp
      simp only [bne_self_eq_false, Bool.false_eq_true, if_false]
      obtain ⟨acc', hok, hkeys⟩ := ih acc (fun c' hc' => hsub c' (List.mem_cons_of_mem _ hc'))
        (fun c' hc' => hacc c' (List.mem_cons_of_mem _ hc'))
      refine ⟨acc', hok, ?_⟩
      intro k v hk
      rcases hkeys k v hk with h | ⟨h1, h2, h3⟩
      · exact Or.inl h
      · exact Or.inr ⟨h1, List.mem_cons_of_mem _ h2, h3⟩
    | none =>
      simp only
      have hacc' : ∀ c', c' ∈ cs → ∀ p', (((cl, c), p) :: acc).lookup (cl, c') = some p' → p' = p := by
        intro c' hc' p' hlk
        by_cases hcc : ((cl, c') == (cl, c)) = true
        · simp only [List.lookup, hcc] at hlk
          exact (Option.some.inj hlk).symm
        · have hcc : ((cl, c') == (cl, c)) = false := by simpa using hcc
          simp only [List.lookup, hcc] at hlk
          exact hacc c' (List.mem_cons_of_mem _ hc') p' hlk
      obtain ⟨acc', hok, hkeys⟩ := ih _ (fun c' hc' => hsub c' (List.mem_cons_of_mem _ hc')) hacc'
      refine ⟨acc', hok, ?_⟩
      intro k v hk
      rcases hkeys k v hk with h | ⟨h1, h2, h3⟩
      · by_cases hkc : (k == (cl, c)) = true
        · simp only [List.lookup, hkc] at h
          have hkeq : k = (cl, c) := eq_of_beq hkc
          subst hkeq
          exact Or.inr ⟨rfl, List.mem_cons_self, (Option.some.inj h).symm⟩
        · have hkc : (k == (cl, c)) = false := by simpa using hkc
          simp only [List.lookup, hkc] at h
          exact Or.inl h
      · exact Or.inr ⟨h1, List.mem_cons_of_mem _ h2, h3⟩

theorem checkParents_complete {childSet : List Node} {cl : Level} :
    ∀ (lm : LevelMap) (acc : C2P),
      (∀ p cs, (p, cs) ∈ lm → ∀ c, c ∈ cs → c ∈ childSet) →
      (∀ p₁ cs₁ p₂ cs₂, (p₁, cs₁) ∈ lm → (p₂, cs₂) ∈ lm →
        ∀ c, c ∈ cs₁ → c ∈ cs₂ → p₁ = p₂) →
      (∀ p cs, (p, cs) ∈ lm → ∀ c, c ∈ cs → ∀ p', acc.lookup (cl, c) = some p' → p' = p) →
      ∃ acc', checkParents childSet cl lm acc = .ok acc' ∧
        ∀ k v, acc'.lookup k = some v → acc.lookup k = some v ∨ k.1 = cl := by
  intro lm
  induction lm with
  | nil =>
    intro acc _ _ _
    exact ⟨acc, by simp [checkParents], fun k v h => Or.inl h⟩
  | cons e rest ih =>
    obtain ⟨p, cs⟩ := e
    intro acc hsub hone hacc
    obtain ⟨acc1, hok1, hkeys1⟩ := checkChildren_complete (childSet := childSet) (cl := cl) (p := p)
      cs acc (hsub p cs List.mem_cons_self) (hacc p cs List.mem_cons_self)
    have hacc1 : ∀ p₂ cs₂, (p₂, cs₂) ∈ rest → ∀ c, c ∈ cs₂ →
        ∀ p', acc1.lookup (cl, c) = some p' → p' = p₂ := by
      intro p₂ cs₂ hm c hc p' hlk
      rcases hkeys1 _ _ hlk with h | ⟨_, h2, h3⟩
      · exact hacc p₂ cs₂ (List.mem_cons_of_mem _ hm) c hc p' h
      · subst h3
        exact hone p' cs p₂ cs₂ List.mem_cons_self (List.mem_cons_of_mem _ hm) c h2 hc
    obtain ⟨acc', hok, hkeys⟩ := ih acc1
      (fun p' cs' hm => hsub p' cs' (List.mem_cons_of_mem _ hm))
      (fun p₁ cs₁ p₂ cs₂ h₁ h₂ =>
        hone p₁ cs₁ p₂ cs₂ (List.mem_cons_of_mem _ h₁) (List.mem_cons_of_mem _ h₂))
      hacc1
    refine ⟨acc', by simp only [checkParents, hok1]; exact hok, ?_⟩
    intro k v hk
    rcases hkeys k v hk with h | h
    · rcases hkeys1 k v h with h' | ⟨h1, _, _⟩
      · exact Or.inl h'
      · exact Or.inr h1
    · exact Or.inr h

theorem checkLevelPairs_complete {t : RawTree} :
    ∀ (ps : List (Level × Level)) (acc : C2P), (ps.map (·.2)).Nodup →
      (∀ pl cl, (pl, cl) ∈ ps → PairOK t pl cl) →
      (∀ k v, acc.lookup k = some v → k.1 ∉ ps.map (·.2)) →
      ∃ acc', checkLevelPairs t ps acc = .ok acc' := by
  intro ps
  induction ps with
  | nil => intro acc _ _ _; exact ⟨acc, by simp [checkLevelPairs]⟩
  | cons e rest ih =>
    obtain ⟨pl, cl⟩ := e
    intro acc hn hok hacc
    simp only [List.map_cons, List.nodup_cons] at hn
    obtain ⟨hce, hhp, hop⟩ := hok pl cl List.mem_cons_self
    have horph := orphan_false_iff.2 hhp
    obtain ⟨acc1, hok1, hkeys1⟩ := checkParents_complete (childSet := t.nodesAt cl) (cl := cl)
      (t.level pl) acc hce hop
      (by
        intro p cs _ c _ p' hlk
        exact absurd (by simp) (hacc _ _ hlk))
    have hpair : checkLevelPair t pl cl acc = .ok acc1 := by
      simp only [checkLevelPair, horph, Bool.false_eq_true, if_false]
      exact hok1
    obtain ⟨acc', hok'⟩ := ih acc1 hn.2
      (fun pl' cl' hm => hok pl' cl' (List.mem_cons_of_mem _ hm))
      (by
        intro k v hlk
        rcases hkeys1 k v hlk with h | h
        · have := hacc k v h
          simp only [List.map_cons, List.mem_cons, not_or] at this
          exact this.2
        · rw [h]; exact hn.1)
    exact ⟨acc', by simp only [checkLevelPairs, hpair]; exact hok'⟩

/-- completeness: every strict tree over a hierarchy of distinct level names is accepted -/
theorem validate_of_strict {t : RawTree} (hn : t.hierarchy.Nodup) (hne : t.hierarchy ≠ [])
    (hnode : ∀ l0, t.hierarchy.head? = some l0 → t.nodesAt l0 ≠ [])
    (h : Strict t) : t.validate = .ok () := by
  apply validate_ok_iff_checks.2
  have htop : t.topLevelEmpty = false := by
    apply topLevelEmpty_false_iff.2
    cases h0 : t.hierarchy.head? with
    | none => exact absurd (List.head?_eq_none_iff.1 h0) hne
    | some l0 => exact ⟨l0, rfl, hnode l0 h0⟩
  refine ⟨h.hasH, (hasDup_false_iff_nodup _).2 hn, keysMatch_iff.2 ⟨h.keysSub, h.hierSub⟩,
    h.str, htop, ?_,
    firstChildListErr_none_iff.2 (fun pl cl hm p cs hp =>
      ⟨h.childNe pl cl hm p cs hp, h.childNodup pl cl hm p cs hp⟩),
    hne, (hasDup_false_iff_nodup _).2 h.rowsNodup⟩
  exact checkLevelPairs_complete _ [] (levelPairs_snd_nodup hn)
    (fun pl cl hm => ⟨h.childExists pl cl hm, h.hasParent pl cl hm, h.oneParent pl cl hm⟩)
    (by intro k v hlk; simp [List.lookup] at hlk)

/-- the validator decides exactly: strict tree, distinct level names, a
non-empty hierarchy and a node at the top level -/
theorem validate_ok_iff {t : RawTree} :
    t.validate = .ok () ↔ Strict t ∧ t.hierarchy.Nodup ∧ t.hierarchy ≠ [] ∧
      ∀ l0, t.hierarchy.head? = some l0 → t.nodesAt l0 ≠ [] :=
  ⟨fun h => ⟨strict_of_validate h, hierarchy_nodup_of_validate h,
      hierarchy_ne_nil_of_validate h, hasNode_of_validate h⟩,
   fun h => validate_of_strict h.2.1 h.2.2.1 h.2.2.2 h.1⟩

/-- acceptance + Python dict-key uniqueness is all of `WF` -/
theorem WF.of_validate {t : RawTree} (hv : t.validate = .ok ()) (d : DictOK t) : WF t :=
  ⟨hv, hierarchy_nodup_of_validate hv, hierarchy_ne_nil_of_validate hv, d⟩

/-! ### one corollary per remaining corruption class (existence of an error) -/

theorem rejects_missing_child {t : RawTree} {pl cl : Level} {p c : Node} {cs : List Node}
    (hm : (pl, cl) ∈ levelPairs t.hierarchy) (hp : (p, cs) ∈ t.level pl) (hc : c ∈ cs)
    (hnot : c ∉ t.nodesAt cl) : ∃ e, t.validate = .error e :=
  validate_error_of_not_strict fun s => hnot (s.childExists pl cl hm p cs hp c hc)

theorem rejects_orphan {t : RawTree} {pl cl : Level} {c : Node}
    (hm : (pl, cl) ∈ levelPairs t.hierarchy) (hc : c ∈ t.nodesAt cl)
    (hnot : ¬ ∃ p cs, (p, cs) ∈ t.level pl ∧ c ∈ cs) : ∃ e, t.validate = .error e :=
  validate_error_of_not_strict fun s => hnot (s.hasParent pl cl hm c hc)

theorem rejects_two_parents {t : RawTree} {pl cl : Level} {p₁ p₂ c : Node} {cs₁ cs₂ : List Node}
    (hm : (pl, cl) ∈ levelPairs t.hierarchy) (h₁ : (p₁, cs₁) ∈ t.level pl)
    (h₂ : (p₂, cs₂) ∈ t.level pl) (hc₁ : c ∈ cs₁) (hc₂ : c ∈ cs₂) (hne : p₁ ≠ p₂) :
    ∃ e, t.validate = .error e :=
  validate_error_of_not_strict fun s => hne (s.oneParent pl cl hm p₁ cs₁ p₂ cs₂ h₁ h₂ c hc₁ hc₂)

theorem rejects_repeated_child {t : RawTree} {pl cl : Level} {p : Node} {cs : List Node}
    (hm : (pl, cl) ∈ levelPairs t.hierarchy) (hp : (p, cs) ∈ t.level pl) (hd : ¬ cs.Nodup) :
    ∃ e, t.validate = .error e :=
  validate_error_of_not_strict fun s => hd (s.childNodup pl cl hm p cs hp)

theorem rejects_childless_parent {t : RawTree} {pl cl : Level} {p : Node}
    (hm : (pl, cl) ∈ levelPairs t.hierarchy) (hp : (p, []) ∈ t.level pl) :
    ∃ e, t.validate = .error e :=
  validate_error_of_not_strict fun s => s.childNe pl cl hm p [] hp rfl

theorem rejects_dup_rows {t : RawTree} (hd : ¬ t.allRows.Nodup) : ∃ e, t.validate = .error e :=
  validate_error_of_not_strict fun s => hd s.rowsNodup

end CTM.RawTree
