/-
  Bootstrap factor 1 forces the subset (C06): lemmas connecting group
  C_election's model of `tally_votes` (CTM/Model/Numeric.lean,
  CTM/Model/Election.lean, read-only) with the oracle of the level loop.
-/
import CTM.Lemmas.Election

namespace CTM
namespace LevelLoop
open CTM.Numeric CTM.Election

/-- a strictly increasing list reaches at least `b + length - 1` -/
theorem strict_reaches : ∀ (s : List Nat) (b : Nat), s.Pairwise (· < ·) → (∀ y ∈ s, b ≤ y) →
    s ≠ [] → ∃ y ∈ s, b + s.length - 1 ≤ y
  | [], _, _, _, h => absurd rfl h
  | [y], b, _, hb, _ => ⟨y, by simp, by have := hb y (by simp); simp; omega⟩
  | y :: z :: r, b, hp, hb, _ => by
    have hp' := List.pairwise_cons.mp hp
    obtain ⟨w, hw, hle⟩ := strict_reaches (z :: r) (b + 1) hp'.2
      (fun v hv => by have := hp'.1 v hv; have := hb y (by simp); omega) (by simp)
    exact ⟨w, List.mem_cons_of_mem _ hw, by simp at hle ⊢; omega⟩

/-- a strictly increasing list of `k` naturals inside `[a, a + k)` is `a, a+1, …` -/
theorem strict_full : ∀ (s : List Nat) (a : Nat), s.Pairwise (· < ·) →
    (∀ y ∈ s, a ≤ y ∧ y < a + s.length) → s = List.range' a s.length
  | [], _, _, _ => rfl
  | x :: xs, a, hp, hb => by
    have hp' := List.pairwise_cons.mp hp
    have hx := hb x (by simp)
    have hxa : x = a := by
      cases xs with
      | nil => simp at hx; omega
      | cons z r =>
        obtain ⟨w, hw, hle⟩ := strict_reaches (z :: r) (x + 1) hp'.2
          (fun v hv => by have := hp'.1 v hv; omega) (by simp)
        have := (hb w (List.mem_cons_of_mem _ hw)).2
        simp at hle this
        omega
    subst hxa
    have ih := strict_full xs (x + 1) hp'.2 (fun y hy => by
      have h1 := hp'.1 y hy
      have h2 := (hb y (List.mem_cons_of_mem _ hy)).2
      simp at h2
      omega)
    simp only [List.length_cons, List.range'_succ]
    rw [← ih]

/-- **bootstrap factor 1 forces the subset**: the only sorted duplicate-free
subset of size `n` of the `n` marker indices is all of them -/
theorem full_subset_unique (n : Nat) (s : List Nat) (h : subsetOk n n s = true) :
    s = List.range n := by
  simp only [subsetOk, Bool.and_eq_true, beq_iff_eq, List.all_eq_true, decide_eq_true_eq] at h
  obtain ⟨⟨hlen, hlt⟩, hp⟩ := h
  have := strict_full s 0 hp (fun y hy => ⟨Nat.zero_le _, by rw [hlen]; simpa using hlt y hy⟩)
  rw [this, hlen, List.range_eq_range']

theorem roundHalfEven_natCast (n : Nat) : roundHalfEven (n : Rat) = (n : Int) := by
  have h := (roundHalfEven_spec (n : Rat)).1
  have h' := abs_le.mp h
  have h1 : ((roundHalfEven (n : Rat) - (n : Int) : Int) : Rat) < 1 := by
    push_cast; linarith [h'.2]
  have h2 : (-1 : Rat) < ((roundHalfEven (n : Rat) - (n : Int) : Int) : Rat) := by
    push_cast; linarith [h'.1]
  have h3 : roundHalfEven (n : Rat) - (n : Int) < 1 := by exact_mod_cast h1
  have h4 : -1 < roundHalfEven (n : Rat) - (n : Int) := by exact_mod_cast h2
  omega

/-- with factor 1 (the float product `1.0 * n` is `n` exactly) every draw has
size `n` -/
theorem drawSize_factor_one (n : Nat) (hn : 0 < n) : drawSize (n : Rat) n = .ok n := by
  have hb : bootstrapSize (n : Rat) n = (n : Int) := by
    simp only [bootstrapSize, hn, if_true, roundHalfEven_natCast]
    omega
  simp only [drawSize, hb]
  have h1 : ¬ ((n : Int) < 0) := by omega
  simp [h1]

end LevelLoop
end CTM
