/-
  Helper lemmas for C07 (CTM.Normalize): the CPM scale law on `Rat`, name
  addressing of gene columns, chunked minima, the normalise-then-select order.
  Single Mathlib modules are imported for field arithmetic on `Rat`.
-/
import CTM.Model.Normalize
import CTM.Lemmas.Markers
import Mathlib.Tactic.Ring
import Mathlib.Tactic.FieldSimp
import Mathlib.Tactic.Linarith
import Mathlib.Algebra.Order.Field.Rat

namespace CTM
namespace Normalize
open Markers (Gene nameToIdx nameToIdx_some nameToIdx_of_mem nameToIdx_mem)

/-! ### counts per million: the scale law -/

theorem rowSum_cons (v : Rat) (x : List Rat) : rowSum (v :: x) = v + rowSum x := by
  simp [rowSum]

theorem rowSum_scale (k : Rat) (x : List Rat) : rowSum (x.map (fun v => k * v)) = k * rowSum x := by
  induction x with
  | nil => simp [rowSum]
  | cons v vs ih => rw [List.map_cons, rowSum_cons, rowSum_cons, ih]; ring

theorem rowSum_nonneg (x : List Rat) (h : ∀ v ∈ x, 0 ≤ v) : 0 ≤ rowSum x := by
  induction x with
  | nil => simp [rowSum]
  | cons v vs ih =>
    rw [rowSum_cons]
    have := h v (by simp)
    have := ih (fun u hu => h u (by simp [hu]))
    linarith

theorem all_zero_of_rowSum_zero (x : List Rat) (h : ∀ v ∈ x, 0 ≤ v) (hs : rowSum x = 0) :
    ∀ v ∈ x, v = 0 := by
  induction x with
  | nil => simp
  | cons v vs ih =>
    rw [rowSum_cons] at hs
    have h0 := h v (by simp)
    have h1 := rowSum_nonneg vs (fun u hu => h u (by simp [hu]))
    have hv : v = 0 := by linarith
    have hr : rowSum vs = 0 := by linarith
    intro u hu
    rcases List.mem_cons.1 hu with rfl | hu
    · exact hv
    · exact ih (fun u hu => h u (by simp [hu])) hr u hu

/-- "multiplying a raw cell by any positive constant does not change its
mapping": CPM of the scaled cell = CPM of the cell, exactly -/
theorem cpmRow_scale (k : Rat) (hk : 0 < k) (x : List Rat) (hnn : ∀ v ∈ x, 0 ≤ v) :
    cpmRow (x.map (fun v => k * v)) = cpmRow x := by
  unfold cpmRow
  simp only [rowSum_scale]
  have hs := rowSum_nonneg x hnn
  by_cases hpos : 0 < rowSum x
  · have hks : 0 < k * rowSum x := mul_pos hk hpos
    simp only [gt_iff_lt, hks, hpos, if_true, List.map_map]
    apply List.map_congr_left
    intro v _
    simp only [Function.comp]
    field_simp
  · have hz : rowSum x = 0 := by linarith
    have hall := all_zero_of_rowSum_zero x hnn hz
    simp only [gt_iff_lt, hz, mul_zero, lt_irrefl, if_false, List.map_map]
    apply List.map_congr_left
    intro v hv
    simp [Function.comp, hall v hv]

/-! ### columns are addressed by gene name -/

/-- the value of gene `g` in a row: `row[gene_to_col[g]]` -/
def valueOf (genes : List Gene) (row : List Rat) (g : Gene) : Option Rat :=
  (nameToIdx genes g).bind (fun i => row[i]?)

theorem nameToIdx_none (names : List Gene) (g : Gene) (h : g ∉ names) : nameToIdx names g = none := by
  cases hn : nameToIdx names g with
  | none => rfl
  | some i => exact absurd (nameToIdx_mem names g i hn) h

/-- with distinct gene names, `gene_to_col` addressing is association-list lookup -/
theorem valueOf_eq_lookup (genes : List Gene) (row : List Rat) (hn : genes.Nodup) (g : Gene) :
    valueOf genes row g = (genes.zip row).lookup g := by
  induction genes generalizing row with
  | nil => simp [valueOf, nameToIdx]
  | cons x xs ih =>
    have hn' := List.nodup_cons.1 hn
    cases row with
    | nil =>
      simp only [valueOf, List.zip_nil_right, List.lookup_nil]
      cases nameToIdx (x :: xs) g <;> simp
    | cons r rs =>
      simp only [List.zip_cons_cons, List.lookup_cons]
      by_cases hx : g = x
      · subst hx
        have : nameToIdx xs g = none := nameToIdx_none xs g hn'.1
        simp [valueOf, nameToIdx, this]
      · have hb : (g == x) = false := by simp [hx]
        have hb' : (x == g) = false := by simp; exact fun e => hx e.symm
        simp only [hb]
        rw [← ih rs hn'.2]
        simp only [valueOf, nameToIdx, hb']
        cases nameToIdx xs g with
        | none => simp
        | some i => simp

theorem lookup_perm {β} {l l' : List (Gene × β)} (hp : l.Perm l') (hn : (l.map (·.1)).Nodup) (g : Gene) :
    l.lookup g = l'.lookup g := by
  induction hp with
  | nil => rfl
  | @cons x l1 l2 _ ih =>
    obtain ⟨k, v⟩ := x
    have hn' : k ∉ l1.map (·.1) ∧ (l1.map (·.1)).Nodup := by
      rw [List.map_cons] at hn; exact List.nodup_cons.1 hn
    simp only [List.lookup_cons]
    split
    · rfl
    · exact ih hn'.2
  | swap x y l =>
    obtain ⟨k1, v1⟩ := x
    obtain ⟨k2, v2⟩ := y
    have hn1 : k2 ∉ List.map (·.1) ((k1, v1) :: l) ∧ (List.map (·.1) ((k1, v1) :: l)).Nodup := by
      rw [List.map_cons] at hn; exact List.nodup_cons.1 hn
    have hne : k2 ≠ k1 := by
      intro e
      exact hn1.1 (by simp [e])
    simp only [List.lookup_cons]
    by_cases h1 : g = k1
    · subst h1
      have : (g == k2) = false := by simp; exact fun e => hne e.symm
      simp [this]
    · have : (g == k1) = false := by simp [h1]
      simp [this]
  | trans h1 _ ih1 ih2 =>
    have hn2 := (h1.map (·.1)).nodup_iff.1 hn
    rw [ih1 hn, ih2 hn2]

theorem lookup_append_of_mem {β} (l extra : List (Gene × β)) (g : Gene) (h : g ∈ l.map (·.1)) :
    (l ++ extra).lookup g = l.lookup g := by
  induction l with
  | nil => simp at h
  | cons x xs ih =>
    obtain ⟨k, v⟩ := x
    simp only [List.cons_append, List.lookup_cons]
    by_cases hk : g = k
    · simp [hk]
    · have hb : (g == k) = false := by simp [hk]
      simp only [hb]
      apply ih
      simpa [hk] using h

theorem map_fst_zip_sublist (genes : List Gene) (row : List Rat) :
    ((genes.zip row).map (·.1)).Sublist genes := by
  induction genes generalizing row with
  | nil => simp
  | cons x xs ih =>
    cases row with
    | nil => simp
    | cons r rs => simpa using (ih rs).cons_cons x

/-- what `_downsample_genes` reads for one row, by name -/
theorem takeCols_eq (genes : List Gene) (row : List Rat) (sel : List Gene) (idx : List Nat)
    (h : colsOf genes sel = .ok idx) : takeCols row idx = sel.filterMap (valueOf genes row) := by
  induction sel generalizing idx with
  | nil => simp only [colsOf, Except.ok.injEq] at h; subst h; simp [takeCols]
  | cons g gs ih =>
    simp only [colsOf] at h
    cases hg : nameToIdx genes g with
    | none => simp [hg] at h
    | some i =>
      cases hr : colsOf genes gs with
      | error e => simp [hg, hr] at h
      | ok is =>
        simp only [hg, hr, Except.ok.injEq] at h
        subst h
        have := ih is hr
        simp only [takeCols] at this ⊢
        simp only [List.filterMap_cons, valueOf, hg, Option.bind_some, this]

theorem colsOf_ok_iff (genes sel : List Gene) :
    (∃ idx, colsOf genes sel = .ok idx) ↔ ∀ g ∈ sel, g ∈ genes := by
  induction sel with
  | nil => simp [colsOf]
  | cons g gs ih =>
    simp only [colsOf]
    constructor
    · rintro ⟨idx, h⟩
      cases hg : nameToIdx genes g with
      | none => simp [hg] at h
      | some i =>
        cases hr : colsOf genes gs with
        | error e => simp [hg, hr] at h
        | ok is =>
          intro x hx
          rcases List.mem_cons.1 hx with rfl | hx
          · exact nameToIdx_mem genes x i hg
          · exact ih.1 ⟨is, hr⟩ x hx
    · intro h
      obtain ⟨i, hi⟩ := nameToIdx_of_mem genes g (h g (by simp))
      obtain ⟨is, his⟩ := ih.2 (fun x hx => h x (by simp [hx]))
      exact ⟨i :: is, by simp [hi, his]⟩

theorem rowSum_perm {x y : List Rat} (h : x.Perm y) : rowSum x = rowSum y := by
  induction h with
  | nil => rfl
  | cons v _ ih => rw [rowSum_cons, rowSum_cons, ih]
  | swap a b l => simp only [rowSum_cons]; ring
  | trans _ _ ih1 ih2 => rw [ih1, ih2]

theorem hasDup_false_iff (l : List Nat) : RawTree.hasDup l = false ↔ l.Nodup := by
  induction l with
  | nil => simp [RawTree.hasDup]
  | cons x xs ih =>
    simp only [RawTree.hasDup, Bool.or_eq_false_iff, List.nodup_cons, ih]
    constructor
    · rintro ⟨h1, h2⟩; exact ⟨by simpa using h1, h2⟩
    · rintro ⟨h1, h2⟩; exact ⟨by simpa using h1, h2⟩

/-- one row: selection by name sees neither the column order nor extra
columns -/
theorem selectRow_perm_extra (genes genes' : List Gene) (row row' : List Rat)
    (extra : List (Gene × Rat)) (hn : genes.Nodup) (hn' : genes'.Nodup)
    (hlen : genes.length ≤ row.length)
    (hp : (genes'.zip row').Perm (genes.zip row ++ extra))
    (sel : List Gene) (hsel : ∀ g ∈ sel, g ∈ genes) :
    sel.filterMap (valueOf genes' row') = sel.filterMap (valueOf genes row) := by
  have hkeys : ((genes'.zip row').map (·.1)).Nodup := hn'.sublist (map_fst_zip_sublist genes' row')
  have hval : ∀ g ∈ sel, valueOf genes' row' g = valueOf genes row g := by
    intro g hg
    rw [valueOf_eq_lookup genes' row' hn', valueOf_eq_lookup genes row hn, lookup_perm hp hkeys g]
    apply lookup_append_of_mem
    rw [List.map_fst_zip hlen]
    exact hsel g hg
  induction sel with
  | nil => rfl
  | cons g gs ih =>
    simp only [List.filterMap_cons, hval g (by simp)]
    rw [ih (fun x hx => hsel x (by simp [hx])) (fun x hx => hval x (by simp [hx]))]

theorem map_eq_map_of_zip {α β γ} (l : List α) (l' : List β) (f : α → γ) (f' : β → γ)
    (hlen : l.length = l'.length) (h : ∀ p ∈ l.zip l', f p.1 = f' p.2) : l.map f = l'.map f' := by
  induction l generalizing l' with
  | nil => cases l' <;> simp_all
  | cons a as ih =>
    cases l' with
    | nil => simp at hlen
    | cons b bs =>
      simp only [List.map_cons]
      rw [h (a, b) (by simp), ih bs (by simpa using hlen) (fun p hp => h p (by simp [hp]))]

/-- CPM commutes with a joint permutation of gene names and columns -/
theorem cpm_zip_perm (genes genes' : List Gene) (row row' : List Rat)
    (hl : row.length ≤ genes.length) (hl' : row'.length ≤ genes'.length)
    (hp : (genes'.zip row').Perm (genes.zip row)) (f : Rat → Rat) :
    (genes'.zip ((cpmRow row').map f)).Perm (genes.zip ((cpmRow row).map f)) := by
  have hrow : row'.Perm row := by
    have := hp.map (·.2)
    rwa [List.map_snd_zip hl', List.map_snd_zip hl] at this
  have hs : rowSum row' = rowSum row := rowSum_perm hrow
  unfold cpmRow
  rw [hs]
  simp only [List.map_map, List.zip_map_right]
  exact hp.map _

/-- the data of `m'` is the data of `m` with columns permuted together with
their names and possibly extra columns (row by row) -/
def ColumnsRelabelled (m m' : CBG) : Prop :=
  m.data.length = m'.data.length ∧
  ∀ p ∈ m.data.zip m'.data, ∃ extra, (m'.genes.zip p.2).Perm (m.genes.zip p.1 ++ extra)

theorem selectData_relabelled (m m' : CBG) (hn : m.genes.Nodup) (hn' : m'.genes.Nodup)
    (hrowlen : ∀ row ∈ m.data, m.genes.length ≤ row.length)
    (hrel : ColumnsRelabelled m m') (hsub : ∀ g ∈ m.genes, g ∈ m'.genes)
    (sel : List Gene) (hsel : ∀ g ∈ sel, g ∈ m.genes) :
    m'.selectData sel = m.selectData sel := by
  unfold CBG.selectData
  by_cases hd : RawTree.hasDup sel = true
  · simp [hd]
  · simp only [hd, Bool.false_eq_true, if_false]
    obtain ⟨idx, hidx⟩ := (colsOf_ok_iff m.genes sel).2 hsel
    obtain ⟨idx', hidx'⟩ := (colsOf_ok_iff m'.genes sel).2 (fun g hg => hsub g (hsel g hg))
    simp only [hidx, hidx', Except.ok.injEq]
    symm
    apply map_eq_map_of_zip _ _ _ _ hrel.1
    intro p hp
    obtain ⟨extra, hperm⟩ := hrel.2 p hp
    rw [takeCols_eq m.genes p.1 sel idx hidx, takeCols_eq m'.genes p.2 sel idx' hidx']
    have hrow : p.1 ∈ m.data := (List.of_mem_zip (show (p.1, p.2) ∈ _ from hp)).1
    exact (selectRow_perm_extra m.genes m'.genes p.1 p.2 extra hn hn' (hrowlen p.1 hrow) hperm sel hsel).symm

theorem make_ok (data : List (List Rat)) (width : Nat) (genes : List Gene) (norm : Norm)
    (hw : genes.length = width) (hn : genes.Nodup) :
    CBG.make data width genes norm = .ok { data := data, genes := genes, norm := norm } := by
  have : RawTree.hasDup genes = false := (hasDup_false_iff genes).2 hn
  simp [CBG.make, hw, this]

/-- normalised input: permuting columns with their names and adding columns
that are not selected leaves the prepared chunk unchanged -/
theorem prepareChunk_log2CPM_relabelled (f : Rat → Rat) (data data' : List (List Rat)) (width width' : Nat)
    (genes genes' allM : List Gene) (hw : genes.length = width) (hw' : genes'.length = width')
    (hn : genes.Nodup) (hn' : genes'.Nodup)
    (hrowlen : ∀ row ∈ data, genes.length ≤ row.length)
    (hrel : ColumnsRelabelled { data := data, genes := genes, norm := .log2CPM }
                              { data := data', genes := genes', norm := .log2CPM })
    (hsub : ∀ g ∈ genes, g ∈ genes') (hsel : ∀ g ∈ allM, g ∈ genes) :
    prepareChunk f data' width' genes' .log2CPM allM = prepareChunk f data width genes .log2CPM allM := by
  unfold prepareChunk
  rw [make_ok data width genes .log2CPM hw hn, make_ok data' width' genes' .log2CPM hw' hn']
  have h1 : (Norm.log2CPM != Norm.log2CPM) = false := by decide
  simp only [h1, Bool.false_eq_true, if_false, CBG.downsampleGenes]
  rw [selectData_relabelled _ _ hn hn' hrowlen hrel hsub allM hsel]

/-- raw input: permuting columns with their names leaves the prepared chunk
unchanged (the row sum is permutation invariant) -/
theorem prepareChunk_raw_permuted (f : Rat → Rat) (data data' : List (List Rat)) (width : Nat)
    (genes genes' allM : List Gene) (hw : genes.length = width) (hw' : genes'.length = width)
    (hn : genes.Nodup) (hn' : genes'.Nodup)
    (hrowlen : ∀ row ∈ data, row.length = width) (hrowlen' : ∀ row ∈ data', row.length = width)
    (hlen : data.length = data'.length)
    (hperm : ∀ p ∈ data.zip data', (genes'.zip p.2).Perm (genes.zip p.1))
    (hsub : ∀ g ∈ genes, g ∈ genes') (hsel : ∀ g ∈ allM, g ∈ genes) :
    prepareChunk f data' width genes' .raw allM = prepareChunk f data width genes .raw allM := by
  unfold prepareChunk
  rw [make_ok data width genes .raw hw hn, make_ok data' width genes' .raw hw' hn']
  have hne : (Norm.raw != Norm.log2CPM) = true := by decide
  have h1 : (Norm.raw != Norm.raw) = false := by decide
  simp only [hne, if_true, CBG.toLog2CPM, h1, Bool.false_eq_true, if_false,
    CBG.downsampleGenes]
  have hcpmlen : ∀ row : List Rat, ((cpmRow row).map f).length = row.length := by
    intro row; simp [cpmRow]
  rw [selectData_relabelled
    { data := (convertToCpm data).map (fun r => r.map f), genes := genes, norm := .log2CPM }
    { data := (convertToCpm data').map (fun r => r.map f), genes := genes', norm := .log2CPM }
    hn hn' ?_ ?_ hsub allM hsel]
  · intro row hrow
    simp only [convertToCpm, List.map_map, List.mem_map, Function.comp] at hrow
    obtain ⟨r0, hr0, rfl⟩ := hrow
    rw [hcpmlen, hrowlen r0 hr0, hw]
  · refine ⟨by simp [convertToCpm, hlen], ?_⟩
    intro p hp
    simp only [convertToCpm, List.map_map] at hp
    rw [List.zip_map] at hp
    obtain ⟨q, hq, rfl⟩ := List.mem_map.1 hp
    refine ⟨[], ?_⟩
    simp only [Function.comp, Prod.map, List.append_nil]
    have hq1 : q.1 ∈ data := (List.of_mem_zip (show (q.1, q.2) ∈ _ from hq)).1
    have hq2 : q.2 ∈ data' := (List.of_mem_zip (show (q.1, q.2) ∈ _ from hq)).2
    exact cpm_zip_perm genes genes' q.1 q.2 (by rw [hrowlen q.1 hq1, hw])
      (by rw [hrowlen' q.2 hq2, hw']) (hperm q hq) f

/-! ### the minimum found chunk by chunk is the global minimum -/

/-- `m` is the least element of `l` -/
def IsMinOf (m : Rat) (l : List Rat) : Prop := m ∈ l ∧ ∀ v ∈ l, m ≤ v

theorem minOf_spec (l : List Rat) (hne : l ≠ []) : ∃ m, minOf l = some m ∧ IsMinOf m l := by
  induction l with
  | nil => exact absurd rfl hne
  | cons x xs ih =>
    cases xs with
    | nil => exact ⟨x, by simp [minOf], by simp [IsMinOf]⟩
    | cons y ys =>
      obtain ⟨m, hm, hmem, hle⟩ := ih (by simp)
      simp only [minOf] at hm ⊢
      rw [hm]
      by_cases hxm : x ≤ m
      · refine ⟨x, by simp [hxm], by simp, ?_⟩
        intro v hv
        rcases List.mem_cons.1 hv with rfl | hv
        · exact le_refl _
        · exact le_trans hxm (hle v hv)
      · refine ⟨m, by simp [hxm], by simp [hmem], ?_⟩
        intro v hv
        rcases List.mem_cons.1 hv with rfl | hv
        · exact le_of_lt (lt_of_not_ge hxm)
        · exact hle v hv

theorem minOf_nil_iff (l : List Rat) : minOf l = none ↔ l = [] := by
  constructor
  · intro h
    cases l with
    | nil => rfl
    | cons x xs =>
      obtain ⟨m, hm, _⟩ := minOf_spec (x :: xs) (by simp)
      rw [h] at hm; cases hm
  · rintro rfl; rfl

/-- the running minimum over non-empty chunks -/
theorem chunkedMin_spec (chunks : List (List Rat)) (hne : ∀ c ∈ chunks, c ≠ []) (acc : Option Rat)
    (seen : List Rat) (hacc : match acc with
      | none => seen = []
      | some a => IsMinOf a seen) :
    ∃ r, chunkedMin chunks acc = .ok r ∧ match r with
      | none => seen ++ chunks.flatten = []
      | some m => IsMinOf m (seen ++ chunks.flatten) := by
  induction chunks generalizing acc seen with
  | nil => exact ⟨acc, rfl, by simpa using hacc⟩
  | cons c cs ih =>
    obtain ⟨cm, hcm, hcmem, hcle⟩ := minOf_spec c (hne c (by simp))
    simp only [chunkedMin, hcm]
    have hstep : match (match acc with
        | none => some cm
        | some a => if cm < a then some cm else some a) with
      | none => seen ++ c = []
      | some a => IsMinOf a (seen ++ c) := by
      cases acc with
      | none =>
        simp only at hacc ⊢
        subst hacc
        exact ⟨by simpa using hcmem, by simpa using hcle⟩
      | some a =>
        simp only at hacc ⊢
        obtain ⟨hamem, hale⟩ := hacc
        by_cases hlt : cm < a
        · simp only [hlt, if_true]
          refine ⟨by simp [hcmem], ?_⟩
          intro v hv
          rcases List.mem_append.1 hv with hv | hv
          · exact le_trans (le_of_lt hlt) (hale v hv)
          · exact hcle v hv
        · simp only [hlt, if_false]
          refine ⟨by simp [hamem], ?_⟩
          intro v hv
          rcases List.mem_append.1 hv with hv | hv
          · exact hale v hv
          · exact le_trans (le_of_not_gt hlt) (hcle v hv)
    obtain ⟨r, hr, hs⟩ := ih (fun c' hc' => hne c' (by simp [hc'])) _ (seen ++ c) hstep
    refine ⟨r, hr, ?_⟩
    cases r with
    | none => simpa [List.append_assoc] using hs
    | some m => simpa [List.append_assoc] using hs

theorem chunks1Aux_spec (c : Nat) (hc : 1 ≤ c) (fuel : Nat) (xs : List Rat) (hf : xs.length ≤ fuel) :
    (chunks1Aux c fuel xs).flatten = xs ∧ ∀ ch ∈ chunks1Aux c fuel xs, ch ≠ [] := by
  induction fuel generalizing xs with
  | zero =>
    have : xs = [] := List.length_eq_zero_iff.1 (by omega)
    subst this; simp [chunks1Aux]
  | succ f ih =>
    simp only [chunks1Aux]
    by_cases he : xs.isEmpty = true
    · simp only [he, if_true]
      have : xs = [] := List.isEmpty_iff.1 he
      subst this; simp
    · simp only [he, Bool.false_eq_true, if_false]
      have hne : xs ≠ [] := fun h => he (List.isEmpty_iff.2 h)
      have hpos : 0 < xs.length := List.length_pos_iff.2 hne
      obtain ⟨i1, i2⟩ := ih (xs.drop c) (by rw [List.length_drop]; omega)
      constructor
      · simp [i1]
      · intro ch hch
        rcases List.mem_cons.1 hch with rfl | hch
        · intro h
          have := congrArg List.length h
          rw [List.length_take, List.length_nil] at this
          omega
        · exact i2 ch hch

theorem chunks1_spec (c : Nat) (hc : 1 ≤ c) (xs : List Rat) :
    (chunks1 c xs).flatten = xs ∧ ∀ ch ∈ chunks1 c xs, ch ≠ [] :=
  chunks1Aux_spec c hc xs.length xs (Nat.le_refl _)

theorem growChunk_pos (ntot fuel c : Nat) (hc : 1 ≤ c) : 1 ≤ growChunk ntot fuel c := by
  induction fuel generalizing c with
  | zero => simpa [growChunk] using hc
  | succ f ih =>
    simp only [growChunk]
    split
    · exact ih (c * 2) (by omega)
    · exact hc

/-- `_get_minmax_from_sparse`: for every chunk size (and for an unchunked
dataset) the minimum returned is the minimum of the stored values -/
theorem minSparse_spec (stored : List Rat) (hne : stored ≠ []) (chunk : Option Nat)
    (hc : ∀ c, chunk = some c → 1 ≤ c) :
    ∃ m, minSparse stored chunk = .ok m ∧ IsMinOf m stored := by
  unfold minSparse
  have he : stored.isEmpty = false := by simpa using hne
  simp only [he, Bool.false_eq_true, if_false]
  cases chunk with
  | none =>
    obtain ⟨m, hm, hmin⟩ := minOf_spec stored hne
    exact ⟨m, by simp [hm], hmin⟩
  | some c =>
    have hg := growChunk_pos stored.length stored.length c (hc c rfl)
    obtain ⟨hfl, hcne⟩ := chunks1_spec (growChunk stored.length stored.length c) hg stored
    obtain ⟨r, hr, hspec⟩ := chunkedMin_spec _ hcne none [] rfl
    simp only [hr]
    cases r with
    | none =>
      simp only [List.nil_append, hfl] at hspec
      exact absurd hspec hne
    | some m =>
      simp only [List.nil_append, hfl] at hspec
      exact ⟨m, rfl, hspec⟩

theorem IsMinOf.congr {m : Rat} {l l' : List Rat} (h : IsMinOf m l) (hm : ∀ v, v ∈ l ↔ v ∈ l') :
    IsMinOf m l' := ⟨(hm m).1 h.1, fun v hv => h.2 v ((hm v).2 hv)⟩

theorem colTilesAux_spec (w : Nat) (hw : 1 ≤ w) (fuel : Nat) (block : List (List Rat))
    (hf : ∀ r ∈ block, r.length ≤ fuel) :
    (∀ v, v ∈ (colTilesAux w fuel block).flatten ↔ v ∈ block.flatten) ∧
    ∀ tile ∈ colTilesAux w fuel block, tile ≠ [] := by
  induction fuel generalizing block with
  | zero =>
    have hall : ∀ r ∈ block, r = [] := fun r hr => List.length_eq_zero_iff.1 (by have := hf r hr; omega)
    simp only [colTilesAux, List.flatten_nil, List.not_mem_nil, false_iff, List.mem_flatten, not_exists, not_and]
    constructor
    · intro v r hr hv
      rw [hall r hr] at hv
      cases hv
    · intro _ h
      cases h
  | succ f ih =>
    simp only [colTilesAux]
    by_cases hall : (block.all fun r => r.isEmpty) = true
    · simp only [hall, if_true]
      have hall' : ∀ r ∈ block, r = [] := by
        intro r hr
        have := List.all_eq_true.1 hall r hr
        exact List.isEmpty_iff.1 this
      simp only [List.flatten_nil, List.not_mem_nil, false_iff, List.mem_flatten, not_exists, not_and]
      constructor
      · intro v r hr hv
        rw [hall' r hr] at hv
        cases hv
      · intro _ h
        cases h
    · simp only [hall, Bool.false_eq_true, if_false]
      obtain ⟨i1, i2⟩ := ih (block.map (fun r => r.drop w)) (by
        intro r hr
        obtain ⟨r0, hr0, rfl⟩ := List.mem_map.1 hr
        have := hf r0 hr0
        rw [List.length_drop]
        omega)
      constructor
      · intro v
        simp only [List.flatten_cons, List.mem_append, i1, List.mem_flatMap, List.mem_flatten, List.mem_map]
        constructor
        · rintro (⟨r, hr, hv⟩ | ⟨_, ⟨r, hr, rfl⟩, hv⟩)
          · exact ⟨r, hr, List.mem_of_mem_take hv⟩
          · exact ⟨r, hr, List.mem_of_mem_drop hv⟩
        · rintro ⟨r, hr, hv⟩
          rw [← List.take_append_drop w r] at hv
          rcases List.mem_append.1 hv with hv | hv
          · exact Or.inl ⟨r, hr, hv⟩
          · exact Or.inr ⟨_, ⟨r, hr, rfl⟩, hv⟩
      · intro tile ht
        rcases List.mem_cons.1 ht with rfl | ht
        · -- some row is non-empty, and w ≥ 1
          intro hnil
          apply hall
          rw [List.all_eq_true]
          intro r hr
          rw [List.isEmpty_iff]
          have : r.take w = [] := by
            have := List.flatMap_eq_nil_iff.1 hnil r hr
            exact this
          have hl := congrArg List.length this
          rw [List.length_take, List.length_nil] at hl
          exact List.length_eq_zero_iff.1 (by omega)
        · exact i2 tile ht

theorem rowBlocksAux_spec (h : Nat) (hh : 1 ≤ h) (fuel : Nat) (X : List (List Rat)) (hf : X.length ≤ fuel) :
    (rowBlocksAux h fuel X).flatten = X := by
  induction fuel generalizing X with
  | zero =>
    have : X = [] := List.length_eq_zero_iff.1 (by omega)
    subst this; simp [rowBlocksAux]
  | succ f ih =>
    simp only [rowBlocksAux]
    by_cases he : X.isEmpty = true
    · have : X = [] := List.isEmpty_iff.1 he
      subst this; simp
    · simp only [he, Bool.false_eq_true, if_false]
      have hne : X ≠ [] := fun h => he (List.isEmpty_iff.2 h)
      have hpos : 0 < X.length := List.length_pos_iff.2 hne
      have := ih (X.drop h) (by rw [List.length_drop]; omega)
      simp [this]

/-- the tiles of the dense loop cover the matrix: same elements, no empty tile -/
theorem tiles_spec (h w width : Nat) (hh : 1 ≤ h) (hw : 1 ≤ w) (X : List (List Rat))
    (hrows : ∀ r ∈ X, r.length ≤ width) :
    (∀ v, v ∈ (tiles h w width X).flatten ↔ v ∈ X.flatten) ∧ ∀ tile ∈ tiles h w width X, tile ≠ [] := by
  unfold tiles
  have hfl := rowBlocksAux_spec h hh X.length X (Nat.le_refl _)
  have hX : ∀ r, r ∈ X ↔ ∃ b ∈ rowBlocksAux h X.length X, r ∈ b := by
    intro r
    conv_lhs => rw [← hfl]
    simp [List.mem_flatten]
  have hblockrows : ∀ b ∈ rowBlocksAux h X.length X, ∀ r ∈ b, r.length ≤ width := by
    intro b hb r hr
    exact hrows r ((hX r).2 ⟨b, hb, hr⟩)
  constructor
  · intro v
    simp only [List.mem_flatten, List.mem_flatMap]
    constructor
    · rintro ⟨tile, ⟨b, hb, ht⟩, hv⟩
      have := ((colTilesAux_spec w hw width b (hblockrows b hb)).1 v).1 (List.mem_flatten.2 ⟨tile, ht, hv⟩)
      obtain ⟨r, hr, hvr⟩ := List.mem_flatten.1 this
      exact ⟨r, (hX r).2 ⟨b, hb, hr⟩, hvr⟩
    · rintro ⟨r, hrX, hvr⟩
      obtain ⟨b, hb, hr⟩ := (hX r).1 hrX
      have := ((colTilesAux_spec w hw width b (hblockrows b hb)).1 v).2 (List.mem_flatten.2 ⟨r, hr, hvr⟩)
      obtain ⟨tile, ht, hv⟩ := List.mem_flatten.1 this
      exact ⟨tile, ⟨b, hb, ht⟩, hv⟩
  · intro tile ht
    obtain ⟨b, hb, ht⟩ := List.mem_flatMap.1 ht
    exact (colTilesAux_spec w hw width b (hblockrows b hb)).2 tile ht

theorem minDense_grow_pos (ntot fuel h w : Nat) (hh : 1 ≤ h) (hw : 1 ≤ w) :
    1 ≤ (minDense.grow ntot fuel h w).1 ∧ 1 ≤ (minDense.grow ntot fuel h w).2 := by
  induction fuel generalizing h w with
  | zero => simpa [minDense.grow] using ⟨hh, hw⟩
  | succ f ih =>
    simp only [minDense.grow]
    split
    · exact ih (h * 2) (w * 2) (by omega) (by omega)
    · exact ⟨hh, hw⟩

/-- `_get_minmax_from_dense`: for every HDF5 chunk shape (and for an unchunked
dataset) the minimum returned is the minimum of the matrix -/
theorem minDense_spec (X : List (List Rat)) (width : Nat) (hrows : ∀ r ∈ X, r.length ≤ width)
    (hne : X.flatten ≠ []) (chunk : Option (Nat × Nat))
    (hc : ∀ h w, chunk = some (h, w) → 1 ≤ h ∧ 1 ≤ w) :
    ∃ m, minDense X width chunk = .ok m ∧ IsMinOf m X.flatten := by
  unfold minDense
  cases chunk with
  | none =>
    obtain ⟨m, hm, hmin⟩ := minOf_spec X.flatten hne
    exact ⟨m, by simp [hm], hmin⟩
  | some hw =>
    obtain ⟨h, w⟩ := hw
    obtain ⟨hh, hww⟩ := hc h w rfl
    simp only
    obtain ⟨g1, g2⟩ := minDense_grow_pos (X.length * width) (X.length * width) h w hh hww
    generalize minDense.grow (X.length * width) (X.length * width) h w = hw' at g1 g2
    obtain ⟨h', w'⟩ := hw'
    simp only at g1 g2 ⊢
    obtain ⟨hmem, htne⟩ := tiles_spec h' w' width g1 g2 X hrows
    obtain ⟨r, hr, hspec⟩ := chunkedMin_spec _ htne none [] rfl
    simp only [hr]
    cases r with
    | none =>
      simp only [List.nil_append] at hspec
      exfalso
      apply hne
      apply List.eq_nil_iff_forall_not_mem.2
      intro v hv
      have := (hmem v).2 hv
      rw [hspec] at this; cases this
    | some m =>
      simp only [List.nil_append] at hspec
      exact ⟨m, rfl, hspec.congr hmem⟩

end Normalize
end CTM
