/-
  The parallel transposition, index sub-ranges, chunked copies.
-/
import CTM.Lemmas.SparseDisjoint

namespace CTM.Sparse
open CTM.Chunking


/-- major indices and values of the entries with minor index `v` -/
def bucketSeg {α} (F : List (Entry α)) (v : Nat) : Seg α :=
  ((F.filter (·.minor == v)).map (·.major), (F.filter (·.minor == v)).map (·.val))

theorem canonOut_eq_ofSegs {α} (F : List (Entry α)) (n : Nat) :
    canonOut F n = ofSegs ((List.range n).map (bucketSeg F)) := by
  unfold canonOut ofSegs
  simp only [List.length_map, List.length_range]
  congr 1
  · apply List.map_congr_left
    intro k hk
    rw [List.mem_range] at hk
    unfold segPrefix
    rw [← bucket_lengths_sum F n k (by omega)]
    rw [← List.map_take, ← List.map_take, List.map_map, List.map_map]
    congr 1
    apply List.map_congr_left
    intro v _
    simp [bucketSeg]
  · unfold bucketSpec
    rw [List.map_flatMap, List.flatMap_def, List.flatMap_def, List.map_map]
    rfl
  · unfold bucketSpec
    rw [List.map_flatMap, List.flatMap_def, List.flatMap_def, List.map_map]
    rfl

theorem bucketSeg_slice {α} (E : List (Entry α)) (a b v : Nat) (hv : v < b - a) :
    bucketSeg (sliceEntries (some (a, b)) E) v = bucketSeg E (a + v) := by
  have key : (sliceEntries (some (a, b)) E).filter (·.minor == v)
      = (E.filter (·.minor == a + v)).map fun e => { e with minor := e.minor - a } := by
    unfold sliceEntries
    simp only
    rw [List.filter_map, List.filter_filter]
    congr 1
    apply List.filter_congr
    intro e _
    simp only [Function.comp]
    apply Bool.eq_iff_iff.mpr
    simp only [Bool.and_eq_true, beq_iff_eq, decide_eq_true_eq]
    omega
  unfold bucketSeg
  rw [key, List.map_map, List.map_map]
  rfl

theorem bucketSegs_ok {α} (F : List (Entry α)) (l : List Nat) : SegsOK (l.map (bucketSeg F)) := by
  intro s hs
  rw [List.mem_map] at hs
  obtain ⟨v, _, rfl⟩ := hs
  simp [bucketSeg]

theorem ceilDiv_pos (a b : Nat) (ha : 1 ≤ a) (hb : 1 ≤ b) : 1 ≤ ceilDiv a b := by
  unfold ceilDiv
  apply Nat.div_pos <;> omega

/-- **`v2_eq`**: splitting the minor range over any number of workers and
joining the pieces in range order gives exactly the arrays of the serial
transposition, whatever the budgets -/
theorem transposeV2_eq {α} (M : Mat α) (imax nProc : Nat) (B B' : Budget)
    (himax : 1 ≤ imax) (hp : 1 ≤ nProc)
    (hlo : 1 ≤ B.lo) (hc : 1 ≤ B.loCount) (hlo' : 1 ≤ B'.lo) (hc' : 1 ≤ B'.loCount)
    (hlen : M.data.length = M.indices.length) (hr : ∀ x ∈ M.indices, x < imax) :
    transposeV2 M imax nProc B = transposeOnDisk M imax none B' := by
  rw [transposeOnDisk_eq M imax none B' hlo' hc' hlen hr]
  unfold transposeV2
  have hstep := ceilDiv_pos imax nProc himax hp
  have hz : (ceilDiv imax nProc == 0) = false := by simp; omega
  simp only [hz, Bool.false_eq_true, if_false, bind, Except.bind]
  have hparts : (chunks imax (ceilDiv imax nProc)).mapM
        (fun sl => transposeOnDisk M imax (some sl) B)
      = .ok ((chunks imax (ceilDiv imax nProc)).map fun sl =>
          ofSegs ((rangeOf sl).map (bucketSeg (entriesOf M)))) := by
    apply mapM_ok
    intro sl hsl
    have hb := chunksAux_bounds imax _ hstep _ _ sl hsl
    have hr2 : ∀ x ∈ sliceMinors (some sl) M.indices, x < nMinorOf imax (some sl) := by
      intro x hx
      unfold sliceMinors at hx
      simp only [List.mem_map, List.mem_filter, Bool.and_eq_true, decide_eq_true_eq] at hx
      obtain ⟨y, ⟨_, hy⟩, rfl⟩ := hx
      simp only [nMinorOf]; omega
    rw [transposeOnDisk_eq M imax (some sl) B hlo hc hlen hr2, canonOut_eq_ofSegs]
    congr 2
    simp only [nMinorOf, rangeOf]
    rw [List.range_eq_range']
    apply List.ext_getElem
    · simp
    · intro k h1 h2
      have hk : k < sl.2 - sl.1 := by simpa using h1
      simp only [List.getElem_map, List.getElem_range']
      have := bucketSeg_slice (entriesOf M) sl.1 sl.2 k hk
      simp only [Nat.zero_add, Nat.one_mul]
      rw [this]
  rw [hparts]
  simp only [pure, Except.pure, nMinorOf, sliceEntries]
  congr 1
  have : ((chunks imax (ceilDiv imax nProc)).map fun sl =>
        ofSegs ((rangeOf sl).map (bucketSeg (entriesOf M))))
      = ((chunks imax (ceilDiv imax nProc)).map fun sl =>
          (rangeOf sl).map (bucketSeg (entriesOf M))).map ofSegs := by
    rw [List.map_map]; rfl
  rw [this, joinParts_ofSegs, canonOut_eq_ofSegs]
  · congr 1
    rw [← List.flatMap_def, ← List.map_flatMap]
    have hcov : (chunks imax (ceilDiv imax nProc)).flatMap rangeOf = List.range imax := by
      unfold chunks
      rw [chunksAux_cover imax _ hstep imax 0 (by omega) (by omega), List.range_eq_range']
      rfl
    rw [hcov]
  · intro L hL
    rw [List.mem_map] at hL
    obtain ⟨sl, _, rfl⟩ := hL
    exact bucketSegs_ok _ _

/-- **an index sub-range** `indices_slice = (a, b)` yields rows `a ..< b` of the
full transposition -/
theorem transposeSlice_toDense {α} (zero : α) (M : Mat α) (nMajor nMinor : Nat)
    (w : WFptr M.indptr nMajor M.indices.length) (a b : Nat) (hab : a ≤ b) (hb : b ≤ nMinor) :
    toDense zero (canonOut (sliceEntries (some (a, b)) (entriesOf M)) (b - a)) (b - a) nMajor
      = slice (transposeDense zero (toDense zero M nMajor nMinor) nMinor) a b := by
  rw [← canonOut_toDense zero M nMajor nMinor w]
  rw [canonOut_eq_ofSegs, canonOut_eq_ofSegs]
  have h1 := toDense_ofSegs zero ((List.range (b - a)).map
      (bucketSeg (sliceEntries (some (a, b)) (entriesOf M)))) (bucketSegs_ok _ _) nMajor
  have h2 := toDense_ofSegs zero ((List.range nMinor).map (bucketSeg (entriesOf M)))
      (bucketSegs_ok _ _) nMajor
  simp only [List.length_map, List.length_range] at h1 h2
  rw [h1, h2, List.map_map, List.map_map, slice_map]
  unfold slice
  have e : List.take (b - a) (List.drop a (List.range nMinor)) = List.range' a (b - a) := by
    rw [List.range_eq_range', List.drop_range', List.take_range'_of_length_ge (by omega)]
    congr 1; omega
  rw [e, List.range_eq_range']
  apply List.ext_getElem
  · simp
  · intro k h3 h4
    have hk : k < b - a := by simpa using h3
    simp only [List.getElem_map, List.getElem_range', Function.comp]
    rw [bucketSeg_slice (entriesOf M) a b _ (by omega)]
    congr 3 <;> omega

/-! ### chunked copies -/

theorem chunkCopy_id {β} (c : Nat) (l : List β) (hc : 1 ≤ c) : chunkCopy c l = l := by
  unfold chunkCopy chunks
  rw [chunksAux_slices l l.length c hc l.length 0 (by omega) (by omega)]
  exact slice_zero_length l

/-- a tiled copy over any grid of row ranges × column ranges that are chunk
lists of the two dimensions reproduces the matrix -/
theorem tileCopy_id {β} (D : List (List β)) (m a b : Nat) (ha : 1 ≤ a) (hb : 1 ≤ b)
    (hrows : ∀ row ∈ D, row.length = m) :
    tileCopy (chunks D.length a) (chunks m b) D = D := by
  unfold tileCopy
  have hrow : ∀ row ∈ D, (chunks m b).flatMap (fun c => slice row c.1 c.2) = row := by
    intro row hrow'
    have := chunkCopy_id b row hb
    unfold chunkCopy at this
    rw [hrows row hrow'] at this
    exact this
  have h1 : ∀ r ∈ chunks D.length a,
      ((slice D r.1 r.2).map fun row => (chunks m b).flatMap fun c => slice row c.1 c.2)
        = slice D r.1 r.2 := by
    intro r _
    have : ∀ row ∈ slice D r.1 r.2, (chunks m b).flatMap (fun c => slice row c.1 c.2) = row :=
      fun row h => hrow row ((slice_sublist _ _ _).subset h)
    rw [List.map_congr_left this, List.map_id']
  rw [flatMap_congr' h1]
  exact chunkCopy_id a D ha

theorem copySlices1_cover (perDim n : Nat) :
    (copySlices1 perDim n).flatMap rangeOf = List.range n := by
  unfold copySlices1 chunks
  rw [chunksAux_cover n _ (by omega) n 0 (by omega) (by omega), List.range_eq_range']
  rfl

theorem transposeDense_involutive {α} (zero : α) (D : Dense α) (n m : Nat)
    (hn : D.length = n) (hrows : ∀ row ∈ D, row.length = m) :
    transposeDense zero (transposeDense zero D m) n = D := by
  unfold transposeDense
  apply List.ext_getElem
  · simp [hn]
  · intro i h1 h2
    have hi : i < n := by simpa using h1
    simp only [List.getElem_map, List.getElem_range, List.map_map]
    apply List.ext_getElem
    · simp [hrows D[i] (List.getElem_mem h2)]
    · intro j h3 h4
      have hj : j < m := by simpa using h3
      simp only [List.getElem_map, List.getElem_range, Function.comp]
      have : (List.map (fun row => row.getD j zero) D).getD i zero = D[i].getD j zero := by
        simp [List.getD_eq_getElem?_getD, h2]
      rw [this]
      simp [List.getD_eq_getElem?_getD, h4]

theorem toDense_rows_length {α} (zero : α) (M : Mat α) (nMajor nMinor : Nat) :
    ∀ row ∈ toDense zero M nMajor nMinor, row.length = nMinor := by
  intro row hrow
  unfold toDense at hrow
  rw [List.mem_map] at hrow
  obtain ⟨i, _, rfl⟩ := hrow
  exact scatter_length zero nMinor _ _

theorem canonOut_indices_lt {α} (M : Mat α) (nMajor n : Nat)
    (w : WFptr M.indptr nMajor M.indices.length) :
    ∀ x ∈ (canonOut (entriesOf M) n).indices, x < nMajor := by
  intro x hx
  unfold canonOut at hx
  simp only [List.mem_map] at hx
  obtain ⟨e, he, rfl⟩ := hx
  exact entriesOf_major_lt M nMajor w e (mem_bucketSpec _ _ e he)

end CTM.Sparse
