/-
  Root-to-leaf paths of the tree built by `get_taxonomy_tree` from per-cell
  label columns: they are exactly the label tuples of the records.
  Core Lean only.
-/
import CTM.Lemmas.TreeRecords
namespace CTM.RawTree

/-- a root-to-leaf path: one node per level, each a listed child of the previous one -/
def IsPath (t : RawTree) (ns : List Node) : Prop :=
  ns.length = t.hierarchy.length ∧
  (∀ j (hj : j < ns.length) (hj' : j < t.hierarchy.length), ns[j] ∈ t.nodesAt t.hierarchy[j]) ∧
  (∀ j (hj : j + 1 < ns.length) (hj' : j + 1 < t.hierarchy.length),
      ns[j+1] ∈ t.entry (t.hierarchy[j]'(by omega)) (ns[j]'(by omega)))

/-- every record is a path (no nesting hypothesis needed) -/
theorem fromRecordsRaw_record_isPath {cols recs} (hc : cols.Nodup) (hr : RecsOK cols recs)
    {r : List Node} (hmem : r ∈ recs) : IsPath (fromRecordsRaw cols recs) r := by
  refine ⟨hr r hmem, ?_, ?_⟩
  · intro j hj hj'
    exact (fromRecordsRaw_nodes hc hr j hj' _).2 ⟨r, hmem, List.getElem?_eq_getElem hj⟩
  · intro j hj hj'
    have h := (fromRecordsRaw_children hc hr j hj' (r[j]'(by omega)) r[j+1]).2
      ⟨r, hmem, List.getElem?_eq_getElem (by omega), List.getElem?_eq_getElem hj⟩
    exact ((isChild_iff (fromRecordsRaw_dictOK hc recs)).1 h).2

/-- MAIN: with nested label columns the paths are exactly the records -/
theorem fromRecordsRaw_paths {cols recs} (hc : cols.Nodup) (hne : cols ≠ []) (hr : RecsOK cols recs)
    (hn : Nested cols recs) (ns : List Node) :
    IsPath (fromRecordsRaw cols recs) ns ↔ ns ∈ recs := by
  constructor
  · rintro ⟨hlen, hnodes, hedges⟩
    have hlen' : ns.length = cols.length := hlen
    have hpos : 0 < cols.length := List.length_pos_iff.2 hne
    -- every edge of the path is witnessed by a record
    have edge : ∀ j, j + 1 < cols.length →
        ∃ r', r' ∈ recs ∧ r'[j]? = ns[j]? ∧ r'[j+1]? = ns[j+1]? := by
      intro j hj
      have h1 := hedges j (by omega) hj
      have h2 := hnodes j (by omega) (by omega)
      have h3 := (isChild_iff (fromRecordsRaw_dictOK hc recs)).2 ⟨h2, h1⟩
      obtain ⟨r', hr', e1, e2⟩ := (fromRecordsRaw_children hc hr j hj _ _).1 h3
      exact ⟨r', hr', by rw [e1, List.getElem?_eq_getElem], by rw [e2, List.getElem?_eq_getElem]⟩
    obtain ⟨k, hk⟩ : ∃ k, cols.length = k + 1 := ⟨cols.length - 1, by omega⟩
    -- a record carrying the leaf of the path
    obtain ⟨r, hrm, hrk⟩ : ∃ r, r ∈ recs ∧ r[k]? = ns[k]? := by
      have h := hnodes k (by omega) (by omega)
      obtain ⟨r, hr', e⟩ := (fromRecordsRaw_nodes hc hr k (by omega) _).1 h
      exact ⟨r, hr', by rw [e, List.getElem?_eq_getElem]⟩
    -- downward induction: that record agrees with the path on every column
    have key : ∀ d, d ≤ k → r[k-d]? = ns[k-d]? := by
      intro d
      induction d with
      | zero => intro _; simpa using hrk
      | succ d ih =>
        intro hd
        have ih' := ih (by omega)
        obtain ⟨r', hr'm, e1, e2⟩ := edge (k - (d+1)) (by omega)
        have hidx : k - (d+1) + 1 = k - d := by omega
        rw [hidx] at e2
        have h := hn (k-(d+1)) (by omega) r hrm r' hr'm (by rw [hidx, ih', e2])
        rw [h, e1]
    have hrl := hr r hrm
    have heq : r = ns := by
      apply List.ext_getElem?
      intro i
      by_cases hi : i ≤ k
      · have h := key (k - i) (by omega)
        rwa [show k - (k - i) = i by omega] at h
      · rw [List.getElem?_eq_none (by omega), List.getElem?_eq_none (by omega)]
    exact heq ▸ hrm
  · exact fromRecordsRaw_record_isPath hc hr

end CTM.RawTree
