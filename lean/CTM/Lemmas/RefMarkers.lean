/-
  Lemmas about the reference-marker model (`CTM/Model/RefMarkers.lean`).
-/
import Mathlib.Tactic.Linarith
import Mathlib.Tactic.Ring
import Mathlib.Algebra.Order.Field.Rat
import CTM.Model.RefMarkers
import CTM.Lemmas.Holm

namespace CTM.RefMarkers
open CTM.Holm

/-- every strict threshold lies above its floor (the quantifier of C11; also what
`penetrance_parameter_distance` insists on) -/
def ThresholdsOK (t : Thresholds) : Prop :=
  t.q1Min < t.q1Th ∧ t.qdiffMin < t.qdiffTh ∧ t.foldMin < t.foldTh

/-- a gene outside the gene list (scores `-1, 0, -1`) violates some floor -/
def FloorsExclude (t : Thresholds) : Prop :=
  -1 < t.q1Min ∨ 0 < t.qdiffMin ∨ -1 < t.foldMin

/-- on or above every floor -/
def AboveFloors (t : Thresholds) (s : GeneScore) : Prop :=
  t.q1Min ≤ s.q1 ∧ t.qdiffMin ≤ s.qdiff ∧ t.foldMin ≤ s.fold

/-- the strict criteria -/
def Strict (t : Thresholds) (s : GeneScore) : Prop :=
  t.q1Th < s.q1 ∧ t.qdiffTh < s.qdiff ∧ t.foldTh < s.fold

theorem checkThresholds_ok {t : Thresholds} : checkThresholds t = .ok () ↔ ThresholdsOK t := by
  unfold checkThresholds ThresholdsOK
  constructor
  · intro h
    split at h
    · cases h
    · split at h
      · cases h
      · split at h
        · cases h
        · exact ⟨by linarith, by linarith, by linarith⟩
  · rintro ⟨h1, h2, h3⟩
    rw [if_neg (by linarith), if_neg (by linarith), if_neg (by linarith)]

theorem checkThresholds_cases (t : Thresholds) :
    checkThresholds t = .ok () ∨ ∃ e, checkThresholds t = .error e := by
  cases h : checkThresholds t with
  | ok u => left; rfl
  | error e => right; exact ⟨e, rfl⟩

/-! ### per-gene facts -/

theorem term_nonneg (x th : Rat) : 0 ≤ term x th := by
  unfold term; split
  · exact le_refl _
  · exact mul_self_nonneg _

theorem term_zero_of_gt {x th : Rat} (h : th < x) : term x th = 0 := by
  unfold term; rw [if_pos h]

theorem isInvalid_false_iff {t : Thresholds} {s : GeneScore} :
    isInvalid t s = false ↔ AboveFloors t s := by
  unfold isInvalid AboveFloors
  simp only [Bool.or_eq_false_iff, decide_eq_false_iff_not, not_lt]

theorem strictPass_iff {t : Thresholds} {s : GeneScore} : strictPass t s = true ↔ Strict t s := by
  unfold strictPass Strict
  simp only [Bool.and_eq_true, decide_eq_true_eq, gt_iff_lt]
  tauto

theorem strict_aboveFloors {t : Thresholds} {s : GeneScore} (ht : ThresholdsOK t)
    (h : Strict t s) : AboveFloors t s :=
  ⟨by linarith [ht.1, h.1], by linarith [ht.2.1, h.2.1], by linarith [ht.2.2, h.2.2]⟩

theorem strict_dists_zero {t : Thresholds} {s : GeneScore} (h : Strict t s) :
    distSq t s = 0 ∧ rawQ1Dist t s = 0 ∧ rawQdiffDist t s = 0 ∧ rawFoldDist t s = 0 := by
  unfold distSq rawQ1Dist rawQdiffDist rawFoldDist q1Term qdiffTerm foldTerm
  rw [term_zero_of_gt h.1, term_zero_of_gt h.2.1, term_zero_of_gt h.2.2]
  norm_num

theorem raw_nonneg (t : Thresholds) (s : GeneScore) :
    0 ≤ rawQ1Dist t s ∧ 0 ≤ rawQdiffDist t s ∧ 0 ≤ rawFoldDist t s := by
  unfold rawQ1Dist rawQdiffDist rawFoldDist q1Term qdiffTerm foldTerm
  have a := term_nonneg s.q1 t.q1Th
  have b := term_nonneg s.qdiff t.qdiffTh
  have c := term_nonneg s.fold t.foldTh
  exact ⟨by linarith, by linarith, by linarith⟩

theorem excludedScore_eq : excludedScore = { q1 := -1, qdiff := 0, fold := -1 } := by
  unfold excludedScore qScore
  simp

theorem excluded_invalid {t : Thresholds} (h : FloorsExclude t) : isInvalid t excludedScore = true := by
  rw [excludedScore_eq]
  unfold isInvalid
  simp only [Bool.or_eq_true, decide_eq_true_eq]
  rcases h with h | h | h
  · left; exact h
  · right; left; exact h
  · right; right; exact h

theorem geneDist_invalid (t : Thresholds) (bad : Rat) (s : GeneScore) :
    (geneDist t bad s).invalid = isInvalid t s := rfl

theorem geneDist_distSq (t : Thresholds) (bad : Rat) (s : GeneScore) :
    (geneDist t bad s).distSq = distSq t s := rfl

theorem geneDist_nonneg (t : Thresholds) {bad : Rat} (hb : 0 ≤ bad) (s : GeneScore) :
    0 ≤ (geneDist t bad s).q1 ∧ 0 ≤ (geneDist t bad s).qdiff ∧ 0 ≤ (geneDist t bad s).fold := by
  obtain ⟨a, b, c⟩ := raw_nonneg t s
  unfold geneDist
  simp only
  refine ⟨?_, ?_, ?_⟩ <;> split <;> assumption

theorem geneDist_strict (t : Thresholds) (bad : Rat) {s : GeneScore} (ht : ThresholdsOK t)
    (h : Strict t s) :
    (geneDist t bad s).q1 = 0 ∧ (geneDist t bad s).qdiff = 0 ∧ (geneDist t bad s).fold = 0
      ∧ (geneDist t bad s).invalid = false ∧ (geneDist t bad s).distSq = 0 := by
  have hinv : isInvalid t s = false := isInvalid_false_iff.mpr (strict_aboveFloors ht h)
  obtain ⟨d0, d1, d2, d3⟩ := strict_dists_zero h
  unfold geneDist
  simp only [hinv, Bool.false_eq_true, if_false, d0, d1, d2, d3]
  exact ⟨trivial, trivial, trivial, trivial, trivial⟩

/-! ### penetrance_parameter_distance -/

theorem le_foldl_max (x : Rat) (xs : List Rat) : x ≤ xs.foldl max x := by
  induction xs generalizing x with
  | nil => exact le_refl _
  | cons y ys ih => exact le_trans (le_max_left x y) (ih (max x y))

theorem listMax_nonneg {l : List Rat} {m : Rat} (h0 : ∀ x ∈ l, 0 ≤ x) (h : listMax l = some m) :
    0 ≤ m := by
  cases l with
  | nil => simp [listMax] at h
  | cons x xs =>
    simp only [listMax, Option.some.injEq] at h
    rw [← h]
    exact le_trans (h0 x (List.mem_cons_self ..)) (le_foldl_max x xs)

theorem badDist_nonneg {t : Thresholds} {g : List GeneScore} {bad : Rat}
    (h : badDist t g = some bad) : 0 ≤ bad := by
  unfold badDist at h
  split at h
  · rename_i a b c ha hb hc
    simp only [Option.some.injEq] at h
    have : 0 ≤ a := listMax_nonneg (by
      intro x hx
      obtain ⟨s, _, rfl⟩ := List.mem_map.mp hx
      exact (raw_nonneg t s).2.1) ha
    have h2 : a ≤ max a (max b c) := le_max_left _ _
    linarith
  · cases h

theorem penetranceDistance_ok {t : Thresholds} {g : List GeneScore} {d : List GeneDist}
    (h : penetranceDistance t g = .ok d) :
    ThresholdsOK t ∧ ∃ bad, 0 ≤ bad ∧ d = g.map (geneDist t bad) := by
  unfold penetranceDistance at h
  split at h
  · cases h
  · rename_i hc
    split at h
    · cases h
    · rename_i bad hb
      refine ⟨checkThresholds_ok.mp hc, bad, badDist_nonneg hb, ?_⟩
      cases h; rfl

/-! ### approx_penetrance_test -/

theorem kth_mem {l : List Rat} {k : Nat} {c : Rat} (h : kth l k = some c) : c ∈ l := by
  unfold kth at h
  exact (List.mergeSort_perm l _).mem_iff.mp (List.mem_of_getElem? h)

/-- the shape of a successful `approx_penetrance_test` -/
theorem approx_ok {t : Thresholds} {nValid : Nat} {g : List GeneScore} {m : List Bool}
    (h : approxPenetranceTest t nValid g = .ok m) :
    ThresholdsOK t ∧ ∃ bad, 0 ≤ bad ∧
      (m = (g.map (geneDist t bad)).map (fun x => decide (x.distSq < absEps) && !x.invalid) ∨
       ∃ cutoff, 0 ≤ cutoff ∧ m = (g.map (geneDist t bad)).map (fun x =>
          (decide (x.qdiff ≤ cutoff) || decide (x.q1 ≤ cutoff) || decide (x.fold ≤ cutoff))
            && !x.invalid)) := by
  unfold approxPenetranceTest at h
  simp only at h
  split at h
  · cases h
  · rename_i d hd
    obtain ⟨ht, bad, hb, rfl⟩ := penetranceDistance_ok hd
    refine ⟨ht, bad, hb, ?_⟩
    split at h
    · left; cases h; rfl
    · right
      split at h
      · rename_i c1 c2 c3 h1 h2 h3
        refine ⟨min3 c1 c2 c3, ?_, ?_⟩
        · have m1 := kth_mem h1
          have m2 := kth_mem h2
          have m3 := kth_mem h3
          simp only [List.map_map, List.mem_map, Function.comp] at m1 m2 m3
          obtain ⟨s1, _, rfl⟩ := m1
          obtain ⟨s2, _, rfl⟩ := m2
          obtain ⟨s3, _, rfl⟩ := m3
          have n1 := (geneDist_nonneg t hb s1).1
          have n2 := (geneDist_nonneg t hb s2).2.1
          have n3 := (geneDist_nonneg t hb s3).2.2
          unfold min3
          exact le_min n1 (le_min n2 n3)
        · cases h; rfl
      · cases h

/-- soundness of the approximate penetrance test: an accepted gene is on or above every floor -/
theorem approx_sound {t : Thresholds} {nValid : Nat} {g : List GeneScore} {m : List Bool}
    (h : approxPenetranceTest t nValid g = .ok m) {i : Nat} (hi : m[i]? = some true) :
    ∃ s, g[i]? = some s ∧ AboveFloors t s := by
  obtain ⟨_, bad, _, hm | ⟨cutoff, _, hm⟩⟩ := approx_ok h
  all_goals
    subst hm
    simp only [List.getElem?_map, Option.map_eq_some_iff] at hi
    obtain ⟨x, ⟨s, hs, rfl⟩, hx⟩ := hi
    refine ⟨s, hs, ?_⟩
    simp only [Bool.and_eq_true, Bool.not_eq_true', geneDist_invalid] at hx
    exact isInvalid_false_iff.mp hx.2

/-- completeness of the approximate penetrance test: a gene passing every strict criterion is
accepted -/
theorem approx_complete {t : Thresholds} {nValid : Nat} {g : List GeneScore} {m : List Bool}
    (h : approxPenetranceTest t nValid g = .ok m) {i : Nat} {s : GeneScore}
    (hs : g[i]? = some s) (hst : Strict t s) : m[i]? = some true := by
  obtain ⟨ht, bad, _, hm | ⟨cutoff, hc, hm⟩⟩ := approx_ok h
  · subst hm
    obtain ⟨_, _, _, e4, e5⟩ := geneDist_strict t bad ht hst
    simp only [List.getElem?_map, hs, Option.map_some, e4, e5]
    simp [absEps]
  · subst hm
    obtain ⟨e1, e2, e3, e4, _⟩ := geneDist_strict t bad ht hst
    simp only [List.getElem?_map, hs, Option.map_some, e1, e2, e3, e4]
    simp [hc]

/-! ### masks -/

theorem andL_getElem?_true {a b : List Bool} {i : Nat} :
    (andL a b)[i]? = some true ↔ a[i]? = some true ∧ b[i]? = some true := by
  unfold andL
  rw [List.getElem?_zipWith]
  cases ha : a[i]? with
  | none => simp
  | some x =>
    cases hb : b[i]? with
    | none => simp
    | some y => simp

theorem allowedMask_true {n : Nat} {gi : Option (List Nat)} {i : Nat} :
    (allowedMask n gi)[i]? = some true ↔ i < n ∧ ∀ idx, gi = some idx → i ∈ idx := by
  cases gi with
  | none =>
    simp only [allowedMask, List.getElem?_replicate]
    constructor
    · intro h
      split at h
      · exact ⟨by assumption, by intro idx h'; cases h'⟩
      · cases h
    · rintro ⟨h, _⟩; rw [if_pos h]
  | some idx =>
    simp only [allowedMask, List.getElem?_map]
    constructor
    · intro h
      have hlt : i < n := by
        by_contra hn
        rw [List.getElem?_eq_none (by simpa using hn)] at h
        cases h
      rw [List.getElem?_range hlt] at h
      simp only [Option.map_some, Option.some.injEq, List.contains_iff_mem] at h
      exact ⟨hlt, by intro idx' h'; cases h'; exact h⟩
    · rintro ⟨hlt, h⟩
      rw [List.getElem?_range hlt]
      simp only [Option.map_some, Option.some.injEq, List.contains_iff_mem]
      exact h idx rfl

theorem maskScores_getElem? {allowed : List Bool} {g : List GeneScore} {i : Nat} {s' : GeneScore}
    (h : (maskScores allowed g)[i]? = some s') :
    ∃ a s, allowed[i]? = some a ∧ g[i]? = some s ∧ s' = if a then s else excludedScore := by
  unfold maskScores at h
  rw [List.getElem?_zipWith] at h
  cases ha : allowed[i]? with
  | none => simp [ha] at h
  | some a =>
    cases hg : g[i]? with
    | none => simp [ha, hg] at h
    | some s =>
      simp only [ha, hg, Option.some.injEq] at h
      exact ⟨a, s, rfl, rfl, h.symm⟩

theorem maskScores_allowed {allowed : List Bool} {g : List GeneScore} {i : Nat} {s : GeneScore}
    (ha : allowed[i]? = some true) (hg : g[i]? = some s) :
    (maskScores allowed g)[i]? = some s := by
  unfold maskScores
  rw [List.getElem?_zipWith, ha, hg]
  simp

/-- `penetrance_from_stats`, soundness: an accepted gene is allowed, on or above every floor,
and (exact mode) passes the strict criteria -/
theorem penetranceFromStats_sound {t : Thresholds} {exact : Bool} {nValid : Nat}
    {allowed : List Bool} {g : List GeneScore} {m : List Bool} (ht : ThresholdsOK t)
    (hx : FloorsExclude t)
    (h : penetranceFromStats t exact nValid allowed g = .ok m) {i : Nat} (hi : m[i]? = some true) :
    allowed[i]? = some true ∧ ∃ s, g[i]? = some s ∧ AboveFloors t s ∧ (exact = true → Strict t s) := by
  unfold penetranceFromStats penetranceTests at h
  have key : ∃ s', (maskScores allowed g)[i]? = some s' ∧ AboveFloors t s' ∧
      (exact = true → Strict t s') := by
    cases exact with
    | true =>
      simp only [if_true] at h
      cases h
      simp only [List.getElem?_map, Option.map_eq_some_iff] at hi
      obtain ⟨s', hs', hp⟩ := hi
      have hst := strictPass_iff.mp hp
      exact ⟨s', hs', strict_aboveFloors ht hst, fun _ => hst⟩
    | false =>
      simp only [Bool.false_eq_true, if_false] at h
      obtain ⟨s', hs', hf⟩ := approx_sound h hi
      exact ⟨s', hs', hf, fun e => by cases e⟩
  obtain ⟨s', hs', hf, hst⟩ := key
  obtain ⟨a, s, ha, hg, rfl⟩ := maskScores_getElem? hs'
  cases a with
  | true => exact ⟨ha, s, hg, by simpa using hf, by simpa using hst⟩
  | false =>
    exfalso
    have := excluded_invalid hx
    simp only [Bool.false_eq_true, if_false] at hf
    rw [isInvalid_false_iff.mpr hf] at this
    cases this

/-- `penetrance_from_stats`, completeness -/
theorem penetranceFromStats_complete {t : Thresholds} {exact : Bool} {nValid : Nat}
    {allowed : List Bool} {g : List GeneScore} {m : List Bool}
    (h : penetranceFromStats t exact nValid allowed g = .ok m) {i : Nat} {s : GeneScore}
    (ha : allowed[i]? = some true) (hg : g[i]? = some s) (hst : Strict t s) :
    m[i]? = some true := by
  unfold penetranceFromStats penetranceTests at h
  have hs' := maskScores_allowed ha hg
  cases exact with
  | true =>
    simp only [if_true] at h
    cases h
    simp only [List.getElem?_map, hs', Option.map_some, strictPass_iff.mpr hst]
  | false =>
    simp only [Bool.false_eq_true, if_false] at h
    exact approx_complete h hs' hst

/-! ### score_differential_genes -/

/-- the p-value mask used by `score_differential_genes` -/
def pValidMask (pOrder : List Nat) (praw : List Rat) (pTh : Rat) : List Bool :=
  (approxCorrectTtestWith pOrder praw pTh).map (fun p => decide (p < pTh))

theorem replicate_false_ne_true {n i : Nat} : (List.replicate n false)[i]? ≠ some true := by
  rw [List.getElem?_replicate]
  split <;> simp

theorem scoreCore_sound {o : List Nat} {c : Config} {n1 n2 : Nat} {praw : List Rat}
    {g : List GeneScore} {m1 m2 : List Rat} {out : Out}
    (h : scoreCoreWith o c n1 n2 praw g m1 m2 = .ok out)
    (ht : ThresholdsOK c.th) (hx : FloorsExclude c.th) {i : Nat} (hi : out.valid[i]? = some true) :
    c.nCellsMin ≤ n1 ∧ c.nCellsMin ≤ n2 ∧
    (pValidMask o praw c.th.pTh)[i]? = some true ∧
    (∀ idx, c.geneIdx = some idx → i ∈ idx) ∧
    ∃ s, g[i]? = some s ∧ AboveFloors c.th s ∧ (c.exact = true → Strict c.th s) := by
  unfold scoreCoreWith at h
  simp only at h
  split at h
  · cases h
    exact absurd hi replicate_false_ne_true
  · rename_i hn
    have hn1 : c.nCellsMin ≤ n1 := by omega
    have hn2 : c.nCellsMin ≤ n2 := by omega
    split at h
    · cases h
    · rename_i pen1 hp1
      split at h
      · cases h
        obtain ⟨hpv, hpen⟩ := andL_getElem?_true.mp hi
        obtain ⟨hal, s, hs, hf, hst⟩ := penetranceFromStats_sound ht hx hp1 hpen
        exact ⟨hn1, hn2, hpv, (allowedMask_true.mp hal).2, s, hs, hf, hst⟩
      · split at h
        · cases h
        · rename_i pen2 hp2
          cases h
          obtain ⟨hpv, hpen⟩ := andL_getElem?_true.mp hi
          obtain ⟨hal, s, hs, hf, hst⟩ := penetranceFromStats_sound ht hx hp2 hpen
          have hal1 := (andL_getElem?_true.mp hal).1
          exact ⟨hn1, hn2, hpv, (allowedMask_true.mp hal1).2, s, hs, hf, hst⟩

theorem scoreCore_complete {o : List Nat} {c : Config} {n1 n2 : Nat} {praw : List Rat}
    {g : List GeneScore} {m1 m2 : List Rat} {out : Out}
    (h : scoreCoreWith o c n1 n2 praw g m1 m2 = .ok out)
    (hn1 : c.nCellsMin ≤ n1) (hn2 : c.nCellsMin ≤ n2) {i : Nat} {s : GeneScore}
    (hg : g[i]? = some s) (hst : Strict c.th s)
    (hal : ∀ idx, c.geneIdx = some idx → i ∈ idx)
    (hp : (pValidMask o praw c.th.pTh)[i]? = some true) :
    out.valid[i]? = some true := by
  have hilt : i < g.length := (List.getElem?_eq_some_iff.mp hg).1
  have hal1 : (allowedMask g.length c.geneIdx)[i]? = some true := allowedMask_true.mpr ⟨hilt, hal⟩
  unfold scoreCoreWith at h
  simp only at h
  split at h
  · rename_i hn; omega
  · split at h
    · cases h
    · rename_i pen1 hp1
      split at h
      · cases h
        exact andL_getElem?_true.mpr ⟨hp, penetranceFromStats_complete hp1 hal1 hg hst⟩
      · split at h
        · cases h
        · rename_i pen2 hp2
          cases h
          have hal2 := andL_getElem?_true.mpr ⟨hal1, hp⟩
          exact andL_getElem?_true.mpr ⟨hp, penetranceFromStats_complete hp2 hal2 hg hst⟩

/-- direction: the `up` flag is `mean2 > mean1`, whatever the validity -/
theorem scoreCore_up {o : List Nat} {c : Config} {n1 n2 : Nat} {praw : List Rat}
    {g : List GeneScore} {m1 m2 : List Rat} {out : Out}
    (h : scoreCoreWith o c n1 n2 praw g m1 m2 = .ok out)
    (hn1 : c.nCellsMin ≤ n1) (hn2 : c.nCellsMin ≤ n2) : out.up = upMask m1 m2 := by
  unfold scoreCoreWith at h
  simp only at h
  split at h
  · rename_i hn; omega
  · split at h
    · cases h
    · split at h
      · cases h; rfl
      · split at h
        · cases h
        · cases h; rfl

/-! ### p-value-mask route -/

theorem lookup_filterMap (F : Nat → Option (Nat × Rat)) (hF : ∀ j k w, F j = some (k, w) → k = j)
    (l : List Nat) (i : Nat) :
    (l.filterMap F).lookup i = if i ∈ l then (F i).map Prod.snd else none := by
  induction l with
  | nil => simp
  | cons j js ih =>
    cases hFj : F j with
    | none =>
      rw [List.filterMap_cons_none hFj, ih]
      by_cases hij : i = j
      · subst hij; simp [hFj]
      · simp [hij]
    | some kw =>
      obtain ⟨k, w⟩ := kw
      have hk := hF j k w hFj
      subst hk
      rw [List.filterMap_cons_some hFj]
      by_cases hij : i = k
      · subst hij; simp [hFj]
      · have : (i == k) = false := by simpa using hij
        simp only [List.lookup_cons, this, ih, List.mem_cons, hij, false_or]

/-- what `_p_values_worker` stores for gene `i` -/
theorem workerRow_lookup {o : List Nat} {r16 : Rat → Rat} {t : Thresholds} {n1 n2 : Nat}
    {praw : List Rat} {g : List GeneScore} {row : List (Nat × Rat)}
    (h : pValuesWorkerRowWith o r16 t n1 n2 praw g = .ok row) (i : Nat) :
    (row = [] ∧ (n1 < 2 ∨ n2 < 2)) ∨
    (2 ≤ n1 ∧ 2 ≤ n2 ∧ ThresholdsOK t ∧ ∃ bad, 0 ≤ bad ∧
    row.lookup i =
      (match (approxCorrectTtestWith o praw t.pTh)[i]?, (g.map (geneDist t bad))[i]? with
        | some p, some x =>
          if decide (p < t.pTh) && !x.invalid then some (maskWgt r16 x.wgt) else none
        | _, _ => none)) := by
  unfold pValuesWorkerRowWith at h
  split at h
  · rename_i hn
    left; cases h; exact ⟨rfl, hn⟩
  · rename_i hn
    right
    refine ⟨by omega, by omega, ?_⟩
    simp only at h
    split at h
    · cases h
    · rename_i d hd
      obtain ⟨ht, bad, hb, rfl⟩ := penetranceDistance_ok hd
      refine ⟨ht, bad, hb, ?_⟩
      cases h
      rw [lookup_filterMap]
      · by_cases hi : i < (g.map (geneDist t bad)).length
        · rw [if_pos (List.mem_range.mpr hi)]
          cases h1 : (approxCorrectTtestWith o praw t.pTh)[i]? with
          | none => simp
          | some p =>
            cases h2 : (List.map (geneDist t bad) g)[i]? with
            | none => simp
            | some x =>
              simp only
              split <;> simp
        · rw [if_neg (by simpa using hi)]
          have h2 : (List.map (geneDist t bad) g)[i]? = none :=
            List.getElem?_eq_none (by simpa using hi)
          rw [h2]
          cases (approxCorrectTtestWith o praw t.pTh)[i]? <;> rfl
      · intro j k w hj
        split at hj
        · split at hj
          · cases hj; rfl
          · cases hj
        · cases hj

theorem maskWgt_zero {r16 : Rat → Rat} (h16 : r16 (-1) = -1) : maskWgt r16 0 = -1 := by
  unfold maskWgt f16Max eps16
  norm_num [h16, Rat.abs]

theorem geneDist_strict_wgt (t : Thresholds) (bad : Rat) {s : GeneScore} (ht : ThresholdsOK t)
    (h : Strict t s) : (geneDist t bad s).wgt = 0 := by
  have hinv : isInvalid t s = false := isInvalid_false_iff.mpr (strict_aboveFloors ht h)
  obtain ⟨_, d1, d2, d3⟩ := strict_dists_zero h
  unfold geneDist
  simp [hinv, d1, d2, d3]

theorem allowedAt_true {gi : Option (List Nat)} {i : Nat} :
    allowedAt gi i = true ↔ ∀ idx, gi = some idx → i ∈ idx := by
  cases gi with
  | none => simp [allowedAt]
  | some idx => simp [allowedAt]

theorem maskDist0_nonneg (row : List (Nat × Rat)) (i : Nat) : 0 ≤ maskDist0 row i := by
  unfold maskDist0
  simp only
  split
  · exact le_refl _
  · rename_i hneg; exact not_lt.mp hneg

/-- a gene that is not both in the mask row and allowed is neither "absolutely valid" nor
below `bad` -/
theorem maskDist_excluded {row : List (Nat × Rat)} {gi : Option (List Nat)} {good : Rat}
    (hg : 0 ≤ good) {i : Nat} (h : ((row.lookup i).isSome && allowedAt gi i) = false) :
    ¬ maskDist row gi (2 * (good + 1)) i < maskEps ∧
      2 * (good + 1) ≤ maskDist row gi (2 * (good + 1)) i := by
  unfold maskDist maskEps
  rw [h]
  simp only [Bool.false_eq_true, if_false]
  constructor <;> linarith

/-- soundness of `_get_validity_mask`: a recorded gene is in the mask row and in the gene list -/
theorem getValidityMask_sound {nValid nGenes : Nat} {row : List (Nat × Rat)}
    {geneIdx : Option (List Nat)} {v : List Bool}
    (h : getValidityMask nValid nGenes row geneIdx = .ok v) {i : Nat} (hi : v[i]? = some true) :
    i < nGenes ∧ (row.lookup i).isSome = true ∧ ∀ idx, geneIdx = some idx → i ∈ idx := by
  unfold getValidityMask at h
  simp only at h
  split at h
  · cases h
  · rename_i good hgood
    have hg0 : 0 ≤ good := listMax_nonneg (by
      intro x hx
      obtain ⟨j, _, rfl⟩ := List.mem_map.mp hx
      exact maskDist0_nonneg row j) hgood
    have hvlen : v.length = nGenes := by
      split at h
      · split at h
        · cases h
        · cases h; simp
      · cases h; simp
    have hilt : i < nGenes := by
      by_contra hn
      rw [List.getElem?_eq_none (by omega)] at hi
      cases hi
    refine ⟨hilt, ?_⟩
    -- both branches: p_mask ∧ (… ∨ abs_valid), and an excluded gene fails both disjuncts
    have key : ∀ b : Bool,
        ((row.lookup i).isSome && (b || decide (maskDist row geneIdx (2 * (good + 1)) i < maskEps))) = true →
        (b = true → ¬ 2 * (good + 1) ≤ maskDist row geneIdx (2 * (good + 1)) i) →
        (row.lookup i).isSome = true ∧ ∀ idx, geneIdx = some idx → i ∈ idx := by
      intro b hb himp
      simp only [Bool.and_eq_true, Bool.or_eq_true, decide_eq_true_eq] at hb
      refine ⟨hb.1, allowedAt_true.mp ?_⟩
      by_contra hne
      have hne' : allowedAt geneIdx i = false := by
        cases hq : allowedAt geneIdx i
        · rfl
        · exact absurd hq hne
      have hex : ((row.lookup i).isSome && allowedAt geneIdx i) = false := by
        rw [hne', Bool.and_false]
      obtain ⟨e1, e2⟩ := maskDist_excluded (gi := geneIdx) hg0 hex
      rcases hb.2 with hb2 | hb2
      · exact himp hb2 e2
      · exact e1 hb2
    split at h
    · split at h
      · cases h
      · rename_i cutoff _
        cases h
        simp only [List.getElem?_map, List.getElem?_range hilt, Option.map_some,
          Option.some.injEq] at hi
        refine key _ hi ?_
        intro hb
        simp only [Bool.and_eq_true, Bool.not_eq_true', decide_eq_false_iff_not, ge_iff_le] at hb
        exact hb.2
    · cases h
      simp only [List.getElem?_map, List.getElem?_range hilt, Option.map_some,
        Option.some.injEq] at hi
      exact key false (by simpa using hi) (by intro hb; cases hb)

/-- a gene stored with distance `-1` and allowed by the gene list is always recorded -/
theorem getValidityMask_complete {nValid nGenes : Nat} {row : List (Nat × Rat)}
    {geneIdx : Option (List Nat)} {v : List Bool}
    (h : getValidityMask nValid nGenes row geneIdx = .ok v) {i : Nat} (hilt : i < nGenes)
    (hrow : row.lookup i = some (-1)) (hal : ∀ idx, geneIdx = some idx → i ∈ idx) :
    v[i]? = some true := by
  have hall := allowedAt_true.mpr hal
  have hd : ∀ bad, maskDist row geneIdx bad i < maskEps := by
    intro bad
    unfold maskDist maskDist0 maskEps
    simp only [hrow, Option.isSome_some, hall, Bool.and_self, if_true, Option.getD_some]
    norm_num
  unfold getValidityMask at h
  simp only at h
  split at h
  · cases h
  · split at h
    · split at h
      · cases h
      · cases h
        simp only [List.getElem?_map, List.getElem?_range hilt, Option.map_some, hrow,
          Option.isSome_some, hd, decide_true, Bool.or_true, Bool.and_self]
    · cases h
      simp only [List.getElem?_map, List.getElem?_range hilt, Option.map_some, hrow,
        Option.isSome_some, hd, decide_true, Bool.and_self]

theorem pValidMask_getElem? {o : List Nat} {praw : List Rat} {pTh : Rat} {i : Nat} {p : Rat}
    (h : (approxCorrectTtestWith o praw pTh)[i]? = some p) :
    (pValidMask o praw pTh)[i]? = some (decide (p < pTh)) := by
  unfold pValidMask
  rw [List.getElem?_map, h]; rfl

/-- soundness of the p-value-mask route for one pair -/
theorem maskRoute_sound {o : List Nat} {r16 : Rat → Rat} {t : Thresholds} {nValid : Nat}
    {gi : Option (List Nat)} {n1 n2 : Nat} {praw : List Rat} {g : List GeneScore}
    {m1 m2 : List Rat} {out : Out}
    (h : maskRouteWith o r16 t nValid gi n1 n2 praw g m1 m2 = .ok out) {i : Nat}
    (hi : out.valid[i]? = some true) :
    2 ≤ n1 ∧ 2 ≤ n2 ∧
    (pValidMask o praw t.pTh)[i]? = some true ∧ (∀ idx, gi = some idx → i ∈ idx) ∧
      ∃ s, g[i]? = some s ∧ AboveFloors t s := by
  unfold maskRouteWith at h
  split at h
  · cases h
  · rename_i row hrow
    split at h
    · cases h
    · rename_i v hv
      cases h
      obtain ⟨_, hsome, hlist⟩ := getValidityMask_sound hv hi
      rcases workerRow_lookup hrow i with ⟨hnil, _⟩ | ⟨hn1, hn2, _, bad, _, hlk⟩
      · rw [hnil] at hsome; simp at hsome
      refine ⟨hn1, hn2, ?_⟩
      rw [hlk] at hsome
      cases hp : (approxCorrectTtestWith o praw t.pTh)[i]? with
      | none => simp [hp] at hsome
      | some p =>
        cases hx : (g.map (geneDist t bad))[i]? with
        | none => simp [hp, hx] at hsome
        | some x =>
          simp only [hp, hx] at hsome
          split at hsome
          · rename_i hcond
            simp only [Bool.and_eq_true, decide_eq_true_eq, Bool.not_eq_true'] at hcond
            simp only [List.getElem?_map, Option.map_eq_some_iff] at hx
            obtain ⟨s, hs, rfl⟩ := hx
            refine ⟨?_, hlist, s, hs, isInvalid_false_iff.mp hcond.2⟩
            rw [pValidMask_getElem? hp, decide_eq_true hcond.1]
          · simp at hsome

/-- completeness of the p-value-mask route for one pair (`r16 (-1) = -1`: float16 stores -1
exactly) -/
theorem maskRoute_complete {o : List Nat} {r16 : Rat → Rat} {t : Thresholds} {nValid : Nat}
    {gi : Option (List Nat)} {n1 n2 : Nat} {praw : List Rat} {g : List GeneScore}
    {m1 m2 : List Rat} {out : Out}
    (h16 : r16 (-1) = -1)
    (h : maskRouteWith o r16 t nValid gi n1 n2 praw g m1 m2 = .ok out)
    (hn1 : 2 ≤ n1) (hn2 : 2 ≤ n2) {i : Nat} {s : GeneScore}
    (hg : g[i]? = some s) (hst : Strict t s) (hal : ∀ idx, gi = some idx → i ∈ idx)
    (hp : (pValidMask o praw t.pTh)[i]? = some true) :
    out.valid[i]? = some true := by
  have hilt : i < g.length := (List.getElem?_eq_some_iff.mp hg).1
  unfold maskRouteWith at h
  split at h
  · cases h
  · rename_i row hrow
    split at h
    · cases h
    · rename_i v hv
      cases h
      rcases workerRow_lookup hrow i with ⟨_, hsmall⟩ | ⟨_, _, ht, bad, _, hlk⟩
      · omega
      apply getValidityMask_complete hv hilt _ hal
      rw [hlk]
      unfold pValidMask at hp
      simp only [List.getElem?_map, Option.map_eq_some_iff, decide_eq_true_eq] at hp
      obtain ⟨p, hp1, hp2⟩ := hp
      have hinv := (geneDist_strict t bad ht hst).2.2.2.1
      simp only [hp1, List.getElem?_map, hg, Option.map_some, hp2, decide_true, hinv,
        Bool.not_false, Bool.and_self, if_true, geneDist_strict_wgt t bad ht hst,
        maskWgt_zero h16]

theorem maskRoute_up {o : List Nat} {r16 : Rat → Rat} {t : Thresholds} {nValid : Nat}
    {gi : Option (List Nat)} {n1 n2 : Nat} {praw : List Rat} {g : List GeneScore}
    {m1 m2 : List Rat} {out : Out}
    (h : maskRouteWith o r16 t nValid gi n1 n2 praw g m1 m2 = .ok out) : out.up = upMask m1 m2 := by
  unfold maskRouteWith at h
  split at h
  · cases h
  · split at h
    · cases h
    · cases h; rfl

/-! ### direction -/

theorem upMask_getElem? {m1 m2 : List Rat} {i : Nat} {a b : Rat}
    (h1 : m1[i]? = some a) (h2 : m2[i]? = some b) :
    (upMask m1 m2)[i]? = some (decide (b > a)) := by
  unfold upMask
  rw [List.getElem?_zipWith, h1, h2]

theorem whereTrue_mem {m : List Bool} {i : Nat} : i ∈ whereTrue m ↔ m[i]? = some true := by
  unfold whereTrue
  simp only [List.mem_filter, List.mem_range, List.getD_eq_getElem?_getD]
  constructor
  · rintro ⟨hlt, h⟩
    rw [List.getElem?_eq_getElem hlt] at h ⊢
    simpa using h
  · intro h
    have hlt : i < m.length := (List.getElem?_eq_some_iff.mp h).1
    exact ⟨hlt, by rw [h]; rfl⟩

/-- no gene is both up and down for a pair -/
theorem upDown_disjoint (o : Out) (i : Nat) : ¬ (i ∈ (upDown o).1 ∧ i ∈ (upDown o).2) := by
  unfold upDown
  simp only [whereTrue_mem]
  rintro ⟨h1, h2⟩
  have a := (andL_getElem?_true.mp h1).2
  have b := (andL_getElem?_true.mp h2).2
  rw [List.getElem?_map, a] at b
  simp at b

/-- every valid gene is in exactly one of the two lists (given `up` covers the genes) -/
theorem upDown_cover (o : Out) (i : Nat) (hv : o.valid[i]? = some true) (b : Bool)
    (hu : o.up[i]? = some b) :
    (i ∈ (upDown o).1 ↔ b = true) ∧ (i ∈ (upDown o).2 ↔ b = false) := by
  unfold upDown
  simp only [whereTrue_mem, andL_getElem?_true, hv, true_and, List.getElem?_map, hu,
    Option.map_some, Option.some.injEq]
  cases b <;> simp

/-- recorded genes are valid genes -/
theorem upDown_valid (o : Out) (i : Nat) (h : i ∈ (upDown o).1 ∨ i ∈ (upDown o).2) :
    o.valid[i]? = some true := by
  unfold upDown at h
  simp only [whereTrue_mem] at h
  rcases h with h | h <;> exact (andL_getElem?_true.mp h).1

/-! ### swapping the two clusters of a pair -/

theorem rat_abs_sub_comm (a b : Rat) : (a - b).abs = (b - a).abs := by
  exact Rat.abs_sub_comm

theorem qScore_comm (p1 p2 : Rat) : qScore p1 p2 = qScore p2 p1 := by
  unfold qScore
  simp only [rat_abs_sub_comm p1 p2]
  rcases lt_trichotomy p1 p2 with h | h | h
  · simp [h, not_lt.mpr (le_of_lt h)]
  · subst h; rfl
  · simp [h, not_lt.mpr (le_of_lt h)]

theorem log2Fold_comm (a b : Rat) : log2Fold a b = log2Fold b a := rat_abs_sub_comm a b

theorem zipWith4_swap {α β γ} (f : α → α → β → β → γ) (hf : ∀ a b c d, f a b c d = f b a d c)
    (as bs : List α) (cs ds : List β) : zipWith4 f as bs cs ds = zipWith4 f bs as ds cs := by
  induction as generalizing bs cs ds with
  | nil => cases bs <;> cases cs <;> cases ds <;> simp [zipWith4]
  | cons a as ih =>
    cases bs with
    | nil => cases cs <;> cases ds <;> simp [zipWith4]
    | cons b bs =>
      cases cs with
      | nil => cases ds <;> simp [zipWith4]
      | cons c cs =>
        cases ds with
        | nil => simp [zipWith4]
        | cons d ds => simp [zipWith4, hf a b c d, ih bs cs ds]

theorem geneScores_swap (s : PairStats) : geneScores s.swap = geneScores s := by
  unfold geneScores PairStats.swap
  simp only
  apply zipWith4_swap
  intro a b c d
  rw [qScore_comm a b, log2Fold_comm c d]

/-- validity does not depend on the order of the pair -/
theorem scoreCore_swap_valid (o : List Nat) (c : Config) (n1 n2 : Nat) (praw : List Rat)
    (g : List GeneScore) (m1 m2 : List Rat) :
    (scoreCoreWith o c n2 n1 praw g m2 m1).map (·.valid)
      = (scoreCoreWith o c n1 n2 praw g m1 m2).map (·.valid) := by
  unfold scoreCoreWith
  simp only
  by_cases hn : n1 < c.nCellsMin ∨ n2 < c.nCellsMin
  · rw [if_pos hn, if_pos hn.symm]
  · rw [if_neg hn, if_neg (fun h => hn h.symm)]
    cases penetranceFromStats c.th c.exact c.nValid (allowedMask g.length c.geneIdx) g with
    | error e => rfl
    | ok pen1 =>
      simp only
      split
      · rfl
      · cases penetranceFromStats c.th c.exact c.nValid _ g with
        | error e => rfl
        | ok pen2 => rfl

/-! ### chunks of pairs, per-chunk sparse tables, merge -/

theorem indptrFrom_append (off : Nat) (a b : List (List Nat)) :
    indptrFrom off (a ++ b) = indptrFrom off a ++ indptrFrom (off + a.flatten.length) b := by
  induction a generalizing off with
  | nil => simp [indptrFrom]
  | cons r rs ih =>
    simp only [List.cons_append, indptrFrom, ih, List.flatten_cons, List.length_append]
    rw [Nat.add_assoc]

theorem indptrFrom_shift (off : Nat) (a : List (List Nat)) :
    (indptrFrom 0 a).map (· + off) = indptrFrom off a := by
  have gen : ∀ k, (indptrFrom k a).map (· + off) = indptrFrom (k + off) a := by
    induction a with
    | nil => intro k; rfl
    | cons r rs ih =>
      intro k
      simp only [indptrFrom, List.map_cons, ih]
      congr 2; omega
  simpa using gen 0

theorem mergeGo_lookup (off : Nat) (cs : List (List (List Nat))) :
    mergeGo off (cs.map lookupToSparse) = (indptrFrom off cs.flatten, cs.flatten.flatten) := by
  induction cs generalizing off with
  | nil => rfl
  | cons c cs ih =>
    simp only [List.map_cons, lookupToSparse, mergeGo, ih, List.dropLast_concat,
      indptrFrom_shift, List.flatten_cons, indptrFrom_append, List.flatten_append]

theorem chunksOf_flatten {α} (n : Nat) (l : List α) : (chunksOf n l).flatten = l := by
  induction h : l.length using Nat.strong_induction_on generalizing l with
  | _ k ih =>
    unfold chunksOf
    by_cases hc : n = 0 ∨ l = []
    · rw [dif_pos hc]
      by_cases hl : l = []
      · simp [hl]
      · simp [hl]
    · rw [dif_neg hc]
      have hn : n ≠ 0 := fun e => hc (Or.inl e)
      have hl : l ≠ [] := fun e => hc (Or.inr e)
      have hpos : 0 < l.length := List.length_pos_iff.mpr hl
      simp only [List.flatten_cons]
      rw [ih (l.drop n).length (by simp only [List.length_drop]; omega) (l.drop n) rfl]
      exact List.take_append_drop n l

/-- merging the per-chunk tables gives the table of all pairs, for every chunk size -/
theorem merge_chunks (nPer : Nat) (rows : List (List Nat)) :
    mergeSparse ((chunksOf nPer rows).map lookupToSparse) = lookupToSparse rows := by
  unfold mergeSparse
  simp only [mergeGo_lookup, chunksOf_flatten]
  rfl

theorem chunksOf_eq {α} (n : Nat) (l : List α) :
    chunksOf n l = if n = 0 ∨ l = [] then (if l = [] then [] else [l])
      else l.take n :: chunksOf n (l.drop n) := by
  rw [chunksOf]
  split <;> rfl

theorem chunksOf_map {α β} (f : α → β) (n : Nat) (l : List α) :
    (chunksOf n l).map (List.map f) = chunksOf n (l.map f) := by
  induction hlen : l.length using Nat.strong_induction_on generalizing l with
  | _ k ih =>
    rw [chunksOf_eq n l, chunksOf_eq n (l.map f)]
    by_cases hc : n = 0 ∨ l = []
    · have hc' : n = 0 ∨ l.map f = [] := by
        rcases hc with h | h
        · exact Or.inl h
        · exact Or.inr (by simp [h])
      rw [if_pos hc, if_pos hc']
      by_cases hl : l = []
      · simp [hl]
      · simp [hl]
    · have hn : n ≠ 0 := fun e => hc (Or.inl e)
      have hl : l ≠ [] := fun e => hc (Or.inr e)
      have hc' : ¬ (n = 0 ∨ l.map f = []) := by
        rintro (h | h)
        · exact hn h
        · exact hl (by simpa using h)
      have hpos : 0 < l.length := List.length_pos_iff.mpr hl
      rw [if_neg hc, if_neg hc']
      simp only [List.map_cons, List.map_take]
      rw [ih (l.drop n).length (by simp only [List.length_drop]; omega) (l.drop n) rfl,
        List.map_drop]

/-! ### no error on well-formed input -/

theorem listMax_some {l : List Rat} (h : l ≠ []) : ∃ m, listMax l = some m := by
  cases l with
  | nil => exact absurd rfl h
  | cons x xs => exact ⟨_, rfl⟩

theorem penetranceDistance_total {t : Thresholds} {g : List GeneScore} (ht : ThresholdsOK t)
    (hg : g ≠ []) : ∃ d, penetranceDistance t g = .ok d ∧ d.length = g.length := by
  unfold penetranceDistance
  rw [checkThresholds_ok.mpr ht]
  simp only
  have hne : ∀ f : GeneScore → Rat, g.map f ≠ [] := by
    intro f; simpa using hg
  obtain ⟨a, ha⟩ := listMax_some (hne (rawQdiffDist t))
  obtain ⟨b, hb⟩ := listMax_some (hne (rawQ1Dist t))
  obtain ⟨c, hc⟩ := listMax_some (hne (rawFoldDist t))
  have : badDist t g = some (max a (max b c) + 100) := by
    unfold badDist; rw [ha, hb, hc]
  rw [this]
  exact ⟨_, rfl, by simp⟩

theorem kth_some {l : List Rat} {k : Nat} (h : k < l.length) : ∃ c, kth l k = some c := by
  unfold kth
  have : k < (l.mergeSort (fun a b => decide (a ≤ b))).length := by
    rw [List.length_mergeSort]; exact h
  exact ⟨_, List.getElem?_eq_getElem this⟩

/-- the approximate penetrance test never fails on a non-empty gene list with thresholds above
their floors, whatever `n_valid` -/
theorem approx_total {t : Thresholds} (nValid : Nat) {g : List GeneScore} (ht : ThresholdsOK t)
    (hg : g ≠ []) : ∃ m, approxPenetranceTest t nValid g = .ok m ∧ m.length = g.length := by
  obtain ⟨d, hd, hlen⟩ := penetranceDistance_total ht hg
  unfold approxPenetranceTest
  simp only [hd]
  split
  · exact ⟨_, rfl, by simp [hlen]⟩
  · rename_i hcount
    have hpos : 0 < g.length := List.length_pos_iff.mpr hg
    have hk : min nValid g.length - 1 < d.length := by
      rw [hlen]
      have := Nat.min_le_right nValid g.length
      omega
    obtain ⟨c1, h1⟩ := kth_some (l := d.map (·.q1)) (k := min nValid g.length - 1) (by simpa using hk)
    obtain ⟨c2, h2⟩ := kth_some (l := d.map (·.qdiff)) (k := min nValid g.length - 1) (by simpa using hk)
    obtain ⟨c3, h3⟩ := kth_some (l := d.map (·.fold)) (k := min nValid g.length - 1) (by simpa using hk)
    rw [h1, h2, h3]
    exact ⟨_, rfl, by simp [hlen]⟩

theorem penetranceFromStats_total {t : Thresholds} (exact : Bool) (nValid : Nat)
    {allowed : List Bool} {g : List GeneScore} (ht : ThresholdsOK t) (hg : g ≠ [])
    (hlen : allowed.length = g.length) :
    ∃ m, penetranceFromStats t exact nValid allowed g = .ok m ∧ m.length = g.length := by
  have hml : (maskScores allowed g).length = g.length := by
    unfold maskScores; simp [hlen]
  have hne : maskScores allowed g ≠ [] := by
    intro e
    rw [e] at hml
    exact hg (List.length_eq_zero_iff.mp hml.symm)
  unfold penetranceFromStats penetranceTests
  cases exact with
  | true => exact ⟨_, rfl, by simp [hml]⟩
  | false =>
    simp only [Bool.false_eq_true, if_false]
    obtain ⟨m, hm, hl⟩ := approx_total nValid ht hne
    exact ⟨m, hm, by rw [hl, hml]⟩

theorem length_allowedMask (n : Nat) (gi : Option (List Nat)) : (allowedMask n gi).length = n := by
  cases gi <;> simp [allowedMask]

/-- `score_differential_genes` never fails when the thresholds are above their floors and the
arrays have one entry per gene -/
theorem scoreCore_total (o : List Nat) (c : Config) (n1 n2 : Nat) {praw : List Rat}
    {g : List GeneScore} (m1 m2 : List Rat) (ht : ThresholdsOK c.th) (hg : g ≠ [])
    (hp : praw.length = g.length) : ∃ out, scoreCoreWith o c n1 n2 praw g m1 m2 = .ok out := by
  unfold scoreCoreWith
  simp only
  split
  · exact ⟨_, rfl⟩
  · obtain ⟨pen1, h1, _⟩ := penetranceFromStats_total c.exact c.nValid ht hg
      (length_allowedMask g.length c.geneIdx)
    rw [h1]
    simp only
    split
    · exact ⟨_, rfl⟩
    · have hl2 : (andL (allowedMask g.length c.geneIdx)
          ((approxCorrectTtestWith o praw c.th.pTh).map (fun p => decide (p < c.th.pTh)))).length
          = g.length := by
        unfold andL
        simp [length_allowedMask, hp]
      obtain ⟨pen2, h2, _⟩ := penetranceFromStats_total c.exact c.nValid ht hg hl2
      rw [h2]
      exact ⟨_, rfl⟩

/-- `_get_validity_mask` never fails when there is at least one gene (fix 6815ee0) -/
theorem getValidityMask_total (nValid : Nat) {nGenes : Nat} (row : List (Nat × Rat))
    (gi : Option (List Nat)) (hn : 0 < nGenes) :
    ∃ v, getValidityMask nValid nGenes row gi = .ok v := by
  unfold getValidityMask
  simp only
  have hne : (List.range nGenes).map (maskDist0 row) ≠ [] := by
    intro e
    have := congrArg List.length e
    simp at this
    omega
  obtain ⟨good, hgood⟩ := listMax_some hne
  rw [hgood]
  simp only
  split
  · rename_i hcount
    have hk : min nValid nGenes - 1 <
        ((List.range nGenes).map (maskDist row gi (2 * (good + 1)))).length := by
      simp only [List.length_map, List.length_range]
      have := Nat.min_le_right nValid nGenes
      omega
    obtain ⟨c, hc⟩ := kth_some hk
    rw [hc]
    exact ⟨_, rfl⟩
  · exact ⟨_, rfl⟩

theorem maskRoute_total (o : List Nat) (r16 : Rat → Rat) {t : Thresholds} (nValid : Nat)
    (gi : Option (List Nat)) (n1 n2 : Nat) (praw : List Rat) {g : List GeneScore}
    (m1 m2 : List Rat) (ht : ThresholdsOK t) (hg : g ≠ []) :
    ∃ out, maskRouteWith o r16 t nValid gi n1 n2 praw g m1 m2 = .ok out := by
  have hpos : 0 < g.length := List.length_pos_iff.mpr hg
  unfold maskRouteWith pValuesWorkerRowWith
  split
  · rename_i row hrow
    split at hrow
    · cases hrow
    · obtain ⟨d, hd, _⟩ := penetranceDistance_total ht hg
      simp only [hd] at hrow
      cases hrow
  · rename_i row hrow
    obtain ⟨v, hv⟩ := getValidityMask_total nValid row gi hpos
    rw [hv]
    exact ⟨_, rfl⟩

/-! ### chunks handed to the workers -/

theorem diffs_range' (a k : Nat) :
    List.zipWith (fun (x y : Nat) => (y : Int) - (x : Int)) (List.range' a (k + 1))
      (List.range' (a + 1) k) = List.replicate k 1 := by
  induction k generalizing a with
  | zero => simp
  | succ k ih =>
    rw [List.range'_succ (s := a) (n := k + 1)]
    conv_lhs => arg 3; rw [List.range'_succ (s := a + 1) (n := k)]
    simp only [List.zipWith_cons_cons, List.replicate_succ]
    rw [ih (a + 1)]
    congr 1
    push_cast; ring

theorem eraseDups_replicate_one (k : Nat) : (List.replicate (k + 1) (1 : Int)).eraseDups = [1] := by
  induction k with
  | zero => simp [List.eraseDups_cons]
  | succ n ih =>
    rw [List.replicate_succ, List.eraseDups_cons]
    rw [List.replicate_succ, List.eraseDups_cons] at ih
    have hf : ∀ m : Nat, (List.replicate m (1 : Int)).filter (fun b => !b == 1) = [] := by
      intro m
      apply List.filter_eq_nil_iff.mpr
      intro x hx
      simp [(List.mem_replicate.mp hx).2]
    rw [hf] at ih ⊢
    exact ih

/-- any run of consecutive pair indices, including a single one, passes the workers' test
(fix 9252ab1) -/
theorem consecutive_ok (a k : Nat) : consecutiveCheck (List.range' a k) = .ok () := by
  unfold consecutiveCheck
  simp only [List.length_range']
  split
  · rename_i hk
    obtain ⟨k', rfl⟩ : ∃ k', k = k' + 2 := ⟨k - 2, by omega⟩
    have ht : (List.range' a (k' + 2)).tail = List.range' (a + 1) (k' + 1) := by
      rw [List.range'_succ]; rfl
    rw [ht, diffs_range' a (k' + 1), eraseDups_replicate_one]
    simp
  · rfl

theorem nPerMain_mod8 (nPairs nProc : Nat) : nPerMain nPairs nProc % 8 = 0 ∧ 8 ≤ nPerMain nPairs nProc := by
  unfold nPerMain
  simp only
  constructor
  · rcases Nat.le_total 8 (min 1000000 (nPairs / (2 * nProc)) - min 1000000 (nPairs / (2 * nProc)) % 8) with h | h
    · rw [Nat.max_eq_right h]; omega
    · rw [Nat.max_eq_left h]
  · exact Nat.le_max_left _ _

/-! ### Welch statistic: symmetric in the two clusters -/

theorem nuNum_comm (v1 : Rat) (n1 : Nat) (v2 : Rat) (n2 : Nat) :
    nuNum v1 n1 v2 n2 = nuNum v2 n2 v1 n1 := by unfold nuNum; ring

theorem welch_swap (m1 v1 : Rat) (n1 : Nat) (m2 v2 : Rat) (n2 : Nat) :
    welchNu v1 n1 v2 n2 = welchNu v2 n2 v1 n1 ∧
    welchTSq m1 v1 n1 m2 v2 n2 = welchTSq m2 v2 n2 m1 v1 n1 := by
  constructor
  · unfold welchNu
    have h1 : nuDenom v1 n1 v2 n2 = nuDenom v2 n2 v1 n1 := by unfold nuDenom; ring
    rw [h1, nuNum_comm]
    by_cases h : n1 < 2 ∨ n2 < 2
    · rw [if_pos h, if_pos h.symm]
    · rw [if_neg h, if_neg (fun h' => h h'.symm)]
  · unfold welchTSq
    rw [nuNum_comm]
    have : (m1 - m2) * (m1 - m2) = (m2 - m1) * (m2 - m1) := by ring
    simp only [this]

/-! ### the pair list -/

theorem length_combos2 {α} (l : List α) : (combos2 l).length = l.length * (l.length - 1) / 2 := by
  induction l with
  | nil => simp [combos2]
  | cons a rest ih =>
    simp only [combos2, List.length_append, List.length_map, ih, List.length_cons,
      Nat.add_sub_cancel]
    have h : rest.length * (rest.length - 1) % 2 = 0 := by
      rcases Nat.even_or_odd rest.length with ⟨k, hk⟩ | ⟨k, hk⟩
      · rw [hk]; have : (k + k) * (k + k - 1) = 2 * (k * (k + k - 1)) := by ring
        rw [this]; simp
      · rw [hk]; have : (2 * k + 1) * (2 * k + 1 - 1) = 2 * ((2 * k + 1) * k) := by
          simp only [Nat.add_sub_cancel]; ring
        rw [this]; simp
    have e : (rest.length + 1) * rest.length = 2 * rest.length + rest.length * (rest.length - 1) := by
      cases rest.length with
      | zero => rfl
      | succ n => simp only [Nat.add_sub_cancel]; ring
    rw [e]
    omega

/-- for a strictly sorted leaf list the table has exactly one row for every pair `a < b` -/
theorem combos2_sorted {l : List Nat} (hs : l.Pairwise (· < ·)) :
    (combos2 l).Nodup ∧ ∀ a b, (a, b) ∈ combos2 l ↔ a ∈ l ∧ b ∈ l ∧ a < b := by
  induction l with
  | nil => simp [combos2]
  | cons x rest ih =>
    have hs' := (List.pairwise_cons.mp hs).2
    have hx := (List.pairwise_cons.mp hs).1
    obtain ⟨ihn, ihm⟩ := ih hs'
    have hnd : rest.Nodup := hs'.imp (fun h => ne_of_lt h)
    constructor
    · simp only [combos2]
      rw [List.nodup_append]
      refine ⟨?_, ihn, ?_⟩
      · exact List.Pairwise.map _ (fun a b (h : a ≠ b) => fun e => h (by simpa using e)) hnd
      · intro p hp q hq
        obtain ⟨b, hb, rfl⟩ := List.mem_map.mp hp
        obtain ⟨c, d⟩ := q
        have := (ihm c d).mp hq
        intro e
        simp only [Prod.mk.injEq] at e
        have hlt := hx c this.1
        omega
    · intro a b
      simp only [combos2, List.mem_append, List.mem_map, Prod.mk.injEq, List.mem_cons]
      constructor
      · rintro (⟨c, hc, rfl, rfl⟩ | h)
        · exact ⟨Or.inl rfl, Or.inr hc, hx _ hc⟩
        · obtain ⟨h1, h2, h3⟩ := (ihm a b).mp h
          exact ⟨Or.inr h1, Or.inr h2, h3⟩
      · rintro ⟨ha | ha, hb | hb, hlt⟩
        · omega
        · subst ha; exact Or.inl ⟨b, hb, rfl, rfl⟩
        · subst hb; have := hx a ha; omega
        · exact Or.inr ((ihm a b).mpr ⟨ha, hb, hlt⟩)


end CTM.RefMarkers
