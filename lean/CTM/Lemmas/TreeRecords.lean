import CTM.Lemmas.TreeDefs
namespace CTM.RawTree

/-! ### `tree[l]` on a bare list of levels -/

/-- `acc[l]` (empty when absent) — `RawTree.level` on the bare accumulator -/
def col (acc : List (Level × LevelMap)) (l : Level) : LevelMap := (acc.lookup l).getD []

theorem level_eq_col (t : RawTree) (l : Level) : t.level l = col t.levels l := rfl

/-! ### `setLevel` -/

theorem setLevel_keys (ls : List (Level × LevelMap)) (l : Level) (m : LevelMap) :
    (setLevel ls l m).map (·.1) = ls.map (·.1) := by
  unfold setLevel
  rw [List.map_map]
  apply List.map_congr_left
  rintro ⟨k, v⟩ _
  simp only [Function.comp]
  split <;> rfl

theorem lookup_setLevel (ls : List (Level × LevelMap)) (l : Level) (m : LevelMap) (k : Level) :
    (setLevel ls l m).lookup k =
      if k = l then (ls.lookup k).map (fun _ => m) else ls.lookup k := by
  induction ls with
  | nil => simp [setLevel]
  | cons kv ls ih =>
    obtain ⟨k', v'⟩ := kv
    have hc : setLevel ((k', v') :: ls) l m =
        (if k' == l then (k', m) else (k', v')) :: setLevel ls l m := rfl
    rw [hc]
    by_cases hk' : k' = l
    · subst hk'
      by_cases hk : k = k'
      · subst hk; simp
      · have h1 : (k == k') = false := by simpa using hk
        simp [List.lookup_cons, h1, ih]
    · have h2 : (k' == l) = false := by simpa using hk'
      by_cases hk : k = k'
      · subst hk; simp [h2, hk']
      · have h1 : (k == k') = false := by simpa using hk
        simp [List.lookup_cons, h1, h2, ih]

theorem col_setLevel_self {ls : List (Level × LevelMap)} {l : Level} (m : LevelMap)
    (h : l ∈ ls.map (·.1)) : col (setLevel ls l m) l = m := by
  unfold col
  rw [lookup_setLevel]
  cases hl : ls.lookup l with
  | none => exact absurd h (lookup_eq_none_iff'.1 hl)
  | some v => simp

theorem col_setLevel_ne {ls : List (Level × LevelMap)} {l k : Level} (m : LevelMap)
    (h : k ≠ l) : col (setLevel ls l m) k = col ls k := by
  unfold col
  rw [lookup_setLevel, if_neg h]

theorem mem_setLevel {ls : List (Level × LevelMap)} {l : Level} {m : LevelMap} {k : Level}
    {v : LevelMap} (h : (k, v) ∈ setLevel ls l m) : v = m ∨ (k, v) ∈ ls := by
  unfold setLevel at h
  obtain ⟨⟨k', v'⟩, hm, he⟩ := List.mem_map.1 h
  by_cases hk : (k' == l) = true
  · simp only [hk, if_true] at he
    left; exact (Prod.mk.inj he).2.symm
  · simp only [hk] at he
    right; rw [← he]; exact hm

/-! ### `dictAdd` -/

theorem dictAdd_of_none {m : LevelMap} {k : Node} (v : Nat) (s : Bool) (h : m.lookup k = none) :
    dictAdd m k v s = m ++ [(k, [v])] := by
  simp [dictAdd, h]

theorem dictAdd_of_some {m : LevelMap} {k : Node} (v : Nat) (s : Bool) {vs0 : List Nat}
    (h : m.lookup k = some vs0) :
    dictAdd m k v s = m.map (fun (kv : Node × List Nat) =>
      if kv.1 == k then (kv.1, if s && kv.2.contains v then kv.2 else kv.2 ++ [v]) else (kv.1, kv.2)) := by
  simp [dictAdd, h]

theorem dictAdd_keys_of_some {m : LevelMap} {k : Node} (v : Nat) (s : Bool) {vs0 : List Nat}
    (h : m.lookup k = some vs0) : (dictAdd m k v s).map (·.1) = m.map (·.1) := by
  rw [dictAdd_of_some v s h, List.map_map]
  apply List.map_congr_left
  rintro ⟨k', v'⟩ _
  simp only [Function.comp]
  split <;> rfl

/-- `dictAdd` never duplicates a key -/
theorem dictAdd_keys_nodup {m : LevelMap} (k : Node) (v : Nat) (s : Bool)
    (h : (m.map (·.1)).Nodup) : ((dictAdd m k v s).map (·.1)).Nodup := by
  cases hl : m.lookup k with
  | none =>
    rw [dictAdd_of_none v s hl, List.map_append, List.nodup_append]
    refine ⟨h, by simp, ?_⟩
    intro a ha b hb hab
    simp at hb
    subst hb; subst hab
    exact lookup_eq_none_iff'.1 hl ha
  | some vs0 => rw [dictAdd_keys_of_some v s hl]; exact h

/-- the keys afterwards: the old ones and `k` -/
theorem mem_keys_dictAdd {m : LevelMap} {k : Node} {v : Nat} {s : Bool} {k' : Node} :
    k' ∈ (dictAdd m k v s).map (·.1) ↔ k' ∈ m.map (·.1) ∨ k' = k := by
  cases hl : m.lookup k with
  | none =>
    rw [dictAdd_of_none v s hl, List.map_append, List.mem_append]
    simp
  | some vs0 =>
    rw [dictAdd_keys_of_some v s hl]
    constructor
    · exact Or.inl
    · rintro (h | h)
      · exact h
      · subst h
        exact List.mem_map.2 ⟨_, mem_of_lookup hl, rfl⟩

/-- the entries afterwards -/
theorem mem_dictAdd {m : LevelMap} {k : Node} {v : Nat} {s : Bool} {k' : Node} {vs' : List Nat} :
    (k', vs') ∈ dictAdd m k v s ↔
      (m.lookup k = none ∧ ((k', vs') ∈ m ∨ (k' = k ∧ vs' = [v]))) ∨
      (m.lookup k ≠ none ∧ ∃ vs, (k', vs) ∈ m ∧
        vs' = if k' = k then (if s && vs.contains v then vs else vs ++ [v]) else vs) := by
  cases hl : m.lookup k with
  | none =>
    rw [dictAdd_of_none v s hl, List.mem_append]
    simp
  | some vs0 =>
    rw [dictAdd_of_some v s hl, List.mem_map]
    simp only [reduceCtorEq, false_and, false_or, ne_eq, not_false_eq_true, true_and]
    constructor
    · rintro ⟨⟨k1, vs1⟩, hm, he⟩
      by_cases hk : k1 = k
      · subst hk
        simp only [beq_self_eq_true, if_true] at he
        obtain ⟨h1, h2⟩ := Prod.mk.inj he
        subst h1
        exact ⟨vs1, hm, by simp [← h2]⟩
      · have hk' : (k1 == k) = false := by simpa using hk
        simp only [hk'] at he
        obtain ⟨h1, h2⟩ := Prod.mk.inj he
        subst h1; subst h2
        exact ⟨vs1, hm, by simp [hk]⟩
    · rintro ⟨vs, hm, he⟩
      refine ⟨(k', vs), hm, ?_⟩
      by_cases hk : k' = k
      · subst hk; simp [he]
      · have hk' : (k' == k) = false := by simpa using hk
        simp [hk', he, hk]

/-- members of the value lists afterwards: the old ones and `v` under `k` -/
theorem mem_val_dictAdd {m : LevelMap} {k : Node} {v : Nat} {s : Bool} {k' : Node} {v' : Nat} :
    (∃ vs, (k', vs) ∈ dictAdd m k v s ∧ v' ∈ vs) ↔
      (∃ vs, (k', vs) ∈ m ∧ v' ∈ vs) ∨ (k' = k ∧ v' = v) := by
  constructor
  · rintro ⟨vs', hm, hv⟩
    rcases mem_dictAdd.1 hm with ⟨_, h | ⟨h1, h2⟩⟩ | ⟨_, vs, hvs, he⟩
    · exact Or.inl ⟨vs', h, hv⟩
    · subst h1; subst h2
      right; simpa using hv
    · by_cases hk : k' = k
      · subst hk
        simp only [if_true] at he
        split at he
        · subst he; exact Or.inl ⟨_, hvs, hv⟩
        · subst he
          rcases List.mem_append.1 hv with h | h
          · exact Or.inl ⟨_, hvs, h⟩
          · right; simpa using h
      · simp only [hk, if_false] at he
        subst he; exact Or.inl ⟨_, hvs, hv⟩
  · rintro (⟨vs, hm, hv⟩ | ⟨h1, h2⟩)
    · cases hl : m.lookup k with
      | none => exact ⟨vs, mem_dictAdd.2 (Or.inl ⟨hl, Or.inl hm⟩), hv⟩
      | some vs0 =>
        refine ⟨_, mem_dictAdd.2 (Or.inr ⟨by simp [hl], vs, hm, rfl⟩), ?_⟩
        split
        · split
          · exact hv
          · exact List.mem_append_left _ hv
        · exact hv
    · subst h1; subst h2
      cases hl : m.lookup k' with
      | none => exact ⟨[v'], mem_dictAdd.2 (Or.inl ⟨hl, Or.inr ⟨rfl, rfl⟩⟩), by simp⟩
      | some vs0 =>
        refine ⟨_, mem_dictAdd.2 (Or.inr ⟨by simp [hl], vs0, mem_of_lookup hl, rfl⟩), ?_⟩
        simp only [if_true]
        split
        · rename_i h
          simp only [Bool.and_eq_true, List.contains_iff_mem] at h
          exact h.2
        · simp

/-- value lists stay duplicate free under `set.add` -/
theorem dictAdd_set_nodup {m : LevelMap} {k : Node} {v : Nat}
    (h : ∀ k' vs, (k', vs) ∈ m → vs.Nodup) :
    ∀ k' vs, (k', vs) ∈ dictAdd m k v true → vs.Nodup := by
  intro k' vs' hm
  rcases mem_dictAdd.1 hm with ⟨_, h1 | ⟨_, h2⟩⟩ | ⟨_, vs, hvs, he⟩
  · exact h _ _ h1
  · subst h2; simp
  · have hn := h _ _ hvs
    by_cases hc : v ∈ vs
    · have : vs' = vs := by
        rw [he]; split
        · simp [hc]
        · rfl
      rw [this]; exact hn
    · have : vs' = vs ∨ vs' = vs ++ [v] := by
        rw [he]; split
        · right; simp [hc]
        · left; rfl
      rcases this with h1 | h1
      · rw [h1]; exact hn
      · rw [h1, List.nodup_append]
        refine ⟨hn, by simp, ?_⟩
        intro a ha b hb hab
        simp at hb
        subst hb; subst hab; exact hc ha

/-- value lists stay duplicate free under `list.append` of a fresh value -/
theorem dictAdd_list_nodup {m : LevelMap} {k : Node} {v : Nat}
    (h : ∀ k' vs, (k', vs) ∈ m → vs.Nodup) (hv : ∀ k' vs, (k', vs) ∈ m → v ∉ vs) :
    ∀ k' vs, (k', vs) ∈ dictAdd m k v false → vs.Nodup := by
  intro k' vs' hm
  rcases mem_dictAdd.1 hm with ⟨_, h1 | ⟨_, h2⟩⟩ | ⟨_, vs, hvs, he⟩
  · exact h _ _ h1
  · subst h2; simp
  · have hn := h _ _ hvs
    have hc := hv _ _ hvs
    have : vs' = vs ∨ vs' = vs ++ [v] := by
      rw [he]; split
      · right; simp
      · left; rfl
    rcases this with h1 | h1
    · rw [h1]; exact hn
    · rw [h1, List.nodup_append]
      refine ⟨hn, by simp, ?_⟩
      intro a ha b hb hab
      simp at hb
      subst hb; subst hab; exact hc ha


/-! ### `addRecord` as two named steps -/

/-- leaf column: `tree[leaf_column][this_leaf].append(i_row)` -/
def leafStep (cols : List Level) (acc : List (Level × LevelMap)) (i : Nat) (r : List Node) :
    List (Level × LevelMap) :=
  match (cols.zip r).getLast? with
  | none => acc
  | some (ll, leaf) => setLevel acc ll (dictAdd (col acc ll) leaf i false)

/-- one `(parent_level, child_level)` step: `tree[pl][p].add(c)` -/
def pairStep (acc : List (Level × LevelMap)) (x : (Level × Node) × (Level × Node)) :
    List (Level × LevelMap) :=
  setLevel acc x.1.1 (dictAdd (col acc x.1.1) x.1.2 x.2.2 true)

theorem addRecord_eq (cols : List Level) (acc : List (Level × LevelMap)) (i : Nat) (r : List Node) :
    addRecord cols acc i r =
      ((cols.zip r).zip (cols.zip r).tail).foldl pairStep (leafStep cols acc i r) := rfl

theorem foldl_pairStep_keys (ps : List ((Level × Node) × (Level × Node)))
    (acc : List (Level × LevelMap)) :
    (ps.foldl pairStep acc).map (·.1) = acc.map (·.1) := by
  induction ps generalizing acc with
  | nil => rfl
  | cons x ps ih => rw [List.foldl_cons, ih, pairStep, setLevel_keys]

theorem leafStep_keys (cols : List Level) (acc : List (Level × LevelMap)) (i : Nat) (r : List Node) :
    (leafStep cols acc i r).map (·.1) = acc.map (·.1) := by
  unfold leafStep
  split
  · rfl
  · rw [setLevel_keys]

/-- `addRecord` never changes the level keys -/
theorem addRecord_keys (cols : List Level) (acc : List (Level × LevelMap)) (i : Nat) (r : List Node) :
    (addRecord cols acc i r).map (·.1) = acc.map (·.1) := by
  rw [addRecord_eq, foldl_pairStep_keys, leafStep_keys]

/-- invariants that do not mention the records -/
theorem go_induct (cols : List Level) (P : List (Level × LevelMap) → Prop)
    (step : ∀ acc i r, P acc → P (addRecord cols acc i r)) :
    ∀ (rs : List (List Node)) (acc : List (Level × LevelMap)) (i : Nat),
      P acc → P (fromRecordsRaw.go cols acc i rs)
  | [], _, _, h => h
  | r :: rs, acc, i, h => go_induct cols P step rs _ (i+1) (step acc i r h)

theorem fromRecordsRaw_levels (cols : List Level) (recs : List (List Node)) :
    (fromRecordsRaw cols recs).levels =
      fromRecordsRaw.go cols (cols.map (fun c => (c, []))) 0 recs := rfl

theorem fromRecordsRaw_hierarchy (cols : List Level) (recs : List (List Node)) :
    (fromRecordsRaw cols recs).hierarchy = cols := rfl

/-- `setLevel` never changes keys -/
theorem fromRecordsRaw_keys (cols : List Level) (recs : List (List Node)) :
    (fromRecordsRaw cols recs).levels.map (·.1) = cols := by
  rw [fromRecordsRaw_levels]
  refine go_induct cols (fun acc => acc.map (·.1) = cols) ?_ recs _ 0 ?_
  · intro acc i r h; rw [addRecord_keys]; exact h
  · simp [List.map_map, Function.comp_def]

/-- every level dict has distinct node keys -/
def NodeKeysOK (acc : List (Level × LevelMap)) : Prop :=
  ∀ l m, (l, m) ∈ acc → (m.map (·.1)).Nodup

theorem col_keys_nodup {acc : List (Level × LevelMap)} (h : NodeKeysOK acc) (l : Level) :
    ((col acc l).map (·.1)).Nodup := by
  unfold col
  cases hl : acc.lookup l with
  | none => exact List.nodup_nil
  | some m => exact h _ _ (mem_of_lookup hl)

theorem NodeKeysOK.setLevel_dictAdd {acc : List (Level × LevelMap)} (h : NodeKeysOK acc)
    (l : Level) (k : Node) (v : Nat) (s : Bool) :
    NodeKeysOK (setLevel acc l (dictAdd (col acc l) k v s)) := by
  intro l' m' hm
  rcases mem_setLevel hm with h1 | h1
  · rw [h1]; exact dictAdd_keys_nodup k v s (col_keys_nodup h l)
  · exact h _ _ h1

theorem NodeKeysOK.foldl_pairStep (ps : List ((Level × Node) × (Level × Node)))
    {acc : List (Level × LevelMap)} (h : NodeKeysOK acc) : NodeKeysOK (ps.foldl pairStep acc) := by
  induction ps generalizing acc with
  | nil => exact h
  | cons x ps ih => rw [List.foldl_cons]; exact ih (h.setLevel_dictAdd _ _ _ _)

theorem NodeKeysOK.addRecord {acc : List (Level × LevelMap)} (h : NodeKeysOK acc)
    (cols : List Level) (i : Nat) (r : List Node) : NodeKeysOK (addRecord cols acc i r) := by
  rw [addRecord_eq]
  apply NodeKeysOK.foldl_pairStep
  unfold leafStep
  split
  · exact h
  · exact h.setLevel_dictAdd _ _ _ _

theorem fromRecordsRaw_nodeKeysOK (cols : List Level) (recs : List (List Node)) :
    NodeKeysOK (fromRecordsRaw cols recs).levels := by
  rw [fromRecordsRaw_levels]
  refine go_induct cols NodeKeysOK (fun acc i r h => h.addRecord cols i r) recs _ 0 ?_
  intro l m hm
  obtain ⟨c, _, hc⟩ := List.mem_map.1 hm
  rw [← (Prod.mk.inj hc).2]; exact List.nodup_nil

/-- `dictAdd` never duplicates a key -/
theorem fromRecordsRaw_dictOK {cols : List Level} (hc : cols.Nodup) (recs : List (List Node)) :
    DictOK (fromRecordsRaw cols recs) :=
  ⟨by rw [fromRecordsRaw_keys]; exact hc, fromRecordsRaw_nodeKeysOK cols recs⟩


/-! ### the columns after one record -/

/-- the `(parent, child)` steps touch distinct level keys, so each level sees exactly its own
step -/
theorem foldl_pairStep_col (ps : List ((Level × Node) × (Level × Node)))
    (acc : List (Level × LevelMap)) (hn : (ps.map (·.1.1)).Nodup) :
    (∀ l, l ∉ ps.map (·.1.1) → col (ps.foldl pairStep acc) l = col acc l) ∧
    (∀ x, x ∈ ps → x.1.1 ∈ acc.map (·.1) →
      col (ps.foldl pairStep acc) x.1.1 = dictAdd (col acc x.1.1) x.1.2 x.2.2 true) := by
  induction ps generalizing acc with
  | nil => exact ⟨fun _ _ => rfl, fun x hx => by cases hx⟩
  | cons x ps ih =>
    rw [List.map_cons, List.nodup_cons] at hn
    obtain ⟨ih1, ih2⟩ := ih (pairStep acc x) hn.2
    have hkeys : (pairStep acc x).map (·.1) = acc.map (·.1) := setLevel_keys _ _ _
    constructor
    · intro l hl
      rw [List.map_cons, List.mem_cons, not_or] at hl
      rw [List.foldl_cons, ih1 l hl.2]
      exact col_setLevel_ne _ hl.1
    · intro y hy hyk
      rw [List.foldl_cons]
      rcases List.mem_cons.1 hy with h | h
      · subst h
        rw [ih1 _ hn.1]
        exact col_setLevel_self _ hyk
      · have hne : y.1.1 ≠ x.1.1 := by
          intro he
          exact hn.1 (he ▸ List.mem_map.2 ⟨y, h, rfl⟩)
        rw [ih2 y h (by rw [hkeys]; exact hyk)]
        have : col (pairStep acc x) y.1.1 = col acc y.1.1 := col_setLevel_ne _ hne
        rw [this]

theorem map_fst_zip_prefix {α β} (l₁ : List α) (l₂ : List β) :
    (l₁.zip l₂).map Prod.fst <+: l₁ := by
  rw [List.zip_eq_zip_take_min, List.map_fst_zip (by simp)]
  exact List.take_prefix _ _

theorem mem_zip_tail {α} {l : List α} {a b : α} :
    (a, b) ∈ l.zip l.tail ↔ ∃ j, l[j]? = some a ∧ l[j+1]? = some b := by
  rw [List.mem_iff_getElem?]
  simp only [List.getElem?_zip_eq_some, List.getElem?_tail]

theorem pairs_keys_nodup {cols : List Level} (hc : cols.Nodup) (r : List Node) :
    (((cols.zip r).zip (cols.zip r).tail).map (·.1.1)).Nodup := by
  have h1 : ((cols.zip r).zip (cols.zip r).tail).map (·.1.1) =
      (((cols.zip r).zip (cols.zip r).tail).map Prod.fst).map Prod.fst := by
    rw [List.map_map]; rfl
  rw [h1]
  have p1 := (map_fst_zip_prefix (cols.zip r) (cols.zip r).tail).map Prod.fst
  have p2 := map_fst_zip_prefix cols r
  exact List.Nodup.sublist (p1.trans p2).sublist hc

theorem mem_pairs {cols : List Level} {r : List Node} {x : (Level × Node) × (Level × Node)} :
    x ∈ (cols.zip r).zip (cols.zip r).tail ↔
      ∃ j, cols[j]? = some x.1.1 ∧ r[j]? = some x.1.2 ∧
        cols[j+1]? = some x.2.1 ∧ r[j+1]? = some x.2.2 := by
  obtain ⟨a, b⟩ := x
  rw [mem_zip_tail]
  simp only [List.getElem?_zip_eq_some, and_assoc]

theorem getLast?_eq_some_getElem? {α} {l : List α} {a : α} (h : l.getLast? = some a) :
    l[l.length - 1]? = some a := by
  rw [← List.getLast?_eq_getElem?]; exact h

theorem zip_getLast? {cols : List Level} {r : List Node} (hr : r.length = cols.length)
    {l : Level} {leaf : Node} (hl : cols.getLast? = some l) (hf : r.getLast? = some leaf) :
    (cols.zip r).getLast? = some (l, leaf) := by
  rw [List.getLast?_eq_getElem?, List.getElem?_zip_eq_some, List.length_zip, hr, Nat.min_self]
  exact ⟨getLast?_eq_some_getElem? hl, hr ▸ getLast?_eq_some_getElem? hf⟩

theorem leafStep_eq {cols : List Level} {r : List Node} (hr : r.length = cols.length)
    {l : Level} {leaf : Node} (hl : cols.getLast? = some l) (hf : r.getLast? = some leaf)
    (acc : List (Level × LevelMap)) (i : Nat) :
    leafStep cols acc i r = setLevel acc l (dictAdd (col acc l) leaf i false) := by
  unfold leafStep
  rw [zip_getLast? hr hl hf]

/-- index of a level in a duplicate free list of columns is unique -/
theorem idx_unique {cols : List Level} (hc : cols.Nodup) {i j : Nat} {l : Level}
    (hi : cols[i]? = some l) (hj : cols[j]? = some l) : i = j := by
  have hi' : i < cols.length := by
    rcases List.getElem?_eq_some_iff.1 hi with ⟨h, _⟩; exact h
  exact (List.getElem?_inj hi' hc).1 (hi.trans hj.symm)

theorem lt_of_getElem?_eq_some {α} {l : List α} {i : Nat} {a : α} (h : l[i]? = some a) :
    i < l.length := by
  rcases List.getElem?_eq_some_iff.1 h with ⟨h, _⟩; exact h

/-- leaf column after one record: `tree[leaf_column][leaf].append(i)` -/
theorem addRecord_col_leaf {cols : List Level} {acc : List (Level × LevelMap)} {r : List Node}
    (hc : cols.Nodup) (hk : acc.map (·.1) = cols) (hr : r.length = cols.length) (i : Nat)
    {l : Level} {leaf : Node} (hl : cols.getLast? = some l) (hf : r.getLast? = some leaf) :
    col (addRecord cols acc i r) l = dictAdd (col acc l) leaf i false := by
  rw [addRecord_eq]
  have hl' := getLast?_eq_some_getElem? hl
  have hnot : l ∉ ((cols.zip r).zip (cols.zip r).tail).map (·.1.1) := by
    intro hm
    obtain ⟨x, hx, he⟩ := List.mem_map.1 hm
    obtain ⟨j, h1, _, h3, _⟩ := mem_pairs.1 hx
    have := lt_of_getElem?_eq_some h3
    have := idx_unique hc h1 (he ▸ hl')
    omega
  rw [(foldl_pairStep_col _ _ (pairs_keys_nodup hc r)).1 l hnot, leafStep_eq hr hl hf]
  apply col_setLevel_self
  rw [hk]
  exact List.mem_of_getElem? hl'

/-- inner column after one record: `tree[parent_level][p].add(c)` -/
theorem addRecord_col_inner {cols : List Level} {acc : List (Level × LevelMap)} {r : List Node}
    (hc : cols.Nodup) (hk : acc.map (·.1) = cols) (hr : r.length = cols.length) (i : Nat)
    {j : Nat} {l : Level} {p c : Node} (hl : cols[j]? = some l) (hp : r[j]? = some p)
    (hch : r[j+1]? = some c) :
    col (addRecord cols acc i r) l = dictAdd (col acc l) p c true := by
  rw [addRecord_eq]
  have hj1 : j + 1 < cols.length := hr ▸ lt_of_getElem?_eq_some hch
  have hx : ((l, p), (cols[j+1], c)) ∈ (cols.zip r).zip (cols.zip r).tail :=
    mem_pairs.2 ⟨j, hl, hp, List.getElem?_eq_getElem hj1, hch⟩
  have hlk : l ∈ (leafStep cols acc i r).map (·.1) := by
    rw [leafStep_keys, hk]; exact List.mem_of_getElem? hl
  have := (foldl_pairStep_col _ (leafStep cols acc i r) (pairs_keys_nodup hc r)).2 _ hx hlk
  rw [this]
  -- the leaf step did not touch column `j`
  have hne : cols ≠ [] := by intro h; rw [h] at hj1; simp at hj1
  have hrne : r ≠ [] := by intro h; rw [h] at hr; simp at hr; omega
  have hl0 := List.getLast?_eq_some_getLast hne
  have hf0 := List.getLast?_eq_some_getLast hrne
  rw [leafStep_eq hr hl0 hf0]
  have : l ≠ cols.getLast hne := by
    intro he
    have := idx_unique hc hl (he ▸ getLast?_eq_some_getElem? hl0)
    omega
  show dictAdd (col (setLevel acc _ _) l) p c true = _
  rw [col_setLevel_ne _ this]


/-- either kind of column: some `dictAdd` under the record's label of that column -/
theorem addRecord_col_any {cols : List Level} {acc : List (Level × LevelMap)} {r : List Node}
    (hc : cols.Nodup) (hk : acc.map (·.1) = cols) (hr : r.length = cols.length) (i : Nat)
    {j : Nat} {l : Level} (hl : cols[j]? = some l) :
    ∃ k v s, r[j]? = some k ∧ col (addRecord cols acc i r) l = dictAdd (col acc l) k v s := by
  have hj := lt_of_getElem?_eq_some hl
  by_cases hj1 : j + 1 < cols.length
  · exact ⟨r[j]'(by omega), r[j+1]'(by omega), true, List.getElem?_eq_getElem _,
      addRecord_col_inner hc hk hr i hl (List.getElem?_eq_getElem _) (List.getElem?_eq_getElem _)⟩
  · have hj2 : j = cols.length - 1 := by omega
    have hll : cols.getLast? = some l := by rw [List.getLast?_eq_getElem?, ← hj2]; exact hl
    have hrl : r.getLast? = some (r[j]'(by omega)) := by
      have : r.length - 1 = j := by omega
      rw [List.getLast?_eq_getElem?, this]; exact List.getElem?_eq_getElem _
    exact ⟨r[j]'(by omega), i, false, List.getElem?_eq_getElem _,
      addRecord_col_leaf hc hk hr i hll hrl⟩

/-! ### the invariant of the record loop -/

/-- what the accumulator `acc` knows after the records `done` (row index = position) -/
structure Inv (cols : List Level) (acc : List (Level × LevelMap)) (done : List (List Node)) :
    Prop where
  keys : acc.map (·.1) = cols
  nodes : ∀ (j : Nat) (l : Level), cols[j]? = some l → ∀ p : Node,
    p ∈ (col acc l).map (·.1) ↔ ∃ r : List Node, r ∈ done ∧ r[j]? = some p
  children : ∀ (j : Nat) (l : Level), cols[j]? = some l → j + 1 < cols.length → ∀ p c : Node,
    (∃ cs, (p, cs) ∈ col acc l ∧ c ∈ cs) ↔
      ∃ r : List Node, r ∈ done ∧ r[j]? = some p ∧ r[j+1]? = some c
  childNodup : ∀ (j : Nat) (l : Level), cols[j]? = some l → j + 1 < cols.length →
    ∀ p cs, (p, cs) ∈ col acc l → cs.Nodup
  rows : ∀ l, cols.getLast? = some l → ∀ leaf i,
    (∃ rows, (leaf, rows) ∈ col acc l ∧ i ∈ rows) ↔
      ∃ r : List Node, done[i]? = some r ∧ r.getLast? = some leaf
  rowsNodup : ∀ l, cols.getLast? = some l → ∀ leaf rows, (leaf, rows) ∈ col acc l → rows.Nodup

theorem col_init (cols : List Level) (l : Level) :
    col (cols.map (fun c => (c, ([] : LevelMap)))) l = [] := by
  unfold col
  cases h : List.lookup l (cols.map (fun c => (c, ([] : LevelMap)))) with
  | none => rfl
  | some m =>
    obtain ⟨c, _, hc⟩ := List.mem_map.1 (mem_of_lookup h)
    simp [← (Prod.mk.inj hc).2]

theorem Inv.init (cols : List Level) : Inv cols (cols.map (fun c => (c, []))) [] where
  keys := by simp [List.map_map, Function.comp_def]
  nodes := by intro j l _ p; rw [col_init]; simp
  children := by intro j l _ _ p c; rw [col_init]; simp
  childNodup := by intro j l _ _ p cs h; rw [col_init] at h; cases h
  rows := by intro l _ leaf i; rw [col_init]; simp
  rowsNodup := by intro l _ leaf rows h; rw [col_init] at h; cases h

theorem Inv.addRecord {cols : List Level} {acc : List (Level × LevelMap)}
    {done : List (List Node)} (h : Inv cols acc done) (hc : cols.Nodup) {r : List Node}
    (hr : r.length = cols.length) :
    Inv cols (addRecord cols acc done.length r) (done ++ [r]) where
  keys := by rw [addRecord_keys]; exact h.keys
  nodes := by
    intro j l hl p
    obtain ⟨k, v, s, hk, he⟩ := addRecord_col_any hc h.keys hr done.length hl
    rw [he, mem_keys_dictAdd, h.nodes j l hl p]
    constructor
    · rintro (⟨r', hr', hp⟩ | hp)
      · exact ⟨r', List.mem_append_left _ hr', hp⟩
      · exact ⟨r, by simp, by rw [hk, hp]⟩
    · rintro ⟨r', hr', hp⟩
      rcases List.mem_append.1 hr' with h1 | h1
      · exact Or.inl ⟨r', h1, hp⟩
      · rw [List.mem_singleton] at h1; subst h1
        right; rw [hk] at hp; exact (Option.some.inj hp).symm
  children := by
    intro j l hl hj p c
    have hp0 : r[j]? = some (r[j]'(by omega)) := List.getElem?_eq_getElem _
    have hc0 : r[j+1]? = some (r[j+1]'(by omega)) := List.getElem?_eq_getElem _
    rw [addRecord_col_inner hc h.keys hr done.length hl hp0 hc0, mem_val_dictAdd,
      h.children j l hl hj p c]
    constructor
    · rintro (⟨r', hr', hp⟩ | ⟨hp, hcc⟩)
      · exact ⟨r', List.mem_append_left _ hr', hp⟩
      · exact ⟨r, by simp, by rw [hp0, hp], by rw [hc0, hcc]⟩
    · rintro ⟨r', hr', hp, hcc⟩
      rcases List.mem_append.1 hr' with h1 | h1
      · exact Or.inl ⟨r', h1, hp, hcc⟩
      · rw [List.mem_singleton] at h1; subst h1
        right
        rw [hp0] at hp; rw [hc0] at hcc
        exact ⟨(Option.some.inj hp).symm, (Option.some.inj hcc).symm⟩
  childNodup := by
    intro j l hl hj p cs hm
    have hp0 : r[j]? = some (r[j]'(by omega)) := List.getElem?_eq_getElem _
    have hc0 : r[j+1]? = some (r[j+1]'(by omega)) := List.getElem?_eq_getElem _
    rw [addRecord_col_inner hc h.keys hr done.length hl hp0 hc0] at hm
    exact dictAdd_set_nodup (h.childNodup j l hl hj) p cs hm
  rows := by
    intro l hl leaf i
    have hne : cols ≠ [] := by intro h0; rw [h0] at hl; simp at hl
    have hrne : r ≠ [] := by
      intro h0; rw [h0] at hr
      exact hne (List.eq_nil_of_length_eq_zero hr.symm)
    have hf0 := List.getLast?_eq_some_getLast hrne
    rw [addRecord_col_leaf hc h.keys hr done.length hl hf0, mem_val_dictAdd, h.rows l hl leaf i]
    constructor
    · rintro (⟨r', hr', hp⟩ | ⟨hp, hi⟩)
      · refine ⟨r', ?_, hp⟩
        rw [List.getElem?_append_left (lt_of_getElem?_eq_some hr')]; exact hr'
      · subst hi; subst hp
        exact ⟨r, by simp, hf0⟩
    · rintro ⟨r', hr', hp⟩
      rw [List.getElem?_append] at hr'
      split at hr'
      · exact Or.inl ⟨r', hr', hp⟩
      · have hlt := lt_of_getElem?_eq_some hr'
        simp only [List.length_singleton] at hlt
        have hi : i = done.length := by omega
        subst hi
        simp only [Nat.sub_self, List.getElem?_cons_zero, Option.some.injEq] at hr'
        subst hr'
        right
        rw [hf0] at hp
        exact ⟨(Option.some.inj hp).symm, rfl⟩
  rowsNodup := by
    intro l hl leaf rows hm
    have hne : cols ≠ [] := by intro h0; rw [h0] at hl; simp at hl
    have hrne : r ≠ [] := by
      intro h0; rw [h0] at hr
      exact hne (List.eq_nil_of_length_eq_zero hr.symm)
    have hf0 := List.getLast?_eq_some_getLast hrne
    rw [addRecord_col_leaf hc h.keys hr done.length hl hf0] at hm
    refine dictAdd_list_nodup (h.rowsNodup l hl) ?_ leaf rows hm
    intro k' vs hvs hin
    obtain ⟨r', hr', _⟩ := (h.rows l hl k' done.length).1 ⟨vs, hvs, hin⟩
    exact Nat.lt_irrefl _ (lt_of_getElem?_eq_some hr')

theorem Inv.go {cols : List Level} (hc : cols.Nodup) :
    ∀ (rs : List (List Node)) (acc : List (Level × LevelMap)) (done : List (List Node)),
      Inv cols acc done → (∀ r, r ∈ rs → r.length = cols.length) →
      Inv cols (fromRecordsRaw.go cols acc done.length rs) (done ++ rs)
  | [], acc, done, h, _ => by simpa [fromRecordsRaw.go] using h
  | r :: rs, acc, done, h, hr => by
    have := Inv.go hc rs _ (done ++ [r]) (h.addRecord hc (hr r (by simp)))
      (fun r' h' => hr r' (by simp [h']))
    simpa [fromRecordsRaw.go, List.length_append] using this

/-- every record has one label per column -/
def RecsOK (cols : List Level) (recs : List (List Node)) : Prop :=
  ∀ r, r ∈ recs → r.length = cols.length

/-- label columns functionally nested: same child label ⇒ same parent label -/
def Nested (cols : List Level) (recs : List (List Node)) : Prop :=
  ∀ j, j + 1 < cols.length → ∀ r, r ∈ recs → ∀ r', r' ∈ recs →
    r[j+1]? = r'[j+1]? → r[j]? = r'[j]?

theorem fromRecordsRaw_inv {cols : List Level} {recs : List (List Node)} (hc : cols.Nodup)
    (hr : RecsOK cols recs) : Inv cols (fromRecordsRaw cols recs).levels recs := by
  have := Inv.go hc recs _ [] (Inv.init cols) hr
  simpa [fromRecordsRaw_levels] using this


/-! ### the tree built from the records -/

section final
variable {cols : List Level} {recs : List (List Node)}

/-- nodes of column j = labels occurring in column j -/
theorem fromRecordsRaw_nodes (hc : cols.Nodup) (hr : RecsOK cols recs) (j : Nat)
    (hj : j < cols.length) (p : Node) :
    p ∈ (fromRecordsRaw cols recs).nodesAt cols[j] ↔ ∃ r, r ∈ recs ∧ r[j]? = some p :=
  (fromRecordsRaw_inv hc hr).nodes j cols[j] (List.getElem?_eq_getElem hj) p

/-- parent/child entries = label pairs occurring in adjacent columns -/
theorem fromRecordsRaw_children (hc : cols.Nodup) (hr : RecsOK cols recs) (j : Nat)
    (hj : j + 1 < cols.length) (p c : Node) :
    (fromRecordsRaw cols recs).IsChild (cols[j]'(by omega)) p c ↔
      ∃ r, r ∈ recs ∧ r[j]? = some p ∧ r[j+1]? = some c :=
  (fromRecordsRaw_inv hc hr).children j _ (List.getElem?_eq_getElem (by omega)) hj p c

/-- no parent lists a child twice (`set.add`) -/
theorem fromRecordsRaw_childNodup (hc : cols.Nodup) (hr : RecsOK cols recs) (j : Nat)
    (hj : j + 1 < cols.length) (p : Node) (cs : List Nat) :
    (p, cs) ∈ (fromRecordsRaw cols recs).level (cols[j]'(by omega)) → cs.Nodup :=
  (fromRecordsRaw_inv hc hr).childNodup j _ (List.getElem?_eq_getElem (by omega)) hj p cs

/-- leaf rows = the indices of the records carrying that leaf label -/
theorem fromRecordsRaw_rows (hc : cols.Nodup) (hne : cols ≠ []) (hr : RecsOK cols recs)
    (leaf : Node) (i : Nat) :
    (∃ rows, (leaf, rows) ∈ (fromRecordsRaw cols recs).level (cols.getLast hne) ∧ i ∈ rows) ↔
      ∃ r, recs[i]? = some r ∧ r.getLast? = some leaf :=
  (fromRecordsRaw_inv hc hr).rows _ (List.getLast?_eq_some_getLast hne) leaf i

theorem nodup_flatMap_snd {m : LevelMap} (hk : (m.map (·.1)).Nodup)
    (hv : ∀ k vs, (k, vs) ∈ m → vs.Nodup)
    (hd : ∀ k₁ vs₁ k₂ vs₂ i, (k₁, vs₁) ∈ m → (k₂, vs₂) ∈ m → i ∈ vs₁ → i ∈ vs₂ → k₁ = k₂) :
    (m.flatMap (·.2)).Nodup := by
  induction m with
  | nil => exact List.nodup_nil
  | cons kv m ih =>
    obtain ⟨k, vs⟩ := kv
    rw [List.map_cons, List.nodup_cons] at hk
    rw [List.flatMap_cons, List.nodup_append]
    refine ⟨hv k vs List.mem_cons_self, ?_, ?_⟩
    · exact ih hk.2 (fun k' vs' h => hv k' vs' (List.mem_cons_of_mem _ h))
        (fun k₁ vs₁ k₂ vs₂ i h₁ h₂ => hd k₁ vs₁ k₂ vs₂ i (List.mem_cons_of_mem _ h₁)
          (List.mem_cons_of_mem _ h₂))
    · intro a ha b hb hab
      subst hab
      obtain ⟨⟨k₂, vs₂⟩, hm₂, hb₂⟩ := List.mem_flatMap.1 hb
      have := hd k vs k₂ vs₂ a List.mem_cons_self (List.mem_cons_of_mem _ hm₂) ha hb₂
      subst this
      exact hk.1 (List.mem_map.2 ⟨_, hm₂, rfl⟩)

/-- no row in two leaves, or twice in one -/
theorem fromRecordsRaw_rowsNodup (hc : cols.Nodup) (hr : RecsOK cols recs) :
    (fromRecordsRaw cols recs).allRows.Nodup := by
  have inv := fromRecordsRaw_inv hc hr
  unfold allRows leafLevel
  rw [fromRecordsRaw_hierarchy]
  cases hl : cols.getLast? with
  | none => exact List.nodup_nil
  | some l =>
    show (((fromRecordsRaw cols recs).level l).flatMap (·.2)).Nodup
    apply nodup_flatMap_snd
    · exact col_keys_nodup (fromRecordsRaw_nodeKeysOK cols recs) l
    · exact inv.rowsNodup l hl
    · intro k₁ vs₁ k₂ vs₂ i h₁ h₂ hi₁ hi₂
      obtain ⟨r₁, hr₁, hf₁⟩ := (inv.rows l hl k₁ i).1 ⟨vs₁, h₁, hi₁⟩
      obtain ⟨r₂, hr₂, hf₂⟩ := (inv.rows l hl k₂ i).1 ⟨vs₂, h₂, hi₂⟩
      rw [hr₁] at hr₂
      cases hr₂
      rw [hf₁] at hf₂
      exact Option.some.inj hf₂

/-- `(pl, cl)` is a pair of adjacent levels -/
theorem mem_levelPairs {h : List Level} {pl cl : Level} :
    (pl, cl) ∈ levelPairs h ↔ ∃ j, ∃ (hj : j + 1 < h.length), pl = h[j] ∧ cl = h[j+1] := by
  unfold levelPairs
  rw [mem_zip_tail]
  constructor
  · rintro ⟨j, h₁, h₂⟩
    obtain ⟨hj₁, e₁⟩ := List.getElem?_eq_some_iff.1 h₁
    obtain ⟨hj₂, e₂⟩ := List.getElem?_eq_some_iff.1 h₂
    exact ⟨j, hj₂, e₁.symm, e₂.symm⟩
  · rintro ⟨j, hj, e₁, e₂⟩
    exact ⟨j, by rw [e₁]; exact List.getElem?_eq_getElem _, by rw [e₂]; exact List.getElem?_eq_getElem _⟩

/-- MAIN: the tree built from the records is a strict tree iff the columns are nested -/
theorem fromRecordsRaw_strict_iff (hc : cols.Nodup) (hr : RecsOK cols recs) :
    Strict (fromRecordsRaw cols recs) ↔ Nested cols recs := by
  have inv := fromRecordsRaw_inv hc hr
  constructor
  · intro hs j hj r hrm r' hrm' he
    have hlen := hr r hrm
    have hlen' := hr r' hrm'
    have h1 : r[j]? = some (r[j]'(by omega)) := List.getElem?_eq_getElem _
    have h2 : r[j+1]? = some (r[j+1]'(by omega)) := List.getElem?_eq_getElem _
    have h1' : r'[j]? = some (r'[j]'(by omega)) := List.getElem?_eq_getElem _
    have h2' : r'[j+1]? = some (r[j+1]'(by omega)) := by rw [← he]; exact h2
    have hl : cols[j]? = some (cols[j]'(by omega)) := List.getElem?_eq_getElem _
    have hp : (cols[j]'(by omega), cols[j+1]) ∈ levelPairs (fromRecordsRaw cols recs).hierarchy :=
      mem_levelPairs.2 ⟨j, hj, rfl, rfl⟩
    obtain ⟨cs₁, hm₁, hc₁⟩ := (inv.children j _ hl hj _ _).2 ⟨r, hrm, h1, h2⟩
    obtain ⟨cs₂, hm₂, hc₂⟩ := (inv.children j _ hl hj _ _).2 ⟨r', hrm', h1', h2'⟩
    have := hs.oneParent _ _ hp _ _ _ _ hm₁ hm₂ _ hc₁ hc₂
    rw [h1, h1', this]
  · intro hn
    have hpair : ∀ {pl cl}, (pl, cl) ∈ levelPairs (fromRecordsRaw cols recs).hierarchy →
        ∃ j, j + 1 < cols.length ∧ cols[j]? = some pl ∧ cols[j+1]? = some cl := by
      intro pl cl h
      obtain ⟨j, h₁, h₂⟩ := mem_zip_tail.1 h
      exact ⟨j, lt_of_getElem?_eq_some h₂, h₁, h₂⟩
    refine
      { hasH := rfl
        keysSub := ?_
        hierSub := ?_
        str := rfl
        childExists := ?_
        hasParent := ?_
        oneParent := ?_
        childNodup := ?_
        childNe := ?_
        rowsNodup := fromRecordsRaw_rowsNodup hc hr }
    · intro k hk; rw [fromRecordsRaw_keys] at hk; exact hk
    · intro k hk; rw [fromRecordsRaw_keys]; exact hk
    · intro pl cl hp p cs hm c hcs
      obtain ⟨j, hj, hl₁, hl₂⟩ := hpair hp
      obtain ⟨r, hrm, _, hrc⟩ := (inv.children j pl hl₁ hj p c).1 ⟨cs, hm, hcs⟩
      exact (inv.nodes (j+1) cl hl₂ c).2 ⟨r, hrm, hrc⟩
    · intro pl cl hp c hcn
      obtain ⟨j, hj, hl₁, hl₂⟩ := hpair hp
      obtain ⟨r, hrm, hrc⟩ := (inv.nodes (j+1) cl hl₂ c).1 hcn
      have hlen := hr r hrm
      have h1 : r[j]? = some (r[j]'(by omega)) := List.getElem?_eq_getElem _
      obtain ⟨cs, hm, hcs⟩ := (inv.children j pl hl₁ hj _ c).2 ⟨r, hrm, h1, hrc⟩
      exact ⟨_, cs, hm, hcs⟩
    · intro pl cl hp p₁ cs₁ p₂ cs₂ hm₁ hm₂ c hc₁ hc₂
      obtain ⟨j, hj, hl₁, hl₂⟩ := hpair hp
      obtain ⟨r₁, hrm₁, hp₁, hcc₁⟩ := (inv.children j pl hl₁ hj p₁ c).1 ⟨cs₁, hm₁, hc₁⟩
      obtain ⟨r₂, hrm₂, hp₂, hcc₂⟩ := (inv.children j pl hl₁ hj p₂ c).1 ⟨cs₂, hm₂, hc₂⟩
      have := hn j hj r₁ hrm₁ r₂ hrm₂ (hcc₁.trans hcc₂.symm)
      rw [hp₁, hp₂] at this
      exact Option.some.inj this
    · -- every parent key was created together with a child
      intro pl cl hp p cs hm hnil
      obtain ⟨j, hj, hl₁, _⟩ := hpair hp
      have hjl : j < cols.length := by omega
      have hpl : pl = cols[j] := by
        rw [List.getElem?_eq_getElem hjl] at hl₁; exact (Option.some.inj hl₁).symm
      have hd := fromRecordsRaw_dictOK hc recs
      have hpn : p ∈ (fromRecordsRaw cols recs).nodesAt pl := mem_nodesAt.2 ⟨cs, hm⟩
      obtain ⟨r, hrm, hrp⟩ := (inv.nodes j pl hl₁ p).1 hpn
      have hlen := hr r hrm
      have h2 : r[j+1]? = some (r[j+1]'(by omega)) := List.getElem?_eq_getElem _
      obtain ⟨cs', hm', hc'⟩ := (inv.children j pl hl₁ hj p _).2 ⟨r, hrm, hrp, h2⟩
      have e1 := entry_of_mem hd hm
      have e2 := entry_of_mem hd hm'
      rw [e1] at e2
      subst e2
      rw [hnil] at hc'
      cases hc'
    · intro pl cl hp p cs hm
      obtain ⟨j, hj, hl₁, _⟩ := hpair hp
      exact inv.childNodup j pl hl₁ hj p cs hm

end final

end CTM.RawTree
