/-
  Composition of the reference-marker model (group G1) with the sparse model
  (group B: `CTM/Model/Sparse.lean`, theorems `C13.*`) and the process model
  (group H1: `CTM/Model/Procs.lean`, theorems `C04.*`).

  * adapters between the marker tables `(indptr, indices)` of
    `CTM/Model/RefMarkers.lean` and B's compressed matrices `Mat Unit`
    (`data_tag = None`: no value array);
  * `byGeneTable`: `markers.add_sparse_by_gene_markers_to_file` for one
    direction (`n_processors == 1` → `transpose_sparse_matrix_on_disk`, else
    `transpose_sparse_matrix_on_disk_v2`);
  * the keyed merges: per-chunk files keyed by their first pair index
    (`tmp_path_dict[col0]`, `idx_to_path[min_row]`), visited in *numeric*
    sorted key order (`_merge_sparse_by_pair_files`, `_merge_masks`).
-/
import CTM.Lemmas.RefMarkers
import CTM.Model.RefMarkersCompose
import CTM.Props.C13
import CTM.Props.C04

namespace CTM.RefMarkers
open CTM.Sparse CTM.Chunking CTM.Procs

/-! ### adapter: marker table ↔ compressed matrix without values -/

/-- the rows of a table as B's segments -/
def unitSegs (rows : List (List Nat)) : List (Seg Unit) :=
  rows.map (fun r => (r, List.replicate r.length ()))

theorem indptrFrom_eq (off : Nat) (rows : List (List Nat)) :
    indptrFrom off rows
      = (List.range rows.length).map (fun k => off + ((rows.take k).map List.length).sum) := by
  induction rows generalizing off with
  | nil => rfl
  | cons r rs ih =>
    rw [indptrFrom, ih, List.length_cons, List.range_succ_eq_map, List.map_cons, List.map_map]
    congr 1
    · simp
      intro a _
      omega

theorem flatMap_replicate_unit (rows : List (List Nat)) :
    (unitSegs rows).flatMap (·.2) = List.replicate rows.flatten.length () := by
  induction rows with
  | nil => rfl
  | cons r rs ih =>
    simp only [unitSegs, List.map_cons, List.flatMap_cons, List.flatten_cons,
      List.length_append] at ih ⊢
    rw [ih, List.replicate_append_replicate]

theorem unitSegs_prefix (rows : List (List Nat)) (k : Nat) :
    segPrefix (unitSegs rows) k = ((rows.take k).map List.length).sum := by
  unfold segPrefix unitSegs
  rw [← List.map_take, List.map_map]
  rfl

/-- **adapter**: the table `_lookup_to_sparse` builds is B's canonical matrix of its rows -/
theorem toMat_lookupToSparse (rows : List (List Nat)) :
    toMat (lookupToSparse rows) = ofSegs (unitSegs rows) := by
  unfold toMat lookupToSparse ofSegs
  simp only
  have hlen : (unitSegs rows).length = rows.length := by simp [unitSegs]
  congr 1
  · rw [hlen, List.range_succ, List.map_append, List.map_cons, List.map_nil, indptrFrom_eq]
    congr 1
    · apply List.map_congr_left
      intro k _
      rw [unitSegs_prefix]; omega
    · rw [unitSegs_prefix, List.take_length, List.length_flatten]
  · have : (List.map ((fun x : Seg Unit => x.1) ∘ fun r => (r, List.replicate r.length ())) rows)
        = rows := by
      rw [show ((fun x : Seg Unit => x.1) ∘ fun r : List Nat => (r, List.replicate r.length ()))
        = id from rfl, List.map_id]
    simp [unitSegs, List.flatMap_def, List.map_map, this]
  · exact (flatMap_replicate_unit rows).symm

theorem unitSegs_ok (rows : List (List Nat)) : SegsOK (unitSegs rows) := by
  intro s hs
  obtain ⟨r, _, rfl⟩ := List.mem_map.mp hs
  simp

theorem unitSegs_length (rows : List (List Nat)) : (unitSegs rows).length = rows.length := by
  simp [unitSegs]

theorem unitSegs_indices (rows : List (List Nat)) :
    (ofSegs (unitSegs rows)).indices = rows.flatten := by
  have : (List.map ((fun x : Seg Unit => x.1) ∘ fun r => (r, List.replicate r.length ())) rows)
      = rows := by
    rw [show ((fun x : Seg Unit => x.1) ∘ fun r : List Nat => (r, List.replicate r.length ()))
      = id from rfl, List.map_id]
  simp [ofSegs, unitSegs, List.flatMap_def, List.map_map, this]

/-- row `i` of the table is slice `i` of the matrix -/
theorem unitSegs_slice (rows : List (List Nat)) (i : Nat) (hi : i < rows.length) :
    slice (ofSegs (unitSegs rows)).indices (ptr (ofSegs (unitSegs rows)).indptr i)
      (ptr (ofSegs (unitSegs rows)).indptr (i + 1)) = rows[i] := by
  have h := segOf_ofSegs (unitSegs rows) (unitSegs_ok rows) i (by rw [unitSegs_length]; exact hi)
  have := congrArg Prod.fst h
  simp only [segOf] at this
  rw [this]
  simp [unitSegs]

/-! ### sorted lists with the same elements -/

theorem eq_of_sorted_of_mem_iff {l₁ l₂ : List Nat} (h₁ : l₁.Pairwise (· < ·))
    (h₂ : l₂.Pairwise (· < ·)) (h : ∀ x, x ∈ l₁ ↔ x ∈ l₂) : l₁ = l₂ := by
  have n₁ : l₁.Nodup := h₁.imp (fun h => Nat.ne_of_lt h)
  have n₂ : l₂.Nodup := h₂.imp (fun h => Nat.ne_of_lt h)
  exact List.Perm.eq_of_pairwise (fun a b _ _ hab hba => absurd hab (Nat.lt_asymm hba)) h₁ h₂
    ((List.perm_ext_iff_of_nodup n₁ n₂).mpr h)

theorem slice_length_eq {β γ} (l : List β) (m : List γ) (a b : Nat) (h : l.length = m.length) :
    (slice l a b).length = (slice m a b).length := by
  simp [slice, h]

theorem pairsOfGene_sorted (rows : List (List Nat)) (g : Nat) :
    (pairsOfGene rows g).Pairwise (· < ·) :=
  List.Pairwise.filter _ List.pairwise_lt_range

theorem mem_pairsOfGene {rows : List (List Nat)} {g i : Nat} :
    i ∈ pairsOfGene rows g ↔ ∃ h : i < rows.length, g ∈ rows[i] := by
  unfold pairsOfGene
  simp only [List.mem_filter, List.mem_range, List.contains_iff_mem]
  constructor
  · rintro ⟨hi, hg⟩
    refine ⟨hi, ?_⟩
    rwa [List.getD_eq_getElem?_getD, List.getElem?_eq_getElem hi] at hg
  · rintro ⟨hi, hg⟩
    refine ⟨hi, ?_⟩
    rwa [List.getD_eq_getElem?_getD, List.getElem?_eq_getElem hi]

/-! ### the gene-major table -/

/-- what the serial transposition makes of a marker table whose rows are
strictly increasing lists of gene indices below `nGenes` -/
theorem transpose_table (rows : List (List Nat)) (nGenes : Nat) (B : Budget)
    (hlo : 1 ≤ B.lo) (hc : 1 ≤ B.loCount)
    (hr : ∀ r ∈ rows, ∀ g ∈ r, g < nGenes) (hn : ∀ r ∈ rows, r.Pairwise (· < ·)) :
    ∃ out, transposeOnDisk (toMat (lookupToSparse rows)) nGenes none B = .ok out ∧
      WFptr out.indptr nGenes rows.flatten.length ∧
      out.indices.length = rows.flatten.length ∧
      (∀ g, g < nGenes → geneRow out g = pairsOfGene rows g) := by
  rw [toMat_lookupToSparse]
  have hM : (ofSegs (unitSegs rows)).indices = rows.flatten := unitSegs_indices rows
  have w := ofSegs_wf (unitSegs rows)
  rw [unitSegs_length] at w
  have hlen := ofSegs_data_length (unitSegs rows) (unitSegs_ok rows)
  have hrange : ∀ x ∈ (ofSegs (unitSegs rows)).indices, x < nGenes := by
    intro x hx
    rw [hM] at hx
    obtain ⟨r, hr1, hr2⟩ := List.mem_flatten.mp hx
    exact hr r hr1 x hr2
  have hnd : SlicesNodup (ofSegs (unitSegs rows)) rows.length := by
    intro i hi
    rw [unitSegs_slice rows i hi]
    exact (hn _ (List.getElem_mem hi)).imp (fun h => Nat.ne_of_lt h)
  obtain ⟨out, e, wout, l1, _, hmaj, hsl, hsorted, _⟩ :=
    CTM.C13.transpose_correct () (ofSegs (unitSegs rows)) rows.length nGenes B hlo hc w hlen hrange
  rw [hM] at wout l1
  refine ⟨out, e, wout, l1, ?_⟩
  intro g hg
  unfold geneRow
  apply eq_of_sorted_of_mem_iff (hsorted hnd g hg) (pairsOfGene_sorted rows g)
  intro i
  -- the minor indices of the entries of major slice `i` are row `i`
  have hrow : ∀ i (hi : i < rows.length),
      ((entriesOf (ofSegs (unitSegs rows))).filter (·.major == i)).map (·.minor) = rows[i] := by
    intro i hi
    have := congrArg (List.map Prod.fst)
      (entries_of_major (ofSegs (unitSegs rows)) rows.length w i hi)
    rw [List.map_map] at this
    rw [List.map_fst_zip (Nat.le_of_eq
      (slice_length_eq _ _ _ _ hlen.symm))] at this
    rw [unitSegs_slice rows i hi] at this
    exact this
  show i ∈ slice out.indices (ptr out.indptr g) (ptr out.indptr (g + 1)) ↔ _
  rw [(hsl g hg).1, mem_pairsOfGene]
  simp only [List.mem_map, List.mem_filter, beq_iff_eq]
  constructor
  · rintro ⟨e, ⟨he, hmin⟩, rfl⟩
    have hi : e.major < rows.length := by
      apply hmaj
      have : e.major ∈ geneRow out g := by
        unfold geneRow
        rw [(hsl g hg).1]
        exact List.mem_map.mpr ⟨e, List.mem_filter.mpr ⟨he, by simp [hmin]⟩, rfl⟩
      exact (slice_sublist _ _ _).subset this
    refine ⟨hi, ?_⟩
    rw [← hrow e.major hi, ← hmin]
    exact List.mem_map.mpr ⟨e, List.mem_filter.mpr ⟨he, by simp⟩, rfl⟩
  · rintro ⟨hi, hgi⟩
    rw [← hrow i hi] at hgi
    obtain ⟨e, he, rfl⟩ := List.mem_map.mp hgi
    obtain ⟨he1, he2⟩ := List.mem_filter.mp he
    exact ⟨e, ⟨he1, rfl⟩, by simpa using he2⟩

/-- the same for every worker count: the parallel transposition is the serial one -/
theorem byGene_table (rows : List (List Nat)) (nGenes nProc : Nat) (B : Budget)
    (hg : 1 ≤ nGenes) (hp : 1 ≤ nProc) (hlo : 1 ≤ B.lo) (hc : 1 ≤ B.loCount)
    (hr : ∀ r ∈ rows, ∀ g ∈ r, g < nGenes) (hn : ∀ r ∈ rows, r.Pairwise (· < ·)) :
    ∃ out, byGeneTable nProc nGenes B (lookupToSparse rows) = .ok out ∧
      WFptr out.indptr nGenes rows.flatten.length ∧
      out.indices.length = rows.flatten.length ∧
      (∀ g, g < nGenes → geneRow out g = pairsOfGene rows g) := by
  obtain ⟨out, e, rest⟩ := transpose_table rows nGenes B hlo hc hr hn
  refine ⟨out, ?_, rest⟩
  unfold byGeneTable
  split
  · exact e
  · rw [← e]
    apply transposeV2_eq _ nGenes nProc B B hg hp hlo hc hlo hc
    · simp [toMat]
    · intro x hx
      simp only [toMat, lookupToSparse] at hx
      obtain ⟨r, hr1, hr2⟩ := List.mem_flatten.mp hx
      exact hr r hr1 x hr2

/-! ### rows produced by `np.where` -/

theorem whereTrue_sorted (m : List Bool) : (whereTrue m).Pairwise (· < ·) :=
  List.Pairwise.filter _ List.pairwise_lt_range

theorem whereTrue_lt (m : List Bool) : ∀ g ∈ whereTrue m, g < m.length := by
  intro g hg
  unfold whereTrue at hg
  exact List.mem_range.mp (List.mem_filter.mp hg).1

theorem length_andL (a b : List Bool) : (andL a b).length = min a.length b.length := by
  simp [andL]

/-! ### keyed merges -/

theorem chunkKeys_sorted (nPer nChunks : Nat) (h : 1 ≤ nPer) :
    (chunkKeys nPer nChunks).Pairwise (· < ·) := by
  unfold chunkKeys
  rw [List.pairwise_map]
  exact List.pairwise_lt_range.imp (fun hab => Nat.mul_lt_mul_of_pos_right hab h)

theorem zip_fst {β γ} (a : List β) (b : List γ) (h : a.length = b.length) :
    (List.zip a b).map (·.1) = a := List.map_fst_zip (Nat.le_of_eq h)

theorem zip_snd {β γ} (a : List β) (b : List γ) (h : a.length = b.length) :
    (List.zip a b).map (·.2) = b := List.map_snd_zip (Nat.le_of_eq h.symm)

theorem mergeTables_exact {α} (row : α → List Nat) (nPer : Nat) (h : 1 ≤ nPer) (pairs : List α)
    (done : List (Nat × (List Nat × List Nat))) (hp : done.Perm (tableJobs row nPer pairs)) :
    mergeTables done = some (lookupToSparse (pairs.map row)) := by
  have hl : (chunkKeys nPer (chunksOf nPer pairs).length).length
      = ((chunksOf nPer pairs).map (fun ch => lookupToSparse (ch.map row))).length := by
    simp [chunkKeys]
  have hk : ((tableJobs row nPer pairs).map (·.1)).Pairwise (· < ·) := by
    unfold tableJobs
    rw [zip_fst _ _ hl]
    exact chunkKeys_sorted nPer _ h
  have := CTM.C04.sorted_keys_exact (tableJobs row nPer pairs) done hp hk
  unfold mergeTables mergeTablesBy
  unfold mergeSortedKeys at this
  simp only at this ⊢
  rw [this]
  simp only [Option.map_some, Option.some.injEq]
  unfold tableJobs
  rw [zip_snd _ _ hl]
  have e : (chunksOf nPer pairs).map (fun ch => lookupToSparse (ch.map row))
      = ((chunksOf nPer pairs).map (List.map row)).map lookupToSparse := by
    rw [List.map_map]; rfl
  rw [e, chunksOf_map, merge_chunks]

/-! ### the p-value mask file -/

/-- one row of the mask `(gene, stored distance)` as a segment -/
def maskSeg {β} (r : List (Nat × β)) : Seg β := (r.map (·.1), r.map (·.2))

/-- the file one `_p_values_worker` writes: the CSR arrays of its block of rows
(`scipy.sparse.csr_matrix(dense_mask)`: canonical pointer array) -/
def maskChunkFile {β} (ch : List (List (Nat × β))) : Mat β := ofSegs (ch.map maskSeg)

/-- the workers' files in dispatch order: `(min_row, file)` -/
def maskJobs {β} (nPer : Nat) (rows : List (List (Nat × β))) : List (Nat × Mat β) :=
  List.zip (chunkKeys nPer (chunksOf nPer rows).length) ((chunksOf nPer rows).map maskChunkFile)

/-- `_merge_masks`: `idx_to_path[min_row] = path` for every worker file, the
files visited in the order `keyOrder` gives to the keys, `indices` / `data`
concatenated, pointers shifted by the running number of entries, last pointer =
total (`joinParts`) -/
def mergeMasksBy {β} (keyOrder : List Nat → List Nat) (done : List (Nat × Mat β)) :
    Option (Mat β) :=
  let store := dictOfList done
  (collect ((keyOrder (store.map (·.1))).map (dictGet store))).map joinParts

/-- … with `idx_values.sort()` on the **numeric** first row of each file -/
def mergeMasks {β} (done : List (Nat × Mat β)) : Option (Mat β) := mergeMasksBy sortKeys done

theorem maskSegs_ok {β} (rows : List (List (Nat × β))) : SegsOK (rows.map maskSeg) := by
  intro s hs
  obtain ⟨r, _, rfl⟩ := List.mem_map.mp hs
  simp [maskSeg]

theorem mergeMasks_exact {β} (nPer : Nat) (h : 1 ≤ nPer) (rows : List (List (Nat × β)))
    (done : List (Nat × Mat β)) (hp : done.Perm (maskJobs nPer rows)) :
    mergeMasks done = some (ofSegs (rows.map maskSeg)) := by
  have hl : (chunkKeys nPer (chunksOf nPer rows).length).length
      = ((chunksOf nPer rows).map (maskChunkFile (β := β))).length := by
    simp [chunkKeys]
  have hk : ((maskJobs nPer rows).map (·.1)).Pairwise (· < ·) := by
    unfold maskJobs
    rw [zip_fst _ _ hl]
    exact chunkKeys_sorted nPer _ h
  have := CTM.C04.sorted_keys_exact (maskJobs nPer rows) done hp hk
  unfold mergeMasks mergeMasksBy
  unfold mergeSortedKeys at this
  simp only at this ⊢
  rw [this]
  simp only [Option.map_some, Option.some.injEq]
  unfold maskJobs
  rw [zip_snd _ _ hl]
  have e : (chunksOf nPer rows).map (maskChunkFile (β := β))
      = ((chunksOf nPer rows).map (List.map maskSeg)).map ofSegs := by
    rw [List.map_map]; rfl
  rw [e, joinParts_ofSegs]
  · rw [chunksOf_map, chunksOf_flatten]
  · intro L hL
    obtain ⟨ch, _, rfl⟩ := List.mem_map.mp hL
    exact maskSegs_ok ch

/-! ### a wrong key order: file names sorted as strings -/

/-- decimal digits, most significant first (fuel = the number itself + 1) -/
def digitsAux : Nat → Nat → List Nat
  | 0, _ => []
  | fuel + 1, n => if n < 10 then [n] else digitsAux fuel (n / 10) ++ [n % 10]

def decimal (n : Nat) : List Nat := digitsAux (n + 1) n

/-- `a ≤ b` as strings of decimal digits (lexicographic) -/
def lexLe : List Nat → List Nat → Bool
  | [], _ => true
  | _ :: _, [] => false
  | x :: xs, y :: ys => if x < y then true else if y < x then false else lexLe xs ys

/-- the keys sorted the way `sorted(file_names)` would sort them -/
def lexSortKeys (ks : List Nat) : List Nat :=
  isort (fun a b => lexLe (decimal a) (decimal b)) ks

end CTM.RefMarkers
