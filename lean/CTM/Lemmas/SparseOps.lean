/-
  Lemmas about the file-level reshaping operations of `CTM/Model/Sparse.lean`
  (gathering major slices, concatenating pieces, chunked copies).
-/
import CTM.Lemmas.SparseBatch

namespace CTM.Sparse
open CTM.Chunking


/-- the stored pairs of major slice `o` -/
def segOf {α} (M : Mat α) (o : Nat) : List Nat × List α :=
  (slice M.indices (ptr M.indptr o) (ptr M.indptr (o + 1)),
   slice M.data (ptr M.indptr o) (ptr M.indptr (o + 1)))

/-- compressed arrays built by writing the major slices `order[0], order[1], …`
one after the other, with last pointer `t` -/
def gatherMat {α} (M : Mat α) (order : List Nat) (t : Nat) : Mat α :=
  ⟨(gatherMajors M order).1 ++ [t], (gatherMajors M order).2.1, (gatherMajors M order).2.2⟩

theorem seg_lengths {α} (M : Mat α) (nRows : Nat) (w : WFptr M.indptr nRows M.indices.length)
    (hlen : M.data.length = M.indices.length) (o : Nat) (ho : o < nRows) :
    (segOf M o).1.length = ptr M.indptr (o + 1) - ptr M.indptr o ∧
    (segOf M o).2.length = ptr M.indptr (o + 1) - ptr M.indptr o := by
  have h1 : ptr M.indptr (o + 1) ≤ M.indices.length := by
    have := w.mono (by omega : o + 1 ≤ nRows) (Nat.le_refl nRows); rw [w.last] at this; exact this
  unfold segOf
  exact ⟨slice_length_le _ h1, slice_length_le _ (by omega)⟩

theorem ptr_append_range (f : Nat → Nat) (n t k : Nat) (hk : k ≤ n) :
    ptr ((List.range n).map f ++ [t]) k = if k < n then f k else t := by
  unfold ptr
  rw [List.getD_eq_getElem?_getD]
  by_cases h : k < n
  · rw [List.getElem?_append_left (by simpa using h)]
    simp [h]
  · have : k = n := by omega
    subst this
    rw [List.getElem?_append_right (by simp)]
    simp

/-- **gathering major slices**: the arrays written by the copy loop of
`shuffle_csr_h5ad_rows` / `subset_csc_h5ad_columns` / the un-sort loop of
`_load_disjoint_csr` denote the selected slices in the order they were asked
for, provided the last pointer is the total number of entries written -/
theorem gather_toDense {α} (zero : α) (M : Mat α) (nRows nCols : Nat)
    (w : WFptr M.indptr nRows M.indices.length) (hlen : M.data.length = M.indices.length)
    (order : List Nat) (ho : ∀ o ∈ order, o < nRows) :
    toDense zero (gatherMat M order ((order.map fun o => (segOf M o).1.length).sum))
        order.length nCols
      = order.map (rowSpec zero M nCols) := by
  unfold toDense
  apply List.ext_getElem
  · simp
  · intro k hk1 hk2
    have hk : k < order.length := by simpa using hk1
    simp only [List.getElem_map, List.getElem_range]
    have hP : ∀ j, j ≤ order.length →
        ptr (gatherMat M order ((order.map fun o => (segOf M o).1.length).sum)).indptr j
          = (((order.map fun o => (segOf M o).1).take j).map List.length).sum := by
      intro j hj
      unfold gatherMat gatherMajors
      simp only
      rw [ptr_append_range _ _ _ _ hj]
      by_cases h : j < order.length
      · simp only [h, if_true, ← List.map_take, List.map_map]
        rfl
      · simp only [h, if_false]
        have : j = order.length := by omega
        subst this
        rw [List.take_of_length_le (by simp), List.map_map]
        rfl
    have hP2 : ∀ j, (((order.map fun o => (segOf M o).1).take j).map List.length).sum
        = (((order.map fun o => (segOf M o).2).take j).map List.length).sum := by
      intro j
      simp only [← List.map_take, List.map_map]
      congr 1
      apply List.map_congr_left
      intro o ho'
      have ho'' := (List.take_sublist _ _).subset ho'
      have := seg_lengths M nRows w hlen o (ho o ho'')
      simp only [Function.comp]; omega
    unfold rowSpec
    rw [hP k (by omega), hP (k + 1) (by omega)]
    have e1 : (gatherMat M order ((order.map fun o => (segOf M o).1.length).sum)).indices
        = (order.map fun o => (segOf M o).1).flatten := by
      unfold gatherMat gatherMajors
      simp only [List.flatMap_def, List.map_map]
      rfl
    have e2 : (gatherMat M order ((order.map fun o => (segOf M o).1.length).sum)).data
        = (order.map fun o => (segOf M o).2).flatten := by
      unfold gatherMat gatherMajors
      simp only [List.flatMap_def, List.map_map]
      rfl
    rw [e1, e2, slice_flatten _ k (by simpa using hk)]
    rw [hP2 k, hP2 (k + 1), slice_flatten _ k (by simpa using hk)]
    simp [segOf]

theorem telescope (ip : List Nat) (nRows nnz : Nat) (w : WFptr ip nRows nnz) :
    ∀ n, n ≤ nRows → ((List.range n).map fun o => ptr ip (o + 1) - ptr ip o).sum = ptr ip n := by
  intro n
  induction n with
  | zero => intro _; simp [w.first]
  | succ n ih =>
    intro hn
    rw [List.range_succ, List.map_append, List.sum_append, ih (by omega)]
    have := w.mono (by omega : n ≤ n + 1) hn
    simp; omega

theorem getLast_ptr (ip : List Nat) (nRows nnz : Nat) (w : WFptr ip nRows nnz) :
    ip.getLast?.getD 0 = nnz := by
  rw [List.getLast?_eq_getElem?, w.len, ← w.last, ptr_eq_getElem?_getD]
  simp

/-- **`shuffle_csr_h5ad_rows`**: for every permutation `order` of the rows the
written arrays denote the matrix whose row `k` is row `order[k]` of the input -/
theorem shuffleRows_toDense {α} (zero : α) (M : Mat α) (nRows nCols : Nat)
    (w : WFptr M.indptr nRows M.indices.length) (hlen : M.data.length = M.indices.length)
    (order : List Nat) (hp : order.Perm (List.range nRows)) :
    toDense zero (shuffleRows M order) nRows nCols
      = order.map fun o => (toDense zero M nRows nCols).getD o [] := by
  have ho : ∀ o ∈ order, o < nRows := fun o h => List.mem_range.mp (hp.subset h)
  have hlen2 : order.length = nRows := by rw [hp.length_eq]; simp
  have ht : (order.map fun o => (segOf M o).1.length).sum = M.indptr.getLast?.getD 0 := by
    rw [getLast_ptr _ _ _ w]
    have h1 : (order.map fun o => (segOf M o).1.length)
        = order.map fun o => ptr M.indptr (o + 1) - ptr M.indptr o := by
      apply List.map_congr_left
      intro o h
      exact (seg_lengths M nRows w hlen o (ho o h)).1
    rw [h1, (hp.map _).sum_nat, telescope _ _ _ w nRows (Nat.le_refl _), w.last]
  have hs : shuffleRows M order
      = gatherMat M order ((order.map fun o => (segOf M o).1.length).sum) := by
    rw [ht]; rfl
  rw [hs, ← hlen2, gather_toDense zero M nRows nCols w hlen order ho]
  apply List.map_congr_left
  intro o h
  have := ho o h
  simp [toDense, List.getD_eq_getElem?_getD, this, hlen2]

/-- **`subset_csc_h5ad_columns`**: the written arrays denote the chosen major
slices (columns of a CSC matrix) in increasing order -/
theorem subsetColumns_toDense {α} (zero : α) (M : Mat α) (nMajor nMinor : Nat)
    (w : WFptr M.indptr nMajor M.indices.length) (hlen : M.data.length = M.indices.length)
    (chosen : List Nat) (hc : ∀ c ∈ chosen, c < nMajor) :
    toDense zero (subsetColumns M chosen) chosen.length nMinor
      = (isort (fun a b => decide (a ≤ b)) chosen).map (rowSpec zero M nMinor) := by
  have hperm := isort_perm (fun a b : Nat => decide (a ≤ b)) chosen
  have ho : ∀ o ∈ isort (fun a b => decide (a ≤ b)) chosen, o < nMajor :=
    fun o h => hc o (hperm.subset h)
  have ht : ((isort (fun a b => decide (a ≤ b)) chosen).map
        fun c => ptr M.indptr (c + 1) - ptr M.indptr c).sum
      = ((isort (fun a b => decide (a ≤ b)) chosen).map fun o => (segOf M o).1.length).sum := by
    congr 1
    apply List.map_congr_left
    intro o h
    exact (seg_lengths M nMajor w hlen o (ho o h)).1.symm
  have hs : subsetColumns M chosen
      = gatherMat M (isort (fun a b => decide (a ≤ b)) chosen)
          (((isort (fun a b => decide (a ≤ b)) chosen).map
            fun o => (segOf M o).1.length).sum) := by
    rw [← ht]; rfl
  rw [hs, ← hperm.length_eq]
  exact gather_toDense zero M nMajor nMinor w hlen _ ho

end CTM.Sparse
