/-
  C04 — enumeration order of Python sets (PYTHONHASHSEED).

  `run_type_assignment` builds `previously_assigned[child_level]` by walking
  `set(assignment)`:
      for idx, celltype in enumerate(set(assignment)):
          type_to_idx[celltype] = idx; idx_to_type.append(celltype)
      ...
      for idx in range(len(idx_to_type)):
          previously_assigned[child_level][idx_to_type[idx]] = chosen_idx[assignment_idx == idx]
  Group D's model (`CTM/Model/LevelLoop.lean`) fixes that enumeration to
  first-occurrence order (`distinct`).  Here the loop is re-stated with the
  enumeration as a parameter `enum` (any function that lists exactly the
  assigned types, in any order, with or without repeats) and shown to give the
  same result as D's loop - so the result does not depend on the enumeration.
  Also: `aggregate_votes` with the enumeration of `set(reference_types)` as a
  parameter.
-/
import CTM.Lemmas.LevelLoop
import CTM.Lemmas.Election
import CTM.Lemmas.BridgeWF

namespace CTM.EnumIndep
open CTM CTM.LevelLoop

/-- `enum l` lists exactly the elements of `set(l)` (some order) -/
def IsEnum (enum : List Node → List Node) : Prop := ∀ l x, x ∈ enum l ↔ x ∈ l

theorem isEnum_distinct : IsEnum distinct := fun l x => mem_distinct x l

/-! ### the level loop with the enumeration of `set(assignment)` as a parameter -/

/-- `processParent` with `set(assignment)` enumerated by `enum` -/
def processParentE {κ} (enum : List Node → List Node) (t : RawTree) (vote : Oracle κ)
    (cells : List κ) (cl : Level) (prevParent : AssignMap) (acc : AssignMap × List CellDict)
    (parent : Parent) : Except Err (AssignMap × List CellDict) :=
  let chosenIdx := chosenIdxOf cells.length prevParent parent
  if chosenIdx.isEmpty then .ok acc
  else match t.children parent with
    | .error e => .error (.tree e)
    | .ok kids =>
      match selectCells cells chosenIdx with
      | .error e => .error e
      | .ok chosen =>
        match votesFor t vote parent cl kids chosen with
        | .error e => .error e
        | .ok votes =>
          let types := enum (votes.map (·.assignment))
          let prevChild := types.foldl
            (fun m ct => (ct, rowsOf ct chosenIdx votes) :: m) acc.1
          .ok (prevChild, writeBack cl chosenIdx votes acc.2)

def processParentsE {κ} (enum : List Node → List Node) (t : RawTree) (vote : Oracle κ)
    (cells : List κ) (cl : Level) (prevParent : AssignMap) :
    List Parent → AssignMap × List CellDict → Except Err (AssignMap × List CellDict)
  | [], acc => .ok acc
  | p :: ps, acc =>
    match processParentE enum t vote cells cl prevParent acc p with
    | .error e => .error e
    | .ok acc' => processParentsE enum t vote cells cl prevParent ps acc'

def levelStepsE {κ} (enum : List Node → List Node) (t : RawTree) (vote : Oracle κ)
    (cells : List κ) :
    Option Level → List Level → AssignMap → List CellDict → Except Err (List CellDict)
  | _, [], _, res => .ok res
  | pl, cl :: rest, prev, res =>
    match processParentsE enum t vote cells cl prev (parentNodeList t pl) ([], res) with
    | .error e => .error e
    | .ok (prevChild, res') => levelStepsE enum t vote cells (some cl) rest prevChild res'

/-- `run_type_assignment` with `set(assignment)` enumerated by `enum` -/
def runLevelLoopE {κ} (enum : List Node → List Node) (t : RawTree) (vote : Oracle κ)
    (cells : List κ) : Except Err (List (List (Level × Entry))) :=
  match levelStepsE enum t vote cells none t.hierarchy [] (cells.map (fun _ => [])) with
  | .error e => .error e
  | .ok res => finishAll t.hierarchy res

def runChunkE {κ} (enum : List Node → List Node) (t : RawTree) (vote : Oracle κ)
    (ids : List CellId) (cells : List κ) (r : Nat × Nat) : Except Err (List Record) :=
  match runLevelLoopE enum t vote (slice cells r.1 r.2) with
  | .error e => .error e
  | .ok a => attachIds (slice ids r.1 r.2) a

def runChunksE {κ} (enum : List Node → List Node) (t : RawTree) (vote : Oracle κ)
    (ids : List CellId) (cells : List κ) : List (Nat × Nat) → Except Err (List (List Record))
  | [] => .ok []
  | r :: rs =>
    match runChunkE enum t vote ids cells r with
    | .error e => .error e
    | .ok x =>
      match runChunksE enum t vote ids cells rs with
      | .error e => .error e
      | .ok xs => .ok (x :: xs)

/-- `_run_mapping`'s data flow (`LevelLoop.mapPipeline`) with `set(assignment)`
enumerated by `enum` in every worker -/
def mapPipelineE {κ} (enum : List Node → List Node) (t0 : RawTree) (cfg : Config)
    (vote : Oracle κ) (ids : List CellId) (cells : List κ) (order : List Nat) :
    Except Err (List Record) :=
  let tMeta := t0.dropCells
  match runTree t0 cfg with
  | .error e => .error e
  | .ok t =>
    if cfg.nProc == 0 then .error .zeroProcessors
    else
      let cs := effChunk cells.length cfg.nProc cfg.chunkSize
      if cs == 0 then .error .zeroChunk
      else match runChunksE enum t vote ids cells (chunks cells.length cs) with
        | .error e => .error e
        | .ok parts =>
          let blob := (gather parts order).map (markDirect t.hierarchy)
          match reorderBlob ids blob with
          | .error e => .error e
          | .ok ordered => backfill tMeta ordered

/-! ### `previously_assigned` is only ever looked up -/

/-- two `previously_assigned[level]` dicts with the same content -/
def MapEq (m₁ m₂ : AssignMap) : Prop := ∀ k, m₁.lookup k = m₂.lookup k

theorem foldl_lookup (f : Node → List Nat) (types : List Node) (acc : AssignMap) (k : Node) :
    (types.foldl (fun m ct => (ct, f ct) :: m) acc).lookup k =
      if k ∈ types then some (f k) else acc.lookup k := by
  induction types generalizing acc with
  | nil => simp
  | cons ct rest ih =>
    simp only [List.foldl_cons, ih, List.mem_cons]
    by_cases h1 : k ∈ rest
    · simp [h1]
    · by_cases h2 : k = ct
      · subst h2
        simp [h1, List.lookup]
      · have : (k == ct) = false := by simpa using h2
        simp [h1, h2, List.lookup, this]

theorem foldl_mapEq (f : Node → List Nat) {ty₁ ty₂ : List Node} (hm : ∀ x, x ∈ ty₁ ↔ x ∈ ty₂)
    {a₁ a₂ : AssignMap} (ha : MapEq a₁ a₂) :
    MapEq (ty₁.foldl (fun m ct => (ct, f ct) :: m) a₁)
      (ty₂.foldl (fun m ct => (ct, f ct) :: m) a₂) := by
  intro k
  rw [foldl_lookup, foldl_lookup, ha k]
  by_cases h : k ∈ ty₁
  · simp [h, (hm k).1 h]
  · have : k ∉ ty₂ := fun h2 => h ((hm k).2 h2)
    simp [h, this]

theorem chosenIdxOf_congr {m₁ m₂ : AssignMap} (h : MapEq m₁ m₂) (n : Nat) (p : Parent) :
    chosenIdxOf n m₁ p = chosenIdxOf n m₂ p := by
  cases p with
  | none => rfl
  | some q => simp [chosenIdxOf, h q.2]

/-- same outcome up to the internal order of `previously_assigned[child_level]` -/
def AccRel : Except Err (AssignMap × List CellDict) → Except Err (AssignMap × List CellDict) → Prop
  | .ok a, .ok b => MapEq a.1 b.1 ∧ a.2 = b.2
  | .error e, .error e' => e = e'
  | _, _ => False

theorem processParent_rel {κ} {enum : List Node → List Node} (he : IsEnum enum) (t : RawTree)
    (vote : Oracle κ) (cells : List κ) (cl : Level) {prev₁ prev₂ : AssignMap}
    (hprev : MapEq prev₁ prev₂) {acc₁ acc₂ : AssignMap × List CellDict}
    (h1 : MapEq acc₁.1 acc₂.1) (h2 : acc₁.2 = acc₂.2) (p : Parent) :
    AccRel (processParentE enum t vote cells cl prev₁ acc₁ p)
      (processParent t vote cells cl prev₂ acc₂ p) := by
  unfold processParentE processParent
  rw [chosenIdxOf_congr hprev]
  by_cases hE : (chosenIdxOf cells.length prev₂ p).isEmpty = true
  · simp only [hE, if_true]
    exact ⟨h1, h2⟩
  · simp only [hE, Bool.false_eq_true, if_false]
    cases t.children p with
    | error e => exact rfl
    | ok kids =>
      simp only
      cases selectCells cells (chosenIdxOf cells.length prev₂ p) with
      | error e => exact rfl
      | ok chosen =>
        simp only
        cases votesFor t vote p cl kids chosen with
        | error e => exact rfl
        | ok votes =>
          simp only
          refine ⟨?_, by rw [h2]⟩
          apply foldl_mapEq _ _ h1
          intro x
          rw [he _ x, mem_distinct]

theorem processParents_rel {κ} {enum : List Node → List Node} (he : IsEnum enum) (t : RawTree)
    (vote : Oracle κ) (cells : List κ) (cl : Level) {prev₁ prev₂ : AssignMap}
    (hprev : MapEq prev₁ prev₂) (ps : List Parent) {acc₁ acc₂ : AssignMap × List CellDict}
    (h1 : MapEq acc₁.1 acc₂.1) (h2 : acc₁.2 = acc₂.2) :
    AccRel (processParentsE enum t vote cells cl prev₁ ps acc₁)
      (processParents t vote cells cl prev₂ ps acc₂) := by
  induction ps generalizing acc₁ acc₂ with
  | nil => exact ⟨h1, h2⟩
  | cons p ps ih =>
    simp only [processParentsE, processParents]
    have hr := processParent_rel he t vote cells cl hprev h1 h2 p
    cases ha : processParentE enum t vote cells cl prev₁ acc₁ p with
    | error e =>
      cases hb : processParent t vote cells cl prev₂ acc₂ p with
      | error e' => rw [ha, hb] at hr; exact hr
      | ok b => rw [ha, hb] at hr; exact hr.elim
    | ok a =>
      cases hb : processParent t vote cells cl prev₂ acc₂ p with
      | error e' => rw [ha, hb] at hr; exact hr.elim
      | ok b =>
        rw [ha, hb] at hr
        exact ih hr.1 hr.2

theorem levelSteps_eq {κ} {enum : List Node → List Node} (he : IsEnum enum) (t : RawTree)
    (vote : Oracle κ) (cells : List κ) (ls : List Level) (pl : Option Level)
    {prev₁ prev₂ : AssignMap} (hprev : MapEq prev₁ prev₂) (res : List CellDict) :
    levelStepsE enum t vote cells pl ls prev₁ res = levelSteps t vote cells pl ls prev₂ res := by
  induction ls generalizing pl prev₁ prev₂ res with
  | nil => rfl
  | cons cl rest ih =>
    simp only [levelStepsE, levelSteps]
    have hr := processParents_rel he t vote cells cl hprev (parentNodeList t pl)
      (acc₁ := ([], res)) (acc₂ := ([], res)) (fun _ => rfl) rfl
    cases ha : processParentsE enum t vote cells cl prev₁ (parentNodeList t pl) ([], res) with
    | error e =>
      cases hb : processParents t vote cells cl prev₂ (parentNodeList t pl) ([], res) with
      | error e' => rw [ha, hb] at hr; simp only [AccRel] at hr; rw [hr]
      | ok b => rw [ha, hb] at hr; exact hr.elim
    | ok a =>
      cases hb : processParents t vote cells cl prev₂ (parentNodeList t pl) ([], res) with
      | error e' => rw [ha, hb] at hr; exact hr.elim
      | ok b =>
        rw [ha, hb] at hr
        obtain ⟨a1, a2⟩ := a
        obtain ⟨b1, b2⟩ := b
        simp only [AccRel] at hr
        obtain ⟨hm, rfl⟩ := hr
        exact ih (some cl) hm a2

/-- `run_type_assignment` does not depend on the order in which
`set(assignment)` is enumerated -/
theorem runLevelLoopE_eq {κ} {enum : List Node → List Node} (he : IsEnum enum) (t : RawTree)
    (vote : Oracle κ) (cells : List κ) :
    runLevelLoopE enum t vote cells = runLevelLoop t vote cells := by
  unfold runLevelLoopE runLevelLoop
  rw [levelSteps_eq he t vote cells t.hierarchy none (fun _ => rfl)]
  rfl

theorem runChunksE_eq {κ} {enum : List Node → List Node} (he : IsEnum enum) (t : RawTree)
    (vote : Oracle κ) (ids : List CellId) (cells : List κ) (rs : List (Nat × Nat)) :
    runChunksE enum t vote ids cells rs = runChunks t vote ids cells rs := by
  induction rs with
  | nil => rfl
  | cons r rs ih =>
    simp only [runChunksE, runChunks, runChunkE, runChunk, runLevelLoopE_eq he, ih]
    rfl

theorem mapPipelineE_eq {κ} {enum : List Node → List Node} (he : IsEnum enum) (t0 : RawTree)
    (cfg : Config) (vote : Oracle κ) (ids : List CellId) (cells : List κ) (order : List Nat) :
    mapPipelineE enum t0 cfg vote ids cells order = mapPipeline t0 cfg vote ids cells order := by
  unfold mapPipelineE mapPipeline
  simp only [runChunksE_eq he]
  rfl

/-! ### `aggregate_votes` with the enumeration of `set(reference_types)` as a parameter -/

/-- `aggregate_votes`: `unq_types = list(set(reference_types)); unq_types.sort()`
with `enum` the list `list(set(reference_types))` came out as -/
def aggregateVotesE (enum types votes : List Nat) (corr : List Rat) :
    List Nat × List Rat × List Nat :=
  let unq := Election.uniqSorted enum
  (unq.map (fun t => ((Election.colsOf types t).map (fun i => votes.getD i 0)).sum),
   unq.map (fun t => ((Election.colsOf types t).map (fun i => corr.getD i 0)).sum),
   unq)

theorem uniqSorted_congr {e₁ e₂ : List Nat} (h : ∀ t, t ∈ e₁ ↔ t ∈ e₂) :
    Election.uniqSorted e₁ = Election.uniqSorted e₂ := by
  have s₁ := Election.sorted_uniqSorted e₁
  have s₂ := Election.sorted_uniqSorted e₂
  apply List.Perm.eq_of_pairwise (le := fun a b => a < b) _ s₁ s₂
  · apply (List.perm_ext_iff_of_nodup (s₁.imp (fun h => Nat.ne_of_lt h))
      (s₂.imp (fun h => Nat.ne_of_lt h))).2
    intro a
    rw [Election.mem_uniqSorted, Election.mem_uniqSorted, h]
  · intro a b _ _ h1 h2
    omega

theorem aggregateVotesE_eq {enum types : List Nat} (h : ∀ t, t ∈ enum ↔ t ∈ types)
    (votes : List Nat) (corr : List Rat) :
    aggregateVotesE enum types votes corr = Election.aggregateVotes types votes corr := by
  unfold aggregateVotesE Election.aggregateVotes
  rw [uniqSorted_congr h]

/-! ### trees that differ by the order of child lists -/

theorem levelUnder_equiv {t₁ t₂ : RawTree} (e : RawTree.TreeEquiv t₁ t₂)
    (p : Option (Level × Node)) : t₁.levelUnder p = t₂.levelUnder p := by
  cases p with
  | none => simp [RawTree.levelUnder, e.hier]
  | some q => simp [RawTree.levelUnder, RawTree.childLevel, RawTree.levelIdx, e.hier]

end CTM.EnumIndep
