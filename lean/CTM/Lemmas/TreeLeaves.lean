/-
  Hierarchy indexing, `asLeaves` vs the plain recursive spec `leavesSpec`,
  leaf partition / disjointness, parent–child inverse.  Core Lean only.
-/
import CTM.Lemmas.TreeDefs
import CTM.Lemmas.TreePairs

namespace CTM.RawTree

/-! ### generic list facts -/

theorem perm_flatMap_congr {α β} {l : List α} {f g : α → List β}
    (h : ∀ a, a ∈ l → (f a).Perm (g a)) : (l.flatMap f).Perm (l.flatMap g) := by
  induction l with
  | nil => simp
  | cons a l ih =>
    simp only [List.flatMap_cons]
    exact (h a List.mem_cons_self).append (ih (fun b hb => h b (List.mem_cons_of_mem _ hb)))

/-- two duplicate-free lists with the same members are permutations -/
theorem perm_of_nodup_of_mem_iff {l₁ l₂ : List Nat} (h₁ : l₁.Nodup) (h₂ : l₂.Nodup)
    (h : ∀ a, a ∈ l₁ ↔ a ∈ l₂) : l₁.Perm l₂ := by
  rw [List.perm_iff_count]
  intro a
  rw [h₁.count, h₂.count]
  simp only [h a]

/-! ### indexing the hierarchy (levels are distinct) -/

theorem mem_levelPairs_of_idx {h : List Level} {i : Nat} (hi : i + 1 < h.length) :
    (h[i], h[i+1]) ∈ levelPairs h := by
  unfold levelPairs
  rw [List.mem_iff_getElem]
  refine ⟨i, by simp [List.length_zip]; omega, ?_⟩
  simp [List.getElem_zip, List.getElem_tail]

theorem idx_of_mem_levelPairs {h : List Level} {pl cl : Level} (hm : (pl, cl) ∈ levelPairs h) :
    ∃ i, ∃ hi : i + 1 < h.length, h[i] = pl ∧ h[i+1] = cl := by
  unfold levelPairs at hm
  rw [List.mem_iff_getElem] at hm
  obtain ⟨i, hi, he⟩ := hm
  simp only [List.length_zip, List.length_tail] at hi
  refine ⟨i, by omega, ?_⟩
  simp only [List.getElem_zip, List.getElem_tail, Prod.mk.injEq] at he
  exact he

variable {t : RawTree}

theorem levelIdx_getElem (hn : t.hierarchy.Nodup) {i : Nat} (hi : i < t.hierarchy.length) :
    t.levelIdx t.hierarchy[i] = some i := by
  unfold levelIdx
  rw [List.idxOf?_eq_some_iff]
  refine ⟨hi, rfl, ?_⟩
  intro j hj he
  have := (List.getElem_inj hn).1 he
  omega

theorem levelIdx_of_mem {l : Level} (hl : l ∈ t.hierarchy) :
    ∃ i, ∃ hi : i < t.hierarchy.length, t.hierarchy[i] = l ∧ t.levelIdx l = some i := by
  unfold levelIdx
  cases h : t.hierarchy.idxOf? l with
  | none =>
    rw [List.idxOf?_eq_none_iff] at h
    exact absurd hl h
  | some i =>
    rw [List.idxOf?_eq_some_iff] at h
    obtain ⟨hi, he, _⟩ := h
    exact ⟨i, hi, he, rfl⟩

theorem levelIdx_none_of_not_mem {l : Level} (hl : l ∉ t.hierarchy) : t.levelIdx l = none := by
  unfold levelIdx
  rw [List.idxOf?_eq_none_iff]
  exact hl

theorem levelsBelow_getElem (hn : t.hierarchy.Nodup) {i : Nat} (hi : i < t.hierarchy.length) :
    t.levelsBelow t.hierarchy[i] = t.hierarchy.drop (i+1) := by
  simp [levelsBelow, levelIdx_getElem hn hi]

theorem childLevel_getElem (hn : t.hierarchy.Nodup) {i : Nat} (hi : i < t.hierarchy.length) :
    t.childLevel t.hierarchy[i] = t.hierarchy[i+1]? := by
  simp [childLevel, levelIdx_getElem hn hi]

theorem parentLevel_succ (hn : t.hierarchy.Nodup) {i : Nat} (hi : i + 1 < t.hierarchy.length) :
    t.parentLevel t.hierarchy[i+1] = some t.hierarchy[i] := by
  have hi' : i < t.hierarchy.length := by omega
  simp [parentLevel, levelIdx_getElem hn hi, List.getElem?_eq_getElem hi']

theorem parentLevel_zero (hn : t.hierarchy.Nodup) (h0 : 0 < t.hierarchy.length) :
    t.parentLevel t.hierarchy[0] = none := by
  simp [parentLevel, levelIdx_getElem hn h0]

theorem leafLevel_eq (hne : t.hierarchy ≠ []) :
    t.leafLevel = some (t.hierarchy[t.hierarchy.length - 1]'(by
      have := List.length_pos_iff.2 hne; omega)) := by
  unfold leafLevel
  rw [List.getLast?_eq_getElem?]
  exact List.getElem?_eq_getElem _

/-! ### `leavesFrom` against `leavesSpec` -/

theorem leavesFrom_perm (t : RawTree) : ∀ (below : List Level) (l : Level) (n : Node),
    (leavesFrom t below l n).Perm (leavesSpec t below l n)
  | [], _, _ => List.Perm.refl _
  | [_], l, n => by
    simp only [leavesFrom, leavesSpec]
    rw [List.flatMap_singleton']
  | cl :: c2 :: rest, l, n => by
    simp only [leavesFrom]
    rw [leavesSpec]
    refine ((sortNat_perm _).flatMap_right _).trans ?_
    exact perm_flatMap_congr (fun c _ => leavesFrom_perm t (c2 :: rest) cl c)

theorem mem_leavesFrom_iff (t : RawTree) (below : List Level) (l : Level) (n a : Node) :
    a ∈ leavesFrom t below l n ↔ a ∈ leavesSpec t below l n :=
  (leavesFrom_perm t below l n).mem_iff

theorem asLeaves_perm_spec (t : RawTree) (l : Level) (n : Node) :
    (t.asLeaves l n).Perm (leavesSpec t (t.levelsBelow l) l n) :=
  leavesFrom_perm t _ l n

/-- `asLeaves` of a leaf-level node is the node itself -/
theorem asLeaves_leaf (hn : t.hierarchy.Nodup) {i : Nat} (hi : i + 1 = t.hierarchy.length) (n : Node) :
    t.asLeaves (t.hierarchy[i]'(by omega)) n = [n] := by
  unfold asLeaves
  rw [levelsBelow_getElem hn (by omega), List.drop_eq_nil_of_le (by omega)]
  rfl

/-- union part of the partition (no well-formedness needed beyond distinct
level names): the leaves of a node are the leaves of its children -/
theorem asLeaves_perm_children (hn : t.hierarchy.Nodup) {i : Nat} (hi : i + 1 < t.hierarchy.length)
    (n : Node) :
    (t.asLeaves (t.hierarchy[i]'(by omega)) n).Perm
      ((t.entry (t.hierarchy[i]'(by omega)) n).flatMap (t.asLeaves t.hierarchy[i+1])) := by
  have hi' : i < t.hierarchy.length := by omega
  refine (asLeaves_perm_spec t _ n).trans ?_
  rw [levelsBelow_getElem hn hi', List.drop_eq_getElem_cons hi, leavesSpec]
  refine perm_flatMap_congr (fun c _ => ?_)
  have := asLeaves_perm_spec t t.hierarchy[i+1] c
  rw [levelsBelow_getElem hn hi] at this
  exact this.symm

/-! ### disjointness: needs the strict-tree facts -/

/-- per-index form of the strict-tree facts, through `entry` -/
theorem Strict.entry_nodup (s : Strict t) {i : Nat} (hi : i + 1 < t.hierarchy.length)
    {p : Node} (hp : p ∈ t.nodesAt (t.hierarchy[i]'(by omega))) :
    (t.entry (t.hierarchy[i]'(by omega)) p).Nodup :=
  s.childNodup _ _ (mem_levelPairs_of_idx hi) p _ (mem_level_entry hp)

theorem Strict.entry_sub (s : Strict t) {i : Nat} (hi : i + 1 < t.hierarchy.length)
    {p : Node} (hp : p ∈ t.nodesAt (t.hierarchy[i]'(by omega))) {c : Node}
    (hc : c ∈ t.entry (t.hierarchy[i]'(by omega)) p) : c ∈ t.nodesAt t.hierarchy[i+1] :=
  s.childExists _ _ (mem_levelPairs_of_idx hi) p _ (mem_level_entry hp) c hc

theorem Strict.entry_disjoint (s : Strict t) {i : Nat} (hi : i + 1 < t.hierarchy.length)
    {p₁ p₂ : Node} (h₁ : p₁ ∈ t.nodesAt (t.hierarchy[i]'(by omega)))
    (h₂ : p₂ ∈ t.nodesAt (t.hierarchy[i]'(by omega))) {c : Node}
    (hc₁ : c ∈ t.entry (t.hierarchy[i]'(by omega)) p₁)
    (hc₂ : c ∈ t.entry (t.hierarchy[i]'(by omega)) p₂) : p₁ = p₂ :=
  s.oneParent _ _ (mem_levelPairs_of_idx hi) p₁ _ p₂ _ (mem_level_entry h₁) (mem_level_entry h₂) c hc₁ hc₂

/-- children of distinct nodes of one level: a duplicate-free list of nodes of
the next level -/
theorem Strict.children_nodup (s : Strict t) {i : Nat} (hi : i + 1 < t.hierarchy.length)
    {ns : List Node} (hns : ns.Nodup)
    (hsub : ∀ n, n ∈ ns → n ∈ t.nodesAt (t.hierarchy[i]'(by omega))) :
    (ns.flatMap (t.entry (t.hierarchy[i]'(by omega)))).Nodup := by
  unfold List.Nodup
  rw [List.pairwise_flatMap]
  refine ⟨fun n hn => s.entry_nodup hi (hsub n hn), ?_⟩
  refine List.Pairwise.imp_of_mem ?_ hns
  intro a b ha hb hab x hx y hy hxy
  subst hxy
  exact hab (s.entry_disjoint hi (hsub a ha) (hsub b hb) hx hy)

theorem leavesSpec_flatMap_nodup (s : Strict t) :
    ∀ (below : List Level) (i : Nat) (hi : i < t.hierarchy.length),
      below = t.hierarchy.drop (i+1) → ∀ ns : List Node, ns.Nodup →
      (∀ n, n ∈ ns → n ∈ t.nodesAt t.hierarchy[i]) →
      (ns.flatMap (leavesSpec t below t.hierarchy[i])).Nodup
  | [], i, hi, _, ns, hns, _ => by
    have : leavesSpec t [] t.hierarchy[i] = fun n => [n] := by funext n; rfl
    rw [this, List.flatMap_singleton']
    exact hns
  | cl :: rest, i, hi, hb, ns, hns, hsub => by
    have hi1 : i + 1 < t.hierarchy.length := by
      rcases Nat.lt_or_ge (i+1) t.hierarchy.length with hc | hc
      · exact hc
      · rw [List.drop_eq_nil_of_le hc] at hb
        cases hb
    rw [List.drop_eq_getElem_cons hi1] at hb
    have hcl : cl = t.hierarchy[i+1] := (List.cons.inj hb).1
    have hrest : rest = t.hierarchy.drop (i+1+1) := (List.cons.inj hb).2
    have : leavesSpec t (cl :: rest) t.hierarchy[i] =
        fun n => (t.entry t.hierarchy[i] n).flatMap (leavesSpec t rest cl) := by
      funext n; rw [leavesSpec]
    rw [this, ← List.flatMap_assoc]
    subst hcl
    refine leavesSpec_flatMap_nodup s rest (i+1) hi1 hrest _ (s.children_nodup hi1 hns hsub) ?_
    intro c hc
    rw [List.mem_flatMap] at hc
    obtain ⟨n, hn, hcn⟩ := hc
    exact s.entry_sub hi1 (hsub n hn) hcn

/-- the leaf lists of distinct nodes of one level are duplicate free and
pairwise disjoint (stated as: their concatenation has no duplicate) -/
theorem asLeaves_flatMap_nodup (s : Strict t) (hn : t.hierarchy.Nodup) {i : Nat}
    (hi : i < t.hierarchy.length) {ns : List Node} (hns : ns.Nodup)
    (hsub : ∀ n, n ∈ ns → n ∈ t.nodesAt t.hierarchy[i]) :
    (ns.flatMap (t.asLeaves t.hierarchy[i])).Nodup := by
  have hp : (ns.flatMap (t.asLeaves t.hierarchy[i])).Perm
      (ns.flatMap (leavesSpec t (t.hierarchy.drop (i+1)) t.hierarchy[i])) := by
    refine perm_flatMap_congr (fun n _ => ?_)
    have := asLeaves_perm_spec t t.hierarchy[i] n
    rw [levelsBelow_getElem hn hi] at this
    exact this
  exact hp.symm.nodup (leavesSpec_flatMap_nodup s _ i hi rfl ns hns hsub)

theorem asLeaves_nodup (s : Strict t) (hn : t.hierarchy.Nodup) {i : Nat}
    (hi : i < t.hierarchy.length) {n : Node} (hmem : n ∈ t.nodesAt t.hierarchy[i]) :
    (t.asLeaves t.hierarchy[i] n).Nodup := by
  have := asLeaves_flatMap_nodup s hn hi (ns := [n]) (by simp)
    (by intro m hm; rw [List.mem_singleton] at hm; subst hm; exact hmem)
  simpa using this

/-- leaves under a node are keys of the leaf level -/
theorem leavesSpec_sub_leaf (s : Strict t) :
    ∀ (below : List Level) (i : Nat) (hi : i < t.hierarchy.length),
      below = t.hierarchy.drop (i+1) → ∀ n, n ∈ t.nodesAt t.hierarchy[i] →
      ∀ a, a ∈ leavesSpec t below t.hierarchy[i] n →
        a ∈ t.nodesAt (t.hierarchy[t.hierarchy.length - 1]'(by omega))
  | [], i, hi, hb, n, hmem, a, ha => by
    have hlen : t.hierarchy.length ≤ i + 1 := by
      rcases Nat.lt_or_ge (i+1) t.hierarchy.length with hc | hc
      · rw [List.drop_eq_getElem_cons hc] at hb
        cases hb
      · exact hc
    have : t.hierarchy.length - 1 = i := by omega
    simp only [leavesSpec, List.mem_singleton] at ha
    subst ha
    simp only [this]
    exact hmem
  | cl :: rest, i, hi, hb, n, hmem, a, ha => by
    have hi1 : i + 1 < t.hierarchy.length := by
      rcases Nat.lt_or_ge (i+1) t.hierarchy.length with hc | hc
      · exact hc
      · rw [List.drop_eq_nil_of_le hc] at hb
        cases hb
    rw [List.drop_eq_getElem_cons hi1] at hb
    have hcl : cl = t.hierarchy[i+1] := (List.cons.inj hb).1
    have hrest : rest = t.hierarchy.drop (i+1+1) := (List.cons.inj hb).2
    rw [leavesSpec, List.mem_flatMap] at ha
    obtain ⟨c, hc, hac⟩ := ha
    subst hcl
    exact leavesSpec_sub_leaf s rest (i+1) hi1 hrest c (s.entry_sub hi1 hmem hc) a hac

theorem asLeaves_sub_leaf (s : Strict t) (hn : t.hierarchy.Nodup) {i : Nat}
    (hi : i < t.hierarchy.length) {n : Node} (hmem : n ∈ t.nodesAt t.hierarchy[i])
    {a : Node} (ha : a ∈ t.asLeaves t.hierarchy[i] n) :
    a ∈ t.nodesAt (t.hierarchy[t.hierarchy.length - 1]'(by omega)) := by
  have hp := asLeaves_perm_spec t t.hierarchy[i] n
  rw [levelsBelow_getElem hn hi] at hp
  exact leavesSpec_sub_leaf s _ i hi rfl n hmem a (hp.mem_iff.1 ha)

/-! ### every leaf is under exactly one node of each level -/

/-- the children of all nodes of a level are exactly the nodes of the next -/
theorem Strict.children_perm_next (s : Strict t) (d : DictOK t) {i : Nat}
    (hi : i + 1 < t.hierarchy.length) :
    ((t.nodesAt (t.hierarchy[i]'(by omega))).flatMap (t.entry (t.hierarchy[i]'(by omega)))).Perm
      (t.nodesAt t.hierarchy[i+1]) := by
  refine perm_of_nodup_of_mem_iff (s.children_nodup hi (d.nodesAt_nodup _) (fun _ h => h))
    (d.nodesAt_nodup _) (fun c => ⟨?_, ?_⟩)
  · intro hc
    rw [List.mem_flatMap] at hc
    obtain ⟨n, hn, hcn⟩ := hc
    exact s.entry_sub hi hn hcn
  · intro hc
    obtain ⟨p, cs, hp, hcs⟩ := s.hasParent _ _ (mem_levelPairs_of_idx hi) c hc
    rw [List.mem_flatMap]
    exact ⟨p, mem_nodesAt.2 ⟨cs, hp⟩, by rw [entry_of_mem d hp]; exact hcs⟩

theorem leavesSpec_cover (s : Strict t) (d : DictOK t) :
    ∀ (below : List Level) (i : Nat) (hi : i < t.hierarchy.length),
      below = t.hierarchy.drop (i+1) →
      ((t.nodesAt t.hierarchy[i]).flatMap (leavesSpec t below t.hierarchy[i])).Perm
        (t.nodesAt (t.hierarchy[t.hierarchy.length - 1]'(by omega)))
  | [], i, hi, hb => by
    have hlen : t.hierarchy.length ≤ i + 1 := by
      rcases Nat.lt_or_ge (i+1) t.hierarchy.length with hc | hc
      · rw [List.drop_eq_getElem_cons hc] at hb
        cases hb
      · exact hc
    have e : t.hierarchy.length - 1 = i := by omega
    have : leavesSpec t [] t.hierarchy[i] = fun n => [n] := by funext n; rfl
    rw [this, List.flatMap_singleton']
    simp only [e]
    exact List.Perm.refl _
  | cl :: rest, i, hi, hb => by
    have hi1 : i + 1 < t.hierarchy.length := by
      rcases Nat.lt_or_ge (i+1) t.hierarchy.length with hc | hc
      · exact hc
      · rw [List.drop_eq_nil_of_le hc] at hb
        cases hb
    rw [List.drop_eq_getElem_cons hi1] at hb
    have hcl : cl = t.hierarchy[i+1] := (List.cons.inj hb).1
    have hrest : rest = t.hierarchy.drop (i+1+1) := (List.cons.inj hb).2
    have : leavesSpec t (cl :: rest) t.hierarchy[i] =
        fun n => (t.entry t.hierarchy[i] n).flatMap (leavesSpec t rest cl) := by
      funext n; rw [leavesSpec]
    rw [this, ← List.flatMap_assoc]
    subst hcl
    exact ((s.children_perm_next d hi1).flatMap_right _).trans
      (leavesSpec_cover s d rest (i+1) hi1 hrest)

/-- the leaf lists of all nodes of a level partition the leaf level -/
theorem asLeaves_cover (s : Strict t) (d : DictOK t) (hn : t.hierarchy.Nodup) {i : Nat}
    (hi : i < t.hierarchy.length) :
    ((t.nodesAt t.hierarchy[i]).flatMap (t.asLeaves t.hierarchy[i])).Perm
      (t.nodesAt (t.hierarchy[t.hierarchy.length - 1]'(by omega))) := by
  refine (perm_flatMap_congr (fun n _ => ?_)).trans (leavesSpec_cover s d _ i hi rfl)
  have := asLeaves_perm_spec t t.hierarchy[i] n
  rw [levelsBelow_getElem hn hi] at this
  exact this

/-! ### `childToParent`, `parents` -/

theorem childToParent_eq_some_iff (s : Strict t) (hn : t.hierarchy.Nodup) {i : Nat}
    (hi : i + 1 < t.hierarchy.length) (c p : Node) :
    t.childToParent t.hierarchy[i+1] c = some p ↔ t.IsChild (t.hierarchy[i]'(by omega)) p c := by
  unfold childToParent
  rw [parentLevel_succ hn hi]
  simp only [Option.map_eq_some_iff]
  constructor
  · rintro ⟨e, hf, rfl⟩
    have hm := List.mem_of_find?_eq_some hf
    have hp := List.find?_some hf
    rw [List.mem_reverse] at hm
    exact ⟨e.2, hm, by simpa using hp⟩
  · rintro ⟨cs, hm, hc⟩
    have hsome : ((t.level (t.hierarchy[i]'(by omega))).reverse.find?
        (fun x => x.2.contains c)).isSome := by
      rw [List.find?_isSome]
      exact ⟨(p, cs), List.mem_reverse.2 hm, by simpa using hc⟩
    obtain ⟨e, he⟩ := Option.isSome_iff_exists.1 hsome
    refine ⟨e, he, ?_⟩
    have hm' := List.mem_of_find?_eq_some he
    have hp' := List.find?_some he
    rw [List.mem_reverse] at hm'
    exact s.oneParent _ _ (mem_levelPairs_of_idx hi) e.1 e.2 p cs hm' hm c (by simpa using hp') hc

/-- a node of a non-top level has a parent -/
theorem childToParent_isSome (s : Strict t) (hn : t.hierarchy.Nodup) {i : Nat}
    (hi : i + 1 < t.hierarchy.length) {c : Node} (hc : c ∈ t.nodesAt t.hierarchy[i+1]) :
    ∃ p, t.childToParent t.hierarchy[i+1] c = some p ∧ p ∈ t.nodesAt (t.hierarchy[i]'(by omega)) := by
  obtain ⟨p, cs, hp, hcs⟩ := s.hasParent _ _ (mem_levelPairs_of_idx hi) c hc
  exact ⟨p, (childToParent_eq_some_iff s hn hi c p).2 ⟨cs, hp, hcs⟩, mem_nodesAt.2 ⟨cs, hp⟩⟩

theorem parentsAux_zero_level (hn : t.hierarchy.Nodup) (h0 : 0 < t.hierarchy.length)
    (fuel : Nat) (n : Node) : t.parentsAux fuel t.hierarchy[0] n = [] := by
  cases fuel with
  | zero => rfl
  | succ f => simp [parentsAux, parentLevel_zero hn h0]

theorem parentsAux_succ (hn : t.hierarchy.Nodup) {i : Nat} (hi : i + 1 < t.hierarchy.length)
    (fuel : Nat) {c p : Node} (hp : t.childToParent t.hierarchy[i+1] c = some p) :
    t.parentsAux (fuel+1) t.hierarchy[i+1] c =
      (t.hierarchy[i]'(by omega), p) :: t.parentsAux fuel (t.hierarchy[i]'(by omega)) p := by
  simp [parentsAux, parentLevel_succ hn hi, hp]

/-- enough fuel: the answer does not depend on it -/
theorem parentsAux_fuel (s : Strict t) (hn : t.hierarchy.Nodup) :
    ∀ (i : Nat) (hi : i < t.hierarchy.length) (fuel : Nat), i ≤ fuel →
      ∀ n, n ∈ t.nodesAt t.hierarchy[i] →
      t.parentsAux fuel t.hierarchy[i] n = t.parentsAux i t.hierarchy[i] n
  | 0, hi, fuel, _, n, _ => by
    rw [parentsAux_zero_level hn hi, parentsAux_zero_level hn hi]
  | i+1, hi, fuel, hf, n, hmem => by
    obtain ⟨p, hp, hpm⟩ := childToParent_isSome s hn hi hmem
    obtain ⟨f, rfl⟩ : ∃ f, fuel = f + 1 := ⟨fuel - 1, by omega⟩
    rw [parentsAux_succ hn hi f hp, parentsAux_succ hn hi i hp]
    rw [parentsAux_fuel s hn i (by omega) f (by omega) p hpm]

/-- `parents` unrolled one level -/
theorem parents_succ' (s : Strict t) (hn : t.hierarchy.Nodup) {i : Nat}
    (hi : i + 1 < t.hierarchy.length) {c p : Node}
    (hp : t.childToParent t.hierarchy[i+1] c = some p) :
    t.parents t.hierarchy[i+1] c =
      (t.hierarchy[i]'(by omega), p) :: t.parents (t.hierarchy[i]'(by omega)) p := by
  have hpm : p ∈ t.nodesAt (t.hierarchy[i]'(by omega)) := by
    obtain ⟨cs, hm, _⟩ := (childToParent_eq_some_iff s hn hi c p).1 hp
    exact mem_nodesAt.2 ⟨cs, hm⟩
  have key : ∀ F, i + 1 ≤ F → t.parentsAux F t.hierarchy[i+1] c =
      (t.hierarchy[i]'(by omega), p) :: t.parentsAux F (t.hierarchy[i]'(by omega)) p := by
    intro F hF
    obtain ⟨f, rfl⟩ : ∃ f, F = f + 1 := ⟨F - 1, by omega⟩
    rw [parentsAux_succ hn hi f hp]
    rw [parentsAux_fuel s hn i (by omega) f (by omega) p hpm,
      parentsAux_fuel s hn i (by omega) (f+1) (by omega) p hpm]
  exact key _ (by omega)

theorem parents_succ (s : Strict t) (hn : t.hierarchy.Nodup) {i : Nat}
    (hi : i + 1 < t.hierarchy.length) {c p : Node} (_hc : c ∈ t.nodesAt t.hierarchy[i+1])
    (hp : t.childToParent t.hierarchy[i+1] c = some p) :
    t.parents t.hierarchy[i+1] c =
      (t.hierarchy[i]'(by omega), p) :: t.parents (t.hierarchy[i]'(by omega)) p :=
  parents_succ' s hn hi hp

theorem parents_top (hn : t.hierarchy.Nodup) (h0 : 0 < t.hierarchy.length) (n : Node) :
    t.parents t.hierarchy[0] n = [] :=
  parentsAux_zero_level hn h0 _ n

/-- `parents` lists one ancestor per level above, nearest first -/
theorem parents_levels (s : Strict t) (hn : t.hierarchy.Nodup) :
    ∀ (i : Nat) (hi : i < t.hierarchy.length) (n : Node), n ∈ t.nodesAt t.hierarchy[i] →
      (t.parents t.hierarchy[i] n).map (·.1) = (t.hierarchy.take i).reverse
  | 0, hi, n, _ => by simp [parents_top hn hi]
  | i+1, hi, n, hmem => by
    obtain ⟨p, hp, hpm⟩ := childToParent_isSome s hn hi hmem
    rw [parents_succ s hn hi hmem hp, List.map_cons, parents_levels s hn i (by omega) p hpm]
    rw [List.take_succ_eq_append_getElem (by omega), List.reverse_append]
    rfl

end CTM.RawTree
