/-
  Lemmas about `get_batch` (`argsort`, un-sorting) of `CTM/Model/Sparse.lean`.
-/
import CTM.Lemmas.SparseRows

namespace CTM.Sparse
open CTM.Chunking

/-! sortedness of insertion sort on a Nat key -/

theorem insertBy_sorted {β} (key : β → Nat) (x : β) : ∀ (l : List β),
    l.Pairwise (fun a b => key a ≤ key b) →
    (insertBy (fun a b => decide (key a ≤ key b)) x l).Pairwise (fun a b => key a ≤ key b) := by
  intro l
  induction l with
  | nil => intro _; simp [insertBy]
  | cons y ys ih =>
    intro h
    rw [List.pairwise_cons] at h
    simp only [insertBy]
    by_cases hxy : key x ≤ key y
    · simp only [hxy, decide_true, if_true]
      rw [List.pairwise_cons]
      refine ⟨?_, List.pairwise_cons.mpr h⟩
      intro z hz
      rcases List.mem_cons.mp hz with hz | hz
      · subst hz; exact hxy
      · have := h.1 z hz; omega
    · simp only [hxy, decide_false, Bool.false_eq_true, if_false]
      rw [List.pairwise_cons]
      refine ⟨?_, ih h.2⟩
      intro z hz
      have hp := (insertBy_perm (fun a b => decide (key a ≤ key b)) x ys).subset hz
      rcases List.mem_cons.mp hp with hz | hz
      · subst hz; omega
      · exact h.1 z hz

theorem isort_sorted {β} (key : β → Nat) : ∀ (l : List β),
    (isort (fun a b => decide (key a ≤ key b)) l).Pairwise (fun a b => key a ≤ key b) := by
  intro l
  induction l with
  | nil => exact List.Pairwise.nil
  | cons x xs ih => exact insertBy_sorted key x _ ih

theorem strictInc_of_pairwise : ∀ (l : List Nat), l.Pairwise (· < ·) → strictInc l = true := by
  intro l
  induction l with
  | nil => intro _; rfl
  | cons x xs ih =>
    intro h
    rw [List.pairwise_cons] at h
    cases xs with
    | nil => rfl
    | cons y ys =>
      simp only [strictInc, Bool.and_eq_true, decide_eq_true_eq]
      exact ⟨h.1 y (by simp), ih h.2⟩

theorem pairwise_of_strictInc : ∀ (l : List Nat), strictInc l = true → l.Pairwise (· < ·) := by
  intro l
  induction l with
  | nil => intro _; exact List.Pairwise.nil
  | cons x xs ih =>
    intro h
    cases xs with
    | nil => simp
    | cons y ys =>
      simp only [strictInc, Bool.and_eq_true, decide_eq_true_eq] at h
      have ih' := ih h.2
      rw [List.pairwise_cons]
      refine ⟨?_, ih'⟩
      intro z hz
      rcases List.mem_cons.mp hz with hz | hz
      · subst hz; exact h.1
      · have := (List.pairwise_cons.mp ih').1 z hz
        omega

/-- the sorted keys (`row_index_list[sorted_dex]`) -/
theorem argsort_sorted_rows (rows : List Nat) :
    (argsort rows).map (rows.getD · 0)
      = (isort (fun a b : Nat × Nat => decide (a.1 ≤ b.1)) rows.zipIdx).map (·.1) := by
  unfold argsort
  rw [List.map_map]
  apply List.map_congr_left
  intro p hp
  have hp' := (isort_perm _ rows.zipIdx).subset hp
  rw [List.mem_zipIdx_iff_getElem?] at hp'
  simp [Function.comp, List.getD_eq_getElem?_getD, hp']

theorem argsort_perm (rows : List Nat) : (argsort rows).Perm (List.range rows.length) := by
  unfold argsort
  have h1 := (isort_perm (fun a b : Nat × Nat => decide (a.1 ≤ b.1)) rows.zipIdx).map (·.2)
  have h2 : rows.zipIdx.map (·.2) = List.range rows.length := by
    rw [List.zipIdx_map_snd, List.range_eq_range']
  rw [h2] at h1
  exact h1

theorem sortedRows_perm (rows : List Nat) : ((argsort rows).map (rows.getD · 0)).Perm rows := by
  rw [argsort_sorted_rows]
  have h1 := (isort_perm (fun a b : Nat × Nat => decide (a.1 ≤ b.1)) rows.zipIdx).map (·.1)
  rw [List.zipIdx_map_fst] at h1
  exact h1

theorem sortedRows_strict (rows : List Nat) (hn : rows.Nodup) :
    ((argsort rows).map (rows.getD · 0)).Pairwise (· < ·) := by
  have hnd : ((argsort rows).map (rows.getD · 0)).Nodup :=
    (sortedRows_perm rows).nodup_iff.mpr hn
  rw [argsort_sorted_rows] at hnd ⊢
  have hs := isort_sorted (fun p : Nat × Nat => p.1) rows.zipIdx
  rw [List.pairwise_map]
  rw [List.Nodup, List.pairwise_map] at hnd
  apply List.Pairwise.imp _ (List.Pairwise.and hs hnd)
  intro a b hab
  omega

theorem foldl_set_length {β} : ∀ (cvs : List (Nat × β)) (row : List β),
    (cvs.foldl (fun r cv => r.set cv.1 cv.2) row).length = row.length := by
  intro cvs
  induction cvs with
  | nil => intro row; rfl
  | cons cv rest ih => intro row; rw [List.foldl_cons, ih]; simp

theorem filter_beq_of_nodup (l : List Nat) (j : Nat) (hn : l.Nodup) (hj : j ∈ l) :
    l.filter (· == j) = [j] := by
  rw [List.filter_beq, hn.count, if_pos hj]
  rfl

/-- **`DenseArrayRowIterator.get_batch`**: for a non-empty row list without
repeats, all in range, in any order, row `i` of the result is row `rows[i]` of
the matrix -/
theorem denseGetBatch_ok {α} (zero : α) (D : Dense α) (nCols : Nat) (rows : List Nat)
    (hne : rows ≠ []) (hn : rows.Nodup) (hr : ∀ r ∈ rows, r < D.length) :
    denseGetBatch zero D nCols rows = .ok (rows.map (D.getD · [])) := by
  unfold denseGetBatch
  simp only
  have h1 : rows.isEmpty = false := by
    cases rows with
    | nil => exact absurd rfl hne
    | cons _ _ => rfl
  have h2 : strictInc ((argsort rows).map (rows.getD · 0)) = true :=
    strictInc_of_pairwise _ (sortedRows_strict rows hn)
  have h3 : ((argsort rows).map (rows.getD · 0)).any (· ≥ D.length) = false := by
    rw [List.any_eq_false]
    intro x hx
    have := hr x ((sortedRows_perm rows).subset hx)
    simp; omega
  simp only [h1, h2, h3, Bool.false_eq_true, if_false, Bool.not_true]
  congr 1
  apply List.ext_getElem
  · rw [foldl_set_length]; simp
  · intro j hj1 hj2
    have hj : j < rows.length := by simpa using hj2
    rw [getElem_eq_getD _ _ _ ([] : List α)]
    rw [foldl_set_getD ([] : List α) _ _ j (by simpa using hj)]
    rw [List.map_map]
    have hz : (argsort rows).zip ((argsort rows).map ((fun x => D.getD x []) ∘ fun x => rows.getD x 0))
        = (argsort rows).map (fun i => (i, D.getD (rows.getD i 0) [])) := by
      have := @List.zip_map' Nat Nat (List α) id
        ((fun x => D.getD x []) ∘ fun x => rows.getD x 0) (argsort rows)
      rw [List.map_id] at this
      exact this
    rw [hz, List.filter_map]
    have hf : ((fun x : Nat × List α => x.1 == j) ∘ fun i => (i, D.getD (rows.getD i 0) []))
        = (· == j) := rfl
    rw [hf]
    have hperm := argsort_perm rows
    have hnd : (argsort rows).Nodup := hperm.nodup_iff.mpr List.nodup_range
    have hmem : j ∈ argsort rows := hperm.mem_iff.mpr (List.mem_range.mpr hj)
    rw [filter_beq_of_nodup _ j hnd hmem]
    simp [List.getD_eq_getElem?_getD, hj]

/-! ### merge_index_list -/

/-- the ranges built from a strictly increasing list cover exactly its
elements, are non-empty, increasing and separated by a gap -/
theorem mergeRuns_cover : ∀ (ys : List Nat) (lo hi : Nat), lo ≤ hi →
    (hi :: ys).Pairwise (· < ·) →
    (mergeRuns lo hi ys).flatMap rangeOf = List.range' lo (hi + 1 - lo) ++ ys := by
  intro ys
  induction ys with
  | nil => intro lo hi _ _; simp [mergeRuns, rangeOf]
  | cons y ys ih =>
    intro lo hi hle hs
    rw [List.pairwise_cons] at hs
    have hy : hi < y := hs.1 y (by simp)
    unfold mergeRuns
    by_cases hgap : y - hi > 1
    · simp only [hgap, if_true, List.flatMap_cons]
      rw [ih y y (Nat.le_refl _) hs.2]
      simp [rangeOf]
    · simp only [hgap, if_false]
      have hy' : y = hi + 1 := by omega
      rw [ih lo y (by omega) hs.2]
      have e : y + 1 - lo = (hi + 1 - lo) + 1 := by omega
      rw [e, List.range'_concat]
      simp only [List.append_assoc, List.singleton_append]
      congr 2
      omega

theorem mergeRuns_sep : ∀ (ys : List Nat) (lo hi : Nat), lo ≤ hi →
    (hi :: ys).Pairwise (· < ·) →
    (mergeRuns lo hi ys).Pairwise (fun p q => p.2 < q.1) ∧
    (∀ p ∈ mergeRuns lo hi ys, lo ≤ p.1 ∧ p.1 < p.2) ∧
    (∀ p ∈ mergeRuns lo hi ys, p.2 - 1 ∈ hi :: ys) := by
  intro ys
  induction ys with
  | nil =>
    intro lo hi hle _
    simp [mergeRuns]; omega
  | cons y ys ih =>
    intro lo hi hle hs
    rw [List.pairwise_cons] at hs
    have hy : hi < y := hs.1 y (by simp)
    unfold mergeRuns
    by_cases hgap : y - hi > 1
    · simp only [hgap, if_true]
      obtain ⟨i1, i2, i3⟩ := ih y y (Nat.le_refl _) hs.2
      refine ⟨?_, ?_, ?_⟩
      · rw [List.pairwise_cons]
        refine ⟨?_, i1⟩
        intro q hq
        have := (i2 q hq).1
        simp only; omega
      · intro p hp
        rcases List.mem_cons.mp hp with hp | hp
        · subst hp; simp only; omega
        · have := i2 p hp; omega
      · intro p hp
        rcases List.mem_cons.mp hp with hp | hp
        · subst hp; simp
        · have := i3 p hp
          exact List.mem_cons_of_mem _ this
    · simp only [hgap, if_false]
      obtain ⟨i1, i2, i3⟩ := ih lo y (by omega) hs.2
      refine ⟨i1, i2, ?_⟩
      intro p hp
      exact List.mem_cons_of_mem _ (i3 p hp)

theorem dedupAdj_of_strict : ∀ (l : List Nat), l.Pairwise (· < ·) → dedupAdj l = l := by
  intro l
  induction l with
  | nil => intro _; rfl
  | cons x xs ih =>
    intro h
    rw [List.pairwise_cons] at h
    cases xs with
    | nil => rfl
    | cons y ys =>
      have : x < y := h.1 y (by simp)
      have hne : (x == y) = false := by simp; omega
      simp only [dedupAdj, hne, Bool.false_eq_true, if_false]
      rw [ih h.2]

theorem npUnique_of_strict (l : List Nat) (h : l.Pairwise (· < ·)) : npUnique l = l := by
  unfold npUnique
  rw [isort_of_pairwise]
  · exact dedupAdj_of_strict l h
  · apply List.Pairwise.imp _ h
    intro a b hab
    simp; omega

theorem dedupAdj_spec : ∀ (l : List Nat), l.Pairwise (· ≤ ·) →
    (dedupAdj l).Pairwise (· < ·) ∧ (∀ z, z ∈ dedupAdj l ↔ z ∈ l) := by
  intro l
  fun_induction dedupAdj l with
  | case1 x y r hxy ih =>
    intro h
    rw [List.pairwise_cons] at h
    obtain ⟨i1, i2⟩ := ih h.2
    refine ⟨i1, ?_⟩
    intro z
    rw [i2 z]
    have : x = y := by simpa using hxy
    subst this
    simp
  | case2 x y r hxy ih =>
    intro h
    rw [List.pairwise_cons] at h
    obtain ⟨i1, i2⟩ := ih h.2
    have hne : x ≠ y := by simpa using hxy
    refine ⟨?_, ?_⟩
    · rw [List.pairwise_cons]
      refine ⟨?_, i1⟩
      intro z hz
      have hz' := (i2 z).mp hz
      have hxy' := h.1 y (by simp)
      rcases List.mem_cons.mp hz' with hz' | hz'
      · subst hz'; omega
      · have := (List.pairwise_cons.mp h.2).1 z hz'
        omega
    · intro z
      simp only [List.mem_cons, i2 z]
  | case3 l hl =>
    intro h
    refine ⟨?_, fun z => Iff.rfl⟩
    cases l with
    | nil => exact List.Pairwise.nil
    | cons a t =>
      cases t with
      | nil => simp
      | cons b t' => exact absurd rfl (hl a b t')

/-- **`merge_index_list`**: for every non-empty list of integers (any order,
repeats allowed) the result is a list of non-empty ranges, increasing and
separated by gaps (so maximal), whose union is exactly the set of the input -/
theorem mergeIndexList_ok (xs : List Nat) (hne : xs ≠ []) :
    ∃ rs, mergeIndexList xs = .ok rs ∧
      rs.flatMap rangeOf = npUnique xs ∧
      (npUnique xs).Pairwise (· < ·) ∧ (∀ z, z ∈ npUnique xs ↔ z ∈ xs) ∧
      rs.Pairwise (fun p q => p.2 < q.1) ∧ (∀ p ∈ rs, p.1 < p.2) := by
  have hs : (isort (fun a b => decide (a ≤ b)) xs).Pairwise (· ≤ ·) :=
    isort_sorted (fun a : Nat => a) xs
  obtain ⟨u1, u2⟩ := dedupAdj_spec _ hs
  have hmem : ∀ z, z ∈ npUnique xs ↔ z ∈ xs := by
    intro z
    unfold npUnique
    rw [u2 z]
    exact (isort_perm _ xs).mem_iff
  unfold mergeIndexList
  cases hu : npUnique xs with
  | nil =>
    exfalso
    cases xs with
    | nil => exact hne rfl
    | cons a t =>
      have := (hmem a).mpr (by simp)
      rw [hu] at this
      simp at this
  | cons x rest =>
    have hstrict : (x :: rest).Pairwise (· < ·) := by
      rw [← hu]; exact u1
    refine ⟨mergeRuns x x rest, rfl, ?_, hstrict, ?_, ?_, ?_⟩
    · rw [mergeRuns_cover rest x x (Nat.le_refl _) hstrict]
      simp [List.range'_one]
    · intro z; rw [← hu]; exact hmem z
    · exact (mergeRuns_sep rest x x (Nat.le_refl _) hstrict).1
    · intro p hp
      exact ((mergeRuns_sep rest x x (Nat.le_refl _) hstrict).2.1 p hp).2

end CTM.Sparse
