/-
  Helper lemmas for the level-loop group (C01, C06, C17).  Core Lean only.
-/
import CTM.Model.LevelLoop

namespace CTM
namespace LevelLoop

open RawTree

/-! ### small list facts -/

theorem hasDup_false_nodup : ∀ (xs : List Nat), hasDup xs = false → xs.Nodup
  | [], _ => List.nodup_nil
  | x :: xs, h => by
    simp only [hasDup, Bool.or_eq_false_iff] at h
    have h1 : x ∉ xs := by
      intro hm
      simp at h
      exact h.1 hm
    exact List.nodup_cons.mpr ⟨h1, hasDup_false_nodup xs h.2⟩

theorem mem_insertSorted (x y : Nat) : ∀ (ys : List Nat), y ∈ insertSorted x ys ↔ y = x ∨ y ∈ ys
  | [] => by simp [insertSorted]
  | z :: zs => by
    simp only [insertSorted]
    split
    · simp
    · simp only [List.mem_cons, mem_insertSorted x y zs]
      constructor
      · rintro (h | h | h) <;> simp [h]
      · rintro (h | h | h) <;> simp [h]

theorem nodup_insertSorted (x : Nat) : ∀ (ys : List Nat), x ∉ ys → ys.Nodup → (insertSorted x ys).Nodup
  | [], _, _ => by simp [insertSorted]
  | z :: zs, hx, hn => by
    simp only [insertSorted]
    split
    · exact List.nodup_cons.mpr ⟨hx, hn⟩
    · have hz := List.nodup_cons.mp hn
      have hx' : x ∉ zs := fun h => hx (List.mem_cons_of_mem _ h)
      refine List.nodup_cons.mpr ⟨?_, nodup_insertSorted x zs hx' hz.2⟩
      intro hm
      rcases (mem_insertSorted x z zs).mp hm with h | h
      · exact hx (by simp [h])
      · exact hz.1 h

theorem mem_sortNat (y : Nat) : ∀ (xs : List Nat), y ∈ sortNat xs ↔ y ∈ xs
  | [] => by simp [sortNat]
  | x :: xs => by
    simp only [sortNat, mem_insertSorted, mem_sortNat y xs, List.mem_cons]

theorem nodup_sortNat : ∀ (xs : List Nat), xs.Nodup → (sortNat xs).Nodup
  | [], _ => by simp [sortNat]
  | x :: xs, h => by
    have h' := List.nodup_cons.mp h
    simp only [sortNat]
    exact nodup_insertSorted x _ (fun hm => h'.1 ((mem_sortNat x xs).mp hm)) (nodup_sortNat xs h'.2)

theorem mem_distinct (k : Node) : ∀ (xs : List Node), k ∈ distinct xs ↔ k ∈ xs
  | [] => by simp [distinct]
  | x :: xs => by
    simp only [distinct, List.mem_cons, List.mem_filter, mem_distinct k xs]
    constructor
    · rintro (h | ⟨h, _⟩)
      · exact Or.inl h
      · exact Or.inr h
    · intro h
      by_cases hk : k = x
      · exact Or.inl hk
      · rcases h with h | h
        · exact Or.inl h
        · exact Or.inr ⟨h, by simpa using hk⟩

/-- lookup after the `previously_assigned[child_level][celltype] = ...` loop -/
theorem lookup_foldl_prepend (g : Node → List Nat) (k : Node) :
    ∀ (types : List Node) (m : AssignMap),
      (types.foldl (fun m ct => (ct, g ct) :: m) m).lookup k =
        if k ∈ types then some (g k) else m.lookup k
  | [], m => by simp
  | ct :: rest, m => by
    simp only [List.foldl_cons, lookup_foldl_prepend g k rest ((ct, g ct) :: m)]
    by_cases h1 : k ∈ rest
    · simp [h1]
    · by_cases h2 : k = ct
      · subst h2; simp [h1, List.lookup]
      · have : (k == ct) = false := by simpa using h2
        simp [h1, h2, List.lookup, this]

/-! ### `downsample_cells`, write-back, `previously_assigned` rows -/

theorem selectCells_ok {κ} (cells : List κ) :
    ∀ (idxs : List Nat), (∀ j ∈ idxs, j < cells.length) → ∃ cs, selectCells cells idxs = .ok cs
  | [], _ => ⟨[], rfl⟩
  | i :: is, h => by
    have hi : i < cells.length := h i (by simp)
    obtain ⟨cs, hcs⟩ := selectCells_ok cells is (fun j hj => h j (by simp [hj]))
    refine ⟨cells[i] :: cs, ?_⟩
    simp [selectCells, hi, hcs]

theorem selectCells_cons {κ} {cells : List κ} {i : Nat} {is : List Nat} {cs : List κ}
    (h : selectCells cells (i :: is) = .ok cs) :
    ∃ c cs', cells[i]? = some c ∧ selectCells cells is = .ok cs' ∧ cs = c :: cs' := by
  simp only [selectCells] at h
  split at h
  · cases h
  · rename_i c hc
    split at h
    · cases h
    · rename_i cs' hcs'
      cases h
      exact ⟨c, cs', hc, hcs', rfl⟩

/-- `result[i][level]` as a partial function of `(i, level)` -/
def lk (res : List CellDict) (i : Nat) (l : Level) : Option Entry :=
  (res[i]?).bind (fun d => d.lookup l)

theorem lk_modify (res : List CellDict) (j : Nat) (cl : Level) (e : Entry) (i : Nat) (l : Level) :
    lk (res.modify j (fun d => (cl, e) :: d)) i l =
      if i = j ∧ i < res.length ∧ l = cl then some e else lk res i l := by
  unfold lk
  rw [List.getElem?_modify]
  by_cases hij : j = i
  · subst hij
    by_cases hlt : j < res.length
    · by_cases hl : l = cl
      · subst hl; simp [hlt, List.lookup]
      · have : (l == cl) = false := by simpa using hl
        simp [hlt, hl, List.lookup, this]
    · have : res[j]? = none := by simp; omega
      simp [hlt, this]
  · have : ¬ (i = j) := fun h => hij h.symm
    simp [hij, this]

theorem writeBack_spec {κ} (cells : List κ) (cl : Level) (f : κ → Vote) :
    ∀ (idxs : List Nat) (cs : List κ), selectCells cells idxs = .ok cs → ∀ (res : List CellDict),
      (writeBack cl idxs (cs.map f) res).length = res.length ∧
      (∀ i l, (i ∉ idxs ∨ l ≠ cl) → lk (writeBack cl idxs (cs.map f) res) i l = lk res i l) ∧
      (∀ i c, i ∈ idxs → i < res.length → cells[i]? = some c →
        lk (writeBack cl idxs (cs.map f) res) i cl = some (entryOf (f c)))
  | [], cs, _, res => by simp [writeBack]
  | j :: is, cs, h, res => by
    obtain ⟨c', cs', hc', hcs', rfl⟩ := selectCells_cons h
    have ih := writeBack_spec cells cl f is cs' hcs' (res.modify j (fun d => (cl, entryOf (f c')) :: d))
    simp only [List.map_cons, writeBack]
    obtain ⟨ih1, ih2, ih3⟩ := ih
    refine ⟨by simpa using ih1, ?_, ?_⟩
    · intro i l hil
      have hil' : i ∉ is ∨ l ≠ cl := by
        rcases hil with h1 | h1
        · exact Or.inl (fun hm => h1 (List.mem_cons_of_mem _ hm))
        · exact Or.inr h1
      rw [ih2 i l hil', lk_modify]
      have : ¬ (i = j ∧ i < res.length ∧ l = cl) := by
        rintro ⟨h1, _, h3⟩
        rcases hil with h | h
        · exact h (by simp [h1])
        · exact h h3
      simp [this]
    · intro i c hi hlt hc
      by_cases hmem : i ∈ is
      · exact ih3 i c hmem (by simpa using hlt) hc
      · have hij : i = j := by
          rcases List.mem_cons.mp hi with h1 | h1
          · exact h1
          · exact absurd h1 hmem
        subst hij
        rw [ih2 i cl (Or.inl hmem), lk_modify]
        have : c' = c := by rw [hc'] at hc; exact Option.some.inj hc
        simp [hlt, this]

theorem rowsOf_cons (ct : Node) (j : Nat) (is : List Nat) (v : Vote) (vs : List Vote) :
    rowsOf ct (j :: is) (v :: vs) =
      if v.assignment == ct then j :: rowsOf ct is vs else rowsOf ct is vs := by
  simp only [rowsOf, List.zip_cons_cons, List.filterMap_cons]
  by_cases h : (v.assignment == ct) = true
  · rw [if_pos h, if_pos h]
  · rw [if_neg h, if_neg h]

theorem mem_rowsOf {κ} (cells : List κ) (f : κ → Vote) (ct : Node) (i : Nat) :
    ∀ (idxs : List Nat) (cs : List κ), selectCells cells idxs = .ok cs →
      (i ∈ rowsOf ct idxs (cs.map f) ↔ i ∈ idxs ∧ ∃ c, cells[i]? = some c ∧ (f c).assignment = ct)
  | [], cs, _ => by simp [rowsOf]
  | j :: is, cs, h => by
    obtain ⟨c', cs', hc', hcs', rfl⟩ := selectCells_cons h
    have ih := mem_rowsOf cells f ct i is cs' hcs'
    rw [List.map_cons, rowsOf_cons]
    by_cases hv : (f c').assignment = ct
    · rw [if_pos (by simpa using hv)]
      simp only [List.mem_cons, ih]
      constructor
      · rintro (h1 | h1)
        · subst h1; exact ⟨Or.inl rfl, c', hc', hv⟩
        · exact ⟨Or.inr h1.1, h1.2⟩
      · rintro ⟨h1 | h1, h2⟩
        · exact Or.inl h1
        · exact Or.inr ⟨h1, h2⟩
    · rw [if_neg (by simpa using hv)]
      simp only [ih, List.mem_cons]
      constructor
      · rintro ⟨h1, h2⟩; exact ⟨Or.inr h1, h2⟩
      · rintro ⟨h1 | h1, c, hc, hfc⟩
        · subst h1
          have : c' = c := by rw [hc'] at hc; exact Option.some.inj hc
          subst this; exact absurd hfc hv
        · exact ⟨h1, c, hc, hfc⟩

theorem mem_types {κ} (cells : List κ) (f : κ → Vote) (ct : Node) :
    ∀ (idxs : List Nat) (cs : List κ), selectCells cells idxs = .ok cs →
      (ct ∈ (cs.map f).map (·.assignment) ↔
        ∃ i, i ∈ idxs ∧ ∃ c, cells[i]? = some c ∧ (f c).assignment = ct)
  | [], cs, h => by
    simp only [selectCells] at h; cases h; simp
  | j :: is, cs, h => by
    obtain ⟨c', cs', hc', hcs', rfl⟩ := selectCells_cons h
    have ih := mem_types cells f ct is cs' hcs'
    simp only [List.map_cons, List.mem_cons, ih]
    constructor
    · rintro (h1 | ⟨i, hi, hx⟩)
      · exact ⟨j, Or.inl rfl, c', hc', h1.symm⟩
      · exact ⟨i, Or.inr hi, hx⟩
    · rintro ⟨i, hi | hi, c, hc, hfc⟩
      · subst hi
        have : c' = c := by rw [hc'] at hc; exact Option.some.inj hc
        subst this; exact Or.inl hfc.symm
      · exact Or.inr ⟨i, hi, c, hc, hfc⟩

/-! ### what `wfb` gives -/

theorem mem_parentNodeList_some (t : RawTree) (l : Level) (p : Parent) :
    p ∈ parentNodeList t (some l) ↔ ∃ k, k ∈ t.nodesAt l ∧ p = some (l, k) := by
  simp only [parentNodeList, List.mem_map, mem_sortNat]
  constructor
  · rintro ⟨k, hk, rfl⟩; exact ⟨k, hk, rfl⟩
  · rintro ⟨k, hk, rfl⟩; exact ⟨k, hk, rfl⟩

theorem nodup_parentNodeList (t : RawTree) (l : Level) (h : (t.nodesAt l).Nodup) :
    (parentNodeList t (some l)).Nodup := by
  unfold parentNodeList
  have := nodup_sortNat _ h
  exact List.Pairwise.map _ (fun a b hab heq => hab (by cases heq; rfl)) this

/-- the facts about one `(parent_level, child_level)` pair used by the loop invariant -/
structure LevelFacts (t : RawTree) (pl : Option Level) (cl : Level) : Prop where
  nodupNext : (parentNodeList t (some cl)).Nodup
  kids : ∀ p ∈ parentNodeList t pl, ∃ kids, t.children p = .ok kids ∧ kids ≠ [] ∧
    ∀ c ∈ kids, some (cl, c) ∈ parentNodeList t (some cl)
  disj : ∀ p ∈ parentNodeList t pl, ∀ p' ∈ parentNodeList t pl, p ≠ p' →
    ∀ c, c ∈ kidsD t p → c ∉ kidsD t p'
  surj : ∀ c ∈ t.nodesAt cl, ∃ p ∈ parentNodeList t pl, c ∈ kidsD t p

theorem levelOK_facts (t : RawTree) (pl : Option Level) (cl : Level)
    (h : levelOK t pl cl = true) : LevelFacts t pl cl := by
  simp only [levelOK, Bool.and_eq_true, List.all_eq_true, Bool.not_eq_true',
    Bool.or_eq_true, beq_iff_eq, List.any_eq_true, List.contains_iff_mem] at h
  obtain ⟨⟨hnd, hsurj⟩, hps⟩ := h
  refine ⟨nodup_parentNodeList t cl (hasDup_false_nodup _ hnd), ?_, ?_, hsurj⟩
  · intro p hp
    have h1 := (hps p hp).1
    split at h1
    · rename_i kids hk
      simp only [Bool.and_eq_true, Bool.not_eq_true', List.all_eq_true,
        List.contains_iff_mem] at h1
      refine ⟨kids, hk, ?_, ?_⟩
      · intro he; subst he; simp at h1
      · intro c hc
        exact (mem_parentNodeList_some t cl _).mpr ⟨c, by simpa using h1.2 c hc, rfl⟩
    · cases h1
  · intro p hp p' hp' hne c hc hc'
    rcases (hps p hp).2 p' hp' with h2 | h2
    · exact hne h2
    · simp only [disjointB, List.all_eq_true, Bool.not_eq_true'] at h2
      have := h2 c hc
      simp [hc'] at this

/-! ### the oracle only returns children of the parent it is asked about -/

/-- all `choose_node` can return: one of the `reference_types`, i.e. a child of
the parent -/
def VoteOK {κ} (t : RawTree) (vote : Oracle κ) : Prop :=
  ∀ (p : Parent) (cl : Level) (kids : List Node) (c : κ), 2 ≤ kids.length →
    (vote p (kidsOf t cl kids) c).assignment ∈ kids

theorem voteFn_mem {κ} {t : RawTree} {vote : Oracle κ} (hv : VoteOK t vote)
    (p : Parent) (cl : Level) (kids : List Node) (c : κ) (hk : kids ≠ []) :
    (voteFn t vote p cl kids c).assignment ∈ kids := by
  match kids, hk with
  | [only], _ => simp [voteFn, trivialVote]
  | a :: b :: rest, _ =>
    simp only [voteFn]
    exact hv p cl (a :: b :: rest) c (by simp)

/-- the vote of a cell under parent `p` (children read from the tree) -/
def V {κ} (t : RawTree) (vote : Oracle κ) (cl : Level) (p : Parent) (c : κ) : Vote :=
  voteFn t vote p cl (kidsD t p) c

theorem kidsD_of_ok {t : RawTree} {p : Parent} {kids : List Node} (h : t.children p = .ok kids) :
    kidsD t p = kids := by
  simp [kidsD, h]

/-! ### the loop over the parents of one level -/

/-- `d.lookup k` with the `[]` default of `chosen_idx` -/
def lkD (m : AssignMap) (k : Node) : List Nat := (m.lookup k).getD []

/-- invariant of `for parent_node in parent_node_list`, `rem` = the parents
still to come -/
structure Inner {κ} (t : RawTree) (vote : Oracle κ) (cells : List κ) (cl : Level)
    (par : Nat → Parent) (res0 : List CellDict) (rem : List Parent)
    (acc : AssignMap × List CellDict) : Prop where
  len : acc.2.length = cells.length
  bound : ∀ k j, j ∈ lkD acc.1 k → j < cells.length
  todo : ∀ i, i < cells.length → par i ∈ rem →
    (∀ l, lk acc.2 i l = lk res0 i l) ∧ ∀ k, i ∉ lkD acc.1 k
  done : ∀ i c, cells[i]? = some c → par i ∉ rem →
    lk acc.2 i cl = some (entryOf (V t vote cl (par i) c)) ∧
    (∀ l, l ≠ cl → lk acc.2 i l = lk res0 i l) ∧
    ∀ k, i ∈ lkD acc.1 k ↔ k = (V t vote cl (par i) c).assignment

theorem processParent_step {κ} {t : RawTree} {vote : Oracle κ} (hv : VoteOK t vote)
    (cells : List κ) (pl : Option Level) (cl : Level) (facts : LevelFacts t pl cl)
    (par : Nat → Parent) (hpar : ∀ i, i < cells.length → par i ∈ parentNodeList t pl)
    (prevP : AssignMap) (res0 : List CellDict) (p : Parent) (rem : List Parent)
    (hp : p ∈ parentNodeList t pl) (hprem : p ∉ rem)
    (hchosen : ∀ i, i ∈ chosenIdxOf cells.length prevP p ↔ (i < cells.length ∧ par i = p))
    (acc : AssignMap × List CellDict) (inv : Inner t vote cells cl par res0 (p :: rem) acc) :
    ∃ acc', processParent t vote cells cl prevP acc p = .ok acc' ∧
      Inner t vote cells cl par res0 rem acc' := by
  have hlt_of_some : ∀ i c, cells[i]? = some c → i < cells.length := by
    intro i c h
    by_cases hi : i < cells.length
    · exact hi
    · have : cells[i]? = none := by simp; omega
      rw [this] at h; cases h
  unfold processParent
  by_cases hempty : (chosenIdxOf cells.length prevP p).isEmpty = true
  · -- nobody sits under p
    simp only [hempty, if_true]
    have hnil : chosenIdxOf cells.length prevP p = [] := by simpa using hempty
    refine ⟨acc, rfl, inv.len, inv.bound, ?_, ?_⟩
    · intro i hi hr
      exact inv.todo i hi (List.mem_cons_of_mem _ hr)
    · intro i c hc hr
      have hne : par i ≠ p := by
        intro he
        have := (hchosen i).mpr ⟨hlt_of_some i c hc, he⟩
        rw [hnil] at this; cases this
      exact inv.done i c hc (by
        intro hm
        rcases List.mem_cons.mp hm with h | h
        · exact hne h
        · exact hr h)
  · simp only [hempty]
    obtain ⟨kids, hkids, hkne, _⟩ := facts.kids p hp
    have hkD : kidsD t p = kids := kidsD_of_ok hkids
    obtain ⟨cs, hcs⟩ := selectCells_ok cells (chosenIdxOf cells.length prevP p)
      (fun j hj => ((hchosen j).mp hj).1)
    have hkne' : kids.isEmpty = false := by
      cases kids with
      | nil => exact absurd rfl hkne
      | cons a b => rfl
    simp only [hkids, hcs, votesFor, hkne', Bool.false_eq_true, if_false]
    refine ⟨_, rfl, ?_⟩
    -- abbreviations
    have hVf : voteFn t vote p cl kids = V t vote cl p := by
      funext c; simp [V, hkD]
    rw [hVf]
    obtain ⟨wlen, wsame, wnew⟩ :=
      writeBack_spec cells cl (V t vote cl p) _ cs hcs acc.2
    have hlook : ∀ k, lkD ((distinct ((cs.map (V t vote cl p)).map (·.assignment))).foldl
        (fun m ct => (ct, rowsOf ct (chosenIdxOf cells.length prevP p) (cs.map (V t vote cl p))) :: m)
        acc.1) k =
        if k ∈ (cs.map (V t vote cl p)).map (·.assignment)
        then rowsOf k (chosenIdxOf cells.length prevP p) (cs.map (V t vote cl p))
        else lkD acc.1 k := by
      intro k
      unfold lkD
      rw [lookup_foldl_prepend (fun ct => rowsOf ct (chosenIdxOf cells.length prevP p)
        (cs.map (V t vote cl p))) k]
      simp only [mem_distinct]
      split <;> rfl
    have htypes_kids : ∀ k, k ∈ (cs.map (V t vote cl p)).map (·.assignment) → k ∈ kidsD t p := by
      intro k hk
      obtain ⟨i, _, c, _, hfc⟩ := (mem_types cells (V t vote cl p) k _ cs hcs).mp hk
      rw [← hfc]
      unfold V
      rw [hkD]
      exact voteFn_mem hv p cl kids c hkne
    refine ⟨by rw [wlen]; exact inv.len, ?_, ?_, ?_⟩
    · -- bound
      intro k j hj
      rw [hlook k] at hj
      split at hj
      · exact ((hchosen j).mp ((mem_rowsOf cells _ k j _ cs hcs).mp hj).1).1
      · exact inv.bound k j hj
    · -- todo
      intro i hi hr
      have hne : par i ≠ p := fun he => hprem (he ▸ hr)
      have hnot : i ∉ chosenIdxOf cells.length prevP p := fun hm => hne ((hchosen i).mp hm).2
      have old := inv.todo i hi (List.mem_cons_of_mem _ hr)
      refine ⟨fun l => by rw [wsame i l (Or.inl hnot)]; exact old.1 l, ?_⟩
      intro k hm
      rw [hlook k] at hm
      split at hm
      · exact hnot ((mem_rowsOf cells _ k i _ cs hcs).mp hm).1
      · exact old.2 k hm
    · -- done
      intro i c hc hr
      have hi := hlt_of_some i c hc
      by_cases he : par i = p
      · have hin : i ∈ chosenIdxOf cells.length prevP p := (hchosen i).mpr ⟨hi, he⟩
        have old := inv.todo i hi (by rw [he]; exact List.mem_cons_self)
        refine ⟨?_, ?_, ?_⟩
        · rw [he]; exact wnew i c hin (by rw [inv.len]; exact hi) hc
        · intro l hl
          rw [wsame i l (Or.inr hl)]; exact old.1 l
        · intro k
          rw [hlook k, he]
          split
          · rename_i hk
            rw [mem_rowsOf cells _ k i _ cs hcs]
            constructor
            · rintro ⟨_, c', hc', hfc⟩
              have : c' = c := by rw [hc] at hc'; exact (Option.some.inj hc').symm
              subst this; exact hfc.symm
            · intro hk'
              exact ⟨hin, c, hc, hk'.symm⟩
          · rename_i hk
            constructor
            · intro hm; exact absurd hm (old.2 k)
            · intro hk'
              exfalso; apply hk
              exact (mem_types cells _ k _ cs hcs).mpr ⟨i, hin, c, hc, hk'.symm⟩
      · have hnot : i ∉ chosenIdxOf cells.length prevP p := fun hm => he ((hchosen i).mp hm).2
        have old := inv.done i c hc (by
          intro hm
          rcases List.mem_cons.mp hm with h | h
          · exact he h
          · exact hr h)
        refine ⟨by rw [wsame i cl (Or.inl hnot)]; exact old.1,
          fun l hl => by rw [wsame i l (Or.inl hnot)]; exact old.2.1 l hl, ?_⟩
        intro k
        rw [hlook k]
        split
        · rename_i hk
          constructor
          · intro hm; exact absurd ((mem_rowsOf cells _ k i _ cs hcs).mp hm).1 hnot
          · intro hk'
            exfalso
            -- k is a child of p and of par i
            have h1 := htypes_kids k hk
            obtain ⟨kids', hkids', hkne', _⟩ := facts.kids (par i) (hpar i hi)
            have h2 : k ∈ kidsD t (par i) := by
              rw [hk']; unfold V
              rw [kidsD_of_ok hkids']
              exact voteFn_mem hv _ cl kids' c hkne'
            exact facts.disj (par i) (hpar i hi) p hp he k h2 h1
        · exact old.2.2 k

theorem processParents_spec {κ} {t : RawTree} {vote : Oracle κ} (hv : VoteOK t vote)
    (cells : List κ) (pl : Option Level) (cl : Level) (facts : LevelFacts t pl cl)
    (par : Nat → Parent) (hpar : ∀ i, i < cells.length → par i ∈ parentNodeList t pl)
    (prevP : AssignMap) (res0 : List CellDict)
    (hchosen : ∀ p ∈ parentNodeList t pl, ∀ i,
      i ∈ chosenIdxOf cells.length prevP p ↔ (i < cells.length ∧ par i = p)) :
    ∀ (ps : List Parent), ps.Nodup → (∀ p ∈ ps, p ∈ parentNodeList t pl) →
      ∀ acc, Inner t vote cells cl par res0 ps acc →
      ∃ acc', processParents t vote cells cl prevP ps acc = .ok acc' ∧
        Inner t vote cells cl par res0 [] acc'
  | [], _, _, acc, inv => ⟨acc, rfl, inv⟩
  | p :: rem, hnd, hsub, acc, inv => by
    have hnd' := List.nodup_cons.mp hnd
    obtain ⟨acc1, h1, inv1⟩ := processParent_step hv cells pl cl facts par hpar prevP res0 p rem
      (hsub p (by simp)) hnd'.1 (hchosen p (hsub p (by simp))) acc inv
    obtain ⟨acc2, h2, inv2⟩ := processParents_spec hv cells pl cl facts par hpar prevP res0 hchosen
      rem hnd'.2 (fun q hq => hsub q (List.mem_cons_of_mem _ hq)) acc1 inv1
    exact ⟨acc2, by simp only [processParents, h1, h2], inv2⟩

/-- invariant of the loop over levels: where every cell sits (`par`) and that
`previously_assigned[parent_level]` lists exactly the rows sitting at each node -/
structure StateInv {κ} (t : RawTree) (cells : List κ) (pl : Option Level) (prev : AssignMap)
    (res : List CellDict) (par : Nat → Parent) : Prop where
  len : res.length = cells.length
  nodupPs : (parentNodeList t pl).Nodup
  hpar : ∀ i, i < cells.length → par i ∈ parentNodeList t pl
  hchosen : ∀ p ∈ parentNodeList t pl, ∀ i,
    i ∈ chosenIdxOf cells.length prev p ↔ (i < cells.length ∧ par i = p)

/-- where cell `i` sits after the level `cl` has been voted -/
def nextPar {κ} (t : RawTree) (vote : Oracle κ) (cells : List κ) (cl : Level)
    (par : Nat → Parent) (i : Nat) : Parent :=
  match cells[i]? with
  | some c => some (cl, (V t vote cl (par i) c).assignment)
  | none => none

theorem levelStep_spec {κ} {t : RawTree} {vote : Oracle κ} (hv : VoteOK t vote)
    (cells : List κ) (pl : Option Level) (cl : Level) (facts : LevelFacts t pl cl)
    (prev : AssignMap) (res : List CellDict) (par : Nat → Parent)
    (st : StateInv t cells pl prev res par) :
    ∃ prevC res', processParents t vote cells cl prev (parentNodeList t pl) ([], res) = .ok (prevC, res') ∧
      StateInv t cells (some cl) prevC res' (nextPar t vote cells cl par) ∧
      ∀ i c, cells[i]? = some c →
        lk res' i cl = some (entryOf (V t vote cl (par i) c)) ∧
        ∀ l, l ≠ cl → lk res' i l = lk res i l := by
  have hlt_of_some : ∀ i c, cells[i]? = some c → i < cells.length := by
    intro i c h
    by_cases hi : i < cells.length
    · exact hi
    · have : cells[i]? = none := by simp; omega
      rw [this] at h; cases h
  have init : Inner t vote cells cl par res (parentNodeList t pl) ([], res) := by
    refine ⟨st.len, ?_, ?_, ?_⟩
    · intro k j hj; simp [lkD] at hj
    · intro i _ _; exact ⟨fun _ => rfl, fun k => by simp [lkD]⟩
    · intro i c hc hn; exact absurd (st.hpar i (hlt_of_some i c hc)) hn
  obtain ⟨⟨prevC, res'⟩, hrun, inv⟩ := processParents_spec hv cells pl cl facts par st.hpar prev res
    st.hchosen (parentNodeList t pl) st.nodupPs (fun _ h => h) ([], res) init
  refine ⟨prevC, res', hrun, ⟨inv.len, facts.nodupNext, ?_, ?_⟩, ?_⟩
  · intro i hi
    have hc : cells[i]? = some cells[i] := by simp [hi]
    simp only [nextPar, hc]
    obtain ⟨kids, hkids, hkne, hsub⟩ := facts.kids (par i) (st.hpar i hi)
    apply hsub
    unfold V
    rw [kidsD_of_ok hkids]
    exact voteFn_mem hv _ cl kids _ hkne
  · intro p hp i
    obtain ⟨k, _, rfl⟩ := (mem_parentNodeList_some t cl p).mp hp
    show i ∈ lkD prevC k ↔ _
    constructor
    · intro hm
      have hi := inv.bound k i hm
      have hc : cells[i]? = some cells[i] := by simp [hi]
      have := (inv.done i _ hc (by simp)).2.2 k
      refine ⟨hi, ?_⟩
      simp only [nextPar, hc]
      rw [this.mp hm]
    · rintro ⟨hi, hp'⟩
      have hc : cells[i]? = some cells[i] := by simp [hi]
      simp only [nextPar, hc] at hp'
      have := (inv.done i _ hc (by simp)).2.2 k
      apply this.mpr
      cases hp'; rfl
  · intro i c hc
    have := inv.done i c hc (by simp)
    exact ⟨this.1, this.2.1⟩

/-- the facts for every remaining `(parent_level, child_level)` pair -/
def ChainOK (t : RawTree) : Option Level → List Level → Prop
  | _, [] => True
  | pl, cl :: rest => LevelFacts t pl cl ∧ ChainOK t (some cl) rest

theorem chainOK_of_all (t : RawTree) : ∀ (ls : List Level) (pl : Option Level),
    ((pl :: ls.map some).zip ls).all (fun (a, b) => levelOK t a b) = true → ChainOK t pl ls
  | [], _, _ => trivial
  | cl :: rest, pl, h => by
    simp only [List.map_cons, List.zip_cons_cons, List.all_cons, Bool.and_eq_true] at h
    exact ⟨levelOK_facts t pl cl h.1, chainOK_of_all t rest (some cl) h.2⟩

theorem collectLevels_congr (d d' : CellDict) : ∀ (ls : List Level),
    (∀ l ∈ ls, d.lookup l = d'.lookup l) → collectLevels d ls = collectLevels d' ls
  | [], _ => rfl
  | l :: ls, h => by
    simp only [collectLevels]
    rw [h l (by simp), collectLevels_congr d d' ls (fun x hx => h x (List.mem_cons_of_mem _ hx))]

theorem levelSteps_spec {κ} {t : RawTree} {vote : Oracle κ} (hv : VoteOK t vote) (cells : List κ) :
    ∀ (ls : List Level) (pl : Option Level) (prev : AssignMap) (res : List CellDict)
      (par : Nat → Parent), StateInv t cells pl prev res par → ls.Nodup → ChainOK t pl ls →
      ∃ resF, levelSteps t vote cells pl ls prev res = .ok resF ∧ resF.length = cells.length ∧
        ∀ i c, cells[i]? = some c →
          (∀ l, l ∉ ls → lk resF i l = lk res i l) ∧
          ∀ d, resF[i]? = some d → collectLevels d ls = walkFrom t vote c ls (par i)
  | [], pl, prev, res, par, st, _, _ => by
    refine ⟨res, rfl, st.len, ?_⟩
    intro i c _
    exact ⟨fun _ _ => rfl, fun d _ => rfl⟩
  | cl :: rest, pl, prev, res, par, st, hnd, hchain => by
    obtain ⟨facts, hchain'⟩ := hchain
    have hnd' := List.nodup_cons.mp hnd
    obtain ⟨prevC, res', hrun, st', hstep⟩ := levelStep_spec hv cells pl cl facts prev res par st
    obtain ⟨resF, hF, hlen, hspec⟩ := levelSteps_spec hv cells rest (some cl) prevC res'
      (nextPar t vote cells cl par) st' hnd'.2 hchain'
    refine ⟨resF, by simp only [levelSteps, hrun, hF], hlen, ?_⟩
    intro i c hc
    obtain ⟨hkeep, hcoll⟩ := hspec i c hc
    obtain ⟨hnew, hold⟩ := hstep i c hc
    refine ⟨?_, ?_⟩
    · intro l hl
      have h1 : l ∉ rest := fun h => hl (List.mem_cons_of_mem _ h)
      have h2 : l ≠ cl := fun h => hl (by simp [h])
      rw [hkeep l h1, hold l h2]
    · intro d hd
      have hi : i < cells.length := by
        by_cases hi : i < cells.length
        · exact hi
        · have : cells[i]? = none := by simp; omega
          rw [this] at hc; cases hc
      have hlk : d.lookup cl = some (entryOf (V t vote cl (par i) c)) := by
        have := hkeep cl hnd'.1
        rw [hnew] at this
        simpa [lk, hd] using this
      obtain ⟨kids, hkids, hkne, _⟩ := facts.kids (par i) (st.hpar i hi)
      have hkne' : kids.isEmpty = false := by
        cases kids with
        | nil => exact absurd rfl hkne
        | cons a b => rfl
      have hnp : nextPar t vote cells cl par i = some (cl, (V t vote cl (par i) c).assignment) := by
        simp [nextPar, hc]
      have hVk : voteFn t vote (par i) cl kids c = V t vote cl (par i) c := by
        simp [V, kidsD_of_ok hkids]
      simp only [collectLevels, hlk, walkFrom, hkids, hkne', Bool.false_eq_true, if_false]
      rw [hcoll d hd, hnp, hVk]

theorem finishAll_eq {κ} (t : RawTree) (vote : Oracle κ) (h : List Level) :
    ∀ (ds : List CellDict) (cs : List κ), ds.length = cs.length →
      (∀ (i : Nat) d c, ds[i]? = some d → cs[i]? = some c →
        collectLevels d h = walkFrom t vote c h none) →
      finishAll h ds = cs.mapM (fun c =>
        match walkFrom t vote c h none with
        | .error e => .error e
        | .ok es => .ok (finishCell es))
  | [], [], _, _ => rfl
  | [], _ :: _, hl, _ => by simp at hl
  | _ :: _, [], hl, _ => by simp at hl
  | d :: ds, c :: cs, hl, hp => by
    have h0 := hp 0 d c (by simp) (by simp)
    have ih := finishAll_eq t vote h ds cs (by simpa using hl)
      (fun i d' c' hd hc => hp (i+1) d' c' (by simpa using hd) (by simpa using hc))
    simp only [finishAll, List.mapM_cons, h0, ih]
    cases walkFrom t vote c h none with
    | error e => rfl
    | ok es =>
      simp only []
      cases List.mapM (fun c =>
        match walkFrom t vote c h none with
        | .error e => (Except.error e : Except Err _)
        | .ok es => .ok (finishCell es)) cs <;> rfl

/-- **Refinement.**  On a well-formed tree and for an oracle that only returns
children of the parent it is asked about, the batch loop `run_type_assignment`
computes, row by row, the one-cell walk. -/
theorem runLevelLoop_eq_mapM_walk {κ} (t : RawTree) (vote : Oracle κ) (cells : List κ)
    (hwf : wfb t = true) (hv : VoteOK t vote) :
    runLevelLoop t vote cells = cells.mapM (walk t vote) := by
  simp only [wfb, Bool.and_eq_true, Bool.not_eq_true'] at hwf
  have hnd := hasDup_false_nodup _ hwf.1
  have hchain := chainOK_of_all t t.hierarchy none hwf.2
  have st : StateInv t cells none [] (cells.map (fun _ => ([] : CellDict))) (fun _ => none) := by
    refine ⟨by simp, by simp [parentNodeList], ?_, ?_⟩
    · intro i _; simp [parentNodeList]
    · intro p hp i
      simp only [parentNodeList, List.mem_singleton] at hp
      subst hp
      simp [chosenIdxOf, List.mem_range]
  obtain ⟨resF, hF, hlen, hspec⟩ := levelSteps_spec hv cells t.hierarchy none []
    (cells.map (fun _ => [])) (fun _ => none) st hnd hchain
  unfold runLevelLoop
  rw [hF]
  simp only []
  rw [finishAll_eq t vote t.hierarchy resF cells hlen
    (fun i d c hd hc => (hspec i c hc).2 d hd)]
  rfl

/-! ### `child_to_parent` of a well-formed tree -/

theorem mem_zip_of_split (pl cl : Level) (post : List Level) :
    ∀ (pre : List Level) (x : Option Level),
      (some pl, cl) ∈ (x :: (pre ++ pl :: cl :: post).map some).zip (pre ++ pl :: cl :: post)
  | [], x => by simp
  | a :: pre, x => by
    simp only [List.cons_append, List.map_cons, List.zip_cons_cons, List.mem_cons]
    exact Or.inr (mem_zip_of_split pl cl post pre (some a))

theorem mem_zip_snd (l : Level) : ∀ (ls : List Level) (x : Option Level), l ∈ ls →
    ∃ a, (a, l) ∈ (x :: ls.map some).zip ls
  | [], _, h => by cases h
  | b :: ls, x, h => by
    simp only [List.map_cons, List.zip_cons_cons, List.mem_cons]
    rcases List.mem_cons.mp h with h | h
    · subst h; exact ⟨x, Or.inl rfl⟩
    · obtain ⟨a, ha⟩ := mem_zip_snd l ls (some b) h
      exact ⟨a, Or.inr ha⟩

theorem wfb_levelOK {t : RawTree} (hwf : wfb t = true) {pl : Option Level} {cl : Level}
    (h : (pl, cl) ∈ levelPairs t) : levelOK t pl cl = true := by
  simp only [wfb, Bool.and_eq_true, List.all_eq_true] at hwf
  exact hwf.2 (pl, cl) h

theorem wfb_nodup_hierarchy {t : RawTree} (hwf : wfb t = true) : t.hierarchy.Nodup := by
  simp only [wfb, Bool.and_eq_true, Bool.not_eq_true'] at hwf
  exact hasDup_false_nodup _ hwf.1

theorem wfb_nodup_nodesAt {t : RawTree} (hwf : wfb t = true) {l : Level} (hl : l ∈ t.hierarchy) :
    (t.nodesAt l).Nodup := by
  obtain ⟨a, ha⟩ := mem_zip_snd l t.hierarchy none hl
  have := wfb_levelOK hwf (pl := a) (cl := l) ha
  simp only [levelOK, Bool.and_eq_true, Bool.not_eq_true'] at this
  exact hasDup_false_nodup _ this.1.1

theorem lookup_of_mem_nodup {β} : ∀ (m : List (Nat × β)) (k : Nat) (v : β),
    (m.map (·.1)).Nodup → (k, v) ∈ m → m.lookup k = some v
  | [], _, _, _, h => by cases h
  | (k', v') :: m, k, v, hn, h => by
    simp only [List.map_cons, List.nodup_cons] at hn
    rcases List.mem_cons.mp h with h | h
    · cases h; simp [List.lookup]
    · have hne : k ≠ k' := by
        intro he
        exact hn.1 (List.mem_map.mpr ⟨(k, v), h, he⟩)
      have : (k == k') = false := by simpa using hne
      simp only [List.lookup, this]
      exact lookup_of_mem_nodup m k v hn.2 h

theorem mem_of_lookup {β} : ∀ (m : List (Nat × β)) (k : Nat) (v : β),
    m.lookup k = some v → (k, v) ∈ m
  | [], _, _, h => by cases h
  | (k', v') :: m, k, v, h => by
    simp only [List.lookup] at h
    split at h
    · rename_i heq
      have : k = k' := by simpa using heq
      cases h; subst this; simp
    · exact List.mem_cons_of_mem _ (mem_of_lookup m k v h)

theorem idxOf_split (pl cl : Level) (post : List Level) :
    ∀ (pre : List Level), (pre ++ pl :: cl :: post).Nodup →
      (pre ++ pl :: cl :: post).idxOf? cl = some (pre.length + 1) ∧
      (pre ++ pl :: cl :: post)[pre.length]? = some pl
  | [], h => by
    have hne : pl ≠ cl := by
      intro he; subst he
      simp at h
    have : (pl == cl) = false := by simpa using hne
    simp [List.idxOf?_cons, this]
  | a :: pre, h => by
    have h' := List.nodup_cons.mp h
    have hne : a ≠ cl := by
      intro he; subst he
      exact h'.1 (by simp)
    have hb : (a == cl) = false := by simpa using hne
    obtain ⟨ih1, ih2⟩ := idxOf_split pl cl post pre h'.2
    refine ⟨?_, by simp [ih2]⟩
    simp only [List.cons_append, List.idxOf?_cons, hb, Bool.false_eq_true, if_false, ih1]
    rfl

theorem parentLevel_of_split {t : RawTree} (hnd : t.hierarchy.Nodup) {pre post : List Level}
    {pl cl : Level} (hs : t.hierarchy = pre ++ pl :: cl :: post) : t.parentLevel cl = some pl := by
  rw [hs] at hnd
  obtain ⟨h1, h2⟩ := idxOf_split pl cl post pre hnd
  simp only [RawTree.parentLevel, RawTree.levelIdx, hs, h1, h2]

/-- the children of `(pl, p)` are the stored list when `p` is a node of `pl` -/
theorem kidsD_of_mem_level {t : RawTree} {pl : Level} (hk : (t.nodesAt pl).Nodup)
    {p : Node} {cs : List Nat} (hm : (p, cs) ∈ t.level pl) : kidsD t (some (pl, p)) = cs := by
  have hlook : (t.level pl).lookup p = some cs := lookup_of_mem_nodup _ p cs hk hm
  have hp : p ∈ t.nodesAt pl := List.mem_map.mpr ⟨(p, cs), hm, rfl⟩
  have hlev : (t.levels.map (·.1)).contains pl = true := by
    cases hl : t.levels.lookup pl with
    | none =>
      simp [RawTree.level, hl] at hm
    | some m =>
      have := mem_of_lookup _ _ _ hl
      exact List.contains_iff_mem.mpr (List.mem_map.mpr ⟨(pl, m), this, rfl⟩)
  have hp' : (t.nodesAt pl).contains p = true := List.contains_iff_mem.mpr hp
  simp only [kidsD, RawTree.children, hlev, hp', RawTree.entry, hlook, Bool.not_true,
    Bool.false_eq_true, if_false, Option.getD_some]

theorem childToParent_of_kid {t : RawTree} (hwf : wfb t = true) {pre post : List Level}
    {pl cl : Level} (hs : t.hierarchy = pre ++ pl :: cl :: post) {p c : Node}
    (hp : p ∈ t.nodesAt pl) (hc : c ∈ kidsD t (some (pl, p))) :
    t.childToParent cl c = some p := by
  have hnd := wfb_nodup_hierarchy hwf
  have hpl : pl ∈ t.hierarchy := by rw [hs]; simp
  have hk := wfb_nodup_nodesAt hwf hpl
  have hpair : (some pl, cl) ∈ levelPairs t := by
    unfold levelPairs; rw [hs]; exact mem_zip_of_split pl cl post pre none
  have facts := levelOK_facts t (some pl) cl (wfb_levelOK hwf hpair)
  -- p's own entry
  obtain ⟨⟨p0, cs0⟩, hm0, hp0⟩ := List.mem_map.mp hp
  simp only at hp0; subst hp0
  have hk0 := kidsD_of_mem_level hk hm0
  rw [hk0] at hc
  simp only [RawTree.childToParent, parentLevel_of_split hnd hs]
  cases hf : (t.level pl).reverse.find? (fun x => x.2.contains c) with
  | none =>
    have := List.find?_eq_none.mp hf (p0, cs0) (List.mem_reverse.mpr hm0)
    simp [hc] at this
  | some pc =>
    obtain ⟨p', cs'⟩ := pc
    have hmem : (p', cs') ∈ t.level pl := List.mem_reverse.mp (List.mem_of_find?_eq_some hf)
    have hc' : c ∈ cs' := by
      have := List.find?_some hf
      simpa using this
    have hk' := kidsD_of_mem_level hk hmem
    have hp'mem : p' ∈ t.nodesAt pl := List.mem_map.mpr ⟨(p', cs'), hmem, rfl⟩
    simp only [Option.map_some, Option.some.injEq]
    by_cases he : p' = p0
    · exact he
    · exfalso
      have h1 : some (pl, p') ∈ parentNodeList t (some pl) :=
        (mem_parentNodeList_some t pl _).mpr ⟨p', hp'mem, rfl⟩
      have h2 : some (pl, p0) ∈ parentNodeList t (some pl) :=
        (mem_parentNodeList_some t pl _).mpr ⟨p0, hp, rfl⟩
      exact facts.disj _ h1 _ h2 (by intro h; cases h; exact he rfl) c (by rw [hk']; exact hc')
        (by rw [hk0]; exact hc)

/-! ### root-to-leaf paths -/

/-- `(level, assignment)` of every per-level dict -/
def assignments (es : List (Level × Entry)) : List (Level × Node) :=
  es.map (fun le => (le.1, le.2.assignment))

/-- consecutive assignments are related by `child_to_parent`; `p` = the node
above the first one (`none` = nothing above) -/
def LinkedFrom (t : RawTree) : Parent → List (Level × Node) → Prop
  | _, [] => True
  | none, (l, n) :: rest => LinkedFrom t (some (l, n)) rest
  | some (_, pn), (l, n) :: rest => t.childToParent l n = some pn ∧ LinkedFrom t (some (l, n)) rest

/-- one assignment per level of the hierarchy, each a node of its level,
consecutive ones related by `child_to_parent` -/
def IsRootToLeafPath (t : RawTree) (es : List (Level × Entry)) : Prop :=
  es.map (·.1) = t.hierarchy ∧ (∀ le ∈ es, le.2.assignment ∈ t.nodesAt le.1) ∧
  LinkedFrom t none (assignments es)

/-- `p` is a legitimate position after the levels `pre` -/
def At (t : RawTree) (pre : List Level) (p : Parent) : Prop :=
  (pre = [] ∧ p = none) ∨ ∃ pre' pl n, pre = pre' ++ [pl] ∧ p = some (pl, n) ∧ n ∈ t.nodesAt pl

theorem walkFrom_path {κ} {t : RawTree} {vote : Oracle κ} (hwf : wfb t = true)
    (hv : VoteOK t vote) (c : κ) :
    ∀ (ls pre : List Level) (p : Parent), t.hierarchy = pre ++ ls → At t pre p →
      ∃ es, walkFrom t vote c ls p = .ok es ∧ es.map (·.1) = ls ∧
        (∀ le ∈ es, le.2.assignment ∈ t.nodesAt le.1) ∧ LinkedFrom t p (assignments es)
  | [], _, p, _, _ => ⟨[], rfl, rfl, by simp, by simp [assignments, LinkedFrom]⟩
  | cl :: rest, pre, p, hs, hat => by
    -- the (parent level, child level) pair and the membership of p
    have hpair : ∃ plo, (plo, cl) ∈ levelPairs t ∧ p ∈ parentNodeList t plo := by
      rcases hat with ⟨rfl, rfl⟩ | ⟨pre', pl, n, rfl, rfl, hn⟩
      · refine ⟨none, ?_, by simp [parentNodeList]⟩
        unfold levelPairs; rw [hs]; simp
      · refine ⟨some pl, ?_, (mem_parentNodeList_some t pl _).mpr ⟨n, hn, rfl⟩⟩
        unfold levelPairs; rw [hs, List.append_assoc]
        exact mem_zip_of_split pl cl rest pre' none
    obtain ⟨plo, hmem, hp⟩ := hpair
    have facts := levelOK_facts t plo cl (wfb_levelOK hwf hmem)
    obtain ⟨kids, hkids, hkne, hsub⟩ := facts.kids p hp
    have hkne' : kids.isEmpty = false := by
      cases kids with
      | nil => exact absurd rfl hkne
      | cons a b => rfl
    have ha := voteFn_mem hv p cl kids c hkne
    have hnode : (voteFn t vote p cl kids c).assignment ∈ t.nodesAt cl := by
      obtain ⟨k, hk, he⟩ := (mem_parentNodeList_some t cl _).mp (hsub _ ha)
      cases he; exact hk
    obtain ⟨es, hes, hfst, hnodes, hlink⟩ := walkFrom_path hwf hv c rest (pre ++ [cl])
      (some (cl, (voteFn t vote p cl kids c).assignment)) (by rw [hs]; simp)
      (Or.inr ⟨pre, cl, _, rfl, rfl, hnode⟩)
    refine ⟨(cl, entryOf (voteFn t vote p cl kids c)) :: es, ?_, by simp [hfst], ?_, ?_⟩
    · simp only [walkFrom, hkids, hkne', Bool.false_eq_true, if_false, hes]
    · intro le hle
      rcases List.mem_cons.mp hle with h | h
      · subst h
        have : (entryOf (voteFn t vote p cl kids c)).assignment =
            (voteFn t vote p cl kids c).assignment := by
          unfold entryOf; split <;> rfl
        simpa [this] using hnode
      · exact hnodes le h
    · have hassign : (entryOf (voteFn t vote p cl kids c)).assignment =
          (voteFn t vote p cl kids c).assignment := by
        unfold entryOf; split <;> rfl
      simp only [assignments, List.map_cons, hassign]
      rcases hat with ⟨rfl, rfl⟩ | ⟨pre', pl, n, rfl, rfl, hn⟩
      · exact hlink
      · refine ⟨?_, hlink⟩
        apply childToParent_of_kid hwf (pre := pre') (post := rest) (pl := pl)
          (by rw [hs, List.append_assoc]; rfl) hn
        rw [kidsD_of_ok hkids]; exact ha

theorem assignments_fillCorr : ∀ (prev : Option Rat) (es : List (Level × Entry)),
    assignments (fillCorr prev es) = assignments es
  | _, [] => rfl
  | prev, (l, e) :: rest => by
    simp only [fillCorr]
    cases h : e.corr with
    | none =>
      have ih := assignments_fillCorr prev rest
      simp only [assignments, List.map_cons] at ih ⊢
      rw [ih]
    | some x =>
      have ih := assignments_fillCorr e.corr rest
      simp only [assignments, List.map_cons] at ih ⊢
      rw [ih]

theorem assignments_fillDown : ∀ (es : List (Level × Entry)),
    assignments (fillDown es) = assignments es
  | [] => rfl
  | (l, e) :: rest => by
    have := assignments_fillCorr e.corr rest
    simp only [assignments] at this
    simp only [fillDown, assignments, List.map_cons, this]

theorem assignments_fillUp (es : List (Level × Entry)) : assignments (fillUp es) = assignments es := by
  have := assignments_fillDown es.reverse
  simp only [assignments, fillUp, List.map_reverse] at this ⊢
  rw [this, List.reverse_reverse]

theorem assignments_addAggregate : ∀ (acc : Rat) (es : List (Level × Entry)),
    assignments (addAggregate acc es) = assignments es
  | _, [] => rfl
  | acc, (l, e) :: rest => by
    have := assignments_addAggregate (acc * e.prob) rest
    simp only [assignments] at this
    simp only [addAggregate, assignments, List.map_cons, this]

theorem assignments_finishCell (es : List (Level × Entry)) :
    assignments (finishCell es) = assignments es := by
  simp only [finishCell, assignments_addAggregate, assignments_fillUp, assignments_fillDown]

theorem isPath_congr {t : RawTree} {es es' : List (Level × Entry)}
    (h : assignments es' = assignments es) (hp : IsRootToLeafPath t es) : IsRootToLeafPath t es' := by
  obtain ⟨h1, h2, h3⟩ := hp
  have hfst : ∀ xs : List (Level × Entry), xs.map (·.1) = (assignments xs).map (·.1) := by
    intro xs; simp [assignments]
  refine ⟨by rw [hfst, h, ← hfst]; exact h1, ?_, by rw [h]; exact h3⟩
  intro le hle
  have hm : (le.1, le.2.assignment) ∈ assignments es' := List.mem_map.mpr ⟨le, hle, rfl⟩
  rw [h] at hm
  obtain ⟨le0, hle0, he⟩ := List.mem_map.mp hm
  have := h2 le0 hle0
  obtain ⟨e1, e2⟩ := Prod.mk.inj he
  rw [← e1, ← e2]
  exact this

/-- the one-cell walk never fails on a well-formed tree and yields a
root-to-leaf path -/
theorem walk_path {κ} {t : RawTree} {vote : Oracle κ} (hwf : wfb t = true) (hv : VoteOK t vote)
    (c : κ) : ∃ r, walk t vote c = .ok r ∧ IsRootToLeafPath t r := by
  obtain ⟨es, hes, hfst, hnodes, hlink⟩ :=
    walkFrom_path hwf hv c t.hierarchy [] none (by simp) (Or.inl ⟨rfl, rfl⟩)
  refine ⟨finishCell es, by simp only [walk, hes], ?_⟩
  exact isPath_congr (assignments_finishCell es) ⟨hfst, hnodes, hlink⟩

theorem mapM_ok_of_forall {α β ε} (f : α → Except ε β) : ∀ (cs : List α),
    (∀ c ∈ cs, ∃ r, f c = .ok r) →
    ∃ rs, cs.mapM f = .ok rs ∧ rs.length = cs.length ∧
      ∀ (i : Nat) c r, cs[i]? = some c → rs[i]? = some r → f c = .ok r
  | [], _ => ⟨[], rfl, rfl, by simp⟩
  | c :: cs, h => by
    obtain ⟨r, hr⟩ := h c (by simp)
    obtain ⟨rs, hrs, hlen, hpt⟩ := mapM_ok_of_forall f cs (fun x hx => h x (List.mem_cons_of_mem _ hx))
    refine ⟨r :: rs, ?_, by simp [hlen], ?_⟩
    · simp only [List.mapM_cons, hr, hrs]; rfl
    · intro i c' r' hc' hr'
      cases i with
      | zero =>
        simp at hc' hr'; subst hc'; subst hr'; exact hr
      | succ j =>
        exact hpt j c' r' (by simpa using hc') (by simpa using hr')

/-! ### chunks, gather, re-ordering -/

theorem effChunk_pos {n nProc cs : Nat} (hcs : 1 ≤ cs) : 1 ≤ effChunk n nProc cs := by
  unfold effChunk; omega

theorem slice_append_drop {α} (xs : List α) {r0 r1 : Nat} (h01 : r0 ≤ r1) (h1 : r1 ≤ xs.length) :
    slice xs r0 r1 ++ xs.drop r1 = xs.drop r0 := by
  unfold slice
  have hlen : r0 ≤ (xs.take r1).length := by simp; omega
  rw [← List.drop_append_of_le_length hlen, List.take_append_drop]

theorem chunksFrom_cover {α} (xs : List α) (cs : Nat) (hcs : 1 ≤ cs) :
    ∀ (fuel r0 : Nat), r0 ≤ xs.length → xs.length - r0 ≤ fuel →
      (chunksFrom xs.length cs fuel r0).flatMap (fun r => slice xs r.1 r.2) = xs.drop r0
  | 0, r0, h0, hf => by
    have : r0 = xs.length := by omega
    subst this; simp [chunksFrom]
  | fuel+1, r0, h0, hf => by
    simp only [chunksFrom]
    by_cases hge : r0 ≥ xs.length
    · have : r0 = xs.length := by omega
      subst this; simp
    · simp only [hge, if_false, List.flatMap_cons]
      have h1 : min xs.length (r0 + cs) ≤ xs.length := by omega
      have h01 : r0 ≤ min xs.length (r0 + cs) := by omega
      rw [chunksFrom_cover xs cs hcs fuel (min xs.length (r0 + cs)) h1 (by omega)]
      exact slice_append_drop xs h01 h1

/-- the chunks tile the rows: concatenating the slices gives the whole list back -/
theorem chunks_cover {α} (xs : List α) (cs : Nat) (hcs : 1 ≤ cs) :
    (chunks xs.length cs).flatMap (fun r => slice xs r.1 r.2) = xs := by
  have := chunksFrom_cover xs cs hcs xs.length 0 (by omega) (by omega)
  simpa [chunks] using this

theorem flatMap_range'_getD {α} : ∀ (parts pre : List (List α)),
    (List.range' pre.length parts.length).flatMap (fun k => ((pre ++ parts)[k]?).getD []) =
      parts.flatten
  | [], _ => by simp
  | p :: ps, pre => by
    have ih := flatMap_range'_getD ps (pre ++ [p])
    simp only [List.length_append, List.length_cons, List.length_nil, List.append_assoc,
      List.cons_append, List.nil_append] at ih
    simp only [List.length_cons, List.range'_succ, List.flatMap_cons, List.flatten_cons]
    rw [ih]
    simp

theorem gather_range {α} (parts : List (List α)) :
    gather parts (List.range parts.length) = parts.flatten := by
  have := flatMap_range'_getD parts []
  simpa [gather, List.range_eq_range'] using this

/-- whatever the order in which the chunk results arrive, the gathered blob
is a permutation of their concatenation -/
theorem gather_perm {α} (parts : List (List α)) (order : List Nat)
    (h : order.Perm (List.range parts.length)) : (gather parts order).Perm parts.flatten := by
  rw [← gather_range parts]
  exact List.Perm.flatMap_right _ h

theorem find_of_nodup_keys {α} (key : α → Nat) : ∀ (xs : List α) (r : α),
    (xs.map key).Nodup → r ∈ xs → xs.find? (fun x => key x == key r) = some r
  | [], _, _, h => by cases h
  | x :: xs, r, hn, h => by
    simp only [List.map_cons, List.nodup_cons] at hn
    rcases List.mem_cons.mp h with h | h
    · subst h; simp [List.find?]
    · have hne : key x ≠ key r := by
        intro he
        exact hn.1 (List.mem_map.mpr ⟨r, h, he.symm⟩)
      have : (key x == key r) = false := by simpa using hne
      simp only [List.find?, this]
      exact find_of_nodup_keys key xs r hn.2 h

theorem mapM_keys_ok {α ε} (key : α → Nat) (F : Nat → Except ε α) : ∀ (target : List α),
    (∀ r ∈ target, F (key r) = .ok r) → (target.map key).mapM F = .ok target
  | [], _ => rfl
  | r :: rs, h => by
    simp only [List.map_cons, List.mapM_cons, h r (by simp),
      mapM_keys_ok key F rs (fun x hx => h x (List.mem_cons_of_mem _ hx))]
    rfl

/-- `re_order_blob`: any permutation of records with distinct ids comes back in
the order of the id list -/
theorem reorderBlob_perm (ids : List CellId) (blob target : List Record)
    (hperm : blob.Perm target) (hids : target.map (·.cellId) = ids) (hnd : ids.Nodup) :
    reorderBlob ids blob = .ok target := by
  unfold reorderBlob
  rw [← hids]
  apply mapM_keys_ok (fun r : Record => r.cellId)
  intro r hr
  have hperm' : blob.reverse.Perm target := (List.reverse_perm blob).trans hperm
  have hmem : r ∈ blob.reverse := hperm'.mem_iff.mpr hr
  have hkeys : (blob.reverse.map (·.cellId)).Nodup := by
    have := (hperm'.map (·.cellId)).nodup_iff
    rw [this, hids]; exact hnd
  have := find_of_nodup_keys (fun r : Record => r.cellId) blob.reverse r hkeys hmem
  simp only [this]

theorem attachIds_ok : ∀ (ids : List CellId) (ws : List (List (Level × Entry))),
    ids.length = ws.length →
    attachIds ids ws = .ok (List.zipWith (fun id w => ({ cellId := id, levels := w } : Record)) ids ws)
  | [], [], _ => rfl
  | [], _ :: _, h => by simp at h
  | _ :: _, [], h => by simp at h
  | i :: ids, w :: ws, h => by
    simp only [attachIds, attachIds_ok ids ws (by simpa using h), List.zipWith_cons_cons]

theorem mapM_eq_ok_map {α β ε} (f : α → Except ε β) (g : α → β) : ∀ (cs : List α),
    (∀ c ∈ cs, f c = .ok (g c)) → cs.mapM f = .ok (cs.map g)
  | [], _ => rfl
  | c :: cs, h => by
    simp only [List.mapM_cons, h c (by simp),
      mapM_eq_ok_map f g cs (fun x hx => h x (List.mem_cons_of_mem _ hx)), List.map_cons]
    rfl

/-- the value of the one-cell walk (`[]` if it failed; it does not on a
well-formed tree, see `walk_path`) -/
def walkD {κ} (t : RawTree) (vote : Oracle κ) (c : κ) : List (Level × Entry) :=
  match walk t vote c with
  | .ok r => r
  | .error _ => []

theorem walk_eq_walkD {κ} {t : RawTree} {vote : Oracle κ} (hwf : wfb t = true)
    (hv : VoteOK t vote) (c : κ) : walk t vote c = .ok (walkD t vote c) := by
  obtain ⟨r, hr, _⟩ := walk_path hwf hv c
  simp [walkD, hr]

/-- the record of one cell before re-ordering and backfilling -/
def mkRecord {κ} (t : RawTree) (vote : Oracle κ) (id : CellId) (c : κ) : Record :=
  { cellId := id, levels := walkD t vote c }

theorem runChunk_eq {κ} {t : RawTree} {vote : Oracle κ} (hwf : wfb t = true) (hv : VoteOK t vote)
    (ids : List CellId) (cells : List κ) (hlen : ids.length = cells.length) (r : Nat × Nat) :
    runChunk t vote ids cells r =
      .ok (slice (List.zipWith (mkRecord t vote) ids cells) r.1 r.2) := by
  unfold runChunk
  rw [runLevelLoop_eq_mapM_walk t vote _ hwf hv,
    mapM_eq_ok_map (walk t vote) (walkD t vote) _ (fun c _ => walk_eq_walkD hwf hv c)]
  simp only []
  rw [attachIds_ok _ _ (by simp [slice, hlen])]
  simp only [slice, List.take_zipWith, List.drop_zipWith, List.zipWith_map_right]
  rfl

theorem runChunks_eq {κ} {t : RawTree} {vote : Oracle κ} (hwf : wfb t = true) (hv : VoteOK t vote)
    (ids : List CellId) (cells : List κ) (hlen : ids.length = cells.length) :
    ∀ (rs : List (Nat × Nat)), runChunks t vote ids cells rs =
      .ok (rs.map (fun r => slice (List.zipWith (mkRecord t vote) ids cells) r.1 r.2))
  | [] => rfl
  | r :: rs => by
    simp only [runChunks, runChunk_eq hwf hv ids cells hlen r,
      runChunks_eq hwf hv ids cells hlen rs, List.map_cons]

theorem map_cellId_zipWith {κ} (t : RawTree) (vote : Oracle κ) :
    ∀ (ids : List CellId) (cells : List κ), ids.length = cells.length →
      (List.zipWith (mkRecord t vote) ids cells).map (fun r => r.cellId) = ids
  | [], [], _ => rfl
  | [], _ :: _, h => by simp at h
  | _ :: _, [], h => by simp at h
  | i :: is, c :: cs, h => by
    simp only [List.zipWith_cons_cons, List.map_cons,
      map_cellId_zipWith t vote is cs (by simpa using h)]
    rfl

theorem markDirect_cellId (h : List Level) (r : Record) : (markDirect h r).cellId = r.cellId := rfl

/-- **The pipeline is a per-cell map.**  For the tree `t` the run uses
(well-formed), an oracle that returns children, distinct ids, at least one
worker, chunk size >= 1 and ANY order in which the chunk results are gathered:
`output["results"]` is, cell by cell in obs order, the backfilled, flagged walk
of that cell, carrying that cell's id. -/
theorem mapPipeline_spec {κ} (t0 t : RawTree) (cfg : Config) (vote : Oracle κ)
    (ids : List CellId) (cells : List κ) (order : List Nat)
    (hrun : runTree t0 cfg = .ok t) (hwf : wfb t = true) (hv : VoteOK t vote)
    (hlen : ids.length = cells.length) (hnd : ids.Nodup)
    (hproc : 1 ≤ cfg.nProc) (hcs : 1 ≤ cfg.chunkSize)
    (horder : order.Perm (List.range
      (chunks cells.length (effChunk cells.length cfg.nProc cfg.chunkSize)).length)) :
    mapPipeline t0 cfg vote ids cells order =
      backfill t0.dropCells
        ((List.zipWith (mkRecord t vote) ids cells).map (markDirect t.hierarchy)) := by
  have hcs' := effChunk_pos (n := cells.length) (nProc := cfg.nProc) hcs
  have hp0 : (cfg.nProc == 0) = false := by
    have : cfg.nProc ≠ 0 := by omega
    simpa using this
  have hc0 : (effChunk cells.length cfg.nProc cfg.chunkSize == 0) = false := by
    have : effChunk cells.length cfg.nProc cfg.chunkSize ≠ 0 := by omega
    simpa using this
  let recs := List.zipWith (mkRecord t vote) ids cells
  have hrl : recs.length = cells.length := by simp [recs, hlen]
  unfold mapPipeline
  simp only [hrun, hp0, hc0, Bool.false_eq_true, if_false, runChunks_eq hwf hv ids cells hlen]
  have hflat : ((chunks cells.length (effChunk cells.length cfg.nProc cfg.chunkSize)).map
      (fun r => slice recs r.1 r.2)).flatten = recs := by
    have := chunks_cover recs _ hcs'
    rw [hrl, List.flatMap_def] at this
    exact this
  have hperm := gather_perm ((chunks cells.length (effChunk cells.length cfg.nProc cfg.chunkSize)).map
      (fun r => slice recs r.1 r.2)) order (by simpa using horder)
  rw [hflat] at hperm
  have hids : (recs.map (markDirect t.hierarchy)).map (·.cellId) = ids := by
    simp only [List.map_map, recs]
    have : ((fun r : Record => r.cellId) ∘ markDirect t.hierarchy) = fun r => r.cellId := by
      funext r; rfl
    rw [this]
    exact map_cellId_zipWith t vote ids cells hlen
  rw [reorderBlob_perm ids _ (recs.map (markDirect t.hierarchy)) (hperm.map _) hids hnd]

/-! ### `backfill_assignments` -/

/-- `zip(xs[:-1], xs[1:])` -/
def pairsOf (xs : List Level) : List (Level × Level) := xs.zip xs.tail

theorem nodup_reverse {α} {xs : List α} (h : xs.Nodup) : xs.reverse.Nodup := by
  unfold List.Nodup at h ⊢
  rw [List.pairwise_reverse]
  exact h.imp (fun hab => fun he => hab he.symm)

theorem lookup_append_single {β} (m : List (Nat × β)) (k p : Nat) (v : β) :
    (m ++ [(p, v)]).lookup k = match m.lookup k with
      | some x => some x
      | none => if k == p then some v else none := by
  induction m with
  | nil => simp [List.lookup]; split <;> simp_all
  | cons a m ih =>
    obtain ⟨k', v'⟩ := a
    simp only [List.cons_append, List.lookup]
    split
    · rfl
    · exact ih

/-- what `backfill_assignments` writes at a missing level -/
def inferred (e : Entry) (p : Node) : Entry :=
  { e with assignment := p, ru := none, direct := some false }

/-- the core of `backfill_assignments` for one cell, walking up the reversed
hierarchy `xs`: if the present levels agree with a path `path` of the stored
tree, every level of `xs` ends up bound to the node of that path; present
levels are untouched; added levels are flagged and copy the level below. -/
theorem backfillPairs_spec (tMeta : RawTree) (path : Level → Node) :
    ∀ (xs : List Level) (r : Record), xs.Nodup →
      (∀ cp ∈ pairsOf xs, tMeta.childToParent cp.1 (path cp.1) = some (path cp.2)) →
      (∀ l e, r.levels.lookup l = some e → e.assignment = path l) →
      (∀ l, xs.head? = some l → (r.levels.lookup l).isSome) →
      ∃ r', backfillPairs tMeta (pairsOf xs) r = .ok r' ∧ r'.cellId = r.cellId ∧
        (∀ l ∈ xs, ∃ e, r'.levels.lookup l = some e ∧ e.assignment = path l) ∧
        (∀ l e, r.levels.lookup l = some e → r'.levels.lookup l = some e) ∧
        (∀ l, l ∉ xs → r'.levels.lookup l = r.levels.lookup l) ∧
        (∀ cp ∈ pairsOf xs, r.levels.lookup cp.2 = none →
          ∃ ec, r'.levels.lookup cp.1 = some ec ∧
            r'.levels.lookup cp.2 = some (inferred ec (path cp.2)))
  | [], r, _, _, _, _ => ⟨r, rfl, rfl, by simp, fun _ _ h => h, fun _ _ => rfl, by simp [pairsOf]⟩
  | [c], r, _, _, hagree, hhead => by
    refine ⟨r, rfl, rfl, ?_, fun _ _ h => h, fun _ _ => rfl, by simp [pairsOf]⟩
    intro l hl
    simp only [List.mem_singleton] at hl
    subst hl
    have := hhead l rfl
    cases h : r.levels.lookup l with
    | none => simp [h] at this
    | some e => exact ⟨e, rfl, hagree l e h⟩
  | c :: p :: rest, r, hnd, hlink, hagree, hhead => by
    have hpairs : pairsOf (c :: p :: rest) = (c, p) :: pairsOf (p :: rest) := by
      simp [pairsOf]
    have hc := hhead c rfl
    have hcp := hlink (c, p) (by rw [hpairs]; simp)
    -- the (c, p) iteration
    have step : ∃ r1, backfillOne tMeta c p r = .ok r1 ∧ r1.cellId = r.cellId ∧
        (∀ l e, r1.levels.lookup l = some e → e.assignment = path l) ∧
        (r1.levels.lookup p).isSome ∧
        (∀ l e, r.levels.lookup l = some e → r1.levels.lookup l = some e) ∧
        (∀ l, l ≠ p → r1.levels.lookup l = r.levels.lookup l) ∧
        (r.levels.lookup p = none → ∃ ec, r.levels.lookup c = some ec ∧
          r1.levels.lookup p = some (inferred ec (path p))) := by
      unfold backfillOne
      cases hp : r.levels.lookup p with
      | some ep =>
        refine ⟨r, by simp, rfl, hagree, by simp [hp], fun _ _ h => h, fun _ _ => rfl, ?_⟩
        intro h; cases h
      | none =>
        cases hce : r.levels.lookup c with
        | none => simp [hce] at hc
        | some e =>
          have ha := hagree c e hce
          simp only [Option.isSome_none, Bool.false_eq_true, if_false, ha, hcp]
          refine ⟨_, rfl, rfl, ?_, ?_, ?_, ?_, ?_⟩
          · intro l e' hl
            rw [lookup_append_single] at hl
            cases hl0 : r.levels.lookup l with
            | some x =>
              rw [hl0] at hl; cases hl; exact hagree l _ hl0
            | none =>
              rw [hl0] at hl
              simp only at hl
              split at hl
              · rename_i hlp
                have : l = p := by simpa using hlp
                subst this; cases hl; rfl
              · cases hl
          · rw [lookup_append_single, hp]; simp
          · intro l e' hl
            rw [lookup_append_single, hl]
          · intro l hl
            rw [lookup_append_single]
            have : (l == p) = false := by simpa using hl
            cases r.levels.lookup l <;> simp [this]
          · intro _
            refine ⟨e, rfl, ?_⟩
            rw [lookup_append_single, hp]
            simp [inferred]
    obtain ⟨r1, h1, hid1, hagree1, hp1, hkeep1, hother1, hinf1⟩ := step
    obtain ⟨r', h2, hid2, hall2, hkeep2, hother2, hinf2⟩ :=
      backfillPairs_spec tMeta path (p :: rest) r1 (List.nodup_cons.mp hnd).2
        (fun cp hm => hlink cp (by rw [hpairs]; exact List.mem_cons_of_mem _ hm))
        hagree1 (fun l hl => by simp at hl; subst hl; exact hp1)
    refine ⟨r', by rw [hpairs]; simp only [backfillPairs, h1, h2], by rw [hid2, hid1], ?_, ?_, ?_, ?_⟩
    · intro l hl
      rcases List.mem_cons.mp hl with h | h
      · subst h
        cases hce : r.levels.lookup l with
        | none => simp [hce] at hc
        | some e => exact ⟨e, hkeep2 l e (hkeep1 l e hce), hagree l e hce⟩
      · exact hall2 l h
    · intro l e h; exact hkeep2 l e (hkeep1 l e h)
    · intro l hl
      have h1' : l ∉ p :: rest := fun h => hl (List.mem_cons_of_mem _ h)
      have h2' : l ≠ p := fun h => h1' (by simp [h])
      rw [hother2 l h1', hother1 l h2']
    · intro cp hm hnone
      rw [hpairs] at hm
      rcases List.mem_cons.mp hm with h | h
      · subst h
        obtain ⟨ec, hec, hpe⟩ := hinf1 hnone
        exact ⟨ec, hkeep2 _ _ (hkeep1 _ _ hec), hkeep2 _ _ hpe⟩
      · -- cp.2 is not p (p is bound in r1 only if it was in r or just added); use IH
        have hcp2 : cp.2 ≠ p := by
          intro he
          have hm2 : cp.2 ∈ rest := by
            have : cp ∈ (p :: rest).zip rest := h
            exact (List.of_mem_zip this).2
          rw [he] at hm2
          exact (List.nodup_cons.mp (List.nodup_cons.mp hnd).2).1 hm2
        have hn1 : r1.levels.lookup cp.2 = none := by rw [hother1 _ hcp2]; exact hnone
        exact hinf2 cp h hn1

theorem backfillOne_cellId (tMeta : RawTree) (cl pl : Level) (r r' : Record)
    (h : backfillOne tMeta cl pl r = .ok r') : r'.cellId = r.cellId := by
  unfold backfillOne at h
  split at h
  · cases h; rfl
  · split at h
    · cases h; rfl
    · split at h
      · cases h
      · cases h; rfl

theorem backfillPairs_cellId (tMeta : RawTree) : ∀ (ps : List (Level × Level)) (r r' : Record),
    backfillPairs tMeta ps r = .ok r' → r'.cellId = r.cellId
  | [], r, r', h => by simp [backfillPairs] at h; cases h; rfl
  | (cl, pl) :: rest, r, r', h => by
    simp only [backfillPairs] at h
    split at h
    · cases h
    · rename_i r1 h1
      rw [backfillPairs_cellId tMeta rest r1 r' h, backfillOne_cellId tMeta cl pl r r1 h1]

/-- the levels computed by `backfill_assignments` do not depend on the cell id -/
theorem backfillOne_setId (tMeta : RawTree) (cl pl : Level) (r : Record) (x : CellId) :
    backfillOne tMeta cl pl { r with cellId := x } =
      (backfillOne tMeta cl pl r).map (fun r' => { r' with cellId := x }) := by
  unfold backfillOne
  simp only
  split
  · rfl
  · split
    · rfl
    · split <;> rfl

theorem backfillPairs_setId (tMeta : RawTree) : ∀ (ps : List (Level × Level)) (r : Record)
    (x : CellId), backfillPairs tMeta ps { r with cellId := x } =
      (backfillPairs tMeta ps r).map (fun r' => { r' with cellId := x })
  | [], _, _ => rfl
  | (cl, pl) :: rest, r, x => by
    simp only [backfillPairs, backfillOne_setId]
    cases h : backfillOne tMeta cl pl r with
    | error e => rfl
    | ok r1 =>
      simp only [Except.map]
      exact backfillPairs_setId tMeta rest r1 x

theorem mapM_key_preserved {α ε} (key : α → Nat) (f : α → Except ε α)
    (hf : ∀ r r', f r = .ok r' → key r' = key r) : ∀ (rs out : List α),
    rs.mapM f = .ok out → out.map key = rs.map key
  | [], out, h => by simp at h; cases h; rfl
  | r :: rs, out, h => by
    simp only [List.mapM_cons] at h
    cases h1 : f r with
    | error e => rw [h1] at h; cases h
    | ok r' =>
      cases h2 : rs.mapM f with
      | error e => rw [h1, h2] at h; cases h
      | ok out' =>
        rw [h1, h2] at h
        cases h
        simp only [List.map_cons, hf r r' h1, mapM_key_preserved key f hf rs out' h2]

theorem mapM_getElem {α β ε} (f : α → Except ε β) : ∀ (rs : List α) (out : List β),
    rs.mapM f = .ok out → ∀ (i : Nat) r, rs[i]? = some r → ∃ o, out[i]? = some o ∧ f r = .ok o
  | [], out, h, i, r, hr => by simp at hr
  | a :: rs, out, h, i, r, hr => by
    simp only [List.mapM_cons] at h
    cases h1 : f a with
    | error e => rw [h1] at h; cases h
    | ok a' =>
      cases h2 : rs.mapM f with
      | error e => rw [h1, h2] at h; cases h
      | ok out' =>
        rw [h1, h2] at h
        cases h
        cases i with
        | zero => simp at hr; subst hr; exact ⟨a', by simp, h1⟩
        | succ j =>
          obtain ⟨o, ho, hfo⟩ := mapM_getElem f rs out' h2 j r (by simpa using hr)
          exact ⟨o, by simpa using ho, hfo⟩

/-- the finished record of one cell: flags, then `backfill_assignments` with
the tree as stored -/
def cellResult {κ} (t0 t : RawTree) (vote : Oracle κ) (id : CellId) (c : κ) : Except Err Record :=
  backfillPairs t0.dropCells (pairsOf t0.dropCells.hierarchy.reverse)
    (markDirect t.hierarchy (mkRecord t vote id c))

theorem getElem?_zipWith_some {α β γ} (f : α → β → γ) : ∀ (as : List α) (bs : List β) (i : Nat) a b,
    as[i]? = some a → bs[i]? = some b → (List.zipWith f as bs)[i]? = some (f a b)
  | [], _, _, _, _, h, _ => by simp at h
  | _ :: _, [], _, _, _, _, h => by simp at h
  | a0 :: as, b0 :: bs, 0, a, b, ha, hb => by
    simp at ha hb; subst ha; subst hb; simp
  | a0 :: as, b0 :: bs, i+1, a, b, ha, hb => by
    simpa using getElem?_zipWith_some f as bs i a b (by simpa using ha) (by simpa using hb)

/-- position `i` of the output is the finished record of cell `i` -/
theorem mapPipeline_getElem {κ} (t0 t : RawTree) (cfg : Config) (vote : Oracle κ)
    (ids : List CellId) (cells : List κ) (order : List Nat)
    (hrun : runTree t0 cfg = .ok t) (hwf : wfb t = true) (hv : VoteOK t vote)
    (hlen : ids.length = cells.length) (hnd : ids.Nodup)
    (hproc : 1 ≤ cfg.nProc) (hcs : 1 ≤ cfg.chunkSize)
    (horder : order.Perm (List.range
      (chunks cells.length (effChunk cells.length cfg.nProc cfg.chunkSize)).length))
    (out : List Record) (hout : mapPipeline t0 cfg vote ids cells order = .ok out)
    (i : Nat) (id : CellId) (c : κ) (hid : ids[i]? = some id) (hc : cells[i]? = some c) :
    ∃ o, out[i]? = some o ∧ cellResult t0 t vote id c = .ok o := by
  rw [mapPipeline_spec t0 t cfg vote ids cells order hrun hwf hv hlen hnd hproc hcs horder] at hout
  unfold backfill at hout
  have hget : ((List.zipWith (mkRecord t vote) ids cells).map (markDirect t.hierarchy))[i]? =
      some (markDirect t.hierarchy (mkRecord t vote id c)) := by
    rw [List.getElem?_map, getElem?_zipWith_some _ ids cells i id c hid hc]; rfl
  exact mapM_getElem _ _ out hout i _ hget

/-! ### `backfill_assignments` when it succeeds (no path given in advance) -/

theorem backfillOne_ok_cases (tMeta : RawTree) (c p : Level) (r r1 : Record)
    (h : backfillOne tMeta c p r = .ok r1) :
    ((r.levels.lookup p).isSome ∧ r1 = r) ∨
    (r.levels.lookup p = none ∧ r.levels.lookup c = none ∧ r1 = r) ∨
    (r.levels.lookup p = none ∧ ∃ ec pn, r.levels.lookup c = some ec ∧
      tMeta.childToParent c ec.assignment = some pn ∧
      r1 = { r with levels := r.levels ++ [(p, inferred ec pn)] }) := by
  unfold backfillOne at h
  cases hp : r.levels.lookup p with
  | some ep =>
    simp only [hp, Option.isSome_some, if_true] at h
    cases h; exact Or.inl ⟨rfl, rfl⟩
  | none =>
    simp only [hp, Option.isSome_none, Bool.false_eq_true, if_false] at h
    cases hc : r.levels.lookup c with
    | none =>
      simp only [hc] at h
      cases h; exact Or.inr (Or.inl ⟨rfl, rfl, rfl⟩)
    | some ec =>
      simp only [hc] at h
      cases hq : tMeta.childToParent c ec.assignment with
      | none => simp only [hq] at h; cases h
      | some pn =>
        simp only [hq] at h
        cases h
        exact Or.inr (Or.inr ⟨rfl, ec, pn, rfl, hq, rfl⟩)

theorem backfillPairs_ok_spec (tMeta : RawTree) :
    ∀ (xs : List Level) (r r' : Record), xs.Nodup →
      (∀ l, xs.head? = some l → (r.levels.lookup l).isSome) →
      backfillPairs tMeta (pairsOf xs) r = .ok r' →
      r'.cellId = r.cellId ∧
      (∀ l e, r.levels.lookup l = some e → r'.levels.lookup l = some e) ∧
      (∀ l, l ∉ xs → r'.levels.lookup l = r.levels.lookup l) ∧
      (∀ l ∈ xs, (r'.levels.lookup l).isSome) ∧
      (∀ cp ∈ pairsOf xs, r.levels.lookup cp.2 = none →
        ∃ ec pn, r'.levels.lookup cp.1 = some ec ∧
          tMeta.childToParent cp.1 ec.assignment = some pn ∧
          r'.levels.lookup cp.2 = some (inferred ec pn))
  | [], r, r', _, _, h => by
    simp [pairsOf, backfillPairs] at h; cases h
    exact ⟨rfl, fun _ _ h => h, fun _ _ => rfl, by simp, by simp [pairsOf]⟩
  | [c], r, r', _, hhead, h => by
    simp [pairsOf, backfillPairs] at h; cases h
    refine ⟨rfl, fun _ _ h => h, fun _ _ => rfl, ?_, by simp [pairsOf]⟩
    intro l hl
    simp only [List.mem_singleton] at hl
    subst hl
    exact hhead l rfl
  | c :: p :: rest, r, r', hnd, hhead, h => by
    have hpairs : pairsOf (c :: p :: rest) = (c, p) :: pairsOf (p :: rest) := by simp [pairsOf]
    rw [hpairs] at h
    simp only [backfillPairs] at h
    cases h1 : backfillOne tMeta c p r with
    | error e => rw [h1] at h; cases h
    | ok r1 =>
      rw [h1] at h
      simp only at h
      have hc := hhead c rfl
      have hnd' := List.nodup_cons.mp hnd
      have hcp : c ≠ p := fun he => hnd'.1 (by simp [he])
      -- facts about the (c, p) iteration
      have step : r1.cellId = r.cellId ∧ (r1.levels.lookup p).isSome ∧
          (∀ l e, r.levels.lookup l = some e → r1.levels.lookup l = some e) ∧
          (∀ l, l ≠ p → r1.levels.lookup l = r.levels.lookup l) ∧
          (r.levels.lookup p = none → ∃ ec pn, r.levels.lookup c = some ec ∧
            tMeta.childToParent c ec.assignment = some pn ∧
            r1.levels.lookup p = some (inferred ec pn)) := by
        rcases backfillOne_ok_cases tMeta c p r r1 h1 with ⟨hs, rfl⟩ | ⟨_, hcn, rfl⟩ |
            ⟨hpn, ec, pn, hec, hq, rfl⟩
        · refine ⟨rfl, hs, fun _ _ h => h, fun _ _ => rfl, ?_⟩
          intro hn; rw [hn] at hs; cases hs
        · rw [hcn] at hc; cases hc
        · refine ⟨rfl, ?_, ?_, ?_, ?_⟩
          · simp only [lookup_append_single, hpn]; simp
          · intro l e hl; simp only [lookup_append_single, hl]
          · intro l hl
            have : (l == p) = false := by simpa using hl
            simp only [lookup_append_single]
            cases r.levels.lookup l <;> simp [this]
          · intro _
            refine ⟨ec, pn, hec, hq, ?_⟩
            simp only [lookup_append_single, hpn]; simp
      obtain ⟨hid1, hp1, hkeep1, hother1, hinf1⟩ := step
      obtain ⟨hid2, hkeep2, hother2, hall2, hinf2⟩ :=
        backfillPairs_ok_spec tMeta (p :: rest) r1 r' hnd'.2
          (fun l hl => by simp at hl; subst hl; exact hp1) h
      refine ⟨by rw [hid2, hid1], fun l e hl => hkeep2 l e (hkeep1 l e hl), ?_, ?_, ?_⟩
      · intro l hl
        have h1' : l ∉ p :: rest := fun h => hl (List.mem_cons_of_mem _ h)
        have h2' : l ≠ p := fun h => h1' (by simp [h])
        rw [hother2 l h1', hother1 l h2']
      · intro l hl
        rcases List.mem_cons.mp hl with he | hm
        · subst he
          cases hce : r.levels.lookup l with
          | none => rw [hce] at hc; cases hc
          | some e => rw [hkeep2 l e (hkeep1 l e hce)]; rfl
        · exact hall2 l hm
      · intro cp hm hnone
        rcases List.mem_cons.mp hm with he | hm'
        · subst he
          obtain ⟨ec, pn, hec, hq, hpe⟩ := hinf1 hnone
          exact ⟨ec, pn, hkeep2 _ _ (hkeep1 _ _ hec), hq, hkeep2 _ _ hpe⟩
        · have hcp2 : cp.2 ≠ p := by
            intro he
            have hm2 : cp.2 ∈ rest := by
              have : cp ∈ (p :: rest).zip rest := hm'
              exact (List.of_mem_zip this).2
            rw [he] at hm2
            exact (List.nodup_cons.mp hnd'.2).1 hm2
          have hn1 : r1.levels.lookup cp.2 = none := by rw [hother1 _ hcp2]; exact hnone
          exact hinf2 cp hm' hn1

theorem backfillPairs_all_present (tMeta : RawTree) : ∀ (ps : List (Level × Level)) (r : Record),
    (∀ cp ∈ ps, (r.levels.lookup cp.2).isSome) → backfillPairs tMeta ps r = .ok r
  | [], _, _ => rfl
  | (c, p) :: rest, r, h => by
    have hp := h (c, p) (by simp)
    simp only [backfillPairs, backfillOne, hp, if_true]
    exact backfillPairs_all_present tMeta rest r (fun cp hm => h cp (List.mem_cons_of_mem _ hm))

theorem dropCells_hierarchy (t : RawTree) : t.dropCells.hierarchy = t.hierarchy := by
  unfold RawTree.dropCells
  split <;> rfl

theorem lookup_isSome_of_keys {β} : ∀ (m : List (Nat × β)) (k : Nat),
    k ∈ m.map (·.1) → (m.lookup k).isSome
  | [], _, h => by cases h
  | (k', v) :: m, k, h => by
    simp only [List.lookup]
    split
    · rfl
    · rename_i hne
      have hne' : k ≠ k' := by simpa using hne
      simp only [List.map_cons, List.mem_cons] at h
      rcases h with h | h
      · exact absurd h hne'
      · exact lookup_isSome_of_keys m k h

theorem lookup_none_of_not_keys {β} : ∀ (m : List (Nat × β)) (k : Nat),
    k ∉ m.map (·.1) → m.lookup k = none
  | [], _, _ => rfl
  | (k', v) :: m, k, h => by
    simp only [List.map_cons, List.mem_cons, not_or] at h
    have : (k == k') = false := by simpa using h.1
    simp only [List.lookup, this]
    exact lookup_none_of_not_keys m k h.2

theorem markDirect_keys (h : List Level) (r : Record) :
    (markDirect h r).levels.map (·.1) = r.levels.map (·.1) := by
  simp only [markDirect, List.map_map]
  apply List.map_congr_left
  intro le _
  obtain ⟨l, e⟩ := le
  simp only [Function.comp]
  split <;> rfl

/-- the keys of the flagged record of a cell are the levels of the run's tree -/
theorem record_keys {κ} {t : RawTree} {vote : Oracle κ} (hwf : wfb t = true) (hv : VoteOK t vote)
    (id : CellId) (c : κ) :
    (markDirect t.hierarchy (mkRecord t vote id c)).levels.map (·.1) = t.hierarchy := by
  rw [markDirect_keys]
  obtain ⟨r, hr, hp⟩ := walk_path hwf hv c
  simp only [mkRecord, walkD, hr]
  exact hp.1

/-- the hierarchy after `drop_level` is the old one without that level -/
theorem dropLevel_hierarchy {t t' : RawTree} {l : Level} (h : t.dropLevel l = .ok t') :
    l ∈ t.hierarchy ∧ t'.hierarchy = t.hierarchy.erase l := by
  unfold RawTree.dropLevel at h
  cases hraw : t.dropLevelRaw l with
  | error e => rw [hraw] at h; cases h
  | ok t1 =>
    rw [hraw] at h
    simp only at h
    have ht : t1 = t' := by
      cases hv : t1.validate with
      | error e => rw [hv] at h; cases h
      | ok u => rw [hv] at h; cases h; rfl
    subst ht
    unfold RawTree.dropLevelRaw at hraw
    split at hraw
    · cases hraw
    · cases hidx : t.levelIdx l with
      | none => simp only [hidx] at hraw; cases hraw
      | some idx =>
        simp only [hidx] at hraw
        have hmem : l ∈ t.hierarchy := by
          have : (t.hierarchy.idxOf? l).isSome := by
            simp only [RawTree.levelIdx] at hidx; rw [hidx]; rfl
          exact List.isSome_idxOf?.mp this
        have herase : t.hierarchy.erase l = t.hierarchy.eraseIdx idx := by
          rw [List.erase_eq_eraseIdx]
          simp only [RawTree.levelIdx] at hidx
          rw [hidx]
        refine ⟨hmem, ?_⟩
        split at hraw
        · cases hraw
        · split at hraw
          · rename_i h0
            have : idx = 0 := by simpa using h0
            subst this
            cases hraw
            simp only [herase, List.eraseIdx_zero, List.drop_one]
          · cases hprev : t.hierarchy[idx - 1]? with
            | none => simp only [hprev] at hraw; cases hraw
            | some pl =>
              simp only [hprev] at hraw
              cases hraw
              simp only [herase]

theorem mem_zipWith_exists {α β γ} (f : α → β → γ) : ∀ (as : List α) (bs : List β) (r : γ),
    r ∈ List.zipWith f as bs → ∃ a b, r = f a b
  | [], _, _, h => by simp at h
  | _ :: _, [], _, h => by simp at h
  | a :: as, b :: bs, r, h => by
    simp only [List.zipWith_cons_cons, List.mem_cons] at h
    rcases h with h | h
    · exact ⟨a, b, h⟩
    · exact mem_zipWith_exists f as bs r h

/-- without `drop_level` / `flatten` there is nothing to backfill and the
mapping cannot fail -/
theorem mapPipeline_plain_ok {κ} (t0 : RawTree) (cfg : Config) (vote : Oracle κ)
    (ids : List CellId) (cells : List κ) (order : List Nat)
    (hdrop : cfg.dropLevel = none) (hflat : cfg.flatten = false)
    (hwf : wfb t0 = true) (hv : VoteOK t0 vote)
    (hlen : ids.length = cells.length) (hnd : ids.Nodup)
    (hproc : 1 ≤ cfg.nProc) (hcs : 1 ≤ cfg.chunkSize)
    (horder : order.Perm (List.range
      (chunks cells.length (effChunk cells.length cfg.nProc cfg.chunkSize)).length)) :
    mapPipeline t0 cfg vote ids cells order =
      .ok ((List.zipWith (mkRecord t0 vote) ids cells).map (markDirect t0.hierarchy)) := by
  have hrun : runTree t0 cfg = .ok t0 := by simp [runTree, hdrop, hflat]
  rw [mapPipeline_spec t0 t0 cfg vote ids cells order hrun hwf hv hlen hnd hproc hcs horder]
  unfold backfill
  rw [mapM_eq_ok_map _ id]
  · simp
  · intro r hr
    obtain ⟨r0, hr0, rfl⟩ := List.mem_map.mp hr
    obtain ⟨id, c, rfl⟩ := mem_zipWith_exists _ _ _ _ hr0
    apply backfillPairs_all_present
    intro cp hm
    apply lookup_isSome_of_keys
    rw [record_keys hwf hv id c]
    rw [dropCells_hierarchy] at hm
    have : cp ∈ t0.hierarchy.reverse.zip t0.hierarchy.reverse.tail := hm
    exact List.mem_reverse.mp (List.mem_of_mem_tail (List.of_mem_zip this).2)

/-! ### `tree_for_metadata` (cells dropped) has the same `child_to_parent` -/

theorem lookup_setLevel_ne (levels : List (Level × LevelMap)) (l k : Level) (m : LevelMap)
    (h : k ≠ l) : (RawTree.setLevel levels l m).lookup k = levels.lookup k := by
  induction levels with
  | nil => rfl
  | cons a rest ih =>
    obtain ⟨k', v⟩ := a
    simp only [RawTree.setLevel, List.map_cons] at ih ⊢
    by_cases hk : k' = l
    · subst hk
      have : (k == k') = false := by simpa using h
      simp only [beq_self_eq_true, if_true, List.lookup, this]
      exact ih
    · have hb : (k' == l) = false := by simpa using hk
      simp only [hb, Bool.false_eq_true, if_false, List.lookup]
      split
      · rfl
      · exact ih

theorem parentLevel_ne_leaf {t : RawTree} (hnd : t.hierarchy.Nodup) {cl pl ll : Level}
    (hp : t.parentLevel cl = some pl) (hl : t.leafLevel = some ll) : pl ≠ ll := by
  simp only [RawTree.parentLevel, RawTree.levelIdx] at hp
  split at hp
  · cases hp
  · cases hp
  · rename_i i hidx
    obtain ⟨hlt, _, _⟩ := List.idxOf?_eq_some_iff.mp hidx
    have hi : i < t.hierarchy.length := by omega
    rw [List.getElem?_eq_getElem hi] at hp
    simp only [RawTree.leafLevel, List.getLast?_eq_getElem?] at hl
    have hlast : t.hierarchy.length - 1 < t.hierarchy.length := by omega
    rw [List.getElem?_eq_getElem hlast] at hl
    intro he
    cases hp; cases hl
    have := (List.getElem_inj (h₀ := hi) (h₁ := hlast) hnd).mp he
    omega

theorem childToParent_dropCells {t : RawTree} (hnd : t.hierarchy.Nodup) (cl : Level) (c : Node) :
    t.dropCells.childToParent cl c = t.childToParent cl c := by
  cases hl : t.leafLevel with
  | none => simp [RawTree.dropCells, hl]
  | some ll =>
    have hh : t.dropCells.hierarchy = t.hierarchy := dropCells_hierarchy t
    have hpl : t.dropCells.parentLevel cl = t.parentLevel cl := by
      simp only [RawTree.parentLevel, RawTree.levelIdx, hh]
    simp only [RawTree.childToParent, hpl]
    cases hp : t.parentLevel cl with
    | none => rfl
    | some pl =>
      have hne := parentLevel_ne_leaf hnd hp hl
      have : t.dropCells.level pl = t.level pl := by
        simp only [RawTree.level, RawTree.dropCells, hl, lookup_setLevel_ne _ _ _ _ hne]
      simp only [this]

/-! ### flatten: the ancestors of a leaf form a path of the stored tree -/

/-- every node below the top level has a parent node, and `child_to_parent` finds it -/
theorem has_parent {t : RawTree} (hwf : wfb t = true) {pre post : List Level} {pl cl : Level}
    (hs : t.hierarchy = pre ++ pl :: cl :: post) {c : Node} (hc : c ∈ t.nodesAt cl) :
    ∃ p, p ∈ t.nodesAt pl ∧ t.childToParent cl c = some p := by
  have hpair : (some pl, cl) ∈ levelPairs t := by
    unfold levelPairs; rw [hs]; exact mem_zip_of_split pl cl post pre none
  have facts := levelOK_facts t (some pl) cl (wfb_levelOK hwf hpair)
  obtain ⟨p, hp, hk⟩ := facts.surj c hc
  obtain ⟨k, hkm, rfl⟩ := (mem_parentNodeList_some t pl p).mp hp
  exact ⟨k, hkm, childToParent_of_kid hwf hs hkm hk⟩

/-- climb from a node of level `c` through the levels above it (`ups`, nearest
first): the `(level, node)` pairs met -/
def climb (t : RawTree) : Level → Node → List Level → List (Level × Node)
  | c, n, [] => [(c, n)]
  | c, n, p :: rest => (c, n) :: climb t p ((t.childToParent c n).getD 0) rest

theorem climb_keys (t : RawTree) : ∀ (ups : List Level) (c : Level) (n : Node),
    (climb t c n ups).map (·.1) = c :: ups
  | [], _, _ => rfl
  | p :: rest, c, n => by simp [climb, climb_keys t rest p]

/-- the climb of a well-formed tree is linked by `child_to_parent` and stays
inside the node sets -/
theorem climb_linked {t : RawTree} (hwf : wfb t = true) :
    ∀ (ups : List Level) (c : Level) (n : Node) (below : List Level),
      t.hierarchy = (c :: ups).reverse ++ below → n ∈ t.nodesAt c →
      (∀ ln ∈ climb t c n ups, ln.2 ∈ t.nodesAt ln.1) ∧
      ∀ cp ∈ pairsOf (c :: ups),
        t.childToParent cp.1 (((climb t c n ups).lookup cp.1).getD 0) =
          some (((climb t c n ups).lookup cp.2).getD 0)
  | [], c, n, _, _, hn => by
    refine ⟨?_, by simp [pairsOf]⟩
    intro ln h
    simp only [climb, List.mem_singleton] at h
    subst h; exact hn
  | p :: rest, c, n, below, hs, hn => by
    have hs' : t.hierarchy = (p :: rest).reverse ++ (c :: below) := by
      rw [hs]; simp
    have hsplit : t.hierarchy = rest.reverse ++ p :: c :: below := by
      rw [hs]; simp
    obtain ⟨pn, hpn, hq⟩ := has_parent hwf hsplit hn
    have hnd := wfb_nodup_hierarchy hwf
    obtain ⟨ihn, ihl⟩ := climb_linked hwf rest p pn (c :: below) hs' hpn
    have hcne : ∀ x ∈ p :: rest, x ≠ c := by
      intro x hx he
      subst he
      rw [hs] at hnd
      have : (x :: p :: rest).reverse.Nodup := (List.nodup_append.mp hnd).1
      have h2 : (x :: p :: rest).Nodup := by
        have := nodup_reverse this
        simpa using this
      exact (List.nodup_cons.mp h2).1 hx
    simp only [climb, hq, Option.getD_some]
    refine ⟨?_, ?_⟩
    · intro ln h
      rcases List.mem_cons.mp h with h | h
      · subst h; exact hn
      · exact ihn ln h
    · intro cp hm
      have hpairs : pairsOf (c :: p :: rest) = (c, p) :: pairsOf (p :: rest) := by simp [pairsOf]
      rw [hpairs] at hm
      rcases List.mem_cons.mp hm with h | h
      · subst h
        have hpc : (p == c) = false := by simpa using hcne p (by simp)
        simp only [List.lookup, beq_self_eq_true, Option.getD_some, hpc]
        -- the climb from p starts with (p, pn)
        have : (climb t p pn rest).lookup p = some pn := by
          cases rest <;> simp [climb, List.lookup]
        rw [this]; exact hq
      · have hz : cp ∈ (p :: rest).zip rest := h
        have h1 := (List.of_mem_zip hz).1
        have h2 := List.mem_cons_of_mem p (List.of_mem_zip hz).2
        have e1 : (cp.1 == c) = false := by simpa using hcne cp.1 h1
        have e2 : (cp.2 == c) = false := by simpa using hcne cp.2 h2
        simp only [List.lookup, e1, e2]
        exact ihl cp h

theorem mem_pairsOf_of_mem_tail : ∀ (xs : List Level) (x : Level), x ∈ xs.tail →
    ∃ c, (c, x) ∈ pairsOf xs
  | [], _, h => by cases h
  | [_], _, h => by cases h
  | a :: b :: rest, x, h => by
    have hpairs : pairsOf (a :: b :: rest) = (a, b) :: pairsOf (b :: rest) := by simp [pairsOf]
    simp only [List.tail_cons] at h
    rcases List.mem_cons.mp h with h | h
    · subst h; exact ⟨a, by rw [hpairs]; simp⟩
    · obtain ⟨c, hc⟩ := mem_pairsOf_of_mem_tail (b :: rest) x (by simpa using h)
      exact ⟨c, by rw [hpairs]; exact List.mem_cons_of_mem _ hc⟩

/-- flatten: a record that only has the leaf level is backfilled to the leaf's
chain of ancestors in the stored tree -/
theorem backfill_flatten_spec {t0 : RawTree} (hwf : wfb t0 = true) {ll : Level}
    (hleaf : t0.leafLevel = some ll) (r : Record) (e : Entry) (hr : r.levels = [(ll, e)])
    (hn : e.assignment ∈ t0.nodesAt ll) :
    ∃ (r' : Record) (path : Level → Node),
      backfillPairs t0.dropCells (pairsOf t0.dropCells.hierarchy.reverse) r = .ok r' ∧
      r'.cellId = r.cellId ∧ r'.levels.lookup ll = some e ∧ path ll = e.assignment ∧
      (∀ cp ∈ pairsOf t0.hierarchy.reverse, t0.childToParent cp.1 (path cp.1) = some (path cp.2)) ∧
      (∀ l ∈ t0.hierarchy, path l ∈ t0.nodesAt l ∧
        ∃ e', r'.levels.lookup l = some e' ∧ e'.assignment = path l ∧
          (l ≠ ll → e'.direct = some false ∧ e'.ru = none)) := by
  have hnd := wfb_nodup_hierarchy hwf
  have hndr := nodup_reverse hnd
  -- reversed hierarchy = ll :: ups
  have hhead : t0.hierarchy.reverse.head? = some ll := by
    rw [List.head?_reverse]; exact hleaf
  cases hrev : t0.hierarchy.reverse with
  | nil => rw [hrev] at hhead; cases hhead
  | cons x ups =>
    rw [hrev] at hhead hndr
    simp only [List.head?_cons, Option.some.injEq] at hhead
    subst hhead
    have hs : t0.hierarchy = (x :: ups).reverse ++ [] := by
      rw [← hrev]; simp
    obtain ⟨hnodes, hlinked⟩ := climb_linked hwf ups x e.assignment [] hs hn
    let path : Level → Node := fun l => ((climb t0 x e.assignment ups).lookup l).getD 0
    have hpx : path x = e.assignment := by
      show ((climb t0 x e.assignment ups).lookup x).getD 0 = _
      cases ups <;> simp [climb, List.lookup]
    have hdh := dropCells_hierarchy t0
    obtain ⟨r', h1, h2, h3, h4, _, h6⟩ := backfillPairs_spec t0.dropCells path (x :: ups) r hndr
      (fun cp hm => by rw [childToParent_dropCells hnd]; exact hlinked cp hm)
      (fun l e' hl => by
        rw [hr] at hl
        simp only [List.lookup] at hl
        split at hl
        · rename_i heq
          have : l = x := by simpa using heq
          cases hl; rw [this]; exact hpx.symm
        · cases hl)
      (fun l hl => by
        simp only [List.head?_cons, Option.some.injEq] at hl
        subst hl; rw [hr]; simp [List.lookup])
    refine ⟨r', path, by rw [hdh, hrev]; exact h1, h2, ?_, hpx, ?_, ?_⟩
    · exact h4 x e (by rw [hr]; simp [List.lookup])
    · intro cp hm; exact hlinked cp hm
    · intro l hl
      have hl' : l ∈ x :: ups := by rw [← hrev]; exact List.mem_reverse.mpr hl
      obtain ⟨e', he', ha⟩ := h3 l hl'
      have hkeys := climb_keys t0 ups x e.assignment
      have hnode : path l ∈ t0.nodesAt l := by
        have hsome := lookup_isSome_of_keys (climb t0 x e.assignment ups) l (by rw [hkeys]; exact hl')
        cases hlk : (climb t0 x e.assignment ups).lookup l with
        | none => rw [hlk] at hsome; cases hsome
        | some n =>
          show ((climb t0 x e.assignment ups).lookup l).getD 0 ∈ _
          rw [hlk]
          exact hnodes (l, n) (mem_of_lookup _ _ _ hlk)
      refine ⟨hnode, e', he', ha, ?_⟩
      intro hne
      have hlt : l ∈ (x :: ups).tail := by
        rcases List.mem_cons.mp hl' with h | h
        · exact absurd h hne
        · exact h
      obtain ⟨c, hc⟩ := mem_pairsOf_of_mem_tail (x :: ups) l hlt
      have hnone : r.levels.lookup l = none := by
        rw [hr]
        have : (l == x) = false := by simpa using hne
        simp [List.lookup, this]
      obtain ⟨ec, _, hpe⟩ := h6 (c, l) hc hnone
      rw [he'] at hpe
      cases hpe
      exact ⟨rfl, rfl⟩

theorem lookup_filter_key {β} (p : Nat × β → Bool) (k : Nat) (hp : ∀ v, p (k, v) = true) :
    ∀ (m : List (Nat × β)), (m.filter p).lookup k = m.lookup k
  | [] => rfl
  | (k', v) :: m => by
    by_cases hk : k = k'
    · subst hk
      simp [List.filter, hp v, List.lookup]
    · have hb : (k == k') = false := by simpa using hk
      simp only [List.filter]
      split
      · simp only [List.lookup, hb]; exact lookup_filter_key p k hp m
      · simp only [List.lookup, hb]; exact lookup_filter_key p k hp m

/-- flattening keeps the leaf level as it is -/
theorem flatten_nodesAt_leaf {t : RawTree} (hnd : t.hierarchy.Nodup) {ll : Level}
    (hleaf : t.leafLevel = some ll) : t.flatten.nodesAt ll = t.nodesAt ll := by
  obtain ⟨ys, hys⟩ := List.getLast?_eq_some_iff.mp hleaf
  have hnot : ll ∉ t.hierarchy.dropLast := by
    rw [hys, List.dropLast_concat]
    rw [hys] at hnd
    intro hm
    have := (List.nodup_append.mp hnd).2.2 ll hm ll (by simp)
    exact this rfl
  simp only [RawTree.nodesAt, RawTree.level, RawTree.flatten, hleaf]
  rw [lookup_filter_key _ ll]
  intro v
  simpa using hnot

theorem markDirect_mem (h : List Level) (r : Record) (le : Level × Entry)
    (hm : le ∈ (markDirect h r).levels) :
    ∃ le0 ∈ r.levels, le.1 = le0.1 ∧ le.2.assignment = le0.2.assignment := by
  simp only [markDirect, List.mem_map] at hm
  obtain ⟨⟨l, e⟩, hm0, he⟩ := hm
  refine ⟨(l, e), hm0, ?_⟩
  split at he <;> (cases he; exact ⟨rfl, rfl⟩)

/-- a run whose tree `t1` has only the leaf level (same leaves as the stored
tree) never fails and backfills every cell to a root-to-leaf path of the stored
tree, coarser levels flagged as inferred -/
theorem mapPipeline_leafonly_paths {κ} (t0 t1 : RawTree) (cfg : Config) (vote : Oracle κ) (ll : Level)
    (ids : List CellId) (cells : List κ) (order : List Nat)
    (hrun : runTree t0 cfg = .ok t1) (hfh : t1.hierarchy = [ll])
    (hnodes1 : t1.nodesAt ll = t0.nodesAt ll)
    (hleaf : t0.leafLevel = some ll)
    (hwf0 : wfb t0 = true) (hwf : wfb t1 = true) (hv : VoteOK t1 vote)
    (hlen : ids.length = cells.length) (hnd : ids.Nodup)
    (hproc : 1 ≤ cfg.nProc) (hcs : 1 ≤ cfg.chunkSize)
    (horder : order.Perm (List.range
      (chunks cells.length (effChunk cells.length cfg.nProc cfg.chunkSize)).length)) :
    ∃ out, mapPipeline t0 cfg vote ids cells order = .ok out ∧ out.length = cells.length ∧
      ∀ o ∈ out, ∃ path : Level → Node,
        (∀ cp ∈ pairsOf t0.hierarchy.reverse,
          t0.childToParent cp.1 (path cp.1) = some (path cp.2)) ∧
        ∀ l ∈ t0.hierarchy, path l ∈ t0.nodesAt l ∧
          ∃ e', o.levels.lookup l = some e' ∧ e'.assignment = path l ∧
            (l ≠ ll → e'.direct = some false ∧ e'.ru = none) := by
  have hnd0 := wfb_nodup_hierarchy hwf0
  rw [mapPipeline_spec t0 t1 cfg vote ids cells order hrun hwf hv hlen hnd hproc hcs horder]
  unfold backfill
  -- every element is a leaf-only record
  have hel : ∀ r ∈ (List.zipWith (mkRecord t1 vote) ids cells).map
      (markDirect t1.hierarchy),
      ∃ e, r.levels = [(ll, e)] ∧ e.assignment ∈ t0.nodesAt ll := by
    intro r hr
    obtain ⟨r0, hr0, rfl⟩ := List.mem_map.mp hr
    obtain ⟨id, c, rfl⟩ := mem_zipWith_exists _ _ _ _ hr0
    have hkeys := record_keys hwf hv id c
    rw [hfh] at hkeys
    generalize hR : markDirect [ll] (mkRecord t1 vote id c) = R at hkeys
    cases hlv : R.levels with
    | nil => rw [hlv] at hkeys; cases hkeys
    | cons a rest =>
      rw [hlv] at hkeys
      simp only [List.map_cons, List.cons.injEq, List.map_eq_nil_iff] at hkeys
      obtain ⟨ha, hrest⟩ := hkeys
      subst hrest
      obtain ⟨l, e⟩ := a
      simp only at ha
      subst ha
      refine ⟨e, by rw [hfh, hR, hlv], ?_⟩
      have hm : (l, e) ∈ (markDirect [l] (mkRecord t1 vote id c)).levels := by
        rw [hR, hlv]; simp
      obtain ⟨le0, hle0, h1, h2⟩ := markDirect_mem _ _ _ hm
      obtain ⟨w, hw, hp⟩ := walk_path hwf hv c
      simp only [mkRecord, walkD, hw] at hle0
      have := hp.2.1 le0 hle0
      rw [← h1, ← h2, hnodes1] at this
      exact this
  obtain ⟨out, hout, hlen', hpt⟩ := mapM_ok_of_forall
    (backfillPairs t0.dropCells (pairsOf t0.dropCells.hierarchy.reverse)) _
    (fun r hr => by
      obtain ⟨e, hre, hne⟩ := hel r hr
      obtain ⟨r', _, h, _⟩ := backfill_flatten_spec hwf0 hleaf r e hre hne
      exact ⟨r', h⟩)
  refine ⟨out, hout, by simp [hlen', hlen], ?_⟩
  intro o ho
  obtain ⟨i, hi, rfl⟩ := List.getElem_of_mem ho
  have hi' : i < ((List.zipWith (mkRecord t1 vote) ids cells).map
      (markDirect t1.hierarchy)).length := by omega
  have hf := hpt i _ out[i] (List.getElem?_eq_getElem hi') (List.getElem?_eq_getElem hi)
  obtain ⟨e, hre, hne⟩ := hel _ (List.getElem_mem hi')
  obtain ⟨r', path, h, _, _, _, hlink, hall⟩ := backfill_flatten_spec hwf0 hleaf _ e hre hne
  rw [hf] at h
  cases h
  exact ⟨path, hlink, hall⟩

/-- a flattened run never fails and backfills every cell to a root-to-leaf path
of the stored tree, coarser levels flagged as inferred -/
theorem mapPipeline_flatten_paths {κ} (t0 : RawTree) (cfg : Config) (vote : Oracle κ) (ll : Level)
    (ids : List CellId) (cells : List κ) (order : List Nat)
    (hdrop : cfg.dropLevel = none) (hflat : cfg.flatten = true)
    (hleaf : t0.leafLevel = some ll)
    (hwf0 : wfb t0 = true) (hwf : wfb t0.flatten = true) (hv : VoteOK t0.flatten vote)
    (hlen : ids.length = cells.length) (hnd : ids.Nodup)
    (hproc : 1 ≤ cfg.nProc) (hcs : 1 ≤ cfg.chunkSize)
    (horder : order.Perm (List.range
      (chunks cells.length (effChunk cells.length cfg.nProc cfg.chunkSize)).length)) :
    ∃ out, mapPipeline t0 cfg vote ids cells order = .ok out ∧ out.length = cells.length ∧
      ∀ o ∈ out, ∃ path : Level → Node,
        (∀ cp ∈ pairsOf t0.hierarchy.reverse,
          t0.childToParent cp.1 (path cp.1) = some (path cp.2)) ∧
        ∀ l ∈ t0.hierarchy, path l ∈ t0.nodesAt l ∧
          ∃ e', o.levels.lookup l = some e' ∧ e'.assignment = path l ∧
            (l ≠ ll → e'.direct = some false ∧ e'.ru = none) :=
  mapPipeline_leafonly_paths t0 t0.flatten cfg vote ll ids cells order
    (by simp [runTree, hdrop, hflat]) (by simp only [RawTree.flatten, hleaf])
    (flatten_nodesAt_leaf (wfb_nodup_hierarchy hwf0) hleaf) hleaf hwf0 hwf hv hlen hnd hproc hcs
    horder

/-! ### the structure of `drop_level`'s result -/

theorem lookup_setLevel_eq (levels : List (Level × LevelMap)) (l : Level) (m : LevelMap) :
    (RawTree.setLevel levels l m).lookup l = (levels.lookup l).map (fun _ => m) := by
  induction levels with
  | nil => rfl
  | cons a rest ih =>
    obtain ⟨k', v⟩ := a
    simp only [RawTree.setLevel, List.map_cons] at ih ⊢
    by_cases hk : k' = l
    · subst hk
      simp [List.lookup]
    · have hb : (k' == l) = false := by simpa using hk
      have hb' : (l == k') = false := by simpa using (fun h : l = k' => hk h.symm)
      simp only [hb, Bool.false_eq_true, if_false, List.lookup, hb']
      exact ih

/-- which level maps `drop_level` changes: none but the one of the level just
above the dropped one, whose child lists become the grand-children -/
theorem dropLevel_level {t t' : RawTree} {l : Level} (h : t.dropLevel l = .ok t')
    {pre post : List Level} (hs : t.hierarchy = pre ++ l :: post) (hnd : t.hierarchy.Nodup) :
    (∀ l', l' ≠ l → pre.getLast? ≠ some l' → t'.level l' = t.level l') ∧
    (∀ pl, pre.getLast? = some pl →
      t'.level pl = (t.level pl).map (fun nc => (nc.1, nc.2.flatMap (fun c => t.entry l c)))) := by
  have hidx : t.hierarchy.idxOf? l = some pre.length := by
    rw [hs]
    rw [hs] at hnd
    clear hs h
    induction pre with
    | nil => simp [List.idxOf?_cons]
    | cons a pre ih =>
      have h' := List.nodup_cons.mp hnd
      have hne : a ≠ l := by
        intro he; subst he; exact h'.1 (by simp)
      have hb : (a == l) = false := by simpa using hne
      simp only [List.cons_append, List.idxOf?_cons, hb, Bool.false_eq_true, if_false, ih h'.2]
      rfl
  unfold RawTree.dropLevel at h
  cases hraw : t.dropLevelRaw l with
  | error e => rw [hraw] at h; cases h
  | ok t1 =>
    rw [hraw] at h
    simp only at h
    have ht : t1 = t' := by
      cases hv : t1.validate with
      | error e => rw [hv] at h; cases h
      | ok u => rw [hv] at h; cases h; rfl
    subst ht
    unfold RawTree.dropLevelRaw at hraw
    split at hraw
    · cases hraw
    · simp only [RawTree.levelIdx, hidx] at hraw
      split at hraw
      · cases hraw
      · have hfilt : ∀ l', l' ≠ l →
            (t.levels.filter (fun x => x.1 != l)).lookup l' = t.levels.lookup l' := by
          intro l' hne
          apply lookup_filter_key
          intro v
          simpa using hne
        split at hraw
        · -- top level dropped
          rename_i h0
          have hp0 : pre = [] := by
            have : pre.length = 0 := by simpa using h0
            exact List.length_eq_zero_iff.mp this
          subst hp0
          cases hraw
          refine ⟨?_, by simp⟩
          intro l' hne _
          simp only [RawTree.level, hfilt l' hne]
        · rename_i h0
          cases hprev : t.hierarchy[pre.length - 1]? with
          | none => simp only [hprev] at hraw; cases hraw
          | some pl =>
            simp only [hprev] at hraw
            cases hraw
            -- pl is the last element of pre
            have hlast : pre.getLast? = some pl := by
              have hpos : 0 < pre.length := by
                have : pre.length ≠ 0 := by simpa using h0
                omega
              rw [hs] at hprev
              rw [List.getElem?_append_left (by omega)] at hprev
              rw [List.getLast?_eq_getElem?]; exact hprev
            have hpl_ne : pl ≠ l := by
              intro he
              rw [hs] at hnd
              have hm : pl ∈ pre := List.mem_of_getLast? hlast
              have := (List.nodup_append.mp hnd).2.2 pl hm l (by simp)
              exact this he
            refine ⟨?_, ?_⟩
            · intro l' hne hnl
              have hne' : l' ≠ pl := by
                intro he; subst he; exact hnl hlast
              simp only [RawTree.level, lookup_setLevel_ne _ _ _ _ hne', hfilt l' hne]
            · intro pl' hpl'
              rw [hlast] at hpl'
              cases hpl'
              simp only [RawTree.level, lookup_setLevel_eq, hfilt pl hpl_ne]
              cases t.levels.lookup pl <;> simp

/-! ### splits of a duplicate-free list -/

theorem split_unique {α} : ∀ (a a' : List α) (x : α) (r r' : List α),
    (a ++ x :: r).Nodup → a ++ x :: r = a' ++ x :: r' → a = a' ∧ r = r'
  | [], [], _, _, _, _, h => by simp at h; exact ⟨rfl, h⟩
  | [], y :: a', x, r, r', hn, h => by
    simp only [List.nil_append, List.cons_append, List.cons.injEq] at h
    obtain ⟨rfl, hr⟩ := h
    rw [List.nil_append, hr] at hn
    exact absurd (by simp) (List.nodup_cons.mp hn).1
  | y :: a, [], x, r, r', hn, h => by
    simp only [List.nil_append, List.cons_append, List.cons.injEq] at h
    obtain ⟨rfl, _⟩ := h
    exact absurd (by simp) (List.nodup_cons.mp hn).1
  | y :: a, z :: a', x, r, r', hn, h => by
    simp only [List.cons_append, List.cons.injEq] at h
    obtain ⟨rfl, h'⟩ := h
    obtain ⟨h1, h2⟩ := split_unique a a' x r r' (List.nodup_cons.mp hn).2 h'
    exact ⟨by rw [h1], h2⟩

/-- consecutive pairs of a list, in split form -/
theorem mem_pairsOf_iff (x y : Level) : ∀ (zs : List Level),
    (x, y) ∈ pairsOf zs ↔ ∃ a b, zs = a ++ x :: y :: b
  | [] => by simp [pairsOf]
  | [z] => by
    simp only [pairsOf, List.tail_cons, List.zip_nil_right, List.not_mem_nil, false_iff]
    rintro ⟨a, b, h⟩
    have := congrArg List.length h
    simp at this
    omega
  | z :: w :: rest => by
    have hpairs : pairsOf (z :: w :: rest) = (z, w) :: pairsOf (w :: rest) := by simp [pairsOf]
    rw [hpairs, List.mem_cons, mem_pairsOf_iff x y (w :: rest)]
    constructor
    · rintro (h | ⟨a, b, h⟩)
      · cases h; exact ⟨[], rest, rfl⟩
      · exact ⟨z :: a, b, by rw [h]; rfl⟩
    · rintro ⟨a, b, h⟩
      cases a with
      | nil =>
        simp only [List.nil_append, List.cons.injEq] at h
        obtain ⟨rfl, rfl, _⟩ := h
        exact Or.inl rfl
      | cons a0 a =>
        simp only [List.cons_append, List.cons.injEq] at h
        exact Or.inr ⟨a, b, h.2⟩

theorem mem_pairsOf_reverse_iff (c p : Level) (xs : List Level) :
    (c, p) ∈ pairsOf xs.reverse ↔ ∃ a b, xs = a ++ p :: c :: b := by
  rw [mem_pairsOf_iff]
  constructor
  · rintro ⟨a, b, h⟩
    refine ⟨b.reverse, a.reverse, ?_⟩
    have := congrArg List.reverse h
    simpa using this
  · rintro ⟨a, b, h⟩
    refine ⟨b.reverse, a.reverse, ?_⟩
    rw [h]; simp

/-! ### the walk, children form -/

/-- every assignment is a child (in the tree of the run) of the one above -/
def KidsLinked (t : RawTree) : Parent → List (Level × Node) → Prop
  | _, [] => True
  | p, (l, n) :: rest => n ∈ kidsD t p ∧ KidsLinked t (some (l, n)) rest

theorem walkFrom_kids {κ} {t : RawTree} {vote : Oracle κ} (hwf : wfb t = true)
    (hv : VoteOK t vote) (c : κ) :
    ∀ (ls pre : List Level) (p : Parent), t.hierarchy = pre ++ ls → At t pre p →
      ∀ es, walkFrom t vote c ls p = .ok es → KidsLinked t p (assignments es)
  | [], _, p, _, _, es, h => by
    simp only [walkFrom] at h; cases h; simp [assignments, KidsLinked]
  | cl :: rest, pre, p, hs, hat, es, h => by
    have hpair : ∃ plo, (plo, cl) ∈ levelPairs t ∧ p ∈ parentNodeList t plo := by
      rcases hat with ⟨rfl, rfl⟩ | ⟨pre', pl, n, rfl, rfl, hn⟩
      · refine ⟨none, ?_, by simp [parentNodeList]⟩
        unfold levelPairs; rw [hs]; simp
      · refine ⟨some pl, ?_, (mem_parentNodeList_some t pl _).mpr ⟨n, hn, rfl⟩⟩
        unfold levelPairs; rw [hs, List.append_assoc]
        exact mem_zip_of_split pl cl rest pre' none
    obtain ⟨plo, hmem, hp⟩ := hpair
    have facts := levelOK_facts t plo cl (wfb_levelOK hwf hmem)
    obtain ⟨kids, hkids, hkne, hsub⟩ := facts.kids p hp
    have hkne' : kids.isEmpty = false := by
      cases kids with
      | nil => exact absurd rfl hkne
      | cons a b => rfl
    have ha := voteFn_mem hv p cl kids c hkne
    have hnode : (voteFn t vote p cl kids c).assignment ∈ t.nodesAt cl := by
      obtain ⟨k, hk, he⟩ := (mem_parentNodeList_some t cl _).mp (hsub _ ha)
      cases he; exact hk
    simp only [walkFrom, hkids, hkne', Bool.false_eq_true, if_false] at h
    cases hrest : walkFrom t vote c rest (some (cl, (voteFn t vote p cl kids c).assignment)) with
    | error e => rw [hrest] at h; cases h
    | ok tl =>
      rw [hrest] at h
      cases h
      have ih := walkFrom_kids hwf hv c rest (pre ++ [cl])
        (some (cl, (voteFn t vote p cl kids c).assignment)) (by rw [hs]; simp)
        (Or.inr ⟨pre, cl, _, rfl, rfl, hnode⟩) tl hrest
      have hassign : (entryOf (voteFn t vote p cl kids c)).assignment =
          (voteFn t vote p cl kids c).assignment := by
        unfold entryOf; split <;> rfl
      simp only [assignments, List.map_cons, KidsLinked, hassign]
      exact ⟨by rw [kidsD_of_ok hkids]; exact ha, ih⟩

/-- `KidsLinked` in split / lookup form -/
theorem kidsLinked_split (t : RawTree) : ∀ (A : List (Level × Node)) (par : Parent),
    (A.map (·.1)).Nodup → KidsLinked t par A →
    (∀ l n, A.head? = some (l, n) → n ∈ kidsD t par) ∧
    ∀ a p c b, A.map (·.1) = a ++ p :: c :: b →
      ((A.lookup c).getD 0) ∈ kidsD t (some (p, (A.lookup p).getD 0))
  | [], _, _, _ => by
    refine ⟨by simp, ?_⟩
    intro a p c b h
    have := congrArg List.length h
    simp at this
  | (l, n) :: rest, par, hnd, hk => by
    simp only [KidsLinked] at hk
    simp only [List.map_cons] at hnd
    have hnd' := List.nodup_cons.mp hnd
    obtain ⟨ih1, ih2⟩ := kidsLinked_split t rest (some (l, n)) hnd'.2 hk.2
    refine ⟨by intro l' n' h; simp at h; obtain ⟨rfl, rfl⟩ := h; exact hk.1, ?_⟩
    intro a p c b h
    simp only [List.map_cons] at h
    cases a with
    | nil =>
      simp only [List.nil_append, List.cons.injEq] at h
      obtain ⟨rfl, hrest⟩ := h
      -- p = l is the head; c is the head of rest
      have hcl : c ≠ l := by
        intro he; subst he
        exact hnd'.1 (by rw [hrest]; simp)
      have hb : (c == l) = false := by simpa using hcl
      simp only [List.lookup, beq_self_eq_true, hb, Option.getD_some]
      cases rest with
      | nil => simp at hrest
      | cons r0 rest' =>
        obtain ⟨l0, n0⟩ := r0
        simp only [List.map_cons, List.cons.injEq] at hrest
        obtain ⟨rfl, _⟩ := hrest
        simp only [List.lookup, beq_self_eq_true, Option.getD_some]
        exact ih1 l0 n0 rfl
    | cons a0 a' =>
      simp only [List.cons_append, List.cons.injEq] at h
      obtain ⟨rfl, hrest⟩ := h
      have hpm : p ∈ rest.map (·.1) := by rw [hrest]; simp
      have hcm : c ∈ rest.map (·.1) := by rw [hrest]; simp
      have hp : (p == l) = false := by
        have : p ≠ l := fun he => hnd'.1 (he ▸ hpm)
        simpa using this
      have hc : (c == l) = false := by
        have : c ≠ l := fun he => hnd'.1 (he ▸ hcm)
        simpa using this
      simp only [List.lookup, hp, hc]
      exact ih2 a' p c b hrest

/-! ### drop_level: a path of the reduced tree, completed, is a path of the stored tree -/

theorem kidsD_eq_entry {t : RawTree} {l : Level} (hk : (t.nodesAt l).Nodup) {m : Node}
    (hm : m ∈ t.nodesAt l) : kidsD t (some (l, m)) = t.entry l m := by
  obtain ⟨⟨m0, cs⟩, hmem, he⟩ := List.mem_map.mp hm
  simp only at he; subst he
  rw [kidsD_of_mem_level hk hmem]
  simp [RawTree.entry, lookup_of_mem_nodup _ m0 cs hk hmem]

theorem drop_nodesAt {t t' : RawTree} {l : Level} (h : t.dropLevel l = .ok t')
    {pre post : List Level} (hs : t.hierarchy = pre ++ l :: post) (hnd : t.hierarchy.Nodup)
    {l' : Level} (hne : l' ≠ l) : t'.nodesAt l' = t.nodesAt l' := by
  obtain ⟨h1, h2⟩ := dropLevel_level h hs hnd
  by_cases hp : pre.getLast? = some l'
  · simp only [RawTree.nodesAt, h2 l' hp, List.map_map]
    rfl
  · simp only [RawTree.nodesAt, h1 l' hne hp]

theorem drop_kids_same {t t' : RawTree} {l : Level} (hwf : wfb t = true)
    (h : t.dropLevel l = .ok t')
    {pre post : List Level} (hs : t.hierarchy = pre ++ l :: post)
    {l' : Level} (hne : l' ≠ l) (hnl : pre.getLast? ≠ some l') (hl' : l' ∈ t.hierarchy)
    {p : Node} (hp : p ∈ t.nodesAt l') : kidsD t' (some (l', p)) = kidsD t (some (l', p)) := by
  have hnd := wfb_nodup_hierarchy hwf
  have hk := wfb_nodup_nodesAt hwf hl'
  obtain ⟨h1, _⟩ := dropLevel_level h hs hnd
  obtain ⟨⟨p0, cs⟩, hmem, he⟩ := List.mem_map.mp hp
  simp only at he; subst he
  have hmem' : (p0, cs) ∈ t'.level l' := by rw [h1 l' hne hnl]; exact hmem
  have hk' : (t'.nodesAt l').Nodup := by rw [drop_nodesAt h hs hnd hne]; exact hk
  rw [kidsD_of_mem_level hk' hmem', kidsD_of_mem_level hk hmem]

theorem drop_kids_parent {t t' : RawTree} {l : Level} (hwf : wfb t = true)
    (h : t.dropLevel l = .ok t')
    {pre post : List Level} (hs : t.hierarchy = pre ++ l :: post)
    {pl : Level} (hpl : pre.getLast? = some pl)
    {p : Node} (hp : p ∈ t.nodesAt pl) :
    kidsD t' (some (pl, p)) = (kidsD t (some (pl, p))).flatMap (fun c => t.entry l c) := by
  have hnd := wfb_nodup_hierarchy hwf
  have hplm : pl ∈ pre := List.mem_of_getLast? hpl
  have hpl_h : pl ∈ t.hierarchy := by rw [hs]; simp [hplm]
  have hne : pl ≠ l := by
    intro he
    rw [hs] at hnd
    exact (List.nodup_append.mp hnd).2.2 pl hplm l (by simp) he
  have hk := wfb_nodup_nodesAt hwf hpl_h
  obtain ⟨_, h2⟩ := dropLevel_level h hs hnd
  obtain ⟨⟨p0, cs⟩, hmem, he⟩ := List.mem_map.mp hp
  simp only at he; subst he
  have hmem' : (p0, cs.flatMap (fun c => t.entry l c)) ∈ t'.level pl := by
    rw [h2 pl hpl]
    exact List.mem_map.mpr ⟨(p0, cs), hmem, rfl⟩
  have hk' : (t'.nodesAt pl).Nodup := by rw [drop_nodesAt h hs hnd hne]; exact hk
  rw [kidsD_of_mem_level hk' hmem', kidsD_of_mem_level hk hmem]

/-- the path of the stored tree obtained from the assignments `A` voted on the
reduced tree: the dropped level gets the parent of the finer assignment -/
def dropPath (t0 : RawTree) (l cl : Level) (A : List (Level × Node)) (x : Level) : Node :=
  if x = l then (t0.childToParent cl ((A.lookup cl).getD 0)).getD 0 else (A.lookup x).getD 0

theorem drop_path_links {t0 t' : RawTree} {l cl : Level} {pre post : List Level}
    (hwf0 : wfb t0 = true) (hdrop : t0.dropLevel l = .ok t')
    (hs : t0.hierarchy = pre ++ l :: cl :: post)
    (A : List (Level × Node)) (hkeys : A.map (·.1) = t'.hierarchy)
    (hkl : KidsLinked t' none A) (hnodes : ∀ xn ∈ A, xn.2 ∈ t'.nodesAt xn.1) :
    (∀ cp ∈ pairsOf t0.hierarchy.reverse,
      t0.childToParent cp.1 (dropPath t0 l cl A cp.1) = some (dropPath t0 l cl A cp.2)) ∧
    ∀ x ∈ t0.hierarchy, dropPath t0 l cl A x ∈ t0.nodesAt x := by
  have hnd := wfb_nodup_hierarchy hwf0
  obtain ⟨_, hh'⟩ := dropLevel_hierarchy hdrop
  have hl_pre : l ∉ pre := by
    intro hm
    rw [hs] at hnd
    exact (List.nodup_append.mp hnd).2.2 l hm l (by simp) rfl
  have hh'' : t'.hierarchy = pre ++ cl :: post := by
    rw [hh', hs, List.erase_append_right _ hl_pre, List.erase_cons_head]
  have hcl_ne : cl ≠ l := by
    intro he
    rw [hs] at hnd
    have := (List.nodup_append.mp hnd).2.1
    rw [he] at this
    exact (List.nodup_cons.mp this).1 (by simp)
  have hnd' : (A.map (·.1)).Nodup := by rw [hkeys, hh']; exact hnd.erase l
  obtain ⟨_, hK⟩ := kidsLinked_split t' A none hnd' hkl
  rw [hkeys] at hK
  -- nodes, in the stored tree
  have hN : ∀ x, x ∈ t'.hierarchy → (A.lookup x).getD 0 ∈ t0.nodesAt x := by
    intro x hx
    have hxl : x ≠ l := by
      intro he; rw [he, hh'] at hx; exact hnd.not_mem_erase hx
    have hsome := lookup_isSome_of_keys A x (by rw [hkeys]; exact hx)
    cases hlk : A.lookup x with
    | none => rw [hlk] at hsome; cases hsome
    | some n =>
      have := hnodes (x, n) (mem_of_lookup _ _ _ hlk)
      rw [drop_nodesAt hdrop hs hnd hxl] at this
      simpa using this
  have hcl_mem : cl ∈ t'.hierarchy := by rw [hh'']; simp
  obtain ⟨m, hm_node, hm⟩ := has_parent hwf0 hs (hN cl hcl_mem)
  have hpath_l : dropPath t0 l cl A l = m := by simp [dropPath, hm]
  have hpath_ne : ∀ x, x ≠ l → dropPath t0 l cl A x = (A.lookup x).getD 0 := by
    intro x hx; simp [dropPath, hx]
  have hmem_t' : ∀ x, x ≠ l → x ∈ t0.hierarchy → x ∈ t'.hierarchy := by
    intro x hx hm'; rw [hh']; exact hnd.mem_erase_iff.mpr ⟨hx, hm'⟩
  refine ⟨?_, ?_⟩
  · intro cp hmem
    obtain ⟨c, p⟩ := cp
    obtain ⟨a, b, hsplit⟩ := (mem_pairsOf_reverse_iff c p t0.hierarchy).mp hmem
    simp only
    by_cases hc : c = l
    · -- (l, p): p is the level just above the dropped one
      subst hc
      have hp_ne : p ≠ c := by
        intro he; subst he
        rw [hsplit] at hnd
        have := (List.nodup_append.mp hnd).2.1
        exact (List.nodup_cons.mp this).1 (by simp)
      have heq : (a ++ [p]) ++ c :: b = pre ++ c :: (cl :: post) := by
        rw [← hs, hsplit]; simp
      obtain ⟨hpre, hb⟩ := split_unique (a ++ [p]) pre c b (cl :: post)
        (by rw [heq, ← hs]; exact hnd) heq
      have hlast : pre.getLast? = some p := by rw [← hpre]; simp
      have hp_t' : p ∈ t'.hierarchy := hmem_t' p hp_ne (by rw [hsplit]; simp)
      have hsplit' : t'.hierarchy = a ++ p :: cl :: post := by rw [hh'', ← hpre]; simp
      have hk := hK a p cl post hsplit'
      rw [drop_kids_parent hwf0 hdrop hs hlast (hN p hp_t')] at hk
      obtain ⟨m', hm'k, hm'e⟩ := List.mem_flatMap.mp hk
      -- m' is a node of level c
      have hpair : (some p, c) ∈ levelPairs t0 := by
        unfold levelPairs; rw [hsplit]; exact mem_zip_of_split p c b a none
      have facts := levelOK_facts t0 (some p) c (wfb_levelOK hwf0 hpair)
      obtain ⟨kids, hkids, _, hsub⟩ := facts.kids (some (p, (A.lookup p).getD 0))
        ((mem_parentNodeList_some t0 p _).mpr ⟨_, hN p hp_t', rfl⟩)
      rw [kidsD_of_ok hkids] at hm'k
      have hm'node : m' ∈ t0.nodesAt c := by
        obtain ⟨k, hk', he⟩ := (mem_parentNodeList_some t0 c _).mp (hsub m' hm'k)
        cases he; exact hk'
      have hc_h : c ∈ t0.hierarchy := by rw [hs]; simp
      have hm'e' : (A.lookup cl).getD 0 ∈ kidsD t0 (some (c, m')) := by
        rw [kidsD_eq_entry (wfb_nodup_nodesAt hwf0 hc_h) hm'node]; exact hm'e
      have h1 := childToParent_of_kid hwf0 hs hm'node hm'e'
      rw [hm] at h1
      cases h1
      rw [hpath_l, hpath_ne p hp_ne]
      exact childToParent_of_kid hwf0 hsplit (hN p hp_t') (by rw [kidsD_of_ok hkids]; exact hm'k)
    · by_cases hp : p = l
      · -- (cl, l)
        subst hp
        obtain ⟨_, hb⟩ := split_unique a pre p (c :: b) (cl :: post)
          (by rw [← hsplit]; exact hnd) (by rw [← hsplit, hs])
        have hccl : c = cl := by cases hb; rfl
        subst hccl
        rw [hpath_l, hpath_ne c hc]
        exact hm
      · -- neither is the dropped level
        have hc_t' : c ∈ t'.hierarchy := hmem_t' c hc (by rw [hsplit]; simp)
        have hp_t' : p ∈ t'.hierarchy := hmem_t' p hp (by rw [hsplit]; simp)
        have hsplit' : ∃ a' b', t'.hierarchy = a' ++ p :: c :: b' := by
          by_cases hla : l ∈ a
          · exact ⟨a.erase l, b, by rw [hh', hsplit, List.erase_append_left _ hla]⟩
          · refine ⟨a, b.erase l, ?_⟩
            rw [hh', hsplit, List.erase_append_right _ hla]
            have h1 : (p == l) = false := by simpa using hp
            have h2 : (c == l) = false := by simpa using hc
            simp [List.erase_cons, h1, h2]
        obtain ⟨a', b', hs'⟩ := hsplit'
        have hk := hK a' p c b' hs'
        have hnl : pre.getLast? ≠ some p := by
          intro hlast
          obtain ⟨pre', hpre'⟩ := List.getLast?_eq_some_iff.mp hlast
          have e1 : t0.hierarchy = pre' ++ p :: (l :: cl :: post) := by rw [hs, hpre']; simp
          obtain ⟨_, hb⟩ := split_unique a pre' p (c :: b) (l :: cl :: post)
            (by rw [← hsplit]; exact hnd) (by rw [← hsplit, e1])
          cases hb
          exact hc rfl
        rw [drop_kids_same hwf0 hdrop hs hp hnl (by rw [hsplit]; simp) (hN p hp_t')] at hk
        rw [hpath_ne c hc, hpath_ne p hp]
        exact childToParent_of_kid hwf0 hsplit (hN p hp_t') hk
  · intro x hx
    by_cases hxl : x = l
    · subst hxl; rw [hpath_l]; exact hm_node
    · rw [hpath_ne x hxl]; exact hN x (hmem_t' x hxl hx)

theorem lookup_map_snd {β γ} (f : β → γ) (k : Nat) : ∀ (m : List (Nat × β)),
    (m.map (fun le => (le.1, f le.2))).lookup k = (m.lookup k).map f
  | [] => rfl
  | (k', v) :: m => by
    simp only [List.map_cons, List.lookup]
    split
    · rfl
    · exact lookup_map_snd f k m

theorem lookup_map_keyed {β γ} (g : Nat → β → γ) (k : Nat) : ∀ (m : List (Nat × β)),
    (m.map (fun le => (le.1, g le.1 le.2))).lookup k = (m.lookup k).map (g k)
  | [] => rfl
  | (k', v) :: m => by
    simp only [List.map_cons, List.lookup]
    by_cases hk : k = k'
    · subst hk; simp
    · have hb : (k == k') = false := by simpa using hk
      simp only [hb]
      exact lookup_map_keyed g k m

/-- what `markDirect` does to the dict of level `k` -/
def flagDirect (h : List Level) (k : Level) (e : Entry) : Entry :=
  if h.contains k then { e with direct := some true } else e

theorem markDirect_levels (h : List Level) (r : Record) :
    (markDirect h r).levels = r.levels.map (fun le => (le.1, flagDirect h le.1 le.2)) := by
  simp only [markDirect]
  apply List.map_congr_left
  intro le _
  obtain ⟨k, e⟩ := le
  simp only [flagDirect]
  by_cases hc : h.contains k = true
  · simp only [hc, if_true]
  · have : h.contains k = false := by simpa using hc
    simp only [this, Bool.false_eq_true, if_false]

theorem markDirect_lookup (h : List Level) (r : Record) (x : Level) :
    (markDirect h r).levels.lookup x = (r.levels.lookup x).map (flagDirect h x) := by
  rw [markDirect_levels]
  exact lookup_map_keyed (flagDirect h) x r.levels

theorem assignments_markDirect (h : List Level) (r : Record) :
    assignments (markDirect h r).levels = assignments r.levels := by
  simp only [assignments, markDirect, List.map_map]
  apply List.map_congr_left
  intro le _
  obtain ⟨l, e⟩ := le
  simp only [Function.comp]
  split <;> rfl

/-- a run with a level dropped never fails (given the reduced tree is
well-formed) and backfills every cell to a root-to-leaf path of the stored
tree: voted levels flagged `True`, the dropped level inferred and flagged
`False` -/
theorem mapPipeline_drop_paths {κ} (t0 t' : RawTree) (cfg : Config) (vote : Oracle κ)
    (l cl : Level) (pre post : List Level)
    (ids : List CellId) (cells : List κ) (order : List Nat)
    (hcfg : cfg.dropLevel = some l) (hflat : cfg.flatten = false)
    (hdrop : t0.dropLevel l = .ok t') (hs : t0.hierarchy = pre ++ l :: cl :: post)
    (hwf0 : wfb t0 = true) (hwf : wfb t' = true) (hv : VoteOK t' vote)
    (hlen : ids.length = cells.length) (hnd : ids.Nodup)
    (hproc : 1 ≤ cfg.nProc) (hcs : 1 ≤ cfg.chunkSize)
    (horder : order.Perm (List.range
      (chunks cells.length (effChunk cells.length cfg.nProc cfg.chunkSize)).length)) :
    ∃ out, mapPipeline t0 cfg vote ids cells order = .ok out ∧ out.length = cells.length ∧
      ∀ o ∈ out, ∃ path : Level → Node,
        (∀ cp ∈ pairsOf t0.hierarchy.reverse,
          t0.childToParent cp.1 (path cp.1) = some (path cp.2)) ∧
        ∀ x ∈ t0.hierarchy, path x ∈ t0.nodesAt x ∧
          ∃ e', o.levels.lookup x = some e' ∧ e'.assignment = path x ∧
            (x = l → e'.direct = some false ∧ e'.ru = none) ∧
            (x ≠ l → e'.direct = some true) := by
  have hnd0 := wfb_nodup_hierarchy hwf0
  obtain ⟨hl_mem, hh'⟩ := dropLevel_hierarchy hdrop
  have hrun : runTree t0 cfg = .ok t' := by
    have : t0.hierarchy.contains l = true := by simpa using hl_mem
    simp only [runTree, hcfg, this, if_true, hdrop, hflat, Bool.false_eq_true, if_false]
  rw [mapPipeline_spec t0 t' cfg vote ids cells order hrun hwf hv hlen hnd hproc hcs horder]
  unfold backfill
  have hdh := dropCells_hierarchy t0
  have hndr := nodup_reverse hnd0
  have hl_not : l ∉ t'.hierarchy := by rw [hh']; exact hnd0.not_mem_erase
  have hmem_t' : ∀ x, x ≠ l → x ∈ t0.hierarchy → x ∈ t'.hierarchy := by
    intro x hx hm'; rw [hh']; exact hnd0.mem_erase_iff.mpr ⟨hx, hm'⟩
  have hcl_pair : (cl, l) ∈ pairsOf t0.hierarchy.reverse :=
    (mem_pairsOf_reverse_iff cl l t0.hierarchy).mpr ⟨pre, post, hs⟩
  -- what backfilling does to one record
  have hone : ∀ r ∈ (List.zipWith (mkRecord t' vote) ids cells).map (markDirect t'.hierarchy),
      ∃ r', backfillPairs t0.dropCells (pairsOf t0.dropCells.hierarchy.reverse) r = .ok r' ∧
        ∃ path : Level → Node,
          (∀ cp ∈ pairsOf t0.hierarchy.reverse,
            t0.childToParent cp.1 (path cp.1) = some (path cp.2)) ∧
          ∀ x ∈ t0.hierarchy, path x ∈ t0.nodesAt x ∧
            ∃ e', r'.levels.lookup x = some e' ∧ e'.assignment = path x ∧
              (x = l → e'.direct = some false ∧ e'.ru = none) ∧
              (x ≠ l → e'.direct = some true) := by
    intro r hr
    obtain ⟨r0, hr0, rfl⟩ := List.mem_map.mp hr
    obtain ⟨id, c, rfl⟩ := mem_zipWith_exists _ _ _ _ hr0
    have hkeys := record_keys hwf hv id c
    -- the walk
    obtain ⟨es, hes, hfst, hnodes, _⟩ :=
      walkFrom_path hwf hv c t'.hierarchy [] none (by simp) (Or.inl ⟨rfl, rfl⟩)
    have hkl := walkFrom_kids hwf hv c t'.hierarchy [] none (by simp) (Or.inl ⟨rfl, rfl⟩) es hes
    have hwalk : walkD t' vote c = finishCell es := by simp [walkD, walk, hes]
    generalize hR : markDirect t'.hierarchy (mkRecord t' vote id c) = R at hkeys
    have hA : assignments R.levels = assignments es := by
      rw [← hR, assignments_markDirect]
      simp only [mkRecord, hwalk, assignments_finishCell]
    have hAkeys : (assignments R.levels).map (·.1) = t'.hierarchy := by
      rw [← hkeys]; simp [assignments]
    have hAnodes : ∀ xn ∈ assignments R.levels, xn.2 ∈ t'.nodesAt xn.1 := by
      intro xn hxn
      rw [hA] at hxn
      obtain ⟨le, hle, rfl⟩ := List.mem_map.mp hxn
      exact hnodes le hle
    obtain ⟨hlinks, hpnodes⟩ := drop_path_links hwf0 hdrop hs (assignments R.levels) hAkeys
      (by rw [hA]; exact hkl) hAnodes
    have hlk : ∀ x, (assignments R.levels).lookup x = (R.levels.lookup x).map (·.assignment) := by
      intro x; exact lookup_map_snd (fun e : Entry => e.assignment) x R.levels
    have hpres : ∀ x, x ∈ t'.hierarchy → (R.levels.lookup x).isSome := by
      intro x hx; exact lookup_isSome_of_keys _ _ (by rw [hkeys]; exact hx)
    have habs : ∀ x, x ∉ t'.hierarchy → R.levels.lookup x = none := by
      intro x hx; exact lookup_none_of_not_keys _ _ (by rw [hkeys]; exact hx)
    obtain ⟨r', h1, _, h3, h4, _, h6⟩ := backfillPairs_spec t0.dropCells
      (dropPath t0 l cl (assignments R.levels)) t0.hierarchy.reverse R hndr
      (fun cp hm => by rw [childToParent_dropCells hnd0]; exact hlinks cp hm)
      (fun x e hx => by
        have hxm : x ∈ t'.hierarchy := by
          by_cases hm : x ∈ t'.hierarchy
          · exact hm
          · rw [habs x hm] at hx; cases hx
        have hxl : x ≠ l := fun he => hl_not (he ▸ hxm)
        simp [dropPath, hxl, hlk, hx])
      (fun x hx => by
        apply hpres
        have hxm : x ∈ t0.hierarchy := List.mem_reverse.mp (List.mem_of_mem_head? hx)
        apply hmem_t' x _ hxm
        intro he
        subst he
        have hl_tail : x ∈ t0.hierarchy.reverse.tail := by
          have : (cl, x) ∈ t0.hierarchy.reverse.zip t0.hierarchy.reverse.tail := hcl_pair
          exact (List.of_mem_zip this).2
        cases hrev : t0.hierarchy.reverse with
        | nil => rw [hrev] at hx; cases hx
        | cons y ys =>
          rw [hrev] at hx hl_tail hndr
          simp only [List.head?_cons, Option.some.injEq] at hx
          subst hx
          exact (List.nodup_cons.mp hndr).1 hl_tail)
    refine ⟨r', by rw [hdh]; exact h1, dropPath t0 l cl (assignments R.levels), hlinks, ?_⟩
    intro x hx
    obtain ⟨e', he', ha'⟩ := h3 x (List.mem_reverse.mpr hx)
    refine ⟨hpnodes x hx, e', he', ha', ?_, ?_⟩
    · intro hxl
      subst hxl
      obtain ⟨ec, _, hpe⟩ := h6 (cl, x) hcl_pair (habs x hl_not)
      simp only at hpe
      rw [he'] at hpe
      cases hpe
      exact ⟨rfl, rfl⟩
    · intro hxl
      have hxm := hmem_t' x hxl hx
      have hsome := hpres x hxm
      cases hRx : R.levels.lookup x with
      | none => rw [hRx] at hsome; cases hsome
      | some e =>
        have := h4 x e hRx
        rw [he'] at this
        cases this
        -- e comes out of markDirect with x in the run's hierarchy
        have hmd := markDirect_lookup t'.hierarchy (mkRecord t' vote id c) x
        rw [hR, hRx] at hmd
        have hc : t'.hierarchy.contains x = true := by simpa using hxm
        cases hl0 : (mkRecord t' vote id c).levels.lookup x with
        | none => rw [hl0] at hmd; cases hmd
        | some e0 =>
          rw [hl0] at hmd
          simp only [Option.map_some, Option.some.injEq, flagDirect, hc, if_true] at hmd
          rw [hmd]
  obtain ⟨out, hout, hlen', hpt⟩ := mapM_ok_of_forall
    (backfillPairs t0.dropCells (pairsOf t0.dropCells.hierarchy.reverse)) _
    (fun r hr => by obtain ⟨r', h, _⟩ := hone r hr; exact ⟨r', h⟩)
  refine ⟨out, hout, by simp [hlen', hlen], ?_⟩
  intro o ho
  obtain ⟨i, hi, rfl⟩ := List.getElem_of_mem ho
  have hi' : i < ((List.zipWith (mkRecord t' vote) ids cells).map
      (markDirect t'.hierarchy)).length := by omega
  have hf := hpt i _ out[i] (List.getElem?_eq_getElem hi') (List.getElem?_eq_getElem hi)
  obtain ⟨r', h, hrest⟩ := hone _ (List.getElem_mem hi')
  rw [hf] at h
  cases h
  exact hrest

/-! ### flattening a well-formed tree gives a well-formed tree -/

theorem nodup_hasDup_false : ∀ (xs : List Nat), xs.Nodup → hasDup xs = false
  | [], _ => rfl
  | x :: xs, h => by
    have h' := List.nodup_cons.mp h
    simp only [hasDup, Bool.or_eq_false_iff]
    exact ⟨by simpa using h'.1, nodup_hasDup_false xs h'.2⟩

/-- every level of a well-formed tree has a node -/
theorem chain_nonempty (t : RawTree) : ∀ (ls : List Level) (pl : Option Level),
    ChainOK t pl ls → parentNodeList t pl ≠ [] → ∀ l ∈ ls, t.nodesAt l ≠ []
  | [], _, _, _, _, h => by cases h
  | cl :: rest, pl, hc, hne, l, hl => by
    obtain ⟨facts, hrest⟩ := hc
    have hcl : t.nodesAt cl ≠ [] := by
      cases hps : parentNodeList t pl with
      | nil => exact absurd hps hne
      | cons p ps =>
        obtain ⟨kids, _, hkne, hsub⟩ := facts.kids p (by rw [hps]; simp)
        cases kids with
        | nil => exact absurd rfl hkne
        | cons k ks =>
          obtain ⟨k', hk', _⟩ := (mem_parentNodeList_some t cl _).mp (hsub k (by simp))
          intro he; rw [he] at hk'; cases hk'
    rcases List.mem_cons.mp hl with h | h
    · subst h; exact hcl
    · apply chain_nonempty t rest (some cl) hrest _ l h
      intro he
      simp only [parentNodeList, List.map_eq_nil_iff] at he
      cases hn : t.nodesAt cl with
      | nil => exact hcl hn
      | cons a as =>
        have : a ∈ sortNat (t.nodesAt cl) := (mem_sortNat a _).mpr (by rw [hn]; simp)
        rw [he] at this; cases this

theorem wfb_nodesAt_nonempty {t : RawTree} (hwf : wfb t = true) {l : Level} (hl : l ∈ t.hierarchy) :
    t.nodesAt l ≠ [] := by
  have hwf' := hwf
  simp only [wfb, Bool.and_eq_true, Bool.not_eq_true'] at hwf'
  exact chain_nonempty t t.hierarchy none (chainOK_of_all t t.hierarchy none hwf'.2)
    (by simp [parentNodeList]) l hl

theorem wfb_flatten {t : RawTree} (hwf : wfb t = true) {ll : Level} (hleaf : t.leafLevel = some ll) :
    wfb t.flatten = true := by
  have hnd := wfb_nodup_hierarchy hwf
  have hll : ll ∈ t.hierarchy := List.mem_of_getLast? hleaf
  have hfh : t.flatten.hierarchy = [ll] := by simp only [RawTree.flatten, hleaf]
  have hnodes := flatten_nodesAt_leaf hnd hleaf
  have hk := wfb_nodup_nodesAt hwf hll
  have hne := wfb_nodesAt_nonempty hwf hll
  have hchildren : t.flatten.children none = .ok (t.nodesAt ll) := by
    simp only [RawTree.children, hfh, List.head?_cons, hnodes]
  have hkD : kidsD t.flatten none = t.nodesAt ll := by simp [kidsD, hchildren]
  have hemp : (t.nodesAt ll).isEmpty = false := by
    cases h : t.nodesAt ll with
    | nil => exact absurd h hne
    | cons a b => rfl
  simp only [wfb, hfh, levelPairs, List.map_cons, List.map_nil, List.zip_cons_cons, List.zip_nil_right,
    List.all_cons, List.all_nil, Bool.and_true, levelOK, parentNodeList, hnodes, hchildren, hkD,
    List.any_cons, List.any_nil, Bool.or_false, hemp, Bool.not_false, Bool.true_and,
    nodup_hasDup_false _ hk, beq_self_eq_true, Bool.true_or, Bool.and_eq_true, List.all_eq_true,
    decide_eq_true_eq]
  refine ⟨by simp [hasDup], ⟨fun c hc => by simpa using hc, fun c hc => by simpa using hc⟩⟩

/-! ### `drop_level` of a well-formed tree gives a well-formed tree -/

theorem children_of_mem_level {t : RawTree} {pl : Level} (hk : (t.nodesAt pl).Nodup)
    {p : Node} {cs : List Nat} (hm : (p, cs) ∈ t.level pl) : t.children (some (pl, p)) = .ok cs := by
  have hlook : (t.level pl).lookup p = some cs := lookup_of_mem_nodup _ p cs hk hm
  have hp : p ∈ t.nodesAt pl := List.mem_map.mpr ⟨(p, cs), hm, rfl⟩
  have hlev : (t.levels.map (·.1)).contains pl = true := by
    cases hl : t.levels.lookup pl with
    | none => simp [RawTree.level, hl] at hm
    | some m =>
      have := mem_of_lookup _ _ _ hl
      exact List.contains_iff_mem.mpr (List.mem_map.mpr ⟨(pl, m), this, rfl⟩)
  have hp' : (t.nodesAt pl).contains p = true := List.contains_iff_mem.mpr hp
  simp only [RawTree.children, hlev, hp', RawTree.entry, hlook, Bool.not_true,
    Bool.false_eq_true, if_false, Option.getD_some]

/-- converse of `levelOK_facts` -/
theorem levelOK_of_facts (t : RawTree) (pl : Option Level) (cl : Level)
    (hnd : (t.nodesAt cl).Nodup)
    (hkids : ∀ p ∈ parentNodeList t pl, ∃ kids, t.children p = .ok kids ∧ kids ≠ [] ∧
      ∀ c ∈ kids, c ∈ t.nodesAt cl)
    (hdisj : ∀ p ∈ parentNodeList t pl, ∀ p' ∈ parentNodeList t pl, p ≠ p' →
      ∀ c, c ∈ kidsD t p → c ∉ kidsD t p')
    (hsurj : ∀ c ∈ t.nodesAt cl, ∃ p ∈ parentNodeList t pl, c ∈ kidsD t p) :
    levelOK t pl cl = true := by
  simp only [levelOK, Bool.and_eq_true, List.all_eq_true, Bool.not_eq_true',
    Bool.or_eq_true, beq_iff_eq, List.any_eq_true, List.contains_iff_mem]
  refine ⟨⟨nodup_hasDup_false _ hnd, hsurj⟩, ?_⟩
  intro p hp
  obtain ⟨kids, hk, hne, hsub⟩ := hkids p hp
  refine ⟨?_, ?_⟩
  · rw [hk]
    simp only [Bool.and_eq_true, Bool.not_eq_true', List.all_eq_true, List.contains_iff_mem]
    refine ⟨?_, hsub⟩
    cases kids with
    | nil => exact absurd rfl hne
    | cons a b => rfl
  · intro p' hp'
    by_cases he : p = p'
    · exact Or.inl he
    · right
      simp only [disjointB, List.all_eq_true, Bool.not_eq_true']
      intro c hc
      have := hdisj p hp p' hp' he c hc
      simpa using this

/-- pairs of `levelPairs`, in split form -/
theorem mem_levelPairs_iff (t : RawTree) (plo : Option Level) (c : Level) :
    (plo, c) ∈ levelPairs t ↔
      (plo = none ∧ t.hierarchy.head? = some c) ∨
      ∃ p a b, plo = some p ∧ t.hierarchy = a ++ p :: c :: b := by
  unfold levelPairs
  generalize t.hierarchy = h
  cases h with
  | nil => simp
  | cons x xs =>
    simp only [List.map_cons, List.zip_cons_cons, List.mem_cons, Prod.mk.injEq, List.head?_cons,
      Option.some.injEq]
    constructor
    · rintro (⟨rfl, rfl⟩ | hm)
      · exact Or.inl ⟨rfl, rfl⟩
      · right
        -- hm : (plo, c) ∈ (some x :: xs.map some).zip xs
        clear t
        induction xs generalizing x with
        | nil => simp at hm
        | cons y ys ih =>
          simp only [List.map_cons, List.zip_cons_cons, List.mem_cons, Prod.mk.injEq] at hm
          rcases hm with ⟨rfl, rfl⟩ | hm
          · exact ⟨x, [], ys, rfl, rfl⟩
          · obtain ⟨p, a, b, hp, hs⟩ := ih y hm
            exact ⟨p, x :: a, b, hp, by rw [hs]; rfl⟩
    · rintro (⟨rfl, h⟩ | ⟨p, a, b, rfl, hs⟩)
      · exact Or.inl ⟨rfl, h.symm⟩
      · right
        clear t
        induction a generalizing x xs with
        | nil =>
          simp only [List.nil_append, List.cons.injEq] at hs
          obtain ⟨rfl, rfl⟩ := hs
          simp
        | cons a0 a ih =>
          simp only [List.cons_append, List.cons.injEq] at hs
          obtain ⟨rfl, rfl⟩ := hs
          cases a with
          | nil => simp
          | cons a1 a' =>
            simp only [List.cons_append, List.map_cons, List.zip_cons_cons, List.mem_cons]
            right
            have := ih a1 (a' ++ p :: c :: b) rfl
            simpa using this

theorem facts_kidsD {t : RawTree} {p c : Level} (facts : LevelFacts t (some p) c) {n : Node}
    (hn : n ∈ t.nodesAt p) :
    kidsD t (some (p, n)) ≠ [] ∧ ∀ c' ∈ kidsD t (some (p, n)), c' ∈ t.nodesAt c := by
  obtain ⟨kids, hk, hne, hsub⟩ := facts.kids (some (p, n))
    ((mem_parentNodeList_some t p _).mpr ⟨n, hn, rfl⟩)
  rw [kidsD_of_ok hk]
  refine ⟨hne, ?_⟩
  intro c' hc'
  obtain ⟨k, hk', he⟩ := (mem_parentNodeList_some t c _).mp (hsub c' hc')
  cases he; exact hk'

theorem facts_of_split {t : RawTree} (hwf : wfb t = true) {a b : List Level} {p c : Level}
    (hs : t.hierarchy = a ++ p :: c :: b) : LevelFacts t (some p) c := by
  have hpair : (some p, c) ∈ levelPairs t := by
    unfold levelPairs; rw [hs]; exact mem_zip_of_split p c b a none
  exact levelOK_facts t (some p) c (wfb_levelOK hwf hpair)

theorem wfb_dropLevel {t t' : RawTree} {l cl : Level} {pre post : List Level}
    (hwf : wfb t = true) (h : t.dropLevel l = .ok t')
    (hs : t.hierarchy = pre ++ l :: cl :: post) : wfb t' = true := by
  have hnd := wfb_nodup_hierarchy hwf
  obtain ⟨_, hh'⟩ := dropLevel_hierarchy h
  have hl_pre : l ∉ pre := by
    intro hm
    rw [hs] at hnd
    exact (List.nodup_append.mp hnd).2.2 l hm l (by simp) rfl
  have hh'' : t'.hierarchy = pre ++ cl :: post := by
    rw [hh', hs, List.erase_append_right _ hl_pre, List.erase_cons_head]
  have hnd' : t'.hierarchy.Nodup := by rw [hh']; exact hnd.erase l
  have hmem0 : ∀ x, x ∈ t'.hierarchy → x ≠ l ∧ x ∈ t.hierarchy := by
    intro x hx; rw [hh'] at hx; exact hnd.mem_erase_iff.mp hx
  have hnodes : ∀ x, x ≠ l → t'.nodesAt x = t.nodesAt x := fun x hx => drop_nodesAt h hs hnd hx
  obtain ⟨hlev1, hlev2⟩ := dropLevel_level h hs hnd
  simp only [wfb, Bool.and_eq_true, Bool.not_eq_true', List.all_eq_true]
  refine ⟨nodup_hasDup_false _ hnd', ?_⟩
  rintro ⟨plo, c⟩ hm
  simp only
  have hc_in : c ∈ t'.hierarchy := by
    have : (plo, c) ∈ (none :: t'.hierarchy.map some).zip t'.hierarchy := hm
    exact (List.of_mem_zip this).2
  obtain ⟨hc_ne, hc_h⟩ := hmem0 c hc_in
  have hkc : (t'.nodesAt c).Nodup := by rw [hnodes c hc_ne]; exact wfb_nodup_nodesAt hwf hc_h
  rcases (mem_levelPairs_iff t' plo c).mp hm with ⟨rfl, hhead⟩ | ⟨p, a, b, rfl, hsplit'⟩
  · -- the root
    have hch : t'.children none = .ok (t'.nodesAt c) := by
      simp only [RawTree.children, hhead]
    have hkD : kidsD t' none = t'.nodesAt c := by simp [kidsD, hch]
    apply levelOK_of_facts t' none c hkc
    · intro p hp
      simp only [parentNodeList, List.mem_singleton] at hp
      subst hp
      refine ⟨_, hch, ?_, fun _ h => h⟩
      rw [hnodes c hc_ne]; exact wfb_nodesAt_nonempty hwf hc_h
    · intro p hp p' hp' hne
      simp only [parentNodeList, List.mem_singleton] at hp hp'
      exact absurd (hp.trans hp'.symm) hne
    · intro c' hc'
      exact ⟨none, by simp [parentNodeList], by rw [hkD]; exact hc'⟩
  · have hp_in : p ∈ t'.hierarchy := by rw [hsplit']; simp
    obtain ⟨hp_ne, hp_h⟩ := hmem0 p hp_in
    have hkp := wfb_nodup_nodesAt hwf hp_h
    have hkp' : (t'.nodesAt p).Nodup := by rw [hnodes p hp_ne]; exact hkp
    have hpl : ∀ q, q ∈ parentNodeList t' (some p) ↔ ∃ n, n ∈ t.nodesAt p ∧ q = some (p, n) := by
      intro q; rw [mem_parentNodeList_some, hnodes p hp_ne]
    by_cases hlast : pre.getLast? = some p
    · -- the level above the dropped one: children = grand-children
      obtain ⟨pre', hpre'⟩ := List.getLast?_eq_some_iff.mp hlast
      have hs1 : t.hierarchy = pre' ++ p :: l :: (cl :: post) := by rw [hs, hpre']; simp
      have hccl : c = cl := by
        have e1 : t'.hierarchy = pre' ++ p :: (cl :: post) := by rw [hh'', hpre']; simp
        have e2 : t'.hierarchy = a ++ p :: (c :: b) := hsplit'
        obtain ⟨_, hb⟩ := split_unique a pre' p (c :: b) (cl :: post)
          (by rw [← e2]; exact hnd') (by rw [← e2, e1])
        cases hb; rfl
      subst hccl
      have f1 := facts_of_split hwf hs1
      have f2 := facts_of_split hwf hs
      have hl_h : l ∈ t.hierarchy := by rw [hs]; simp
      have hkl := wfb_nodup_nodesAt hwf hl_h
      have hkids' : ∀ n, n ∈ t.nodesAt p →
          t'.children (some (p, n)) = .ok ((kidsD t (some (p, n))).flatMap (fun m => t.entry l m)) ∧
          kidsD t' (some (p, n)) = (kidsD t (some (p, n))).flatMap (fun m => t.entry l m) := by
        intro n hn
        obtain ⟨⟨n0, cs⟩, hmem, he⟩ := List.mem_map.mp hn
        simp only at he; subst he
        have hmem' : (n0, cs.flatMap (fun m => t.entry l m)) ∈ t'.level p := by
          rw [hlev2 p hlast]; exact List.mem_map.mpr ⟨(n0, cs), hmem, rfl⟩
        rw [kidsD_of_mem_level hkp hmem]
        exact ⟨children_of_mem_level hkp' hmem', kidsD_of_mem_level hkp' hmem'⟩
      have hentry : ∀ m, m ∈ t.nodesAt l → t.entry l m = kidsD t (some (l, m)) :=
        fun m hm' => (kidsD_eq_entry hkl hm').symm
      apply levelOK_of_facts t' (some p) c hkc
      · intro q hq
        obtain ⟨n, hn, rfl⟩ := (hpl q).mp hq
        obtain ⟨hch, _⟩ := hkids' n hn
        obtain ⟨hne1, hsub1⟩ := facts_kidsD f1 hn
        refine ⟨_, hch, ?_, ?_⟩
        · cases hk0 : kidsD t (some (p, n)) with
          | nil => exact absurd hk0 hne1
          | cons m ms =>
            have hm' : m ∈ t.nodesAt l := hsub1 m (by rw [hk0]; simp)
            obtain ⟨hne2, _⟩ := facts_kidsD f2 hm'
            intro hnil
            have : t.entry l m = [] := by
              have := List.flatMap_eq_nil_iff.mp hnil m (by simp)
              exact this
            rw [hentry m hm'] at this
            exact hne2 this
        · intro c' hc'
          obtain ⟨m, hm1, hm2⟩ := List.mem_flatMap.mp hc'
          have hm' : m ∈ t.nodesAt l := hsub1 m hm1
          rw [hentry m hm'] at hm2
          rw [hnodes c hc_ne]
          exact (facts_kidsD f2 hm').2 c' hm2
      · intro q hq q' hq' hne c' hc1 hc2
        obtain ⟨n, hn, rfl⟩ := (hpl q).mp hq
        obtain ⟨n', hn', rfl⟩ := (hpl q').mp hq'
        rw [(hkids' n hn).2] at hc1
        rw [(hkids' n' hn').2] at hc2
        obtain ⟨m, hm1, hm2⟩ := List.mem_flatMap.mp hc1
        obtain ⟨m', hm1', hm2'⟩ := List.mem_flatMap.mp hc2
        have hmn : m ∈ t.nodesAt l := (facts_kidsD f1 hn).2 m hm1
        have hmn' : m' ∈ t.nodesAt l := (facts_kidsD f1 hn').2 m' hm1'
        rw [hentry m hmn] at hm2
        rw [hentry m' hmn'] at hm2'
        have hmm : m = m' := by
          by_cases he : m = m'
          · exact he
          · exact absurd hm2' (f2.disj _ ((mem_parentNodeList_some t l _).mpr ⟨m, hmn, rfl⟩) _
              ((mem_parentNodeList_some t l _).mpr ⟨m', hmn', rfl⟩)
              (by intro h; cases h; exact he rfl) c' hm2)
        subst hmm
        have hnn : n ≠ n' := fun he => hne (by rw [he])
        exact f1.disj _ ((mem_parentNodeList_some t p _).mpr ⟨n, hn, rfl⟩) _
          ((mem_parentNodeList_some t p _).mpr ⟨n', hn', rfl⟩)
          (by intro h; cases h; exact hnn rfl) m hm1 hm1'
      · intro c' hc'
        rw [hnodes c hc_ne] at hc'
        obtain ⟨q, hq, hcq⟩ := f2.surj c' hc'
        obtain ⟨m, hm', rfl⟩ := (mem_parentNodeList_some t l q).mp hq
        obtain ⟨q2, hq2, hmq⟩ := f1.surj m hm'
        obtain ⟨n, hn, rfl⟩ := (mem_parentNodeList_some t p q2).mp hq2
        refine ⟨some (p, n), (hpl _).mpr ⟨n, hn, rfl⟩, ?_⟩
        rw [(hkids' n hn).2]
        exact List.mem_flatMap.mpr ⟨m, hmq, by rw [hentry m hm']; exact hcq⟩
    · -- a pair that is also consecutive in the stored tree
      have hsplit0 : ∃ a0 b0, t.hierarchy = a0 ++ p :: c :: b0 := by
        have e : a ++ (p :: c :: b) = pre ++ (cl :: post) := by rw [← hsplit', hh'']
        rcases List.append_eq_append_iff.mp e with ⟨a', hpre, hrest⟩ | ⟨c', ha, hrest⟩
        · cases a' with
          | nil =>
            simp only [List.nil_append, List.cons.injEq] at hrest
            obtain ⟨rfl, rfl⟩ := hrest
            exact ⟨pre ++ [l], b, by rw [hs]; simp⟩
          | cons x a'' =>
            simp only [List.cons_append, List.cons.injEq] at hrest
            obtain ⟨rfl, hrest⟩ := hrest
            cases a'' with
            | nil =>
              exfalso; apply hlast
              rw [hpre]; simp
            | cons y a3 =>
              simp only [List.cons_append, List.cons.injEq] at hrest
              obtain ⟨rfl, hb⟩ := hrest
              exact ⟨a, a3 ++ l :: cl :: post, by rw [hs, hpre]; simp⟩
        · cases c' with
          | nil =>
            simp only [List.nil_append, List.cons.injEq] at hrest
            obtain ⟨rfl, rfl⟩ := hrest
            exact ⟨pre ++ [l], b, by rw [hs]; simp⟩
          | cons x c'' =>
            simp only [List.cons_append, List.cons.injEq] at hrest
            obtain ⟨rfl, hpost⟩ := hrest
            exact ⟨pre ++ l :: cl :: c'', b, by rw [hs, hpost]; simp⟩
      obtain ⟨a0, b0, hs0⟩ := hsplit0
      have f := facts_of_split hwf hs0
      have hkids' : ∀ n, n ∈ t.nodesAt p →
          t'.children (some (p, n)) = .ok (kidsD t (some (p, n))) ∧
          kidsD t' (some (p, n)) = kidsD t (some (p, n)) := by
        intro n hn
        obtain ⟨⟨n0, cs⟩, hmem, he⟩ := List.mem_map.mp hn
        simp only at he; subst he
        have hmem' : (n0, cs) ∈ t'.level p := by rw [hlev1 p hp_ne hlast]; exact hmem
        rw [kidsD_of_mem_level hkp hmem]
        exact ⟨children_of_mem_level hkp' hmem', kidsD_of_mem_level hkp' hmem'⟩
      apply levelOK_of_facts t' (some p) c hkc
      · intro q hq
        obtain ⟨n, hn, rfl⟩ := (hpl q).mp hq
        obtain ⟨hne1, hsub1⟩ := facts_kidsD f hn
        exact ⟨_, (hkids' n hn).1, hne1, fun c' hc' => by rw [hnodes c hc_ne]; exact hsub1 c' hc'⟩
      · intro q hq q' hq' hne c' hc1 hc2
        obtain ⟨n, hn, rfl⟩ := (hpl q).mp hq
        obtain ⟨n', hn', rfl⟩ := (hpl q').mp hq'
        rw [(hkids' n hn).2] at hc1
        rw [(hkids' n' hn').2] at hc2
        exact f.disj _ ((mem_parentNodeList_some t p _).mpr ⟨n, hn, rfl⟩) _
          ((mem_parentNodeList_some t p _).mpr ⟨n', hn', rfl⟩) hne c' hc1 hc2
      · intro c' hc'
        rw [hnodes c hc_ne] at hc'
        obtain ⟨q, hq, hcq⟩ := f.surj c' hc'
        obtain ⟨n, hn, rfl⟩ := (mem_parentNodeList_some t p q).mp hq
        exact ⟨some (p, n), (hpl _).mpr ⟨n, hn, rfl⟩, by rw [(hkids' n hn).2]; exact hcq⟩

/-! ### one-level trees: flatten together with drop_level -/

theorem asLeaves_onelevel {t : RawTree} {ll : Level} (h : t.hierarchy = [ll]) (cl : Level) (k : Node) :
    t.asLeaves cl k = [k] := by
  simp only [RawTree.asLeaves, RawTree.levelsBelow, RawTree.levelIdx, h, List.idxOf?_cons,
    List.idxOf?_nil]
  by_cases hc : (ll == cl) = true
  · simp [hc, RawTree.leavesFrom]
  · simp [hc, RawTree.leavesFrom]

theorem kidsOf_onelevel {t : RawTree} {ll : Level} (h : t.hierarchy = [ll]) (cl : Level)
    (kids : List Node) : kidsOf t cl kids = kids.map (fun k => (k, [k])) := by
  simp only [kidsOf, asLeaves_onelevel h]

theorem voteOK_onelevel {κ} {t1 t2 : RawTree} {ll : Level} {vote : Oracle κ}
    (h1 : t1.hierarchy = [ll]) (h2 : t2.hierarchy = [ll]) (hv : VoteOK t1 vote) : VoteOK t2 vote := by
  intro p cl kids c hk
  have := hv p cl kids c hk
  rw [kidsOf_onelevel h1] at this
  rw [kidsOf_onelevel h2]
  exact this

theorem walk_onelevel_congr {κ} {t1 t2 : RawTree} {ll : Level} (vote : Oracle κ) (c : κ)
    (h1 : t1.hierarchy = [ll]) (h2 : t2.hierarchy = [ll]) (hn : t1.nodesAt ll = t2.nodesAt ll) :
    walk t1 vote c = walk t2 vote c := by
  have hw : walkFrom t1 vote c [ll] none = walkFrom t2 vote c [ll] none := by
    simp only [walkFrom, RawTree.children, h1, h2, List.head?_cons, hn, voteFn,
      kidsOf_onelevel h1, kidsOf_onelevel h2]
  simp only [walk, h1, h2, hw]

/-- the hierarchy after `drop_level` ends with the same leaf level -/
theorem dropLevel_leafLevel {t t' : RawTree} {l cl ll : Level} {pre post : List Level}
    (hnd : t.hierarchy.Nodup) (h : t.dropLevel l = .ok t')
    (hs : t.hierarchy = pre ++ l :: cl :: post) (hleaf : t.leafLevel = some ll) :
    t'.leafLevel = some ll ∧ ll ≠ l := by
  obtain ⟨_, hh'⟩ := dropLevel_hierarchy h
  obtain ⟨ys, hys⟩ := List.getLast?_eq_some_iff.mp hleaf
  have hne : ll ≠ l := by
    intro he
    subst he
    -- ll would be followed by cl
    have e : ys ++ ll :: [] = pre ++ ll :: (cl :: post) := by rw [← hys, hs]
    obtain ⟨_, hb⟩ := split_unique ys pre ll [] (cl :: post) (by rw [← hys]; exact hnd) e
    cases hb
  have hl_ys : l ∈ ys := by
    have : l ∈ t.hierarchy := by rw [hs]; simp
    rw [hys] at this
    rcases List.mem_append.mp this with h1 | h1
    · exact h1
    · simp at h1; exact absurd h1.symm hne
  refine ⟨?_, hne⟩
  simp only [RawTree.leafLevel, hh', hys, List.erase_append_left _ hl_ys]
  simp

/-- **with flatten, drop_level is irrelevant**: the run tree is the one-level
tree of the same leaves either way, so the whole output is the same -/
theorem mapPipeline_flatten_ignores_drop {κ} (t0 t' : RawTree) (cfg : Config) (vote : Oracle κ)
    (l cl : Level) (pre post : List Level)
    (ids : List CellId) (cells : List κ) (order : List Nat)
    (hdrop : t0.dropLevel l = .ok t') (hs : t0.hierarchy = pre ++ l :: cl :: post)
    (hwf0 : wfb t0 = true) (hv : VoteOK t0.flatten vote)
    (hlen : ids.length = cells.length) (hnd : ids.Nodup)
    (hproc : 1 ≤ cfg.nProc) (hcs : 1 ≤ cfg.chunkSize)
    (horder : order.Perm (List.range
      (chunks cells.length (effChunk cells.length cfg.nProc cfg.chunkSize)).length)) :
    mapPipeline t0 { cfg with dropLevel := some l, flatten := true } vote ids cells order =
      mapPipeline t0 { cfg with dropLevel := none, flatten := true } vote ids cells order := by
  have hnd0 := wfb_nodup_hierarchy hwf0
  obtain ⟨hl_mem, hh'⟩ := dropLevel_hierarchy hdrop
  have hwf' := wfb_dropLevel hwf0 hdrop hs
  have hnd' := wfb_nodup_hierarchy hwf'
  cases hleaf : t0.leafLevel with
  | none =>
    simp only [RawTree.leafLevel, hs] at hleaf
    simp at hleaf
  | some ll =>
    obtain ⟨hleaf', hne⟩ := dropLevel_leafLevel hnd0 hdrop hs hleaf
    have h1 : t'.flatten.hierarchy = [ll] := by simp only [RawTree.flatten, hleaf']
    have h2 : t0.flatten.hierarchy = [ll] := by simp only [RawTree.flatten, hleaf]
    have hn : t'.flatten.nodesAt ll = t0.flatten.nodesAt ll := by
      rw [flatten_nodesAt_leaf hnd' hleaf', flatten_nodesAt_leaf hnd0 hleaf,
        drop_nodesAt hdrop (post := cl :: post) hs hnd0 hne]
    have hrunA : runTree t0 { cfg with dropLevel := some l, flatten := true } = .ok t'.flatten := by
      have : t0.hierarchy.contains l = true := by simpa using hl_mem
      simp only [runTree, this, if_true, hdrop]
    have hrunB : runTree t0 { cfg with dropLevel := none, flatten := true } = .ok t0.flatten := by
      simp [runTree]
    rw [mapPipeline_spec t0 t'.flatten _ vote ids cells order hrunA
        (wfb_flatten hwf' hleaf') (voteOK_onelevel h2 h1 hv) hlen hnd hproc hcs horder,
      mapPipeline_spec t0 t0.flatten _ vote ids cells order hrunB
        (wfb_flatten hwf0 hleaf) hv hlen hnd hproc hcs horder]
    have hmk : mkRecord t'.flatten vote = mkRecord t0.flatten vote := by
      funext id c
      simp only [mkRecord, walkD, walk_onelevel_congr vote c h1 h2 hn]
    rw [hmk, h1, h2]

/-! ### any tiling of the rows -/

theorem tilesFrom_cover {α} (xs : List α) : ∀ (borders : List (Nat × Nat)) (a : Nat),
    tilesFrom xs.length a borders = true →
    borders.flatMap (fun r => slice xs r.1 r.2) = xs.drop a
  | [], a, h => by
    simp only [tilesFrom, beq_iff_eq] at h
    subst h; simp
  | (r0, r1) :: rest, a, h => by
    simp only [tilesFrom, Bool.and_eq_true, beq_iff_eq, decide_eq_true_eq] at h
    obtain ⟨⟨⟨h0, hlt⟩, hle⟩, hrest⟩ := h
    subst h0
    simp only [List.flatMap_cons, tilesFrom_cover xs rest r1 hrest]
    exact slice_append_drop xs (Nat.le_of_lt hlt) hle

theorem tiles_cover {α} (xs : List α) (borders : List (Nat × Nat))
    (h : tilesB xs.length borders = true) :
    borders.flatMap (fun r => slice xs r.1 r.2) = xs := by
  have := tilesFrom_cover xs borders 0 h
  simpa using this

/-- the borders of the row iterator at chunk size `cs >= 1` are a tiling -/
theorem chunksFrom_tiles (n cs : Nat) (hcs : 1 ≤ cs) : ∀ (fuel r0 : Nat), r0 ≤ n → n - r0 ≤ fuel →
    tilesFrom n r0 (chunksFrom n cs fuel r0) = true
  | 0, r0, h0, hf => by
    have : r0 = n := by omega
    subst this; simp [chunksFrom, tilesFrom]
  | fuel+1, r0, h0, hf => by
    simp only [chunksFrom]
    by_cases hge : r0 ≥ n
    · have : r0 = n := by omega
      subst this; simp [tilesFrom]
    · simp only [hge, if_false, tilesFrom, beq_self_eq_true, Bool.true_and, Bool.and_eq_true,
        decide_eq_true_eq]
      refine ⟨⟨by omega, by omega⟩, ?_⟩
      exact chunksFrom_tiles n cs hcs fuel (min n (r0 + cs)) (by omega) (by omega)

theorem chunks_tiles (n cs : Nat) (hcs : 1 ≤ cs) : tilesB n (chunks n cs) = true :=
  chunksFrom_tiles n cs hcs n 0 (by omega) (by omega)

/-- the pipeline is the per-cell map for ANY tiling of the rows and any
gathering order -/
theorem mapPipelineChunks_spec {κ} (t0 t : RawTree) (cfg : Config) (vote : Oracle κ)
    (ids : List CellId) (cells : List κ) (borders : List (Nat × Nat)) (order : List Nat)
    (hrun : runTree t0 cfg = .ok t) (hwf : wfb t = true) (hv : VoteOK t vote)
    (hlen : ids.length = cells.length) (hnd : ids.Nodup)
    (htiles : tilesB cells.length borders = true)
    (horder : order.Perm (List.range borders.length)) :
    mapPipelineChunks t0 cfg vote ids cells borders order =
      backfill t0.dropCells
        ((List.zipWith (mkRecord t vote) ids cells).map (markDirect t.hierarchy)) := by
  let recs := List.zipWith (mkRecord t vote) ids cells
  have hrl : recs.length = cells.length := by simp [recs, hlen]
  unfold mapPipelineChunks
  simp only [hrun, runChunks_eq hwf hv ids cells hlen]
  have hflat : (borders.map (fun r => slice recs r.1 r.2)).flatten = recs := by
    have := tiles_cover recs borders (by rw [hrl]; exact htiles)
    rw [List.flatMap_def] at this
    exact this
  have hperm := gather_perm (borders.map (fun r => slice recs r.1 r.2)) order
    (by simpa using horder)
  rw [hflat] at hperm
  have hids : (recs.map (markDirect t.hierarchy)).map (·.cellId) = ids := by
    simp only [List.map_map, recs]
    have : ((fun r : Record => r.cellId) ∘ markDirect t.hierarchy) = fun r => r.cellId := by
      funext r; rfl
    rw [this]
    exact map_cellId_zipWith t vote ids cells hlen
  rw [reorderBlob_perm ids _ (recs.map (markDirect t.hierarchy)) (hperm.map _) hids hnd]

/-- the chunking of the code is one instance -/
theorem mapPipeline_eq_chunks {κ} (t0 : RawTree) (cfg : Config) (vote : Oracle κ)
    (ids : List CellId) (cells : List κ) (order : List Nat)
    (hproc : 1 ≤ cfg.nProc) (hcs : 1 ≤ cfg.chunkSize) :
    mapPipeline t0 cfg vote ids cells order =
      mapPipelineChunks t0 cfg vote ids cells
        (chunks cells.length (effChunk cells.length cfg.nProc cfg.chunkSize)) order := by
  have hcs' := effChunk_pos (n := cells.length) (nProc := cfg.nProc) hcs
  have hp0 : (cfg.nProc == 0) = false := by
    have : cfg.nProc ≠ 0 := by omega
    simpa using this
  have hc0 : (effChunk cells.length cfg.nProc cfg.chunkSize == 0) = false := by
    have : effChunk cells.length cfg.nProc cfg.chunkSize ≠ 0 := by omega
    simpa using this
  unfold mapPipeline mapPipelineChunks
  simp only [hp0, hc0, Bool.false_eq_true, if_false]

/-! ### a concrete instance for the non-vacuity examples of `Props/C01, C06, C17` -/

/-! a 3-level taxonomy with a single top node (10), a single-child parent (20)
and a branching parent (21), used for the non-vacuity examples -/
def exTree : RawTree :=
  { hierarchy := [0, 1, 2],
    levels := [(0, [(10, [21, 20])]), (1, [(21, [31, 32]), (20, [30])]),
               (2, [(30, [5]), (31, [6]), (32, [])])] }

/-- an oracle: the cell's number picks the child -/
def exVote : Oracle Nat := fun _ kids c =>
  { assignment := ((kids[c % kids.length]?).map (·.1)).getD 0, prob := 1, corr := none,
    runnersUp := none }

theorem exTree_wf : wfb exTree = true := by decide

theorem exVote_ok (t : RawTree) : VoteOK t exVote := by
  intro p cl kids c hk
  have hlt : c % kids.length < kids.length := Nat.mod_lt _ (by omega)
  simp only [exVote, kidsOf, List.length_map, List.getElem?_map, List.getElem?_eq_getElem hlt,
    Option.map_some, Option.getD_some]
  exact List.getElem_mem hlt


end LevelLoop
end CTM
