/-
  Composition of the election model (group C) with the level loop (group D):
  the INTERPRETED oracle `electionVote` and what it satisfies.
  See design_notes/compose.md.
-/
import CTM.Props.C03.Bridge
import CTM.Lemmas.Election

namespace CTM.Compose
open CTM CTM.LevelLoop CTM.OutBridge CTM.Election CTM.Numeric

/-- everything `_run_type_assignment` reads besides the tree and the cell:
the reference profiles, the node's marker genes (as query / reference columns,
paired by name), and the nondeterminism (drawn subsets, tie order) -/
structure ElectionParams where
  /-- mean profile of a leaf cluster (reference gene order) -/
  means : Node → List Rat
  /-- the node's marker genes as columns of the query row -/
  qcols : Parent → List Nat
  /-- the same genes as columns of the reference rows -/
  rcols : Parent → List Nat
  /-- the subset drawn at each bootstrap iteration (per parent and cell) -/
  subsets : Parent → List Rat → List (List Nat)
  /-- the correlation value reported for (iteration, reference row) -/
  corrOf : Parent → List Rat → Nat → Nat → Rat
  /-- the row of `argsort(votes)[::-1]` for a vote row -/
  tie : Parent → List Rat → List Nat → List Nat
  /-- `n_assignments = n_runners_up + 1` -/
  nAssign : Nat

/-- `tree_as_leaves[child_level][child]` as the oracle receives it -/
def leavesOfKids (kl : List (Node × List Node)) (c : Node) : List Node := (kl.lookup c).getD []

/-- `assemble_query_data`: reference rows (leaves below the parent, sorted) and
their types (the child owning each) -/
def nodeRows (kl : List (Node × List Node)) : List Node × List Node :=
  assembleRows (kl.map (·.1)) (leavesOfKids kl)

def nodeRefs (P : ElectionParams) (p : Parent) (kl : List (Node × List Node)) : List (List Rat) :=
  (nodeRows kl).1.map (fun leaf => pick (P.rcols p) (P.means leaf))

def nodeQuery (P : ElectionParams) (p : Parent) (x : List Rat) : List Rat := pick (P.qcols p) x

/-- `_run_type_assignment` for one cell: assemble, tally over the drawn
subsets, aggregate, choose.  `none` = one of the Python `raise` sites of
`tally_votes` / `choose_node` is hit (subset index out of range, no reference
row, `n_assignments = 0`) or there is no iteration. -/
def nodeChoice (P : ElectionParams) (p : Parent) (kl : List (Node × List Node)) (x : List Rat) :
    Option Choice :=
  match tallyVotes (nodeRefs P p kl) (nodeQuery P p x) (P.subsets p x) (P.corrOf p x) with
  | .error _ => none
  | .ok tally =>
    match chooseCell (nodeRows kl).2 tally.1 tally.2 (P.subsets p x).length P.nAssign
        (P.tie p x (columns (nodeRows kl).2 tally.1 tally.2).1) with
    | .error _ => none
    | .ok ch => some ch

/-- placeholder answer where the code raises (the `Oracle` type is total): the
first child, probability 1; never reached under `NoRaise` -/
def fallbackVote (kl : List (Node × List Node)) : Vote :=
  { assignment := ((kl.head?).map (·.1)).getD 0, prob := 1, corr := some 0, runnersUp := some [] }

/-- the INTERPRETED oracle of the level loop -/
def electionVote (P : ElectionParams) : Oracle (List Rat) := fun p kl x =>
  match nodeChoice P p kl x with
  | some ch => voteOfChoice ch
  | none => fallbackVote kl

/-- the tie order handed in is one numpy's argsort may return -/
def TieOK (P : ElectionParams) : Prop := ∀ p x V, ValidOrder V (P.tie p x V)

theorem nodeRows_length (kl : List (Node × List Node)) :
    (nodeRows kl).2.length = (nodeRows kl).1.length :=
  (assembleRows_spec _ _).2.2.1

/-- the missing link "types ⊆ kids": every reference type `assemble_query_data`
records is one of the children the oracle was asked about — for ANY tree -/
theorem nodeRows_types_sub (kl : List (Node × List Node)) :
    ∀ a ∈ (nodeRows kl).2, a ∈ kl.map (·.1) := by
  intro a ha
  obtain ⟨i, hi, rfl⟩ := List.mem_iff_getElem.1 ha
  have hi' : i < (nodeRows kl).1.length := by rw [← nodeRows_length]; exact hi
  have := ((assembleRows_spec (kl.map (fun (e : Node × List Node) => e.1)) (leavesOfKids kl)).2.2.2 i hi').1
  have hget : (nodeRows kl).2.getD i 0 = (nodeRows kl).2[i] := by simp [hi]
  rw [← hget]
  exact this

theorem tallyVotes_lengths {refs : List (List Rat)} {x : List Rat} {subs : List (List Nat)}
    {corrOf : Nat → Nat → Rat} {tally : List Nat × List Rat}
    (h : tallyVotes refs x subs corrOf = .ok tally) :
    tally.1.length = refs.length ∧ tally.2.length = refs.length := by
  rw [tallyVotes_eq] at h
  cases hn : subs.mapM (tallyIter refs x) with
  | error e => rw [hn] at h; cases h
  | ok near =>
    rw [hn] at h
    simp only [Except.map] at h
    cases h
    rw [tallyCell_votes, tallyCell_corr]
    simp

/-- what a successful node election consists of -/
theorem nodeChoice_some {P : ElectionParams} {p : Parent} {kl : List (Node × List Node)}
    {x : List Rat} {ch : Choice} (h : nodeChoice P p kl x = some ch) :
    ∃ tally, tallyVotes (nodeRefs P p kl) (nodeQuery P p x) (P.subsets p x) (P.corrOf p x)
        = .ok tally ∧
      chooseCell (nodeRows kl).2 tally.1 tally.2 (P.subsets p x).length P.nAssign
        (P.tie p x (columns (nodeRows kl).2 tally.1 tally.2).1) = .ok ch ∧
      tally.1.length = (nodeRows kl).2.length := by
  unfold nodeChoice at h
  split at h
  · cases h
  · next tally ht =>
    split at h
    · cases h
    · next ch' hch =>
      cases h
      refine ⟨tally, ht, hch, ?_⟩
      rw [(tallyVotes_lengths ht).1, nodeRows_length]
      simp [nodeRefs]

end CTM.Compose

namespace CTM.Compose
open CTM CTM.LevelLoop CTM.OutBridge CTM.Election CTM.Numeric

theorem kidsOf_fst (t : RawTree) (cl : Level) (kids : List Node) :
    (kidsOf t cl kids).map (·.1) = kids := by
  simp [kidsOf, List.map_map, Function.comp_def]

/-- an answer of the interpreted oracle is either the write-up of a successful
node election or the placeholder -/
theorem electionVote_cases (P : ElectionParams) (p : Parent) (kl : List (Node × List Node))
    (x : List Rat) :
    (∃ ch, nodeChoice P p kl x = some ch ∧ electionVote P p kl x = voteOfChoice ch) ∨
    (nodeChoice P p kl x = none ∧ electionVote P p kl x = fallbackVote kl) := by
  unfold electionVote
  cases h : nodeChoice P p kl x with
  | none => exact Or.inr ⟨rfl, rfl⟩
  | some ch => exact Or.inl ⟨ch, rfl, rfl⟩

/-- (1) the interpreted oracle satisfies both hypotheses of the pipeline
theorems, on any tree: it returns a child of the parent it was asked about
(`VoteOK`), with a correlation, at most `n_runners_up` valid runner-up tuples,
all of them children of that parent (`PayloadOK`) -/
theorem electionVote_ok (t : RawTree) (P : ElectionParams) (htie : TieOK P) :
    VoteOK t (electionVote P) ∧ PayloadOK (P.nAssign - 1) t (electionVote P) := by
  refine ⟨?_, ?_⟩
  · intro p cl kids c hk
    rcases electionVote_cases P p (kidsOf t cl kids) c with ⟨ch, hch, he⟩ | ⟨_, he⟩
    · rw [he]
      obtain ⟨tally, _, hc, hlen⟩ := nodeChoice_some hch
      have := C03.chooseCell_winner_mem _ _ _ _ _ _ ch hlen (htie _ _ _) hc
      have := nodeRows_types_sub _ _ this
      rwa [kidsOf_fst] at this
    · rw [he]
      match kids, hk with
      | a :: b :: rest, _ => simp [fallbackVote, kidsOf]
  · intro p cl kids c hk
    rcases electionVote_cases P p (kidsOf t cl kids) c with ⟨ch, hch, he⟩ | ⟨_, he⟩
    · rw [he]
      obtain ⟨tally, _, hc, hlen⟩ := nodeChoice_some hch
      exact C03.chooseCell_payloadOK _ _ _ _ _ _ ch kids hlen (htie _ _ _)
        (fun a ha => by have := nodeRows_types_sub _ a ha; rwa [kidsOf_fst] at this) hc
    · rw [he]
      refine ⟨rfl, ?_⟩
      intro r hr
      simp only [fallbackVote, Option.some.injEq] at hr
      subst hr
      simp

end CTM.Compose

namespace CTM.Compose
open CTM CTM.LevelLoop CTM.OutBridge CTM.Election CTM.Numeric

theorem pick_length (s : List Nat) (v : List Rat) : (pick s v).length = s.length := by
  simp [pick]

theorem tallyIter_ok_of_range (refs : List (List Rat)) (x : List Rat) (s : List Nat)
    (hne : refs ≠ []) (hx : ∀ i ∈ s, i < x.length) (hr : ∀ m ∈ refs, ∀ i ∈ s, i < m.length) :
    ∃ r, tallyIter refs x s = .ok r := by
  unfold tallyIter
  have c1 : s.all (· < x.length) = true := by simpa using hx
  have c2 : refs.all (fun m => s.all (· < m.length)) = true := by simpa using hr
  simp only [c1, c2, Bool.not_true, Bool.or_self, Bool.false_eq_true, if_false]
  cases hn : nearestLeaf (refs.map (pick s)) (pick s x) with
  | none =>
    rw [nearestLeaf_eq_none] at hn
    simp at hn
    exact absurd hn hne
  | some r => exact ⟨r, rfl⟩

/-- the questions on which neither `tally_votes` nor `choose_node` raises -/
structure NoRaise (P : ElectionParams) (p : Parent) (kl : List (Node × List Node))
    (x : List Rat) : Prop where
  iters : P.subsets p x ≠ []
  range : ∀ s ∈ P.subsets p x, ∀ i ∈ s, i < (P.qcols p).length ∧ i < (P.rcols p).length
  rows : (nodeRows kl).1 ≠ []
  nAssign : 1 ≤ P.nAssign

theorem chooseCell_ok_of (types votes : List Nat) (corr : List Rat) (iters nA : Nat)
    (order : List Nat) (hlen : votes.length = types.length) (ht : types ≠ [])
    (hit : iters ≠ 0) (hnA : 1 ≤ nA) (hv : ValidOrder (columns types votes corr).1 order) :
    ∃ ch, chooseCell types votes corr iters nA order = .ok ch := by
  have hcl := columns_length types votes corr hlen
  have hTne : (columns types votes corr).2.2 ≠ [] := by
    obtain ⟨a, ha⟩ := List.exists_mem_of_ne_nil _ ht
    exact List.ne_nil_of_mem ((columns_types_mem types votes corr a).2 ha)
  have hVpos : 0 < (columns types votes corr).1.length := by
    rw [← hcl]; exact List.length_pos_of_ne_nil hTne
  have hol := hv.length_eq
  unfold chooseCell chooseCols
  simp only [if_neg hit]
  cases htk : order.take (min nA (columns types votes corr).1.length) with
  | nil =>
    have := congrArg List.length htk
    rw [List.length_take] at this
    simp only [List.length_nil] at this
    omega
  | cons w rest => exact ⟨_, rfl⟩

theorem nodeChoice_isSome (P : ElectionParams) (htie : TieOK P) (p : Parent)
    (kl : List (Node × List Node)) (x : List Rat) (h : NoRaise P p kl x) :
    ∃ ch, nodeChoice P p kl x = some ch := by
  have hrefs : nodeRefs P p kl ≠ [] := by
    unfold nodeRefs; simpa using h.rows
  have hiter : ∀ s ∈ P.subsets p x, ∃ r, tallyIter (nodeRefs P p kl) (nodeQuery P p x) s = .ok r := by
    intro s hs
    apply tallyIter_ok_of_range _ _ _ hrefs
    · intro i hi; rw [nodeQuery, pick_length]; exact (h.range s hs i hi).1
    · intro m hm i hi
      unfold nodeRefs at hm
      obtain ⟨leaf, _, rfl⟩ := List.mem_map.1 hm
      rw [pick_length]; exact (h.range s hs i hi).2
  obtain ⟨near, hnear, _, _⟩ := LevelLoop.mapM_ok_of_forall _ _ hiter
  have htally : tallyVotes (nodeRefs P p kl) (nodeQuery P p x) (P.subsets p x) (P.corrOf p x) =
      .ok (tallyCell (nodeRefs P p kl).length (rowsOf near (P.corrOf p x))) := by
    rw [tallyVotes_eq, hnear]; rfl
  have hlen : (tallyCell (nodeRefs P p kl).length (rowsOf near (P.corrOf p x))).1.length =
      (nodeRows kl).2.length := by
    rw [(tallyVotes_lengths htally).1, nodeRows_length]; simp [nodeRefs]
  have htypes : (nodeRows kl).2 ≠ [] := by
    intro e
    have := nodeRows_length kl
    rw [e] at this
    exact h.rows (List.eq_nil_of_length_eq_zero this.symm)
  obtain ⟨ch, hch⟩ := chooseCell_ok_of (nodeRows kl).2
    (tallyCell (nodeRefs P p kl).length (rowsOf near (P.corrOf p x))).1
    (tallyCell (nodeRefs P p kl).length (rowsOf near (P.corrOf p x))).2
    (P.subsets p x).length P.nAssign
    (P.tie p x (columns (nodeRows kl).2
      (tallyCell (nodeRefs P p kl).length (rowsOf near (P.corrOf p x))).1
      (tallyCell (nodeRefs P p kl).length (rowsOf near (P.corrOf p x))).2).1) hlen
    htypes (by intro e; exact h.iters (List.eq_nil_of_length_eq_zero e)) h.nAssign (htie p x _)
  refine ⟨ch, ?_⟩
  unfold nodeChoice
  rw [htally]
  simp only []
  rw [hch]

end CTM.Compose
namespace CTM.Compose
open CTM CTM.LevelLoop CTM.OutBridge CTM.Election CTM.Numeric

/-- a property of every step of a walk, the parent of a step being the root
or the (level, assignment) of the step before -/
def Linked (Q : Parent → Level → Entry → Prop) : Parent → List (Level × Entry) → Prop
  | _, [] => True
  | p, (l, e) :: rest => Q p l e ∧ Linked Q (some (l, e.assignment)) rest

theorem Linked.imp {Q Q' : Parent → Level → Entry → Prop} (h : ∀ p l e, Q p l e → Q' p l e) :
    ∀ (p : Parent) (es : List (Level × Entry)), Linked Q p es → Linked Q' p es
  | _, [], _ => trivial
  | p, (l, e) :: rest, hl => ⟨h p l e hl.1, Linked.imp h _ rest hl.2⟩

/-- every dict of a successful walk is the write-back of the vote of the cell
under the parent the walk had reached: the tree's children of that parent,
non-empty; the single-child constants or the oracle's answer -/
theorem walkFrom_linked {κ} (t : RawTree) (vote : Oracle κ) (c : κ) :
    ∀ (ls : List Level) (p : Parent) (es : List (Level × Entry)),
      walkFrom t vote c ls p = .ok es →
      es.map (·.1) = ls ∧
      Linked (fun p l e => ∃ kids, t.children p = .ok kids ∧ kids ≠ [] ∧
        e = entryOf (voteFn t vote p l kids c)) p es
  | [], _, es, h => by
    simp only [walkFrom] at h; cases h; exact ⟨rfl, trivial⟩
  | cl :: rest, p, es, h => by
    simp only [walkFrom] at h
    cases hk : t.children p with
    | error e => rw [hk] at h; cases h
    | ok kids =>
      rw [hk] at h
      simp only at h
      by_cases hem : kids.isEmpty = true
      · rw [if_pos hem] at h; cases h
      · rw [if_neg hem] at h
        cases hrest : walkFrom t vote c rest (some (cl, (voteFn t vote p cl kids c).assignment)) with
        | error e => rw [hrest] at h; cases h
        | ok tl =>
          rw [hrest] at h
          cases h
          obtain ⟨ih1, ih2⟩ := walkFrom_linked t vote c rest _ tl hrest
          refine ⟨by simp [ih1], ⟨kids, hk, ?_, rfl⟩, ?_⟩
          · intro e; apply hem; rw [e]; rfl
          · rw [entryOf_assignment]; exact ih2

end CTM.Compose

namespace CTM.Compose
open CTM CTM.LevelLoop CTM.OutBridge CTM.Election CTM.Numeric

/-- C02's node-level statement for the dict `e` written for cell `x` under
parent `p` with children-and-leaves `kl`: `e` is the write-back of the model's
`choose_node` on the tally over the drawn subsets (so every node-level theorem
of `Props/C02.lean` / `Props/C03.lean` applies: the model equations, the valid
tie order and the length fact are their hypotheses), and — `C02.recompute` —
recomputing per iteration the arg-max leaf (`near`) reproduces it: the
assignment is a reference type owning the largest number of arg-max
iterations, the probability is that number over the iteration count. -/
def NodeRecompute (P : ElectionParams) (p : Parent) (kl : List (Node × List Node))
    (x : List Rat) (e : Entry) : Prop :=
  ∃ (tally : List Nat × List Rat) (ch : Choice) (near : List (Nat × Rat)),
    tallyVotes (nodeRefs P p kl) (nodeQuery P p x) (P.subsets p x) (P.corrOf p x) = .ok tally ∧
    ValidOrder (columns (nodeRows kl).2 tally.1 tally.2).1
      (P.tie p x (columns (nodeRows kl).2 tally.1 tally.2).1) ∧
    tally.1.length = (nodeRows kl).2.length ∧
    chooseCell (nodeRows kl).2 tally.1 tally.2 (P.subsets p x).length P.nAssign
      (P.tie p x (columns (nodeRows kl).2 tally.1 tally.2).1) = .ok ch ∧
    e = { assignment := ch.winner, prob := ch.prob, corr := some ch.avgCorr,
          ru := some (keepRunners ch.runners) } ∧
    (P.subsets p x).mapM (tallyIter (nodeRefs P p kl) (nodeQuery P p x)) = .ok near ∧
    near.length = (P.subsets p x).length ∧
    ch.winner ∈ (nodeRows kl).2 ∧
    (∀ ty ∈ (nodeRows kl).2,
      (near.filter (fun r => (nodeRows kl).2.getD r.1 0 == ty)).length ≤
      (near.filter (fun r => (nodeRows kl).2.getD r.1 0 == ch.winner)).length) ∧
    ch.prob = ((near.filter (fun r => (nodeRows kl).2.getD r.1 0 == ch.winner)).length : Rat) /
      ((P.subsets p x).length : Rat)

/-- the interpreted oracle's answer, written back, satisfies the node-level
statement wherever the code does not raise -/
theorem electionVote_nodeRecompute (P : ElectionParams) (htie : TieOK P) (p : Parent)
    (kl : List (Node × List Node)) (x : List Rat) (hnr : NoRaise P p kl x) :
    NodeRecompute P p kl x (entryOf (electionVote P p kl x)) := by
  obtain ⟨ch, hch⟩ := nodeChoice_isSome P htie p kl x hnr
  obtain ⟨tally, ht, hc, hlen⟩ := nodeChoice_some hch
  have hv := htie p x (columns (nodeRows kl).2 tally.1 tally.2).1
  have hrl : (nodeRows kl).2.length = (nodeRefs P p kl).length := by
    rw [nodeRows_length]; simp [nodeRefs]
  obtain ⟨near, hn1, hn2, hn3, hn4, hn5⟩ := node_recompute _ _ _ _ _ _ _ ch tally hrl ht hv hc
  refine ⟨tally, ch, near, ht, hv, hlen, hc, ?_, hn1, hn2, hn3, hn4, hn5⟩
  have : electionVote P p kl x = voteOfChoice ch := by
    unfold electionVote; rw [hch]
  rw [this, entryOf_voteOfChoice]

end CTM.Compose

namespace CTM.Compose
open CTM CTM.LevelLoop CTM.OutBridge CTM.Election CTM.Numeric

theorem lookup_getElem_of_nodup {β} : ∀ (l : List (Nat × β)) (k : Nat) (hk : k < l.length),
    (l.map (·.1)).Nodup → l.lookup l[k].1 = some l[k].2
  | [], k, hk, _ => by simp at hk
  | (a, b) :: l, 0, _, _ => by simp [List.lookup]
  | (a, b) :: l, k + 1, hk, hnd => by
    simp only [List.map_cons, List.nodup_cons] at hnd
    have hk' : k < l.length := by simpa using hk
    have hne : ((a, b) :: l)[k + 1].1 ≠ a := by
      intro e
      apply hnd.1
      rw [← e]
      simp only [List.getElem_cons_succ]
      exact List.mem_map.2 ⟨l[k], List.getElem_mem hk', rfl⟩
    rw [List.lookup_cons]
    have : (((a, b) :: l)[k + 1].1 == a) = false := by simpa using hne
    rw [this]
    simpa using lookup_getElem_of_nodup l k hk' hnd.2

/-- the finished record keeps, at every level the run voted on, the
assignment, probability and runner-up lists of the raw walk, and its
correlation wherever the walk had one -/
theorem record_level_of_raw {t : RawTree} (hnd : t.hierarchy.Nodup) (o flagged : Record)
    (raw : List (Level × Entry))
    (h2 : raw.map (·.1) = t.hierarchy) (h3 : flagged.levels.map (·.1) = t.hierarchy)
    (h4 : flagged.levels.map (fun le => toElectionOut le.2) =
      Election.finishCell (raw.map (fun le => toElectionRec le.2)))
    (h5 : ∀ l ∈ t.hierarchy, o.levels.lookup l = flagged.levels.lookup l)
    (k : Nat) (hk : k < raw.length) :
    ∃ e, o.levels.lookup raw[k].1 = some e ∧ e.assignment = raw[k].2.assignment ∧
      e.prob = raw[k].2.prob ∧ (raw[k].2.ru.isSome = true → e.ru = raw[k].2.ru) ∧
      (∀ q, raw[k].2.corr = some q → e.corr = some q) ∧
      e.agg.getD 0 = ((raw.map (fun le => le.2.prob)).take (k + 1)).prod ∧
      e.direct.getD false = true := by
  have hlen : flagged.levels.length = raw.length := by
    have := congrArg List.length (h3.trans h2.symm); simpa using this
  have hkf : k < flagged.levels.length := by omega
  have hkey : flagged.levels[k].1 = raw[k].1 := by
    have e1 : (flagged.levels.map (·.1))[k]? = (raw.map (·.1))[k]? := by rw [h3, h2]
    simp only [List.getElem?_map, List.getElem?_eq_getElem hkf, List.getElem?_eq_getElem hk,
      Option.map_some, Option.some.injEq] at e1
    exact e1
  have hmem : raw[k].1 ∈ t.hierarchy := by
    rw [← h2]; exact List.mem_map.2 ⟨raw[k], List.getElem_mem hk, rfl⟩
  refine ⟨flagged.levels[k].2, ?_, ?_⟩
  · rw [h5 _ hmem, ← hkey]
    exact lookup_getElem_of_nodup flagged.levels k hkf (by rw [h3]; exact hnd)
  · have hk' : k < (raw.map (fun le => toElectionRec le.2)).length := by simpa using hk
    have hfin := finishCell_getElem? (raw.map (fun le => toElectionRec le.2)) k hk'
    rw [← h4, List.getElem?_map, List.getElem?_eq_getElem hkf] at hfin
    simp only [Option.map_some, Option.some.injEq, List.getElem_map] at hfin
    have ha := congrArg OutRec.assignment hfin
    have hp := congrArg OutRec.prob hfin
    have hc := congrArg OutRec.avgCorr hfin
    have hr := congrArg OutRec.runners hfin
    have hg := congrArg OutRec.aggregate hfin
    have hd := congrArg OutRec.directlyAssigned hfin
    simp only [toElectionOut, toElectionRec] at ha hp hc hr hg hd
    refine ⟨ha, hp, ?_, ?_, ?_, hd⟩
    · intro hs
      rw [hr]
      cases hru : raw[k].2.ru with
      | none => rw [hru] at hs; cases hs
      | some tr => rfl
    · intro q hq
      rw [hc, hq]; rfl
    · rw [hg, List.map_map]; rfl

end CTM.Compose

namespace CTM.Compose
open CTM CTM.LevelLoop CTM.OutBridge CTM.Election CTM.Numeric

/-- a question the level loop really puts: `p` is a parent of the level pair
`(plo, l)` of the run's tree and `kids` are its children (nodes of level `l`) -/
def Asked (t : RawTree) (p : Parent) (l : Level) (kids : List Node) : Prop :=
  ∃ plo, (plo, l) ∈ levelPairs t ∧ p ∈ parentNodeList t plo ∧ t.children p = .ok kids ∧
    kids ≠ [] ∧ ∀ k ∈ kids, k ∈ t.nodesAt l

/-- `walkFrom_linked` on a well-formed tree: every step is a question of the
level pair it belongs to -/
theorem walkFrom_asked {κ} {t : RawTree} {vote : Oracle κ} (hwf : wfb t = true)
    (hv : VoteOK t vote) (c : κ) :
    ∀ (ls pre : List Level) (p : Parent), t.hierarchy = pre ++ ls → At t pre p →
      ∀ es, walkFrom t vote c ls p = .ok es →
        Linked (fun p l e => ∃ kids, Asked t p l kids ∧ e = entryOf (voteFn t vote p l kids c)) p es
  | [], _, p, _, _, es, h => by
    simp only [walkFrom] at h; cases h; trivial
  | cl :: rest, pre, p, hs, hat, es, h => by
    have hpair : ∃ plo, (plo, cl) ∈ levelPairs t ∧ p ∈ parentNodeList t plo := by
      rcases hat with ⟨rfl, rfl⟩ | ⟨pre', pl, n, rfl, rfl, hn⟩
      · refine ⟨none, ?_, by simp [parentNodeList]⟩
        unfold levelPairs; rw [hs]; simp
      · refine ⟨some pl, ?_, (mem_parentNodeList_some t pl _).mpr ⟨n, hn, rfl⟩⟩
        unfold levelPairs; rw [hs, List.append_assoc]
        exact mem_zip_of_split pl cl rest pre' none
    obtain ⟨plo, hmem, hp⟩ := hpair
    have facts := levelOK_facts t plo cl (wfb_levelOK hwf hmem)
    obtain ⟨kids, hkids, hkne, hsub⟩ := facts.kids p hp
    have hkne' : kids.isEmpty = false := by
      cases kids with
      | nil => exact absurd rfl hkne
      | cons a b => rfl
    have hsub' : ∀ k ∈ kids, k ∈ t.nodesAt cl := by
      intro k hk
      obtain ⟨k', hk', he⟩ := (mem_parentNodeList_some t cl _).mp (hsub k hk)
      cases he; exact hk'
    have ha := voteFn_mem hv p cl kids c hkne
    have hnode := hsub' _ ha
    simp only [walkFrom, hkids, hkne', Bool.false_eq_true, if_false] at h
    cases hrest : walkFrom t vote c rest (some (cl, (voteFn t vote p cl kids c).assignment)) with
    | error e => rw [hrest] at h; cases h
    | ok tl =>
      rw [hrest] at h
      cases h
      have ih := walkFrom_asked hwf hv c rest (pre ++ [cl])
        (some (cl, (voteFn t vote p cl kids c).assignment)) (by rw [hs]; simp)
        (Or.inr ⟨pre, cl, _, rfl, rfl, hnode⟩) tl hrest
      refine ⟨⟨kids, ⟨plo, hmem, hp, hkids, hkne, hsub'⟩, rfl⟩, ?_⟩
      rw [entryOf_assignment]; exact ih

end CTM.Compose

namespace CTM.Compose
open CTM CTM.LevelLoop CTM.OutBridge CTM.Election CTM.Numeric

/-- on every question the level loop really puts with at least two children
the code does not raise -/
def NoRaiseAll (P : ElectionParams) (t : RawTree) : Prop :=
  ∀ (p : Parent) (l : Level) (kids : List Node) (c : List Rat), Asked t p l kids →
    2 ≤ kids.length → NoRaise P p (kidsOf t l kids) c

/-- what one level of a cell's walk is: under a single-child parent the
constants of the trivial branch, otherwise the node-level statement of C02 -/
def StepOK (P : ElectionParams) (t : RawTree) (c : List Rat) (p : Parent) (l : Level)
    (e : Entry) : Prop :=
  ∃ kids, Asked t p l kids ∧
    ((∃ only, kids = [only] ∧
        e = { assignment := only, prob := 1, corr := none, ru := some ([], [], []) }) ∨
     (2 ≤ kids.length ∧ NodeRecompute P p (kidsOf t l kids) c e))

theorem walk_stepOK (P : ElectionParams) (htie : TieOK P) {t : RawTree} (hwf : wfb t = true)
    (hnr : NoRaiseAll P t) (c : List Rat) (es : List (Level × Entry))
    (h : walkFrom t (electionVote P) c t.hierarchy none = .ok es) :
    es.map (·.1) = t.hierarchy ∧ Linked (StepOK P t c) none es := by
  have h1 := (walkFrom_linked t (electionVote P) c _ _ es h).1
  have h2 := walkFrom_asked hwf (electionVote_ok t P htie).1 c t.hierarchy [] none (by simp)
    (Or.inl ⟨rfl, rfl⟩) es h
  refine ⟨h1, Linked.imp ?_ none es h2⟩
  rintro p l e ⟨kids, hask, rfl⟩
  refine ⟨kids, hask, ?_⟩
  have hask2 := hask
  obtain ⟨_, _, _, _, hne, _⟩ := hask2
  match kids, hne with
  | [only], _ => exact Or.inl ⟨only, rfl, rfl⟩
  | a :: b :: rest, _ =>
    refine Or.inr ⟨by simp, ?_⟩
    simp only [voteFn]
    exact electionVote_nodeRecompute P htie p _ c (hnr p l _ c hask (by simp))

/-- insert column `i` into a list of columns ordered by non-increasing votes
(structural recursion: evaluates in the kernel) -/
def insByVotes (V : List Nat) (i : Nat) : List Nat → List Nat
  | [] => [i]
  | j :: js => if V.getD j 0 ≤ V.getD i 0 then i :: j :: js else j :: insByVotes V i js

def sortByVotes (V : List Nat) : List Nat → List Nat
  | [] => []
  | i :: is => insByVotes V i (sortByVotes V is)

/-- a tie order that is always valid (insertion sort of the columns by
decreasing votes): `TieOK` is satisfiable -/
def stableTie (V : List Nat) : List Nat := sortByVotes V (List.range V.length)

theorem perm_insByVotes (V : List Nat) (i : Nat) : ∀ l : List Nat, (insByVotes V i l).Perm (i :: l)
  | [] => by simp [insByVotes]
  | j :: js => by
    unfold insByVotes
    split
    · exact List.Perm.refl _
    · exact ((perm_insByVotes V i js).cons j).trans (List.Perm.swap i j js)

theorem perm_sortByVotes (V : List Nat) : ∀ l : List Nat, (sortByVotes V l).Perm l
  | [] => by simp [sortByVotes]
  | i :: is => (perm_insByVotes V i _).trans ((perm_sortByVotes V is).cons i)

theorem sorted_insByVotes (V : List Nat) (i : Nat) : ∀ l : List Nat,
    l.Pairwise (fun a b => V.getD b 0 ≤ V.getD a 0) →
    (insByVotes V i l).Pairwise (fun a b => V.getD b 0 ≤ V.getD a 0)
  | [], _ => by simp [insByVotes]
  | j :: js, h => by
    unfold insByVotes
    rw [List.pairwise_cons] at h
    split
    · next hle =>
      rw [List.pairwise_cons]
      refine ⟨?_, List.pairwise_cons.2 h⟩
      intro a ha
      rcases List.mem_cons.1 ha with rfl | ha
      · exact hle
      · exact Nat.le_trans (h.1 a ha) hle
    · next hnle =>
      rw [List.pairwise_cons]
      refine ⟨?_, sorted_insByVotes V i js h.2⟩
      intro a ha
      rcases List.mem_cons.1 ((perm_insByVotes V i js).mem_iff.1 ha) with rfl | h'
      · omega
      · exact h.1 a h'

theorem sorted_sortByVotes (V : List Nat) : ∀ l : List Nat,
    (sortByVotes V l).Pairwise (fun a b => V.getD b 0 ≤ V.getD a 0)
  | [] => by simp [sortByVotes]
  | i :: is => sorted_insByVotes V i _ (sorted_sortByVotes V is)

theorem stableTie_valid (V : List Nat) : ValidOrder V (stableTie V) := by
  refine ⟨perm_sortByVotes V _, ?_⟩
  rw [List.pairwise_map]
  exact (sorted_sortByVotes V _).imp (fun h => h)

end CTM.Compose

namespace CTM.Compose
open CTM CTM.LevelLoop CTM.OutBridge CTM.Election CTM.Numeric

theorem mem_zipWith_idx {α β γ} (f : α → β → γ) : ∀ (as : List α) (bs : List β) (r : γ),
    r ∈ List.zipWith f as bs → ∃ (i : Nat) (a : α) (b : β), as[i]? = some a ∧ bs[i]? = some b ∧ r = f a b
  | [], _, _, h => by simp at h
  | _ :: _, [], _, h => by simp at h
  | a :: as, b :: bs, r, h => by
    simp only [List.zipWith_cons_cons, List.mem_cons] at h
    rcases h with h | h
    · exact ⟨0, a, b, rfl, rfl, h⟩
    · obtain ⟨i, a', b', h1, h2, h3⟩ := mem_zipWith_idx f as bs r h
      exact ⟨i + 1, a', b', by simpa using h1, by simpa using h2, h3⟩

/-- every record of the output is the result of one cell: the `i`-th id with
the `i`-th expression vector -/
theorem pipeline_records_idx {κ} (t0 t : RawTree) (cfg : Config) (vote : Oracle κ)
    (ids : List CellId) (cells : List κ) (order : List Nat)
    (hrun : runTree t0 cfg = .ok t) (hwf : wfb t = true) (hv : VoteOK t vote)
    (hlen : ids.length = cells.length) (hnd : ids.Nodup)
    (hproc : 1 ≤ cfg.nProc) (hcs : 1 ≤ cfg.chunkSize)
    (horder : order.Perm (List.range
      (chunks cells.length (effChunk cells.length cfg.nProc cfg.chunkSize)).length))
    (out : List Record) (hout : mapPipeline t0 cfg vote ids cells order = .ok out) :
    ∀ o ∈ out, ∃ (i : Nat) (id : CellId) (c : κ), ids[i]? = some id ∧ cells[i]? = some c ∧
      cellResult t0 t vote id c = .ok o ∧ o.cellId = id := by
  rw [mapPipeline_spec t0 t cfg vote ids cells order hrun hwf hv hlen hnd hproc hcs horder] at hout
  unfold backfill at hout
  obtain ⟨_, h2⟩ := mapM_mem _ _ out hout
  intro o ho
  obtain ⟨r, hr, hfr⟩ := h2 o ho
  obtain ⟨r0, hr0, rfl⟩ := List.mem_map.mp hr
  obtain ⟨i, id, c, hi1, hi2, rfl⟩ := mem_zipWith_idx _ ids cells r0 hr0
  refine ⟨i, id, c, hi1, hi2, hfr, ?_⟩
  have := backfillPairs_cellId _ _ _ _ hfr
  rw [this]; rfl

end CTM.Compose
namespace CTM.Compose
open CTM CTM.LevelLoop CTM.OutBridge CTM.Election CTM.Numeric

/-! ## a concrete instance (non-vacuity) -/

/-- parameters for `LevelLoop.exTree` (leaves 30, 31, 32): three genes, two
iterations, one runner-up requested -/
def exP : ElectionParams :=
  { means := fun leaf => if leaf = 30 then [1, 2, 4] else if leaf = 31 then [3, 1, 2]
      else [2, 2, 9],
    qcols := fun _ => [2, 0, 1], rcols := fun _ => [0, 1, 2],
    subsets := fun _ _ => [[0, 1, 2], [0, 2]],
    corrOf := fun _ _ _ _ => 1 / 2,
    tie := fun _ _ V => stableTie V,
    nAssign := 2 }

theorem exP_tie : TieOK exP := fun _ _ V => stableTie_valid V

theorem exP_noRaise : NoRaiseAll exP exTree := by
  have key : ∀ pl ∈ levelPairs exTree, ∀ p ∈ parentNodeList exTree pl.1,
      (match exTree.children p with
       | .ok kids => !(nodeRows (kidsOf exTree pl.2 kids)).1.isEmpty
       | .error _ => true) = true := by decide
  intro p l kids c hask _
  obtain ⟨plo, hmem, hp, hk, _, _⟩ := hask
  have := key (plo, l) hmem p hp
  rw [hk] at this
  refine ⟨by simp [exP], ?_, ?_, by simp [exP]⟩
  · intro s hs i hi
    simp only [exP, List.mem_cons, List.not_mem_nil, or_false] at hs
    rcases hs with rfl | rfl <;> simp at hi <;> simp [exP] <;> omega
  · intro e
    simp only at this
    rw [e] at this
    simp at this

end CTM.Compose
namespace CTM.Compose
open CTM CTM.LevelLoop CTM.OutBridge CTM.Election CTM.Numeric

/-- every iteration casts exactly one vote: the tally of a node sums to the
number of drawn subsets -/
theorem tallyVotes_sum {refs : List (List Rat)} {x : List Rat} {subs : List (List Nat)}
    {corrOf : Nat → Nat → Rat} {tally : List Nat × List Rat}
    (h : tallyVotes refs x subs corrOf = .ok tally) : tally.1.sum = subs.length := by
  rw [tallyVotes_eq] at h
  cases hn : subs.mapM (tallyIter refs x) with
  | error e => rw [hn] at h; cases h
  | ok near =>
    rw [hn] at h
    simp only [Except.map] at h
    cases h
    obtain ⟨hl, hspec⟩ := Election.mapM_ok_spec _ _ _ hn
    have hrows : ∀ r ∈ Election.rowsOf near corrOf, r.1 < refs.length := by
      intro r hr
      have hm : r.1 ∈ (Election.rowsOf near corrOf).map (·.1) := List.mem_map.2 ⟨r, hr, rfl⟩
      unfold Election.rowsOf at hm
      rw [rows_fst] at hm
      obtain ⟨q, hq, hq1⟩ := List.mem_map.1 hm
      obtain ⟨s, _, hs⟩ := hspec q hq
      obtain ⟨i, sc⟩ := q
      have := nearest_lt refs x s i sc hs
      simp only at hq1
      omega
    rw [tallyCell_sum _ _ hrows]
    simp [Election.rowsOf, hl]

/-- the rows handed to the accumulation loop carry the reported correlations -/
theorem rowsOf_corr_bound (near : List (Nat × Rat)) (corrOf : Nat → Nat → Rat)
    (h : ∀ it j, |corrOf it j| ≤ 1) : ∀ r ∈ Election.rowsOf near corrOf, |r.2| ≤ 1 := by
  intro r hr
  unfold Election.rowsOf at hr
  obtain ⟨p, _, rfl⟩ := List.mem_map.1 hr
  exact h _ _

theorem columns_types_length (types votes : List Nat) (corr : List Rat) :
    (columns types votes corr).2.2.length = (uniqSorted types).length := by
  unfold columns
  split
  · rfl
  · next h =>
    have h1 := length_uniqSorted_le types
    have h2 : ¬ (uniqSorted types).length < types.length := by simpa [hasDupTypes] using h
    simp only
    omega

/-- every reported per-iteration correlation lies in [-1, 1] (it is a Pearson
correlation: `C03.corr_range`) -/
def CorrOK (P : ElectionParams) : Prop := ∀ p x it j, |P.corrOf p x it j| ≤ 1

/-- the C03 contract of one directly assigned level where a choice was made
(`kl` = the children of the parent with their leaves, `iters` iterations,
`nA - 1` runners-up requested) -/
def NodeContract (nA iters : Nat) (kl : List (Node × List Node)) (e : Entry) : Prop :=
  e.assignment ∈ kl.map (·.1) ∧
  (∃ k : Nat, e.prob * (iters : Rat) = (k : Rat) ∧ 1 ≤ k ∧ k ≤ iters) ∧
  0 < e.prob ∧ e.prob ≤ 1 ∧
  (∃ q, e.corr = some q ∧ |q| ≤ 1) ∧
  ∃ ra rc rp, e.ru = some (ra, rc, rp) ∧
    ra.length = rc.length ∧ rc.length = rp.length ∧ ra.length ≤ nA - 1 ∧
    ra.Nodup ∧ e.assignment ∉ ra ∧ (∀ a ∈ ra, a ∈ kl.map (·.1)) ∧
    (∀ q ∈ rp, 0 < q ∧ q ≤ e.prob) ∧ rp.Pairwise (· ≥ ·) ∧
    (∀ q ∈ rc, |q| ≤ 1) ∧
    e.prob + rp.sum ≤ 1 ∧
    ((uniqSorted (nodeRows kl).2).length ≤ nA → e.prob + rp.sum = 1)

theorem nodeRecompute_contract (P : ElectionParams) (hcorr : CorrOK P) (p : Parent)
    (kl : List (Node × List Node)) (x : List Rat) (e : Entry)
    (h : NodeRecompute P p kl x e) :
    NodeContract P.nAssign (P.subsets p x).length kl e := by
  obtain ⟨tally, ch, near, ht, hv, hlen, hc, rfl, _, _, hwin, _, _⟩ := h
  have hsum := tallyVotes_sum ht
  obtain ⟨k, hk1, hk2, hk3, hk4, hk5⟩ := C03.prob_whole _ _ _ _ _ _ ch hlen hsum hv hc
  obtain ⟨r1, r2, r3, r4, r5, r6, r7, r8⟩ := C03.runners _ _ _ _ _ _ ch hlen hv hc
  obtain ⟨s1, s2⟩ := C03.sum_le_one _ _ _ _ _ _ ch hlen hsum hv hc
  -- correlations: the tally is `tallyCell` of rows with |corr| ≤ 1
  have htc : ∃ n rows, tally = tallyCell n rows ∧ ∀ r ∈ rows, |r.2| ≤ 1 := by
    have ht' := ht
    rw [tallyVotes_eq] at ht'
    cases hn : (P.subsets p x).mapM (tallyIter (nodeRefs P p kl) (nodeQuery P p x)) with
    | error e => rw [hn] at ht'; cases ht'
    | ok near' =>
      rw [hn] at ht'
      simp only [Except.map] at ht'
      cases ht'
      exact ⟨_, _, rfl, rowsOf_corr_bound near' _ (hcorr p x)⟩
  obtain ⟨n, rows, rfl, hrows⟩ := htc
  obtain ⟨a1, _, a3⟩ := C03.avg_corr_range _ n rows hrows _ _ _ ch hc
  refine ⟨nodeRows_types_sub kl _ hwin, ⟨k, hk1, hk2, hk3⟩, hk4, hk5, ⟨_, rfl, a1⟩,
    (keepRunners ch.runners).1, (keepRunners ch.runners).2.1, (keepRunners ch.runners).2.2,
    rfl, r1, r2, r3, r4, r5, fun a ha => nodeRows_types_sub kl _ (r6 a ha), r7, r8, a3, s1, ?_⟩
  intro hle
  apply s2
  rw [columns_types_length]
  exact hle

end CTM.Compose

namespace CTM.Compose
open CTM CTM.LevelLoop CTM.OutBridge CTM.Election CTM.Numeric

/-- the correlation the finished record holds at a level the run voted on: the
walk's own, else that of the nearest level above where a choice was made, else
of the nearest below (`C03.finished_level` / `C03.single_child` on the record) -/
theorem record_level_corr {t : RawTree} (hnd : t.hierarchy.Nodup) (o flagged : Record)
    (raw : List (Level × Entry))
    (h2 : raw.map (·.1) = t.hierarchy) (h3 : flagged.levels.map (·.1) = t.hierarchy)
    (h4 : flagged.levels.map (fun le => toElectionOut le.2) =
      Election.finishCell (raw.map (fun le => toElectionRec le.2)))
    (h5 : ∀ l ∈ t.hierarchy, o.levels.lookup l = flagged.levels.lookup l)
    (k : Nat) (hk : k < raw.length) :
    ∃ e, o.levels.lookup raw[k].1 = some e ∧
      e.corr = (raw[k].2.corr.or (corrAbove (raw.map (fun le => toElectionRec le.2)) k)).or
        (corrBelow (raw.map (fun le => toElectionRec le.2)) k) := by
  have hlen : flagged.levels.length = raw.length := by
    have := congrArg List.length (h3.trans h2.symm); simpa using this
  have hkf : k < flagged.levels.length := by omega
  have hkey : flagged.levels[k].1 = raw[k].1 := by
    have e1 : (flagged.levels.map (·.1))[k]? = (raw.map (·.1))[k]? := by rw [h3, h2]
    simp only [List.getElem?_map, List.getElem?_eq_getElem hkf, List.getElem?_eq_getElem hk,
      Option.map_some, Option.some.injEq] at e1
    exact e1
  have hmem : raw[k].1 ∈ t.hierarchy := by
    rw [← h2]; exact List.mem_map.2 ⟨raw[k], List.getElem_mem hk, rfl⟩
  refine ⟨flagged.levels[k].2, ?_, ?_⟩
  · rw [h5 _ hmem, ← hkey]
    exact lookup_getElem_of_nodup flagged.levels k hkf (by rw [h3]; exact hnd)
  · have hk' : k < (raw.map (fun le => toElectionRec le.2)).length := by simpa using hk
    have hfin := finishCell_getElem? (raw.map (fun le => toElectionRec le.2)) k hk'
    rw [← h4, List.getElem?_map, List.getElem?_eq_getElem hkf] at hfin
    simp only [Option.map_some, Option.some.injEq, List.getElem_map] at hfin
    have hc := congrArg OutRec.avgCorr hfin
    simp only [toElectionOut, toElectionRec] at hc
    exact hc

end CTM.Compose
