/-
  Helper lemmas for C18 "names consistent", index side (Props/C18/NamesPairs.lean):
  the name tables of the reference-marker file (`gene_names`, `pair_to_idx`,
  `n_pairs`), `idx_of_pair` / `_get_taxonomy_idx`, the marker table written by the
  selection stage and its acceptance by the marker cache (model
  CTM/Model/StageFiles.lean).  Own namespace, so that nothing here can clash with
  the sibling file Lemmas/StageFiles.lean.
-/
import CTM.Model.StageFiles
import CTM.Lemmas.Markers
import CTM.Lemmas.RefMarkers
import CTM.Lemmas.BridgePairs
import CTM.Props.C08
import CTM.Props.C10
import CTM.Props.C11

namespace CTM.StageFilesPairs
open CTM CTM.Markers CTM.StageFiles

/-! ### `mapME` -/

theorem mapME_ok_iff {α β ε} (f : α → Except ε β) (xs : List α) (ys : List β) :
    mapME f xs = .ok ys ↔ List.Forall₂ (fun x y => f x = .ok y) xs ys := by
  induction xs generalizing ys with
  | nil =>
    simp only [mapME, Except.ok.injEq]
    constructor
    · rintro rfl; exact .nil
    · intro h; cases h; rfl
  | cons a as ih =>
    simp only [mapME]
    cases ha : f a with
    | error e =>
      simp only [reduceCtorEq, false_iff]
      intro h; cases h with | cons h1 _ => rw [ha] at h1; cases h1
    | ok b =>
      cases has : mapME f as with
      | error e =>
        simp only [reduceCtorEq, false_iff]
        intro h
        cases h with
        | cons h1 h2 => rw [(ih _).2 h2] at has; cases has
      | ok bs =>
        simp only [Except.ok.injEq]
        constructor
        · rintro rfl; exact .cons ha ((ih _).1 has)
        · intro h
          cases h with
          | cons h1 h2 =>
            rw [ha] at h1; cases h1
            rw [(ih _).2 h2] at has; cases has; rfl

theorem mapME_ok_of_forall {α β ε} (f : α → Except ε β) (xs : List α)
    (h : ∀ x ∈ xs, ∃ y, f x = .ok y) : ∃ ys, mapME f xs = .ok ys := by
  induction xs with
  | nil => exact ⟨[], rfl⟩
  | cons a as ih =>
    obtain ⟨b, hb⟩ := h a List.mem_cons_self
    obtain ⟨bs, hbs⟩ := ih (fun x hx => h x (List.mem_cons_of_mem _ hx))
    exact ⟨b :: bs, by simp only [mapME, hb, hbs]⟩

theorem mapME_error_of_mem {α β ε} (f : α → Except ε β) (xs : List α) (x : α) (e : ε)
    (hx : x ∈ xs) (he : f x = .error e) : ∃ e', mapME f xs = .error e' := by
  induction xs with
  | nil => cases hx
  | cons a as ih =>
    simp only [mapME]
    rcases List.mem_cons.1 hx with rfl | hx
    · rw [he]; exact ⟨e, rfl⟩
    · obtain ⟨e', he'⟩ := ih hx
      cases f a with
      | error e2 => exact ⟨e2, rfl⟩
      | ok b => rw [he']; exact ⟨e', rfl⟩

theorem forall₂_map_eq {α β} (g : α → β) (xs : List α) (ys : List β) :
    List.Forall₂ (fun x y => g x = y) xs ys ↔ ys = xs.map g := by
  induction xs generalizing ys with
  | nil => constructor
           · intro h; cases h; rfl
           · rintro rfl; exact .nil
  | cons a as ih =>
    constructor
    · intro h; cases h with | cons h1 h2 => rw [(ih _).1 h2, ← h1]; rfl
    · rintro rfl; exact .cons rfl ((ih _).2 rfl)

/-! ### `geneNamesAt` -/

theorem geneNamesAt_ok_iff_forall₂ (G : List Gene) (idxs : List Nat) (names : List Gene) :
    geneNamesAt G idxs = .ok names ↔ List.Forall₂ (fun i g => G[i]? = some g) idxs names := by
  induction idxs generalizing names with
  | nil =>
    simp only [geneNamesAt, Except.ok.injEq]
    constructor
    · rintro rfl; exact .nil
    · intro h; cases h; rfl
  | cons i is ih =>
    simp only [geneNamesAt]
    cases hi : G[i]? with
    | none =>
      simp only [reduceCtorEq, false_iff]
      intro h; cases h with | cons h1 _ => rw [hi] at h1; cases h1
    | some g =>
      cases his : geneNamesAt G is with
      | error e =>
        simp only [reduceCtorEq, false_iff]
        intro h
        cases h with
        | cons h1 h2 => rw [(ih _).2 h2] at his; cases his
      | ok gs =>
        simp only [Except.ok.injEq]
        constructor
        · rintro rfl; exact .cons hi ((ih _).1 his)
        · intro h
          cases h with
          | cons h1 h2 =>
            rw [hi] at h1; cases h1
            rw [(ih _).2 h2] at his; cases his; rfl

/-- positions ↦ names: `gene_names[chosen_idx]` succeeds exactly when every position is inside
the list, and then returns the names at those positions, in order -/
theorem geneNamesAt_ok_iff (G : List Gene) (idxs : List Nat) (names : List Gene) :
    geneNamesAt G idxs = .ok names ↔
      (∀ i ∈ idxs, i < G.length) ∧ names = idxs.map (fun i => G.getD i 0) := by
  rw [geneNamesAt_ok_iff_forall₂]
  induction idxs generalizing names with
  | nil =>
    constructor
    · intro h; cases h; simp
    · rintro ⟨_, rfl⟩; exact .nil
  | cons i is ih =>
    constructor
    · intro h
      cases h with
      | cons h1 h2 =>
        obtain ⟨hlt, rfl⟩ := List.getElem?_eq_some_iff.1 h1
        obtain ⟨h3, rfl⟩ := (ih _).1 h2
        refine ⟨?_, ?_⟩
        · intro j hj
          rcases List.mem_cons.1 hj with rfl | hj
          · exact hlt
          · exact h3 j hj
        · simp [List.getD, hlt]
    · rintro ⟨h1, rfl⟩
      have hlt := h1 i List.mem_cons_self
      refine .cons ?_ ((ih _).2 ⟨fun j hj => h1 j (List.mem_cons_of_mem _ hj), rfl⟩)
      simp [List.getD, hlt]

theorem geneNamesAt_mem (G : List Gene) (idxs : List Nat) (names : List Gene)
    (h : geneNamesAt G idxs = .ok names) : ∀ g ∈ names, g ∈ G := by
  have h2 := (geneNamesAt_ok_iff_forall₂ G idxs names).1 h
  clear h
  induction h2 with
  | nil => intro g hg; cases hg
  | cons h1 _ ih =>
    intro g hg
    rcases List.mem_cons.1 hg with rfl | hg
    · exact List.mem_of_getElem? h1
    · exact ih g hg

theorem geneNamesAt_error_iff (G : List Gene) (idxs : List Nat) :
    (∃ e, geneNamesAt G idxs = .error e) ↔ ∃ i ∈ idxs, G.length ≤ i := by
  constructor
  · rintro ⟨e, he⟩
    apply Classical.byContradiction
    intro hno
    have : ∀ i ∈ idxs, i < G.length := by
      intro i hi
      apply Classical.byContradiction
      intro hlt
      exact hno ⟨i, hi, by omega⟩
    have := (geneNamesAt_ok_iff G idxs _).2 ⟨this, rfl⟩
    rw [he] at this; cases this
  · rintro ⟨i, hi, hle⟩
    cases h : geneNamesAt G idxs with
    | error e => exact ⟨e, rfl⟩
    | ok names =>
      have := ((geneNamesAt_ok_iff G idxs names).1 h).1 i hi
      omega

/-- the only error of `gene_names[chosen_idx]` is the `IndexError` -/
theorem geneNamesAt_error_class (G : List Gene) (idxs : List Nat) (e : SErr)
    (h : geneNamesAt G idxs = .error e) : e = .badGeneIndex := by
  induction idxs with
  | nil => simp [geneNamesAt] at h
  | cons i is ih =>
    simp only [geneNamesAt] at h
    split at h
    · cases h; rfl
    · split at h
      · rename_i e' he'
        cases h
        exact ih he'
      · cases h

/-! ### `nameToIdx` on a duplicate-free list is `index` -/

theorem nameToIdx_iff (names : List Gene) (hn : names.Nodup) (g : Gene) (i : Nat) :
    nameToIdx names g = some i ↔ names[i]? = some g := by
  constructor
  · exact nameToIdx_some names g i
  · intro h
    obtain ⟨j, hj⟩ := nameToIdx_of_mem names g (List.mem_of_getElem? h)
    have hj2 := nameToIdx_some names g j hj
    obtain ⟨hi, hgi⟩ := List.getElem?_eq_some_iff.1 h
    obtain ⟨hj', hgj⟩ := List.getElem?_eq_some_iff.1 hj2
    have : i = j := (List.Nodup.getElem_inj_iff hn).1 (hgi.trans hgj.symm)
    rw [this]; exact hj

/-! ### `enumerate` then `dict.get`: `zipIdx` / `lookup` -/

theorem lookup_zipIdx {α} [BEq α] [LawfulBEq α] (L : List α) (hL : L.Nodup) (n : Nat) (x : α) (k : Nat) :
    (L.zipIdx n).lookup x = some k ↔ n ≤ k ∧ L[k - n]? = some x := by
  induction L generalizing n with
  | nil => simp
  | cons a as ih =>
    have hnd := List.nodup_cons.1 hL
    simp only [List.zipIdx_cons, List.lookup_cons]
    by_cases hxa : x = a
    · subst hxa
      simp only [beq_self_eq_true, Option.some.injEq]
      constructor
      · rintro rfl; simp
      · rintro ⟨hle, hk⟩
        rcases Nat.eq_zero_or_pos (k - n) with h0 | hpos
        · omega
        · obtain ⟨j, hj⟩ : ∃ j, k - n = j + 1 := ⟨k - n - 1, by omega⟩
          rw [hj, List.getElem?_cons_succ] at hk
          exact absurd (List.mem_of_getElem? hk) hnd.1
    · have hb : (x == a) = false := by simpa using hxa
      simp only [hb]
      rw [ih hnd.2]
      constructor
      · rintro ⟨hle, hk⟩
        refine ⟨by omega, ?_⟩
        have : k - n = (k - (n + 1)) + 1 := by omega
        rw [this, List.getElem?_cons_succ]; exact hk
      · rintro ⟨hle, hk⟩
        rcases Nat.eq_zero_or_pos (k - n) with h0 | hpos
        · rw [h0] at hk
          simp only [List.getElem?_cons_zero, Option.some.injEq] at hk
          exact absurd hk.symm hxa
        · have : k - n = (k - (n + 1)) + 1 := by omega
          rw [this, List.getElem?_cons_succ] at hk
          exact ⟨by omega, hk⟩

/-! ### the reference-marker file -/

theorem idxToPair_spec (leaves : List Leaf) (h : leaves.Nodup) :
    (idxToPair leaves).Nodup ∧
    (∀ a b, (a, b) ∈ idxToPair leaves ↔ a ∈ leaves ∧ b ∈ leaves ∧ a < b) ∧
    (idxToPair leaves).length = leaves.length * (leaves.length - 1) / 2 := by
  have hs : (RawTree.sortNat leaves).Pairwise (· < ·) :=
    strict_of_sorted_nodup (Markers.sortNat_sorted _) (Markers.sortNat_nodup h)
  obtain ⟨h1, h2, h3⟩ := CTM.C11.pairs_exact (RawTree.sortNat leaves) hs
  refine ⟨h1, ?_, ?_⟩
  · intro a b
    rw [idxToPair, h2, Markers.mem_sortNat, Markers.mem_sortNat]
  · rw [idxToPair, h3, (Markers.sortNat_perm leaves).length_eq]

theorem idxOfPair_ok_iff (L : List (Leaf × Leaf)) (hL : L.Nodup) (G : List Gene) (n : Nat)
    (x : Leaf × Leaf) (k : Nat) :
    idxOfPair { geneNames := G, pairToIdx := L.zipIdx, nPairs := n } x = .ok k ↔ L[k]? = some x := by
  unfold idxOfPair
  have := lookup_zipIdx L hL 0 x k
  simp only [Nat.zero_le, Nat.sub_zero, true_and] at this
  rw [← this]
  cases (L.zipIdx).lookup x <;> simp

/-- `pair_to_idx` of `_prep_output_file` is the inverse of the finder's `idx_to_pair` -/
theorem idxOfPair_prepOutput (leaves : List Leaf) (names : List Gene) (h : leaves.Nodup)
    (x : Leaf × Leaf) (k : Nat) :
    idxOfPair (prepOutput leaves names) x = .ok k ↔ (idxToPair leaves)[k]? = some x :=
  idxOfPair_ok_iff _ (idxToPair_spec leaves h).1 names _ x k

/-- the only error of `idx_of_pair` is "not a valid taxonomy pair specification" -/
theorem idxOfPair_error_class (r : RefFile) (x : Leaf × Leaf) (e : SErr)
    (h : idxOfPair r x = .error e) : e = .badPair := by
  unfold idxOfPair at h
  split at h
  · cases h
  · cases h; rfl

theorem idxOfPair_prepOutput_total (leaves : List Leaf) (names : List Gene) (h : leaves.Nodup)
    (a b : Leaf) (ha : a ∈ leaves) (hb : b ∈ leaves) (hab : a < b) :
    ∃ k, idxOfPair (prepOutput leaves names) (a, b) = .ok k := by
  have hm : (a, b) ∈ idxToPair leaves := ((idxToPair_spec leaves h).2.1 a b).2 ⟨ha, hb, hab⟩
  obtain ⟨k, hk⟩ := List.getElem?_of_mem hm
  exact ⟨k, (idxOfPair_prepOutput leaves names h (a, b) k).2 hk⟩

/-- `idx_of_pair` raises exactly on what is not an ordered pair of two leaves -/
theorem idxOfPair_prepOutput_error_iff (leaves : List Leaf) (names : List Gene) (h : leaves.Nodup)
    (a b : Leaf) :
    idxOfPair (prepOutput leaves names) (a, b) = .error .badPair ↔ ¬ (a ∈ leaves ∧ b ∈ leaves ∧ a < b) := by
  constructor
  · rintro he ⟨ha, hb, hab⟩
    obtain ⟨k, hk⟩ := idxOfPair_prepOutput_total leaves names h a b ha hb hab
    rw [he] at hk; cases hk
  · intro hno
    cases hk : idxOfPair (prepOutput leaves names) (a, b) with
    | error e => rw [idxOfPair_error_class _ _ e hk]
    | ok k =>
      have := (idxOfPair_prepOutput leaves names h (a, b) k).1 hk
      exact absurd (((idxToPair_spec leaves h).2.1 a b).1 (List.mem_of_getElem? this)) hno

/-! ### the marker table -/

/-- the names the selection stage writes for parent `p` -/
def namesOf (G : List Gene) (chosen : PKey → List Nat) (p : PKey) : List Gene :=
  (chosen p).map (fun i => G.getD i 0)

theorem markerTable_ok_iff (r : RefFile) (order : List PKey) (chosen : PKey → List Nat) (lk : Lookup) :
    markerTable r order chosen = .ok lk ↔
      (∀ p ∈ order, ∀ i ∈ chosen p, i < r.geneNames.length) ∧
      lk = order.map (fun p => (p, namesOf r.geneNames chosen p)) := by
  unfold markerTable
  rw [mapME_ok_iff]
  induction order generalizing lk with
  | nil =>
    constructor
    · intro h; cases h; simp
    · rintro ⟨_, rfl⟩; exact .nil
  | cons p ps ih =>
    constructor
    · intro h
      cases h with
      | cons h1 h2 =>
        obtain ⟨h3, rfl⟩ := (ih _).1 h2
        cases hg : geneNamesAt r.geneNames (chosen p) with
        | error e => simp only [hg, reduceCtorEq] at h1
        | ok gs =>
          simp only [hg, Except.ok.injEq] at h1
          subst h1
          obtain ⟨h4, rfl⟩ := (geneNamesAt_ok_iff _ _ _).1 hg
          refine ⟨?_, rfl⟩
          intro q hq
          rcases List.mem_cons.1 hq with rfl | hq
          · exact h4
          · exact h3 q hq
    · rintro ⟨h1, rfl⟩
      refine .cons ?_ ((ih _).2 ⟨fun q hq => h1 q (List.mem_cons_of_mem _ hq), rfl⟩)
      have := (geneNamesAt_ok_iff r.geneNames (chosen p) _).2 ⟨h1 p List.mem_cons_self, rfl⟩
      simp only [this]
      rfl

theorem markerTable_error_class (r : RefFile) (order : List PKey) (chosen : PKey → List Nat) (e : SErr)
    (h : markerTable r order chosen = .error e) : e = .badGeneIndex := by
  unfold markerTable at h
  induction order with
  | nil => simp [mapME] at h
  | cons p ps ih =>
    simp only [mapME] at h
    cases hg : geneNamesAt r.geneNames (chosen p) with
    | error e' =>
      simp only [hg, Except.error.injEq] at h
      subst h
      exact geneNamesAt_error_class _ _ _ hg
    | ok gs =>
      simp only [hg] at h
      split at h
      · rename_i e' he'
        cases h
        exact ih he'
      · cases h

theorem get?_map_mk (order : List PKey) (F : PKey → List Gene) (k : PKey) :
    get? (order.map (fun p => (p, F p))) k = if k ∈ order then some (F k) else none := by
  induction order with
  | nil => simp [get?]
  | cons p ps ih =>
    simp only [get?, List.map_cons, List.lookup_cons, List.mem_cons] at ih ⊢
    by_cases hk : k = p
    · subst hk; simp
    · have : (k == p) = false := by simpa using hk
      simp only [this, ih, hk, false_or]

theorem get?_perm (lk lk' : Lookup) (hp : lk.Perm lk') (hk : KeysNodup lk) (k : PKey) :
    get? lk k = get? lk' k := by
  have hk' : KeysNodup lk' := by
    unfold KeysNodup at hk ⊢
    exact (hp.map _).nodup_iff.1 hk
  cases h : get? lk k with
  | some l => exact (get?_of_mem lk' hk' k l (hp.mem_iff.1 (mem_of_get? lk k l h))).symm
  | none =>
    cases h' : get? lk' k with
    | none => rfl
    | some l =>
      have := get?_of_mem lk hk k l (hp.mem_iff.2 (mem_of_get? lk' k l h'))
      rw [h] at this; cases this

/-! ### acceptance by the marker cache -/

theorem markerTable_keys (r : RefFile) (order : List PKey) (chosen : PKey → List Nat) (lk : Lookup)
    (h : markerTable r order chosen = .ok lk) : lk.map (·.1) = order := by
  obtain ⟨_, rfl⟩ := (markerTable_ok_iff r order chosen lk).1 h
  rw [List.map_map]
  exact List.map_id' _

theorem markerTable_entry (r : RefFile) (order : List PKey) (chosen : PKey → List Nat) (lk : Lookup)
    (h : markerTable r order chosen = .ok lk) (p : PKey) (gs : List Gene) (hm : (p, gs) ∈ lk) :
    p ∈ order ∧ geneNamesAt r.geneNames (chosen p) = .ok gs := by
  obtain ⟨h1, rfl⟩ := (markerTable_ok_iff r order chosen lk).1 h
  obtain ⟨q, hq, he⟩ := List.mem_map.1 hm
  simp only [Prod.mk.injEq] at he
  obtain ⟨rfl, rfl⟩ := he
  exact ⟨hq, (geneNamesAt_ok_iff _ _ _).2 ⟨h1 q hq, rfl⟩⟩

theorem markerTable_genes (r : RefFile) (order : List PKey) (chosen : PKey → List Nat) (lk : Lookup)
    (h : markerTable r order chosen = .ok lk) : ∀ e ∈ lk, ∀ g ∈ e.2, g ∈ r.geneNames := by
  rintro ⟨p, gs⟩ he g hg
  exact geneNamesAt_mem _ _ _ (markerTable_entry r order chosen lk h p gs he).2 g hg

theorem markerTable_keysNodup (r : RefFile) (order : List PKey) (chosen : PKey → List Nat) (lk : Lookup)
    (h : markerTable r order chosen = .ok lk) (hn : order.Nodup) : KeysNodup lk := by
  unfold KeysNodup
  rw [markerTable_keys r order chosen lk h]; exact hn

theorem markerTable_get? (r : RefFile) (order : List PKey) (chosen : PKey → List Nat) (lk : Lookup)
    (h : markerTable r order chosen = .ok lk) (k : PKey) :
    get? lk k = if k ∈ order then some (namesOf r.geneNames chosen k) else none := by
  obtain ⟨_, rfl⟩ := (markerTable_ok_iff r order chosen lk).1 h
  exact get?_map_mk order _ k

/-- the next stage never answers "marker genes are not in the reference dataset" to a table
all of whose genes are reference genes -/
theorem createCache_ne_notInReference (t : RawTree) (hT : TreeOK t) (lk : Lookup) (R Q : List Gene)
    (m : Nat) (hR : ∀ e ∈ lk, ∀ g ∈ e.2, g ∈ R) :
    createCache (some t) lk R Q m ≠ .error .notInReference := by
  intro h
  rw [createCache_some] at h
  cases hv : validateLookup t Q m lk with
  | error e' =>
    simp only [hv, Except.error.injEq] at h
    subst h
    rcases (validateLookup_error t hT Q m lk _ hv).1 with h | h <;> cases h
  | ok lk' =>
    obtain ⟨cons, hc⟩ := consultedOf_ok t t.allParents hT.childrenOk
    simp only [hv, hc] at h
    cases hi : intersectAll Q (some cons) lk' with
    | error e' =>
      simp only [hi, Except.error.injEq] at h
      subst h
      have := (intersectAll_error Q _ lk' _ hi).1
      cases this
    | ok final =>
      simp only [hi] at h
      have hfrom := validateLookup_genesFrom t hT Q m lk lk' hv
      have hR' : ∀ e ∈ lk', ∀ g ∈ e.2, g ∈ R := by
        intro e he g hg
        obtain ⟨e0, he0, hg0⟩ := hfrom e he g hg
        exact hR e0 he0 g hg0
      have hm : missingRef R lk' = false := (missingRef_false_iff R lk').2 hR'
      simp only [hm, Bool.false_eq_true, if_false] at h
      have hf := intersectAll_ok_eq Q (some cons) lk' final hi
      subst hf
      obtain ⟨gs, hgs⟩ := writeGroups_ok R Q (lk'.map (fun e => (e.1, interQ Q e.2))) (by
        intro e he g hg
        obtain ⟨e0, he0, rfl⟩ := List.mem_map.1 he
        have := (mem_interQ Q e0.2 g).1 hg
        exact ⟨hR' e0 he0 g this.1, this.2⟩)
      simp [writeCache, hgs] at h

/-- a parent whose own list shares a gene with the query is not in the error condition -/
theorem not_errAt_of_own (t : RawTree) (lk : Lookup) (Q : List Gene) (m : Nat) (p : PKey)
    (gs : List Gene) (hget : get? lk p = some gs) (g : Gene) (hg : g ∈ gs) (hq : g ∈ Q) :
    ¬ errAt t lk Q m p := by
  rintro (⟨_, h⟩ | h)
  · subst_vars
    rw [hget] at h
    simp only [Option.getD_some] at h
    rw [h] at hg; cases hg
  · have := (C08.own_survive t lk Q m p g).1 (by rw [hget]; exact hg) hq
    rw [h] at this; cases this

/-! ### the pairs a parent's selection asks for -/

section tree
open CTM.RawTree
variable {t : RawTree}

/-- where `children` raises or no child level exists, `leaves_to_compare` is empty -/
theorem leafPairs_nil_or (t : RawTree) (hne : t.hierarchy ≠ []) (parent : Option (Level × Node)) :
    t.leafPairs parent = [] ∨
      ∃ sibs cl, t.children parent = .ok sibs ∧ t.levelUnder parent = some cl := by
  cases parent with
  | none =>
    right
    obtain ⟨l0, rest, hh⟩ := List.exists_cons_of_ne_nil hne
    exact ⟨t.nodesAt l0, l0, by simp [children, hh], by simp [levelUnder, hh]⟩
  | some ln =>
    obtain ⟨l, n⟩ := ln
    by_cases h1 : l ∈ t.levels.map (·.1)
    · by_cases h2 : n ∈ t.nodesAt l
      · cases hcl : t.childLevel l with
        | none => left; simp [leafPairs, hcl]
        | some cl =>
          right
          exact ⟨t.entry l n, cl, children_some_ok_iff.2 ⟨h1, h2, rfl⟩, by simp [levelUnder, hcl]⟩
      · left
        have he : t.entry l n = [] := by
          unfold entry
          cases hlk : (t.level l).lookup n with
          | none => rfl
          | some v =>
            exfalso; apply h2
            unfold nodesAt
            exact Markers.lookup_mem_map_fst _ _ _ hlk
        simp only [leafPairs, he]
        split <;> rename_i hs
        · rfl
        · split at hs
          · cases hs
          · cases hc : t.childLevel l with
            | none => simp [hc] at hs
            | some cl =>
              simp only [hc, Option.map_some, Option.some.injEq] at hs
              cases hs
              simp [RawTree.combos2]
    · left
      have hl : t.level l = [] := by
        unfold level
        cases hlk : t.levels.lookup l with
        | none => rfl
        | some v => exact absurd (Markers.lookup_mem_map_fst _ _ _ hlk) h1
      have he : t.entry l n = [] := by simp [entry, hl]
      simp only [leafPairs, he]
      split <;> rename_i hs
      · rfl
      · split at hs
        · cases hs
        · cases hc : t.childLevel l with
          | none => simp [hc] at hs
          | some cl =>
            simp only [hc, Option.map_some, Option.some.injEq] at hs
            cases hs
            simp [RawTree.combos2]

/-- the children of a parent are nodes of the level below it -/
theorem sibs_sub (w : WF t) (parent : Option (Level × Node)) (sibs : List Node) (cl : Level)
    (hs : t.children parent = .ok sibs) (hcl : t.levelUnder parent = some cl) :
    ∃ i, ∃ hi : i < t.hierarchy.length, cl = t.hierarchy[i] ∧ ∀ c ∈ sibs, c ∈ t.nodesAt cl := by
  have s := strict_of_validate w.valid
  have hlen := List.length_pos_iff.2 w.hNe
  cases parent with
  | none =>
    have h0 : t.hierarchy.head? = some t.hierarchy[0] := by
      rw [List.head?_eq_getElem?]; exact List.getElem?_eq_getElem hlen
    simp only [levelUnder, h0, Option.some.injEq] at hcl
    subst hcl
    simp only [children, h0] at hs
    cases hs
    exact ⟨0, hlen, rfl, fun _ h => h⟩
  | some ln =>
    obtain ⟨l, n⟩ := ln
    simp only [levelUnder] at hcl
    have hln := children_some_ok_iff.1 hs
    have hln : l ∈ t.hierarchy ∧ n ∈ t.nodesAt l ∧ sibs = t.entry l n :=
      ⟨s.keysSub l hln.1, hln.2⟩
    obtain ⟨hl, hnm, rfl⟩ := hln
    obtain ⟨i, hi, rfl⟩ := List.mem_iff_getElem.1 hl
    rw [childLevel_getElem w.hNodup hi] at hcl
    have hi1 : i + 1 < t.hierarchy.length := by
      rcases Nat.lt_or_ge (i+1) t.hierarchy.length with h | h
      · exact h
      · rw [List.getElem?_eq_none h] at hcl; cases hcl
    rw [List.getElem?_eq_getElem hi1] at hcl
    cases hcl
    exact ⟨i + 1, hi1, rfl, fun c hc => s.entry_sub hi1 hnm hc⟩

theorem leavesOf_eq (w : WF t) :
    leavesOf t = t.nodesAt (t.hierarchy[t.hierarchy.length - 1]'(by
      have := List.length_pos_iff.2 w.hNe; omega)) := by
  unfold leavesOf
  rw [leafLevel_eq w.hNe]

theorem leavesOf_nodup (w : WF t) : (leavesOf t).Nodup := by
  rw [leavesOf_eq w]; exact w.dict.nodesAt_nodup _

/-- every pair `leaves_to_compare` lists is an ordered pair of two leaves of the taxonomy -/
theorem leafPairs_leaves (w : WF t) (parent : Option (Level × Node)) (a b : Node)
    (h : (a, b) ∈ t.leafPairs parent) : a ∈ leavesOf t ∧ b ∈ leavesOf t ∧ a < b := by
  rcases leafPairs_nil_or t w.hNe parent with h0 | ⟨sibs, cl, hs, hcl⟩
  · rw [h0] at h; cases h
  · have s := strict_of_validate w.valid
    obtain ⟨hlt, s0, s1, h0, h1, _, ha, hb⟩ := ((C10.pairs_exact t w parent sibs cl hs hcl).2 a b).1 h
    obtain ⟨i, hi, rfl, hsub⟩ := sibs_sub w parent sibs cl hs hcl
    rw [leavesOf_eq w]
    exact ⟨asLeaves_sub_leaf s w.hNodup hi (hsub s0 h0) ha,
      asLeaves_sub_leaf s w.hNodup hi (hsub s1 h1) hb, hlt⟩

theorem leafPairs_nodup (w : WF t) (parent : Option (Level × Node)) : (t.leafPairs parent).Nodup := by
  rcases leafPairs_nil_or t w.hNe parent with h0 | ⟨sibs, cl, hs, hcl⟩
  · rw [h0]; exact List.nodup_nil
  · exact (C10.pairs_exact t w parent sibs cl hs hcl).1

end tree

/-! ### `Forall₂` plumbing -/

theorem forall₂_mem_right {α β} {R : α → β → Prop} {xs : List α} {ys : List β}
    (h : List.Forall₂ R xs ys) : ∀ y ∈ ys, ∃ x ∈ xs, R x y := by
  induction h with
  | nil => intro y hy; cases hy
  | cons h1 _ ih =>
    intro y hy
    rcases List.mem_cons.1 hy with rfl | hy
    · exact ⟨_, List.mem_cons_self, h1⟩
    · obtain ⟨x, hx, hr⟩ := ih y hy
      exact ⟨x, List.mem_cons_of_mem _ hx, hr⟩

theorem forall₂_mem_left {α β} {R : α → β → Prop} {xs : List α} {ys : List β}
    (h : List.Forall₂ R xs ys) : ∀ x ∈ xs, ∃ y ∈ ys, R x y := by
  induction h with
  | nil => intro x hx; cases hx
  | cons h1 _ ih =>
    intro x hx
    rcases List.mem_cons.1 hx with rfl | hx
    · exact ⟨_, List.mem_cons_self, h1⟩
    · obtain ⟨y, hy, hr⟩ := ih x hx
      exact ⟨y, List.mem_cons_of_mem _ hy, hr⟩

theorem forall₂_nodup_right {α β} {R : α → β → Prop} {xs : List α} {ys : List β}
    (h : List.Forall₂ R xs ys) (hinj : ∀ x x' y, R x y → R x' y → x = x') (hn : xs.Nodup) :
    ys.Nodup := by
  induction h with
  | nil => exact List.nodup_nil
  | cons h1 h2 ih =>
    have hn' := List.nodup_cons.1 hn
    refine List.nodup_cons.2 ⟨?_, ih hn'.2⟩
    intro hy
    obtain ⟨x, hx, hr⟩ := forall₂_mem_right h2 _ hy
    exact hn'.1 (hinj _ _ _ h1 hr ▸ hx)

theorem forall₂_length {α β} {R : α → β → Prop} {xs : List α} {ys : List β}
    (h : List.Forall₂ R xs ys) : xs.length = ys.length := by
  induction h with
  | nil => rfl
  | cons _ _ ih => simp [ih]

theorem forall₂_ok_eq_map {α β ε} (f : α → Except ε β) (d : β) {xs : List α} {ys : List β}
    (h : List.Forall₂ (fun x y => f x = .ok y) xs ys) :
    ys = xs.map (fun x => (f x).toOption.getD d) := by
  induction h with
  | nil => rfl
  | cons h1 _ ih => rw [List.map_cons, ← ih, h1]; rfl

/-! ### `_get_taxonomy_idx` -/

/-- `_get_taxonomy_idx` against the file `_prep_output_file` wrote for the same taxonomy never
raises, and returns, sorted and without repetition, exactly the finder's rows of the pairs
`leaves_to_compare(parent)` lists -/
theorem taxonomyIdx_spec {t : RawTree} (w : RawTree.WF t) (names : List Gene) (parent : PKey) :
    ∃ ks, taxonomyIdx (prepOutput (leavesOf t) names) t parent = .ok ks ∧
      ks.Pairwise (· < ·) ∧ ks.length = (t.leafPairs parent).length ∧
      (∀ k, k ∈ ks ↔ ∃ x ∈ t.leafPairs parent, (idxToPair (leavesOf t))[k]? = some x) ∧
      List.Forall₂ (fun x k => (idxToPair (leavesOf t))[k]? = some x) (t.leafPairs parent)
        ((t.leafPairs parent).map (fun x => (idxOfPair (prepOutput (leavesOf t) names) x).toOption.getD 0)) := by
  have hnd := leavesOf_nodup w
  have hLnd := (idxToPair_spec (leavesOf t) hnd).1
  obtain ⟨ks0, hks0⟩ := mapME_ok_of_forall (idxOfPair (prepOutput (leavesOf t) names))
    (t.leafPairs parent) (by
      rintro ⟨a, b⟩ hx
      obtain ⟨ha, hb, hab⟩ := leafPairs_leaves w parent a b hx
      exact idxOfPair_prepOutput_total _ names hnd a b ha hb hab)
  have hF := (mapME_ok_iff _ _ _).1 hks0
  simp only [idxOfPair_prepOutput _ names hnd] at hF
  refine ⟨RawTree.sortNat ks0, by simp only [taxonomyIdx, hks0], ?_, ?_, ?_, ?_⟩
  · refine strict_of_sorted_nodup (Markers.sortNat_sorted _) (Markers.sortNat_nodup ?_)
    refine forall₂_nodup_right hF ?_ (leafPairs_nodup w parent)
    intro x x' k h1 h2
    rw [h1] at h2; exact Option.some.inj h2
  · rw [(Markers.sortNat_perm ks0).length_eq, ← forall₂_length hF]
  · intro k
    rw [Markers.mem_sortNat]
    constructor
    · exact forall₂_mem_right hF k
    · rintro ⟨x, hx, hk⟩
      obtain ⟨k', hk', hr⟩ := forall₂_mem_left hF x hx
      have : k = k' := by
        obtain ⟨h1, e1⟩ := List.getElem?_eq_some_iff.1 hk
        obtain ⟨h2, e2⟩ := List.getElem?_eq_some_iff.1 hr
        exact (List.Nodup.getElem_inj_iff hLnd).1 (e1.trans e2.symm)
      rw [this]; exact hk'
  · have : ks0 = (t.leafPairs parent).map
        (fun x => (idxOfPair (prepOutput (leavesOf t) names) x).toOption.getD 0) := by
      exact forall₂_ok_eq_map _ 0 ((mapME_ok_iff _ _ _).1 hks0)
    rw [← this]; exact hF

/-- distinct pairs of one parent have distinct columns (hypothesis of the C12 bridge) -/
theorem idxInjOn_prepOutput {t : RawTree} (w : RawTree.WF t) (names : List Gene) (parent : PKey) :
    Bridge.IdxInjOn (fun x => (idxOfPair (prepOutput (leavesOf t) names) x).toOption.getD 0)
      (t.leafPairs parent) := by
  have hnd := leavesOf_nodup w
  intro x hx y hy hxy
  have key : ∀ z ∈ t.leafPairs parent, (idxToPair (leavesOf t))[
      (idxOfPair (prepOutput (leavesOf t) names) z).toOption.getD 0]? = some z := by
    rintro ⟨a, b⟩ hz
    obtain ⟨ha, hb, hab⟩ := leafPairs_leaves w parent a b hz
    obtain ⟨k, hk⟩ := idxOfPair_prepOutput_total _ names hnd a b ha hb hab
    rw [hk]
    exact (idxOfPair_prepOutput _ names hnd (a, b) k).1 hk
  have h1 := key x hx
  have h2 := key y hy
  simp only at hxy
  rw [hxy, h2] at h1
  exact (Option.some.inj h1).symm

/-! ### the delivery order of the workers is immaterial -/

theorem markerTable_perm (r : RefFile) (order order' : List PKey) (chosen : PKey → List Nat)
    (hp : order.Perm order') (lk : Lookup) (h : markerTable r order chosen = .ok lk) :
    ∃ lk', markerTable r order' chosen = .ok lk' ∧ lk.Perm lk' ∧ ∀ k, get? lk k = get? lk' k := by
  obtain ⟨h1, rfl⟩ := (markerTable_ok_iff r order chosen lk).1 h
  refine ⟨_, (markerTable_ok_iff r order' chosen _).2 ⟨fun p hpm => h1 p (hp.mem_iff.2 hpm), rfl⟩,
    hp.map _, ?_⟩
  intro k
  rw [get?_map_mk, get?_map_mk]
  by_cases hk : k ∈ order
  · rw [if_pos hk, if_pos (hp.mem_iff.1 hk)]
  · rw [if_neg hk, if_neg (fun h' => hk (hp.mem_iff.2 h'))]

/-- the validation reads the table by key only -/
theorem errAt_congr (t : RawTree) (lk lk' : Lookup) (Q : List Gene) (m : Nat) (p : PKey)
    (h : ∀ k, get? lk k = get? lk' k) : errAt t lk Q m p ↔ errAt t lk' Q m p := by
  have : get? lk = get? lk' := funext h
  unfold errAt specGenes
  simp only [this]

/-- acceptance of a dict-like table of reference genes is decided by the error condition of the
consulted parents alone -/
theorem createCache_ok_iff (t : RawTree) (hT : TreeWF t) (lk : Lookup) (R Q : List Gene) (m : Nat)
    (hk : KeysNodup lk) (hR : ∀ e ∈ lk, ∀ g ∈ e.2, g ∈ R) :
    (∃ c, createCache (some t) lk R Q m = .ok c) ↔
      ∀ p ∈ t.allParents, Consulted t p → ¬ errAt t lk Q m p := by
  constructor
  · rintro ⟨c, hc⟩ p hp hcons he
    obtain ⟨e, hee⟩ := createCache_rejects_errAt t (treeOK_of_wf t hT) lk R Q m p hp hcons he
    rw [hc] at hee; cases hee
  · intro h
    exact C08.accepted_otherwise t hT lk R Q m hk h hR

/-- the only refusals a table of reference genes with distinct keys can meet are the two
messages of `validate_marker_lookup` about the QUERY lacking markers -/
theorem createCache_error_query_only (t : RawTree) (hT : TreeWF t) (lk : Lookup) (R Q : List Gene)
    (m : Nat) (hk : KeysNodup lk) (hR : ∀ e ∈ lk, ∀ g ∈ e.2, g ∈ R) (e : MErr)
    (h : createCache (some t) lk R Q m = .error e) : e = .noMarkersAnyLevel ∨ e = .validating := by
  rcases C08.only_documented_errors t hT lk R Q m e h with h1 | h1 | h1 | h1
  · exact Or.inl h1
  · exact Or.inr h1
  · subst h1; exact absurd h (C08.overlap_error_unreachable t hT lk R Q m hk)
  · subst h1; exact absurd h (createCache_ne_notInReference t (treeOK_of_wf t hT) lk R Q m hR)

/-- example taxonomy: levels 0, 1; nodes 11 ⊃ {33}, 10 ⊃ {31, 30}; leaves 33, 30, 31 -/
def exTr : RawTree :=
  { hierarchy := [0, 1],
    levels := [(0, [(11, [33]), (10, [31, 30])]), (1, [(33, [103, 104]), (30, [100]), (31, [101, 102])])] }

theorem exTr_wf : RawTree.WF exTr :=
  ⟨by decide, by decide, by decide, RawTree.dictOK_of_b (by decide)⟩

end CTM.StageFilesPairs
