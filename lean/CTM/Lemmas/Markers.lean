/-
  Helper lemmas for C08 / C07 (CTM.Markers, CTM.Normalize).
  Core Lean only so far; statements of the properties are in CTM/Props.
-/
import CTM.Model.Markers

namespace CTM
namespace Markers
open RawTree (sortNat insertSorted)

/-! ### sorting and de-duplication -/

theorem mem_insertSorted (x a : Nat) (l : List Nat) : a ∈ insertSorted x l ↔ a = x ∨ a ∈ l := by
  induction l with
  | nil => simp [insertSorted]
  | cons y ys ih =>
    simp only [insertSorted]
    split <;> simp [ih] <;> grind

theorem insertSorted_perm (x : Nat) (l : List Nat) : (insertSorted x l).Perm (x :: l) := by
  induction l with
  | nil => simp [insertSorted]
  | cons y ys ih =>
    simp only [insertSorted]
    split
    · exact List.Perm.refl _
    · exact (List.Perm.cons y ih).trans (List.Perm.swap x y ys)

theorem sortNat_perm (l : List Nat) : (sortNat l).Perm l := by
  induction l with
  | nil => simp [sortNat]
  | cons x xs ih =>
    simp only [sortNat]
    exact (insertSorted_perm x _).trans (List.Perm.cons x ih)

theorem insertSorted_sorted (x : Nat) (l : List Nat) (h : l.Pairwise (· ≤ ·)) :
    (insertSorted x l).Pairwise (· ≤ ·) := by
  induction l with
  | nil => simp [insertSorted]
  | cons y ys ih =>
    simp only [insertSorted]
    split
    · rename_i hxy
      refine List.Pairwise.cons ?_ h
      intro a ha
      rcases List.mem_cons.1 ha with rfl | ha
      · exact hxy
      · exact Nat.le_trans hxy (List.rel_of_pairwise_cons h ha)
    · rename_i hxy
      have h' := List.pairwise_cons.1 h
      refine List.Pairwise.cons ?_ (ih h'.2)
      intro a ha
      rcases (mem_insertSorted x a ys).1 ha with rfl | ha
      · omega
      · exact h'.1 a ha

theorem sortNat_sorted (l : List Nat) : (sortNat l).Pairwise (· ≤ ·) := by
  induction l with
  | nil => simp [sortNat]
  | cons x xs ih => exact insertSorted_sorted x _ ih

theorem mem_dedup (a : Nat) (l : List Nat) : a ∈ dedup l ↔ a ∈ l := by
  induction l with
  | nil => simp [dedup]
  | cons x xs ih =>
    simp only [dedup]
    split
    · rename_i h
      simp only [List.contains_iff_mem] at h
      simp [ih]; grind
    · simp [ih]

theorem nodup_dedup (l : List Nat) : (dedup l).Nodup := by
  induction l with
  | nil => simp [dedup]
  | cons x xs ih =>
    simp only [dedup]
    split
    · exact ih
    · rename_i h
      simp only [List.contains_iff_mem] at h
      exact List.nodup_cons.2 ⟨by rw [mem_dedup]; exact h, ih⟩

theorem mem_sortNat (a : Nat) (l : List Nat) : a ∈ sortNat l ↔ a ∈ l :=
  (sortNat_perm l).mem_iff

theorem sortNat_nodup {l : List Nat} (h : l.Nodup) : (sortNat l).Nodup :=
  (sortNat_perm l).nodup_iff.2 h

/-- a sorted list without repetition is strictly increasing -/
theorem strict_of_sorted_nodup {l : List Nat} (hs : l.Pairwise (· ≤ ·)) (hn : l.Nodup) :
    l.Pairwise (· < ·) := by
  induction l with
  | nil => simp
  | cons x xs ih =>
    have hs' := List.pairwise_cons.1 hs
    have hn' := List.nodup_cons.1 hn
    refine List.Pairwise.cons ?_ (ih hs'.2 hn'.2)
    intro a ha
    have := hs'.1 a ha
    have : a ≠ x := fun h => hn'.1 (h ▸ ha)
    omega

theorem mem_interQ (Q l : List Gene) (g : Gene) : g ∈ interQ Q l ↔ g ∈ l ∧ g ∈ Q := by
  simp [interQ, mem_dedup, List.mem_filter]

theorem nodup_interQ (Q l : List Gene) : (interQ Q l).Nodup := nodup_dedup _

theorem mem_sortedInter (Q l : List Gene) (g : Gene) : g ∈ sortedInter Q l ↔ g ∈ l ∧ g ∈ Q := by
  simp [sortedInter, mem_sortNat, mem_interQ]

theorem sortedInter_strict (Q l : List Gene) : (sortedInter Q l).Pairwise (· < ·) :=
  strict_of_sorted_nodup (sortNat_sorted _) (sortNat_nodup (nodup_interQ Q l))

/-- `interQ` sees the query only as a set -/
theorem interQ_congr {Q Q' : List Gene} (h : ∀ g, g ∈ Q ↔ g ∈ Q') (l : List Gene) :
    interQ Q l = interQ Q' l := by
  unfold interQ
  congr 1
  apply List.filter_congr
  intro g _
  have := h g
  by_cases hg : g ∈ Q <;> simp_all

theorem countQ_eq_zero (Q l : List Gene) : countQ Q l = 0 ↔ ∀ g ∈ l, g ∉ Q := by
  unfold countQ
  rw [List.length_eq_zero_iff]
  constructor
  · intro h g hg hq
    have : g ∈ interQ Q l := (mem_interQ Q l g).2 ⟨hg, hq⟩
    rw [h] at this; cases this
  · intro h
    apply List.eq_nil_iff_forall_not_mem.2
    intro g hg
    have := (mem_interQ Q l g).1 hg
    exact h g this.1 this.2

theorem hasKey_iff (lk : Lookup) (k : PKey) : hasKey lk k = true ↔ (get? lk k).isSome := by
  induction lk with
  | nil => simp [hasKey, get?]
  | cons e es ih =>
    obtain ⟨k', v⟩ := e
    simp only [hasKey, get?] at ih
    simp only [hasKey, get?, List.any_cons, List.lookup_cons, Bool.or_eq_true, beq_iff_eq]
    grind

theorem get?_map_set (lk : Lookup) (k k' : PKey) (v : List Gene) :
    get? (lk.map (fun e => if e.1 == k then (e.1, v) else e)) k' =
      if k' = k then (if (get? lk k).isSome then some v else none) else get? lk k' := by
  induction lk with
  | nil => simp [get?]
  | cons e es ih =>
    obtain ⟨k0, v0⟩ := e
    simp only [get?] at ih
    simp only [get?, List.map_cons, List.lookup_cons, beq_iff_eq]
    grind

theorem get?_append_single (lk : Lookup) (k k' : PKey) (v : List Gene) :
    get? (lk ++ [(k, v)]) k' = match get? lk k' with
      | some x => some x
      | none => if k' = k then some v else none := by
  induction lk with
  | nil => simp only [get?, List.nil_append, List.lookup_cons, List.lookup_nil]; grind
  | cons e es ih =>
    obtain ⟨k0, v0⟩ := e
    simp only [get?] at ih
    simp only [get?, List.cons_append, List.lookup_cons, beq_iff_eq]
    grind

theorem get?_set_self (lk : Lookup) (k : PKey) (v : List Gene) : get? (set lk k v) k = some v := by
  unfold set
  split
  · rename_i h
    rw [get?_map_set]; simp [(hasKey_iff lk k).1 h]
  · rename_i h
    rw [get?_append_single]
    have : get? lk k = none := by
      cases hg : get? lk k with
      | none => rfl
      | some x => exact absurd ((hasKey_iff lk k).2 (by simp [hg])) h
    simp [this]

theorem get?_set_ne (lk : Lookup) {k k' : PKey} (v : List Gene) (h : k' ≠ k) :
    get? (set lk k v) k' = get? lk k' := by
  unfold set
  split
  · rw [get?_map_set]; simp [h]
  · rw [get?_append_single]
    cases get? lk k' <;> simp [h]

/-! ### shape of one patch -/

/-- the pair (dict after the patch, `marker_lookup[parent_str]` after the
patch) of `patchAndCount`, as a function of the dict before -/
def patchResult (t : RawTree) (Q : List Gene) (m : Nat) (readLk lk0 : Lookup) (p : PKey)
    (own : List Gene) : Lookup × List Gene :=
  if countQ Q own < m then
    match p with
    | none => (lk0, own)
    | some (l, n) =>
      if (patchOf t Q m readLk l n own).2.isEmpty then (lk0, own)
      else (set lk0 p (sortedInter Q (patchOf t Q m readLk l n own).1),
            sortedInter Q (patchOf t Q m readLk l n own).1)
  else (lk0, own)

theorem patchAndCount_eq (t : RawTree) (Q : List Gene) (m : Nat) (readLk : Lookup) (st : VState)
    (p : PKey) (own : List Gene) :
    patchAndCount t Q m readLk st p own =
      if countQ Q (patchResult t Q m readLk st.lookup p own).2 == 0 then
        { st with lookup := (patchResult t Q m readLk st.lookup p own).1, anyErr := true, bad := st.bad + 1 }
      else { st with lookup := (patchResult t Q m readLk st.lookup p own).1 } := by
  unfold patchAndCount patchResult
  by_cases hlt : countQ Q own < m
  · simp only [hlt, if_true]
    cases p with
    | none => rfl
    | some ln =>
      obtain ⟨l, n⟩ := ln
      rfl
  · simp only [hlt, if_false]

/-- either nothing is written and the entry is the own list, or the entry of a
non-root parent with too few own markers is overwritten by the sorted
intersection of the query with the patched list -/
theorem patchResult_cases (t : RawTree) (Q : List Gene) (m : Nat) (readLk lk0 : Lookup) (p : PKey)
    (own : List Gene) :
    (patchResult t Q m readLk lk0 p own = (lk0, own) ∧
      ∀ l n, p = some (l, n) → countQ Q own < m → (patchOf t Q m readLk l n own).2 = []) ∨
    (∃ l n, p = some (l, n) ∧ countQ Q own < m ∧ (patchOf t Q m readLk l n own).2 ≠ [] ∧
      patchResult t Q m readLk lk0 p own =
        (set lk0 p (sortedInter Q (patchOf t Q m readLk l n own).1),
         sortedInter Q (patchOf t Q m readLk l n own).1)) := by
  by_cases hlt : countQ Q own < m
  · cases p with
    | none =>
      left
      exact ⟨by unfold patchResult; rw [if_pos hlt], by intro l n h; cases h⟩
    | some ln =>
      obtain ⟨l, n⟩ := ln
      by_cases hpw : (patchOf t Q m readLk l n own).2.isEmpty = true
      · left
        refine ⟨by unfold patchResult; rw [if_pos hlt]; simp only [hpw, if_true], ?_⟩
        intro l' n' h _
        cases h
        exact List.isEmpty_iff.1 hpw
      · right
        refine ⟨l, n, rfl, hlt, ?_, by
          unfold patchResult; rw [if_pos hlt]; simp only [hpw, Bool.false_eq_true, if_false]⟩
        intro h
        exact hpw (List.isEmpty_iff.2 h)
  · left
    exact ⟨by unfold patchResult; rw [if_neg hlt], by intro l n _ h; exact absurd h hlt⟩

/-! ### the validation loop reads only original lists -/

/-- keys whose entries the loop body of parent `p` reads besides its own -/
def readKeys (t : RawTree) : PKey → List PKey
  | none => []
  | some (l, n) => none :: ancestorKeys t l n

theorem patchLoop_congr (Q : List Gene) (m : Nat) {lk1 lk2 : Lookup} (keys : List PKey)
    (h : ∀ a ∈ keys, get? lk1 a = get? lk2 a) (new : List Gene) (pw : List PKey) :
    patchLoop Q m lk1 keys new pw = patchLoop Q m lk2 keys new pw := by
  induction keys generalizing new pw with
  | nil => simp [patchLoop]
  | cons a rest ih =>
    have ha := h a (by simp)
    have hr : ∀ a ∈ rest, get? lk1 a = get? lk2 a := fun b hb => h b (by simp [hb])
    simp only [patchLoop, ha]
    cases get? lk2 a with
    | none => exact ih hr _ _
    | some la =>
      simp only
      split
      · rfl
      · exact ih hr _ _

theorem patchOf_congr (t : RawTree) (Q : List Gene) (m : Nat) {lk1 lk2 : Lookup} (l : Level) (n : Node)
    (h : ∀ a ∈ readKeys t (some (l, n)), get? lk1 a = get? lk2 a) (own : List Gene) :
    patchOf t Q m lk1 l n own = patchOf t Q m lk2 l n own := by
  have h0 : get? lk1 none = get? lk2 none := h none (by simp [readKeys])
  have h1 : ∀ a ∈ ancestorKeys t l n, get? lk1 a = get? lk2 a :=
    fun a ha => h a (by simp [readKeys, ha])
  simp only [patchOf, patchLoop_congr Q m _ h1, h0]

theorem patchAndCount_congr (t : RawTree) (Q : List Gene) (m : Nat) {lk1 lk2 : Lookup} (st : VState)
    (p : PKey) (h : ∀ a ∈ readKeys t p, get? lk1 a = get? lk2 a) (own : List Gene) :
    patchAndCount t Q m lk1 st p own = patchAndCount t Q m lk2 st p own := by
  have e : patchResult t Q m lk1 st.lookup p own = patchResult t Q m lk2 st.lookup p own := by
    cases p with
    | none => rfl
    | some ln =>
      obtain ⟨l, n⟩ := ln
      simp only [patchResult, patchOf_congr t Q m l n h]
  rw [patchAndCount_eq, patchAndCount_eq, e]

/-- when the entries of the keys read at `p` are still the original ones, the
loop body gives the same result whether it reads the mutated dict or the
original table -/
theorem validateStep_eq_orig (t : RawTree) (Q : List Gene) (m : Nat) (lk : Lookup) (st : VState)
    (p : PKey) (hself : p ∉ readKeys t p)
    (h : ∀ a ∈ readKeys t p, get? st.lookup a = get? lk a) :
    validateStep t Q m st p = validateStepWith t Q m (fun _ => lk) st p := by
  unfold validateStep validateStepWith
  cases childrenOf t p with
  | error e => rfl
  | ok ch =>
    simp only
    split
    · rfl
    · cases get? st.lookup p with
      | some own =>
        simp only
        split
        · rfl
        · rw [patchAndCount_congr t Q m st p h]
      | none =>
        simp only
        split
        · rfl
        · congr 1
          apply patchAndCount_congr
          intro a ha
          have : a ≠ p := fun e => hself (e ▸ ha)
          rw [get?_set_ne _ _ this]
          exact h a ha

/-- the loop body changes the dict at most at its own key -/
theorem step_lookup_other (t : RawTree) (Q : List Gene) (m : Nat) (r : VState → Lookup)
    (st st' : VState) (p k : PKey) (hk : k ≠ p)
    (h : validateStepWith t Q m r st p = .ok st') : get? st'.lookup k = get? st.lookup k := by
  have pc : ∀ (rl : Lookup) (s : VState) (own : List Gene),
      get? (patchAndCount t Q m rl s p own).lookup k = get? s.lookup k := by
    intro rl s own
    have e : get? (patchResult t Q m rl s.lookup p own).1 k = get? s.lookup k := by
      rcases patchResult_cases t Q m rl s.lookup p own with ⟨h, _⟩ | ⟨l, n, _, _, _, h⟩
      · rw [h]
      · rw [h]; exact get?_set_ne _ _ hk
    rw [patchAndCount_eq]
    split <;> exact e
  unfold validateStepWith at h
  cases hc : childrenOf t p with
  | error e => simp [hc] at h
  | ok ch =>
    simp only [hc] at h
    split at h
    · cases h; rfl
    · cases hg : get? st.lookup p with
      | some own =>
        simp only [hg] at h
        split at h
        · cases h; rfl
        · cases h; exact pc _ _ _
      | none =>
        simp only [hg] at h
        split at h
        · cases h; rfl
        · cases h
          rw [pc]
          exact get?_set_ne _ _ hk

theorem foldSteps_orig (t : RawTree) (Q : List Gene) (m : Nat) (lk : Lookup) (ps : List PKey)
    (hpw : ps.Pairwise (fun e p => e ∉ readKeys t p))
    (hself : ∀ p ∈ ps, p ∉ readKeys t p) (st : VState)
    (H : ∀ p ∈ ps, ∀ a ∈ readKeys t p, get? st.lookup a = get? lk a) :
    foldSteps (validateStep t Q m) ps st =
      foldSteps (validateStepWith t Q m (fun _ => lk)) ps st := by
  induction ps generalizing st with
  | nil => rfl
  | cons p ps ih =>
    have hp := List.pairwise_cons.1 hpw
    have e1 := validateStep_eq_orig t Q m lk st p (hself p (by simp)) (H p (by simp))
    simp only [foldSteps, e1]
    cases hs : validateStepWith t Q m (fun _ => lk) st p with
    | error e => rfl
    | ok st' =>
      simp only
      apply ih hp.2 (fun q hq => hself q (by simp [hq]))
      intro q hq a ha
      have hne : a ≠ p := fun e => hp.1 q hq (e ▸ ha)
      rw [step_lookup_other t Q m _ st st' p a hne hs]
      exact H q (by simp [hq]) a ha

/-- the loop body at `p` run on the untouched original table -/
def stepAt (t : RawTree) (Q : List Gene) (m : Nat) (lk : Lookup) (p : PKey) : Except MErr VState :=
  validateStepWith t Q m (fun _ => lk) { lookup := lk } p

theorem patchAndCount_self (t : RawTree) (Q : List Gene) (m : Nat) (lk lk2 : Lookup) (s1 : VState)
    (p : PKey) (own : List Gene) (h : get? s1.lookup p = get? lk2 p) :
    get? (patchAndCount t Q m lk s1 p own).lookup p =
      get? (patchAndCount t Q m lk { lookup := lk2 } p own).lookup p ∧
    (patchAndCount t Q m lk s1 p own).anyErr =
      (s1.anyErr || (patchAndCount t Q m lk { lookup := lk2 } p own).anyErr) ∧
    (patchAndCount t Q m lk s1 p own).bad =
      s1.bad + (patchAndCount t Q m lk { lookup := lk2 } p own).bad ∧
    (patchAndCount t Q m lk s1 p own).skipped =
      s1.skipped + (patchAndCount t Q m lk { lookup := lk2 } p own).skipped := by
  rw [patchAndCount_eq, patchAndCount_eq]
  rcases patchResult_cases t Q m lk s1.lookup p own with ⟨h1, hx⟩ | ⟨l, n, hp, hlt, hpw, h1⟩
  · have h2 : patchResult t Q m lk lk2 p own = (lk2, own) := by
      rcases patchResult_cases t Q m lk lk2 p own with ⟨h2, _⟩ | ⟨l, n, hp, hlt, hpw, _⟩
      · exact h2
      · exact absurd (hx l n hp hlt) hpw
    rw [h1, h2]
    by_cases hz : (countQ Q own == 0) = true <;> simp [hz, h]
  · have h2 : patchResult t Q m lk lk2 p own =
        (set lk2 p (sortedInter Q (patchOf t Q m lk l n own).1),
         sortedInter Q (patchOf t Q m lk l n own).1) := by
      rcases patchResult_cases t Q m lk lk2 p own with ⟨_, hx⟩ | ⟨l', n', hp', _, _, h2⟩
      · exact absurd (hx l n hp hlt) hpw
      · rw [hp] at hp'; cases hp'; exact h2
    rw [h1, h2]
    by_cases hz : (countQ Q (sortedInter Q (patchOf t Q m lk l n own).1) == 0) = true <;>
      simp [hz, get?_set_self]

/-- the body at `p`, started from any state whose entry at `p` is still the
original one, does to the dict at `p` and to the counters what it does on the
original table -/
theorem step_self (t : RawTree) (Q : List Gene) (m : Nat) (lk : Lookup) (st : VState) (p : PKey)
    (hown : get? st.lookup p = get? lk p) :
    match validateStepWith t Q m (fun _ => lk) st p, stepAt t Q m lk p with
    | .ok st', .ok s0 =>
        get? st'.lookup p = get? s0.lookup p ∧ st'.anyErr = (st.anyErr || s0.anyErr) ∧
        st'.bad = st.bad + s0.bad ∧ st'.skipped = st.skipped + s0.skipped
    | .error e, .error e' => e = e'
    | _, _ => False := by
  unfold stepAt validateStepWith
  cases childrenOf t p with
  | error e => simp
  | ok ch =>
    by_cases hl : ch.length > 1
    · simp only [hl, decide_true, Bool.not_true, Bool.false_eq_true, if_false]
      rw [hown]
      cases hg : get? lk p with
      | some own =>
        by_cases hr : (own.isEmpty && p == none) = true
        · simp only [hr, if_true]; simp [hown, hg]
        · simp only [hr, if_false]
          exact patchAndCount_self t Q m lk lk st p own hown
      | none =>
        by_cases hr : (p == none) = true
        · simp only [hr, if_true]; simp [hown, hg]
        · simp only [hr, if_false]
          have := patchAndCount_self t Q m lk (set lk p []) { st with lookup := set st.lookup p [] } p []
            (by simp [get?_set_self])
          simpa using this
    · simp [hl, hown]

theorem foldSteps_spec (t : RawTree) (Q : List Gene) (m : Nat) (lk : Lookup) (ps : List PKey)
    (hnd : ps.Nodup) (st stF : VState)
    (H : ∀ p ∈ ps, get? st.lookup p = get? lk p)
    (hf : foldSteps (validateStepWith t Q m (fun _ => lk)) ps st = .ok stF) :
    (∀ k, k ∉ ps → get? stF.lookup k = get? st.lookup k) ∧
    (∀ p ∈ ps, ∃ s0, stepAt t Q m lk p = .ok s0 ∧ get? stF.lookup p = get? s0.lookup p) ∧
    (stF.anyErr = true ↔ st.anyErr = true ∨
      ∃ p ∈ ps, ∃ s0, stepAt t Q m lk p = .ok s0 ∧ s0.anyErr = true) := by
  induction ps generalizing st with
  | nil =>
    simp only [foldSteps] at hf
    cases hf
    simp
  | cons p ps ih =>
    have hnd' := List.nodup_cons.1 hnd
    simp only [foldSteps] at hf
    have hs := step_self t Q m lk st p (H p (by simp))
    cases h1 : validateStepWith t Q m (fun _ => lk) st p with
    | error e => simp [h1] at hf
    | ok st1 =>
      simp only [h1] at hf hs
      cases h0 : stepAt t Q m lk p with
      | error e => simp [h0] at hs
      | ok s0 =>
        simp only [h0] at hs
        obtain ⟨hs1, hs2, -, -⟩ := hs
        have H' : ∀ q ∈ ps, get? st1.lookup q = get? lk q := by
          intro q hq
          have hne : q ≠ p := fun e => hnd'.1 (e ▸ hq)
          rw [step_lookup_other t Q m _ st st1 p q hne h1]
          exact H q (by simp [hq])
        obtain ⟨i1, i2, i3⟩ := ih hnd'.2 st1 H' hf
        refine ⟨?_, ?_, ?_⟩
        · intro k hk
          have hk' : k ∉ ps := fun h => hk (by simp [h])
          have hne : k ≠ p := fun e => hk (by simp [e])
          rw [i1 k hk', step_lookup_other t Q m _ st st1 p k hne h1]
        · intro q hq
          rcases List.mem_cons.1 hq with rfl | hq
          · exact ⟨s0, h0, by rw [i1 q hnd'.1, hs1]⟩
          · exact i2 q hq
        · rw [i3, hs2]
          constructor
          · rintro (h | ⟨q, hq, s, hs, he⟩)
            · simp only [Bool.or_eq_true] at h
              rcases h with h | h
              · exact Or.inl h
              · exact Or.inr ⟨p, by simp, s0, h0, h⟩
            · exact Or.inr ⟨q, by simp [hq], s, hs, he⟩
          · rintro (h | ⟨q, hq, s, hs, he⟩)
            · exact Or.inl (by simp [h])
            · rcases List.mem_cons.1 hq with rfl | hq
              · rw [h0] at hs; cases hs
                exact Or.inl (by simp [he])
              · exact Or.inr ⟨q, hq, s, hs, he⟩

/-- the loop does not fail when no body fails on the original table -/
theorem foldSteps_ok (t : RawTree) (Q : List Gene) (m : Nat) (lk : Lookup) (ps : List PKey)
    (hnd : ps.Nodup) (st : VState)
    (H : ∀ p ∈ ps, get? st.lookup p = get? lk p)
    (hok : ∀ p ∈ ps, ∃ s0, stepAt t Q m lk p = .ok s0) :
    ∃ stF, foldSteps (validateStepWith t Q m (fun _ => lk)) ps st = .ok stF := by
  induction ps generalizing st with
  | nil => exact ⟨st, rfl⟩
  | cons p ps ih =>
    have hnd' := List.nodup_cons.1 hnd
    obtain ⟨s0, h0⟩ := hok p (by simp)
    have hs := step_self t Q m lk st p (H p (by simp))
    cases h1 : validateStepWith t Q m (fun _ => lk) st p with
    | error e => simp [h1, h0] at hs
    | ok st1 =>
      simp only [foldSteps, h1]
      apply ih hnd'.2
      · intro q hq
        have hne : q ≠ p := fun e => hnd'.1 (e ▸ hq)
        rw [step_lookup_other t Q m _ st st1 p q hne h1]
        exact H q (by simp [hq])
      · exact fun q hq => hok q (by simp [hq])

/-! ### the specification (property C08, first sentence) -/

/-- add the lists of the ancestors that are present in the table, nearest
first, until the number of distinct query genes reaches `m` -/
def specAcc (Q : List Gene) (m : Nat) : List (List Gene) → List Gene → List Gene
  | [], cur => cur
  | la :: rest, cur =>
    if countQ Q (cur ++ la) ≥ m then cur ++ la else specAcc Q m rest (cur ++ la)

/-- The genes of parent `p` according to the property, as a function of the
ORIGINAL table: the parent's listed markers that occur in the query; if fewer
than `m` remain (and `p` is not the root), the lists of its ancestors present
in the table are added nearest first until `m` is reached, finally the root's;
always restricted to the query.  (A list used as a set: no repetition.) -/
def specGenes (t : RawTree) (lk : Lookup) (Q : List Gene) (m : Nat) (p : PKey) : List Gene :=
  let own := (get? lk p).getD []
  match p with
  | none => interQ Q own
  | some (l, n) =>
    if countQ Q own < m then
      let acc := specAcc Q m ((ancestorKeys t l n).filterMap (get? lk)) own
      if countQ Q acc < m then interQ Q (acc ++ (get? lk none).getD []) else interQ Q acc
    else interQ Q own

theorem patchLoop_fst (Q : List Gene) (m : Nat) (lk : Lookup) (keys : List PKey) (new : List Gene)
    (pw : List PKey) :
    (patchLoop Q m lk keys new pw).1 = specAcc Q m (keys.filterMap (get? lk)) new := by
  induction keys generalizing new pw with
  | nil => simp [patchLoop, specAcc]
  | cons a rest ih =>
    simp only [patchLoop, List.filterMap_cons]
    cases get? lk a with
    | none => exact ih _ _
    | some la =>
      simp only [specAcc]
      split
      · rfl
      · exact ih _ _

theorem patchLoop_snd_nil (Q : List Gene) (m : Nat) (lk : Lookup) (keys : List PKey) (new : List Gene)
    (pw : List PKey) :
    (patchLoop Q m lk keys new pw).2 = [] ↔ pw = [] ∧ keys.filterMap (get? lk) = [] := by
  induction keys generalizing new pw with
  | nil => simp [patchLoop]
  | cons a rest ih =>
    simp only [patchLoop, List.filterMap_cons]
    cases get? lk a with
    | none => exact ih _ _
    | some la =>
      simp only
      split
      · simp
      · rw [ih]; simp

/-- `new_markers` after the whole patch, from the original table -/
theorem patchOf_fst (t : RawTree) (Q : List Gene) (m : Nat) (lk : Lookup) (l : Level) (n : Node)
    (own : List Gene) :
    (patchOf t Q m lk l n own).1 =
      (let acc := specAcc Q m ((ancestorKeys t l n).filterMap (get? lk)) own
       if countQ Q acc < m then acc ++ (get? lk none).getD [] else acc) := by
  unfold patchOf
  rw [show patchLoop Q m lk (ancestorKeys t l n) own [] =
    ((patchLoop Q m lk (ancestorKeys t l n) own []).1, (patchLoop Q m lk (ancestorKeys t l n) own []).2) from rfl]
  simp only [patchLoop_fst]
  split
  · cases get? lk none <;> simp
  · rfl

/-- nothing was patched in: the list is the parent's own -/
theorem patchOf_snd_nil (t : RawTree) (Q : List Gene) (m : Nat) (lk : Lookup) (l : Level) (n : Node)
    (own : List Gene) (hlt : countQ Q own < m) (h : (patchOf t Q m lk l n own).2 = []) :
    (patchOf t Q m lk l n own).1 = own := by
  unfold patchOf at h ⊢
  rw [show patchLoop Q m lk (ancestorKeys t l n) own [] =
    ((patchLoop Q m lk (ancestorKeys t l n) own []).1, (patchLoop Q m lk (ancestorKeys t l n) own []).2) from rfl] at h ⊢
  simp only at h ⊢
  have e1 := patchLoop_fst Q m lk (ancestorKeys t l n) own []
  split at h
  · cases hr : get? lk none with
    | some lr => simp [hr] at h
    | none =>
      simp only [hr] at h ⊢
      have := (patchLoop_snd_nil Q m lk (ancestorKeys t l n) own []).1 h
      rw [e1, this.2]; simp [specAcc, hlt]
  · rename_i hge
    have := (patchLoop_snd_nil Q m lk (ancestorKeys t l n) own []).1 h
    rw [e1, this.2] at hge
    simp [specAcc] at hge
    omega

theorem interQ_eq_nil (Q l : List Gene) : interQ Q l = [] ↔ ∀ g ∈ l, g ∉ Q := by
  rw [← countQ_eq_zero]; unfold countQ; exact List.length_eq_zero_iff.symm

theorem countQ_sortedInter_zero (Q l : List Gene) :
    countQ Q (sortedInter Q l) = 0 ↔ interQ Q l = [] := by
  rw [countQ_eq_zero, interQ_eq_nil]
  constructor
  · intro h g hg hq
    exact h g ((mem_sortedInter Q l g).2 ⟨hg, hq⟩) hq
  · intro h g hg
    exact h g ((mem_sortedInter Q l g).1 hg).1

/-- what the validation does at a parent with fewer than two children: nothing -/
theorem stepAt_unconsulted (t : RawTree) (Q : List Gene) (m : Nat) (lk : Lookup) (p : PKey)
    (ch : List Node) (hc : childrenOf t p = .ok ch) (hl : ¬ ch.length > 1) :
    stepAt t Q m lk p = .ok { lookup := lk, skipped := 1 } := by
  simp [stepAt, validateStepWith, hc, hl]

/-- the condition under which the body of a consulted parent appends to
`error_msg`: the root is missing or empty, or nothing of what the table offers
the parent (own list, ancestors', root's) is in the query -/
def errAt (t : RawTree) (lk : Lookup) (Q : List Gene) (m : Nat) (p : PKey) : Prop :=
  (p = none ∧ (get? lk none).getD [] = []) ∨ specGenes t lk Q m p = []

theorem patchAndCount_spec (t : RawTree) (Q : List Gene) (m : Nat) (lk lk0 : Lookup) (p : PKey)
    (own : List Gene) (h0 : get? lk0 p = some own) (hown : (get? lk p).getD [] = own) :
    let s0 := patchAndCount t Q m lk { lookup := lk0 } p own
    (∀ g, (g ∈ (get? s0.lookup p).getD [] ∧ g ∈ Q) ↔ g ∈ specGenes t lk Q m p) ∧
    (s0.anyErr = true ↔ specGenes t lk Q m p = []) := by
  simp only
  rw [patchAndCount_eq]
  -- the set of query genes of the (possibly patched) entry is `specGenes`
  have hspec : ∀ l n, p = some (l, n) → countQ Q own < m →
      specGenes t lk Q m p = interQ Q (patchOf t Q m lk l n own).1 := by
    intro l n hp hlt
    subst hp
    unfold specGenes
    rw [hown, patchOf_fst]
    simp only [hlt, if_true]
    split <;> rfl
  have hspec0 : (p = none ∨ ¬ countQ Q own < m) → specGenes t lk Q m p = interQ Q own := by
    intro h
    unfold specGenes
    rw [hown]
    cases p with
    | none => rfl
    | some ln =>
      obtain ⟨l, n⟩ := ln
      rcases h with h | h
      · cases h
      · simp only [h, if_false]
  rcases patchResult_cases t Q m lk lk0 p own with ⟨h1, hx⟩ | ⟨l, n, hp, hlt, hpw, h1⟩
  · rw [h1]
    have hs : specGenes t lk Q m p = interQ Q own := by
      by_cases hlt : countQ Q own < m
      · cases p with
        | none => exact hspec0 (Or.inl rfl)
        | some ln =>
          obtain ⟨l, n⟩ := ln
          rw [hspec l n rfl hlt, patchOf_snd_nil t Q m lk l n own hlt (hx l n rfl hlt)]
      · exact hspec0 (Or.inr hlt)
    rw [hs]
    have h1' := interQ_eq_nil Q own
    have h2' := countQ_eq_zero Q own
    constructor
    · intro g
      by_cases hz : (countQ Q own == 0) = true <;> simp [hz, h0, mem_interQ]
    · by_cases hz : countQ Q own = 0
      · have hb : (countQ Q own == 0) = true := by simp [hz]
        simp only [hb, if_true]
        exact ⟨fun _ => h1'.2 (h2'.1 hz), fun _ => trivial⟩
      · have hb : (countQ Q own == 0) = false := by simp [hz]
        simp only [hb, Bool.false_eq_true, if_false]
        exact ⟨fun h => by simp at h, fun h => absurd (h2'.2 (h1'.1 h)) hz⟩
  · rw [h1, hspec l n hp hlt]
    have h3 := countQ_sortedInter_zero Q (patchOf t Q m lk l n own).1
    constructor
    · intro g
      by_cases hz : (countQ Q (sortedInter Q (patchOf t Q m lk l n own).1) == 0) = true <;>
        simp [hz, get?_set_self, mem_sortedInter, mem_interQ]
    · by_cases hz : countQ Q (sortedInter Q (patchOf t Q m lk l n own).1) = 0
      · have hb : (countQ Q (sortedInter Q (patchOf t Q m lk l n own).1) == 0) = true := by simp [hz]
        simp only [hb, if_true]
        exact ⟨fun _ => h3.1 hz, fun _ => trivial⟩
      · have hb : (countQ Q (sortedInter Q (patchOf t Q m lk l n own).1) == 0) = false := by simp [hz]
        simp only [hb, Bool.false_eq_true, if_false]
        exact ⟨fun h => by simp at h, fun h => absurd (h3.2 h) hz⟩

/-- what the validation does at a consulted parent, in terms of the original
table only: the entry it leaves holds (within the query) exactly `specGenes`,
and it reports an error exactly under `errAt` -/
theorem stepAt_consulted (t : RawTree) (Q : List Gene) (m : Nat) (lk : Lookup) (p : PKey)
    (ch : List Node) (hc : childrenOf t p = .ok ch) (hl : ch.length > 1) :
    ∃ s0, stepAt t Q m lk p = .ok s0 ∧
      (∀ g, (g ∈ (get? s0.lookup p).getD [] ∧ g ∈ Q) ↔ g ∈ specGenes t lk Q m p) ∧
      (s0.anyErr = true ↔ errAt t lk Q m p) := by
  unfold stepAt validateStepWith errAt
  simp only [hc, hl, decide_true, Bool.not_true, Bool.false_eq_true, if_false]
  cases hg : get? lk p with
  | some own =>
    simp only
    by_cases hr : (own.isEmpty && p == none) = true
    · simp only [hr, if_true]
      simp only [Bool.and_eq_true, List.isEmpty_iff, beq_iff_eq] at hr
      obtain ⟨rfl, rfl⟩ := hr
      refine ⟨_, rfl, ?_, ?_⟩
      · intro g; simp [hg, specGenes, mem_interQ]
      · simp [hg]
    · simp only [hr, if_false]
      have := patchAndCount_spec t Q m lk lk p own hg (by simp [hg])
      refine ⟨_, rfl, this.1, ?_⟩
      rw [this.2]
      simp only [Bool.and_eq_true, List.isEmpty_iff, beq_iff_eq, not_and] at hr
      constructor
      · exact fun h => Or.inr h
      · rintro (⟨rfl, h⟩ | h)
        · simp [hg] at h; exact absurd rfl (hr h)
        · exact h
  | none =>
    simp only
    by_cases hr : (p == none) = true
    · simp only [hr, if_true]
      simp only [beq_iff_eq] at hr
      subst hr
      refine ⟨_, rfl, ?_, ?_⟩
      · intro g; simp [hg, specGenes, mem_interQ]
      · simp [hg]
    · simp only [hr, if_false]
      have := patchAndCount_spec t Q m lk (set lk p []) p [] (get?_set_self _ _ _) (by simp [hg])
      refine ⟨_, rfl, this.1, ?_⟩
      rw [this.2]
      simp only [beq_iff_eq] at hr
      constructor
      · exact fun h => Or.inr h
      · rintro (⟨rfl, _⟩ | h)
        · exact absurd rfl hr
        · exact h

/-- the parent is consulted by the run: it has at least two children -/
def Consulted (t : RawTree) (p : PKey) : Prop := ∃ ch, childrenOf t p = .ok ch ∧ ch.length > 1

/-- what the proofs need of the taxonomy (all consequences of a validated tree
with distinct level names, see `treeOK_of_wf`) -/
structure TreeOK (t : RawTree) : Prop where
  parentsNodup : t.allParents.Nodup
  childrenOk : ∀ p ∈ t.allParents, ∃ ch, childrenOf t p = .ok ch
  /-- `all_parents` lists ancestors before descendants -/
  deepestFirst : t.allParents.reverse.Pairwise (fun e p => e ∉ readKeys t p)
  selfFree : ∀ p ∈ t.allParents, p ∉ readKeys t p

theorem stepAt_ok_of_children (t : RawTree) (Q : List Gene) (m : Nat) (lk : Lookup) (p : PKey)
    (h : ∃ ch, childrenOf t p = .ok ch) : ∃ s0, stepAt t Q m lk p = .ok s0 := by
  obtain ⟨ch, hc⟩ := h
  by_cases hl : ch.length > 1
  · obtain ⟨s0, h0, _⟩ := stepAt_consulted t Q m lk p ch hc hl
    exact ⟨s0, h0⟩
  · exact ⟨_, stepAt_unconsulted t Q m lk p ch hc hl⟩

/-- the validation loop as a whole, from the original table -/
theorem validateLoop_spec (t : RawTree) (hT : TreeOK t) (Q : List Gene) (m : Nat) (lk : Lookup) :
    ∃ stF, foldSteps (validateStep t Q m) t.allParents.reverse { lookup := lk } = .ok stF ∧
      (∀ k, k ∉ t.allParents → get? stF.lookup k = get? lk k) ∧
      (∀ p ∈ t.allParents, ∃ s0, stepAt t Q m lk p = .ok s0 ∧ get? stF.lookup p = get? s0.lookup p) ∧
      (stF.anyErr = true ↔ ∃ p ∈ t.allParents, ∃ s0, stepAt t Q m lk p = .ok s0 ∧ s0.anyErr = true) := by
  have hself : ∀ p ∈ t.allParents.reverse, p ∉ readKeys t p :=
    fun p hp => hT.selfFree p (List.mem_reverse.1 hp)
  have e := foldSteps_orig t Q m lk t.allParents.reverse hT.deepestFirst hself { lookup := lk }
    (fun _ _ _ _ => rfl)
  rw [e]
  have hnd : t.allParents.reverse.Nodup := (List.reverse_perm _).nodup_iff.2 hT.parentsNodup
  obtain ⟨stF, hF⟩ := foldSteps_ok t Q m lk t.allParents.reverse hnd { lookup := lk } (fun _ _ => rfl)
    (fun p hp => stepAt_ok_of_children t Q m lk p (hT.childrenOk p (List.mem_reverse.1 hp)))
  obtain ⟨h1, h2, h3⟩ := foldSteps_spec t Q m lk t.allParents.reverse hnd { lookup := lk } stF
    (fun _ _ => rfl) hF
  refine ⟨stF, hF, ?_, ?_, ?_⟩
  · intro k hk; exact h1 k (fun h => hk (List.mem_reverse.1 h))
  · intro p hp; exact h2 p (List.mem_reverse.2 hp)
  · rw [h3]; simp [List.mem_reverse]

theorem stepAt_anyErr_iff (t : RawTree) (hT : TreeOK t) (Q : List Gene) (m : Nat) (lk : Lookup) :
    (∃ p ∈ t.allParents, ∃ s0, stepAt t Q m lk p = .ok s0 ∧ s0.anyErr = true) ↔
    (∃ p ∈ t.allParents, Consulted t p ∧ errAt t lk Q m p) := by
  constructor
  · rintro ⟨p, hp, s0, h0, he⟩
    obtain ⟨ch, hc⟩ := hT.childrenOk p hp
    by_cases hl : ch.length > 1
    · obtain ⟨s1, h1, _, h3⟩ := stepAt_consulted t Q m lk p ch hc hl
      rw [h0] at h1; cases h1
      exact ⟨p, hp, ⟨ch, hc, hl⟩, h3.1 he⟩
    · rw [stepAt_unconsulted t Q m lk p ch hc hl] at h0
      cases h0; simp at he
  · rintro ⟨p, hp, ⟨ch, hc, hl⟩, he⟩
    obtain ⟨s1, h1, _, h3⟩ := stepAt_consulted t Q m lk p ch hc hl
    exact ⟨p, hp, s1, h1, h3.2 he⟩

/-- `validate_marker_lookup` succeeds exactly when no consulted parent is in
the error condition, and then: consulted parents hold (within the query)
`specGenes` of the original table, every other key is untouched. -/
theorem validateLookup_ok_iff (t : RawTree) (hT : TreeOK t) (Q : List Gene) (m : Nat) (lk : Lookup) :
    (∃ lk', validateLookup t Q m lk = .ok lk') ↔
      ∀ p ∈ t.allParents, Consulted t p → ¬ errAt t lk Q m p := by
  obtain ⟨stF, hF, _, _, h3⟩ := validateLoop_spec t hT Q m lk
  unfold validateLookup
  rw [hF]
  simp only [finish]
  rw [stepAt_anyErr_iff t hT] at h3
  constructor
  · rintro ⟨lk', h⟩ p hp hc he
    have : stF.anyErr = true := h3.2 ⟨p, hp, hc, he⟩
    simp [this] at h
    split at h <;> cases h
  · intro h
    have : stF.anyErr = false := by
      cases hh : stF.anyErr with
      | false => rfl
      | true =>
        obtain ⟨p, hp, hc, he⟩ := h3.1 hh
        exact absurd he (h p hp hc)
    exact ⟨stF.lookup, by simp [this]⟩

theorem validateLookup_error (t : RawTree) (hT : TreeOK t) (Q : List Gene) (m : Nat) (lk : Lookup)
    (e : MErr) (h : validateLookup t Q m lk = .error e) :
    (e = .noMarkersAnyLevel ∨ e = .validating) ∧
      ∃ p ∈ t.allParents, Consulted t p ∧ errAt t lk Q m p := by
  obtain ⟨stF, hF, _, _, h3⟩ := validateLoop_spec t hT Q m lk
  unfold validateLookup at h
  rw [hF] at h
  simp only [finish] at h
  rw [stepAt_anyErr_iff t hT] at h3
  cases hh : stF.anyErr with
  | false => simp [hh] at h
  | true =>
    refine ⟨?_, h3.1 hh⟩
    simp only [hh, if_true] at h
    split at h <;> cases h <;> simp

theorem validateLookup_entries (t : RawTree) (hT : TreeOK t) (Q : List Gene) (m : Nat) (lk lk' : Lookup)
    (h : validateLookup t Q m lk = .ok lk') :
    (∀ p ∈ t.allParents, Consulted t p →
        ∀ g, (g ∈ (get? lk' p).getD [] ∧ g ∈ Q) ↔ g ∈ specGenes t lk Q m p) ∧
    (∀ k, ¬ (k ∈ t.allParents ∧ Consulted t k) → get? lk' k = get? lk k) := by
  obtain ⟨stF, hF, h1, h2, _⟩ := validateLoop_spec t hT Q m lk
  unfold validateLookup at h
  rw [hF] at h
  simp only [finish] at h
  have hl : lk' = stF.lookup := by
    split at h
    · split at h <;> cases h
    · cases h; rfl
  subst hl
  constructor
  · intro p hp ⟨ch, hc, hl⟩ g
    obtain ⟨s0, h0, he⟩ := h2 p hp
    obtain ⟨s1, h1', hs, _⟩ := stepAt_consulted t Q m lk p ch hc hl
    rw [h0] at h1'; cases h1'
    rw [he]; exact hs g
  · intro k hk
    by_cases hp : k ∈ t.allParents
    · obtain ⟨ch, hc⟩ := hT.childrenOk k hp
      have hl : ¬ ch.length > 1 := fun hl => hk ⟨hp, ch, hc, hl⟩
      obtain ⟨s0, h0, he⟩ := h2 k hp
      rw [stepAt_unconsulted t Q m lk k ch hc hl] at h0
      cases h0
      exact he
    · exact h1 k hp

/-! ### `all_parents` lists ancestors before descendants -/

theorem parentLevel_split (h : List Level) (l pl : Level)
    (hp : (match h.idxOf? l with
            | none => none
            | some 0 => none
            | some (i+1) => h[i]?) = some pl) :
    ∃ pre post, h = pre ++ pl :: l :: post := by
  induction h generalizing pl with
  | nil => simp at hp
  | cons x xs ih =>
    rw [List.idxOf?_cons] at hp
    by_cases hx : (x == l) = true
    · simp [hx] at hp
    · simp only [hx, if_false, Bool.false_eq_true] at hp
      cases hj : xs.idxOf? l with
      | none => simp [hj] at hp
      | some j =>
        simp only [hj, Option.map_some] at hp
        cases j with
        | zero =>
          simp only [Nat.zero_add, List.getElem?_cons_zero, Option.some.injEq] at hp
          subst hp
          have := (List.idxOf?_eq_some_iff.1 hj)
          obtain ⟨hlen, hget, _⟩ := this
          cases xs with
          | nil => simp at hlen
          | cons y ys =>
            simp at hget
            subst hget
            exact ⟨[], ys, rfl⟩
        | succ j' =>
          simp only [List.getElem?_cons_succ] at hp
          obtain ⟨pre, post, e⟩ := ih pl (by simp [hj, hp])
          exact ⟨x :: pre, post, by simp [e]⟩

theorem parentLevel_idx (t : RawTree) (hN : t.hierarchy.Nodup) (l pl : Level)
    (hp : t.parentLevel l = some pl) :
    t.hierarchy.idxOf pl + 1 = t.hierarchy.idxOf l := by
  unfold RawTree.parentLevel RawTree.levelIdx at hp
  obtain ⟨pre, post, e⟩ := parentLevel_split t.hierarchy l pl hp
  rw [e] at hN ⊢
  have hn := List.nodup_append.1 hN
  have h1 : pl ∉ pre := fun h => hn.2.2 pl h pl (by simp) rfl
  have h2 : l ∉ pre := fun h => hn.2.2 l h l (by simp) rfl
  have h3 : pl ≠ l := by
    have := List.nodup_cons.1 hn.2.1
    intro e; exact this.1 (by simp [e])
  rw [List.idxOf_append, List.idxOf_append]
  simp only [h1, h2, if_false, List.idxOf_cons]
  have : (pl == l) = false := by simp [h3]
  simp [this]
  omega

theorem parentsAux_levels (t : RawTree) (hN : t.hierarchy.Nodup) (fuel : Nat) (l : Level) (n : Node) :
    ∀ x ∈ (t.parentsAux fuel l n).map (·.1), t.hierarchy.idxOf x < t.hierarchy.idxOf l := by
  induction fuel generalizing l n with
  | zero => simp [RawTree.parentsAux]
  | succ f ih =>
    intro x hx
    simp only [RawTree.parentsAux] at hx
    cases hp : t.parentLevel l with
    | none => simp [hp] at hx
    | some pl =>
      simp only [hp] at hx
      cases hc : t.childToParent l n with
      | none => simp [hc] at hx
      | some p =>
        simp only [hc, List.map_cons, List.mem_cons] at hx
        have := parentLevel_idx t hN l pl hp
        rcases hx with rfl | hx
        · omega
        · have := ih pl p x hx
          omega

theorem lookup_mem_map_fst {α β} [BEq α] [LawfulBEq α] (l : List (α × β)) (a : α) (b : β)
    (h : l.lookup a = some b) : a ∈ l.map (·.1) := by
  induction l with
  | nil => simp at h
  | cons e es ih =>
    obtain ⟨k, v⟩ := e
    simp only [List.lookup_cons] at h
    by_cases hk : a = k
    · simp [hk]
    · have : (a == k) = false := by simp [hk]
      simp only [this] at h
      simp [ih h]

/-- a key the body of `(l₁, n₁)` reads lies at a level strictly above `l₁` -/
theorem readKeys_level (t : RawTree) (hN : t.hierarchy.Nodup) (l1 : Level) (n1 : Node) (l2 : Level)
    (n2 : Node) (h : some (l2, n2) ∈ readKeys t (some (l1, n1))) :
    t.hierarchy.idxOf l2 < t.hierarchy.idxOf l1 := by
  simp only [readKeys, List.mem_cons, ancestorKeys, List.mem_filterMap, reduceCtorEq, false_or] at h
  obtain ⟨al, _, hal⟩ := h
  cases hl : (t.parents l1 n1).lookup al with
  | none => simp [hl] at hal
  | some a =>
    simp only [hl, Option.map_some, Option.some.injEq, Prod.mk.injEq] at hal
    obtain ⟨rfl, rfl⟩ := hal
    exact parentsAux_levels t hN _ l1 n1 al (lookup_mem_map_fst _ _ _ hl)

theorem pairwise_idxOf (h : List Level) (hN : h.Nodup) :
    h.Pairwise (fun a b => h.idxOf a < h.idxOf b) := by
  induction h with
  | nil => simp
  | cons x xs ih =>
    have hn := List.nodup_cons.1 hN
    refine List.Pairwise.cons ?_ ?_
    · intro a ha
      have : (x == a) = false := by simp; exact fun e => hn.1 (e ▸ ha)
      simp [List.idxOf_cons, this]
    · refine (ih hn.2).imp_of_mem ?_
      intro a b ha hb hab
      have h1 : (x == a) = false := by simp; exact fun e => hn.1 (e ▸ ha)
      have h2 : (x == b) = false := by simp; exact fun e => hn.1 (e ▸ hb)
      simp [List.idxOf_cons, h1, h2, hab]

/-- well-formedness of the taxonomy as far as the marker stage needs it: level
names distinct, at least one level, every level of the hierarchy has its dict
(`validate_taxonomy_tree`'s key check), node names within a level distinct
(they are dict keys) -/
structure TreeWF (t : RawTree) : Prop where
  hierNodup : t.hierarchy.Nodup
  hierNonempty : t.hierarchy ≠ []
  hasLevels : ∀ l ∈ t.hierarchy, l ∈ t.levels.map (·.1)
  nodesNodup : ∀ l ∈ t.hierarchy, (t.nodesAt l).Nodup

theorem mem_allParents (t : RawTree) (l : Level) (n : Node) :
    some (l, n) ∈ t.allParents ↔ l ∈ t.hierarchy.dropLast ∧ n ∈ t.nodesAt l := by
  simp only [RawTree.allParents, List.mem_cons, reduceCtorEq, false_or, List.mem_flatMap, List.mem_map,
    Option.some.injEq, Prod.mk.injEq]
  constructor
  · rintro ⟨l', hl', n', hn', rfl, rfl⟩; exact ⟨hl', hn'⟩
  · rintro ⟨hl, hn⟩; exact ⟨l, hl, n, hn, rfl, rfl⟩

theorem treeOK_of_wf (t : RawTree) (h : TreeWF t) : TreeOK t := by
  have hsub : t.hierarchy.dropLast.Sublist t.hierarchy := List.dropLast_sublist _
  have hmem : ∀ l ∈ t.hierarchy.dropLast, l ∈ t.hierarchy := fun l hl => hsub.subset hl
  have hself : ∀ p ∈ t.allParents, p ∉ readKeys t p := by
    intro p _ hp
    cases p with
    | none => simp [readKeys] at hp
    | some ln =>
      obtain ⟨l, n⟩ := ln
      have := readKeys_level t h.hierNodup l n l n hp
      omega
  refine ⟨?_, ?_, ?_, hself⟩
  · -- no repetition in all_parents
    unfold RawTree.allParents
    refine List.nodup_cons.2 ⟨by simp, ?_⟩
    rw [List.nodup_iff_pairwise_ne, List.pairwise_flatMap]
    constructor
    · intro l hl
      rw [List.pairwise_map]
      refine (h.nodesNodup l (hmem l hl)).imp ?_
      intro a b hab e
      simp at e
      exact hab e
    · have : t.hierarchy.dropLast.Nodup := h.hierNodup.sublist hsub
      refine this.imp ?_
      intro a b hab x hx y hy e
      simp only [List.mem_map] at hx hy
      obtain ⟨_, _, rfl⟩ := hx
      obtain ⟨_, _, rfl⟩ := hy
      simp at e
      exact hab e.1
  · -- children() never raises on a parent
    intro p hp
    cases p with
    | none =>
      unfold childrenOf RawTree.children
      cases hh : t.hierarchy.head? with
      | none => exact absurd (List.head?_eq_none_iff.1 hh) h.hierNonempty
      | some l0 => exact ⟨_, rfl⟩
    | some ln =>
      obtain ⟨l, n⟩ := ln
      obtain ⟨hl, hn⟩ := (mem_allParents t l n).1 hp
      have h1 : (t.levels.map (·.1)).contains l = true := by
        simp only [List.contains_iff_mem]; exact h.hasLevels l (hmem l hl)
      have h2 : (t.nodesAt l).contains n = true := by simpa using hn
      have h2' : n ∈ t.nodesAt l := hn
      exact ⟨t.entry l n, by
        simp only [childrenOf, RawTree.children, h1, h2, Bool.not_true, Bool.false_eq_true, if_false]⟩
  · -- ancestors come first
    rw [List.pairwise_reverse]
    unfold RawTree.allParents
    refine List.Pairwise.cons (by simp [readKeys]) ?_
    rw [List.pairwise_flatMap]
    constructor
    · intro l _
      rw [List.pairwise_map]
      refine (h.nodesNodup l (hmem l ‹_›)).imp ?_
      intro a b _ hb
      have := readKeys_level t h.hierNodup l a l b hb
      omega
    · have := (pairwise_idxOf t.hierarchy h.hierNodup).sublist hsub
      refine this.imp ?_
      intro a b hab x hx y hy hyx
      simp only [List.mem_map] at hx hy
      obtain ⟨n1, _, rfl⟩ := hx
      obtain ⟨n2, _, rfl⟩ := hy
      have := readKeys_level t h.hierNodup a n1 b n2 hyx
      omega

/-! ### the cache: name → index on both sides, co-sorted by reference index -/

theorem nameToIdx_some (names : List Gene) (g : Gene) (i : Nat) (h : nameToIdx names g = some i) :
    names[i]? = some g := by
  induction names generalizing i with
  | nil => simp [nameToIdx] at h
  | cons x xs ih =>
    simp only [nameToIdx] at h
    cases hx : nameToIdx xs g with
    | some j =>
      simp only [hx, Option.some.injEq] at h
      subst h
      simpa using ih j hx
    | none =>
      simp only [hx] at h
      split at h
      · rename_i he
        cases h
        simp only [beq_iff_eq] at he
        simp [he]
      · cases h

theorem nameToIdx_of_mem (names : List Gene) (g : Gene) (h : g ∈ names) :
    ∃ i, nameToIdx names g = some i := by
  induction names with
  | nil => cases h
  | cons x xs ih =>
    simp only [nameToIdx]
    cases hx : nameToIdx xs g with
    | some j => exact ⟨j + 1, rfl⟩
    | none =>
      rcases List.mem_cons.1 h with rfl | h
      · exact ⟨0, by simp⟩
      · obtain ⟨i, hi⟩ := ih h
        rw [hx] at hi; cases hi

theorem nameToIdx_mem (names : List Gene) (g : Gene) (i : Nat) (h : nameToIdx names g = some i) :
    g ∈ names := List.mem_of_getElem? (nameToIdx_some names g i h)

theorem pairOf_ok (R Q : List Gene) (g : Gene) (p : Nat × Nat) (h : pairOf R Q g = .ok p) :
    R[p.1]? = some g ∧ Q[p.2]? = some g := by
  unfold pairOf at h
  cases hr : nameToIdx R g with
  | none => simp [hr] at h
  | some r =>
    cases hq : nameToIdx Q g with
    | none => simp [hr, hq] at h
    | some q =>
      simp only [hr, hq, Except.ok.injEq] at h
      subst h
      exact ⟨nameToIdx_some R g r hr, nameToIdx_some Q g q hq⟩

theorem pairOf_of_mem (R Q : List Gene) (g : Gene) (hr : g ∈ R) (hq : g ∈ Q) :
    ∃ p, pairOf R Q g = .ok p := by
  obtain ⟨r, hr⟩ := nameToIdx_of_mem R g hr
  obtain ⟨q, hq⟩ := nameToIdx_of_mem Q g hq
  exact ⟨(r, q), by simp [pairOf, hr, hq]⟩

/-- rows and genes correspond position by position -/
def RowsFor (R Q : List Gene) : List (Nat × Nat) → List Gene → Prop
  | [], [] => True
  | p :: ps, g :: gs => (R[p.1]? = some g ∧ Q[p.2]? = some g) ∧ RowsFor R Q ps gs
  | _, _ => False

theorem pairsOf_ok (R Q : List Gene) (genes : List Gene) (ps : List (Nat × Nat))
    (h : pairsOf R Q genes = .ok ps) : RowsFor R Q ps genes := by
  induction genes generalizing ps with
  | nil => simp only [pairsOf, Except.ok.injEq] at h; subst h; trivial
  | cons g gs ih =>
    simp only [pairsOf] at h
    cases hp : pairOf R Q g with
    | error e => simp [hp] at h
    | ok p =>
      cases hps : pairsOf R Q gs with
      | error e => simp [hp, hps] at h
      | ok ps' =>
        simp only [hp, hps, Except.ok.injEq] at h
        subst h
        exact ⟨pairOf_ok R Q g p hp, ih ps' hps⟩

theorem pairsOf_of_mem (R Q : List Gene) (genes : List Gene) (hr : ∀ g ∈ genes, g ∈ R)
    (hq : ∀ g ∈ genes, g ∈ Q) : ∃ ps, pairsOf R Q genes = .ok ps := by
  induction genes with
  | nil => exact ⟨[], rfl⟩
  | cons g gs ih =>
    obtain ⟨p, hp⟩ := pairOf_of_mem R Q g (hr g (by simp)) (hq g (by simp))
    obtain ⟨ps, hps⟩ := ih (fun x hx => hr x (by simp [hx])) (fun x hx => hq x (by simp [hx]))
    exact ⟨p :: ps, by simp [pairsOf, hp, hps]⟩

theorem pairsOf_error (R Q : List Gene) (genes : List Gene) (e : MErr)
    (h : pairsOf R Q genes = .error e) : e = .keyError ∧ ∃ g ∈ genes, g ∉ R ∨ g ∉ Q := by
  induction genes with
  | nil => simp [pairsOf] at h
  | cons g gs ih =>
    simp only [pairsOf] at h
    cases hp : pairOf R Q g with
    | error e' =>
      simp only [hp, Except.error.injEq] at h
      subst h
      refine ⟨?_, g, by simp, ?_⟩
      · unfold pairOf at hp
        split at hp <;> simp_all
      · by_cases hr : g ∈ R
        · by_cases hq : g ∈ Q
          · obtain ⟨p, hp'⟩ := pairOf_of_mem R Q g hr hq
            rw [hp'] at hp; cases hp
          · exact Or.inr hq
        · exact Or.inl hr
    | ok p =>
      cases hps : pairsOf R Q gs with
      | error e' =>
        simp only [hp, hps, Except.error.injEq] at h
        subst h
        obtain ⟨h1, g', hg', h2⟩ := ih hps
        exact ⟨h1, g', by simp [hg'], h2⟩
      | ok ps' => simp [hp, hps] at h

theorem rowsFor_namesAt (R Q : List Gene) (ps : List (Nat × Nat)) (gs : List Gene)
    (h : RowsFor R Q ps gs) :
    namesAt R (ps.map (·.1)) = .ok gs ∧ namesAt Q (ps.map (·.2)) = .ok gs := by
  induction ps generalizing gs with
  | nil => cases gs <;> simp_all [RowsFor, namesAt]
  | cons p ps ih =>
    cases gs with
    | nil => simp [RowsFor] at h
    | cons g gs =>
      obtain ⟨⟨h1, h2⟩, h3⟩ := h
      obtain ⟨i1, i2⟩ := ih gs h3
      simp [namesAt, h1, h2, i1, i2]

theorem rowsFor_perm (R Q : List Gene) {ps ps' : List (Nat × Nat)} (hp : ps.Perm ps') :
    ∀ gs, RowsFor R Q ps gs → ∃ gs', gs'.Perm gs ∧ RowsFor R Q ps' gs' := by
  induction hp with
  | nil => intro gs h; exact ⟨gs, List.Perm.refl _, h⟩
  | cons p _ ih =>
    intro gs h
    cases gs with
    | nil => simp [RowsFor] at h
    | cons g gs =>
      obtain ⟨gs', h1, h2⟩ := ih gs h.2
      exact ⟨g :: gs', List.Perm.cons g h1, h.1, h2⟩
  | swap p q ps =>
    intro gs h
    match gs, h with
    | g1 :: g2 :: gs, ⟨h1, h2, h3⟩ =>
      exact ⟨g2 :: g1 :: gs, List.Perm.swap g1 g2 gs, h2, h1, h3⟩
  | trans _ _ ih1 ih2 =>
    intro gs h
    obtain ⟨gs1, p1, r1⟩ := ih1 gs h
    obtain ⟨gs2, p2, r2⟩ := ih2 gs1 r1
    exact ⟨gs2, p2.trans p1, r2⟩

theorem insertPair_perm (p : Nat × Nat) (l : List (Nat × Nat)) : (insertPair p l).Perm (p :: l) := by
  induction l with
  | nil => simp [insertPair]
  | cons y ys ih =>
    simp only [insertPair]
    split
    · exact List.Perm.refl _
    · exact (List.Perm.cons y ih).trans (List.Perm.swap p y ys)

theorem sortPairs_perm (l : List (Nat × Nat)) : (sortPairs l).Perm l := by
  induction l with
  | nil => simp [sortPairs]
  | cons x xs ih => exact (insertPair_perm x _).trans (List.Perm.cons x ih)

theorem insertPair_sorted (p : Nat × Nat) (l : List (Nat × Nat)) (h : l.Pairwise (fun a b => a.1 ≤ b.1)) :
    (insertPair p l).Pairwise (fun a b => a.1 ≤ b.1) := by
  induction l with
  | nil => simp [insertPair]
  | cons y ys ih =>
    simp only [insertPair]
    have h' := List.pairwise_cons.1 h
    split
    · rename_i hxy
      refine List.Pairwise.cons ?_ h
      intro a ha
      rcases List.mem_cons.1 ha with rfl | ha
      · exact hxy
      · exact Nat.le_trans hxy (h'.1 a ha)
    · rename_i hxy
      refine List.Pairwise.cons ?_ (ih h'.2)
      intro a ha
      rcases List.mem_cons.1 ((insertPair_perm p ys).mem_iff.1 ha) with rfl | ha
      · omega
      · exact h'.1 a ha

theorem sortPairs_sorted (l : List (Nat × Nat)) : (sortPairs l).Pairwise (fun a b => a.1 ≤ b.1) := by
  induction l with
  | nil => simp [sortPairs]
  | cons x xs ih => exact insertPair_sorted x _ ih

theorem patchAndCount_isSome (t : RawTree) (Q : List Gene) (m : Nat) (lk lk0 : Lookup) (p : PKey)
    (own : List Gene) (h0 : get? lk0 p = some own) :
    (get? (patchAndCount t Q m lk { lookup := lk0 } p own).lookup p).isSome := by
  have e : (get? (patchResult t Q m lk lk0 p own).1 p).isSome := by
    rcases patchResult_cases t Q m lk lk0 p own with ⟨h, _⟩ | ⟨l, n, _, _, _, h⟩
    · rw [h]; simp [h0]
    · rw [h]; simp [get?_set_self]
  rw [patchAndCount_eq]
  split <;> exact e

/-- a consulted parent that is not in the error condition has an entry after
validation (missing non-root parents are added) -/
theorem stepAt_consulted_isSome (t : RawTree) (Q : List Gene) (m : Nat) (lk : Lookup) (p : PKey)
    (ch : List Node) (hc : childrenOf t p = .ok ch) (hl : ch.length > 1)
    (hne : ¬ errAt t lk Q m p) (s0 : VState) (h0 : stepAt t Q m lk p = .ok s0) :
    (get? s0.lookup p).isSome := by
  unfold stepAt validateStepWith at h0
  simp only [hc, hl, decide_true, Bool.not_true, Bool.false_eq_true, if_false] at h0
  cases hg : get? lk p with
  | some own =>
    simp only [hg] at h0
    split at h0
    · cases h0; simp [hg]
    · cases h0; exact patchAndCount_isSome t Q m lk lk p own hg
  | none =>
    simp only [hg] at h0
    split at h0
    · rename_i hr
      simp only [beq_iff_eq] at hr
      subst hr
      exact absurd (Or.inl ⟨rfl, by simp [hg]⟩) hne
    · cases h0; exact patchAndCount_isSome t Q m lk _ p [] (get?_set_self _ _ _)

theorem validateLookup_isSome (t : RawTree) (hT : TreeOK t) (Q : List Gene) (m : Nat) (lk lk' : Lookup)
    (h : validateLookup t Q m lk = .ok lk') (p : PKey) (hp : p ∈ t.allParents) (hc : Consulted t p) :
    (get? lk' p).isSome := by
  have hne := (validateLookup_ok_iff t hT Q m lk).1 ⟨lk', h⟩ p hp hc
  obtain ⟨stF, hF, _, h2, _⟩ := validateLoop_spec t hT Q m lk
  unfold validateLookup at h
  rw [hF] at h
  simp only [finish] at h
  have hl : lk' = stF.lookup := by
    split at h
    · split at h <;> cases h
    · cases h; rfl
  subst hl
  obtain ⟨ch, hcc, hl⟩ := hc
  obtain ⟨s0, h0, he⟩ := h2 p hp
  rw [he]
  exact stepAt_consulted_isSome t Q m lk p ch hcc hl hne s0 h0

/-! ### `create_marker_cache_from_specified_markers` -/

def isConsultedKey (consulted : Option (List PKey)) (k : PKey) : Bool :=
  match consulted with
  | none => true
  | some c => c.contains k

theorem intersectAll_cons (Q : List Gene) (consulted : Option (List PKey)) (k : PKey) (l : List Gene)
    (rest : Lookup) :
    intersectAll Q consulted ((k, l) :: rest) =
      if (isConsultedKey consulted k && (interQ Q l).isEmpty && !l.isEmpty) = true then
        .error .noQueryOverlap
      else match intersectAll Q consulted rest with
        | .error e => .error e
        | .ok r => .ok ((k, interQ Q l) :: r) := by
  cases consulted <;> rfl

/-- exact characterisation of the intersection loop -/
theorem intersectAll_ok_iff (Q : List Gene) (consulted : Option (List PKey)) (lk : Lookup) :
    (∀ e ∈ lk, ¬ (isConsultedKey consulted e.1 = true ∧ interQ Q e.2 = [] ∧ e.2 ≠ [])) →
      intersectAll Q consulted lk = .ok (lk.map (fun e => (e.1, interQ Q e.2))) := by
  induction lk with
  | nil => intro _; rfl
  | cons e es ih =>
    obtain ⟨k, l⟩ := e
    intro h
    have h0 := h (k, l) (by simp)
    have hr := ih (fun e he => h e (by simp [he]))
    rw [intersectAll_cons, hr]
    have : ¬ (isConsultedKey consulted k && (interQ Q l).isEmpty && !l.isEmpty) = true := by
      intro hh
      simp only [Bool.and_eq_true, List.isEmpty_iff, Bool.not_eq_true', List.isEmpty_eq_false_iff] at hh
      exact h0 ⟨hh.1.1, hh.1.2, hh.2⟩
    simp only [this, Bool.false_eq_true, if_false, List.map_cons]

theorem intersectAll_error (Q : List Gene) (consulted : Option (List PKey)) (lk : Lookup) (err : MErr)
    (h : intersectAll Q consulted lk = .error err) :
    err = .noQueryOverlap ∧
      ∃ e ∈ lk, isConsultedKey consulted e.1 = true ∧ interQ Q e.2 = [] ∧ e.2 ≠ [] := by
  induction lk with
  | nil => simp [intersectAll] at h
  | cons e es ih =>
    obtain ⟨k, l⟩ := e
    rw [intersectAll_cons] at h
    by_cases hh : (isConsultedKey consulted k && (interQ Q l).isEmpty && !l.isEmpty) = true
    · simp only [hh, if_true, Except.error.injEq] at h
      simp only [Bool.and_eq_true, List.isEmpty_iff, Bool.not_eq_true', List.isEmpty_eq_false_iff] at hh
      exact ⟨h.symm, (k, l), by simp, hh.1.1, hh.1.2, hh.2⟩
    · simp only [hh, Bool.false_eq_true, if_false] at h
      cases hr : intersectAll Q consulted es with
      | error e' =>
        simp only [hr, Except.error.injEq] at h
        subst h
        obtain ⟨h1, e, he, h2⟩ := ih hr
        exact ⟨h1, e, by simp [he], h2⟩
      | ok r => simp [hr] at h

theorem get?_map_inter (Q : List Gene) (lk : Lookup) (k : PKey) :
    get? (lk.map (fun e => (e.1, interQ Q e.2))) k = (get? lk k).map (interQ Q) := by
  induction lk with
  | nil => simp [get?]
  | cons e es ih =>
    obtain ⟨k0, l⟩ := e
    simp only [get?] at ih
    simp only [get?, List.map_cons, List.lookup_cons]
    split <;> simp_all

theorem writeGroups_lookup (R Q : List Gene) (final : Lookup) (gs : List (PKey × List (Nat × Nat)))
    (h : writeGroups R Q final = .ok gs) (k : PKey) :
    match get? final k, gs.lookup k with
    | some genes, some rows => writeGroup R Q genes = .ok rows
    | none, none => True
    | _, _ => False := by
  induction final generalizing gs with
  | nil => simp only [writeGroups, Except.ok.injEq] at h; subst h; simp [get?]
  | cons e es ih =>
    obtain ⟨k0, genes⟩ := e
    simp only [writeGroups] at h
    cases hg : writeGroup R Q genes with
    | error e' => simp [hg] at h
    | ok g =>
      cases hr : writeGroups R Q es with
      | error e' => simp [hg, hr] at h
      | ok r =>
        simp only [hg, hr, Except.ok.injEq] at h
        subst h
        have := ih r hr
        simp only [get?] at this
        simp only [get?, List.lookup_cons]
        by_cases hk : (k == k0) = true
        · simp [hk, hg]
        · simp only [hk]
          exact this

theorem writeGroups_ok (R Q : List Gene) (final : Lookup)
    (h : ∀ e ∈ final, ∀ g ∈ e.2, g ∈ R ∧ g ∈ Q) : ∃ gs, writeGroups R Q final = .ok gs := by
  induction final with
  | nil => exact ⟨[], rfl⟩
  | cons e es ih =>
    obtain ⟨k0, genes⟩ := e
    obtain ⟨ps, hps⟩ := pairsOf_of_mem R Q genes (fun g hg => (h (k0, genes) (by simp) g hg).1)
      (fun g hg => (h (k0, genes) (by simp) g hg).2)
    obtain ⟨gs, hgs⟩ := ih (fun e he => h e (by simp [he]))
    exact ⟨(k0, sortPairs ps) :: gs, by simp [writeGroups, writeGroup, hps, hgs]⟩

theorem missingRef_false_iff (R : List Gene) (lk : Lookup) :
    missingRef R lk = false ↔ ∀ e ∈ lk, ∀ g ∈ e.2, g ∈ R := by
  unfold missingRef
  rw [Bool.eq_false_iff]
  simp only [ne_eq, List.any_eq_true, Bool.not_eq_true', not_exists, not_and]
  constructor
  · intro h e he g hg
    have := h e he g hg
    simpa using this
  · intro h e he g hg
    simpa using h e he g hg

theorem mem_of_get? (lk : Lookup) (k : PKey) (l : List Gene) (h : get? lk k = some l) : (k, l) ∈ lk := by
  induction lk with
  | nil => simp [get?] at h
  | cons e es ih =>
    obtain ⟨k0, l0⟩ := e
    simp only [get?, List.lookup_cons] at h ih
    by_cases hk : (k == k0) = true
    · simp only [hk, Option.some.injEq] at h
      simp only [beq_iff_eq] at hk
      simp [hk, h]
    · simp only [hk] at h
      simp [ih h]

theorem consultedOf_spec (t : RawTree) (ps : List PKey) (c : List PKey)
    (h : consultedOf t ps = .ok c) : ∀ p, p ∈ c ↔ p ∈ ps ∧ Consulted t p := by
  induction ps generalizing c with
  | nil => simp only [consultedOf, Except.ok.injEq] at h; subst h; simp
  | cons q qs ih =>
    simp only [consultedOf] at h
    cases hc : childrenOf t q with
    | error e => simp [hc] at h
    | ok ch =>
      cases hr : consultedOf t qs with
      | error e => simp [hc, hr] at h
      | ok rest =>
        simp only [hc, hr, Except.ok.injEq] at h
        subst h
        intro p
        have := ih rest hr p
        by_cases hl : ch.length > 1
        · simp only [hl, if_true, List.mem_cons, this]
          constructor
          · rintro (rfl | ⟨h1, h2⟩)
            · exact ⟨Or.inl rfl, ch, hc, hl⟩
            · exact ⟨Or.inr h1, h2⟩
          · rintro ⟨rfl | h1, h2⟩
            · exact Or.inl rfl
            · exact Or.inr ⟨h1, h2⟩
        · simp only [hl, if_false, this, List.mem_cons]
          constructor
          · rintro ⟨h1, h2⟩; exact ⟨Or.inr h1, h2⟩
          · rintro ⟨rfl | h1, h2⟩
            · obtain ⟨ch', hc', hl'⟩ := h2
              rw [hc] at hc'; cases hc'
              exact absurd hl' hl
            · exact ⟨h1, h2⟩

theorem consultedOf_ok (t : RawTree) (ps : List PKey) (h : ∀ p ∈ ps, ∃ ch, childrenOf t p = .ok ch) :
    ∃ c, consultedOf t ps = .ok c := by
  induction ps with
  | nil => exact ⟨[], rfl⟩
  | cons q qs ih =>
    obtain ⟨ch, hc⟩ := h q (by simp)
    obtain ⟨c, hr⟩ := ih (fun p hp => h p (by simp [hp]))
    exact ⟨if ch.length > 1 then q :: c else c, by simp only [consultedOf, hc, hr]⟩

/-- the stages of `create_marker_cache_from_specified_markers` with a taxonomy -/
theorem createCache_some (t : RawTree) (lk : Lookup) (R Q : List Gene) (m : Nat) :
    createCache (some t) lk R Q m =
      match validateLookup t Q m lk with
      | .error e => .error e
      | .ok lk' =>
        match consultedOf t t.allParents with
        | .error e => .error e
        | .ok c =>
          match intersectAll Q (some c) lk' with
          | .error e => .error e
          | .ok final => if missingRef R lk' then .error .notInReference else writeCache final R Q := by
  unfold createCache
  cases hv : validateLookup t Q m lk with
  | error e => simp only [hv]
  | ok lk' =>
    cases hc : consultedOf t t.allParents with
    | error e => simp only [hv, hc]
    | ok c => simp only [hv, hc]; rfl

/-- the root's entry is never rewritten -/
theorem stepAt_root (t : RawTree) (Q : List Gene) (m : Nat) (lk : Lookup) (s0 : VState)
    (h : stepAt t Q m lk none = .ok s0) : s0.lookup = lk := by
  unfold stepAt validateStepWith at h
  cases hc : childrenOf t none with
  | error e => simp [hc] at h
  | ok ch =>
    simp only [hc] at h
    split at h
    · cases h; rfl
    · cases hg : get? lk none with
      | some own =>
        simp only [hg] at h
        split at h
        · cases h; rfl
        · cases h
          rw [patchAndCount_eq]
          have e : (patchResult t Q m lk lk none own).1 = lk := by
            rcases patchResult_cases t Q m lk lk none own with ⟨h1, _⟩ | ⟨l, n, hp, _⟩
            · rw [h1]
            · cases hp
          split <;> exact e
      | none =>
        simp [hg] at h
        cases h; rfl

theorem validateLookup_root (t : RawTree) (hT : TreeOK t) (Q : List Gene) (m : Nat) (lk lk' : Lookup)
    (h : validateLookup t Q m lk = .ok lk') : get? lk' none = get? lk none := by
  obtain ⟨stF, hF, _, h2, _⟩ := validateLoop_spec t hT Q m lk
  unfold validateLookup at h
  rw [hF] at h
  simp only [finish] at h
  have hl : lk' = stF.lookup := by
    split at h
    · split at h <;> cases h
    · cases h; rfl
  subst hl
  obtain ⟨s0, h0, he⟩ := h2 none (by simp [RawTree.allParents])
  rw [he, stepAt_root t Q m lk s0 h0]

theorem intersectAll_ok_eq (Q : List Gene) (consulted : Option (List PKey)) (lk final : Lookup)
    (h : intersectAll Q consulted lk = .ok final) : final = lk.map (fun e => (e.1, interQ Q e.2)) := by
  induction lk generalizing final with
  | nil => simp only [intersectAll, Except.ok.injEq] at h; subst h; rfl
  | cons e es ih =>
    obtain ⟨k, l⟩ := e
    rw [intersectAll_cons] at h
    split at h
    · cases h
    · cases hr : intersectAll Q consulted es with
      | error e' => simp [hr] at h
      | ok r =>
        simp only [hr, Except.ok.injEq] at h
        subst h
        simp [ih r hr]

theorem writeGroup_ok (R Q : List Gene) (genes : List Gene) (rows : List (Nat × Nat))
    (h : writeGroup R Q genes = .ok rows) :
    ∃ names, names.Perm genes ∧ RowsFor R Q rows names ∧ rows.Pairwise (fun a b => a.1 ≤ b.1) := by
  unfold writeGroup at h
  cases hp : pairsOf R Q genes with
  | error e => simp [hp] at h
  | ok ps =>
    simp only [hp, Except.ok.injEq] at h
    subst h
    obtain ⟨names, h1, h2⟩ := rowsFor_perm R Q (sortPairs_perm ps).symm genes (pairsOf_ok R Q genes ps hp)
    exact ⟨names, h1, h2, sortPairs_sorted ps⟩

theorem rowsFor_row (R Q : List Gene) (ps : List (Nat × Nat)) (gs : List Gene) (h : RowsFor R Q ps gs) :
    (∀ p ∈ ps, ∃ g ∈ gs, R[p.1]? = some g ∧ Q[p.2]? = some g) ∧
    (∀ g ∈ gs, ∃ p ∈ ps, R[p.1]? = some g ∧ Q[p.2]? = some g) := by
  induction ps generalizing gs with
  | nil => cases gs <;> simp_all [RowsFor]
  | cons p ps ih =>
    cases gs with
    | nil => simp [RowsFor] at h
    | cons g gs =>
      obtain ⟨h1, h2⟩ := h
      obtain ⟨i1, i2⟩ := ih gs h2
      constructor
      · intro q hq
        rcases List.mem_cons.1 hq with rfl | hq
        · exact ⟨g, by simp, h1⟩
        · obtain ⟨g', hg', hh⟩ := i1 q hq
          exact ⟨g', by simp [hg'], hh⟩
      · intro g' hg'
        rcases List.mem_cons.1 hg' with rfl | hg'
        · exact ⟨p, by simp, h1⟩
        · obtain ⟨q, hq, hh⟩ := i2 g' hg'
          exact ⟨q, by simp [hq], hh⟩

theorem namesAt_ok_of_valid (names : List Gene) (is : List Nat)
    (h : ∀ i ∈ is, ∃ g, names[i]? = some g) :
    ∃ gs, namesAt names is = .ok gs ∧ ∀ i ∈ is, ∀ g, names[i]? = some g → g ∈ gs := by
  induction is with
  | nil => exact ⟨[], rfl, by simp⟩
  | cons i is ih =>
    obtain ⟨g, hg⟩ := h i (by simp)
    obtain ⟨gs, h1, h2⟩ := ih (fun j hj => h j (by simp [hj]))
    refine ⟨g :: gs, by simp [namesAt, hg, h1], ?_⟩
    intro j hj g' hg'
    rcases List.mem_cons.1 hj with rfl | hj
    · rw [hg] at hg'; cases hg'; simp
    · simp [h2 j hj g' hg']

theorem writeGroups_rows (R Q : List Gene) (final : Lookup) (gs : List (PKey × List (Nat × Nat)))
    (h : writeGroups R Q final = .ok gs) :
    ∀ e ∈ gs, ∀ row ∈ e.2, ∃ g, R[row.1]? = some g ∧ Q[row.2]? = some g := by
  induction final generalizing gs with
  | nil => simp only [writeGroups, Except.ok.injEq] at h; subst h; simp
  | cons e es ih =>
    obtain ⟨k0, genes⟩ := e
    simp only [writeGroups] at h
    cases hg : writeGroup R Q genes with
    | error e' => simp [hg] at h
    | ok g =>
      cases hr : writeGroups R Q es with
      | error e' => simp [hg, hr] at h
      | ok r =>
        simp only [hg, hr, Except.ok.injEq] at h
        subst h
        intro e he row hrow
        rcases List.mem_cons.1 he with rfl | he
        · obtain ⟨names, _, h2, _⟩ := writeGroup_ok R Q genes g hg
          obtain ⟨g', _, hh⟩ := (rowsFor_row R Q g names h2).1 row hrow
          exact ⟨g', hh⟩
        · exact ih r hr e he row hrow

theorem mem_of_lookup {α β} [BEq α] [LawfulBEq α] (l : List (α × β)) (a : α) (b : β)
    (h : l.lookup a = some b) : (a, b) ∈ l := by
  induction l with
  | nil => simp at h
  | cons e es ih =>
    obtain ⟨k, v⟩ := e
    simp only [List.lookup_cons] at h
    by_cases hk : (a == k) = true
    · simp only [hk, Option.some.injEq] at h
      simp only [beq_iff_eq] at hk
      simp [hk, h]
    · simp only [hk] at h
      simp [ih h]

/-- a successful cache creation, taken apart -/
theorem createCache_ok_parts (t : RawTree) (lk : Lookup) (R Q : List Gene) (m : Nat) (c : Cache)
    (h : createCache (some t) lk R Q m = .ok c) :
    ∃ lk' cons gs, validateLookup t Q m lk = .ok lk' ∧ consultedOf t t.allParents = .ok cons ∧
      intersectAll Q (some cons) lk' = .ok (lk'.map (fun e => (e.1, interQ Q e.2))) ∧
      missingRef R lk' = false ∧
      writeGroups R Q (lk'.map (fun e => (e.1, interQ Q e.2))) = .ok gs ∧
      c = { groups := gs
            allQuery := RawTree.sortNat (dedup (gs.flatMap (fun g => g.2.map (·.2))))
            allRef := RawTree.sortNat (dedup (gs.flatMap (fun g => g.2.map (·.1))))
            refNames := R, queryNames := Q } := by
  rw [createCache_some] at h
  cases hv : validateLookup t Q m lk with
  | error e => simp [hv] at h
  | ok lk' =>
    cases hc : consultedOf t t.allParents with
    | error e => simp [hv, hc] at h
    | ok cons =>
      cases hi : intersectAll Q (some cons) lk' with
      | error e => simp [hv, hc, hi] at h
      | ok final =>
        simp only [hv, hc, hi] at h
        have hf := intersectAll_ok_eq Q (some cons) lk' final hi
        subst hf
        cases hm : missingRef R lk' with
        | true => simp [hm] at h
        | false =>
          simp only [hm, Bool.false_eq_true, if_false] at h
          unfold writeCache at h
          cases hw : writeGroups R Q (lk'.map (fun e => (e.1, interQ Q e.2))) with
          | error e => simp [hw] at h
          | ok gs =>
            simp only [hw, Except.ok.injEq] at h
            exact ⟨lk', cons, gs, rfl, rfl, hi, hm, hw, h.symm⟩

/-- **the cache of a consulted parent**: the group exists; what the output
reports (`serialize_markers`) and what `assemble_query_data` selects are the
same list of names; as a set it is `specGenes` of the ORIGINAL table; the list
has no repetition and is in increasing reference index. -/
theorem createCache_group (t : RawTree) (hT : TreeOK t) (lk : Lookup) (R Q : List Gene) (m : Nat)
    (c : Cache) (h : createCache (some t) lk R Q m = .ok c) (p : PKey) (hp : p ∈ t.allParents)
    (hc : Consulted t p) :
    ∃ rows names, c.groups.lookup p = some rows ∧ RowsFor R Q rows names ∧
      rows.Pairwise (fun a b => a.1 ≤ b.1) ∧
      reportedGroup c p = .ok names ∧ assemble c p = .ok names ∧
      (∀ g, g ∈ names ↔ g ∈ specGenes t lk Q m p) ∧ names.Nodup := by
  obtain ⟨lk', cons, gs, hv, _, _, _, hw, rfl⟩ := createCache_ok_parts t lk R Q m c h
  have hsome := validateLookup_isSome t hT Q m lk lk' hv p hp hc
  obtain ⟨l, hl⟩ := Option.isSome_iff_exists.1 hsome
  have hfin : get? (lk'.map (fun e => (e.1, interQ Q e.2))) p = some (interQ Q l) := by
    rw [get?_map_inter, hl]; rfl
  have hlook := writeGroups_lookup R Q _ gs hw p
  rw [hfin] at hlook
  cases hg : gs.lookup p with
  | none => simp [hg] at hlook
  | some rows =>
    simp only [hg] at hlook
    obtain ⟨names, hperm, hrows, hsorted⟩ := writeGroup_ok R Q _ rows hlook
    obtain ⟨hnR, hnQ⟩ := rowsFor_namesAt R Q rows names hrows
    have hmemb : ∀ g, g ∈ names ↔ g ∈ specGenes t lk Q m p := by
      intro g
      rw [hperm.mem_iff, mem_interQ]
      have := (validateLookup_entries t hT Q m lk lk' hv).1 p hp hc g
      simpa [hl] using this
    have hnd : names.Nodup := hperm.nodup_iff.2 (nodup_interQ Q l)
    refine ⟨rows, names, rfl, hrows, hsorted, ?_, ?_, hmemb, hnd⟩
    · simp [reportedGroup, hg, hnR]
    · -- assemble: all query indices are valid, every name is among all_query_markers
      have hvalid := writeGroups_rows R Q _ gs hw
      have hall : ∀ i ∈ RawTree.sortNat (dedup (gs.flatMap (fun g => g.2.map (·.2)))),
          ∃ g, Q[i]? = some g := by
        intro i hi
        rw [mem_sortNat, mem_dedup, List.mem_flatMap] at hi
        obtain ⟨e, he, hi⟩ := hi
        rw [List.mem_map] at hi
        obtain ⟨row, hrow, rfl⟩ := hi
        obtain ⟨g, _, hq⟩ := hvalid e he row hrow
        exact ⟨g, hq⟩
      obtain ⟨allQ, haq, hmem⟩ := namesAt_ok_of_valid Q _ hall
      have hin : ∀ g ∈ names, g ∈ allQ := by
        intro g hg'
        obtain ⟨row, hrow, _, hq⟩ := (rowsFor_row R Q rows names hrows).2 g hg'
        refine hmem row.2 ?_ g hq
        rw [mem_sortNat, mem_dedup, List.mem_flatMap]
        exact ⟨(p, rows), mem_of_lookup gs p rows hg, List.mem_map.2 ⟨row, hrow, rfl⟩⟩
      have hany : names.any (fun g => !(allQ.contains g)) = false := by
        rw [List.any_eq_false]
        intro g hg'
        simp [hin g hg']
      simp only [assemble, hg, hnR, hnQ, haq, hany]
      simp

/-! ### what `specGenes` says, clause by clause -/

/-- nearest first, stop as soon as the minimum is reached: the accumulated list
is the start list plus the first `k` ancestor lists, `k` least with at least `m`
query genes (or all of them) -/
theorem specAcc_prefix (Q : List Gene) (m : Nat) (lists : List (List Gene)) (cur : List Gene)
    (hcur : countQ Q cur < m) :
    ∃ k, k ≤ lists.length ∧ specAcc Q m lists cur = cur ++ (lists.take k).flatten ∧
      (k < lists.length → countQ Q (cur ++ (lists.take k).flatten) ≥ m) ∧
      ∀ j, j < k → countQ Q (cur ++ (lists.take j).flatten) < m := by
  induction lists generalizing cur with
  | nil => exact ⟨0, by simp, by simp [specAcc], by simp, by simp⟩
  | cons la rest ih =>
    simp only [specAcc]
    by_cases hge : countQ Q (cur ++ la) ≥ m
    · refine ⟨1, by simp, by simp [hge], by simp [hge], ?_⟩
      intro j hj
      have : j = 0 := by omega
      subst this; simpa using hcur
    · simp only [hge, if_false]
      obtain ⟨k, hk, he, h1, h2⟩ := ih (cur ++ la) (by omega)
      refine ⟨k + 1, by simp [hk], by simp [he, List.append_assoc], ?_, ?_⟩
      · intro hlt
        simp only [List.take_succ_cons, List.flatten_cons, ← List.append_assoc]
        exact h1 (by simpa using hlt)
      · intro j hj
        cases j with
        | zero => simpa using hcur
        | succ j' =>
          simp only [List.take_succ_cons, List.flatten_cons, ← List.append_assoc]
          exact h2 j' (by omega)

theorem mem_specAcc (Q : List Gene) (m : Nat) (lists : List (List Gene)) (cur : List Gene) (g : Gene) :
    (g ∈ cur → g ∈ specAcc Q m lists cur) ∧
    (g ∈ specAcc Q m lists cur → g ∈ cur ∨ ∃ la ∈ lists, g ∈ la) := by
  induction lists generalizing cur with
  | nil => simp [specAcc]
  | cons la rest ih =>
    simp only [specAcc]
    split
    · simp only [List.mem_append, List.mem_cons, exists_eq_or_imp]
      exact ⟨Or.inl, fun h => h.elim Or.inl (fun h => Or.inr (Or.inl h))⟩
    · constructor
      · intro h; exact (ih (cur ++ la)).1 (by simp [h])
      · intro h
        rcases (ih (cur ++ la)).2 h with h | ⟨lb, hlb, h⟩
        · rcases List.mem_append.1 h with h | h
          · exact Or.inl h
          · exact Or.inr ⟨la, by simp, h⟩
        · exact Or.inr ⟨lb, by simp [hlb], h⟩

/-- own markers survive, nothing outside the query is used -/
theorem specGenes_own (t : RawTree) (lk : Lookup) (Q : List Gene) (m : Nat) (p : PKey) (g : Gene) :
    (g ∈ (get? lk p).getD [] → g ∈ Q → g ∈ specGenes t lk Q m p) ∧
    (g ∈ specGenes t lk Q m p → g ∈ Q) := by
  unfold specGenes
  cases p with
  | none => simp only [mem_interQ]; exact ⟨fun h1 h2 => ⟨h1, h2⟩, fun h => h.2⟩
  | some ln =>
    obtain ⟨l, n⟩ := ln
    simp only
    split
    · split
      · simp only [mem_interQ, List.mem_append]
        exact ⟨fun h1 h2 => ⟨Or.inl ((mem_specAcc Q m _ _ g).1 h1), h2⟩, fun h => h.2⟩
      · simp only [mem_interQ]
        exact ⟨fun h1 h2 => ⟨(mem_specAcc Q m _ _ g).1 h1, h2⟩, fun h => h.2⟩
    · simp only [mem_interQ]; exact ⟨fun h1 h2 => ⟨h1, h2⟩, fun h => h.2⟩

/-- enough own markers, or the root: exactly the own markers present in the query -/
theorem specGenes_enough (t : RawTree) (lk : Lookup) (Q : List Gene) (m : Nat) (p : PKey)
    (h : p = none ∨ countQ Q ((get? lk p).getD []) ≥ m) :
    specGenes t lk Q m p = interQ Q ((get? lk p).getD []) := by
  unfold specGenes
  cases p with
  | none => rfl
  | some ln =>
    obtain ⟨l, n⟩ := ln
    have : ¬ countQ Q ((get? lk (some (l, n))).getD []) < m := by
      rcases h with h | h
      · cases h
      · omega
    simp [this]

/-- every gene used comes from the parent's own list, from the list of one of
its ancestors, or from the root's list -/
theorem specGenes_sources (t : RawTree) (lk : Lookup) (Q : List Gene) (m : Nat) (l : Level) (n : Node)
    (g : Gene) (h : g ∈ specGenes t lk Q m (some (l, n))) :
    g ∈ (get? lk (some (l, n))).getD [] ∨
    (∃ a ∈ ancestorKeys t l n, ∃ la, get? lk a = some la ∧ g ∈ la) ∨
    g ∈ (get? lk none).getD [] := by
  unfold specGenes at h
  simp only at h
  have src : ∀ x, x ∈ specAcc Q m ((ancestorKeys t l n).filterMap (get? lk)) ((get? lk (some (l, n))).getD []) →
      x ∈ (get? lk (some (l, n))).getD [] ∨ (∃ a ∈ ancestorKeys t l n, ∃ la, get? lk a = some la ∧ x ∈ la) := by
    intro x hx
    rcases (mem_specAcc Q m _ _ x).2 hx with h | ⟨la, hla, h⟩
    · exact Or.inl h
    · obtain ⟨a, ha, hga⟩ := List.mem_filterMap.1 hla
      exact Or.inr ⟨a, ha, la, hga, h⟩
  split at h
  · split at h
    · rcases List.mem_append.1 ((mem_interQ Q _ g).1 h).1 with h | h
      · rcases src g h with h | h
        · exact Or.inl h
        · exact Or.inr (Or.inl h)
      · exact Or.inr (Or.inr h)
    · rcases src g ((mem_interQ Q _ g).1 h).1 with h | h
      · exact Or.inl h
      · exact Or.inr (Or.inl h)
  · exact Or.inl ((mem_interQ Q _ g).1 h).1

/-! ### `serialize_markers` -/

/-- what one entry of the output table is -/
def ReportedEntry (t : RawTree) (c : Cache) (k : PKey) (g : List Gene) : Prop :=
  ∃ ch, childrenOf t k = .ok ch ∧ (if ch.length < 2 then g = [] else reportedGroup c k = .ok g)

theorem serializeNodes_spec (t : RawTree) (c : Cache) (nodes : List (Level × Node))
    (out : List (PKey × List Gene)) (h : serializeNodes t c nodes = .ok out) :
    out.map (·.1) = nodes.map some ∧ ∀ e ∈ out, ReportedEntry t c e.1 e.2 := by
  induction nodes generalizing out with
  | nil => simp only [serializeNodes, Except.ok.injEq] at h; subst h; simp
  | cons ln rest ih =>
    obtain ⟨l, n⟩ := ln
    simp only [serializeNodes] at h
    cases hc : childrenOf t (some (l, n)) with
    | error e => simp [hc] at h
    | ok ch =>
      simp only [hc] at h
      by_cases hl : ch.length < 2
      · simp only [hl, if_true] at h
        cases hr : serializeNodes t c rest with
        | error e => simp [hr] at h
        | ok r =>
          simp only [hr, Except.ok.injEq] at h
          subst h
          obtain ⟨i1, i2⟩ := ih r hr
          refine ⟨by simp [i1], ?_⟩
          intro e he
          rcases List.mem_cons.1 he with rfl | he
          · exact ⟨ch, hc, by simp [hl]⟩
          · exact i2 e he
      · simp only [hl, if_false] at h
        cases hg : reportedGroup c (some (l, n)) with
        | error e => simp [hg] at h
        | ok g =>
          simp only [hg] at h
          cases hr : serializeNodes t c rest with
          | error e => simp [hr] at h
          | ok r =>
            simp only [hr, Except.ok.injEq] at h
            subst h
            obtain ⟨i1, i2⟩ := ih r hr
            refine ⟨by simp [i1], ?_⟩
            intro e he
            rcases List.mem_cons.1 he with rfl | he
            · exact ⟨ch, hc, by simp [hl, hg]⟩
            · exact i2 e he

/-- the output table has one entry per parent of the taxonomy (`'None'` last),
each of them the group of the cache, or `[]` for fewer than two children -/
theorem serialize_spec (t : RawTree) (c : Cache) (out : List (PKey × List Gene))
    (h : serialize t c = .ok out) :
    (∀ k, k ∈ out.map (·.1) ↔ k ∈ t.allParents) ∧ ∀ e ∈ out, ReportedEntry t c e.1 e.2 := by
  unfold serialize at h
  simp only at h
  cases hn : serializeNodes t c (t.hierarchy.dropLast.flatMap (fun l => (t.nodesAt l).map (fun n => (l, n)))) with
  | error e => simp [hn] at h
  | ok r =>
    simp only [hn] at h
    cases hcr : childrenOf t none with
    | error e => simp [hcr] at h
    | ok chr =>
    simp only [hcr] at h
    have hroot : ∃ g, (if chr.length < 2 then Except.ok [] else reportedGroup c none) = Except.ok g ∧
        out = r ++ [(none, g)] := by
      cases hg : (if chr.length < 2 then Except.ok [] else reportedGroup c none : Except MErr (List Gene)) with
      | error e => simp [hg] at h
      | ok g => simp only [hg, Except.ok.injEq] at h; exact ⟨g, rfl, h.symm⟩
    obtain ⟨g, hg, rfl⟩ := hroot
    have hgE : ReportedEntry t c none g := by
      refine ⟨chr, hcr, ?_⟩
      by_cases hl : chr.length < 2
      · simp only [hl, if_true, Except.ok.injEq] at hg ⊢; exact hg.symm
      · simp only [hl, if_false] at hg ⊢; exact hg
    · obtain ⟨i1, i2⟩ := serializeNodes_spec t c _ r hn
      constructor
      · intro k
        simp only [List.map_append, i1, List.map_cons, List.map_nil, List.mem_append, List.mem_map,
          List.mem_flatMap, List.mem_cons, List.not_mem_nil, or_false, RawTree.allParents]
        constructor
        · rintro (⟨⟨l, n⟩, ⟨l', hl', n', hn', he⟩, rfl⟩ | rfl)
          · cases he; exact Or.inr ⟨l, hl', n, hn', rfl⟩
          · exact Or.inl rfl
        · rintro (rfl | ⟨l, hl, n, hn', rfl⟩)
          · exact Or.inr rfl
          · exact Or.inl ⟨(l, n), ⟨l, hl, n, hn', rfl⟩, rfl⟩
      · intro e he
        rcases List.mem_append.1 he with he | he
        · exact i2 e he
        · simp only [List.mem_cons, List.not_mem_nil, or_false] at he
          subst he
          exact hgE

/-! ### the flatten union -/

theorem flattenLookup_spec (lk : Lookup) :
    ∃ genes, flattenLookup lk = [(none, genes)] ∧ genes.Pairwise (· < ·) ∧
      ∀ g, g ∈ genes ↔ ∃ e ∈ lk, g ∈ e.2 := by
  refine ⟨_, rfl, strict_of_sorted_nodup (sortNat_sorted _) (sortNat_nodup (nodup_dedup _)), ?_⟩
  intro g
  simp [mem_sortNat, mem_dedup, List.mem_flatMap]

/-! ### provenance: validation never invents a gene -/

theorem mem_set (lk : Lookup) (k : PKey) (v : List Gene) (e : PKey × List Gene) (h : e ∈ set lk k v) :
    e ∈ lk ∨ e = (k, v) := by
  unfold set at h
  split at h
  · obtain ⟨e0, he0, rfl⟩ := List.mem_map.1 h
    by_cases hk : (e0.1 == k) = true
    · simp only [hk, if_true]
      simp only [beq_iff_eq] at hk
      exact Or.inr (by rw [hk])
    · simp only [hk, Bool.false_eq_true, if_false]; exact Or.inl he0
  · rcases List.mem_append.1 h with h | h
    · exact Or.inl h
    · exact Or.inr (by simpa using h)

/-- every gene of the table comes from some list of `lk` -/
def GenesFrom (lk cur : Lookup) : Prop := ∀ e ∈ cur, ∀ g ∈ e.2, ∃ e0 ∈ lk, g ∈ e0.2

theorem patchOf_sources (t : RawTree) (Q : List Gene) (m : Nat) (lk : Lookup) (l : Level) (n : Node)
    (own : List Gene) (g : Gene) (h : g ∈ (patchOf t Q m lk l n own).1) :
    g ∈ own ∨ ∃ e0 ∈ lk, g ∈ e0.2 := by
  rw [patchOf_fst] at h
  simp only at h
  have src : ∀ x, x ∈ specAcc Q m ((ancestorKeys t l n).filterMap (get? lk)) own →
      x ∈ own ∨ ∃ e0 ∈ lk, x ∈ e0.2 := by
    intro x hx
    rcases (mem_specAcc Q m _ _ x).2 hx with h | ⟨la, hla, h⟩
    · exact Or.inl h
    · obtain ⟨a, _, hga⟩ := List.mem_filterMap.1 hla
      exact Or.inr ⟨(a, la), mem_of_get? lk a la hga, h⟩
  split at h
  · rcases List.mem_append.1 h with h | h
    · exact src g h
    · cases hr : get? lk none with
      | none => simp [hr] at h
      | some lr =>
        simp only [hr, Option.getD_some] at h
        exact Or.inr ⟨(none, lr), mem_of_get? lk none lr hr, h⟩
  · exact src g h

theorem patchAndCount_genesFrom (t : RawTree) (Q : List Gene) (m : Nat) (lk : Lookup) (st : VState)
    (p : PKey) (own : List Gene) (hown : ∀ g ∈ own, ∃ e0 ∈ lk, g ∈ e0.2) (h : GenesFrom lk st.lookup) :
    GenesFrom lk (patchAndCount t Q m lk st p own).lookup := by
  have e : GenesFrom lk (patchResult t Q m lk st.lookup p own).1 := by
    rcases patchResult_cases t Q m lk st.lookup p own with ⟨h1, _⟩ | ⟨l, n, _, _, _, h1⟩
    · rw [h1]; exact h
    · rw [h1]
      intro e he g hg
      rcases mem_set _ _ _ e he with he | rfl
      · exact h e he g hg
      · have := ((mem_sortedInter Q _ g).1 hg).1
        rcases patchOf_sources t Q m lk l n own g this with h1 | h1
        · exact hown g h1
        · exact h1
  rw [patchAndCount_eq]
  split <;> exact e

theorem step_genesFrom (t : RawTree) (Q : List Gene) (m : Nat) (lk : Lookup) (st st' : VState) (p : PKey)
    (h : GenesFrom lk st.lookup) (hs : validateStepWith t Q m (fun _ => lk) st p = .ok st') :
    GenesFrom lk st'.lookup := by
  unfold validateStepWith at hs
  cases hc : childrenOf t p with
  | error e => simp [hc] at hs
  | ok ch =>
    simp only [hc] at hs
    split at hs
    · cases hs; exact h
    · cases hg : get? st.lookup p with
      | some own =>
        simp only [hg] at hs
        split at hs
        · cases hs; exact h
        · cases hs
          apply patchAndCount_genesFrom _ _ _ _ _ _ _ _ h
          intro g hg'
          exact h (p, own) (mem_of_get? _ _ _ hg) g hg'
      | none =>
        simp only [hg] at hs
        split at hs
        · cases hs; exact h
        · cases hs
          apply patchAndCount_genesFrom
          · simp
          · intro e he g hg'
            rcases mem_set _ _ _ e he with he | rfl
            · exact h e he g hg'
            · simp at hg'

theorem foldSteps_genesFrom (t : RawTree) (Q : List Gene) (m : Nat) (lk : Lookup) (ps : List PKey)
    (st stF : VState) (h : GenesFrom lk st.lookup)
    (hf : foldSteps (validateStepWith t Q m (fun _ => lk)) ps st = .ok stF) : GenesFrom lk stF.lookup := by
  induction ps generalizing st with
  | nil => simp only [foldSteps, Except.ok.injEq] at hf; subst hf; exact h
  | cons p ps ih =>
    simp only [foldSteps] at hf
    cases hs : validateStepWith t Q m (fun _ => lk) st p with
    | error e => simp [hs] at hf
    | ok st1 =>
      simp only [hs] at hf
      exact ih st1 (step_genesFrom t Q m lk st st1 p h hs) hf

/-- every gene of the validated table is listed somewhere in the original one -/
theorem validateLookup_genesFrom (t : RawTree) (hT : TreeOK t) (Q : List Gene) (m : Nat) (lk lk' : Lookup)
    (h : validateLookup t Q m lk = .ok lk') : GenesFrom lk lk' := by
  have hself : ∀ p ∈ t.allParents.reverse, p ∉ readKeys t p :=
    fun p hp => hT.selfFree p (List.mem_reverse.1 hp)
  have e := foldSteps_orig t Q m lk t.allParents.reverse hT.deepestFirst hself { lookup := lk }
    (fun _ _ _ _ => rfl)
  unfold validateLookup at h
  rw [e] at h
  cases hf : foldSteps (validateStepWith t Q m (fun _ => lk)) t.allParents.reverse { lookup := lk } with
  | error e' => simp [hf] at h
  | ok stF =>
    simp only [hf, finish] at h
    have hl : lk' = stF.lookup := by
      split at h
      · split at h <;> cases h
      · cases h; rfl
    subst hl
    exact foldSteps_genesFrom t Q m lk _ _ stF (fun e he g hg => ⟨e, he, hg⟩) hf

/-! ### the table is a dict: keys stay distinct -/

def KeysNodup (lk : Lookup) : Prop := (lk.map (·.1)).Nodup

theorem get?_of_mem (lk : Lookup) (h : KeysNodup lk) (k : PKey) (l : List Gene) (hm : (k, l) ∈ lk) :
    get? lk k = some l := by
  induction lk with
  | nil => cases hm
  | cons e es ih =>
    obtain ⟨k0, l0⟩ := e
    have hn : k0 ∉ es.map (·.1) ∧ (es.map (·.1)).Nodup := by
      unfold KeysNodup at h; rw [List.map_cons] at h; exact List.nodup_cons.1 h
    simp only [get?, List.lookup_cons]
    rcases List.mem_cons.1 hm with he | he
    · cases he; simp
    · have : k ≠ k0 := by
        rintro rfl
        exact hn.1 (List.mem_map.2 ⟨(k, l), he, rfl⟩)
      have hb : (k == k0) = false := by simp [this]
      simp only [hb]
      exact ih hn.2 he

theorem hasKey_iff_mem (lk : Lookup) (k : PKey) : hasKey lk k = true ↔ k ∈ lk.map (·.1) := by
  simp [hasKey, List.any_eq_true]

theorem keysNodup_set (lk : Lookup) (k : PKey) (v : List Gene) (h : KeysNodup lk) : KeysNodup (set lk k v) := by
  unfold set
  split
  · have : (lk.map (fun e => if e.1 == k then (e.1, v) else e)).map (·.1) = lk.map (·.1) := by
      rw [List.map_map]
      apply List.map_congr_left
      intro e _
      simp only [Function.comp]
      split <;> rfl
    unfold KeysNodup; rw [this]; exact h
  · rename_i hk
    unfold KeysNodup
    rw [List.map_append, List.nodup_append]
    refine ⟨h, by simp, ?_⟩
    intro a ha b hb
    simp only [List.map_cons, List.map_nil, List.mem_cons, List.not_mem_nil, or_false] at hb
    subst hb
    rintro rfl
    exact hk ((hasKey_iff_mem lk a).2 ha)

theorem patchAndCount_keysNodup (t : RawTree) (Q : List Gene) (m : Nat) (lk : Lookup) (st : VState)
    (p : PKey) (own : List Gene) (h : KeysNodup st.lookup) :
    KeysNodup (patchAndCount t Q m lk st p own).lookup := by
  have e : KeysNodup (patchResult t Q m lk st.lookup p own).1 := by
    rcases patchResult_cases t Q m lk st.lookup p own with ⟨h1, _⟩ | ⟨l, n, _, _, _, h1⟩
    · rw [h1]; exact h
    · rw [h1]; exact keysNodup_set _ _ _ h
  rw [patchAndCount_eq]
  split <;> exact e

theorem step_keysNodup (t : RawTree) (Q : List Gene) (m : Nat) (lk : Lookup) (st st' : VState) (p : PKey)
    (h : KeysNodup st.lookup) (hs : validateStepWith t Q m (fun _ => lk) st p = .ok st') :
    KeysNodup st'.lookup := by
  unfold validateStepWith at hs
  cases hc : childrenOf t p with
  | error e => simp [hc] at hs
  | ok ch =>
    simp only [hc] at hs
    split at hs
    · cases hs; exact h
    · cases hg : get? st.lookup p with
      | some own =>
        simp only [hg] at hs
        split at hs
        · cases hs; exact h
        · cases hs; exact patchAndCount_keysNodup _ _ _ _ _ _ _ h
      | none =>
        simp only [hg] at hs
        split at hs
        · cases hs; exact h
        · cases hs
          exact patchAndCount_keysNodup _ _ _ _ _ _ _ (keysNodup_set _ _ _ h)

theorem validateLookup_keysNodup (t : RawTree) (hT : TreeOK t) (Q : List Gene) (m : Nat) (lk lk' : Lookup)
    (hk : KeysNodup lk) (h : validateLookup t Q m lk = .ok lk') : KeysNodup lk' := by
  have hself : ∀ p ∈ t.allParents.reverse, p ∉ readKeys t p :=
    fun p hp => hT.selfFree p (List.mem_reverse.1 hp)
  have e := foldSteps_orig t Q m lk t.allParents.reverse hT.deepestFirst hself { lookup := lk }
    (fun _ _ _ _ => rfl)
  unfold validateLookup at h
  rw [e] at h
  have fold : ∀ (ps : List PKey) (st stF : VState), KeysNodup st.lookup →
      foldSteps (validateStepWith t Q m (fun _ => lk)) ps st = .ok stF → KeysNodup stF.lookup := by
    intro ps
    induction ps with
    | nil => intro st stF h0 hf; simp only [foldSteps, Except.ok.injEq] at hf; subst hf; exact h0
    | cons p ps ih =>
      intro st stF h0 hf
      simp only [foldSteps] at hf
      cases hs : validateStepWith t Q m (fun _ => lk) st p with
      | error e => simp [hs] at hf
      | ok st1 =>
        simp only [hs] at hf
        exact ih st1 stF (step_keysNodup t Q m lk st st1 p h0 hs) hf
  cases hf : foldSteps (validateStepWith t Q m (fun _ => lk)) t.allParents.reverse { lookup := lk } with
  | error e' => simp [hf] at h
  | ok stF =>
    simp only [hf, finish] at h
    have hl : lk' = stF.lookup := by
      split at h
      · split at h <;> cases h
      · cases h; rfl
    subst hl
    exact fold _ _ stF hk hf

/-! ### when `create_marker_cache_from_specified_markers` raises -/

theorem intersectAll_ok_imp (Q : List Gene) (consulted : Option (List PKey)) (lk final : Lookup)
    (h : intersectAll Q consulted lk = .ok final) :
    ∀ e ∈ lk, ¬ (isConsultedKey consulted e.1 = true ∧ interQ Q e.2 = [] ∧ e.2 ≠ []) := by
  intro e he hbad
  induction lk generalizing final with
  | nil => cases he
  | cons e0 es ih =>
    obtain ⟨k, l⟩ := e0
    rw [intersectAll_cons] at h
    by_cases hh : (isConsultedKey consulted k && (interQ Q l).isEmpty && !l.isEmpty) = true
    · simp [hh] at h
    · simp only [hh, Bool.false_eq_true, if_false] at h
      cases hr : intersectAll Q consulted es with
      | error e' => simp [hr] at h
      | ok r =>
        rcases List.mem_cons.1 he with rfl | he
        · apply hh
          simp only [Bool.and_eq_true, List.isEmpty_iff, Bool.not_eq_true', List.isEmpty_eq_false_iff]
          exact ⟨⟨hbad.1, hbad.2.1⟩, hbad.2.2⟩
        · exact ih r hr he

theorem specGenes_nil_countQ (t : RawTree) (lk : Lookup) (Q : List Gene) (m : Nat) (p : PKey)
    (h : specGenes t lk Q m p = []) : countQ Q ((get? lk p).getD []) = 0 := by
  rw [countQ_eq_zero]
  intro g hg hq
  have := (specGenes_own t lk Q m p g).1 hg hq
  rw [h] at this; cases this

/-- the only errors the cache creation can end with -/
theorem createCache_error_class (t : RawTree) (hT : TreeOK t) (lk : Lookup) (R Q : List Gene) (m : Nat)
    (e : MErr) (h : createCache (some t) lk R Q m = .error e) :
    e = .noMarkersAnyLevel ∨ e = .validating ∨ e = .noQueryOverlap ∨ e = .notInReference := by
  rw [createCache_some] at h
  cases hv : validateLookup t Q m lk with
  | error e' =>
    simp only [hv, Except.error.injEq] at h
    subst h
    rcases (validateLookup_error t hT Q m lk e' hv).1 with h | h
    · exact Or.inl h
    · exact Or.inr (Or.inl h)
  | ok lk' =>
    obtain ⟨cons, hc⟩ := consultedOf_ok t t.allParents hT.childrenOk
    simp only [hv, hc] at h
    cases hi : intersectAll Q (some cons) lk' with
    | error e' =>
      simp only [hi, Except.error.injEq] at h
      subst h
      exact Or.inr (Or.inr (Or.inl (intersectAll_error Q _ lk' e' hi).1))
    | ok final =>
      simp only [hi] at h
      cases hm : missingRef R lk' with
      | true =>
        simp only [hm, if_true, Except.error.injEq] at h
        exact Or.inr (Or.inr (Or.inr h.symm))
      | false =>
        simp only [hm, Bool.false_eq_true, if_false] at h
        have hf := intersectAll_ok_eq Q (some cons) lk' final hi
        subst hf
        have hR := (missingRef_false_iff R lk').1 hm
        obtain ⟨gs, hgs⟩ := writeGroups_ok R Q (lk'.map (fun e => (e.1, interQ Q e.2))) (by
          intro e he g hg
          obtain ⟨e0, he0, rfl⟩ := List.mem_map.1 he
          have := (mem_interQ Q e0.2 g).1 hg
          exact ⟨hR e0 he0 g this.1, this.2⟩)
        simp [writeCache, hgs] at h

/-- **no spurious rejection**: a dict-like table all of whose listed genes are
reference genes is accepted as soon as no consulted parent is in the error
condition (root listed and non-empty; every consulted parent ends with a marker
of the query) -/
theorem createCache_complete (t : RawTree) (hT : TreeOK t) (lk : Lookup) (R Q : List Gene) (m : Nat)
    (hk : KeysNodup lk)
    (hval : ∀ p ∈ t.allParents, Consulted t p → ¬ errAt t lk Q m p)
    (hR : ∀ e ∈ lk, ∀ g ∈ e.2, g ∈ R) :
    ∃ c, createCache (some t) lk R Q m = .ok c := by
  obtain ⟨lk', hv⟩ := (validateLookup_ok_iff t hT Q m lk).2 hval
  obtain ⟨cons, hc⟩ := consultedOf_ok t t.allParents hT.childrenOk
  have hk' := validateLookup_keysNodup t hT Q m lk lk' hk hv
  have hfrom := validateLookup_genesFrom t hT Q m lk lk' hv
  have hR' : ∀ e ∈ lk', ∀ g ∈ e.2, g ∈ R := by
    intro e he g hg
    obtain ⟨e0, he0, hg0⟩ := hfrom e he g hg
    exact hR e0 he0 g hg0
  have hint := intersectAll_ok_iff Q (some cons) lk' (by
    rintro ⟨k, l⟩ he ⟨h1, h2, _⟩
    simp only [isConsultedKey, List.contains_iff_mem] at h1
    obtain ⟨hp, hcons⟩ := (consultedOf_spec t _ cons hc k).1 h1
    have hget := get?_of_mem lk' hk' k l he
    have hspec : specGenes t lk Q m k = [] := by
      apply List.eq_nil_iff_forall_not_mem.2
      intro g hg
      have := ((validateLookup_entries t hT Q m lk lk' hv).1 k hp hcons g).2 hg
      simp only [hget, Option.getD_some] at this
      exact (interQ_eq_nil Q l).1 h2 g this.1 this.2
    exact hval k hp hcons (Or.inr hspec))
  have hmiss : missingRef R lk' = false := (missingRef_false_iff R lk').2 hR'
  obtain ⟨gs, hgs⟩ := writeGroups_ok R Q (lk'.map (fun e => (e.1, interQ Q e.2))) (by
    intro e he g hg
    obtain ⟨e0, he0, rfl⟩ := List.mem_map.1 he
    have := (mem_interQ Q e0.2 g).1 hg
    exact ⟨hR' e0 he0 g this.1, this.2⟩)
  refine ⟨{ groups := gs
            allQuery := RawTree.sortNat (dedup (gs.flatMap (fun g => g.2.map (·.2))))
            allRef := RawTree.sortNat (dedup (gs.flatMap (fun g => g.2.map (·.1))))
            refNames := R, queryNames := Q }, ?_⟩
  rw [createCache_some]
  simp only [hv, hc, hint, hmiss, Bool.false_eq_true, if_false, writeCache, hgs]

/-- a consulted parent in the error condition ends the run -/
theorem createCache_rejects_errAt (t : RawTree) (hT : TreeOK t) (lk : Lookup) (R Q : List Gene) (m : Nat)
    (p : PKey) (hp : p ∈ t.allParents) (hc : Consulted t p) (he : errAt t lk Q m p) :
    ∃ e, createCache (some t) lk R Q m = .error e := by
  rw [createCache_some]
  cases hv : validateLookup t Q m lk with
  | error e => exact ⟨e, rfl⟩
  | ok lk' => exact absurd he ((validateLookup_ok_iff t hT Q m lk).1 ⟨lk', hv⟩ p hp hc)

/-- a root without usable markers ends the run (any `min_markers`) -/
theorem createCache_rejects_root (t : RawTree) (hT : TreeOK t) (lk : Lookup) (R Q : List Gene) (m : Nat)
    (hc : Consulted t none) (h0 : interQ Q ((get? lk none).getD []) = []) :
    ∃ e, createCache (some t) lk R Q m = .error e := by
  have hp : none ∈ t.allParents := by simp [RawTree.allParents]
  exact createCache_rejects_errAt t hT lk R Q m none hp hc (Or.inr (by simpa [specGenes] using h0))

/-- a listed marker that is in the query but unknown to the reference ends the
run (whatever key lists it, consulted or not) -/
theorem createCache_rejects_foreign (t : RawTree) (hT : TreeOK t) (lk : Lookup) (R Q : List Gene) (m : Nat)
    (hk : KeysNodup lk) (k : PKey) (l : List Gene) (hkl : (k, l) ∈ lk) (g : Gene) (hg : g ∈ l)
    (hq : g ∈ Q) (hr : g ∉ R) :
    ∃ e, createCache (some t) lk R Q m = .error e := by
  rw [createCache_some]
  cases hv : validateLookup t Q m lk with
  | error e => exact ⟨e, rfl⟩
  | ok lk' =>
    obtain ⟨cons, hcc⟩ := consultedOf_ok t t.allParents hT.childrenOk
    simp only [hcc]
    cases hi : intersectAll Q (some cons) lk' with
    | error e => exact ⟨e, rfl⟩
    | ok final =>
      simp only
      have hget := get?_of_mem lk hk k l hkl
      -- the gene is still listed under the same key after validation
      have hstill : ∃ l', (k, l') ∈ lk' ∧ g ∈ l' := by
        by_cases hcons : k ∈ t.allParents ∧ Consulted t k
        · have h1 := (specGenes_own t lk Q m k g).1 (by simpa [hget] using hg) hq
          have h2 := ((validateLookup_entries t hT Q m lk lk' hv).1 k hcons.1 hcons.2 g).2 h1
          cases hg' : get? lk' k with
          | none => simp [hg'] at h2
          | some l' =>
            simp only [hg', Option.getD_some] at h2
            exact ⟨l', mem_of_get? lk' k l' hg', h2.1⟩
        · have := (validateLookup_entries t hT Q m lk lk' hv).2 k hcons
          rw [hget] at this
          exact ⟨l, mem_of_get? lk' k l this, hg⟩
      obtain ⟨l', hl', hgl'⟩ := hstill
      have : missingRef R lk' = true := by
        cases hm : missingRef R lk' with
        | true => rfl
        | false => exact absurd ((missingRef_false_iff R lk').1 hm (k, l') hl' g hgl') hr
      exact ⟨.notInReference, by simp [this]⟩

/-! ### the gene order of the query and of the reference is immaterial -/

theorem countQ_congr {Q Q' : List Gene} (h : ∀ g, g ∈ Q ↔ g ∈ Q') (l : List Gene) :
    countQ Q l = countQ Q' l := by unfold countQ; rw [interQ_congr h]

theorem sortedInter_congr {Q Q' : List Gene} (h : ∀ g, g ∈ Q ↔ g ∈ Q') (l : List Gene) :
    sortedInter Q l = sortedInter Q' l := by unfold sortedInter; rw [interQ_congr h]

theorem patchLoop_congrQ {Q Q' : List Gene} (h : ∀ g, g ∈ Q ↔ g ∈ Q') (m : Nat) (lk : Lookup)
    (keys : List PKey) (new : List Gene) (pw : List PKey) :
    patchLoop Q m lk keys new pw = patchLoop Q' m lk keys new pw := by
  induction keys generalizing new pw with
  | nil => rfl
  | cons a rest ih =>
    simp only [patchLoop]
    cases get? lk a with
    | none => exact ih _ _
    | some la => simp only [countQ_congr h, ih]

theorem validateStep_congrQ {Q Q' : List Gene} (h : ∀ g, g ∈ Q ↔ g ∈ Q') (t : RawTree) (m : Nat) :
    validateStep t Q m = validateStep t Q' m := by
  funext st p
  unfold validateStep validateStepWith patchAndCount patchOf
  simp only [patchLoop_congrQ h, countQ_congr h, sortedInter_congr h]

theorem validateLookup_congrQ {Q Q' : List Gene} (h : ∀ g, g ∈ Q ↔ g ∈ Q') (t : RawTree) (m : Nat)
    (lk : Lookup) : validateLookup t Q m lk = validateLookup t Q' m lk := by
  unfold validateLookup; rw [validateStep_congrQ h]

theorem intersectAll_congrQ {Q Q' : List Gene} (h : ∀ g, g ∈ Q ↔ g ∈ Q') (c : Option (List PKey))
    (lk : Lookup) : intersectAll Q c lk = intersectAll Q' c lk := by
  induction lk with
  | nil => rfl
  | cons e es ih =>
    obtain ⟨k, l⟩ := e
    rw [intersectAll_cons, intersectAll_cons, ih, interQ_congr h]

theorem missingRef_congr {R R' : List Gene} (h : ∀ g, g ∈ R ↔ g ∈ R') (lk : Lookup) :
    missingRef R lk = missingRef R' lk := by
  unfold missingRef
  congr 1
  funext e
  congr 1
  funext g
  have := h g
  by_cases hg : g ∈ R <;> simp_all

theorem specAcc_congrQ {Q Q' : List Gene} (h : ∀ g, g ∈ Q ↔ g ∈ Q') (m : Nat) (lists : List (List Gene))
    (cur : List Gene) : specAcc Q m lists cur = specAcc Q' m lists cur := by
  induction lists generalizing cur with
  | nil => rfl
  | cons la rest ih => simp only [specAcc, countQ_congr h, ih]

theorem specGenes_congrQ {Q Q' : List Gene} (h : ∀ g, g ∈ Q ↔ g ∈ Q') (t : RawTree) (lk : Lookup)
    (m : Nat) (p : PKey) : specGenes t lk Q m p = specGenes t lk Q' m p := by
  unfold specGenes
  cases p with
  | none => simp only [interQ_congr h]
  | some ln => simp only [specAcc_congrQ h, countQ_congr h, interQ_congr h]

/-- the verdict (accepted, or which error) does not depend on the order of the
query genes or of the reference genes -/
theorem createCache_verdict_congr (t : RawTree) (hT : TreeOK t) (lk : Lookup) {R R' Q Q' : List Gene}
    (m : Nat) (hQ : ∀ g, g ∈ Q ↔ g ∈ Q') (hR : ∀ g, g ∈ R ↔ g ∈ R') (e : MErr) :
    createCache (some t) lk R Q m = .error e ↔ createCache (some t) lk R' Q' m = .error e := by
  have key : ∀ (R R' Q Q' : List Gene), (∀ g, g ∈ Q ↔ g ∈ Q') → (∀ g, g ∈ R ↔ g ∈ R') →
      createCache (some t) lk R Q m = .error e → createCache (some t) lk R' Q' m = .error e := by
    intro R R' Q Q' hQ hR h
    rw [createCache_some] at h ⊢
    rw [← validateLookup_congrQ hQ]
    cases hv : validateLookup t Q m lk with
    | error e' => simpa [hv] using h
    | ok lk' =>
      obtain ⟨cons, hc⟩ := consultedOf_ok t t.allParents hT.childrenOk
      simp only [hv, hc] at h ⊢
      rw [← intersectAll_congrQ hQ, ← missingRef_congr hR]
      cases hi : intersectAll Q (some cons) lk' with
      | error e' => simpa [hi] using h
      | ok final =>
        simp only [hi] at h ⊢
        cases hm : missingRef R lk' with
        | true => simpa [hm] using h
        | false =>
          exfalso
          simp only [hm, Bool.false_eq_true, if_false] at h
          have hf := intersectAll_ok_eq Q (some cons) lk' final hi
          subst hf
          have hRR := (missingRef_false_iff R lk').1 hm
          obtain ⟨gs, hgs⟩ := writeGroups_ok R Q (lk'.map (fun e => (e.1, interQ Q e.2))) (by
            intro e he g hg
            obtain ⟨e0, he0, rfl⟩ := List.mem_map.1 he
            have := (mem_interQ Q e0.2 g).1 hg
            exact ⟨hRR e0 he0 g this.1, this.2⟩)
          simp [writeCache, hgs] at h
  exact ⟨key R R' Q Q' hQ hR, key R' R Q' Q (fun g => (hQ g).symm) (fun g => (hR g).symm)⟩

/-! ### the enumeration order of `set ∩ set` is immaterial -/

theorem pairsOf_eq_map (R Q : List Gene) (genes : List Gene) (ps : List (Nat × Nat))
    (h : pairsOf R Q genes = .ok ps) :
    ps = genes.map (fun g => ((nameToIdx R g).getD 0, (nameToIdx Q g).getD 0)) := by
  induction genes generalizing ps with
  | nil => simp only [pairsOf, Except.ok.injEq] at h; subst h; rfl
  | cons g gs ih =>
    simp only [pairsOf] at h
    cases hp : pairOf R Q g with
    | error e => simp [hp] at h
    | ok p =>
      cases hps : pairsOf R Q gs with
      | error e => simp [hp, hps] at h
      | ok ps' =>
        simp only [hp, hps, Except.ok.injEq] at h
        subst h
        rw [List.map_cons, ← ih ps' hps]
        congr 1
        unfold pairOf at hp
        cases hr : nameToIdx R g with
        | none => simp [hr] at hp
        | some r =>
          cases hq : nameToIdx Q g with
          | none => simp [hr, hq] at hp
          | some q => simp only [hr, hq, Except.ok.injEq] at hp; simp [← hp]

/-- the cache group does not depend on the order in which the markers are
enumerated (Python enumerates a `set`) -/
theorem writeGroup_perm (R Q : List Gene) {genes genes' : List Gene} (hp : genes.Perm genes') :
    writeGroup R Q genes = writeGroup R Q genes' := by
  unfold writeGroup
  cases h1 : pairsOf R Q genes with
  | error e =>
    obtain ⟨he, g, hg, hbad⟩ := pairsOf_error R Q genes e h1
    cases h2 : pairsOf R Q genes' with
    | error e' => rw [he, (pairsOf_error R Q genes' e' h2).1]
    | ok ps' =>
      exfalso
      have hr := pairsOf_ok R Q genes' ps' h2
      obtain ⟨p, _, hpr, hpq⟩ := (rowsFor_row R Q ps' genes' hr).2 g (hp.mem_iff.1 hg)
      rcases hbad with hb | hb
      · exact hb (List.mem_of_getElem? hpr)
      · exact hb (List.mem_of_getElem? hpq)
  | ok ps =>
    cases h2 : pairsOf R Q genes' with
    | error e' =>
      exfalso
      obtain ⟨_, g, hg, hbad⟩ := pairsOf_error R Q genes' e' h2
      have hr := pairsOf_ok R Q genes ps h1
      obtain ⟨p, _, hpr, hpq⟩ := (rowsFor_row R Q ps genes hr).2 g (hp.mem_iff.2 hg)
      rcases hbad with hb | hb
      · exact hb (List.mem_of_getElem? hpr)
      · exact hb (List.mem_of_getElem? hpq)
    | ok ps' =>
      simp only [Except.ok.injEq]
      have e1 := pairsOf_eq_map R Q genes ps h1
      have e2 := pairsOf_eq_map R Q genes' ps' h2
      have hperm : ps.Perm ps' := by rw [e1, e2]; exact hp.map _
      have hsp : (sortPairs ps).Perm (sortPairs ps') :=
        (sortPairs_perm ps).trans (hperm.trans (sortPairs_perm ps').symm)
      refine List.Perm.eq_of_pairwise (le := fun a b => a.1 ≤ b.1) ?_ (sortPairs_sorted ps)
        (sortPairs_sorted ps') hsp
      intro a b ha hb hab hba
      have ha' : a ∈ ps := (sortPairs_perm ps).mem_iff.1 ha
      have hb' : b ∈ ps' := (sortPairs_perm ps').mem_iff.1 hb
      obtain ⟨ga, _, har, haq⟩ := (rowsFor_row R Q ps genes (pairsOf_ok R Q genes ps h1)).1 a ha'
      obtain ⟨gb, hgb, hbr, hbq⟩ := (rowsFor_row R Q ps' genes' (pairsOf_ok R Q genes' ps' h2)).1 b hb'
      have hfst : a.1 = b.1 := Nat.le_antisymm hab hba
      rw [hfst, hbr] at har
      cases har
      -- same gene: both rows are its (reference, query) pair
      rw [e1] at ha'
      rw [e2] at hb'
      obtain ⟨g1, _, rfl⟩ := List.mem_map.1 ha'
      obtain ⟨g2, _, rfl⟩ := List.mem_map.1 hb'
      simp only at hfst haq hbq hbr
      -- g1 = g2 = gb
      have hg1 : g1 ∈ R ∧ g1 ∈ Q := by
        obtain ⟨p, _, hpr, hpq⟩ := (rowsFor_row R Q ps genes (pairsOf_ok R Q genes ps h1)).2 g1 ‹_›
        exact ⟨List.mem_of_getElem? hpr, List.mem_of_getElem? hpq⟩
      have hg2 : g2 ∈ R ∧ g2 ∈ Q := by
        obtain ⟨p, _, hpr, hpq⟩ := (rowsFor_row R Q ps' genes' (pairsOf_ok R Q genes' ps' h2)).2 g2 ‹_›
        exact ⟨List.mem_of_getElem? hpr, List.mem_of_getElem? hpq⟩
      obtain ⟨r1, hr1⟩ := nameToIdx_of_mem R g1 hg1.1
      obtain ⟨r2, hr2⟩ := nameToIdx_of_mem R g2 hg2.1
      have s1 := nameToIdx_some R g1 r1 hr1
      have s2 := nameToIdx_some R g2 r2 hr2
      simp only [hr1, hr2, Option.getD_some] at hfst
      subst hfst
      rw [s1] at s2
      cases s2
      rfl

/-- with a taxonomy, the "No markers at parent node … were present in query
set" error of the cache writer is unreachable for a dict-like table: the
validation has already refused every consulted parent without a query marker,
and unconsulted keys cannot raise it -/
theorem createCache_no_overlap_error (t : RawTree) (hT : TreeOK t) (lk : Lookup) (R Q : List Gene)
    (m : Nat) (hk : KeysNodup lk) : createCache (some t) lk R Q m ≠ .error .noQueryOverlap := by
  intro h
  rw [createCache_some] at h
  cases hv : validateLookup t Q m lk with
  | error e =>
    simp only [hv, Except.error.injEq] at h
    subst h
    rcases (validateLookup_error t hT Q m lk _ hv).1 with h | h <;> cases h
  | ok lk' =>
    obtain ⟨cons, hc⟩ := consultedOf_ok t t.allParents hT.childrenOk
    have hk' := validateLookup_keysNodup t hT Q m lk lk' hk hv
    have hval := (validateLookup_ok_iff t hT Q m lk).1 ⟨lk', hv⟩
    have hint := intersectAll_ok_iff Q (some cons) lk' (by
      rintro ⟨k, l⟩ he ⟨h1, h2, _⟩
      simp only [isConsultedKey, List.contains_iff_mem] at h1
      obtain ⟨hp, hcons⟩ := (consultedOf_spec t _ cons hc k).1 h1
      have hget := get?_of_mem lk' hk' k l he
      have hspec : specGenes t lk Q m k = [] := by
        apply List.eq_nil_iff_forall_not_mem.2
        intro g hg
        have := ((validateLookup_entries t hT Q m lk lk' hv).1 k hp hcons g).2 hg
        simp only [hget, Option.getD_some] at this
        exact (interQ_eq_nil Q l).1 h2 g this.1 this.2
      exact hval k hp hcons (Or.inr hspec))
    simp only [hv, hc, hint] at h
    cases hm : missingRef R lk' with
    | true => simp [hm] at h
    | false =>
      simp only [hm, Bool.false_eq_true, if_false] at h
      unfold writeCache at h
      cases hw : writeGroups R Q (lk'.map (fun e => (e.1, interQ Q e.2))) with
      | error e =>
        have hR := (missingRef_false_iff R lk').1 hm
        obtain ⟨gs, hgs⟩ := writeGroups_ok R Q (lk'.map (fun e => (e.1, interQ Q e.2))) (by
          intro e he g hg
          obtain ⟨e0, he0, rfl⟩ := List.mem_map.1 he
          have := (mem_interQ Q e0.2 g).1 hg
          exact ⟨hR e0 he0 g this.1, this.2⟩)
        rw [hgs] at hw; cases hw
      | ok gs => simp [hw] at h

/-! ### the rest of the marker stage succeeds once the cache is written -/

/-- every parent of the taxonomy has at least one child (`populated` of
DESIGN §5; true of every tree built from cell records) -/
def Populated (t : RawTree) : Prop := ∀ p ∈ t.allParents, ∀ ch, childrenOf t p = .ok ch → 1 ≤ ch.length

theorem reconcile_go_ok (t : RawTree) (c : Cache) (ps : List PKey)
    (h : ∀ p ∈ ps, ∃ ch, childrenOf t p = .ok ch ∧ (ch.length = 1 ∨ (c.groups.lookup p).isSome)) :
    reconcile.go t c ps = .ok true := by
  induction ps with
  | nil => rfl
  | cons p ps ih =>
    obtain ⟨ch, hc, hh⟩ := h p (by simp)
    simp only [reconcile.go, hc, ih (fun q hq => h q (by simp [hq]))]
    rcases hh with h1 | h1
    · simp [h1]
    · simp [h1]

/-- `reconcile_taxonomy_and_markers` cannot fail on the cache the run has just
written from the same taxonomy -/
theorem reconcile_ok (t : RawTree) (hT : TreeOK t) (hpop : Populated t) (lk : Lookup) (R Q : List Gene)
    (m : Nat) (c : Cache) (h : createCache (some t) lk R Q m = .ok c) : reconcile t c = .ok () := by
  unfold reconcile
  have : reconcile.go t c t.allParents = .ok true := by
    apply reconcile_go_ok
    intro p hp
    obtain ⟨ch, hc⟩ := hT.childrenOk p hp
    refine ⟨ch, hc, ?_⟩
    by_cases hl : ch.length > 1
    · right
      obtain ⟨rows, _, hg, _⟩ := createCache_group t hT lk R Q m c h p hp ⟨ch, hc, hl⟩
      simp [hg]
    · left
      have := hpop p hp ch hc
      omega
  simp [this]

theorem usedOf_ok (c : Cache) (ps : List PKey) (h : ∀ p ∈ ps, ∃ names, assemble c p = .ok names) :
    ∃ out, usedOf c ps = .ok out ∧ out.map (·.1) = ps ∧ ∀ e ∈ out, assemble c e.1 = .ok e.2 := by
  induction ps with
  | nil => exact ⟨[], rfl, rfl, by simp⟩
  | cons p ps ih =>
    obtain ⟨names, hn⟩ := h p (by simp)
    obtain ⟨out, ho, hk, he⟩ := ih (fun q hq => h q (by simp [hq]))
    refine ⟨(p, names) :: out, by simp [usedOf, hn, ho], by simp [hk], ?_⟩
    intro e hm
    rcases List.mem_cons.1 hm with rfl | hm
    · exact hn
    · exact he e hm

theorem serializeNodes_ok (t : RawTree) (c : Cache) (nodes : List (Level × Node))
    (h : ∀ ln ∈ nodes, ∃ ch, childrenOf t (some ln) = .ok ch ∧
      (ch.length < 2 ∨ ∃ g, reportedGroup c (some ln) = .ok g)) :
    ∃ out, serializeNodes t c nodes = .ok out := by
  induction nodes with
  | nil => exact ⟨[], rfl⟩
  | cons ln rest ih =>
    obtain ⟨l, n⟩ := ln
    obtain ⟨ch, hc, hh⟩ := h (l, n) (by simp)
    obtain ⟨r, hr⟩ := ih (fun x hx => h x (by simp [hx]))
    simp only [serializeNodes, hc, hr]
    by_cases hl : ch.length < 2
    · exact ⟨(some (l, n), []) :: r, by simp only [hl, if_true]⟩
    · rcases hh with h1 | ⟨g, hg⟩
      · exact absurd h1 hl
      · exact ⟨(some (l, n), g) :: r, by simp only [hl, if_false, hg]⟩

/-- **the marker stage of a run without `drop_level`/`flatten` succeeds as soon
as the cache is written**, and for every consulted parent the genes
`assemble_query_data` uses are the genes the output reports -/
theorem stage_ok (t : RawTree) (hT : TreeOK t) (hpop : Populated t) (lk : Lookup) (R Q : List Gene)
    (m : Nat) (c : Cache) (h : createCache (some t) lk R Q m = .ok c) :
    ∃ out, stage t lk R Q m none false = .ok out ∧
      (∀ e ∈ out.used, e.1 ∈ t.allParents ∧ Consulted t e.1 ∧ assemble c e.1 = .ok e.2 ∧
        reportedGroup c e.1 = .ok e.2) ∧
      (∀ e ∈ out.reported, ReportedEntry t c e.1 e.2) := by
  obtain ⟨cons, hc⟩ := consultedOf_ok t t.allParents hT.childrenOk
  have hcons := consultedOf_spec t _ cons hc
  obtain ⟨used, hu, _, hue⟩ := usedOf_ok c cons (by
    intro p hp
    obtain ⟨hpa, hpc⟩ := (hcons p).1 hp
    obtain ⟨_, names, _, _, _, _, ha, _⟩ := createCache_group t hT lk R Q m c h p hpa hpc
    exact ⟨names, ha⟩)
  have hser : ∃ out, serialize t c = .ok out := by
    unfold serialize
    obtain ⟨r, hr⟩ := serializeNodes_ok t c
      (t.hierarchy.dropLast.flatMap (fun l => (t.nodesAt l).map (fun n => (l, n)))) (by
        intro ln hln
        obtain ⟨l, n⟩ := ln
        have hp : some (l, n) ∈ t.allParents := by
          simp only [RawTree.allParents, List.mem_cons, reduceCtorEq, false_or, List.mem_flatMap,
            List.mem_map, Option.some.injEq]
          simp only [List.mem_flatMap, List.mem_map] at hln
          obtain ⟨l', hl', n', hn', he⟩ := hln
          exact ⟨l', hl', n', hn', he⟩
        obtain ⟨ch, hch⟩ := hT.childrenOk _ hp
        refine ⟨ch, hch, ?_⟩
        by_cases hl : ch.length < 2
        · exact Or.inl hl
        · right
          obtain ⟨_, names, _, _, _, hrep, _⟩ := createCache_group t hT lk R Q m c h _ hp ⟨ch, hch, by omega⟩
          exact ⟨names, hrep⟩)
    simp only [hr]
    obtain ⟨chr, hcr⟩ := hT.childrenOk none (by simp [RawTree.allParents])
    simp only [hcr]
    by_cases hl : chr.length < 2
    · exact ⟨r ++ [(none, [])], by simp only [hl, if_true]⟩
    · obtain ⟨_, names, _, _, _, hrep, _⟩ := createCache_group t hT lk R Q m c h none
        (by simp [RawTree.allParents]) ⟨chr, hcr, by omega⟩
      exact ⟨r ++ [(none, names)], by simp only [hl, if_false, hrep]⟩
  obtain ⟨rep, hrep⟩ := hser
  refine ⟨{ reported := rep, used := used }, ?_, ?_, (serialize_spec t c rep hrep).2⟩
  · simp only [stage, Bool.false_eq_true, if_false, h, reconcile_ok t hT hpop lk R Q m c h, hc, hu, hrep]
  · intro e he
    have hass := hue e he
    have hmem : e.1 ∈ cons := by
      have : e.1 ∈ used.map (·.1) := List.mem_map.2 ⟨e, he, rfl⟩
      rwa [‹used.map (·.1) = cons›] at this
    obtain ⟨hpa, hpc⟩ := (hcons e.1).1 hmem
    obtain ⟨_, names, _, _, _, hrep', ha, _⟩ := createCache_group t hT lk R Q m c h e.1 hpa hpc
    rw [hass] at ha
    cases ha
    exact ⟨hpa, hpc, hass, hrep'⟩

/-- a tree accepted by `validate_taxonomy_tree` whose level names are distinct
and whose per-level dicts have distinct node names is well formed in the sense
the marker theorems need -/
theorem treeWF_of_validate (t : RawTree) (hv : t.validate = .ok ()) (hN : t.hierarchy.Nodup)
    (hne : t.hierarchy ≠ []) (hK : ∀ l ∈ t.hierarchy, (t.nodesAt l).Nodup) : TreeWF t := by
  refine ⟨hN, hne, ?_, hK⟩
  unfold RawTree.validate RawTree.validateWith at hv
  by_cases h1 : (!t.hasHierarchy) = true
  · simp [h1] at hv
  · simp only [h1, Bool.false_eq_true, if_false] at hv
    -- (the duplicate-level test of `fix:` 799c7a6 sits between the two)
    by_cases h0 : RawTree.hasDup t.hierarchy = true
    · simp [h0] at hv
    simp only [h0, if_false] at hv
    by_cases h2 : (!t.keysMatch) = true
    · simp [h2] at hv
    · simp only [Bool.not_eq_true', Bool.not_eq_false] at h2
      unfold RawTree.keysMatch at h2
      simp only [Bool.and_eq_true, List.all_eq_true] at h2
      intro l hl
      have := h2.2 l hl
      simpa using this

end Markers
end CTM
