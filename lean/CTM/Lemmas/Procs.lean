/-
  Helper lemmas for C14 / C04 over CTM/Model/Procs.lean.
-/
import CTM.Model.Procs

namespace CTM.Procs

/-! ### winnow_process_list -/

/-- exit code of a finished process that is not 0 -/
def badCode (c : ExitCode) : Option Int :=
  match c with
  | some c => if c != 0 then some c else none
  | none => none

theorem winnowScan_eq {α} (r : List ((α × ExitCode) × Nat)) (acc : List Nat) :
    winnowScan r acc =
      match r.findSome? (fun e => badCode e.1.2) with
      | some c => .error c
      | none => .ok (acc ++ (r.filter (fun e => e.1.2.isSome)).map (·.2)) := by
  induction r generalizing acc with
  | nil => simp [winnowScan]
  | cons e r ih =>
    obtain ⟨⟨a, c⟩, i⟩ := e
    cases c with
    | none => simp [winnowScan, ih, badCode]
    | some c =>
      by_cases h : c = 0
      · subst h
        simp [winnowScan, ih, badCode, List.append_assoc]
      · simp [winnowScan, badCode, h]

/-- the indices `winnow_process_list` pops when nothing failed -/
def toPop {α} (ps : List (α × ExitCode)) : List Nat :=
  (ps.zipIdx.reverse.filter (fun e => e.1.2.isSome)).map (·.2)

theorem zipIdx_concat_reverse {α} (l : List α) (x : α) :
    (l ++ [x]).zipIdx.reverse = (x, l.length) :: l.zipIdx.reverse := by
  simp [List.zipIdx_append]

theorem popAll_append {α} (T : List Nat) (l : List α) (x : α)
    (hd : T.Pairwise (· > ·)) (hb : ∀ i ∈ T, i < l.length) :
    popAll (l ++ [x]) T = popAll l T ++ [x] := by
  induction T generalizing l with
  | nil => simp [popAll]
  | cons i T ih =>
    have hi : i < l.length := hb i (by simp)
    simp only [popAll, List.foldl_cons]
    rw [List.eraseIdx_append_of_lt_length hi]
    have hd' := List.pairwise_cons.mp hd
    apply ih _ hd'.2
    intro j hj
    have : j < i := hd'.1 j hj
    rw [List.length_eraseIdx_of_lt hi]
    omega

theorem toPop_spec {α} (r : List (α × ExitCode)) :
    popAll r.reverse (toPop r.reverse) = r.reverse.filter (fun p => p.2.isNone) ∧
    (toPop r.reverse).Pairwise (· > ·) ∧ ∀ i ∈ toPop r.reverse, i < r.reverse.length := by
  induction r with
  | nil => simp [toPop, popAll]
  | cons x r ih =>
    obtain ⟨ih1, ih2, ih3⟩ := ih
    rw [List.reverse_cons]
    have hT : toPop (r.reverse ++ [x]) =
        if x.2.isSome then r.reverse.length :: toPop r.reverse else toPop r.reverse := by
      unfold toPop
      rw [zipIdx_concat_reverse]
      by_cases hx : x.2.isSome <;> simp [hx]
    rw [hT]
    by_cases hx : x.2.isSome
    · simp only [hx, if_true]
      refine ⟨?_, ?_, ?_⟩
      · simp only [popAll, List.foldl_cons]
        rw [List.eraseIdx_append_of_length_le (Nat.le_refl _)]
        simp only [Nat.sub_self, List.eraseIdx_cons_zero, List.append_nil]
        have : (fun l i => List.eraseIdx l i) = fun (l : List (α × ExitCode)) i => l.eraseIdx i := rfl
        have h1 := ih1
        simp only [popAll] at h1
        rw [h1]
        have hx' : x.2.isNone = false := by
          cases h : x.2 <;> simp_all
        simp [List.filter_append, hx']
      · exact List.pairwise_cons.mpr ⟨fun j hj => ih3 j hj, ih2⟩
      · intro i hi
        simp only [List.mem_cons] at hi
        simp only [List.length_append, List.length_singleton]
        rcases hi with h | h
        · omega
        · have := ih3 i h; omega
    · simp only [hx, Bool.false_eq_true, if_false]
      refine ⟨?_, ih2, ?_⟩
      · rw [popAll_append _ _ _ ih2 ih3, ih1]
        have hx' : x.2.isNone = true := by
          cases h : x.2 <;> simp_all
        simp [List.filter_append, hx']
      · intro i hi
        have := ih3 i hi
        simp only [List.length_append, List.length_singleton]
        omega

theorem popAll_toPop {α} (ps : List (α × ExitCode)) :
    popAll ps (toPop ps) = ps.filter (fun p => p.2.isNone) := by
  have := (toPop_spec ps.reverse).1
  simpa using this

/-- the exit code `winnow_process_list` reports: that of the *last* finished
process with a non-zero code -/
def lastBad {α} (ps : List (α × ExitCode)) : Option Int :=
  ps.reverse.findSome? (fun p => badCode p.2)

theorem findSome_zipIdx_reverse {α} (ps : List (α × ExitCode)) :
    ps.zipIdx.reverse.findSome? (fun e => badCode e.1.2) = lastBad ps := by
  unfold lastBad
  have : ∀ r : List (α × ExitCode), r.reverse.zipIdx.reverse.findSome? (fun e => badCode e.1.2)
      = r.findSome? (fun p => badCode p.2) := by
    intro r
    induction r with
    | nil => simp
    | cons x r ih =>
      rw [List.reverse_cons, zipIdx_concat_reverse]
      simp [List.findSome?_cons, ih]
  have h := this ps.reverse
  simpa using h

theorem winnowList_eq {α} (ps : List (α × ExitCode)) :
    winnowList ps =
      match lastBad ps with
      | some c => .error c
      | none => .ok (ps.filter (fun p => p.2.isNone)) := by
  unfold winnowList
  rw [winnowScan_eq, findSome_zipIdx_reverse]
  cases h : lastBad ps with
  | some c => simp
  | none =>
    simp only [List.nil_append]
    have := popAll_toPop ps
    unfold toPop at this
    rw [this]

/-! ### winnow_process_dict -/

def firstBadKey {κ} (ps : List (κ × ExitCode)) : Option (κ × Int) :=
  ps.findSome? (fun p => (badCode p.2).map (fun c => (p.1, c)))

theorem winnowDict_eq {κ} (ps : List (κ × ExitCode)) :
    winnowDict ps =
      match firstBadKey ps with
      | some e => .error e
      | none => .ok (ps.filter (fun p => p.2.isNone)) := by
  induction ps with
  | nil => simp [winnowDict, firstBadKey]
  | cons p ps ih =>
    obtain ⟨k, c⟩ := p
    cases c with
    | none =>
      have hk : firstBadKey ((k, none) :: ps) = firstBadKey ps := by
        simp [firstBadKey, badCode]
      rw [hk]
      simp only [winnowDict, ih]
      cases firstBadKey ps <;> simp
    | some c =>
      by_cases h : c = 0
      · subst h
        simp [winnowDict, ih, firstBadKey, badCode]
      · simp [winnowDict, firstBadKey, badCode, h]

/-! ### one poll -/

theorem view_of_mem {exit : Nat → Int} {poll : Poll} {w : Nat} (h : w ∈ poll) :
    view exit poll w = some (exit w) := by simp [view, h]

theorem view_of_not_mem {exit : Nat → Int} {poll : Poll} {w : Nat} (h : w ∉ poll) :
    view exit poll w = none := by simp [view, h]

theorem badCode_none_iff (c : ExitCode) : badCode c = none ↔ c = none ∨ c = some 0 := by
  cases c with
  | none => simp [badCode]
  | some c => by_cases h : c = 0 <;> simp [badCode, h]

theorem lastBad_none_iff {α} (ps : List (α × ExitCode)) :
    lastBad ps = none ↔ ∀ p ∈ ps, badCode p.2 = none := by
  simp [lastBad, List.findSome?_eq_none_iff]

theorem firstBadKey_none_iff {κ} (ps : List (κ × ExitCode)) :
    firstBadKey ps = none ↔ ∀ p ∈ ps, badCode p.2 = none := by
  simp [firstBadKey, List.findSome?_eq_none_iff]

/-- a poll that does not raise keeps exactly the processes still running, and
every process it saw finished had exit code 0 -/
theorem winnow_ok {kind : Container} {exit : Nat → Int} {poll : Poll} {c c' : Procs}
    (h : winnow kind exit poll c = .ok c') :
    c' = c.filter (fun e => (view exit poll e.2).isNone) ∧
    ∀ e ∈ c, badCode (view exit poll e.2) = none := by
  cases kind with
  | list =>
    simp only [winnow, winnowList_eq] at h
    cases hb : lastBad (c.map fun e => (e, view exit poll e.2)) with
    | some code => simp [hb] at h
    | none =>
      simp only [hb, Except.ok.injEq] at h
      refine ⟨?_, ?_⟩
      · rw [← h, List.filter_map, List.map_map]
        simp [Function.comp_def]
      · have := (lastBad_none_iff _).mp hb
        intro e he
        exact this (e, view exit poll e.2) (List.mem_map.mpr ⟨e, he, rfl⟩)
  | dict =>
    simp only [winnow, winnowDict_eq] at h
    cases hb : firstBadKey (c.map fun e => (e, view exit poll e.2)) with
    | some code => simp [hb] at h
    | none =>
      simp only [hb, Except.ok.injEq] at h
      refine ⟨?_, ?_⟩
      · rw [← h, List.filter_map, List.map_map]
        simp [Function.comp_def]
      · have := (firstBadKey_none_iff _).mp hb
        intro e he
        exact this (e, view exit poll e.2) (List.mem_map.mpr ⟨e, he, rfl⟩)

/-- a poll that raises reports the non-zero exit code of a registered worker -/
theorem winnow_error {kind : Container} {exit : Nat → Int} {poll : Poll} {c : Procs} {code : Int}
    (h : winnow kind exit poll c = .error code) :
    code ≠ 0 ∧ ∃ e ∈ c, exit e.2 = code := by
  have key : ∀ e : Nat × Nat, ∀ d, badCode (view exit poll e.2) = some d → d ≠ 0 ∧ exit e.2 = d := by
    intro e d hd
    by_cases hp : e.2 ∈ poll
    · rw [view_of_mem hp] at hd
      by_cases h0 : exit e.2 = 0
      · simp [badCode, h0] at hd
      · simp [badCode, h0] at hd
        exact ⟨hd ▸ h0, hd⟩
    · rw [view_of_not_mem hp] at hd
      simp [badCode] at hd
  cases kind with
  | list =>
    simp only [winnow, winnowList_eq] at h
    cases hb : lastBad (c.map fun e => (e, view exit poll e.2)) with
    | none => simp [hb] at h
    | some d =>
      simp only [hb, Except.error.injEq] at h
      subst h
      unfold lastBad at hb
      obtain ⟨p, hp, hpd⟩ := List.exists_of_findSome?_eq_some hb
      simp only [List.mem_reverse, List.mem_map] at hp
      obtain ⟨e, he, rfl⟩ := hp
      exact ⟨(key e _ hpd).1, e, he, (key e _ hpd).2⟩
  | dict =>
    simp only [winnow, winnowDict_eq] at h
    cases hb : firstBadKey (c.map fun e => (e, view exit poll e.2)) with
    | none => simp [hb] at h
    | some d =>
      simp only [hb, Except.error.injEq] at h
      subst h
      unfold firstBadKey at hb
      obtain ⟨p, hp, hpd⟩ := List.exists_of_findSome?_eq_some hb
      simp only [List.mem_map] at hp
      obtain ⟨e, he, rfl⟩ := hp
      simp only [Option.map_eq_some_iff] at hpd
      obtain ⟨d', hd', rfl⟩ := hpd
      exact ⟨(key e _ hd').1, e, he, (key e _ hd').2⟩

/-- what one successful poll means for a registered worker -/
theorem winnow_ok_mem {kind : Container} {exit : Nat → Int} {poll : Poll} {c c' : Procs}
    (h : winnow kind exit poll c = .ok c') :
    (∀ e ∈ c, e ∈ c' ∨ exit e.2 = 0) ∧ (∀ e ∈ c', e ∈ c) := by
  obtain ⟨h1, h2⟩ := winnow_ok h
  subst h1
  refine ⟨?_, fun e he => (List.mem_filter.mp he).1⟩
  intro e he
  have hb := (badCode_none_iff _).mp (h2 e he)
  rcases hb with hn | hz
  · left; exact List.mem_filter.mpr ⟨he, by simp [hn]⟩
  · right
    by_cases hp : e.2 ∈ poll
    · rw [view_of_mem hp] at hz
      simpa using hz
    · rw [view_of_not_mem hp] at hz
      simp at hz

/-! ### the `while` loops -/

theorem waitBelow_done {kind : Container} {exit : Nat → Int} {limit : Nat}
    (sched : List Poll) (procs : Procs) {procs' : Procs} {sched' : List Poll}
    (h : waitBelow kind exit limit procs sched = .done procs' sched') :
    procs'.length < limit ∧ (∀ e ∈ procs, e ∈ procs' ∨ exit e.2 = 0) ∧ (∀ e ∈ procs', e ∈ procs) := by
  induction sched generalizing procs with
  | nil =>
    simp only [waitBelow] at h
    by_cases hl : procs.length < limit
    · simp only [hl, if_true, WaitRes.done.injEq] at h
      obtain ⟨rfl, _⟩ := h
      exact ⟨hl, fun e he => Or.inl he, fun e he => he⟩
    · simp [hl] at h
  | cons poll rest ih =>
    simp only [waitBelow] at h
    by_cases hl : procs.length < limit
    · simp only [hl, if_true, WaitRes.done.injEq] at h
      obtain ⟨rfl, _⟩ := h
      exact ⟨hl, fun e he => Or.inl he, fun e he => he⟩
    · simp only [hl, if_false] at h
      cases hw : winnow kind exit poll procs with
      | error c => simp [hw] at h
      | ok p1 =>
        simp only [hw] at h
        obtain ⟨a, b, c⟩ := ih p1 h
        obtain ⟨m1, m2⟩ := winnow_ok_mem hw
        refine ⟨a, ?_, fun e he => m2 e (c e he)⟩
        intro e he
        rcases m1 e he with h1 | h1
        · exact b e h1
        · exact Or.inr h1

theorem waitBelow_failed {kind : Container} {exit : Nat → Int} {limit : Nat}
    (sched : List Poll) (procs : Procs) {code : Int}
    (h : waitBelow kind exit limit procs sched = .failed code) :
    code ≠ 0 ∧ ∃ e ∈ procs, exit e.2 = code := by
  induction sched generalizing procs with
  | nil =>
    simp only [waitBelow] at h
    by_cases hl : procs.length < limit <;> simp [hl] at h
  | cons poll rest ih =>
    simp only [waitBelow] at h
    by_cases hl : procs.length < limit
    · simp [hl] at h
    · simp only [hl, if_false] at h
      cases hw : winnow kind exit poll procs with
      | error c =>
        simp only [hw, WaitRes.failed.injEq] at h
        subst h
        exact winnow_error hw
      | ok p1 =>
        simp only [hw] at h
        obtain ⟨a, e, he, hx⟩ := ih p1 h
        exact ⟨a, e, (winnow_ok_mem hw).2 e he, hx⟩

theorem waitBelowOrBlocked_done {kind : Container} {exit : Nat → Int} {limit : Nat}
    (sched : List Poll) (blocked : Bool) (procs : Procs) {procs' : Procs} {sched' : List Poll}
    (h : waitBelowOrBlocked kind exit limit blocked procs sched = .done procs' sched') :
    (∀ e ∈ procs, e ∈ procs' ∨ exit e.2 = 0) ∧ (∀ e ∈ procs', e ∈ procs) := by
  induction sched generalizing procs blocked with
  | nil =>
    simp only [waitBelowOrBlocked] at h
    by_cases hl : (decide (procs.length < limit) && !blocked) = true
    · simp only [hl, if_true, WaitRes.done.injEq] at h
      obtain ⟨rfl, _⟩ := h
      exact ⟨fun e he => Or.inl he, fun e he => he⟩
    · simp [hl] at h
  | cons poll rest ih =>
    simp only [waitBelowOrBlocked] at h
    by_cases hl : (decide (procs.length < limit) && !blocked) = true
    · simp only [hl, if_true, WaitRes.done.injEq] at h
      obtain ⟨rfl, _⟩ := h
      exact ⟨fun e he => Or.inl he, fun e he => he⟩
    · simp only [hl, Bool.false_eq_true, if_false] at h
      cases hw : winnow kind exit poll procs with
      | error c => simp [hw] at h
      | ok p1 =>
        simp only [hw] at h
        obtain ⟨b, c⟩ := ih _ p1 h
        obtain ⟨m1, m2⟩ := winnow_ok_mem hw
        refine ⟨?_, fun e he => m2 e (c e he)⟩
        intro e he
        rcases m1 e he with h1 | h1
        · exact b e h1
        · exact Or.inr h1

theorem waitBelowOrBlocked_failed {kind : Container} {exit : Nat → Int} {limit : Nat}
    (sched : List Poll) (blocked : Bool) (procs : Procs) {code : Int}
    (h : waitBelowOrBlocked kind exit limit blocked procs sched = .failed code) :
    code ≠ 0 ∧ ∃ e ∈ procs, exit e.2 = code := by
  induction sched generalizing procs blocked with
  | nil =>
    simp only [waitBelowOrBlocked] at h
    by_cases hl : (decide (procs.length < limit) && !blocked) = true <;> simp [hl] at h
  | cons poll rest ih =>
    simp only [waitBelowOrBlocked] at h
    by_cases hl : (decide (procs.length < limit) && !blocked) = true
    · simp [hl] at h
    · simp only [hl, Bool.false_eq_true, if_false] at h
      cases hw : winnow kind exit poll procs with
      | error c =>
        simp only [hw, WaitRes.failed.injEq] at h
        subst h
        exact winnow_error hw
      | ok p1 =>
        simp only [hw] at h
        obtain ⟨a, e, he, hx⟩ := ih _ p1 h
        exact ⟨a, e, (winnow_ok_mem hw).2 e he, hx⟩

/-! ### invariants of the stage machine -/

/-- dict stages: distinct workers are registered under distinct keys
(`range(0, n_pairs, n_per)`, the parents of `started_parents`) -/
def KeysOK (kind : Container) (keyOf : Nat → Nat) : Prop :=
  kind = .dict → ∀ i j, keyOf i = keyOf j → i = j

/-- every started worker is still in the polled container or has been seen to
exit with code 0; container entries are started workers under their own key -/
structure Good (env : Env) (s : St) : Prop where
  tracked : ∀ w, w < s.started → (∃ k, (k, w) ∈ s.procs) ∨ env.exit w = 0
  keyed : ∀ e ∈ s.procs, e.1 = env.keyOf e.2 ∧ e.2 < s.started

theorem register_eq {kind : Container} {env : Env} {s : St} (hk : KeysOK kind env.keyOf)
    (hg : Good env s) :
    register kind s.procs (env.keyOf s.started) s.started =
      s.procs ++ [(env.keyOf s.started, s.started)] := by
  cases kind with
  | list => rfl
  | dict =>
    have hno : s.procs.any (fun e => e.1 == env.keyOf s.started) = false := by
      rw [List.any_eq_false]
      intro e he
      obtain ⟨h1, h2⟩ := hg.keyed e he
      intro heq
      have : e.1 = env.keyOf s.started := by simpa using heq
      rw [h1] at this
      have := hk rfl _ _ this
      omega
    simp [register, hno]

theorem good_of_subset {env : Env} {s : St} {p : Procs} {sc : List Poll} (hg : Good env s)
    (h1 : ∀ e ∈ s.procs, e ∈ p ∨ env.exit e.2 = 0) (h2 : ∀ e ∈ p, e ∈ s.procs) :
    Good env { s with procs := p, sched := sc } := by
  refine ⟨?_, ?_⟩
  · intro w hw
    rcases hg.tracked w hw with ⟨k, hk⟩ | h0
    · rcases h1 _ hk with h | h
      · exact Or.inl ⟨k, h⟩
      · exact Or.inr h
    · exact Or.inr h0
  · intro e he
    exact hg.keyed e (h2 e he)

theorem execLoopStmt_good {kind : Container} {env : Env} (hk : KeysOK kind env.keyOf)
    {ls : LoopStmt} (hreg : ls ≠ .start false) {s s' : St} (hg : Good env s)
    (h : execLoopStmt kind env ls s = .ok s') : Good env s' := by
  cases ls with
  | draw =>
    simp only [execLoopStmt, Res.ok.injEq] at h
    subst h
    exact ⟨hg.tracked, hg.keyed⟩
  | start reg =>
    cases reg with
    | false => exact absurd rfl hreg
    | true =>
      simp only [execLoopStmt, if_true, Res.ok.injEq] at h
      subst h
      rw [register_eq hk hg]
      refine ⟨?_, ?_⟩
      · intro w hw
        simp only at hw
        by_cases hw' : w < s.started
        · rcases hg.tracked w hw' with ⟨k, hk'⟩ | h0
          · exact Or.inl ⟨k, List.mem_append_left _ hk'⟩
          · exact Or.inr h0
        · have : w = s.started := by omega
          subst this
          exact Or.inl ⟨env.keyOf s.started, by simp⟩
      · intro e he
        simp only [List.mem_append, List.mem_singleton] at he
        rcases he with he | he
        · have := hg.keyed e he
          exact ⟨this.1, by simp only; omega⟩
        · subst he
          exact ⟨rfl, by simp⟩
  | pollWhileFull =>
    simp only [execLoopStmt] at h
    cases hw : waitBelow kind env.exit env.nProc s.procs s.sched with
    | done p sc =>
      simp only [hw, Res.ok.injEq] at h
      subst h
      obtain ⟨_, b, c⟩ := waitBelow_done _ _ hw
      exact good_of_subset hg b c
    | failed c => simp [hw] at h
    | spin => simp [hw] at h
  | pollWhileFullOrBlocked =>
    simp only [execLoopStmt] at h
    cases hw : waitBelowOrBlocked kind env.exit env.nProc (env.blocked s.started) s.procs
        s.sched with
    | done p sc =>
      simp only [hw, Res.ok.injEq] at h
      subst h
      obtain ⟨b, c⟩ := waitBelowOrBlocked_done _ _ _ hw
      exact good_of_subset hg b c
    | failed c => simp [hw] at h
    | spin => simp [hw] at h

def bodyRegistered (body : List LoopStmt) : Bool := body.all (fun ls => ls != .start false)

theorem execBody_good {kind : Container} {env : Env} (hk : KeysOK kind env.keyOf)
    (body : List LoopStmt) (hreg : bodyRegistered body = true) {s s' : St} (hg : Good env s)
    (h : execBody kind env body s = .ok s') : Good env s' := by
  induction body generalizing s with
  | nil => simp only [execBody, Res.ok.injEq] at h; exact h ▸ hg
  | cons ls r ih =>
    simp only [bodyRegistered, List.all_cons, Bool.and_eq_true] at hreg
    simp only [execBody] at h
    cases h1 : execLoopStmt kind env ls s with
    | ok s1 =>
      simp only [h1] at h
      have hne : ls ≠ .start false := by
        intro hc; subst hc; exact absurd hreg.1 (by decide)
      exact ih hreg.2 (execLoopStmt_good hk hne hg h1) h
    | failed c s1 => simp [h1] at h
    | spin s1 => simp [h1] at h

theorem execDispatch_good {kind : Container} {env : Env} (hk : KeysOK kind env.keyOf)
    (body : List LoopStmt) (hreg : bodyRegistered body = true) (n : Nat) {s s' : St}
    (hg : Good env s) (h : execDispatch kind env body n s = .ok s') : Good env s' := by
  induction n generalizing s with
  | zero => simp only [execDispatch, Res.ok.injEq] at h; exact h ▸ hg
  | succ n ih =>
    simp only [execDispatch] at h
    cases h1 : execBody kind env body s with
    | ok s1 =>
      simp only [h1] at h
      exact ih (execBody_good hk body hreg hg h1) h
    | failed c s1 => simp [h1] at h
    | spin s1 => simp [h1] at h

/-- the reported failure is never spurious: inside a loop body -/
theorem execBody_failed {kind : Container} {env : Env} (hk : KeysOK kind env.keyOf)
    (body : List LoopStmt) (hreg : bodyRegistered body = true) {s s' : St} {code : Int}
    (hg : Good env s) (h : execBody kind env body s = .failed code s') :
    code ≠ 0 ∧ ∃ w, w < s'.started ∧ env.exit w = code := by
  induction body generalizing s with
  | nil => simp [execBody] at h
  | cons ls r ih =>
    simp only [bodyRegistered, List.all_cons, Bool.and_eq_true] at hreg
    simp only [execBody] at h
    cases h1 : execLoopStmt kind env ls s with
    | ok s1 =>
      simp only [h1] at h
      have hne : ls ≠ .start false := by
        intro hc; subst hc; exact absurd hreg.1 (by decide)
      exact ih hreg.2 (execLoopStmt_good hk hne hg h1) h
    | spin s1 => simp [h1] at h
    | failed c s1 =>
      simp only [h1, Res.failed.injEq] at h
      obtain ⟨rfl, rfl⟩ := h
      cases ls with
      | draw => simp [execLoopStmt] at h1
      | start reg => simp [execLoopStmt] at h1
      | pollWhileFull =>
        simp only [execLoopStmt] at h1
        cases hw : waitBelow kind env.exit env.nProc s.procs s.sched with
        | done p sc => simp [hw] at h1
        | spin => simp [hw] at h1
        | failed c' =>
          simp only [hw, Res.failed.injEq] at h1
          obtain ⟨rfl, rfl⟩ := h1
          obtain ⟨a, e, he, hx⟩ := waitBelow_failed _ _ hw
          exact ⟨a, e.2, (hg.keyed e he).2, hx⟩
      | pollWhileFullOrBlocked =>
        simp only [execLoopStmt] at h1
        cases hw : waitBelowOrBlocked kind env.exit env.nProc (env.blocked s.started) s.procs
            s.sched with
        | done p sc => simp [hw] at h1
        | spin => simp [hw] at h1
        | failed c' =>
          simp only [hw, Res.failed.injEq] at h1
          obtain ⟨rfl, rfl⟩ := h1
          obtain ⟨a, e, he, hx⟩ := waitBelowOrBlocked_failed _ _ _ hw
          exact ⟨a, e.2, (hg.keyed e he).2, hx⟩

theorem execDispatch_failed {kind : Container} {env : Env} (hk : KeysOK kind env.keyOf)
    (body : List LoopStmt) (hreg : bodyRegistered body = true) (n : Nat) {s s' : St} {code : Int}
    (hg : Good env s) (h : execDispatch kind env body n s = .failed code s') :
    code ≠ 0 ∧ ∃ w, w < s'.started ∧ env.exit w = code := by
  induction n generalizing s with
  | zero => simp [execDispatch] at h
  | succ n ih =>
    simp only [execDispatch] at h
    cases h1 : execBody kind env body s with
    | ok s1 =>
      simp only [h1] at h
      exact ih (execBody_good hk body hreg hg h1) h
    | failed c s1 =>
      simp only [h1, Res.failed.injEq] at h
      obtain ⟨rfl, rfl⟩ := h
      exact execBody_failed hk body hreg hg h1
    | spin s1 => simp [h1] at h

theorem allRegistered_cons_dispatch (body : List LoopStmt) (r : List Stmt) :
    allRegistered (.dispatch body :: r) = (bodyRegistered body && allRegistered r) := rfl

theorem execStmt_good {kind : Container} {env : Env} (hk : KeysOK kind env.keyOf)
    {st : Stmt} (hreg : allRegistered [st] = true) {s s' : St} (hg : Good env s)
    (h : execStmt kind env st s = .ok s') : Good env s' := by
  cases st with
  | writeOut tag =>
    simp only [execStmt, Res.ok.injEq] at h; subst h; exact ⟨hg.tracked, hg.keyed⟩
  | moveIntoPlace =>
    simp only [execStmt, Res.ok.injEq] at h; subst h; exact ⟨hg.tracked, hg.keyed⟩
  | dispatch body =>
    simp only [execStmt] at h
    rw [allRegistered_cons_dispatch] at hreg
    simp only [Bool.and_eq_true] at hreg
    exact execDispatch_good hk body hreg.1 _ hg h
  | drain =>
    simp only [execStmt] at h
    cases hw : waitBelow kind env.exit 1 s.procs s.sched with
    | done p sc =>
      simp only [hw, Res.ok.injEq] at h
      subst h
      obtain ⟨_, b, c⟩ := waitBelow_done _ _ hw
      exact good_of_subset hg b c
    | failed c => simp [hw] at h
    | spin => simp [hw] at h

theorem allRegistered_cons (st : Stmt) (r : List Stmt) :
    allRegistered (st :: r) = (allRegistered [st] && allRegistered r) := by
  cases st <;> simp [allRegistered]

/-- `Good` is preserved by a run that succeeds, and after it the container is
empty if every dispatch loop is followed by a drain -/
theorem exec_ok {kind : Container} {env : Env} (hk : KeysOK kind env.keyOf)
    (prog : List Stmt) (hreg : allRegistered prog = true) (pending : Bool)
    (hdr : drainedFrom pending prog = true) {s s' : St} (hg : Good env s)
    (hp : pending = false → s.procs = [])
    (h : exec kind env prog s = .ok s') : Good env s' ∧ s'.procs = [] := by
  induction prog generalizing s pending with
  | nil =>
    simp only [exec, Res.ok.injEq] at h
    subst h
    simp only [drainedFrom, Bool.not_eq_true'] at hdr
    exact ⟨hg, hp hdr⟩
  | cons st r ih =>
    rw [allRegistered_cons] at hreg
    simp only [Bool.and_eq_true] at hreg
    simp only [exec] at h
    cases h1 : execStmt kind env st s with
    | failed c s1 => simp [h1] at h
    | spin s1 => simp [h1] at h
    | ok s1 =>
      simp only [h1] at h
      have hg1 := execStmt_good hk hreg.1 hg h1
      cases st with
      | writeOut tag =>
        simp only [drainedFrom] at hdr
        simp only [execStmt, Res.ok.injEq] at h1
        exact ih hreg.2 pending hdr hg1 (by intro hpf; subst h1; exact hp hpf) h
      | moveIntoPlace =>
        simp only [drainedFrom] at hdr
        simp only [execStmt, Res.ok.injEq] at h1
        exact ih hreg.2 pending hdr hg1 (by intro hpf; subst h1; exact hp hpf) h
      | dispatch body =>
        simp only [drainedFrom] at hdr
        exact ih hreg.2 true hdr hg1 (by intro hpf; cases hpf) h
      | drain =>
        simp only [drainedFrom] at hdr
        refine ih hreg.2 false hdr hg1 ?_ h
        intro _
        simp only [execStmt] at h1
        cases hw : waitBelow kind env.exit 1 s.procs s.sched with
        | done p sc =>
          simp only [hw, Res.ok.injEq] at h1
          subst h1
          obtain ⟨a, _, _⟩ := waitBelow_done _ _ hw
          simp only
          cases p with
          | nil => rfl
          | cons x xs => simp at a
        | failed c => simp [hw] at h1
        | spin => simp [hw] at h1

theorem good_init (env : Env) (sched : List Poll) : Good env { sched := sched } :=
  ⟨fun w hw => by simp at hw, fun e he => by simp at he⟩

/-- a failure reported by the stage is the non-zero exit code of one of the
workers it started -/
theorem exec_failed {kind : Container} {env : Env} (hk : KeysOK kind env.keyOf)
    (prog : List Stmt) (hreg : allRegistered prog = true) {s s' : St} {code : Int}
    (hg : Good env s) (h : exec kind env prog s = .failed code s') :
    code ≠ 0 ∧ ∃ w, w < s'.started ∧ env.exit w = code := by
  induction prog generalizing s with
  | nil => simp [exec] at h
  | cons st r ih =>
    rw [allRegistered_cons] at hreg
    simp only [Bool.and_eq_true] at hreg
    simp only [exec] at h
    cases h1 : execStmt kind env st s with
    | ok s1 =>
      simp only [h1] at h
      exact ih hreg.2 (execStmt_good hk hreg.1 hg h1) h
    | spin s1 => simp [h1] at h
    | failed c s1 =>
      simp only [h1, Res.failed.injEq] at h
      obtain ⟨rfl, rfl⟩ := h
      cases st with
      | writeOut tag => simp [execStmt] at h1
      | moveIntoPlace => simp [execStmt] at h1
      | dispatch body =>
        simp only [execStmt] at h1
        rw [allRegistered_cons_dispatch] at hreg
        simp only [Bool.and_eq_true] at hreg
        exact execDispatch_failed hk body hreg.1.1 _ hg h1
      | drain =>
        simp only [execStmt] at h1
        cases hw : waitBelow kind env.exit 1 s.procs s.sched with
        | done p sc => simp [hw] at h1
        | spin => simp [hw] at h1
        | failed c' =>
          simp only [hw, Res.failed.injEq] at h1
          obtain ⟨rfl, rfl⟩ := h1
          obtain ⟨a, e, he, hx⟩ := waitBelow_failed _ _ hw
          exact ⟨a, e.2, (hg.keyed e he).2, hx⟩

/-! ### what is at the requested output location -/

theorem execLoopStmt_file (kind : Container) (env : Env) (ls : LoopStmt) (s : St) :
    (execLoopStmt kind env ls s).state.file = s.file := by
  cases ls with
  | draw => rfl
  | start reg => rfl
  | pollWhileFull =>
    simp only [execLoopStmt]
    cases waitBelow kind env.exit env.nProc s.procs s.sched <;> rfl
  | pollWhileFullOrBlocked =>
    simp only [execLoopStmt]
    cases waitBelowOrBlocked kind env.exit env.nProc (env.blocked s.started) s.procs s.sched <;> rfl

theorem execBody_file (kind : Container) (env : Env) (body : List LoopStmt) (s : St) :
    (execBody kind env body s).state.file = s.file := by
  induction body generalizing s with
  | nil => rfl
  | cons ls r ih =>
    simp only [execBody]
    have h0 := execLoopStmt_file kind env ls s
    cases h1 : execLoopStmt kind env ls s with
    | ok s1 => rw [h1] at h0; simp only [ih]; exact h0
    | failed c s1 => rw [h1] at h0; exact h0
    | spin s1 => rw [h1] at h0; exact h0

theorem execDispatch_file (kind : Container) (env : Env) (body : List LoopStmt) (n : Nat) (s : St) :
    (execDispatch kind env body n s).state.file = s.file := by
  induction n generalizing s with
  | zero => rfl
  | succ n ih =>
    simp only [execDispatch]
    have h0 := execBody_file kind env body s
    cases h1 : execBody kind env body s with
    | ok s1 => rw [h1] at h0; simp only [ih]; exact h0
    | failed c s1 => rw [h1] at h0; exact h0
    | spin s1 => rw [h1] at h0; exact h0

theorem execStmt_file (kind : Container) (env : Env) (st : Stmt) (s : St) :
    (execStmt kind env st s).state.file = s.file ++ (if st.isSync then [] else writes [st]) := by
  cases st with
  | writeOut tag => simp [execStmt, Res.state, Stmt.isSync, writes]
  | moveIntoPlace => simp [execStmt, Res.state, Stmt.isSync, writes]
  | dispatch body => simp [execStmt, Stmt.isSync, execDispatch_file]
  | drain =>
    simp only [execStmt, Stmt.isSync, if_true, List.append_nil]
    cases waitBelow kind env.exit 1 s.procs s.sched <;> rfl

theorem execStmt_not_ok_sync {kind : Container} {env : Env} {st : Stmt} {s : St}
    (h : ∀ s', execStmt kind env st s ≠ .ok s') : st.isSync = true := by
  cases st with
  | writeOut tag => exact absurd rfl (h _)
  | moveIntoPlace => exact absurd rfl (h _)
  | dispatch body => rfl
  | drain => rfl

theorem writes_cons (st : Stmt) (r : List Stmt) : writes (st :: r) = writes [st] ++ writes r := by
  cases st <;> simp [writes]

theorem writes_sync {st : Stmt} (h : st.isSync = true) : writes [st] = [] := by
  cases st <;> simp_all [writes, Stmt.isSync]

/-- a successful run has written everything; a run that fails or spins has
written only what precedes one of its dispatch loops / drains -/
theorem exec_file (kind : Container) (env : Env) (prog : List Stmt) (s : St) :
    match exec kind env prog s with
    | .ok s' => s'.file = s.file ++ writes prog
    | .failed _ s' => ∃ f ∈ failureFiles prog, s'.file = s.file ++ f
    | .spin s' => ∃ f ∈ failureFiles prog, s'.file = s.file ++ f := by
  induction prog generalizing s with
  | nil => simp [exec, writes]
  | cons st r ih =>
    simp only [exec]
    have hf := execStmt_file kind env st s
    cases h1 : execStmt kind env st s with
    | ok s1 =>
      rw [h1] at hf
      simp only [Res.state] at hf
      have := ih s1
      simp only
      cases h2 : exec kind env r s1 with
      | ok s2 =>
        rw [h2] at this
        simp only at this ⊢
        rw [this, hf, writes_cons st r]
        by_cases hs : st.isSync
        · simp [hs, writes_sync hs]
        · simp [hs]
      | failed c s2 =>
        rw [h2] at this
        simp only at this ⊢
        obtain ⟨f, hfm, hfe⟩ := this
        refine ⟨writes [st] ++ f, ?_, ?_⟩
        · simp only [failureFiles]
          by_cases hs : st.isSync
          · simp only [hs, if_true, List.mem_cons, List.mem_map]
            exact Or.inr ⟨f, hfm, rfl⟩
          · simp only [hs, Bool.false_eq_true, if_false, List.mem_map]
            exact ⟨f, hfm, rfl⟩
        · rw [hfe, hf]
          by_cases hs : st.isSync
          · simp [hs, writes_sync hs]
          · simp [hs]
      | spin s2 =>
        rw [h2] at this
        simp only at this ⊢
        obtain ⟨f, hfm, hfe⟩ := this
        refine ⟨writes [st] ++ f, ?_, ?_⟩
        · simp only [failureFiles]
          by_cases hs : st.isSync
          · simp only [hs, if_true, List.mem_cons, List.mem_map]
            exact Or.inr ⟨f, hfm, rfl⟩
          · simp only [hs, Bool.false_eq_true, if_false, List.mem_map]
            exact ⟨f, hfm, rfl⟩
        · rw [hfe, hf]
          by_cases hs : st.isSync
          · simp [hs, writes_sync hs]
          · simp [hs]
    | failed c s1 =>
      rw [h1] at hf
      simp only [Res.state] at hf
      have hs : st.isSync = true := execStmt_not_ok_sync (by intro s' hc; rw [h1] at hc; cases hc)
      simp only
      refine ⟨[], ?_, ?_⟩
      · simp [failureFiles, hs]
      · simpa [hs] using hf
    | spin s1 =>
      rw [h1] at hf
      simp only [Res.state] at hf
      have hs : st.isSync = true := execStmt_not_ok_sync (by intro s' hc; rw [h1] at hc; cases hc)
      simp only
      refine ⟨[], ?_, ?_⟩
      · simp [failureFiles, hs]
      · simpa [hs] using hf

/-! ### the canonical loop starts every item -/

theorem canonical_body_started {kind : Container} {env : Env} {s s' : St}
    (h : execBody kind env [.start true, .pollWhileFull] s = .ok s') :
    s'.started = s.started + 1 := by
  simp only [execBody, execLoopStmt, if_true] at h
  cases hw : waitBelow kind env.exit env.nProc
      (register kind s.procs (env.keyOf s.started) s.started) s.sched with
  | done p sc => simp only [hw, Res.ok.injEq] at h; subst h; rfl
  | failed c => simp [hw] at h
  | spin => simp [hw] at h

theorem canonical_dispatch_started {kind : Container} {env : Env} (n : Nat) {s s' : St}
    (h : execDispatch kind env [.start true, .pollWhileFull] n s = .ok s') :
    s'.started = s.started + n := by
  induction n generalizing s with
  | zero => simp only [execDispatch, Res.ok.injEq] at h; subst h; rfl
  | succ n ih =>
    simp only [execDispatch] at h
    cases h1 : execBody kind env [.start true, .pollWhileFull] s with
    | ok s1 =>
      rw [h1] at h
      have := ih h
      have h2 := canonical_body_started h1
      omega
    | failed c s1 => simp [h1] at h
    | spin s1 => simp [h1] at h

theorem pollLoop_ok_started {kind : Container} {nItems nProc : Nat} {keyOf : Nat → Nat}
    {sched : List Poll} {exit : Nat → Int} {s : St}
    (h : pollLoop kind nItems nProc keyOf sched exit = .ok s) : s.started = nItems := by
  simp only [pollLoop, canonicalProg, exec, execStmt] at h
  cases h1 : execDispatch kind { nItems, nProc, keyOf, exit } [.start true, .pollWhileFull] nItems
      { sched := sched } with
  | ok s1 =>
    rw [h1] at h
    have hs := canonical_dispatch_started _ h1
    simp only at h
    cases hw : waitBelow kind exit 1 s1.procs s1.sched with
    | done p sc =>
      simp only [hw, Res.ok.injEq] at h
      subst h
      simpa using hs
    | failed c => simp [hw] at h
    | spin => simp [hw] at h
  | failed c s1 => simp [h1] at h
  | spin s1 => simp [h1] at h

/-! ### completeness: if every worker exits 0 and its exit code becomes visible, the loop succeeds -/

theorem winnow_all_done {kind : Container} {exit : Nat → Int} {poll : Poll} {c : Procs}
    (hseen : ∀ e ∈ c, e.2 ∈ poll) (hzero : ∀ e ∈ c, exit e.2 = 0) :
    winnow kind exit poll c = .ok [] := by
  have hbad : ∀ p ∈ c.map (fun e => (e, view exit poll e.2)), badCode p.2 = none := by
    intro p hp
    obtain ⟨e, he, rfl⟩ := List.mem_map.mp hp
    simp only
    rw [view_of_mem (hseen e he), hzero e he]
    simp [badCode]
  have hfilter : (c.map (fun e => (e, view exit poll e.2))).filter (fun p => p.2.isNone) = [] := by
    rw [List.filter_eq_nil_iff]
    intro p hp
    obtain ⟨e, he, rfl⟩ := List.mem_map.mp hp
    simp [view_of_mem (hseen e he)]
  cases kind with
  | list =>
    simp only [winnow, winnowList_eq, (lastBad_none_iff _).mpr hbad, hfilter, List.map_nil]
  | dict =>
    simp only [winnow, winnowDict_eq, (firstBadKey_none_iff _).mpr hbad, hfilter, List.map_nil]

/-- every poll of the schedule sees every worker `< n` -/
def SeesAll (n : Nat) (sched : List Poll) : Prop := ∀ poll ∈ sched, ∀ w, w < n → w ∈ poll

theorem waitBelow_all_done {kind : Container} {exit : Nat → Int} {limit n : Nat} (hl : 0 < limit)
    (procs : Procs) (sched : List Poll) (hs : SeesAll n sched) (hne : sched ≠ [])
    (hp : ∀ e ∈ procs, e.2 < n) (hz : ∀ w, w < n → exit w = 0) :
    ∃ procs' sched', waitBelow kind exit limit procs sched = .done procs' sched' ∧
      sched.length ≤ sched'.length + 1 ∧ SeesAll n sched' ∧ (∀ e ∈ procs', e ∈ procs) := by
  cases sched with
  | nil => exact absurd rfl hne
  | cons poll rest =>
    simp only [waitBelow]
    by_cases hlt : procs.length < limit
    · exact ⟨procs, poll :: rest, by simp [hlt], by simp, hs, fun e he => he⟩
    · simp only [hlt, if_false]
      have hw : winnow kind exit poll procs = .ok [] :=
        winnow_all_done (fun e he => hs poll (by simp) e.2 (hp e he))
          (fun e he => hz e.2 (hp e he))
      rw [hw]
      have hrest : SeesAll n rest := fun q hq => hs q (List.mem_cons_of_mem _ hq)
      cases rest with
      | nil =>
        refine ⟨[], [], by simp [waitBelow, hl], by simp, hrest, fun e he => by cases he⟩
      | cons q r =>
        refine ⟨[], q :: r, by simp [waitBelow, hl], by simp, hrest, fun e he => by cases he⟩

/-- one iteration of the canonical loop body under an all-seeing schedule -/
theorem canonical_body_all_done {kind : Container} {env : Env} (hk : KeysOK kind env.keyOf)
    (hproc : 0 < env.nProc) {n : Nat} (hz : ∀ w, w < n → env.exit w = 0) (s : St)
    (hg : Good env s) (hst : s.started < n) (hs : SeesAll n s.sched) (hne : s.sched ≠ []) :
    ∃ s', execBody kind env [.start true, .pollWhileFull] s = .ok s' ∧ Good env s' ∧
      s'.started = s.started + 1 ∧ s.sched.length ≤ s'.sched.length + 1 ∧ SeesAll n s'.sched := by
  have h1 : execLoopStmt kind env (.start true) s = .ok
      { s with started := s.started + 1,
               procs := register kind s.procs (env.keyOf s.started) s.started } := by
    simp [execLoopStmt]
  have hg1 := execLoopStmt_good hk (by decide) hg h1
  have hp1 : ∀ e ∈ register kind s.procs (env.keyOf s.started) s.started, e.2 < n := by
    intro e he
    have := (hg1.keyed e he).2
    simp only at this
    omega
  obtain ⟨p', sc', hw, hlen, hsee, hsub⟩ :=
    waitBelow_all_done (kind := kind) (exit := env.exit) hproc _ s.sched hs hne hp1 hz
  refine ⟨{ s with started := s.started + 1, procs := p', sched := sc' }, ?_, ?_, rfl, hlen, hsee⟩
  · simp only [execBody, execLoopStmt, if_true, hw]
  · have h2 : execLoopStmt kind env .pollWhileFull
        { s with started := s.started + 1,
                 procs := register kind s.procs (env.keyOf s.started) s.started } =
        .ok { s with started := s.started + 1, procs := p', sched := sc' } := by
      simp only [execLoopStmt, hw]
    exact execLoopStmt_good hk (by decide) hg1 h2

theorem canonical_dispatch_all_done {kind : Container} {env : Env} (hk : KeysOK kind env.keyOf)
    (hproc : 0 < env.nProc) {n : Nat} (hz : ∀ w, w < n → env.exit w = 0) (k : Nat) (s : St)
    (hg : Good env s) (hst : s.started + k ≤ n) (hs : SeesAll n s.sched)
    (hlen : k < s.sched.length) :
    ∃ s', execDispatch kind env [.start true, .pollWhileFull] k s = .ok s' ∧ Good env s' ∧
      s'.started = s.started + k ∧ s.sched.length ≤ s'.sched.length + k ∧ SeesAll n s'.sched := by
  induction k generalizing s with
  | zero => exact ⟨s, rfl, hg, rfl, by simp, hs⟩
  | succ k ih =>
    have hne : s.sched ≠ [] := by
      intro hc; rw [hc] at hlen; simp at hlen
    obtain ⟨s1, h1, hg1, hst1, hl1, hs1⟩ :=
      canonical_body_all_done hk hproc hz s hg (by omega) hs hne
    obtain ⟨s2, h2, hg2, hst2, hl2, hs2⟩ :=
      ih s1 hg1 (by omega) hs1 (by omega)
    refine ⟨s2, ?_, hg2, by omega, by omega, hs2⟩
    simp only [execDispatch, h1, h2]

end CTM.Procs
