import CTM.Lemmas.Tree
namespace CTM.RawTree

/-! `TreeEquiv` (same hierarchy, same nodes, entries up to order) preserves
everything C10 states about a tree. -/

theorem TreeEquiv.symm' {t₁ t₂ : RawTree} (e : TreeEquiv t₁ t₂) : TreeEquiv t₂ t₁ where
  hier := e.hier.symm
  nodes := fun l hl n => (e.nodes l (e.hier ▸ hl) n).symm
  entries := fun l hl n hn =>
    (e.entries l (e.hier ▸ hl) n ((e.nodes l (e.hier ▸ hl) n).2 hn)).symm

/-- IsChild is invariant (levels of the hierarchy) -/
theorem isChild_equiv {t₁ t₂ : RawTree} (e : TreeEquiv t₁ t₂) (d₁ : DictOK t₁) (d₂ : DictOK t₂)
    {pl : Level} (hpl : pl ∈ t₁.hierarchy) (p c : Node) :
    t₁.IsChild pl p c ↔ t₂.IsChild pl p c := by
  rw [isChild_iff d₁, isChild_iff d₂]
  constructor
  · rintro ⟨hp, hc⟩
    exact ⟨(e.nodes pl hpl p).1 hp, (e.entries pl hpl p hp).mem_iff.1 hc⟩
  · rintro ⟨hp, hc⟩
    have hp₁ := (e.nodes pl hpl p).2 hp
    exact ⟨hp₁, (e.entries pl hpl p hp₁).mem_iff.2 hc⟩

/-- a listed pair of `t₂` read back in `t₁` -/
theorem TreeEquiv.pair_back {t₁ t₂ : RawTree} (e : TreeEquiv t₁ t₂) (d₂ : DictOK t₂)
    {l : Level} (hl : l ∈ t₁.hierarchy) {p : Node} {cs : List Nat} (h : (p, cs) ∈ t₂.level l) :
    (p, t₁.entry l p) ∈ t₁.level l ∧ (t₁.entry l p).Perm cs := by
  have hp₂ : p ∈ t₂.nodesAt l := mem_nodesAt.2 ⟨cs, h⟩
  have hp₁ := (e.nodes l hl p).2 hp₂
  refine ⟨mem_level_entry hp₁, ?_⟩
  have := e.entries l hl p hp₁
  rwa [entry_of_mem d₂ h] at this

/-- the row lists agree up to order -/
theorem allRows_equiv {t₁ t₂ : RawTree} (e : TreeEquiv t₁ t₂) (d₁ : DictOK t₁) (d₂ : DictOK t₂) :
    t₁.allRows.Perm t₂.allRows := by
  unfold allRows
  have hleaf : t₂.leafLevel = t₁.leafLevel := by unfold leafLevel; rw [e.hier]
  rw [hleaf]
  cases h : t₁.leafLevel with
  | none => exact List.Perm.refl _
  | some leaf =>
    have hl : leaf ∈ t₁.hierarchy := by
      unfold leafLevel at h
      exact List.mem_of_getLast? h
    simp only
    rw [← flatMap_entry_nodesAt d₁, ← flatMap_entry_nodesAt d₂]
    have hp : (t₁.nodesAt leaf).Perm (t₂.nodesAt leaf) :=
      perm_of_nodup_of_mem_iff (d₁.nodesAt_nodup leaf) (d₂.nodesAt_nodup leaf) (e.nodes leaf hl)
    exact (perm_flatMap_congr (fun n hn => e.entries leaf hl n hn)).trans (hp.flatMap_right _)

/-- the strict-tree specification is invariant -/
theorem strict_of_equiv {t₁ t₂ : RawTree} (e : TreeEquiv t₁ t₂) (s₁ : Strict t₁)
    (d₁ : DictOK t₁) (d₂ : DictOK t₂)
    (hh : t₂.hasHierarchy = true) (hs : t₂.nodesAreStr = true)
    (hk : ∀ k, k ∈ t₂.levels.map (·.1) ↔ k ∈ t₂.hierarchy) : Strict t₂ := by
  have lv : ∀ {pl cl}, (pl, cl) ∈ levelPairs t₂.hierarchy →
      (pl, cl) ∈ levelPairs t₁.hierarchy ∧ pl ∈ t₁.hierarchy ∧ cl ∈ t₁.hierarchy := by
    intro pl cl hm
    rw [← e.hier] at hm
    obtain ⟨i, hi, rfl, rfl⟩ := idx_of_mem_levelPairs hm
    exact ⟨hm, List.getElem_mem _, List.getElem_mem _⟩
  refine
    { hasH := hh
      keysSub := fun k => (hk k).1
      hierSub := fun k => (hk k).2
      str := hs
      childExists := ?_
      hasParent := ?_
      oneParent := ?_
      childNe := ?_
      childNodup := ?_
      rowsNodup := (allRows_equiv e d₁ d₂).nodup_iff.1 s₁.rowsNodup }
  · intro pl cl hm p cs hp c hc
    obtain ⟨hm₁, hpl, hcl⟩ := lv hm
    obtain ⟨hb, hperm⟩ := e.pair_back d₂ hpl hp
    exact (e.nodes cl hcl c).1 (s₁.childExists pl cl hm₁ p _ hb c (hperm.mem_iff.2 hc))
  · intro pl cl hm c hc
    obtain ⟨hm₁, hpl, hcl⟩ := lv hm
    obtain ⟨p, cs, hp, hcs⟩ := s₁.hasParent pl cl hm₁ c ((e.nodes cl hcl c).2 hc)
    exact ⟨p, (isChild_equiv e d₁ d₂ hpl p c).1 ⟨cs, hp, hcs⟩⟩
  · intro pl cl hm p₁ cs₁ p₂ cs₂ h₁ h₂ c hc₁ hc₂
    obtain ⟨hm₁, hpl, _⟩ := lv hm
    obtain ⟨hb₁, hperm₁⟩ := e.pair_back d₂ hpl h₁
    obtain ⟨hb₂, hperm₂⟩ := e.pair_back d₂ hpl h₂
    exact s₁.oneParent pl cl hm₁ p₁ _ p₂ _ hb₁ hb₂ c (hperm₁.mem_iff.2 hc₁) (hperm₂.mem_iff.2 hc₂)
  · intro pl cl hm p cs hp hnil
    obtain ⟨hm₁, hpl, _⟩ := lv hm
    obtain ⟨hb, hperm⟩ := e.pair_back d₂ hpl hp
    subst hnil
    exact s₁.childNe pl cl hm₁ p _ hb hperm.eq_nil
  · intro pl cl hm p cs hp
    obtain ⟨hm₁, hpl, _⟩ := lv hm
    obtain ⟨hb, hperm⟩ := e.pair_back d₂ hpl hp
    exact hperm.nodup_iff.1 (s₁.childNodup pl cl hm₁ p _ hb)

/-- MAIN 1: well-formedness is invariant -/
theorem wf_of_equiv {t₁ t₂ : RawTree} (e : TreeEquiv t₁ t₂) (w₁ : WF t₁) (d₂ : DictOK t₂)
    (hh : t₂.hasHierarchy = true) (hs : t₂.nodesAreStr = true)
    (hk : ∀ k, k ∈ t₂.levels.map (·.1) ↔ k ∈ t₂.hierarchy) : WF t₂ := by
  have s₂ := strict_of_equiv e (strict_of_validate w₁.valid) w₁.dict d₂ hh hs hk
  have hn : t₂.hierarchy.Nodup := e.hier ▸ w₁.hNodup
  have hne : t₂.hierarchy ≠ [] := e.hier ▸ w₁.hNe
  refine ⟨validate_of_strict hn hne ?_ s₂, hn, hne, d₂⟩
  intro l0 h0
  rw [← e.hier] at h0
  have hl0 : l0 ∈ t₁.hierarchy := List.mem_of_mem_head? h0
  obtain ⟨n, hmem⟩ := List.exists_mem_of_ne_nil _ (hasNode_of_validate w₁.valid l0 h0)
  exact List.ne_nil_of_mem ((e.nodes l0 hl0 n).1 hmem)

theorem parentLevel_equiv {t₁ t₂ : RawTree} (e : TreeEquiv t₁ t₂) (l : Level) :
    t₁.parentLevel l = t₂.parentLevel l := by
  unfold parentLevel levelIdx
  rw [e.hier]

/-- MAIN 2: the child→parent table answers the same -/
theorem childToParent_equiv {t₁ t₂ : RawTree} (e : TreeEquiv t₁ t₂) (w₁ : WF t₁) (w₂ : WF t₂)
    (cl : Level) (c : Node) : t₁.childToParent cl c = t₂.childToParent cl c := by
  cases hpl : t₁.parentLevel cl with
  | none =>
    have hpl₂ : t₂.parentLevel cl = none := by rw [← parentLevel_equiv e]; exact hpl
    unfold childToParent
    rw [hpl, hpl₂]
  | some pl =>
    have hcl : cl ∈ t₁.hierarchy := by
      rcases Classical.em (cl ∈ t₁.hierarchy) with h | h
      · exact h
      · simp [parentLevel, levelIdx_none_of_not_mem h] at hpl
    obtain ⟨j, hj, rfl⟩ := List.getElem_of_mem hcl
    cases j with
    | zero => rw [parentLevel_zero w₁.hNodup hj] at hpl; cases hpl
    | succ i =>
      have hj₂ : i + 1 < t₂.hierarchy.length := by rw [← e.hier]; exact hj
      have he1 : t₁.hierarchy[i+1] = t₂.hierarchy[i+1] := by simp only [e.hier]
      have he0 : t₁.hierarchy[i]'(by omega) = t₂.hierarchy[i]'(by omega) := by simp only [e.hier]
      apply Option.ext
      intro p
      rw [childToParent_eq_some_iff (strict_of_validate w₁.valid) w₁.hNodup hj c p]
      rw [he1, childToParent_eq_some_iff (strict_of_validate w₂.valid) w₂.hNodup hj₂ c p, ← he0]
      exact isChild_equiv e w₁.dict w₂.dict (List.getElem_mem _) p c

theorem parentsAux_equiv {t₁ t₂ : RawTree} (e : TreeEquiv t₁ t₂) (w₁ : WF t₁) (w₂ : WF t₂) :
    ∀ (fuel : Nat) (l : Level) (n : Node), t₁.parentsAux fuel l n = t₂.parentsAux fuel l n
  | 0, _, _ => rfl
  | fuel+1, l, n => by
    simp only [parentsAux]
    rw [parentLevel_equiv e l, childToParent_equiv e w₁ w₂ l n]
    cases t₂.parentLevel l with
    | none => rfl
    | some pl =>
      cases t₂.childToParent l n with
      | none => rfl
      | some p => simp only [parentsAux_equiv e w₁ w₂ fuel pl p]

theorem parents_equiv {t₁ t₂ : RawTree} (e : TreeEquiv t₁ t₂) (w₁ : WF t₁) (w₂ : WF t₂)
    (l : Level) (n : Node) : t₁.parents l n = t₂.parents l n := by
  unfold parents
  rw [parentsAux_equiv e w₁ w₂, e.hier]

theorem ancestorAt_equiv {t₁ t₂ : RawTree} (e : TreeEquiv t₁ t₂) (w₁ : WF t₁) (w₂ : WF t₂)
    (l : Level) (n : Node) (al : Level) : t₁.ancestorAt l n al = t₂.ancestorAt l n al := by
  unfold ancestorAt
  rw [parents_equiv e w₁ w₂]

/-- MAIN 3: same leaves under every node, up to order -/
theorem asLeaves_equiv' {t₁ t₂ : RawTree} (e : TreeEquiv t₁ t₂) (w₁ : WF t₁) (w₂ : WF t₂)
    {l : Level} (hl : l ∈ t₁.hierarchy) {n : Node} (hn : n ∈ t₁.nodesAt l) :
    (t₁.asLeaves l n).Perm (t₂.asLeaves l n) := by
  have s₁ := strict_of_validate w₁.valid
  have s₂ := strict_of_validate w₂.valid
  have hl₂ : l ∈ t₂.hierarchy := e.hier ▸ hl
  have hn₂ : n ∈ t₂.nodesAt l := (e.nodes l hl n).1 hn
  obtain ⟨i, hi, hli⟩ := List.getElem_of_mem hl
  obtain ⟨i₂, hi₂, hli₂⟩ := List.getElem_of_mem hl₂
  have hleaf₁ := leafLevel_eq w₁.hNe
  have hleaf₂ := leafLevel_eq w₂.hNe
  have hlf : t₂.hierarchy[t₂.hierarchy.length - 1]'(by omega) =
      t₁.hierarchy[t₁.hierarchy.length - 1]'(by omega) := by simp only [e.hier]
  rw [hlf] at hleaf₂
  have hlfmem : t₁.hierarchy[t₁.hierarchy.length - 1]'(by omega) ∈ t₁.hierarchy :=
    List.getElem_mem _
  have nd₁ : (t₁.asLeaves l n).Nodup := by
    subst hli; exact asLeaves_nodup s₁ w₁.hNodup hi hn
  have nd₂ : (t₂.asLeaves l n).Nodup := by
    subst hli₂; exact asLeaves_nodup s₂ w₂.hNodup hi₂ hn₂
  have sub₁ : ∀ a, a ∈ t₁.asLeaves l n →
      a ∈ t₁.nodesAt (t₁.hierarchy[t₁.hierarchy.length - 1]'(by omega)) := by
    intro a ha; subst hli; exact asLeaves_sub_leaf s₁ w₁.hNodup hi hn ha
  have sub₂ : ∀ a, a ∈ t₂.asLeaves l n →
      a ∈ t₂.nodesAt (t₁.hierarchy[t₁.hierarchy.length - 1]'(by omega)) := by
    intro a ha; subst hli₂
    have := asLeaves_sub_leaf s₂ w₂.hNodup hi₂ hn₂ ha
    rwa [hlf] at this
  apply perm_of_nodup_of_mem_iff nd₁ nd₂
  intro a
  constructor
  · intro ha
    have ha₁ := sub₁ a ha
    have ha₂ := (e.nodes _ hlfmem a).1 ha₁
    rw [mem_asLeaves_iff_ancestorAt_lv s₂ w₂.dict w₂.hNodup hl₂ hleaf₂ hn₂ ha₂,
      ← ancestorAt_equiv e w₁ w₂]
    exact (mem_asLeaves_iff_ancestorAt_lv s₁ w₁.dict w₁.hNodup hl hleaf₁ hn ha₁).1 ha
  · intro ha
    have ha₂ := sub₂ a ha
    have ha₁ := (e.nodes _ hlfmem a).2 ha₂
    rw [mem_asLeaves_iff_ancestorAt_lv s₁ w₁.dict w₁.hNodup hl hleaf₁ hn ha₁,
      ancestorAt_equiv e w₁ w₂]
    exact (mem_asLeaves_iff_ancestorAt_lv s₂ w₂.dict w₂.hNodup hl₂ hleaf₂ hn₂ ha₂).1 ha

end CTM.RawTree
