import CTM.Model.Tree

/-!
  Lemmas about the list helpers of `CTM.Model.Tree`:
  `insertSorted`/`sortNat` (a permutation), `hasDup` (decides `List.Nodup`),
  and `combos2`/`orderPair`, via `crossPairs`, the shape of `leafPairs`:
  when the leaf lists of the siblings are pairwise disjoint and duplicate
  free, the result lists every unordered pair of leaves under two different
  siblings exactly once.  Core Lean only.
-/
namespace CTM.RawTree

/-! ### `insertSorted`, `sortNat` -/

theorem insertSorted_perm (x : Nat) (xs : List Nat) : (insertSorted x xs).Perm (x :: xs) := by
  induction xs with
  | nil => exact List.Perm.refl _
  | cons y ys ih =>
    simp only [insertSorted]
    split
    · exact List.Perm.refl _
    · exact (List.Perm.cons y ih).trans (List.Perm.swap x y ys)

theorem sortNat_perm (xs : List Nat) : (sortNat xs).Perm xs := by
  induction xs with
  | nil => exact List.Perm.refl _
  | cons x xs ih =>
    simp only [sortNat]
    exact (insertSorted_perm x (sortNat xs)).trans (List.Perm.cons x ih)

theorem mem_sortNat {xs : List Nat} {a : Nat} : a ∈ sortNat xs ↔ a ∈ xs :=
  (sortNat_perm xs).mem_iff

/-! ### `hasDup` -/

theorem hasDup_eq_false_iff (xs : List Nat) : hasDup xs = false ↔ xs.Nodup := by
  induction xs with
  | nil => simp [hasDup]
  | cons x xs ih => simp [hasDup, ih, List.nodup_cons]

theorem hasDup_eq_true_iff (xs : List Nat) : hasDup xs = true ↔ ¬ xs.Nodup := by
  rw [← hasDup_eq_false_iff]
  cases hasDup xs <;> simp

/-! ### general list helpers -/

theorem flatMap_congr' {α β : Type} {l : List α} {f g : α → List β}
    (h : ∀ a, a ∈ l → f a = g a) : l.flatMap f = l.flatMap g := by
  induction l with
  | nil => rfl
  | cons a l ih =>
    simp only [List.flatMap_cons]
    rw [h a (List.mem_cons_self ..), ih (fun b hb => h b (List.mem_cons_of_mem _ hb))]

theorem perm_flatMap_left {α β : Type} {l : List α} {f g : α → List β}
    (h : ∀ a, a ∈ l → (f a).Perm (g a)) : (l.flatMap f).Perm (l.flatMap g) := by
  induction l with
  | nil => exact List.Perm.refl _
  | cons a l ih =>
    simp only [List.flatMap_cons]
    exact List.Perm.append (h a (List.mem_cons_self ..))
      (ih (fun b hb => h b (List.mem_cons_of_mem _ hb)))

/-- `Nodup` of a "product" list under a map that is injective on the product -/
theorem nodup_flatMap_map {α β γ : Type} {l₁ : List α} {l₂ : List β} {f : α → β → γ}
    (h1 : l₁.Nodup) (h2 : l₂.Nodup)
    (hf : ∀ a, a ∈ l₁ → ∀ b, b ∈ l₂ → ∀ a', a' ∈ l₁ → ∀ b', b' ∈ l₂ →
      f a b = f a' b' → a = a' ∧ b = b') :
    (l₁.flatMap (fun a => l₂.map (f a))).Nodup := by
  unfold List.Nodup at *
  rw [List.pairwise_flatMap]
  refine ⟨fun a ha => ?_, ?_⟩
  · rw [List.pairwise_map]
    exact h2.imp_of_mem (fun hb hb' hne heq => hne (hf a ha _ hb a ha _ hb' heq).2)
  · refine h1.imp_of_mem (fun {a a'} ha ha' hne p hp q hq heq => ?_)
    simp only [List.mem_map] at hp hq
    obtain ⟨b, hb, rfl⟩ := hp
    obtain ⟨b', hb', rfl⟩ := hq
    exact hne (hf a ha b hb a' ha' b' hb' heq).1

/-! ### `orderPair` -/

theorem orderPair_cases (a b : Nat) :
    (a < b ∧ orderPair a b = (a, b)) ∨ (b ≤ a ∧ orderPair a b = (b, a)) := by
  unfold orderPair
  split
  · exact .inl ⟨‹_›, rfl⟩
  · exact .inr ⟨by omega, rfl⟩

theorem orderPair_of_lt {a b : Nat} (h : a < b) : orderPair a b = (a, b) := by
  simp [orderPair, h]

theorem orderPair_of_gt {a b : Nat} (h : b < a) : orderPair a b = (b, a) := by
  have : ¬ a < b := by omega
  simp [orderPair, this]

theorem orderPair_lt {a b : Nat} (h : a ≠ b) : (orderPair a b).1 < (orderPair a b).2 := by
  rcases orderPair_cases a b with ⟨h1, h2⟩ | ⟨h1, h2⟩ <;> rw [h2] <;> simp <;> omega

/-- `orderPair` forgets only the order -/
theorem orderPair_eq {a b a' b' : Nat} (h : orderPair a b = orderPair a' b') :
    (a = a' ∧ b = b') ∨ (a = b' ∧ b = a') := by
  rcases orderPair_cases a b with ⟨h1, h2⟩ | ⟨h1, h2⟩ <;>
  rcases orderPair_cases a' b' with ⟨h3, h4⟩ | ⟨h3, h4⟩ <;>
  · rw [h2, h4] at h
    simp only [Prod.mk.injEq] at h
    omega

/-! ### `combos2` -/

theorem mem_combos2_mem {sibs : List Nat} {s0 s1 : Nat} (h : (s0, s1) ∈ combos2 sibs) :
    s0 ∈ sibs ∧ s1 ∈ sibs := by
  induction sibs with
  | nil => simp [combos2] at h
  | cons x xs ih =>
    simp only [combos2, List.mem_append, List.mem_map, Prod.mk.injEq] at h
    rcases h with ⟨y, hy, rfl, rfl⟩ | h
    · exact ⟨List.mem_cons_self .., List.mem_cons_of_mem _ hy⟩
    · exact ⟨List.mem_cons_of_mem _ (ih h).1, List.mem_cons_of_mem _ (ih h).2⟩

theorem mem_combos2_rel {R : Nat → Nat → Prop} {sibs : List Nat} (hR : sibs.Pairwise R)
    {s0 s1 : Nat} (h : (s0, s1) ∈ combos2 sibs) : R s0 s1 := by
  induction sibs with
  | nil => simp [combos2] at h
  | cons x xs ih =>
    rw [List.pairwise_cons] at hR
    simp only [combos2, List.mem_append, List.mem_map, Prod.mk.injEq] at h
    rcases h with ⟨y, hy, rfl, rfl⟩ | h
    · exact hR.1 _ hy
    · exact ih hR.2 h

theorem mem_combos2_of_ne {sibs : List Nat} {s0 s1 : Nat} (h0 : s0 ∈ sibs) (h1 : s1 ∈ sibs)
    (hne : s0 ≠ s1) : (s0, s1) ∈ combos2 sibs ∨ (s1, s0) ∈ combos2 sibs := by
  induction sibs with
  | nil => simp at h0
  | cons x xs ih =>
    simp only [combos2, List.mem_append, List.mem_map, Prod.mk.injEq]
    rw [List.mem_cons] at h0 h1
    rcases h0 with rfl | h0 <;> rcases h1 with rfl | h1
    · exact absurd rfl hne
    · exact .inl (.inl ⟨s1, h1, rfl, rfl⟩)
    · exact .inr (.inl ⟨s0, h0, rfl, rfl⟩)
    · rcases ih h0 h1 with h | h
      · exact .inl (.inr h)
      · exact .inr (.inr h)

/-! ### `crossPairs` -/

/-- the cross product of the leaf lists of every sibling pair, ordered -/
def crossPairs (L : Nat → List Nat) (sibs : List Nat) : List (Nat × Nat) :=
  (combos2 sibs).flatMap (fun (s0, s1) =>
    (L s0).flatMap (fun a => (L s1).map (fun b => orderPair a b)))

theorem crossPairs_nil (L) : crossPairs L [] = [] := rfl

theorem crossPairs_singleton (L) (s : Nat) : crossPairs L [s] = [] := rfl

theorem crossPairs_cons (L : Nat → List Nat) (x : Nat) (xs : List Nat) :
    crossPairs L (x :: xs) =
      xs.flatMap (fun y => (L x).flatMap (fun a => (L y).map (fun b => orderPair a b)))
        ++ crossPairs L xs := by
  simp [crossPairs, combos2, List.flatMap_append, List.flatMap_map]

/-- membership, no hypothesis on `L` -/
theorem mem_crossPairs_iff_exists (L : Nat → List Nat) (sibs : List Nat) (p : Nat × Nat) :
    p ∈ crossPairs L sibs ↔
      ∃ s0 s1, (s0, s1) ∈ combos2 sibs ∧ ∃ a, a ∈ L s0 ∧ ∃ b, b ∈ L s1 ∧ orderPair a b = p := by
  simp only [crossPairs, List.mem_flatMap, List.mem_map, Prod.exists]

/-- the leaf lists of different siblings (different *positions*) are disjoint -/
abbrev DisjointOn (L : Nat → List Nat) (s s' : Nat) : Prop :=
  ∀ a, a ∈ L s → ∀ b, b ∈ L s' → a ≠ b

theorem nodup_flatMap_split {L : Nat → List Nat} {sibs : List Nat}
    (h : (sibs.flatMap L).Nodup) :
    (∀ s, s ∈ sibs → (L s).Nodup) ∧ sibs.Pairwise (DisjointOn L) := by
  unfold List.Nodup at h
  rw [List.pairwise_flatMap] at h
  exact h

/-- no pair is listed twice (hypotheses in split form) -/
theorem crossPairs_nodup' (L : Nat → List Nat) (sibs : List Nat)
    (hN : ∀ s, s ∈ sibs → (L s).Nodup) (hD : sibs.Pairwise (DisjointOn L)) :
    (crossPairs L sibs).Nodup := by
  induction sibs with
  | nil => simp [crossPairs_nil]
  | cons x xs ih =>
    rw [List.pairwise_cons] at hD
    obtain ⟨hx, hD⟩ := hD
    have ihx := ih (fun s hs => hN s (List.mem_cons_of_mem _ hs)) hD
    rw [crossPairs_cons, List.nodup_append]
    refine ⟨?_, ihx, ?_⟩
    · -- the pairs with first sibling `x`
      unfold List.Nodup
      rw [List.pairwise_flatMap]
      refine ⟨fun y hy => ?_, ?_⟩
      · refine nodup_flatMap_map (hN x (List.mem_cons_self ..))
          (hN y (List.mem_cons_of_mem _ hy)) ?_
        intro a ha b hb a' ha' b' hb' heq
        rcases orderPair_eq heq with h | ⟨h, _⟩
        · exact h
        · exact absurd h (hx y hy a ha b' hb')
      · refine hD.imp_of_mem (fun {y y'} hy hy' hyy' p hp q hq heq => ?_)
        simp only [List.mem_flatMap, List.mem_map] at hp hq
        obtain ⟨a, ha, b, hb, rfl⟩ := hp
        obtain ⟨a', ha', b', hb', rfl⟩ := hq
        rcases orderPair_eq heq with ⟨rfl, rfl⟩ | ⟨rfl, rfl⟩
        · exact hyy' b hb b hb' rfl
        · exact hx y' hy' a ha a hb' rfl
    · -- a pair with first sibling `x` is not a pair of later siblings
      intro p hp q hq heq
      simp only [List.mem_flatMap, List.mem_map] at hp
      obtain ⟨y, hy, a, ha, b, hb, rfl⟩ := hp
      rw [mem_crossPairs_iff_exists] at hq
      obtain ⟨s0, s1, hs, a', ha', b', hb', rfl⟩ := hq
      have hs' := mem_combos2_mem hs
      rcases orderPair_eq heq with ⟨rfl, rfl⟩ | ⟨rfl, rfl⟩
      · exact hx s0 hs'.1 a ha a ha' rfl
      · exact hx s1 hs'.2 a ha a hb' rfl

/-- no pair is listed twice -/
theorem crossPairs_nodup (L : Nat → List Nat) (sibs : List Nat)
    (h : (sibs.flatMap L).Nodup) : (crossPairs L sibs).Nodup :=
  crossPairs_nodup' L sibs (nodup_flatMap_split h).1 (nodup_flatMap_split h).2

/-- exactly the unordered pairs {a < b} with a, b under two different siblings -/
theorem mem_crossPairs (L : Nat → List Nat) (sibs : List Nat)
    (h : (sibs.flatMap L).Nodup) (a b : Nat) :
    (a, b) ∈ crossPairs L sibs ↔
      a < b ∧ ∃ s0 s1, s0 ∈ sibs ∧ s1 ∈ sibs ∧ s0 ≠ s1 ∧ a ∈ L s0 ∧ b ∈ L s1 := by
  have hD := (nodup_flatMap_split h).2
  rw [mem_crossPairs_iff_exists]
  constructor
  · rintro ⟨s0, s1, hs, a', ha', b', hb', heq⟩
    have hs' := mem_combos2_mem hs
    have hdis : DisjointOn L s0 s1 := mem_combos2_rel hD hs
    have hab : a' ≠ b' := hdis a' ha' b' hb'
    have hne : s0 ≠ s1 := by
      rintro rfl
      exact hdis a' ha' a' ha' rfl
    have hlt := orderPair_lt hab
    rw [heq] at hlt
    refine ⟨hlt, ?_⟩
    rcases orderPair_cases a' b' with ⟨_, h2⟩ | ⟨_, h2⟩
    · rw [h2] at heq
      simp only [Prod.mk.injEq] at heq
      obtain ⟨rfl, rfl⟩ := heq
      exact ⟨s0, s1, hs'.1, hs'.2, hne, ha', hb'⟩
    · rw [h2] at heq
      simp only [Prod.mk.injEq] at heq
      obtain ⟨rfl, rfl⟩ := heq
      exact ⟨s1, s0, hs'.2, hs'.1, Ne.symm hne, hb', ha'⟩
  · rintro ⟨hlt, s0, s1, h0, h1, hne, ha, hb⟩
    rcases mem_combos2_of_ne h0 h1 hne with hs | hs
    · exact ⟨s0, s1, hs, a, ha, b, hb, orderPair_of_lt hlt⟩
    · exact ⟨s1, s0, hs, b, hb, a, ha, orderPair_of_gt hlt⟩

/-- only the values of L on the siblings matter -/
theorem crossPairs_congr {L L' : Nat → List Nat} {sibs : List Nat}
    (h : ∀ s, s ∈ sibs → L s = L' s) : crossPairs L sibs = crossPairs L' sibs := by
  unfold crossPairs
  refine flatMap_congr' ?_
  rintro ⟨s0, s1⟩ hs
  have hs' := mem_combos2_mem hs
  simp only [h s0 hs'.1, h s1 hs'.2]

/-- permuting each leaf list permutes the result -/
theorem crossPairs_perm {L L' : Nat → List Nat} {sibs : List Nat}
    (h : ∀ s, s ∈ sibs → (L s).Perm (L' s)) :
    (crossPairs L sibs).Perm (crossPairs L' sibs) := by
  unfold crossPairs
  refine perm_flatMap_left ?_
  rintro ⟨s0, s1⟩ hs
  have hs' := mem_combos2_mem hs
  exact (List.Perm.flatMap_right _ (h s0 hs'.1)).trans
    (perm_flatMap_left (fun a _ => List.Perm.map _ (h s1 hs'.2)))

open Classical in
/-- count form: every unordered pair is listed exactly once -/
theorem count_crossPairs (L : Nat → List Nat) (sibs : List Nat)
    (h : (sibs.flatMap L).Nodup) (a b : Nat) :
    (crossPairs L sibs).count (a, b) =
      if a < b ∧ ∃ s0 s1, s0 ∈ sibs ∧ s1 ∈ sibs ∧ s0 ≠ s1 ∧ a ∈ L s0 ∧ b ∈ L s1
      then 1 else 0 := by
  rw [(crossPairs_nodup L sibs h).count]
  simp only [mem_crossPairs L sibs h]

end CTM.RawTree
