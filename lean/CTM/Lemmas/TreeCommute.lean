/-
  C17: dropping a level of the tree built from per-cell label records equals
  building the tree on the records with that label column erased — up to the
  order of dict keys and of the child / row lists.  Core Lean only.
-/
import CTM.Lemmas.TreeRecords
import CTM.Lemmas.TreeDrop
namespace CTM.RawTree

/-- same tree up to the order of dict keys and of the child / row lists -/
structure TreeEquiv (t₁ t₂ : RawTree) : Prop where
  hier : t₁.hierarchy = t₂.hierarchy
  nodes : ∀ l, l ∈ t₁.hierarchy → ∀ n, n ∈ t₁.nodesAt l ↔ n ∈ t₂.nodesAt l
  entries : ∀ l, l ∈ t₁.hierarchy → ∀ n, n ∈ t₁.nodesAt l → (t₁.entry l n).Perm (t₂.entry l n)

/-! ### erasing a column of the records -/

/-- erasing a column keeps the records well shaped -/
theorem recsOK_eraseIdx {cols : List Level} {recs : List (List Node)} (hr : RecsOK cols recs)
    (i : Nat) : RecsOK (cols.eraseIdx i) (recs.map (·.eraseIdx i)) := by
  intro r' hr'
  obtain ⟨r, hrm, rfl⟩ := List.mem_map.1 hr'
  have := hr r hrm
  simp only [List.length_eraseIdx, this]

set_option linter.unusedVariables false in
/-- erasing a column keeps the label columns nested (`hr` is not needed: `Nested` is stated
with `[·]?`; kept for a uniform signature) -/
theorem nested_eraseIdx {cols : List Level} {recs : List (List Node)} (hr : RecsOK cols recs)
    (hn : Nested cols recs) (i : Nat) :
    Nested (cols.eraseIdx i) (recs.map (·.eraseIdx i)) := by
  intro j hj a' ha' b' hb' he
  obtain ⟨a, ha, rfl⟩ := List.mem_map.1 ha'
  obtain ⟨b, hb, rfl⟩ := List.mem_map.1 hb'
  rw [List.length_eraseIdx] at hj
  simp only [List.getElem?_eraseIdx] at he ⊢
  by_cases h1 : j + 1 < i
  · have h2 : j < i := by omega
    simp only [if_pos h1] at he
    simp only [if_pos h2]
    refine hn j ?_ a ha b hb he
    split at hj <;> omega
  · by_cases h2 : j < i
    · simp only [if_neg h1] at he
      simp only [if_pos h2]
      have hlt : j + 1 + 1 < cols.length := by split at hj <;> omega
      exact hn j (by omega) a ha b hb (hn (j+1) hlt a ha b hb he)
    · simp only [if_neg h1] at he
      simp only [if_neg h2]
      have hlt : j + 1 + 1 < cols.length := by split at hj <;> omega
      exact hn (j+1) hlt a ha b hb he

/-- the tree built from at least one record has a node at its top level -/
theorem fromRecordsRaw_hasNode {cols : List Level} {recs : List (List Node)} (hc : cols.Nodup)
    (hne : cols ≠ []) (hr : RecsOK cols recs) (hrec : recs ≠ []) :
    ∀ l0, (fromRecordsRaw cols recs).hierarchy.head? = some l0 →
      (fromRecordsRaw cols recs).nodesAt l0 ≠ [] := by
  intro l0 h0
  have hpos : 0 < cols.length := List.length_pos_iff.2 hne
  have e : l0 = cols[0] := by
    rw [fromRecordsRaw_hierarchy, List.head?_eq_getElem?, List.getElem?_eq_getElem hpos] at h0
    exact (Option.some.inj h0).symm
  subst e
  obtain ⟨r0, rs0, rfl⟩ := List.exists_cons_of_ne_nil hrec
  have hlen : r0.length = cols.length := hr r0 List.mem_cons_self
  have : r0[0]'(by omega) ∈ (fromRecordsRaw cols (r0 :: rs0)).nodesAt cols[0] :=
    (fromRecordsRaw_nodes hc hr 0 hpos _).2
      ⟨r0, List.mem_cons_self, List.getElem?_eq_getElem (by omega)⟩
  intro hnil
  rw [hnil] at this
  cases this

/-- … and the tree built from no record has none -/
theorem fromRecordsRaw_nil_noNode {cols : List Level} (hc : cols.Nodup) (hne : cols ≠ []) :
    (fromRecordsRaw cols []).nodesAt (cols[0]'(List.length_pos_iff.2 hne)) = [] := by
  have hpos : 0 < cols.length := List.length_pos_iff.2 hne
  cases h : (fromRecordsRaw cols []).nodesAt cols[0] with
  | nil => rfl
  | cons p ps =>
    have hp : p ∈ (fromRecordsRaw cols []).nodesAt cols[0] := by rw [h]; exact List.mem_cons_self
    obtain ⟨r, hr', _⟩ := (fromRecordsRaw_nodes hc (fun r hr => by cases hr) 0 hpos p).1 hp
    cases hr'

/-- the tree built from nested records (at least one) is well formed -/
theorem fromRecordsRaw_wf {cols : List Level} {recs : List (List Node)} (hc : cols.Nodup)
    (hne : cols ≠ []) (hr : RecsOK cols recs) (hn : Nested cols recs) (hrec : recs ≠ []) :
    WF (fromRecordsRaw cols recs) where
  valid := validate_of_strict hc hne (fromRecordsRaw_hasNode hc hne hr hrec)
    ((fromRecordsRaw_strict_iff hc hr).2 hn)
  hNodup := hc
  hNe := hne
  dict := fromRecordsRaw_dictOK hc recs

/-! ### generic facts on entries -/

/-- with distinct keys, the members of `tree[l][p]` are the values listed under `p` -/
theorem mem_entry_iff {t : RawTree} (d : DictOK t) {l : Level} {p : Node} {c : Nat} :
    c ∈ t.entry l p ↔ ∃ cs, (p, cs) ∈ t.level l ∧ c ∈ cs := by
  constructor
  · intro h
    have hp : p ∈ t.nodesAt l := by
      unfold entry at h
      cases hl : (t.level l).lookup p with
      | none => rw [hl] at h; simp at h
      | some cs => exact mem_nodesAt.2 ⟨cs, mem_of_lookup hl⟩
    exact ⟨_, mem_level_entry hp, h⟩
  · rintro ⟨cs, hm, hc⟩
    rw [entry_of_mem d hm]; exact hc

/-- every entry of a strict tree (children, or rows at the leaf level) is duplicate free -/
theorem Strict.entry_nodup_any {t : RawTree} (s : Strict t) {j : Nat}
    (hj : j < t.hierarchy.length) {n : Node} (hm : n ∈ t.nodesAt t.hierarchy[j]) :
    (t.entry t.hierarchy[j] n).Nodup := by
  by_cases h1 : j + 1 < t.hierarchy.length
  · exact s.entry_nodup h1 hm
  · have hne : t.hierarchy ≠ [] := by intro h; rw [h] at hj; cases hj
    have hrows := s.rowsNodup
    unfold allRows at hrows
    rw [leafLevel_eq hne] at hrows
    have e : t.hierarchy.length - 1 = j := by omega
    simp only [e] at hrows
    unfold List.Nodup at hrows
    rw [List.pairwise_flatMap] at hrows
    exact hrows.1 _ (mem_level_entry hm)

theorem Strict.entry_nodup_of_mem {t : RawTree} (s : Strict t) {l : Level}
    (hl : l ∈ t.hierarchy) {n : Node} (hm : n ∈ t.nodesAt l) : (t.entry l n).Nodup := by
  obtain ⟨j, hj, rfl⟩ := List.getElem_of_mem hl
  exact s.entry_nodup_any hj hm

/-! ### the built tree, by column index -/

section build
variable {cols : List Level} {recs : List (List Node)}

theorem build_nodes (hc : cols.Nodup) (hr : RecsOK cols recs) {j : Nat} {l : Level}
    (hl : cols[j]? = some l) (p : Node) :
    p ∈ (fromRecordsRaw cols recs).nodesAt l ↔ ∃ r, r ∈ recs ∧ r[j]? = some p :=
  (fromRecordsRaw_inv hc hr).nodes j l hl p

theorem build_entry_inner (hc : cols.Nodup) (hr : RecsOK cols recs) {j : Nat} {l : Level}
    (hl : cols[j]? = some l) (hj : j + 1 < cols.length) (p : Node) (c : Nat) :
    c ∈ (fromRecordsRaw cols recs).entry l p ↔
      ∃ r, r ∈ recs ∧ r[j]? = some p ∧ r[j+1]? = some c := by
  rw [mem_entry_iff (fromRecordsRaw_dictOK hc recs)]
  exact (fromRecordsRaw_inv hc hr).children j l hl hj p c

theorem build_entry_leaf (hc : cols.Nodup) (hr : RecsOK cols recs) {j : Nat} {l : Level}
    (hl : cols[j]? = some l) (hj : j + 1 = cols.length) (leaf : Node) (k : Nat) :
    k ∈ (fromRecordsRaw cols recs).entry l leaf ↔
      ∃ r, recs[k]? = some r ∧ r[j]? = some leaf := by
  rw [mem_entry_iff (fromRecordsRaw_dictOK hc recs)]
  have hll : cols.getLast? = some l := by
    have e : cols.length - 1 = j := by omega
    rw [List.getLast?_eq_getElem?, e]; exact hl
  refine ((fromRecordsRaw_inv hc hr).rows l hll leaf k).trans ?_
  constructor
  · rintro ⟨r, hk, hf⟩
    refine ⟨r, hk, ?_⟩
    have := hr r (List.mem_of_getElem? hk)
    have e : r.length - 1 = j := by omega
    rw [List.getLast?_eq_getElem?, e] at hf
    exact hf
  · rintro ⟨r, hk, hf⟩
    refine ⟨r, hk, ?_⟩
    have := hr r (List.mem_of_getElem? hk)
    have e : r.length - 1 = j := by omega
    rw [List.getLast?_eq_getElem?, e]
    exact hf

/-! the tree built on the records with column `i` erased -/

theorem buildE_nodes (hc : cols.Nodup) (hr : RecsOK cols recs) (i : Nat) {j : Nat} {l : Level}
    (hl : (cols.eraseIdx i)[j]? = some l) (p : Node) :
    p ∈ (fromRecordsRaw (cols.eraseIdx i) (recs.map (·.eraseIdx i))).nodesAt l ↔
      ∃ r, r ∈ recs ∧ (r.eraseIdx i)[j]? = some p := by
  rw [build_nodes (hc.sublist (List.eraseIdx_sublist _ _)) (recsOK_eraseIdx hr i) hl]
  constructor
  · rintro ⟨r', hr', h⟩
    obtain ⟨r, hrm, rfl⟩ := List.mem_map.1 hr'
    exact ⟨r, hrm, h⟩
  · rintro ⟨r, hrm, h⟩
    exact ⟨_, List.mem_map.2 ⟨r, hrm, rfl⟩, h⟩

theorem buildE_entry_inner (hc : cols.Nodup) (hr : RecsOK cols recs) (i : Nat) {j : Nat}
    {l : Level} (hl : (cols.eraseIdx i)[j]? = some l) (hj : j + 1 < (cols.eraseIdx i).length)
    (p : Node) (c : Nat) :
    c ∈ (fromRecordsRaw (cols.eraseIdx i) (recs.map (·.eraseIdx i))).entry l p ↔
      ∃ r, r ∈ recs ∧ (r.eraseIdx i)[j]? = some p ∧ (r.eraseIdx i)[j+1]? = some c := by
  rw [build_entry_inner (hc.sublist (List.eraseIdx_sublist _ _)) (recsOK_eraseIdx hr i) hl hj]
  constructor
  · rintro ⟨r', hr', h⟩
    obtain ⟨r, hrm, rfl⟩ := List.mem_map.1 hr'
    exact ⟨r, hrm, h⟩
  · rintro ⟨r, hrm, h⟩
    exact ⟨_, List.mem_map.2 ⟨r, hrm, rfl⟩, h⟩

theorem buildE_entry_leaf (hc : cols.Nodup) (hr : RecsOK cols recs) (i : Nat) {j : Nat}
    {l : Level} (hl : (cols.eraseIdx i)[j]? = some l) (hj : j + 1 = (cols.eraseIdx i).length)
    (leaf : Node) (k : Nat) :
    k ∈ (fromRecordsRaw (cols.eraseIdx i) (recs.map (·.eraseIdx i))).entry l leaf ↔
      ∃ r, recs[k]? = some r ∧ (r.eraseIdx i)[j]? = some leaf := by
  rw [build_entry_leaf (hc.sublist (List.eraseIdx_sublist _ _)) (recsOK_eraseIdx hr i) hl hj]
  simp only [List.getElem?_map, Option.map_eq_some_iff]
  constructor
  · rintro ⟨r', ⟨r, hk, rfl⟩, h⟩
    exact ⟨r, hk, h⟩
  · rintro ⟨r, hk, h⟩
    exact ⟨_, ⟨r, hk, rfl⟩, h⟩

end build

/-! ### the dropped tree against the tree of the erased records -/

section commute
variable {cols : List Level} {recs : List (List Node)} {i : Nat} {allowLeaf : Bool}
  {t' : RawTree}

theorem getElem_ne_of_ne (hc : cols.Nodup) {j k : Nat} (hj : j < cols.length)
    (hk : k < cols.length) (h : j ≠ k) : cols[j] ≠ cols[k] :=
  fun e => h ((List.getElem_inj hc).1 e)

/-- nodes of a remaining level -/
theorem drop_build_nodes (hc : cols.Nodup) (hr : RecsOK cols recs) (hi : i < cols.length)
    (hraw : (fromRecordsRaw cols recs).dropLevelRaw cols[i] allowLeaf = .ok t')
    {j : Nat} (hj : j < cols.length) (hji : j ≠ i) (n : Node) :
    n ∈ t'.nodesAt cols[j] ↔
      n ∈ (fromRecordsRaw (cols.eraseIdx i) (recs.map (·.eraseIdx i))).nodesAt cols[j] := by
  have e : t'.nodesAt cols[j] = (fromRecordsRaw cols recs).nodesAt cols[j] :=
    drop_nodesAt (t := fromRecordsRaw cols recs) hc hi hraw (getElem_ne_of_ne hc hj hi hji)
  rw [e, build_nodes hc hr (List.getElem?_eq_getElem hj)]
  rcases Nat.lt_or_gt_of_ne hji with hlt | hgt
  · have hl : (cols.eraseIdx i)[j]? = some cols[j] := by
      rw [List.getElem?_eraseIdx, if_pos hlt]; exact List.getElem?_eq_getElem hj
    rw [buildE_nodes hc hr i hl]
    simp only [List.getElem?_eraseIdx, if_pos hlt]
  · obtain ⟨j', rfl⟩ : ∃ j', j = j' + 1 := ⟨j - 1, by omega⟩
    have hn : ¬ j' < i := by omega
    have hl : (cols.eraseIdx i)[j']? = some cols[j'+1] := by
      rw [List.getElem?_eraseIdx, if_neg hn]; exact List.getElem?_eq_getElem hj
    rw [buildE_nodes hc hr i hl]
    simp only [List.getElem?_eraseIdx, if_neg hn]

/-- entries of a remaining level, as sets -/
theorem drop_build_mem_entry (hc : cols.Nodup) (hr : RecsOK cols recs) (hn : Nested cols recs)
    (hi : i < cols.length)
    (hraw : (fromRecordsRaw cols recs).dropLevelRaw cols[i] allowLeaf = .ok t')
    {j : Nat} (hj : j < cols.length) (hji : j ≠ i) (p : Node) (x : Nat) :
    x ∈ t'.entry cols[j] p ↔
      x ∈ (fromRecordsRaw (cols.eraseIdx i) (recs.map (·.eraseIdx i))).entry cols[j] p := by
  have hlenE : (cols.eraseIdx i).length = cols.length - 1 := by
    rw [List.length_eraseIdx, if_pos hi]
  rcases Nat.lt_or_gt_of_ne hji with hlt | hgt
  · -- above the dropped level: same index in the erased records
    have hl : (cols.eraseIdx i)[j]? = some cols[j] := by
      rw [List.getElem?_eraseIdx, if_pos hlt]; exact List.getElem?_eq_getElem hj
    by_cases h1 : j + 1 < i
    · -- untouched inner level
      have e : t'.entry cols[j] p = (fromRecordsRaw cols recs).entry cols[j] p :=
        drop_entry_other (t := fromRecordsRaw cols recs) hc hi hraw
          (getElem_ne_of_ne hc hj hi hji)
          (fun h0 => getElem_ne_of_ne hc hj (by omega) (by omega)) p
      rw [e, build_entry_inner hc hr (List.getElem?_eq_getElem hj) (by omega),
        buildE_entry_inner hc hr i hl (by omega)]
      simp only [List.getElem?_eraseIdx, if_pos hlt, if_pos h1]
    · -- the re-parented level
      have hi' : i = j + 1 := by omega
      subst hi'
      have e : t'.entry cols[j] p =
          ((fromRecordsRaw cols recs).entry cols[j] p).flatMap
            ((fromRecordsRaw cols recs).entry cols[j+1]) :=
        drop_entry_parent (t := fromRecordsRaw cols recs) hc hi hraw (by omega) p
      rw [e, List.mem_flatMap]
      have hjj : ¬ j + 1 < j + 1 := by omega
      have hjlt : j < j + 1 := by omega
      by_cases h2 : j + 1 + 1 < cols.length
      · -- still an inner level
        rw [buildE_entry_inner hc hr (j+1) hl (by omega)]
        simp only [List.getElem?_eraseIdx, if_pos hjlt, if_neg hjj]
        constructor
        · rintro ⟨m, hm, hx⟩
          obtain ⟨r₁, hr₁, hp₁, hm₁⟩ :=
            (build_entry_inner hc hr (List.getElem?_eq_getElem hj) (by omega) p m).1 hm
          obtain ⟨r₂, hr₂, hm₂, hx₂⟩ :=
            (build_entry_inner hc hr (List.getElem?_eq_getElem hi) h2 m x).1 hx
          have := hn j (by omega) r₂ hr₂ r₁ hr₁ (hm₂.trans hm₁.symm)
          exact ⟨r₂, hr₂, this.trans hp₁, hx₂⟩
        · rintro ⟨r, hrm, hp, hx⟩
          have hlen := hr r hrm
          have hm : r[j+1]? = some (r[j+1]'(by omega)) := List.getElem?_eq_getElem _
          exact ⟨r[j+1]'(by omega),
            (build_entry_inner hc hr (List.getElem?_eq_getElem hj) (by omega) p _).2
              ⟨r, hrm, hp, hm⟩,
            (build_entry_inner hc hr (List.getElem?_eq_getElem hi) h2 _ x).2
              ⟨r, hrm, hm, hx⟩⟩
      · -- the leaf level was dropped: this is the new leaf level
        rw [buildE_entry_leaf hc hr (j+1) hl (by omega)]
        simp only [List.getElem?_eraseIdx, if_pos hjlt]
        constructor
        · rintro ⟨m, hm, hx⟩
          obtain ⟨r₁, hr₁, hp₁, hm₁⟩ :=
            (build_entry_inner hc hr (List.getElem?_eq_getElem hj) (by omega) p m).1 hm
          obtain ⟨r₂, hk₂, hm₂⟩ :=
            (build_entry_leaf hc hr (List.getElem?_eq_getElem hi) (by omega) m x).1 hx
          have := hn j (by omega) r₂ (List.mem_of_getElem? hk₂) r₁ hr₁ (hm₂.trans hm₁.symm)
          exact ⟨r₂, hk₂, this.trans hp₁⟩
        · rintro ⟨r, hk, hp⟩
          have hrm := List.mem_of_getElem? hk
          have hlen := hr r hrm
          have hm : r[j+1]? = some (r[j+1]'(by omega)) := List.getElem?_eq_getElem _
          exact ⟨r[j+1]'(by omega),
            (build_entry_inner hc hr (List.getElem?_eq_getElem hj) (by omega) p _).2
              ⟨r, hrm, hp, hm⟩,
            (build_entry_leaf hc hr (List.getElem?_eq_getElem hi) (by omega) _ x).2
              ⟨r, hk, hm⟩⟩
  · -- below the dropped level: index shifted by one, level dict untouched
    obtain ⟨j', rfl⟩ : ∃ j', j = j' + 1 := ⟨j - 1, by omega⟩
    have hn0 : ¬ j' < i := by omega
    have hn1 : ¬ j' + 1 < i := by omega
    have hl : (cols.eraseIdx i)[j']? = some cols[j'+1] := by
      rw [List.getElem?_eraseIdx, if_neg hn0]; exact List.getElem?_eq_getElem hj
    have e : t'.entry cols[j'+1] p = (fromRecordsRaw cols recs).entry cols[j'+1] p :=
      drop_entry_other (t := fromRecordsRaw cols recs) hc hi hraw
        (getElem_ne_of_ne hc hj hi hji)
        (fun h0 => getElem_ne_of_ne hc hj (by omega) (by omega)) p
    rw [e]
    by_cases h2 : j' + 1 + 1 < cols.length
    · rw [build_entry_inner hc hr (List.getElem?_eq_getElem hj) h2,
        buildE_entry_inner hc hr i hl (by omega)]
      simp only [List.getElem?_eraseIdx, if_neg hn0, if_neg hn1]
    · rw [build_entry_leaf hc hr (List.getElem?_eq_getElem hj) (by omega),
        buildE_entry_leaf hc hr i hl (by omega)]
      simp only [List.getElem?_eraseIdx, if_neg hn0]

/-- the result of `dropLevelRaw` on the built tree against the tree built on the
erased records -/
theorem drop_build_equiv (hc : cols.Nodup) (hr : RecsOK cols recs) (hn : Nested cols recs)
    (hi : i < cols.length)
    (hraw : (fromRecordsRaw cols recs).dropLevelRaw cols[i] allowLeaf = .ok t') (w' : WF t') :
    TreeEquiv t' (fromRecordsRaw (cols.eraseIdx i) (recs.map (·.eraseIdx i))) := by
  have hh : t'.hierarchy = cols.eraseIdx i :=
    drop_hierarchy (t := fromRecordsRaw cols recs) hc hi hraw
  have hcE : (cols.eraseIdx i).Nodup := hc.sublist (List.eraseIdx_sublist _ _)
  have hneE : cols.eraseIdx i ≠ [] := by rw [← hh]; exact w'.hNe
  have s₂ : Strict (fromRecordsRaw (cols.eraseIdx i) (recs.map (·.eraseIdx i))) :=
    (fromRecordsRaw_strict_iff hcE (recsOK_eraseIdx hr i)).2 (nested_eraseIdx hr hn i)
  refine ⟨hh, ?_, ?_⟩
  · intro l hl n
    rw [hh, List.mem_eraseIdx_iff_getElem] at hl
    obtain ⟨j, hj, hji, rfl⟩ := hl
    exact drop_build_nodes hc hr hi hraw hj hji n
  · intro l hl n hm
    have hl' := hl
    rw [hh, List.mem_eraseIdx_iff_getElem] at hl'
    obtain ⟨j, hj, hji, rfl⟩ := hl'
    refine perm_of_nodup_of_mem_iff
      ((strict_of_validate w'.valid).entry_nodup_of_mem hl hm)
      (s₂.entry_nodup_of_mem (hh ▸ hl)
        ((drop_build_nodes hc hr hi hraw hj hji n).1 hm))
      (drop_build_mem_entry hc hr hn hi hraw hj hji n)

/-- MAIN (C17): dropping level `cols[i]` of the tree built from the records gives, up to
the order of dict keys and of the child / row lists, the tree built from the
records with column `i` erased -/
theorem drop_commutes_build {cols : List Level} {recs : List (List Node)} (hc : cols.Nodup)
    (hr : RecsOK cols recs) (hn : Nested cols recs) (hrec : recs ≠ []) {i : Nat}
    (hi : i < cols.length)
    (h2 : 2 ≤ cols.length) (allowLeaf : Bool) (hl : allowLeaf = true ∨ i + 1 < cols.length) :
    ∃ t', (fromRecordsRaw cols recs).dropLevel cols[i] allowLeaf = .ok t' ∧
      TreeEquiv t' (fromRecordsRaw (cols.eraseIdx i) (recs.map (·.eraseIdx i))) := by
  have hne : cols ≠ [] := by intro h; rw [h] at hi; cases hi
  have w : WF (fromRecordsRaw cols recs) := fromRecordsRaw_wf hc hne hr hn hrec
  obtain ⟨t', hd, hraw, w'⟩ := dropLevel_eq_ok w (i := i) hi h2 hl
  exact ⟨t', hd, drop_build_equiv hc hr hn hi hraw w'⟩

end commute

end CTM.RawTree
