/-
  Helper lemmas for C15: `'%.4f'` as round-half-even on the exact value.
-/
import CTM.Model.Output
import Mathlib.Tactic.Linarith
import Mathlib.Tactic.Ring
import Mathlib.Algebra.Order.Ring.Rat
import Mathlib.Algebra.Order.Field.Rat
import Mathlib.Algebra.Order.Field.Basic
import Mathlib.Data.List.Nodup
import CTM.Lemmas.Output

namespace CTM.Output

theorem rhe_cases (q : Rat) :
    (q - (q.floor : Rat) < 1 / 2 ∧ roundHalfEven q = q.floor) ∨
    (1 / 2 < q - (q.floor : Rat) ∧ roundHalfEven q = q.floor + 1) ∨
    (q - (q.floor : Rat) = 1 / 2 ∧ q.floor % 2 = 0 ∧ roundHalfEven q = q.floor) ∨
    (q - (q.floor : Rat) = 1 / 2 ∧ q.floor % 2 ≠ 0 ∧ roundHalfEven q = q.floor + 1) := by
  unfold roundHalfEven
  dsimp only
  by_cases h1 : q - (q.floor : Rat) < 1 / 2
  · left; exact ⟨h1, if_pos h1⟩
  · rw [if_neg h1]
    by_cases h2 : 1 / 2 < q - (q.floor : Rat)
    · right; left; exact ⟨h2, if_pos h2⟩
    · rw [if_neg h2]
      have h3 : q - (q.floor : Rat) = 1 / 2 := le_antisymm (not_lt.mp h2) (not_lt.mp h1)
      by_cases h4 : q.floor % 2 = 0
      · right; right; left; exact ⟨h3, h4, if_pos h4⟩
      · right; right; right; exact ⟨h3, h4, if_neg h4⟩

theorem floor_le' (q : Rat) : (q.floor : Rat) ≤ q := Rat.floor_le q

theorem lt_floor_add_one' (q : Rat) : q < (q.floor : Rat) + 1 := by
  have := Rat.lt_floor_add_one q
  push_cast at this
  exact this

/-- the rounded value is within one half -/
theorem rhe_error (q : Rat) :
    ((roundHalfEven q : Int) : Rat) - q ≤ 1 / 2 ∧ q - ((roundHalfEven q : Int) : Rat) ≤ 1 / 2 := by
  have h1 := floor_le' q
  have h2 := lt_floor_add_one' q
  rcases rhe_cases q with ⟨h, e⟩ | ⟨h, e⟩ | ⟨h, _, e⟩ | ⟨h, _, e⟩ <;> rw [e] <;> push_cast <;>
    constructor <;> linarith

theorem rhe_bounds (q : Rat) : q.floor ≤ roundHalfEven q ∧ roundHalfEven q ≤ q.floor + 1 := by
  rcases rhe_cases q with ⟨_, e⟩ | ⟨_, e⟩ | ⟨_, _, e⟩ | ⟨_, _, e⟩ <;> rw [e] <;> omega

theorem rhe_mono {x y : Rat} (h : x ≤ y) : roundHalfEven x ≤ roundHalfEven y := by
  have hf := Rat.floor_monotone h
  rcases Int.lt_or_eq_of_le hf with hlt | heq
  · have := (rhe_bounds x).2
    have := (rhe_bounds y).1
    omega
  · have hr : x - (x.floor : Rat) ≤ y - (y.floor : Rat) := by rw [heq]; linarith
    rcases rhe_cases x with ⟨hx, ex⟩ | ⟨hx, ex⟩ | ⟨hx, px, ex⟩ | ⟨hx, px, ex⟩ <;>
    rcases rhe_cases y with ⟨hy, ey⟩ | ⟨hy, ey⟩ | ⟨hy, py, ey⟩ | ⟨hy, py, ey⟩ <;>
    rw [ex, ey] <;> first | omega | (exfalso; linarith)

theorem rhe_intCast (n : Int) : roundHalfEven (n : Rat) = n := by
  have hf : (n : Rat).floor = n := Rat.floor_intCast n
  rcases rhe_cases (n : Rat) with ⟨_, e⟩ | ⟨h, _⟩ | ⟨h, _, _⟩ | ⟨h, _, _⟩
  · rw [e, hf]
  all_goals (rw [hf] at h; norm_num at h)

/-- a tie (`q = k + 1/2`) is resolved to the even neighbour -/
theorem rhe_tie_even (q : Rat) (k : Int) (h : q = (k : Rat) + 1 / 2) :
    roundHalfEven q % 2 = 0 ∧ (roundHalfEven q = k ∨ roundHalfEven q = k + 1) := by
  have hf : q.floor = k := by
    apply le_antisymm
    · have : q.floor < k + 1 := by
        rw [Rat.floor_lt_iff]; push_cast; rw [h]; linarith
      omega
    · rw [Rat.le_floor_iff, h]; linarith
  rcases rhe_cases q with ⟨h', _⟩ | ⟨h', _⟩ | ⟨_, p, e⟩ | ⟨_, p, e⟩
  · rw [hf, h] at h'; exfalso; linarith
  · rw [hf, h] at h'; exfalso; linarith
  · rw [e, hf] at *; exact ⟨p, Or.inl rfl⟩
  · rw [e, hf] at *; exact ⟨by omega, Or.inr rfl⟩

/-- nearest integer: no integer is closer -/
theorem rhe_nearest (q : Rat) (n : Int) :
    |((roundHalfEven q : Int) : Rat) - q| ≤ |(n : Rat) - q| := by
  have h1 := floor_le' q
  have h2 := lt_floor_add_one' q
  have hn : n ≤ q.floor ∨ q.floor + 1 ≤ n := by omega
  have hn' : (n : Rat) ≤ (q.floor : Rat) ∨ (q.floor : Rat) + 1 ≤ (n : Rat) := by
    rcases hn with h | h
    · left; exact_mod_cast h
    · right; exact_mod_cast h
  rcases rhe_cases q with ⟨h, e⟩ | ⟨h, e⟩ | ⟨h, _, e⟩ | ⟨h, _, e⟩ <;> rw [e] <;> push_cast <;>
    rcases hn' with g | g <;>
    · rw [abs_le]
      constructor
      · have := neg_abs_le ((n : Rat) - q); have := le_abs_self ((n : Rat) - q)
        have := neg_le_abs ((n : Rat) - q); linarith
      · have := le_abs_self ((n : Rat) - q); have := neg_le_abs ((n : Rat) - q); linarith

/-! ### `re_order_blob` returns a permutation when the ids are distinct -/

theorem reorder_perm (rs rs' : List Record) (order : List StrId)
    (hids : (rs.map (·.cellId)).Nodup) (hord : order.Nodup)
    (hsub : ∀ r ∈ rs, r.cellId ∈ order)
    (hmap : rs'.map (·.cellId) = order)
    (hmem : ∀ r ∈ rs', r ∈ rs) : rs'.Perm rs := by
  have d1 : rs'.Nodup := List.Nodup.of_map (·.cellId) (by rw [hmap]; exact hord)
  have d2 : rs.Nodup := List.Nodup.of_map (·.cellId) hids
  rw [List.perm_ext_iff_of_nodup d1 d2]
  intro r
  constructor
  · exact hmem r
  · intro hr
    have : r.cellId ∈ rs'.map (·.cellId) := by rw [hmap]; exact hsub r hr
    obtain ⟨r', hr', he⟩ := List.mem_map.mp this
    have : r' = r := List.inj_on_of_nodup_map hids (hmem r' hr') hr he
    rw [← this]; exact hr'

end CTM.Output
