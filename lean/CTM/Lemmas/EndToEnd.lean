import CTM.Lemmas.Compose
import CTM.Lemmas.ComposeHome
import CTM.Lemmas.ComposeWF
import CTM.Lemmas.StageFiles
import CTM.Props.C08

namespace CTM.EndToEnd
open CTM CTM.LevelLoop CTM.OutBridge CTM.Election CTM.Numeric CTM.Compose
open CTM.Markers CTM.StageFiles

/-- what a run needs besides the files: the nondeterminism (drawn subsets, tie
orders, reported correlation values) and the configuration
(`n_runners_up + 1`, `min_markers`) -/
structure RunParams where
  subsets : Parent → List Rat → List (List Nat)
  corrOf : Parent → List Rat → Nat → Nat → Rat
  tie : Parent → List Rat → List Nat → List Nat
  nAssign : Nat
  minMarkers : Nat

/-- the marker cache of the run: `create_marker_cache_from_specified_markers`
with the taxonomy and `col_names` of the statistics file and the query's gene
names (group E's `createCache`) -/
def cacheOf (f : StatsFile) (lk : Lookup) (Q : List Gene) (m : Nat) : Except MErr Cache :=
  createCache (some f.tree) lk f.colNames Q m

/-- rows `(reference index, query index)` of a parent's group (`[]` when the
cache could not be written or has no such group: nothing is then asked) -/
def groupRows (c : Except MErr Cache) (p : PKey) : List (Nat × Nat) :=
  match c with
  | .ok c => (c.groups.lookup p).getD []
  | .error _ => []

/-- the FILE-LEVEL parameters of the election: reference rows = the leaf means
read from the statistics file by leaf NAME (group F's `leafMeanRow`), the node's
gene columns = the rows of the parent's group in the marker cache (group E) -/
def fileParams (f : StatsFile) (lk : Lookup) (Q : List Gene) (rp : RunParams) : ElectionParams :=
  { means := fun leaf => match leafMeanRow f leaf with
      | .ok row => row
      | .error _ => []
    qcols := fun p => (groupRows (cacheOf f lk Q rp.minMarkers) p).map (·.2)
    rcols := fun p => (groupRows (cacheOf f lk Q rp.minMarkers) p).map (·.1)
    subsets := rp.subsets, corrOf := rp.corrOf, tie := rp.tie, nAssign := rp.nAssign }

/-- the gene names of a consulted node as the files give them: both column
lists of `fileParams` name the same genes `names`, position by position — query
column `j` and reference column `j` are the gene `names[j]` —, the reference
indices increase, and as a set `names` is `specGenes` of the ORIGINAL marker
table (C08.spec) -/
structure NodeGenes (f : StatsFile) (lk : Lookup) (Q : List Gene) (rp : RunParams) (p : PKey)
    (names : List Gene) : Prop where
  query : namesAt Q ((fileParams f lk Q rp).qcols p) = .ok names
  reference : namesAt f.colNames ((fileParams f lk Q rp).rcols p) = .ok names
  qlen : ((fileParams f lk Q rp).qcols p).length = names.length
  rlen : ((fileParams f lk Q rp).rcols p).length = names.length
  sorted : ((fileParams f lk Q rp).rcols p).Pairwise (· ≤ ·)
  spec : ∀ g, g ∈ names ↔ g ∈ specGenes f.tree lk Q rp.minMarkers p
  nodup : names.Nodup
  nonempty : names ≠ []

theorem rowsFor_length (R Q : List Gene) : ∀ (ps : List (Nat × Nat)) (gs : List Gene),
    RowsFor R Q ps gs → ps.length = gs.length
  | [], [], _ => rfl
  | [], _ :: _, h => h.elim
  | _ :: _, [], h => h.elim
  | _ :: ps, _ :: gs, h => by simp [rowsFor_length R Q ps gs h.2]

/-- C08.spec, read as a statement about `fileParams` -/
theorem nodeGenes_of_cache (f : StatsFile) (lk : Lookup) (Q : List Gene) (rp : RunParams)
    (hT : TreeWF f.tree) (c : Cache) (hc : cacheOf f lk Q rp.minMarkers = .ok c) (p : PKey)
    (hp : p ∈ f.tree.allParents) (hcons : Consulted f.tree p) :
    ∃ names, NodeGenes f lk Q rp p names := by
  obtain ⟨rows, names, hrows, hfor, hsorted, _, _, hspec, hnd⟩ :=
    C08.spec f.tree hT lk f.colNames Q rp.minMarkers c hc p hp hcons
  have hg : groupRows (cacheOf f lk Q rp.minMarkers) p = rows := by
    simp [groupRows, hc, hrows]
  obtain ⟨n1, n2⟩ := rowsFor_namesAt f.colNames Q rows names hfor
  have hlen := rowsFor_length f.colNames Q rows names hfor
  -- at least one gene: the table was accepted
  have hne : names ≠ [] := by
    have hval : ∃ lk', validateLookup f.tree Q rp.minMarkers lk = .ok lk' := by
      unfold cacheOf createCache at hc
      cases hv : validateLookup f.tree Q rp.minMarkers lk with
      | error e => simp [hv] at hc
      | ok lk' => exact ⟨lk', rfl⟩
    have := (C08.validate_ok_iff f.tree hT Q rp.minMarkers lk).1 hval p hp hcons
    intro e
    apply this
    right
    cases hs : specGenes f.tree lk Q rp.minMarkers p with
    | nil => rfl
    | cons g gs =>
      have : g ∈ names := (hspec g).2 (by rw [hs]; simp)
      rw [e] at this; simp at this
  refine ⟨names, ?_⟩
  refine { query := ?_, reference := ?_, qlen := ?_, rlen := ?_, sorted := ?_, spec := hspec,
           nodup := hnd, nonempty := hne }
  · simp only [fileParams, hg]; exact n2
  · simp only [fileParams, hg]; exact n1
  · simp only [fileParams, hg, List.length_map]; exact hlen
  · simp only [fileParams, hg, List.length_map]; exact hlen
  · simp only [fileParams, hg]; rw [List.pairwise_map]; exact hsorted

end CTM.EndToEnd
namespace CTM.EndToEnd
open CTM CTM.LevelLoop CTM.OutBridge CTM.Election CTM.Numeric CTM.Compose
open CTM.Markers CTM.StageFiles

theorem namesAt_getElem (names : List Gene) : ∀ (idx : List Nat) (gs : List Gene),
    namesAt names idx = .ok gs → ∀ (j : Nat) (g : Gene), gs[j]? = some g →
      ∃ r, idx[j]? = some r ∧ names[r]? = some g
  | [], gs, h, j, g, hj => by
    simp only [namesAt, Except.ok.injEq] at h; subst h; simp at hj
  | i :: is, gs, h, j, g, hj => by
    simp only [namesAt] at h
    cases hi : names[i]? with
    | none => simp [hi] at h
    | some g0 =>
      cases hr : namesAt names is with
      | error e => simp [hi, hr] at h
      | ok gs' =>
        simp only [hi, hr, Except.ok.injEq] at h
        subst h
        cases j with
        | zero =>
          simp only [List.getElem?_cons_zero, Option.some.injEq] at hj
          subst hj
          exact ⟨i, rfl, hi⟩
        | succ j =>
          simp only [List.getElem?_cons_succ] at hj
          obtain ⟨r, h1, h2⟩ := namesAt_getElem names is gs' hr j g hj
          exact ⟨r, by simpa using h1, h2⟩

theorem pick_getElem? (s : List Nat) (v : List Rat) (j r : Nat) (hj : s[j]? = some r) :
    (Numeric.pick s v)[j]? = some (v.getD r 0) := by
  simp [Numeric.pick, List.getElem?_map, hj]

/-- the mean row the parameters hold for a leaf of the stored taxonomy is the
row the statistics file gives for that leaf NAME, as wide as `col_names` -/
theorem means_of_fileOK (f : StatsFile) (lk : Lookup) (Q : List Gene) (rp : RunParams)
    (hf : FileOK f) (leaf : Leaf) (hl : leaf ∈ leavesOf f.tree) :
    leafMeanRow f leaf = .ok ((fileParams f lk Q rp).means leaf) ∧
    ((fileParams f lk Q rp).means leaf).length = f.colNames.length := by
  obtain ⟨r, row, h1, h2, h3⟩ := hf leaf hl
  have := leafMeanRow_of_row f leaf r row h1 h2 h3
  simp only [fileParams, this]
  exact ⟨trivial, by simp [h3]⟩

/-- "by name, in reference order": entry `j` of the reference row of a leaf at a
consulted node is the mean the statistics file holds for (leaf NAME, gene NAME
`names[j]`) — group F's `meanByName` -/
theorem refRow_by_name (f : StatsFile) (lk : Lookup) (Q : List Gene) (rp : RunParams)
    (hf : FileOK f) (hn : f.colNames.Nodup) (p : PKey) (names : List Gene)
    (hng : NodeGenes f lk Q rp p names) (leaf : Leaf) (hl : leaf ∈ leavesOf f.tree)
    (j : Nat) (g : Gene) (hj : names[j]? = some g) :
    (refRow (fileParams f lk Q rp) p leaf)[j]? = meanByName f leaf g ∧
    (meanByName f leaf g).isSome = true := by
  obtain ⟨hm, hlen⟩ := means_of_fileOK f lk Q rp hf leaf hl
  obtain ⟨r, hr1, hr2⟩ := namesAt_getElem _ _ _ hng.reference j g hj
  have hidx : nameToIdx f.colNames g = some r := (nameToIdx_iff f.colNames hn g r).2 hr2
  have hrlt : r < ((fileParams f lk Q rp).means leaf).length := by
    rw [hlen]; exact (List.getElem?_eq_some_iff.1 hr2).1
  unfold refRow
  rw [pick_getElem? _ _ j r hr1]
  unfold meanByName
  rw [hm, hidx]
  simp only
  rw [List.getElem?_eq_getElem hrlt]
  simp [List.getD, hrlt]

/-- entry `j` of the query row at a consulted node is the cell's value in the
query column NAMED `names[j]` -/
theorem nodeQuery_by_name (f : StatsFile) (lk : Lookup) (Q : List Gene) (rp : RunParams)
    (hq : Q.Nodup) (p : PKey) (names : List Gene) (hng : NodeGenes f lk Q rp p names)
    (x : List Rat) (hx : x.length = Q.length) (j : Nat) (g : Gene) (hj : names[j]? = some g) :
    ∃ q, nameToIdx Q g = some q ∧ (nodeQuery (fileParams f lk Q rp) p x)[j]? = x[q]? ∧
      q < x.length := by
  obtain ⟨q, hq1, hq2⟩ := namesAt_getElem _ _ _ hng.query j g hj
  have hqlt : q < x.length := by rw [hx]; exact (List.getElem?_eq_some_iff.1 hq2).1
  refine ⟨q, (nameToIdx_iff Q hq g q).2 hq2, ?_, hqlt⟩
  unfold nodeQuery
  rw [pick_getElem? _ _ j q hq1, List.getElem?_eq_getElem hqlt]
  simp [List.getD, hqlt]

end CTM.EndToEnd

namespace CTM.EndToEnd
open CTM CTM.LevelLoop CTM.OutBridge CTM.Election CTM.Numeric CTM.Compose
open CTM.Markers CTM.StageFiles

/-- a question the level loop really puts with at least two children is about a
CONSULTED parent of `all_parents` (group E's notions) -/
theorem asked_consulted {t : RawTree} {p : Parent} {l : Level} {kids : List Node}
    (h : Asked t p l kids) (h2 : 2 ≤ kids.length) : p ∈ t.allParents ∧ Consulted t p := by
  obtain ⟨plo, hmem, hp, hk, _, _⟩ := h
  refine ⟨?_, ⟨kids, by simp [childrenOf, hk], by omega⟩⟩
  cases plo with
  | none =>
    simp only [parentNodeList, List.mem_singleton] at hp
    subst hp
    simp [RawTree.allParents]
  | some pl =>
    obtain ⟨n, hn, rfl⟩ := (mem_parentNodeList_some t pl p).mp hp
    rw [mem_allParents]
    refine ⟨?_, hn⟩
    rcases (mem_levelPairs_iff t (some pl) l).mp hmem with ⟨h0, _⟩ | ⟨q, a, b, hq, hs⟩
    · cases h0
    · cases hq
      rw [hs, List.dropLast_append_of_ne_nil (by simp)]
      simp [List.dropLast]

/-- the drawn subsets index into the node's gene list: what `C02`'s checked
predicate `subset_ok` says of every traced subset (in range), for every
consulted parent at least one iteration -/
def SubsetsOK (f : StatsFile) (lk : Lookup) (Q : List Gene) (rp : RunParams) : Prop :=
  ∀ p ∈ f.tree.allParents, Consulted f.tree p → ∀ (x : List Rat), rp.subsets p x ≠ [] ∧
    ∀ s ∈ rp.subsets p x, ∀ i ∈ s,
      i < (groupRows (cacheOf f lk Q rp.minMarkers) p).length

/-- (2) `NoRaiseAll` for the file-level parameters: on a validated taxonomy,
once the marker cache is written, neither `tally_votes` nor `choose_node` raises
on any question of the level loop — reference rows exist for every consulted
parent (the tree), its gene list is non-empty and both column lists have its
length (C08), so that all that is asked of the run is that the drawn subsets
index into the node's gene list and `n_assignments ≥ 1` -/
theorem noRaiseAll_fileParams (f : StatsFile) (lk : Lookup) (Q : List Gene) (rp : RunParams)
    (hv : f.tree.validate = .ok ()) (hN : f.tree.hierarchy.Nodup)
    (hsub : SubsetsOK f lk Q rp) (hA : 1 ≤ rp.nAssign) :
    NoRaiseAll (fileParams f lk Q rp) f.tree := by
  -- the `rows` part does not depend on the parameters
  have hrows := noRaiseAll_of_validate
    ({ fileParams f lk Q rp with subsets := fun _ _ => [[]], nAssign := 1 }) hv hN
    (by intro p x; simp) (by intro p x s hs i hi; simp at hs; subst hs; simp at hi) (by simp)
  intro p l kids x hask h2
  obtain ⟨hp, hc⟩ := asked_consulted hask h2
  obtain ⟨h1, h3⟩ := hsub p hp hc x
  refine ⟨h1, ?_, (hrows p l kids x hask h2).rows, hA⟩
  intro s hs i hi
  have := h3 s hs i hi
  simp only [fileParams, List.length_map]
  exact ⟨this, this⟩

end CTM.EndToEnd

namespace CTM.EndToEnd
open CTM CTM.LevelLoop CTM.OutBridge CTM.Election CTM.Numeric CTM.Compose
open CTM.Markers CTM.StageFiles

theorem leavesOf_eq_last (t : RawTree) (h0 : 0 < t.hierarchy.length) :
    leavesOf t = t.nodesAt (t.hierarchy[t.hierarchy.length - 1]'(by omega)) := by
  unfold leavesOf RawTree.leafLevel
  rw [List.getLast?_eq_getElem?, List.getElem?_eq_getElem (by omega)]

/-- the reference rows of every question are leaves of the stored taxonomy (so
that they are read from the statistics file by name) -/
theorem rows_are_leaves {t : RawTree} (hv : t.validate = .ok ()) (hN : t.hierarchy.Nodup)
    {p : Parent} {l : Level} {kids : List Node} (h : Asked t p l kids) :
    ∀ leaf ∈ (nodeRows (kidsOf t l kids)).1, leaf ∈ leavesOf t := by
  have s := RawTree.strict_of_validate hv
  obtain ⟨plo, hmem, _, _, _, hsub⟩ := h
  intro leaf hl
  obtain ⟨c, hc, hin⟩ := (nodeRows_mem _ leaf).1 hl
  rw [kidsOf_fst] at hc
  rw [leavesOfKids_kidsOf t l kids c hc] at hin
  have hlh : l ∈ t.hierarchy := by
    unfold levelPairs at hmem
    exact (List.of_mem_zip hmem).2
  obtain ⟨i, hi, rfl⟩ := List.mem_iff_getElem.1 hlh
  rw [leavesOf_eq_last t (by omega)]
  exact RawTree.asLeaves_sub_leaf s hN hi (hsub c hc) hin

/-- the marker stage of a plain run (`Markers.stage`, no `drop_level`, no
`flatten`) succeeds only if the cache was written -/
theorem cache_of_stage (f : StatsFile) (lk : Lookup) (Q : List Gene) (m : Nat) (out : StageOut)
    (h : Markers.stage f.tree lk f.colNames Q m none false = .ok out) :
    ∃ c, cacheOf f lk Q m = .ok c := by
  unfold Markers.stage at h
  simp only [Bool.false_eq_true, if_false] at h
  unfold cacheOf
  cases hc : createCache (some f.tree) lk f.colNames Q m with
  | error e => simp [hc] at h
  | ok c => exact ⟨c, rfl⟩

end CTM.EndToEnd
namespace CTM.EndToEnd
open CTM CTM.LevelLoop CTM.OutBridge CTM.Election CTM.Numeric CTM.Compose
open CTM.Markers CTM.StageFiles

/-- the query row `x` (columns = the query's gene names `Q`, in ANY order) equals,
gene NAME by gene name, the mean profile the statistics file holds for leaf `lf` -/
def SameByName (f : StatsFile) (Q : List Gene) (x : List Rat) (lf : Leaf) : Prop :=
  x.length = Q.length ∧
  ∀ (q : Nat) (g : Gene), Q[q]? = some g → g ∈ f.colNames →
    some (x.getD q 0) = meanByName f lf g

/-- then, at every consulted node, the cell's profile on the node's genes IS
the leaf's reference row (the `query` clause of `NodeGuard`) -/
theorem nodeQuery_eq_refRow (f : StatsFile) (lk : Lookup) (Q : List Gene) (rp : RunParams)
    (hf : FileOK f) (hn : f.colNames.Nodup) (p : PKey) (names : List Gene)
    (hng : NodeGenes f lk Q rp p names) (x : List Rat) (lf : Leaf) (hl : lf ∈ leavesOf f.tree)
    (hs : SameByName f Q x lf) :
    nodeQuery (fileParams f lk Q rp) p x = refRow (fileParams f lk Q rp) p lf := by
  apply List.ext_getElem?
  intro j
  by_cases hj : j < names.length
  · obtain ⟨g, hg⟩ : ∃ g, names[j]? = some g := ⟨names[j], List.getElem?_eq_getElem hj⟩
    obtain ⟨q, hq1, hq2⟩ := namesAt_getElem _ _ _ hng.query j g hg
    obtain ⟨r, _, hr2⟩ := namesAt_getElem _ _ _ hng.reference j g hg
    have hgc : g ∈ f.colNames := List.mem_of_getElem? hr2
    rw [(refRow_by_name f lk Q rp hf hn p names hng lf hl j g hg).1, ← hs.2 q g hq2 hgc]
    unfold nodeQuery
    exact pick_getElem? _ _ j q hq1
  · have h1 : (nodeQuery (fileParams f lk Q rp) p x).length = names.length := by
      rw [nodeQuery, pick_length, hng.qlen]
    have h2 : (refRow (fileParams f lk Q rp) p lf).length = names.length := by
      rw [refRow, pick_length, hng.rlen]
    rw [List.getElem?_eq_none (by omega), List.getElem?_eq_none (by omega)]

/-- the part of C18's guard that is not implied by the files: at a node, for
the cell `x` and the leaf `lf` — no raise; on every drawn subset the leaf's
profile on the node's genes is not constant and no other reference row of the
node is perfectly correlated with it; the correlation reported for `lf`'s row has
signed square 1 -/
structure SeparatedAt (P : ElectionParams) (p : Parent) (kl : List (Node × List Node))
    (x : List Rat) (lf : Node) : Prop where
  noRaise : NoRaise P p kl x
  guard : ∀ s ∈ P.subsets p x, var (Numeric.pick s (refRow P p lf)) ≠ 0 ∧
    ∀ m ∈ (nodeRows kl).1, m ≠ lf →
      corrSsq (Numeric.pick s (refRow P p m)) (Numeric.pick s (refRow P p lf)) ≠ 1
  corr : ∀ it j, (nodeRows kl).1[j]? = some lf →
    P.corrOf p x it j * |P.corrOf p x it j| = 1

/-- `SeparatedAt` at every parent with a choice that has `lf` among its rows -/
def SeparationBelow (P : ElectionParams) (t : RawTree) (x : List Rat) (lf : Node) : Prop :=
  ∀ p ∈ t.allParents, ∀ l ∈ t.hierarchy, ∀ (kids : List Node), t.children p = .ok kids →
    2 ≤ kids.length → lf ∈ (nodeRows (kidsOf t l kids)).1 →
    SeparatedAt P p (kidsOf t l kids) x lf

/-- the guard of `centroid_maps_home_validated`, from the files: equality by
gene name + separation -/
theorem guardBelow_of_files (f : StatsFile) (lk : Lookup) (Q : List Gene) (rp : RunParams)
    (hT : TreeWF f.tree) (hf : FileOK f) (hn : f.colNames.Nodup) (c : Cache)
    (hc : cacheOf f lk Q rp.minMarkers = .ok c) (x : List Rat) (lf : Leaf)
    (hl : lf ∈ leavesOf f.tree) (hs : SameByName f Q x lf)
    (hsep : SeparationBelow (fileParams f lk Q rp) f.tree x lf) :
    GuardBelow (fileParams f lk Q rp) f.tree x lf := by
  intro p hp l hlh kids hk h2 hin
  obtain ⟨h1, h3, h4⟩ := hsep p hp l hlh kids hk h2 hin
  have hcons : Consulted f.tree p := ⟨kids, by simp [childrenOf, hk], by omega⟩
  obtain ⟨names, hng⟩ := nodeGenes_of_cache f lk Q rp hT c hc p hp hcons
  exact ⟨h1, nodeQuery_eq_refRow f lk Q rp hf hn p names hng x lf hl hs, h3, h4⟩

end CTM.EndToEnd
