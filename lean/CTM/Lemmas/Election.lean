/-
  Helper lemmas for C02 / C03 / C18 (vote arithmetic, Pearson on `Rat`).
-/
import Mathlib.Algebra.Order.Field.Rat
import Mathlib.Data.Rat.Floor
import Mathlib.Tactic.Ring
import Mathlib.Tactic.Linarith
import Mathlib.Tactic.FieldSimp
import Mathlib.Tactic.Positivity
import CTM.Model.Election

namespace CTM.Numeric

/-! ### dot products, Cauchy–Schwarz on lists of rationals -/

theorem dot_nil_left (ys : List Rat) : dot [] ys = 0 := by simp [dot]
theorem dot_nil_right (xs : List Rat) : dot xs [] = 0 := by simp [dot]
theorem dot_cons (a b : Rat) (xs ys : List Rat) :
    dot (a :: xs) (b :: ys) = a * b + dot xs ys := by simp [dot]

theorem dot_self_nonneg : ∀ xs : List Rat, 0 ≤ dot xs xs
  | [] => by simp [dot]
  | a :: xs => by
    rw [dot_cons]
    nlinarith [dot_self_nonneg xs, mul_self_nonneg a]

theorem dot_comm : ∀ xs ys : List Rat, dot xs ys = dot ys xs
  | [], ys => by rw [dot_nil_left, dot_nil_right]
  | _ :: _, [] => by rw [dot_nil_left, dot_nil_right]
  | a :: xs, b :: ys => by rw [dot_cons, dot_cons, dot_comm xs ys, mul_comm]

/-- Cauchy–Schwarz for the truncating dot product of two lists. -/
theorem cauchy_schwarz : ∀ xs ys : List Rat, dot xs ys ^ 2 ≤ dot xs xs * dot ys ys
  | [], ys => by
    rw [dot_nil_left]; simp [dot_nil_left]
  | a :: xs, [] => by
    rw [dot_nil_right]; simp [dot_nil_right]
  | a :: xs, b :: ys => by
    rw [dot_cons, dot_cons, dot_cons]
    have ih := cauchy_schwarz xs ys
    have hA := dot_self_nonneg xs
    have hC := dot_self_nonneg ys
    generalize dot xs xs = A at *
    generalize dot ys ys = C at *
    generalize dot xs ys = B at *
    rcases hA.eq_or_lt with h0 | hpos
    · subst h0
      have hB : B = 0 := by nlinarith [sq_nonneg B]
      subst hB
      nlinarith [mul_nonneg (sq_nonneg a) hC, sq_nonneg (a * b)]
    · nlinarith [sq_nonneg (A * b - a * B), mul_nonneg (sq_nonneg a) (sub_nonneg.2 ih),
        sq_nonneg a, sq_nonneg b]

theorem var_nonneg (x : List Rat) : 0 ≤ var x := dot_self_nonneg _

theorem cov_sq_le (x y : List Rat) : cov x y ^ 2 ≤ var x * var y := cauchy_schwarz _ _

theorem cov_comm (x y : List Rat) : cov x y = cov y x := dot_comm _ _

theorem normSq_pos (x : List Rat) : 0 < normSq x := by
  unfold normSq
  split
  · exact one_pos
  · next h => exact lt_of_le_of_ne (var_nonneg x) (Ne.symm h)

theorem var_le_normSq (x : List Rat) : var x ≤ normSq x := by
  unfold normSq
  split
  · next h => rw [h]; exact zero_le_one
  · exact le_refl _

theorem cov_sq_le_normSq (x y : List Rat) : cov x y * cov x y ≤ normSq x * normSq y := by
  have h := cov_sq_le x y
  have h1 := var_le_normSq x
  have h2 := var_le_normSq y
  have h3 := var_nonneg x
  have h4 := var_nonneg y
  have h5 := normSq_pos x
  nlinarith [mul_le_mul h1 h2 h4 h5.le]

/-- the signed squared correlation lies in [-1, 1] -/
theorem corrSsq_le_one (x y : List Rat) : corrSsq x y ≤ 1 := by
  unfold corrSsq
  have hN : 0 < normSq x * normSq y := mul_pos (normSq_pos x) (normSq_pos y)
  have h := cov_sq_le_normSq x y
  rw [div_le_one hN]
  split
  · exact h
  · nlinarith [mul_self_nonneg (cov x y)]

theorem neg_one_le_corrSsq (x y : List Rat) : -1 ≤ corrSsq x y := by
  unfold corrSsq
  have hN : 0 < normSq x * normSq y := mul_pos (normSq_pos x) (normSq_pos y)
  have h := cov_sq_le_normSq x y
  rw [le_div_iff₀ hN]
  split
  · nlinarith [mul_self_nonneg (cov x y)]
  · nlinarith

/-- a constant row (zero variance) has correlation 0 with everything -/
theorem corrSsq_const_left (x y : List Rat) (h : var x = 0) : corrSsq x y = 0 := by
  have hc : cov x y = 0 := by
    have := cov_sq_le x y
    rw [h, zero_mul] at this
    nlinarith [sq_nonneg (cov x y)]
  simp [corrSsq, hc]

theorem corrSsq_const_right (x y : List Rat) (h : var y = 0) : corrSsq x y = 0 := by
  have hc : cov x y = 0 := by
    have := cov_sq_le x y
    rw [h, mul_zero] at this
    nlinarith [sq_nonneg (cov x y)]
  simp [corrSsq, hc]

/-- a non-constant row is perfectly correlated with itself -/
theorem corrSsq_self (x : List Rat) (h : var x ≠ 0) : corrSsq x x = 1 := by
  have hpos : 0 < var x := lt_of_le_of_ne (var_nonneg x) (Ne.symm h)
  have hn : normSq x = var x := by simp [normSq, h]
  have hc : cov x x = var x := rfl
  simp only [corrSsq, hn, hc, if_pos hpos.le]
  field_simp

/-- any number whose signed square is a signed squared correlation
    (i.e. the Pearson correlation itself) lies in [-1, 1] -/
theorem signed_root_range (r s : Rat) (h : r * |r| = s) (h1 : -1 ≤ s) (h2 : s ≤ 1) :
    -1 ≤ r ∧ r ≤ 1 := by
  rcases le_total 0 r with hr | hr
  · rw [abs_of_nonneg hr] at h
    constructor
    · linarith
    · nlinarith
  · rw [abs_of_nonpos hr] at h
    constructor
    · nlinarith
    · linarith

end CTM.Numeric
namespace CTM.Numeric

theorem argmaxAux_spec (xs : List Rat) : ∀ (pre : List Rat) (b : Nat) (bv : Rat),
    pre[b]? = some bv →
    (∀ (j : Nat) (v : Rat), pre[j]? = some v → v ≤ bv) →
    (∀ (j : Nat) (v : Rat), j < b → pre[j]? = some v → v < bv) →
    ∃ rv, (pre ++ xs)[argmaxAux b bv pre.length xs]? = some rv ∧
      (∀ (j : Nat) (v : Rat), (pre ++ xs)[j]? = some v → v ≤ rv) ∧
      (∀ (j : Nat) (v : Rat), j < argmaxAux b bv pre.length xs → (pre ++ xs)[j]? = some v → v < rv) := by
  induction xs with
  | nil =>
    intro pre b bv hb hmax hfirst
    exact ⟨bv, by simpa [argmaxAux] using hb, by simpa using hmax, by simpa [argmaxAux] using hfirst⟩
  | cons x xs ih =>
    intro pre b bv hb hmax hfirst
    have hlen : (pre ++ [x]).length = pre.length + 1 := by simp
    have happ : pre ++ x :: xs = (pre ++ [x]) ++ xs := by simp
    unfold argmaxAux
    split
    · next hlt =>
      rw [happ, ← hlen]
      apply ih
      · simp
      · intro j v hj
        rw [List.getElem?_append] at hj
        split at hj
        · exact le_of_lt (lt_of_le_of_lt (hmax j v hj) hlt)
        · next hge =>
          have : j - pre.length = 0 := by
            by_contra hne
            have : (1:Nat) ≤ j - pre.length := Nat.one_le_iff_ne_zero.2 hne
            simp [List.getElem?_eq_none, this] at hj
          simp [this] at hj
          rw [← hj]
      · intro j v hj hv
        rw [List.getElem?_append_left hj] at hv
        exact lt_of_le_of_lt (hmax j v hv) hlt
    · next hnlt =>
      rw [happ, ← hlen]
      have hbl : b < pre.length := by
        by_contra h
        rw [List.getElem?_eq_none (Nat.le_of_not_lt h)] at hb
        cases hb
      apply ih
      · rw [List.getElem?_append_left hbl]; exact hb
      · intro j v hj
        rw [List.getElem?_append] at hj
        split at hj
        · exact hmax j v hj
        · have : j - pre.length = 0 := by
            by_contra hne
            have : (1:Nat) ≤ j - pre.length := Nat.one_le_iff_ne_zero.2 hne
            simp [List.getElem?_eq_none, this] at hj
          simp [this] at hj
          rw [← hj]; exact not_lt.1 hnlt
      · intro j v hj hv
        rw [List.getElem?_append_left (lt_trans hj hbl)] at hv
        exact hfirst j v hj hv

end CTM.Numeric

namespace CTM.Numeric

theorem argmaxFirst_spec (l : List Rat) (i : Nat) (h : argmaxFirst l = some i) :
    ∃ v, l[i]? = some v ∧ (∀ (j : Nat) (w : Rat), l[j]? = some w → w ≤ v) ∧
      (∀ (j : Nat) (w : Rat), j < i → l[j]? = some w → w < v) := by
  cases l with
  | nil => simp [argmaxFirst] at h
  | cons x xs =>
    simp only [argmaxFirst, Option.some.injEq] at h
    have := argmaxAux_spec xs [x] 0 x (by simp)
      (by intro j v hj; cases j <;> simp at hj; rw [hj])
      (by intro j v hj; omega)
    simpa [h] using this

theorem argmaxFirst_eq_none (l : List Rat) : argmaxFirst l = none ↔ l = [] := by
  cases l <;> simp [argmaxFirst]

/-- `nearestLeaf` returns an index of a reference row whose signed squared
    correlation with the query row is maximal, and the first such. -/
theorem nearestLeaf_spec (refs : List (List Rat)) (x : List Rat) (i : Nat) (s : Rat)
    (h : nearestLeaf refs x = some (i, s)) :
    ∃ hi : i < refs.length, s = corrSsq refs[i] x ∧
      (∀ (j : Nat) (hj : j < refs.length), corrSsq refs[j] x ≤ s) ∧
      (∀ (j : Nat) (hj : j < refs.length), j < i → corrSsq refs[j] x < s) := by
  unfold nearestLeaf at h
  simp only at h
  split at h
  · cases h
  · next k hk =>
    simp only [Option.some.injEq, Prod.mk.injEq] at h
    obtain ⟨rfl, hs⟩ := h
    obtain ⟨v, hv, hmax, hfirst⟩ := argmaxFirst_spec _ _ hk
    rw [List.getElem?_map] at hv
    have hi : k < refs.length := by
      by_contra hn
      rw [List.getElem?_eq_none (Nat.le_of_not_lt hn)] at hv
      simp at hv
    refine ⟨hi, ?_, ?_, ?_⟩
    · rw [← hs]; simp [List.getD, hi]
    · intro j hj
      have hv' : v = corrSsq refs[k] x := by
        rw [List.getElem?_eq_getElem hi] at hv; simpa using hv.symm
      have hs' : s = v := by rw [← hs, hv']; simp [List.getD, hi]
      rw [hs']
      exact hmax j _ (by rw [List.getElem?_map, List.getElem?_eq_getElem hj]; rfl)
    · intro j hj hlt
      have hv' : v = corrSsq refs[k] x := by
        rw [List.getElem?_eq_getElem hi] at hv; simpa using hv.symm
      have hs' : s = v := by rw [← hs, hv']; simp [List.getD, hi]
      rw [hs']
      exact hfirst j _ hlt (by rw [List.getElem?_map, List.getElem?_eq_getElem hj]; rfl)

theorem nearestLeaf_eq_none (refs : List (List Rat)) (x : List Rat) :
    nearestLeaf refs x = none ↔ refs = [] := by
  unfold nearestLeaf
  simp only
  split
  · next h => rw [argmaxFirst_eq_none] at h; simpa using h
  · next k hk =>
    constructor
    · intro h; cases h
    · intro h; subst h; simp [argmaxFirst] at hk

end CTM.Numeric
namespace CTM.Election
open CTM.Numeric

/-- number of iterations that voted for leaf `j` -/
def countLeaf (rows : List (Nat × Rat)) (j : Nat) : Nat :=
  (rows.filter (fun r => r.1 = j)).length

/-- sum of the winning correlations over the iterations that voted for leaf `j` -/
def corrOfLeaf (rows : List (Nat × Rat)) (j : Nat) : Rat :=
  ((rows.filter (fun r => r.1 = j)).map (·.2)).sum

theorem countLeaf_cons (r : Nat × Rat) (rows : List (Nat × Rat)) (j : Nat) :
    countLeaf (r :: rows) j = (if r.1 = j then 1 else 0) + countLeaf rows j := by
  unfold countLeaf
  by_cases h : r.1 = j <;> simp [h, Nat.add_comm]

theorem corrOfLeaf_cons (r : Nat × Rat) (rows : List (Nat × Rat)) (j : Nat) :
    corrOfLeaf (r :: rows) j = (if r.1 = j then r.2 else 0) + corrOfLeaf rows j := by
  unfold corrOfLeaf
  by_cases h : r.1 = j <;> simp [h]

theorem tally_fold (rows : List (Nat × Rat)) : ∀ (v : List Nat) (c : List Rat),
    ∀ j : Nat,
      (rows.foldl (fun acc r => (bumpNat acc.1 r.1, bumpRat acc.2 r.1 r.2)) (v, c)).1[j]? =
        (v[j]?).map (· + countLeaf rows j) ∧
      (rows.foldl (fun acc r => (bumpNat acc.1 r.1, bumpRat acc.2 r.1 r.2)) (v, c)).2[j]? =
        (c[j]?).map (· + corrOfLeaf rows j) := by
  induction rows with
  | nil => intro v c j; simp [countLeaf, corrOfLeaf]
  | cons r rows ih =>
    intro v c j
    simp only [List.foldl_cons]
    obtain ⟨h1, h2⟩ := ih (bumpNat v r.1) (bumpRat c r.1 r.2) j
    rw [h1, h2, countLeaf_cons, corrOfLeaf_cons]
    unfold bumpNat bumpRat
    rw [List.getElem?_modify, List.getElem?_modify]
    constructor
    · cases v[j]? with
      | none => simp
      | some a => by_cases h : r.1 = j <;> simp [h] <;> omega
    · cases c[j]? with
      | none => simp
      | some a => by_cases h : r.1 = j <;> simp [h] <;> ring

/-- `tally_votes`: the vote array counts, per leaf, the iterations whose nearest
    neighbour was that leaf -/
theorem tallyCell_votes (n : Nat) (rows : List (Nat × Rat)) :
    (tallyCell n rows).1 = (List.range n).map (countLeaf rows) := by
  apply List.ext_getElem?
  intro j
  rw [tallyCell, (tally_fold rows _ _ j).1]
  by_cases h : j < n <;> simp [h]

/-- `tally_votes`: the correlation-sum array holds, per leaf, the sum of the
    winning correlations of exactly the iterations that voted for it -/
theorem tallyCell_corr (n : Nat) (rows : List (Nat × Rat)) :
    (tallyCell n rows).2 = (List.range n).map (corrOfLeaf rows) := by
  apply List.ext_getElem?
  intro j
  rw [tallyCell, (tally_fold rows _ _ j).2]
  by_cases h : j < n <;> simp [h]

theorem sum_range_countLeaf (rows : List (Nat × Rat)) : ∀ n : Nat,
    (∀ r ∈ rows, r.1 < n) → ((List.range n).map (countLeaf rows)).sum = rows.length := by
  induction rows with
  | nil =>
    intro n _
    apply List.sum_eq_zero
    intro x hx
    simp only [List.mem_map] at hx
    obtain ⟨a, _, rfl⟩ := hx
    rfl
  | cons r rows ih =>
    intro n h
    have hr : r.1 < n := h r (by simp)
    have ih' := ih n (fun q hq => h q (by simp [hq]))
    have : (List.range n).map (countLeaf (r :: rows)) =
        (List.range n).map (fun j => (if r.1 = j then 1 else 0) + countLeaf rows j) := by
      apply List.map_congr_left; intro j _; exact countLeaf_cons r rows j
    rw [this, List.sum_map_add, ih']
    have h1 : ((List.range n).map (fun j => if r.1 = j then 1 else 0)).sum = 1 := by
      clear ih ih' this h
      induction n with
      | zero => omega
      | succ m ihm =>
        rw [List.range_succ, List.map_append, List.sum_append]
        by_cases hm : r.1 = m
        · have : ((List.range m).map (fun j => if r.1 = j then 1 else 0)).sum = 0 := by
            apply List.sum_eq_zero
            intro x hx
            simp only [List.mem_map, List.mem_range] at hx
            obtain ⟨a, ha, rfl⟩ := hx
            have : r.1 ≠ a := by omega
            simp [this]
          rw [this]; simp [hm]
        · have := ihm (by omega)
          simp [this, hm]
    simp [h1]; omega

/-- every iteration casts exactly one vote: the votes of one cell sum to the
    number of iterations -/
theorem tallyCell_sum (n : Nat) (rows : List (Nat × Rat)) (h : ∀ r ∈ rows, r.1 < n) :
    (tallyCell n rows).1.sum = rows.length := by
  rw [tallyCell_votes, sum_range_countLeaf rows n h]

end CTM.Election
namespace CTM.Election
open CTM.Numeric

/-! ### choose_node -/

theorem chooseCols_ok {V : List Nat} {C : List Rat} {T : List Nat} {iters nA : Nat}
    {order : List Nat} {ch : Choice} (h : chooseCols V C T iters nA order = .ok ch) :
    iters ≠ 0 ∧ ∃ w rest, order.take (min nA V.length) = w :: rest ∧
      ch.winner = T.getD w 0 ∧ ch.prob = (V.getD w 0 : Rat) / (iters : Rat) ∧
      ch.avgCorr = C.getD w 0 / ((if 0 < V.getD w 0 then V.getD w 0 else 1 : Nat) : Rat) ∧
      ch.runners = rest.map (fun i =>
        { type := T.getD i 0, valid := decide (0 < V.getD i 0),
          avgCorr := C.getD i 0 / ((if 0 < V.getD i 0 then V.getD i 0 else 1 : Nat) : Rat),
          prob := (V.getD i 0 : Rat) / (iters : Rat) }) := by
  unfold chooseCols at h
  simp only at h
  split at h
  · cases h
  · next hit =>
    refine ⟨hit, ?_⟩
    split at h
    · cases h
    · next w rest htk =>
      cases h
      exact ⟨w, rest, htk, rfl, rfl, rfl, rfl⟩

theorem map_getD_range (V : List Nat) : (List.range V.length).map (fun i => V.getD i 0) = V := by
  apply List.ext_getElem
  · simp
  · intro i h1 h2
    simp at h1
    simp [List.getD, h1]

theorem ValidOrder.mem_lt {V order : List Nat} (h : ValidOrder V order) {i : Nat}
    (hi : i ∈ order) : i < V.length := by
  have := (h.1.mem_iff).1 hi
  simpa using this

theorem ValidOrder.nodup {V order : List Nat} (h : ValidOrder V order) : order.Nodup :=
  (h.1.nodup_iff).2 List.nodup_range

theorem ValidOrder.mem_of_lt {V order : List Nat} (h : ValidOrder V order) {i : Nat}
    (hi : i < V.length) : i ∈ order := (h.1.mem_iff).2 (by simpa using hi)

theorem ValidOrder.sum_eq {V order : List Nat} (h : ValidOrder V order) :
    (order.map (fun i => V.getD i 0)).sum = V.sum := by
  have := (h.1.map (fun i => V.getD i 0)).sum_nat
  rw [this, map_getD_range]

theorem ValidOrder.length_eq {V order : List Nat} (h : ValidOrder V order) :
    order.length = V.length := by
  have := h.1.length_eq
  simpa using this

theorem take_eq_cons {α} {l : List α} {k : Nat} {w : α} {rest : List α}
    (h : l.take k = w :: rest) : ∃ tl, l = w :: tl ∧ rest = tl.take (k - 1) := by
  cases l with
  | nil => simp at h
  | cons a tl =>
    cases k with
    | zero => simp at h
    | succ k =>
      simp only [List.take_succ_cons, List.cons.injEq] at h
      exact ⟨tl, by rw [h.1], by simpa using h.2.symm⟩

/-- the head of a valid order carries the maximum number of votes -/
theorem ValidOrder.head_max {V : List Nat} {w : Nat} {tl : List Nat}
    (h : ValidOrder V (w :: tl)) (i : Nat) (hi : i < V.length) : V.getD i 0 ≤ V.getD w 0 := by
  have hm := h.mem_of_lt hi
  have hp := h.2
  simp only [List.map_cons, List.pairwise_cons] at hp
  rcases List.mem_cons.1 hm with rfl | hmem
  · exact le_refl _
  · exact hp.1 _ (List.mem_map.2 ⟨i, hmem, rfl⟩)

end CTM.Election

namespace CTM.Election
open CTM.Numeric

/-- canonical shape of a successful `chooseCols` under a valid tie order -/
theorem chooseCols_form {V : List Nat} {C : List Rat} {T : List Nat} {iters nA : Nat}
    {order : List Nat} {ch : Choice} (hv : ValidOrder V order)
    (h : chooseCols V C T iters nA order = .ok ch) :
    iters ≠ 0 ∧ ∃ w rest tl2, order = w :: (rest ++ tl2) ∧
      rest.length + 1 = min nA V.length ∧
      ch.winner = T.getD w 0 ∧ ch.prob = (V.getD w 0 : Rat) / (iters : Rat) ∧
      ch.avgCorr = C.getD w 0 / ((if 0 < V.getD w 0 then V.getD w 0 else 1 : Nat) : Rat) ∧
      ch.runners = rest.map (fun i =>
        { type := T.getD i 0, valid := decide (0 < V.getD i 0),
          avgCorr := C.getD i 0 / ((if 0 < V.getD i 0 then V.getD i 0 else 1 : Nat) : Rat),
          prob := (V.getD i 0 : Rat) / (iters : Rat) }) := by
  obtain ⟨hit, w, rest, htk, h1, h2, h3, h4⟩ := chooseCols_ok h
  refine ⟨hit, w, rest, ?_⟩
  obtain ⟨tl, hl, hrest⟩ := take_eq_cons htk
  refine ⟨tl.drop (min nA V.length - 1), ?_, ?_, h1, h2, h3, h4⟩
  · rw [hl, hrest, List.take_append_drop]
  · have hlen := hv.length_eq
    rw [hl] at hlen
    simp only [List.length_cons] at hlen
    have hk : 1 ≤ min nA V.length := by
      by_contra hc
      have : min nA V.length = 0 := by omega
      rw [this] at htk
      simp at htk
    rw [hrest, List.length_take]
    omega

theorem filter_valid_map {V : List Nat} (f : Nat → Runner)
    (hf : ∀ i, (f i).valid = decide (0 < V.getD i 0)) (rest : List Nat) :
    (rest.map f).filter (·.valid) = (rest.filter (fun i => decide (0 < V.getD i 0))).map f := by
  induction rest with
  | nil => rfl
  | cons a l ih =>
    simp only [List.map_cons, List.filter_cons, hf a]
    split <;> simp [ih]

theorem sum_filter_pos (f : Nat → Nat) (l : List Nat) :
    ((l.filter (fun i => decide (0 < f i))).map f).sum = (l.map f).sum := by
  induction l with
  | nil => rfl
  | cons a l ih =>
    simp only [List.filter_cons]
    split
    · simp only [List.map_cons, List.sum_cons, ih]
    · next hn =>
      have : f a = 0 := by simpa using hn
      simp only [List.map_cons, List.sum_cons, ih, this, Nat.zero_add]

theorem sum_map_div (f : Nat → Nat) (c : Rat) (l : List Nat) :
    (l.map (fun i => (f i : Rat) / c)).sum = (((l.map f).sum : Nat) : Rat) / c := by
  induction l with
  | nil => simp
  | cons a l ih => simp [ih, add_div]

end CTM.Election

namespace CTM.Election
open CTM.Numeric

section choose
variable {V : List Nat} {C : List Rat} {T : List Nat} {iters nA : Nat}
  {order : List Nat} {ch : Choice}

/-- the winner is a column with the most votes; its probability is its share of
    the iterations and its average correlation the mean over its votes -/
theorem chooseCols_winner (hv : ValidOrder V order)
    (h : chooseCols V C T iters nA order = .ok ch) :
    ∃ w, w < V.length ∧ ch.winner = T.getD w 0 ∧
      (∀ i, i < V.length → V.getD i 0 ≤ V.getD w 0) ∧
      ch.prob = (V.getD w 0 : Rat) / (iters : Rat) ∧
      (0 < V.getD w 0 → ch.avgCorr = C.getD w 0 / (V.getD w 0 : Rat)) := by
  obtain ⟨_, w, rest, tl2, ho, _, h1, h2, h3, _⟩ := chooseCols_form hv h
  subst ho
  refine ⟨w, hv.mem_lt (by simp), h1, hv.head_max, h2, ?_⟩
  intro hpos
  rw [h3, if_pos hpos]

theorem winner_votes_le_sum (hv : ValidOrder V order) {w : Nat} {tl : List Nat}
    (ho : order = w :: tl) : V.getD w 0 ≤ V.sum := by
  have := hv.sum_eq
  rw [ho] at this
  simp only [List.map_cons, List.sum_cons] at this
  omega

theorem winner_votes_pos (hv : ValidOrder V order) {w : Nat} {tl : List Nat}
    (ho : order = w :: tl) (hs : 0 < V.sum) : 0 < V.getD w 0 := by
  by_contra hz
  have hz : V.getD w 0 = 0 := by omega
  have : (order.map (fun i => V.getD i 0)).sum = 0 := by
    apply List.sum_eq_zero
    intro x hx
    obtain ⟨i, hi, rfl⟩ := List.mem_map.1 hx
    have := (ho ▸ hv).head_max i (hv.mem_lt hi)
    omega
  rw [hv.sum_eq] at this
  omega

/-- C03: the probability is a whole number of votes out of the iteration count,
    in (0, 1] -/
theorem chooseCols_prob (hv : ValidOrder V order)
    (h : chooseCols V C T iters nA order = .ok ch) (hsum : V.sum = iters) :
    ∃ k : Nat, ch.prob * (iters : Rat) = (k : Rat) ∧ 1 ≤ k ∧ k ≤ iters ∧
      0 < ch.prob ∧ ch.prob ≤ 1 := by
  obtain ⟨hit, w, rest, tl2, ho, _, _, h2, _, _⟩ := chooseCols_form hv h
  have hle := winner_votes_le_sum hv ho
  have hpos := winner_votes_pos hv ho (by omega)
  have hitq : (0 : Rat) < (iters : Rat) := by exact_mod_cast Nat.pos_of_ne_zero hit
  refine ⟨V.getD w 0, ?_, hpos, by omega, ?_, ?_⟩
  · rw [h2]; field_simp
  · rw [h2]; apply div_pos _ hitq; exact_mod_cast hpos
  · rw [h2, div_le_one hitq]; exact_mod_cast (by omega : V.getD w 0 ≤ iters)

end choose
end CTM.Election

namespace CTM.Election
open CTM.Numeric

section choose2
variable {V : List Nat} {C : List Rat} {T : List Nat} {iters nA : Nat}
  {order : List Nat} {ch : Choice}

/-- the kept runner-up lists in terms of the columns that follow the winner in
    the order -/
theorem keepRunners_form (hv : ValidOrder V order)
    (h : chooseCols V C T iters nA order = .ok ch) :
    iters ≠ 0 ∧ ∃ w rest tl2, order = w :: (rest ++ tl2) ∧ rest.length + 1 = min nA V.length ∧
      ch.winner = T.getD w 0 ∧ ch.prob = (V.getD w 0 : Rat) / (iters : Rat) ∧
      keepRunners ch.runners =
        (let k := rest.filter (fun i => decide (0 < V.getD i 0))
         (k.map (fun i => T.getD i 0),
          k.map (fun i => C.getD i 0 / ((if 0 < V.getD i 0 then V.getD i 0 else 1 : Nat) : Rat)),
          k.map (fun i => (V.getD i 0 : Rat) / (iters : Rat)))) := by
  obtain ⟨hit, w, rest, tl2, ho, hl, h1, h2, _, h4⟩ := chooseCols_form hv h
  refine ⟨hit, w, rest, tl2, ho, hl, h1, h2, ?_⟩
  unfold keepRunners
  rw [h4, filter_valid_map (V := V) _ (fun i => rfl)]
  simp only [List.map_map]
  rfl

/-- C03: the runner-up lists -/
theorem chooseCols_runners (hv : ValidOrder V order)
    (h : chooseCols V C T iters nA order = .ok ch) (hT : T.Nodup) (hTV : T.length = V.length) :
    (keepRunners ch.runners).1.length = (keepRunners ch.runners).2.1.length ∧
    (keepRunners ch.runners).2.1.length = (keepRunners ch.runners).2.2.length ∧
    (keepRunners ch.runners).1.length ≤ nA - 1 ∧
    (keepRunners ch.runners).1.Nodup ∧ ch.winner ∉ (keepRunners ch.runners).1 ∧
    (∀ a ∈ (keepRunners ch.runners).1, a ∈ T) ∧
    (∀ p ∈ (keepRunners ch.runners).2.2, 0 < p ∧ p ≤ ch.prob) ∧
    (keepRunners ch.runners).2.2.Pairwise (· ≥ ·) := by
  obtain ⟨hit, w, rest, tl2, ho, hl, h1, h2, hk⟩ := keepRunners_form hv h
  have hitq : (0 : Rat) < (iters : Rat) := by exact_mod_cast Nat.pos_of_ne_zero hit
  rw [hk]
  simp only [List.length_map]
  subst ho
  have hnd := hv.nodup
  have hpw := hv.2
  simp only [List.nodup_cons, List.nodup_append, List.mem_append, not_or] at hnd
  obtain ⟨⟨hwr, _⟩, hrest_nd, _, _⟩ := hnd
  have hsub : (rest.filter (fun i => decide (0 < V.getD i 0))).Sublist rest := List.filter_sublist
  have hklt : ∀ i ∈ rest.filter (fun i => decide (0 < V.getD i 0)), i < T.length := by
    intro i hi
    rw [hTV]
    exact hv.mem_lt (by simp [(List.mem_filter.1 hi).1])
  have hwlt : w < T.length := by rw [hTV]; exact hv.mem_lt (by simp)
  have hget : ∀ i, i < T.length → T.getD i 0 = T[i]! := by
    intro i hi; simp [List.getD, hi]
  refine ⟨trivial, trivial, ?_, ?_, ?_, ?_, ?_, ?_⟩
  · have := hsub.length_le
    omega
  · -- names distinct: injectivity of T on indices
    apply (hrest_nd.sublist hsub).map_on
    intro i hi j hj hij
    have hi' := hklt i hi
    have hj' := hklt j hj
    simp only [List.getD, List.getElem?_eq_getElem hi', List.getElem?_eq_getElem hj',
      Option.getD_some] at hij
    exact (hT.getElem_inj_iff).1 hij
  · rw [h1]
    intro hmem
    obtain ⟨i, hi, hij⟩ := List.mem_map.1 hmem
    have hi' := hklt i hi
    simp only [List.getD, List.getElem?_eq_getElem hi', List.getElem?_eq_getElem hwlt,
      Option.getD_some] at hij
    have := (hT.getElem_inj_iff).1 hij
    subst this
    exact hwr (List.mem_filter.1 hi).1
  · intro a ha
    obtain ⟨i, hi, rfl⟩ := List.mem_map.1 ha
    have hi' := hklt i hi
    simp only [List.getD, List.getElem?_eq_getElem hi', Option.getD_some]
    exact List.getElem_mem hi'
  · intro p hp
    obtain ⟨i, hi, rfl⟩ := List.mem_map.1 hp
    obtain ⟨hir, hpos⟩ := List.mem_filter.1 hi
    have hpos : 0 < V.getD i 0 := by simpa using hpos
    constructor
    · apply div_pos _ hitq; exact_mod_cast hpos
    · rw [h2]
      apply div_le_div_of_nonneg_right _ hitq.le
      have := hv.head_max i (hv.mem_lt (by simp [hir]))
      exact_mod_cast this
  · simp only [List.map_cons, List.map_append, List.pairwise_cons, List.pairwise_append] at hpw
    have hrp := hpw.2.1
    have : ((rest.filter (fun i => decide (0 < V.getD i 0))).map (fun i => V.getD i 0)).Pairwise
        (· ≥ ·) := (hrp.sublist (hsub.map _))
    rw [List.pairwise_map] at this ⊢
    apply this.imp
    intro a b hab
    apply div_le_div_of_nonneg_right _ hitq.le
    exact_mod_cast hab

end choose2
end CTM.Election

namespace CTM.Election
open CTM.Numeric

section choose3
variable {V : List Nat} {C : List Rat} {T : List Nat} {iters nA : Nat}
  {order : List Nat} {ch : Choice}

/-- C03: winner plus runners-up sum to at most 1, exactly 1 when every column
    could be listed -/
theorem chooseCols_sum (hv : ValidOrder V order)
    (h : chooseCols V C T iters nA order = .ok ch) (hsum : V.sum = iters) :
    ch.prob + (keepRunners ch.runners).2.2.sum ≤ 1 ∧
    (V.length ≤ nA → ch.prob + (keepRunners ch.runners).2.2.sum = 1) := by
  obtain ⟨hit, w, rest, tl2, ho, hl, _, h2, hk⟩ := keepRunners_form hv h
  have hitq : (0 : Rat) < (iters : Rat) := by exact_mod_cast Nat.pos_of_ne_zero hit
  rw [hk]
  simp only
  rw [sum_map_div (fun i => V.getD i 0), sum_filter_pos (fun i => V.getD i 0), h2, ← add_div]
  have hs := hv.sum_eq
  rw [ho] at hs
  simp only [List.map_cons, List.map_append, List.sum_cons, List.sum_append] at hs
  constructor
  · rw [div_le_one hitq]
    have : V.getD w 0 + (rest.map (fun i => V.getD i 0)).sum ≤ iters := by omega
    exact_mod_cast this
  · intro hn
    have hlen := hv.length_eq
    rw [ho] at hlen
    simp only [List.length_cons, List.length_append] at hlen
    have : tl2 = [] := by
      apply List.eq_nil_of_length_eq_zero
      rw [Nat.min_eq_right hn] at hl
      omega
    subst this
    simp only [List.map_nil, List.sum_nil, Nat.add_zero] at hs
    have : V.getD w 0 + (rest.map (fun i => V.getD i 0)).sum = iters := by omega
    rw [div_eq_one_iff_eq hitq.ne']
    exact_mod_cast this

/-- C02: the runners-up are the remaining vote-getting columns: a column other
    than the winner's that received votes is listed, unless the list was
    truncated (`nA < number of columns`), in which case it has no more votes
    than any listed runner-up -/
theorem chooseCols_runners_complete (hv : ValidOrder V order)
    (h : chooseCols V C T iters nA order = .ok ch) (i : Nat) (hi : i < V.length)
    (hne : T.getD i 0 ≠ ch.winner) (hpos : 0 < V.getD i 0) :
    T.getD i 0 ∈ (keepRunners ch.runners).1 ∨
    (nA < V.length ∧ ∀ p ∈ (keepRunners ch.runners).2.2, (V.getD i 0 : Rat) / (iters : Rat) ≤ p) := by
  obtain ⟨hit, w, rest, tl2, ho, hl, h1, _, hk⟩ := keepRunners_form hv h
  have hitq : (0 : Rat) < (iters : Rat) := by exact_mod_cast Nat.pos_of_ne_zero hit
  rw [hk]
  simp only
  have hmem := hv.mem_of_lt hi
  rw [ho] at hmem
  simp only [List.mem_cons, List.mem_append] at hmem
  rcases hmem with rfl | hr | ht
  · exact absurd h1.symm hne
  · left
    exact List.mem_map.2 ⟨i, List.mem_filter.2 ⟨hr, by simpa using hpos⟩, rfl⟩
  · right
    have hlen := hv.length_eq
    rw [ho] at hlen
    simp only [List.length_cons, List.length_append] at hlen
    have htl : 0 < tl2.length := List.length_pos_of_mem ht
    constructor
    · have : min nA V.length < V.length := by omega
      omega
    · intro p hp
      obtain ⟨j, hj, rfl⟩ := List.mem_map.1 hp
      have hjr := (List.mem_filter.1 hj).1
      have hpw := hv.2
      rw [ho] at hpw
      simp only [List.map_cons, List.map_append, List.pairwise_cons, List.pairwise_append] at hpw
      have := hpw.2.2.2 _ (List.mem_map.2 ⟨j, hjr, rfl⟩) _ (List.mem_map.2 ⟨i, ht, rfl⟩)
      apply div_le_div_of_nonneg_right _ hitq.le
      exact_mod_cast this

end choose3
end CTM.Election
namespace CTM.Election
open CTM.Numeric

/-! ### aggregate_votes -/

theorem mem_insertUniq (x a : Nat) : ∀ l : List Nat, a ∈ insertUniq x l ↔ a = x ∨ a ∈ l
  | [] => by simp [insertUniq]
  | y :: ys => by
    unfold insertUniq
    split
    · simp
    · split
      · next h => subst h; simp
      · simp [mem_insertUniq x a ys]; tauto

theorem mem_uniqSorted (a : Nat) : ∀ ts : List Nat, a ∈ uniqSorted ts ↔ a ∈ ts
  | [] => by simp [uniqSorted]
  | t :: ts => by
    have ih := mem_uniqSorted a ts
    simp only [uniqSorted, List.foldr_cons] at ih ⊢
    rw [mem_insertUniq, ih]; simp

theorem sorted_insertUniq (x : Nat) : ∀ l : List Nat, l.Pairwise (· < ·) →
    (insertUniq x l).Pairwise (· < ·)
  | [], _ => by simp [insertUniq]
  | y :: ys, h => by
    unfold insertUniq
    rw [List.pairwise_cons] at h
    split
    · next hlt =>
      rw [List.pairwise_cons]
      refine ⟨?_, List.pairwise_cons.2 h⟩
      intro a ha
      rcases List.mem_cons.1 ha with rfl | ha
      · exact hlt
      · exact lt_trans hlt (h.1 a ha)
    · split
      · exact List.pairwise_cons.2 h
      · next h1 h2 =>
        rw [List.pairwise_cons]
        refine ⟨?_, sorted_insertUniq x ys h.2⟩
        intro a ha
        rcases (mem_insertUniq x a ys).1 ha with rfl | ha
        · omega
        · exact h.1 a ha

/-- `unq_types` is strictly increasing (sorted, duplicate free) -/
theorem sorted_uniqSorted : ∀ ts : List Nat, (uniqSorted ts).Pairwise (· < ·)
  | [] => by simp [uniqSorted]
  | t :: ts => by
    have ih := sorted_uniqSorted ts
    simp only [uniqSorted, List.foldr_cons] at ih ⊢
    exact sorted_insertUniq t _ ih

theorem nodup_uniqSorted (ts : List Nat) : (uniqSorted ts).Nodup :=
  (sorted_uniqSorted ts).imp (fun h => Nat.ne_of_lt h)

theorem length_insertUniq (x : Nat) : ∀ l : List Nat, l.Pairwise (· < ·) →
    (insertUniq x l).length = if x ∈ l then l.length else l.length + 1
  | [], _ => by simp [insertUniq]
  | y :: ys, h => by
    unfold insertUniq
    rw [List.pairwise_cons] at h
    split
    · next hlt =>
      have : x ∉ y :: ys := by
        intro hm
        rcases List.mem_cons.1 hm with rfl | hm
        · omega
        · have := h.1 x hm; omega
      simp [this]
    · split
      · next heq => simp [heq]
      · next h1 h2 =>
        have ih := length_insertUniq x ys h.2
        have hxy : x ≠ y := h2
        simp only [List.length_cons, ih, List.mem_cons, hxy, false_or]
        split <;> rfl

theorem length_uniqSorted_le : ∀ ts : List Nat, (uniqSorted ts).length ≤ ts.length
  | [] => by simp [uniqSorted]
  | t :: ts => by
    have ih := length_uniqSorted_le ts
    have hs := sorted_uniqSorted ts
    simp only [uniqSorted, List.foldr_cons] at ih hs ⊢
    rw [length_insertUniq t _ hs]
    split <;> simp <;> omega

/-- no type repeats iff deduplication does not shorten the list -/
theorem nodup_of_length_uniqSorted : ∀ ts : List Nat,
    ¬ (uniqSorted ts).length < ts.length → ts.Nodup
  | [], _ => List.nodup_nil
  | t :: ts, h => by
    have hle := length_uniqSorted_le ts
    have hs := sorted_uniqSorted ts
    have hm := mem_uniqSorted t ts
    simp only [uniqSorted, List.foldr_cons] at h hle hs hm
    rw [length_insertUniq t _ hs] at h
    rw [List.nodup_cons]
    by_cases hmem : t ∈ ts
    · rw [if_pos (hm.2 hmem)] at h
      simp only [List.length_cons] at h
      omega
    · refine ⟨hmem, nodup_of_length_uniqSorted ts ?_⟩
      rw [if_neg (fun hc => hmem (hm.1 hc))] at h
      simp only [List.length_cons, uniqSorted] at h ⊢
      omega

end CTM.Election

namespace CTM.Election
open CTM.Numeric

theorem sum_ite_eq_of_nodup {α} [AddCommMonoid α] (k : Nat) (c : α) : ∀ U : List Nat,
    U.Nodup → k ∈ U → (U.map (fun t => if k = t then c else 0)).sum = c
  | [], _, hk => by simp at hk
  | u :: U, hnd, hk => by
    rw [List.nodup_cons] at hnd
    simp only [List.map_cons, List.sum_cons]
    by_cases h : k = u
    · subst h
      have : (U.map (fun t => if k = t then c else 0)).sum = 0 := by
        apply List.sum_eq_zero
        intro x hx
        obtain ⟨t, ht, rfl⟩ := List.mem_map.1 hx
        have : k ≠ t := fun e => hnd.1 (e ▸ ht)
        simp [this]
      simp [this]
    · have hk' : k ∈ U := by
        rcases List.mem_cons.1 hk with rfl | h'
        · exact absurd rfl h
        · exact h'
      simp [h, sum_ite_eq_of_nodup k c U hnd.2 hk']

/-- grouping a sum by a key: summing, over the distinct keys, the terms that
    carry that key gives back the whole sum -/
theorem sum_grouped {α} [AddCommMonoid α] (key : Nat → Nat) (f : Nat → α) (U : List Nat)
    (hU : U.Nodup) : ∀ idxs : List Nat, (∀ i ∈ idxs, key i ∈ U) →
    (U.map (fun t => ((idxs.filter (fun i => key i == t)).map f).sum)).sum = (idxs.map f).sum
  | [], _ => by
    apply List.sum_eq_zero
    intro x hx
    obtain ⟨t, _, rfl⟩ := List.mem_map.1 hx
    simp
  | i :: idxs, h => by
    have ih := sum_grouped key f U hU idxs (fun j hj => h j (by simp [hj]))
    have : (U.map (fun t => (((i :: idxs).filter (fun i => key i == t)).map f).sum)) =
        U.map (fun t => (if key i = t then f i else 0) +
          ((idxs.filter (fun i => key i == t)).map f).sum) := by
      apply List.map_congr_left
      intro t _
      by_cases hk : key i = t <;> simp [List.filter_cons, hk]
    rw [this, List.sum_map_add, ih, sum_ite_eq_of_nodup (key i) (f i) U hU (h i (by simp))]
    simp

theorem map_getD_range_rat (V : List Rat) :
    (List.range V.length).map (fun i => V.getD i 0) = V := by
  apply List.ext_getElem
  · simp
  · intro i h1 h2
    simp at h1
    simp [List.getD, h1]

/-- `aggregate_votes` loses and invents no vote: the aggregated votes sum to
    the leaf votes (one vote array entry per leaf) -/
theorem aggregateVotes_sum (types votes : List Nat) (corr : List Rat)
    (hlen : votes.length = types.length) :
    (aggregateVotes types votes corr).1.sum = votes.sum := by
  unfold aggregateVotes colsOf
  simp only
  rw [sum_grouped (fun i => types.getD i 0) (fun i => votes.getD i 0) _ (nodup_uniqSorted types)]
  · rw [← hlen, map_getD_range]
  · intro i hi
    rw [mem_uniqSorted]
    have hi : i < types.length := by simpa using hi
    simp [List.getD, hi]

theorem aggregateVotes_corr_sum (types votes : List Nat) (corr : List Rat)
    (hlen : corr.length = types.length) :
    (aggregateVotes types votes corr).2.1.sum = corr.sum := by
  unfold aggregateVotes colsOf
  simp only
  rw [sum_grouped (fun i => types.getD i 0) (fun i => corr.getD i 0) _ (nodup_uniqSorted types)]
  · rw [← hlen, map_getD_range_rat]
  · intro i hi
    rw [mem_uniqSorted]
    have hi : i < types.length := by simpa using hi
    simp [List.getD, hi]

/-! ### the columns `choose_node` works on -/

theorem columns_types_nodup (types votes : List Nat) (corr : List Rat) :
    (columns types votes corr).2.2.Nodup := by
  unfold columns
  split
  · exact nodup_uniqSorted types
  · next h =>
    apply nodup_of_length_uniqSorted
    simpa [hasDupTypes] using h

theorem columns_types_mem (types votes : List Nat) (corr : List Rat) (a : Nat) :
    a ∈ (columns types votes corr).2.2 ↔ a ∈ types := by
  unfold columns
  split
  · exact mem_uniqSorted a types
  · rfl

theorem columns_length (types votes : List Nat) (corr : List Rat)
    (hlen : votes.length = types.length) :
    (columns types votes corr).2.2.length = (columns types votes corr).1.length := by
  unfold columns
  split
  · simp [aggregateVotes]
  · exact hlen.symm

theorem columns_sum (types votes : List Nat) (corr : List Rat)
    (hlen : votes.length = types.length) :
    (columns types votes corr).1.sum = votes.sum := by
  unfold columns
  split
  · exact aggregateVotes_sum types votes corr hlen
  · rfl

end CTM.Election
namespace CTM.Election
open CTM.Numeric

/-! ### the post-loops of run_type_assignment -/

/-- correlation of the nearest level above level `k` where a choice was made -/
def corrAbove (recs : List LevelRec) (k : Nat) : Option Rat :=
  (recs.take k).reverse.findSome? (·.avgCorr)

/-- correlation of the nearest level below level `k` where a choice was made -/
def corrBelow (recs : List LevelRec) (k : Nat) : Option Rat :=
  (recs.drop (k + 1)).findSome? (·.avgCorr)

theorem corrAbove_cons_succ (r : LevelRec) (rs : List LevelRec) (k : Nat) :
    corrAbove (r :: rs) (k + 1) = (corrAbove rs k).or r.avgCorr := by
  simp [corrAbove, List.findSome?_append]

theorem fillDown_length : ∀ (prev : Option Rat) (recs : List LevelRec),
    (fillDown prev recs).length = recs.length
  | _, [] => rfl
  | prev, r :: rs => by simp [fillDown, fillDown_length]

theorem fillUp_length : ∀ (recs : List LevelRec), (fillUp recs).length = recs.length
  | [] => rfl
  | r :: rs => by simp [fillUp, fillUp_length rs]

theorem fillDown_getElem? : ∀ (recs : List LevelRec) (prev : Option Rat) (k : Nat),
    (fillDown prev recs)[k]? = (recs[k]?).map (fun r =>
      { r with avgCorr := (r.avgCorr.or (corrAbove recs k)).or prev })
  | [], _, _ => by simp [fillDown]
  | r :: rs, prev, 0 => by
    simp only [fillDown, List.getElem?_cons_zero, Option.map_some, corrAbove, List.take_zero,
      List.reverse_nil, List.findSome?_nil, Option.or_none]
    cases r.avgCorr <;> simp
  | r :: rs, prev, k + 1 => by
    simp only [fillDown, List.getElem?_cons_succ]
    rw [fillDown_getElem? rs _ k]
    congr 1
    funext r'
    rw [corrAbove_cons_succ]
    cases r'.avgCorr <;> cases corrAbove rs k <;> cases r.avgCorr <;> simp

theorem fillUp_head (rs : List LevelRec) :
    (match fillUp rs with | [] => none | r' :: _ => r'.avgCorr) = rs.findSome? (·.avgCorr) := by
  cases rs with
  | nil => simp [fillUp]
  | cons r rs =>
    simp only [fillUp, List.findSome?_cons]
    cases h : r.avgCorr with
    | some c => simp
    | none =>
      simp only
      exact fillUp_head rs

theorem fillUp_getElem? : ∀ (recs : List LevelRec) (k : Nat),
    (fillUp recs)[k]? = (recs[k]?).map (fun r =>
      { r with avgCorr := r.avgCorr.or ((recs.drop (k + 1)).findSome? (·.avgCorr)) })
  | [], _ => by simp [fillUp]
  | r :: rs, 0 => by
    simp only [fillUp, List.getElem?_cons_zero, Option.map_some, List.drop_succ_cons,
      List.drop_zero]
    rw [← fillUp_head rs]
    cases r.avgCorr <;> simp <;> rfl
  | r :: rs, k + 1 => by
    simp only [fillUp, List.getElem?_cons_succ, List.drop_succ_cons]
    exact fillUp_getElem? rs k

theorem fillDown_prob : ∀ (prev : Option Rat) (recs : List LevelRec),
    (fillDown prev recs).map (·.prob) = recs.map (·.prob)
  | _, [] => rfl
  | prev, r :: rs => by simp [fillDown, fillDown_prob]

theorem fillUp_prob : ∀ (recs : List LevelRec), (fillUp recs).map (·.prob) = recs.map (·.prob)
  | [] => rfl
  | r :: rs => by simp [fillUp, fillUp_prob rs]

/-- the first level with a correlation is the same before and after the
    top-down fill (started with nothing to copy) -/
theorem findSome_fillDown_none : ∀ recs : List LevelRec,
    (fillDown none recs).findSome? (·.avgCorr) = recs.findSome? (·.avgCorr)
  | [] => rfl
  | r :: rs => by
    simp only [fillDown, List.findSome?_cons]
    cases h : r.avgCorr with
    | some c => simp
    | none => simp only; exact findSome_fillDown_none rs

theorem fillDown_append : ∀ (A B : List LevelRec) (prev : Option Rat),
    fillDown prev (A ++ B) =
      fillDown prev A ++ fillDown ((A.reverse.findSome? (·.avgCorr)).or prev) B
  | [], B, prev => by simp [fillDown]
  | a :: A, B, prev => by
    simp only [List.cons_append, fillDown, List.reverse_cons, List.findSome?_append]
    rw [fillDown_append A B]
    cases h : a.avgCorr <;> cases h2 : (A.reverse.findSome? (·.avgCorr)) <;> simp [h]

theorem runningProduct_length : ∀ (a : Rat) (ps : List Rat), (runningProduct a ps).length = ps.length
  | _, [] => rfl
  | a, p :: ps => by simp [runningProduct, runningProduct_length]

/-- the k-th running product is the start value times the first k+1 factors -/
theorem runningProduct_getElem? : ∀ (ps : List Rat) (a : Rat) (k : Nat), k < ps.length →
    (runningProduct a ps)[k]? = some (a * (ps.take (k + 1)).prod)
  | [], _, _, h => by simp at h
  | p :: ps, a, 0, _ => by simp [runningProduct]
  | p :: ps, a, k + 1, h => by
    simp only [runningProduct, List.getElem?_cons_succ]
    rw [runningProduct_getElem? ps (a * p) k (by simpa using h)]
    simp [List.take_succ_cons, mul_assoc]

end CTM.Election

namespace CTM.Election
open CTM.Numeric

theorem finishCell_length (recs : List LevelRec) : (finishCell recs).length = recs.length := by
  simp [finishCell, fillUp_length, fillDown_length, runningProduct_length]

/-- the correlation after both fills, in terms of the records of the level loop -/
theorem filled_corr (recs : List LevelRec) (k : Nat) (hk : k < recs.length) :
    (fillUp (fillDown none recs))[k]? = some
      { recs[k] with avgCorr := ((recs[k].avgCorr.or (corrAbove recs k)).or (corrBelow recs k)) } := by
  rw [fillUp_getElem?, fillDown_getElem?, List.getElem?_eq_getElem hk]
  simp only [Option.map_some, Option.or_none]
  congr 2
  cases hX : (recs[k].avgCorr.or (corrAbove recs k)) with
  | some c => simp
  | none =>
    simp only [Option.none_or]
    -- everything up to and including level k has no correlation
    have hsplit : recs = recs.take (k + 1) ++ recs.drop (k + 1) := (List.take_append_drop _ _).symm
    have hlen : (fillDown none (recs.take (k + 1))).length = k + 1 := by
      rw [fillDown_length, List.length_take]; omega
    have hnone : (recs.take (k + 1)).reverse.findSome? (·.avgCorr) = none := by
      rw [List.take_succ_eq_append_getElem hk]
      simp only [List.reverse_append, List.reverse_cons, List.reverse_nil, List.nil_append,
        List.findSome?_append, List.cons_append, List.findSome?_cons, List.findSome?_nil]
      have h1 : recs[k].avgCorr = none := by
        cases h : recs[k].avgCorr with
        | none => rfl
        | some c => simp [h] at hX
      have h2 : corrAbove recs k = none := by
        cases h : corrAbove recs k with
        | none => rfl
        | some c => simp [h, h1] at hX
      unfold corrAbove at h2
      simp [h1, h2]
    conv => lhs; rw [hsplit, fillDown_append, hnone]
    rw [List.drop_left' hlen]
    simp only [Option.or_none]
    rw [findSome_fillDown_none]
    rfl

end CTM.Election

namespace CTM.Election
open CTM.Numeric

/-- every field of a finished level in terms of the records of the level loop -/
theorem finishCell_getElem? (recs : List LevelRec) (k : Nat) (hk : k < recs.length) :
    (finishCell recs)[k]? = some
      { assignment := recs[k].assignment, prob := recs[k].prob,
        avgCorr := ((recs[k].avgCorr.or (corrAbove recs k)).or (corrBelow recs k)),
        aggregate := ((recs.map (·.prob)).take (k + 1)).prod,
        runners := some (recs[k].runnerAssignment, recs[k].runnerCorrelation,
          recs[k].runnerProbability),
        directlyAssigned := true } := by
  have h1 := filled_corr recs k hk
  have hp : (fillUp (fillDown none recs)).map (·.prob) = recs.map (·.prob) := by
    rw [fillUp_prob, fillDown_prob]
  have h2 : (runningProduct 1 ((fillUp (fillDown none recs)).map (·.prob)))[k]? =
      some (((recs.map (·.prob)).take (k + 1)).prod) := by
    rw [hp, runningProduct_getElem? _ _ _ (by simpa using hk), one_mul]
  unfold finishCell
  simp only [List.getElem?_map]
  rw [List.getElem?_zip_eq_some (z := (_, _)) |>.2 ⟨h1, h2⟩]
  rfl

end CTM.Election
namespace CTM.Election
open CTM.Numeric

/-! ### backfill_assignments -/

/-- what `backfill_assignments` writes at an inferred level: the record of
    the level below with the parent's name, no runner-up fields, not directly
    assigned -/
def inferredFrom (c : OutRec) (p : Nat) : OutRec :=
  { c with assignment := p, runners := none, directlyAssigned := false }

theorem inferStep_spec {parentOf : Nat → Nat → Option Nat} {cell cell' : Cell} {cl pl : Nat}
    (h : inferStep parentOf cell cl pl = .ok cell') :
    cell' = cell ∨ (cell.lookup pl = none ∧ ∃ c p, cell.lookup cl = some c ∧
      parentOf cl c.assignment = some p ∧ cell' = cell ++ [(pl, inferredFrom c p)]) := by
  unfold inferStep at h
  split at h
  · left; cases h; rfl
  · next hpl =>
    split at h
    · left; cases h; rfl
    · next c hc =>
      split at h
      · cases h
      · next p hp =>
        right
        cases h
        refine ⟨?_, c, p, hc, hp, rfl⟩
        cases hl : List.lookup pl cell with
        | none => rfl
        | some v => simp [hl] at hpl

theorem lookup_append_of_some {cell extra : Cell} {l : Nat} {r : OutRec}
    (h : cell.lookup l = some r) : (cell ++ extra).lookup l = some r := by
  rw [List.lookup_append, h]; rfl

/-- invariant of the bottom-up loop of `backfill_assignments` -/
theorem inferLoop_spec (parentOf : Nat → Nat → Option Nat) :
    ∀ (ps : List (Nat × Nat)) (cell cell' : Cell),
    ps.foldlM (fun c (p : Nat × Nat) => inferStep parentOf c p.1 p.2) cell = .ok cell' →
    (∀ l r, cell.lookup l = some r → cell'.lookup l = some r) ∧
    (∀ e ∈ cell', e ∈ cell ∨ ∃ cl c p, (cl, e.1) ∈ ps ∧ cell'.lookup cl = some c ∧
      parentOf cl c.assignment = some p ∧ e.2 = inferredFrom c p)
  | [], cell, cell', h => by
    simp only [List.foldlM_nil, pure, Except.pure, Except.ok.injEq] at h
    subst h
    exact ⟨fun _ _ h => h, fun e he => Or.inl he⟩
  | (cl, pl) :: ps, cell, cell', h => by
    simp only [List.foldlM_cons, bind, Except.bind] at h
    split at h
    · cases h
    · next cell1 h1 =>
      obtain ⟨ih1, ih2⟩ := inferLoop_spec parentOf ps cell1 cell' h
      rcases inferStep_spec h1 with rfl | ⟨hnone, c, p, hc, hp, rfl⟩
      · refine ⟨ih1, ?_⟩
        intro e he
        rcases ih2 e he with h' | ⟨cl', c', p', hm, hl, hp', he'⟩
        · exact Or.inl h'
        · exact Or.inr ⟨cl', c', p', List.mem_cons_of_mem _ hm, hl, hp', he'⟩
      · refine ⟨fun l r hl => ih1 l r (lookup_append_of_some hl), ?_⟩
        intro e he
        rcases ih2 e he with h' | ⟨cl', c', p', hm, hl, hp', he'⟩
        · rcases List.mem_append.1 h' with h'' | h''
          · exact Or.inl h''
          · right
            simp only [List.mem_singleton] at h''
            subst h''
            exact ⟨cl, c, p, by simp, ih1 _ _ (lookup_append_of_some hc), hp, rfl⟩
        · exact Or.inr ⟨cl', c', p', List.mem_cons_of_mem _ hm, hl, hp', he'⟩

end CTM.Election
namespace CTM.Numeric

/-! ### equality case of Cauchy–Schwarz: perfect correlation = positive affine image -/

theorem sum_map_affine (a b : Rat) : ∀ x : List Rat,
    (x.map (fun v => a * v + b)).sum = a * x.sum + b * (x.length : Rat)
  | [] => by simp
  | v :: x => by
    simp only [List.map_cons, List.sum_cons, List.length_cons, sum_map_affine a b x]
    push_cast; ring

theorem mean_map_affine (a b : Rat) (x : List Rat) (hx : x ≠ []) :
    mean (x.map (fun v => a * v + b)) = a * mean x + b := by
  have hn : (x.length : Rat) ≠ 0 := by
    have : x.length ≠ 0 := fun h => hx (List.eq_nil_of_length_eq_zero h)
    exact_mod_cast this
  unfold mean
  rw [sum_map_affine, List.length_map]
  field_simp

theorem center_map_affine (a b : Rat) (x : List Rat) (hx : x ≠ []) :
    center (x.map (fun v => a * v + b)) = (center x).map (fun v => a * v) := by
  unfold center
  rw [mean_map_affine a b x hx, List.map_map, List.map_map]
  apply List.map_congr_left
  intro v _
  simp only [Function.comp]
  ring

theorem dot_map_mul_right (a : Rat) : ∀ u v : List Rat,
    dot u (v.map (fun t => a * t)) = a * dot u v
  | [], v => by simp [dot_nil_left]
  | _ :: _, [] => by simp [dot_nil_right]
  | p :: u, q :: v => by
    simp only [List.map_cons, dot_cons, dot_map_mul_right a u v]; ring

theorem dot_map_mul_left (a : Rat) (u v : List Rat) :
    dot (u.map (fun t => a * t)) v = a * dot u v := by
  rw [dot_comm, dot_map_mul_right, dot_comm]

theorem var_pos_of_ne {x : List Rat} (h : var x ≠ 0) : 0 < var x :=
  lt_of_le_of_ne (var_nonneg x) (Ne.symm h)

theorem ne_nil_of_var_ne {x : List Rat} (h : var x ≠ 0) : x ≠ [] := by
  rintro rfl
  exact h (by simp [var, cov, center, dot])

/-- a positive affine image of a non-constant row is perfectly correlated with it -/
theorem corrSsq_affine (x : List Rat) (a b : Rat) (ha : 0 < a) (hx : var x ≠ 0) :
    corrSsq x (x.map (fun v => a * v + b)) = 1 := by
  have hne := ne_nil_of_var_ne hx
  have hpos := var_pos_of_ne hx
  have hc : cov x (x.map (fun v => a * v + b)) = a * var x := by
    unfold cov; rw [center_map_affine a b x hne, dot_map_mul_right]; rfl
  have hv : var (x.map (fun v => a * v + b)) = a * a * var x := by
    unfold var cov; rw [center_map_affine a b x hne, dot_map_mul_right, dot_map_mul_left]
    ring
  have hvne : var (x.map (fun v => a * v + b)) ≠ 0 := by
    rw [hv]; positivity
  have hcpos : 0 ≤ a * var x := by positivity
  have hnx : normSq x = var x := by simp [normSq, hx]
  have hny : normSq (x.map (fun v => a * v + b)) = a * a * var x := by
    unfold normSq; rw [if_neg hvne, hv]
  simp only [corrSsq, hnx, hny, hc, if_pos hcpos]
  field_simp

theorem dot_self_eq_zero : ∀ d : List Rat, dot d d = 0 → ∀ e ∈ d, e = 0
  | [], _ => by simp
  | p :: d, h => by
    rw [dot_cons] at h
    have h1 := dot_self_nonneg d
    have h2 := mul_self_nonneg p
    have hp : p * p = 0 := by linarith
    have hd : dot d d = 0 := by linarith
    intro e he
    rcases List.mem_cons.1 he with rfl | he
    · exact mul_self_eq_zero.1 hp
    · exact dot_self_eq_zero d hd e he

theorem dot_residual (a : Rat) : ∀ u v : List Rat, u.length = v.length →
    dot (List.zipWith (fun q p => q - a * p) v u) (List.zipWith (fun q p => q - a * p) v u) =
      dot v v - 2 * a * dot u v + a * a * dot u u
  | [], [], _ => by simp [dot]
  | [], _ :: _, h => by simp at h
  | _ :: _, [], h => by simp at h
  | p :: u, q :: v, h => by
    simp only [List.zipWith_cons_cons, dot_cons]
    rw [dot_residual a u v (by simpa using h)]
    ring

theorem eq_map_of_residual_zero (a : Rat) : ∀ u v : List Rat, u.length = v.length →
    (∀ e ∈ List.zipWith (fun q p => q - a * p) v u, e = 0) → v = u.map (fun p => a * p)
  | [], [], _, _ => rfl
  | [], _ :: _, h, _ => by simp at h
  | _ :: _, [], h, _ => by simp at h
  | p :: u, q :: v, h, hz => by
    simp only [List.zipWith_cons_cons, List.mem_cons, forall_eq_or_imp] at hz
    rw [List.map_cons, eq_map_of_residual_zero a u v (by simpa using h) hz.2]
    congr 1
    linarith [hz.1]

/-- perfect correlation forces a positive affine relation (equality case of
    Cauchy–Schwarz) -/
theorem affine_of_corrSsq_eq_one (x y : List Rat) (hlen : x.length = y.length)
    (hx : var x ≠ 0) (h : corrSsq x y = 1) :
    ∃ a b : Rat, 0 < a ∧ y = x.map (fun v => a * v + b) := by
  have hvx := var_pos_of_ne hx
  have hN : 0 < normSq x * normSq y := mul_pos (normSq_pos x) (normSq_pos y)
  have hnx : normSq x = var x := by simp [normSq, hx]
  have hvy : var y ≠ 0 := by
    intro h0
    rw [corrSsq_const_right x y h0] at h
    exact zero_ne_one h
  have hny : normSq y = var y := by simp [normSq, hvy]
  unfold corrSsq at h
  simp only at h
  rw [div_eq_one_iff_eq hN.ne'] at h
  have hc0 : 0 ≤ cov x y := by
    by_contra hneg
    rw [if_neg hneg] at h
    nlinarith [mul_self_nonneg (cov x y)]
  rw [if_pos hc0, hnx, hny] at h
  have hvy' := var_pos_of_ne hvy
  have hcpos : 0 < cov x y := by
    rcases hc0.eq_or_lt with h0 | h0
    · rw [← h0] at h; nlinarith
    · exact h0
  obtain ⟨a, ha⟩ : ∃ a, a = cov x y / var x := ⟨_, rfl⟩
  have hapos : 0 < a := ha ▸ div_pos hcpos hvx
  refine ⟨a, mean y - a * mean x, hapos, ?_⟩
  have hlenc : (center x).length = (center y).length := by simp [center, hlen]
  have hres := dot_residual a (center x) (center y) hlenc
  have hzero : dot (center y) (center y) - 2 * a * dot (center x) (center y) +
      a * a * dot (center x) (center x) = 0 := by
    have e1 : dot (center x) (center y) = cov x y := rfl
    have e2 : dot (center x) (center x) = var x := rfl
    have e3 : dot (center y) (center y) = var y := rfl
    rw [e1, e2, e3, ha]
    field_simp
    nlinarith
  rw [hzero] at hres
  have hall := dot_self_eq_zero _ hres
  have hcy := eq_map_of_residual_zero a (center x) (center y) hlenc hall
  -- un-centre
  unfold center at hcy
  have hy : y = (y.map (· - mean y)).map (· + mean y) := by
    rw [List.map_map]
    conv => lhs; rw [← List.map_id y]
    apply List.map_congr_left
    intro v _; simp
  have h2 : (y.map (· - mean y)).map (· + mean y) =
      x.map (fun v => a * v + (mean y - a * mean x)) := by
    rw [hcy, List.map_map, List.map_map]
    apply List.map_congr_left
    intro v _
    simp only [Function.comp]
    ring
  exact hy.trans h2

end CTM.Numeric
namespace CTM.Numeric

/-- a reference row that is perfectly correlated with the query row, while no
    other row is, is the nearest leaf -/
theorem nearestLeaf_home (refs : List (List Rat)) (x : List Rat) (l : Nat)
    (hl : l < refs.length) (h1 : corrSsq refs[l] x = 1)
    (hother : ∀ (j : Nat) (hj : j < refs.length), j ≠ l → corrSsq refs[j] x ≠ 1) :
    nearestLeaf refs x = some (l, 1) := by
  cases hn : nearestLeaf refs x with
  | none =>
    rw [nearestLeaf_eq_none] at hn
    subst hn
    simp at hl
  | some r =>
    obtain ⟨i, s⟩ := r
    obtain ⟨hi, hs, hmax, _⟩ := nearestLeaf_spec refs x i s hn
    have h2 := hmax l hl
    rw [h1] at h2
    have h3 := corrSsq_le_one refs[i] x
    rw [← hs] at h3
    have hs1 : s = 1 := le_antisymm h3 h2
    have : i = l := by
      by_contra hne
      exact hother i hi hne (by rw [← hs, hs1])
    rw [this, hs1]

end CTM.Numeric

namespace CTM.Election
open CTM.Numeric

/-- one bootstrap iteration sends a centroid home: if on the subset `s` the
    query row is perfectly correlated with leaf `l`'s mean row and with no other
    leaf's, the iteration votes for `l` with (squared) correlation 1 -/
theorem tallyIter_home (refs : List (List Rat)) (x : List Rat) (s : List Nat) (l : Nat)
    (hl : l < refs.length) (hs : ∀ i ∈ s, i < x.length)
    (hsr : ∀ m ∈ refs, ∀ i ∈ s, i < m.length)
    (h1 : corrSsq (pick s refs[l]) (pick s x) = 1)
    (hother : ∀ (j : Nat) (hj : j < refs.length), j ≠ l →
      corrSsq (pick s refs[j]) (pick s x) ≠ 1) :
    tallyIter refs x s = .ok (l, 1) := by
  unfold tallyIter
  have c1 : s.all (· < x.length) = true := by simpa using hs
  have c2 : refs.all (fun m => s.all (· < m.length)) = true := by simpa using hsr
  simp only [c1, c2, Bool.not_true, Bool.or_self, Bool.false_eq_true, if_false]
  have hl' : l < (refs.map (pick s)).length := by simpa using hl
  rw [nearestLeaf_home (refs.map (pick s)) (pick s x) l hl' (by simpa using h1)
    (by intro j hj hne; simpa using hother j (by simpa using hj) hne)]

theorem countLeaf_unanimous (rows : List (Nat × Rat)) (l : Nat) (h : ∀ r ∈ rows, r.1 = l)
    (j : Nat) : countLeaf rows j = if j = l then rows.length else 0 := by
  unfold countLeaf
  split
  · next hj =>
    subst hj
    rw [List.filter_eq_self.2 (by intro r hr; simpa using h r hr)]
  · next hj =>
    rw [List.filter_eq_nil_iff.2 (by intro r hr; simp [h r hr]; exact fun e => hj e.symm)]
    rfl

theorem corrOfLeaf_unanimous (rows : List (Nat × Rat)) (l : Nat) (c : Rat)
    (h : ∀ r ∈ rows, r.1 = l ∧ r.2 = c)
    (j : Nat) : corrOfLeaf rows j = if j = l then (rows.length : Rat) * c else 0 := by
  unfold corrOfLeaf
  split
  · next hj =>
    subst hj
    rw [List.filter_eq_self.2 (by intro r hr; simpa using (h r hr).1)]
    have : rows.map (·.2) = List.replicate rows.length c := by
      apply List.eq_replicate_iff.2
      refine ⟨by simp, ?_⟩
      intro b hb
      obtain ⟨r, hr, rfl⟩ := List.mem_map.1 hb
      exact (h r hr).2
    rw [this, List.sum_replicate]
    simp
  · next hj =>
    rw [List.filter_eq_nil_iff.2 (by intro r hr; simp [(h r hr).1]; exact fun e => hj e.symm)]
    rfl

end CTM.Election

namespace CTM.Election
open CTM.Numeric

theorem keepRunners_form' {V : List Nat} {C : List Rat} {T : List Nat} {iters nA : Nat}
    {order : List Nat} {ch : Choice} (hv : ValidOrder V order)
    (h : chooseCols V C T iters nA order = .ok ch) :
    iters ≠ 0 ∧ ∃ w rest tl2, order = w :: (rest ++ tl2) ∧
      ch.winner = T.getD w 0 ∧ ch.prob = (V.getD w 0 : Rat) / (iters : Rat) ∧
      ch.avgCorr = C.getD w 0 / ((if 0 < V.getD w 0 then V.getD w 0 else 1 : Nat) : Rat) ∧
      (keepRunners ch.runners).1 =
        (rest.filter (fun i => decide (0 < V.getD i 0))).map (fun i => T.getD i 0) ∧
      (keepRunners ch.runners).2.1 =
        (rest.filter (fun i => decide (0 < V.getD i 0))).map
          (fun i => C.getD i 0 / ((if 0 < V.getD i 0 then V.getD i 0 else 1 : Nat) : Rat)) ∧
      (keepRunners ch.runners).2.2 =
        (rest.filter (fun i => decide (0 < V.getD i 0))).map
          (fun i => (V.getD i 0 : Rat) / (iters : Rat)) := by
  obtain ⟨hit, w, rest, tl2, ho, hl, h1, h2, h3, h4⟩ := chooseCols_form hv h
  refine ⟨hit, w, rest, tl2, ho, h1, h2, h3, ?_⟩
  unfold keepRunners
  rw [h4, filter_valid_map (V := V) _ (fun i => rfl)]
  simp only [List.map_map]
  exact ⟨rfl, rfl, rfl⟩

/-- if a single column holds all the votes, it wins with probability 1, its
    average correlation is the mean of its correlation sum, and no runner-up is
    kept -/
theorem chooseCols_unanimous {V : List Nat} {C : List Rat} {T : List Nat} {iters nA : Nat}
    {order : List Nat} {ch : Choice} (hv : ValidOrder V order)
    (h : chooseCols V C T iters nA order = .ok ch) (c : Rat)
    (w0 : Nat) (hw0 : w0 < V.length) (hV : V.getD w0 0 = iters)
    (hC : C.getD w0 0 = (iters : Rat) * c)
    (hzero : ∀ j, j < V.length → j ≠ w0 → V.getD j 0 = 0) :
    ch.winner = T.getD w0 0 ∧ ch.prob = 1 ∧ ch.avgCorr = c ∧
      keepRunners ch.runners = ([], [], []) := by
  obtain ⟨hit, w, rest, tl2, ho, h1, h2, h3, k1, k2, k3⟩ := keepRunners_form' hv h
  have hitpos : 0 < iters := Nat.pos_of_ne_zero hit
  have hitq : (iters : Rat) ≠ 0 := by exact_mod_cast hit
  have hwlt : w < V.length := hv.mem_lt (by rw [ho]; simp)
  have hmax := (ho ▸ hv).head_max w0 hw0
  have hw : w = w0 := by
    by_contra hne
    have := hzero w hwlt hne
    omega
  subst hw
  have hnd := hv.nodup
  rw [ho] at hnd
  simp only [List.nodup_cons, List.mem_append, not_or] at hnd
  have hfil : rest.filter (fun i => decide (0 < V.getD i 0)) = [] := by
    apply List.filter_eq_nil_iff.2
    intro i hi
    have hilt : i < V.length := hv.mem_lt (by rw [ho]; simp [hi])
    have hne : i ≠ w := fun e => hnd.1.1 (e ▸ hi)
    have := hzero i hilt hne
    simp only [decide_eq_true_eq]
    omega
  refine ⟨h1, ?_, ?_, ?_⟩
  · rw [h2, hV]; field_simp
  · rw [h3, hV, if_pos hitpos, hC]; field_simp
  · rw [hfil] at k1 k2 k3
    exact Prod.ext k1 (Prod.ext k2 k3)

end CTM.Election

namespace CTM.Election
open CTM.Numeric

theorem colsOf_nodup (types : List Nat) (t : Nat) : (colsOf types t).Nodup :=
  List.nodup_range.filter _

theorem mem_colsOf (types : List Nat) (t i : Nat) :
    i ∈ colsOf types t ↔ i < types.length ∧ types.getD i 0 = t := by
  simp [colsOf]

theorem agg_unanimous {α} [AddCommMonoid α] (types : List Nat) (l : Nat)
    (hl : l < types.length) (a : α) (t' : Nat) :
    ((colsOf types t').map (fun i => if i = l then a else 0)).sum =
      if types.getD l 0 = t' then a else 0 := by
  split
  · next ht =>
    have : (fun i => if i = l then a else (0 : α)) = (fun i => if l = i then a else 0) := by
      funext i; simp [eq_comm]
    rw [this]
    exact sum_ite_eq_of_nodup l a _ (colsOf_nodup types t') ((mem_colsOf types t' l).2 ⟨hl, ht⟩)
  · next ht =>
    apply List.sum_eq_zero
    intro x hx
    obtain ⟨i, hi, rfl⟩ := List.mem_map.1 hx
    have hne : i ≠ l := by
      rintro rfl
      exact ht ((mem_colsOf types t' i).1 hi).2
    simp [hne]

/-- the columns of a unanimous tally: the column of the home child holds all
    the votes (and the whole correlation sum), every other column none -/
theorem columns_unanimous (types : List Nat) (l : Nat) (hl : l < types.length)
    (iters : Nat) (q : Rat) :
    let votes := (List.range types.length).map (fun i => if i = l then iters else 0)
    let corr := (List.range types.length).map (fun i => if i = l then q else 0)
    let cols := columns types votes corr
    ∃ w0, w0 < cols.1.length ∧ cols.2.2.getD w0 0 = types.getD l 0 ∧
      cols.1.getD w0 0 = iters ∧ cols.2.1.getD w0 0 = q ∧
      ∀ j, j < cols.1.length → j ≠ w0 → cols.1.getD j 0 = 0 := by
  intro votes corr cols
  have hvget : ∀ i, i < types.length → votes.getD i 0 = if i = l then iters else 0 := by
    intro i hi; simp [votes, List.getD, hi]
  have hcget : ∀ i, i < types.length → corr.getD i 0 = if i = l then q else 0 := by
    intro i hi; simp [corr, List.getD, hi]
  by_cases hd : hasDupTypes types
  · -- aggregated
    have hcols : cols = aggregateVotes types votes corr := by simp [cols, columns, hd]
    have hmem : types.getD l 0 ∈ uniqSorted types := by
      rw [mem_uniqSorted]; simp [List.getD, hl]
    obtain ⟨w0, hw0, hTw⟩ := List.mem_iff_getElem.1 hmem
    have hsumv : ∀ t', ((colsOf types t').map (fun i => votes.getD i 0)).sum =
        if types.getD l 0 = t' then iters else 0 := by
      intro t'
      rw [← agg_unanimous types l hl iters t']
      congr 1
      apply List.map_congr_left
      intro i hi
      exact hvget i ((mem_colsOf types t' i).1 hi).1
    have hsumc : ∀ t', ((colsOf types t').map (fun i => corr.getD i 0)).sum =
        if types.getD l 0 = t' then q else 0 := by
      intro t'
      rw [← agg_unanimous types l hl q t']
      congr 1
      apply List.map_congr_left
      intro i hi
      exact hcget i ((mem_colsOf types t' i).1 hi).1
    rw [hcols]
    unfold aggregateVotes
    simp only [List.length_map]
    refine ⟨w0, hw0, ?_, ?_, ?_, ?_⟩
    · rw [List.getD_eq_getElem?_getD, List.getElem?_eq_getElem hw0, Option.getD_some, hTw]
    · rw [List.getD_eq_getElem?_getD, List.getElem?_map, List.getElem?_eq_getElem hw0,
        Option.map_some, Option.getD_some, hsumv, hTw, if_pos rfl]
    · rw [List.getD_eq_getElem?_getD, List.getElem?_map, List.getElem?_eq_getElem hw0,
        Option.map_some, Option.getD_some, hsumc, hTw, if_pos rfl]
    · intro j hj hne
      have : types.getD l 0 ≠ (uniqSorted types)[j] := by
        intro e
        rw [← hTw] at e
        exact hne ((nodup_uniqSorted types).getElem_inj_iff.1 e).symm
      rw [List.getD_eq_getElem?_getD, List.getElem?_map, List.getElem?_eq_getElem hj,
        Option.map_some, Option.getD_some, hsumv, if_neg this]
  · have hcols : cols = (votes, corr, types) := by simp [cols, columns, hd]
    rw [hcols]
    have hlen : votes.length = types.length := by simp [votes]
    refine ⟨l, by simpa [hlen] using hl, rfl, ?_, ?_, ?_⟩
    · show votes.getD l 0 = iters
      rw [hvget l hl, if_pos rfl]
    · show corr.getD l 0 = q
      rw [hcget l hl, if_pos rfl]
    · intro j hj hne
      have hj' : j < types.length := by simpa [hlen] using hj
      show votes.getD j 0 = 0
      rw [hvget j hj', if_neg hne]

end CTM.Election

namespace CTM.Election
open CTM.Numeric

theorem mapM_ok_of_forall {α β ε} (f : α → Except ε β) (g : α → β) :
    ∀ l : List α, (∀ a ∈ l, f a = .ok (g a)) → l.mapM f = .ok (l.map g)
  | [], _ => rfl
  | a :: l, h => by
    rw [List.mapM_cons, h a (by simp), mapM_ok_of_forall f g l (fun b hb => h b (by simp [hb]))]
    rfl

/-- if every iteration sends the cell to leaf `l` with a correlation value whose
    signed square is 1, the tally is the unanimous one -/
theorem tallyVotes_unanimous (refs : List (List Rat)) (x : List Rat)
    (subsets : List (List Nat)) (corrOf : Nat → Nat → Rat) (l : Nat)
    (hiter : ∀ s ∈ subsets, tallyIter refs x s = .ok (l, 1))
    (hcorr : ∀ it, corrOf it l = 1) :
    ∃ rows : List (Nat × Rat), tallyVotes refs x subsets corrOf = .ok (tallyCell refs.length rows) ∧
      rows.length = subsets.length ∧ ∀ r ∈ rows, r.1 = l ∧ r.2 = 1 := by
  unfold tallyVotes
  rw [mapM_ok_of_forall _ (fun _ => (l, (1 : Rat))) subsets hiter]
  refine ⟨_, rfl, by simp, ?_⟩
  intro r hr
  obtain ⟨p, hp, rfl⟩ := List.mem_map.1 hr
  have := (List.of_mem_zip hp).2
  simp only [List.mem_map] at this
  obtain ⟨_, _, hq⟩ := this
  obtain ⟨it, q⟩ := p
  simp only at hq ⊢
  subst hq
  exact ⟨rfl, hcorr it⟩

theorem signed_root_one (r : Rat) (h : r * |r| = 1) : r = 1 := by
  rcases le_total 0 r with hr | hr
  · rw [abs_of_nonneg hr] at h
    nlinarith
  · rw [abs_of_nonpos hr] at h
    nlinarith

/-- unanimous tally ⇒ home child with probability 1, correlation 1, no runners-up -/
theorem chooseCell_unanimous (types : List Nat) (n : Nat) (hn : n = types.length)
    (rows : List (Nat × Rat)) (l : Nat) (hl : l < types.length)
    (hrows : ∀ r ∈ rows, r.1 = l ∧ r.2 = 1) (nAssign : Nat) (order : List Nat) (ch : Choice)
    (hv : ValidOrder (columns types (tallyCell n rows).1 (tallyCell n rows).2).1 order)
    (hch : chooseCell types (tallyCell n rows).1 (tallyCell n rows).2 rows.length nAssign order
      = .ok ch) :
    ch.winner = types.getD l 0 ∧ ch.prob = 1 ∧ ch.avgCorr = 1 ∧
      keepRunners ch.runners = ([], [], []) := by
  subst hn
  have hvotes : (tallyCell types.length rows).1 =
      (List.range types.length).map (fun i => if i = l then rows.length else 0) := by
    rw [tallyCell_votes]
    apply List.map_congr_left
    intro j _
    exact countLeaf_unanimous rows l (fun r hr => (hrows r hr).1) j
  have hcorr : (tallyCell types.length rows).2 =
      (List.range types.length).map (fun i => if i = l then (rows.length : Rat) else 0) := by
    rw [tallyCell_corr]
    apply List.map_congr_left
    intro j _
    rw [corrOfLeaf_unanimous rows l 1 hrows j, mul_one]
  rw [hvotes, hcorr] at hv hch
  obtain ⟨w0, hw0, hT, hV, hC, hz⟩ := columns_unanimous types l hl rows.length (rows.length : Rat)
  unfold chooseCell at hch
  have := chooseCols_unanimous hv hch 1 w0 hw0 hV (by rw [hC, mul_one]) hz
  rw [hT] at this
  exact this

end CTM.Election
namespace CTM.Numeric

/-! ### rounding -/

theorem floor_le' (q : Rat) : ((q.floor : Int) : Rat) ≤ q := Int.floor_le q
theorem lt_floor_add_one' (q : Rat) : q < ((q.floor : Int) : Rat) + 1 := Int.lt_floor_add_one q

/-- `roundHalfEven` is a nearest integer, and the even one on a tie -/
theorem roundHalfEven_spec (q : Rat) :
    |((roundHalfEven q : Int) : Rat) - q| ≤ 1 / 2 ∧
    (|((roundHalfEven q : Int) : Rat) - q| = 1 / 2 → roundHalfEven q % 2 = 0) := by
  have h1 := floor_le' q
  have h2 := lt_floor_add_one' q
  unfold roundHalfEven
  simp only
  split
  · next h =>
    rw [abs_le]
    refine ⟨⟨by linarith, by linarith⟩, ?_⟩
    intro he
    rw [abs_of_nonpos (by linarith)] at he
    linarith
  · split
    · next h =>
      push_cast
      rw [abs_le]
      refine ⟨⟨by linarith, by linarith⟩, ?_⟩
      intro he
      rw [abs_of_nonneg (by linarith)] at he
      linarith
    · next hn1 hn2 =>
      have hr : q - (q.floor : Rat) = 1 / 2 := le_antisymm (not_lt.1 hn2) (not_lt.1 hn1)
      split
      · next hev =>
        refine ⟨?_, fun _ => hev⟩
        rw [abs_of_nonpos (by linarith)]; linarith
      · next hodd =>
        push_cast
        refine ⟨?_, fun _ => by omega⟩
        rw [abs_of_nonneg (by linarith)]; linarith

theorem roundHalfEven_le_of_le_nat (q : Rat) (n : Nat) (h : q ≤ (n : Rat)) :
    roundHalfEven q ≤ (n : Int) := by
  have h1 := floor_le' q
  have h2 := lt_floor_add_one' q
  have hfl : q.floor ≤ (n : Int) := by
    have : ((q.floor : Int) : Rat) ≤ ((n : Int) : Rat) := by push_cast; linarith
    exact_mod_cast this
  rcases hfl.eq_or_lt with he | hlt
  · -- floor q = n, hence q = n
    have hq : q - (q.floor : Rat) = 0 := by
      rw [he]; push_cast
      have : ((q.floor : Int) : Rat) = (n : Rat) := by rw [he]; push_cast; rfl
      linarith
    unfold roundHalfEven
    simp only [hq]
    norm_num
    omega
  · unfold roundHalfEven
    simp only
    split
    · omega
    · split
      · omega
      · split <;> omega

theorem roundHalfEven_nonneg (q : Rat) (h : 0 ≤ q) : 0 ≤ roundHalfEven q := by
  have hfl : 0 ≤ q.floor := Int.floor_nonneg.2 h
  unfold roundHalfEven
  simp only
  split
  · exact hfl
  · split
    · omega
    · split <;> omega

/-- the signed square is strictly monotone: deciding the arg-max on
    `sign(r) r^2` decides it on `r` -/
theorem signed_square_lt_iff (r r' : Rat) : r * |r| < r' * |r'| ↔ r < r' := by
  rcases le_total 0 r with hr | hr <;> rcases le_total 0 r' with hr' | hr'
  · rw [abs_of_nonneg hr, abs_of_nonneg hr']
    constructor
    · intro h; by_contra hn; nlinarith
    · intro h; nlinarith
  · rw [abs_of_nonneg hr, abs_of_nonpos hr']
    constructor
    · intro h; nlinarith [mul_self_nonneg r, mul_self_nonneg r']
    · intro h; linarith
  · rw [abs_of_nonpos hr, abs_of_nonneg hr']
    constructor
    · intro h
      rcases hr.eq_or_lt with rfl | h1
      · rcases hr'.eq_or_lt with h2 | h2
        · rw [← h2] at h; simp at h
        · exact h2
      · linarith
    · intro h
      rcases hr'.eq_or_lt with h2 | h2
      · rw [← h2]
        have : r < 0 := by linarith
        nlinarith
      · nlinarith [mul_self_nonneg r, mul_pos h2 h2]
  · rw [abs_of_nonpos hr, abs_of_nonpos hr']
    constructor
    · intro h; by_contra hn; nlinarith
    · intro h; nlinarith

end CTM.Numeric
namespace CTM.Election
open CTM.Numeric

/-! ### correlation sums are bounded by the votes -/

theorem sum_abs_bound (f : Nat → Nat) (g : Nat → Rat) : ∀ l : List Nat,
    (∀ i ∈ l, |g i| ≤ (f i : Rat)) → |(l.map g).sum| ≤ (((l.map f).sum : Nat) : Rat)
  | [], _ => by simp
  | a :: l, h => by
    have ih := sum_abs_bound f g l (fun i hi => h i (by simp [hi]))
    have ha := h a (by simp)
    simp only [List.map_cons, List.sum_cons]
    push_cast
    calc |g a + (l.map g).sum| ≤ |g a| + |(l.map g).sum| := abs_add_le _ _
      _ ≤ _ := add_le_add ha ih

/-- per leaf, the correlation sum of a tally is bounded by the votes when every
    per-iteration correlation lies in [-1, 1] -/
theorem corrOfLeaf_bound (rows : List (Nat × Rat)) (h : ∀ r ∈ rows, |r.2| ≤ 1) (j : Nat) :
    |corrOfLeaf rows j| ≤ (countLeaf rows j : Rat) := by
  induction rows with
  | nil => simp [corrOfLeaf, countLeaf]
  | cons r rows ih =>
    rw [corrOfLeaf_cons, countLeaf_cons]
    have ih' := ih (fun q hq => h q (by simp [hq]))
    have hr := h r (by simp)
    push_cast
    by_cases hj : r.1 = j
    · simp only [hj, if_true]
      calc |r.2 + corrOfLeaf rows j| ≤ |r.2| + |corrOfLeaf rows j| := abs_add_le _ _
        _ ≤ _ := add_le_add hr ih'
    · simp only [hj, if_false, zero_add]
      push_cast
      linarith

/-- column-wise bound after the (optional) aggregation -/
theorem columns_corr_bound (types votes : List Nat) (corr : List Rat)
    (hb : ∀ i, |corr.getD i 0| ≤ (votes.getD i 0 : Rat)) (k : Nat) :
    |(columns types votes corr).2.1.getD k 0| ≤ ((columns types votes corr).1.getD k 0 : Rat) := by
  unfold columns
  split
  · unfold aggregateVotes
    simp only
    by_cases hk : k < (uniqSorted types).length
    · rw [List.getD_eq_getElem?_getD, List.getD_eq_getElem?_getD, List.getElem?_map,
        List.getElem?_map, List.getElem?_eq_getElem hk]
      simp only [Option.map_some, Option.getD_some]
      exact sum_abs_bound _ _ _ (fun i _ => hb i)
    · have hk' : (uniqSorted types).length ≤ k := Nat.le_of_not_lt hk
      rw [List.getD_eq_getElem?_getD, List.getD_eq_getElem?_getD,
        List.getElem?_eq_none (by simpa using hk'), List.getElem?_eq_none (by simpa using hk')]
      simp
  · exact hb k

/-- C03: the average correlation of the winner and of every runner-up lies in
    [-1, 1] when the column correlation sums are bounded by the votes -/
theorem chooseCols_corr_range {V : List Nat} {C : List Rat} {T : List Nat} {iters nA : Nat}
    {order : List Nat} {ch : Choice}
    (h : chooseCols V C T iters nA order = .ok ch)
    (hb : ∀ i, |C.getD i 0| ≤ (V.getD i 0 : Rat)) :
    |ch.avgCorr| ≤ 1 ∧ ∀ r ∈ ch.runners, |r.avgCorr| ≤ 1 := by
  have key : ∀ i, |C.getD i 0 / ((if 0 < V.getD i 0 then V.getD i 0 else 1 : Nat) : Rat)| ≤ 1 := by
    intro i
    have hbi := hb i
    split
    · next hpos =>
      have hq : (0 : Rat) < (V.getD i 0 : Rat) := by exact_mod_cast hpos
      rw [abs_div, abs_of_pos hq, div_le_one hq]
      exact hbi
    · next hz =>
      have : V.getD i 0 = 0 := by omega
      rw [this] at hbi
      have : C.getD i 0 = 0 := by
        have := abs_nonneg (C.getD i 0)
        have h0 : |C.getD i 0| = 0 := le_antisymm (by simpa using hbi) this
        exact abs_eq_zero.1 h0
      rw [this]; simp
  obtain ⟨_, w, rest, _, _, _, h3, h4⟩ := chooseCols_ok h
  refine ⟨by rw [h3]; exact key w, ?_⟩
  intro r hr
  rw [h4] at hr
  obtain ⟨i, _, rfl⟩ := List.mem_map.1 hr
  exact key i

end CTM.Election

namespace CTM.Election
open CTM.Numeric

theorem tallyCell_corr_bound (n : Nat) (rows : List (Nat × Rat)) (h : ∀ r ∈ rows, |r.2| ≤ 1)
    (i : Nat) : |(tallyCell n rows).2.getD i 0| ≤ ((tallyCell n rows).1.getD i 0 : Rat) := by
  rw [tallyCell_votes, tallyCell_corr]
  by_cases hi : i < n
  · rw [List.getD_eq_getElem?_getD, List.getD_eq_getElem?_getD, List.getElem?_map,
      List.getElem?_map, List.getElem?_range hi]
    simp only [Option.map_some, Option.getD_some]
    exact corrOfLeaf_bound rows h i
  · have hi' : n ≤ i := Nat.le_of_not_lt hi
    rw [List.getD_eq_getElem?_getD, List.getD_eq_getElem?_getD,
      List.getElem?_eq_none (by simpa using hi'), List.getElem?_eq_none (by simpa using hi')]
    simp

end CTM.Election
namespace CTM.Election
open CTM.Numeric

/-! ### a child's aggregated votes = the iterations whose nearest leaf it owns -/

theorem sum_ite_colsOf {α} [AddCommMonoid α] (types : List Nat) (l : Nat)
    (hl : l < types.length) (a : α) (t : Nat) :
    ((colsOf types t).map (fun i => if l = i then a else 0)).sum =
      if types.getD l 0 = t then a else 0 := by
  have : (fun i => if l = i then a else (0 : α)) = (fun i => if i = l then a else 0) := by
    funext i; simp [eq_comm]
  rw [this]
  exact agg_unanimous types l hl a t

theorem child_votes (types : List Nat) (t : Nat) : ∀ rows : List (Nat × Rat),
    (∀ r ∈ rows, r.1 < types.length) →
    ((colsOf types t).map (countLeaf rows)).sum =
      (rows.filter (fun r => types.getD r.1 0 == t)).length
  | [], _ => by
    apply List.sum_eq_zero
    intro x hx
    obtain ⟨i, _, rfl⟩ := List.mem_map.1 hx
    rfl
  | r :: rows, h => by
    have ih := child_votes types t rows (fun q hq => h q (by simp [hq]))
    have hr : r.1 < types.length := h r (by simp)
    have : (colsOf types t).map (countLeaf (r :: rows)) =
        (colsOf types t).map (fun i => (if r.1 = i then 1 else 0) + countLeaf rows i) := by
      apply List.map_congr_left; intro i _; exact countLeaf_cons r rows i
    rw [this, List.sum_map_add, ih, sum_ite_colsOf types r.1 hr 1 t, List.filter_cons]
    by_cases ht : types.getD r.1 0 = t
    · have hb : (types.getD r.1 0 == t) = true := by rw [ht]; exact beq_self_eq_true _
      rw [if_pos ht, if_pos hb, List.length_cons]; omega
    · have hb : ¬ (types.getD r.1 0 == t) = true := by
        intro e; exact ht (eq_of_beq e)
      rw [if_neg ht, if_neg hb]; omega

theorem child_corr (types : List Nat) (t : Nat) : ∀ rows : List (Nat × Rat),
    (∀ r ∈ rows, r.1 < types.length) →
    ((colsOf types t).map (corrOfLeaf rows)).sum =
      ((rows.filter (fun r => types.getD r.1 0 == t)).map (·.2)).sum
  | [], _ => by
    apply List.sum_eq_zero
    intro x hx
    obtain ⟨i, _, rfl⟩ := List.mem_map.1 hx
    simp [corrOfLeaf]
  | r :: rows, h => by
    have ih := child_corr types t rows (fun q hq => h q (by simp [hq]))
    have hr : r.1 < types.length := h r (by simp)
    have : (colsOf types t).map (corrOfLeaf (r :: rows)) =
        (colsOf types t).map (fun i => (if r.1 = i then r.2 else 0) + corrOfLeaf rows i) := by
      apply List.map_congr_left; intro i _; exact corrOfLeaf_cons r rows i
    rw [this, List.sum_map_add, ih, sum_ite_colsOf types r.1 hr r.2 t, List.filter_cons]
    by_cases ht : types.getD r.1 0 = t
    · have hb : (types.getD r.1 0 == t) = true := by rw [ht]; exact beq_self_eq_true _
      rw [if_pos ht, if_pos hb, List.map_cons, List.sum_cons]
    · have hb : ¬ (types.getD r.1 0 == t) = true := by
        intro e; exact ht (eq_of_beq e)
      rw [if_neg ht, if_neg hb, zero_add]

/-- tally followed by aggregation: the aggregated vote of a child is the number
    of iterations whose nearest leaf belongs to it, its correlation sum the sum
    of exactly those iterations' correlations -/
theorem aggregate_tally (types : List Nat) (rows : List (Nat × Rat))
    (h : ∀ r ∈ rows, r.1 < types.length) :
    (aggregateVotes types (tallyCell types.length rows).1 (tallyCell types.length rows).2).1 =
      (uniqSorted types).map
        (fun t => (rows.filter (fun r => types.getD r.1 0 == t)).length) ∧
    (aggregateVotes types (tallyCell types.length rows).1 (tallyCell types.length rows).2).2.1 =
      (uniqSorted types).map
        (fun t => ((rows.filter (fun r => types.getD r.1 0 == t)).map (·.2)).sum) := by
  rw [tallyCell_votes, tallyCell_corr]
  unfold aggregateVotes
  simp only
  constructor
  · apply List.map_congr_left
    intro t _
    rw [← child_votes types t rows h]
    congr 1
    apply List.map_congr_left
    intro i hi
    have hi' := ((mem_colsOf types t i).1 hi).1
    rw [List.getD_eq_getElem?_getD, List.getElem?_map, List.getElem?_range hi']
    rfl
  · apply List.map_congr_left
    intro t _
    rw [← child_corr types t rows h]
    congr 1
    apply List.map_congr_left
    intro i hi
    have hi' := ((mem_colsOf types t i).1 hi).1
    rw [List.getD_eq_getElem?_getD, List.getElem?_map, List.getElem?_range hi']
    rfl

end CTM.Election

namespace CTM.Election
open CTM.Numeric

/-- tally followed by `columns` (aggregation iff a type repeats): every column
    holds the number of iterations whose nearest leaf belongs to the column's
    child -/
theorem columns_tally (types : List Nat) (rows : List (Nat × Rat))
    (h : ∀ r ∈ rows, r.1 < types.length) (k : Nat)
    (hk : k < (columns types (tallyCell types.length rows).1
      (tallyCell types.length rows).2).1.length) :
    (columns types (tallyCell types.length rows).1 (tallyCell types.length rows).2).1.getD k 0 =
      (rows.filter (fun r => types.getD r.1 0 ==
        (columns types (tallyCell types.length rows).1
          (tallyCell types.length rows).2).2.2.getD k 0)).length := by
  unfold columns at hk ⊢
  split
  · next hd =>
    rw [if_pos hd] at hk
    rw [(aggregate_tally types rows h).1] at hk ⊢
    simp only [List.length_map] at hk
    simp only [aggregateVotes]
    rw [List.getD_eq_getElem?_getD, List.getElem?_map, List.getElem?_eq_getElem hk,
      Option.map_some, Option.getD_some,
      List.getD_eq_getElem?_getD (l := uniqSorted types), List.getElem?_eq_getElem hk,
      Option.getD_some]
  · next hd =>
    rw [if_neg hd] at hk
    have hnd : types.Nodup := nodup_of_length_uniqSorted types (by simpa [hasDupTypes] using hd)
    simp only
    rw [tallyCell_votes] at hk ⊢
    have hk' : k < types.length := by simpa using hk
    rw [List.getD_eq_getElem?_getD, List.getElem?_map, List.getElem?_range hk',
      Option.map_some, Option.getD_some]
    unfold countLeaf
    congr 1
    apply List.filter_congr
    intro r hr
    have hr' := h r hr
    rw [List.getD_eq_getElem?_getD, List.getD_eq_getElem?_getD, List.getElem?_eq_getElem hr',
      List.getElem?_eq_getElem hk', Option.getD_some, Option.getD_some]
    by_cases e : r.1 = k
    · subst e; simp
    · have : ¬ types[r.1] = types[k] := fun e' => e ((hnd.getElem_inj_iff).1 e')
      simp [e, this]

end CTM.Election
namespace CTM.Election
open CTM.Numeric

theorem mapM_ok_spec {α β ε} (f : α → Except ε β) : ∀ (l : List α) (ys : List β),
    l.mapM f = .ok ys → ys.length = l.length ∧ ∀ y ∈ ys, ∃ a ∈ l, f a = .ok y
  | [], ys, h => by
    simp only [List.mapM_nil, pure, Except.pure, Except.ok.injEq] at h
    subst h; simp
  | a :: l, ys, h => by
    rw [List.mapM_cons] at h
    simp only [bind, Except.bind, pure, Except.pure] at h
    split at h
    · cases h
    · next y hy =>
      split at h
      · cases h
      · next ys' hys =>
        cases h
        obtain ⟨hl, hall⟩ := mapM_ok_spec f l ys' hys
        refine ⟨by simp [hl], ?_⟩
        intro z hz
        rcases List.mem_cons.1 hz with rfl | hz
        · exact ⟨a, by simp, hy⟩
        · obtain ⟨b, hb, hfb⟩ := hall z hz
          exact ⟨b, by simp [hb], hfb⟩

/-- the rows handed to the accumulation loop carry the per-iteration nearest
    leaves unchanged -/
theorem rows_fst (near : List (Nat × Rat)) (corrOf : Nat → Nat → Rat) :
    ((List.zip (List.range near.length) near).map
      (fun (p : Nat × (Nat × Rat)) => (p.2.1, corrOf p.1 p.2.1))).map (·.1) = near.map (·.1) := by
  rw [List.map_map]
  have : ((fun (r : Nat × Rat) => r.1) ∘ fun (p : Nat × (Nat × Rat)) => (p.2.1, corrOf p.1 p.2.1))
      = (fun r => r.1) ∘ Prod.snd := by funext p; rfl
  rw [this, ← List.map_map, List.map_snd_zip (by simp)]

theorem filter_length_of_map_fst_eq {β γ} (l1 : List (Nat × β)) (l2 : List (Nat × γ))
    (h : l1.map (·.1) = l2.map (·.1)) (p : Nat → Bool) :
    (l1.filter (fun r => p r.1)).length = (l2.filter (fun r => p r.1)).length := by
  rw [← List.countP_eq_length_filter, ← List.countP_eq_length_filter]
  have e1 : List.countP (fun r : Nat × β => p r.1) l1 = List.countP p (l1.map (·.1)) := by
    rw [List.countP_map]; rfl
  have e2 : List.countP (fun r : Nat × γ => p r.1) l2 = List.countP p (l2.map (·.1)) := by
    rw [List.countP_map]; rfl
  rw [e1, e2, h]

end CTM.Election

namespace CTM.Election
open CTM.Numeric

theorem tallyIter_spec (refs : List (List Rat)) (x : List Rat) (s : List Nat) (i : Nat) (q : Rat)
    (h : tallyIter refs x s = .ok (i, q)) :
    ∃ hi : i < refs.length,
      q = corrSsq (pick s refs[i]) (pick s x) ∧
      (∀ (j : Nat) (hj : j < refs.length), corrSsq (pick s refs[j]) (pick s x) ≤ q) ∧
      (∀ (j : Nat) (hj : j < refs.length), j < i → corrSsq (pick s refs[j]) (pick s x) < q) := by
  unfold tallyIter at h
  split at h
  · cases h
  · split at h
    · cases h
    · next r hr =>
      cases h
      obtain ⟨hi, hs, hmax, hfirst⟩ := nearestLeaf_spec _ _ _ _ hr
      have hi' : i < refs.length := by rw [List.length_map] at hi; exact hi
      refine ⟨hi', ?_, ?_, ?_⟩
      · rw [List.getElem_map] at hs; exact hs
      · intro j hj
        have := hmax j (by rw [List.length_map]; exact hj)
        rw [List.getElem_map] at this; exact this
      · intro j hj hlt
        have := hfirst j (by rw [List.length_map]; exact hj) hlt
        rw [List.getElem_map] at this; exact this

theorem nearest_lt (refs : List (List Rat)) (x : List Rat) (s : List Nat) (i : Nat) (q : Rat)
    (h : tallyIter refs x s = .ok (i, q)) : i < refs.length :=
  (tallyIter_spec refs x s i q h).1

/-- the rows of the accumulation loop built from the per-iteration results -/
def rowsOf (near : List (Nat × Rat)) (corrOf : Nat → Nat → Rat) : List (Nat × Rat) :=
  (List.zip (List.range near.length) near).map
    (fun (p : Nat × (Nat × Rat)) => (p.2.1, corrOf p.1 p.2.1))

theorem tallyVotes_eq (refs : List (List Rat)) (x : List Rat) (subsets : List (List Nat))
    (corrOf : Nat → Nat → Rat) :
    tallyVotes refs x subsets corrOf =
      (subsets.mapM (tallyIter refs x)).map (fun near => tallyCell refs.length (rowsOf near corrOf)) := by
  unfold tallyVotes rowsOf
  cases subsets.mapM (tallyIter refs x) <;> rfl

/-- C02.recompute: for the subsets that were drawn, the choice at a node is
    reproduced by recomputing, per iteration, the arg-max leaf and counting the
    iterations per child. -/
theorem node_recompute (refs : List (List Rat)) (x : List Rat) (types : List Nat)
    (subsets : List (List Nat)) (corrOf : Nat → Nat → Rat) (nAssign : Nat) (order : List Nat)
    (ch : Choice) (tally : List Nat × List Rat) (hlen : types.length = refs.length)
    (htally : tallyVotes refs x subsets corrOf = .ok tally)
    (hv : ValidOrder (columns types tally.1 tally.2).1 order)
    (hch : chooseCell types tally.1 tally.2 subsets.length nAssign order = .ok ch) :
    ∃ near : List (Nat × Rat), subsets.mapM (tallyIter refs x) = .ok near ∧
      near.length = subsets.length ∧
      ch.winner ∈ types ∧
      (∀ t ∈ types, (near.filter (fun r => types.getD r.1 0 == t)).length ≤
        (near.filter (fun r => types.getD r.1 0 == ch.winner)).length) ∧
      ch.prob = ((near.filter (fun r => types.getD r.1 0 == ch.winner)).length : Rat) /
        (subsets.length : Rat) := by
  rw [tallyVotes_eq] at htally
  cases hnear : subsets.mapM (tallyIter refs x) with
  | error e => rw [hnear] at htally; cases htally
  | ok near =>
    rw [hnear] at htally
    simp only [Except.map] at htally
    cases htally
    obtain ⟨hnl, hspec⟩ := mapM_ok_spec _ _ _ hnear
    refine ⟨near, rfl, hnl, ?_⟩
    -- every row votes for an existing leaf
    have hrows : ∀ r ∈ rowsOf near corrOf, r.1 < types.length := by
      intro r hr
      have hm : r.1 ∈ (rowsOf near corrOf).map (·.1) := List.mem_map.2 ⟨r, hr, rfl⟩
      unfold rowsOf at hm
      rw [rows_fst] at hm
      obtain ⟨q, hq, hq1⟩ := List.mem_map.1 hm
      obtain ⟨s, _, hs⟩ := hspec q hq
      obtain ⟨i, sc⟩ := q
      have := nearest_lt refs x s i sc hs
      simp only at hq1
      omega
    have hcount : ∀ t, ((rowsOf near corrOf).filter (fun r => types.getD r.1 0 == t)).length =
        (near.filter (fun r => types.getD r.1 0 == t)).length := fun t =>
      filter_length_of_map_fst_eq _ _ (by unfold rowsOf; exact rows_fst near corrOf)
        (fun i => types.getD i 0 == t)
    rw [← hlen] at hv hch
    obtain ⟨w, hw, hwin, hmax, hprob, _⟩ := chooseCols_winner hv hch
    have hVw := columns_tally types (rowsOf near corrOf) hrows w hw
    rw [← hwin, hcount] at hVw
    refine ⟨?_, ?_, ?_⟩
    · rw [hwin]
      apply (columns_types_mem _ _ _ _).1
      have hlenc := columns_length types (tallyCell types.length (rowsOf near corrOf)).1
        (tallyCell types.length (rowsOf near corrOf)).2 (by rw [tallyCell_votes]; simp)
      have hw' : w < (columns types (tallyCell types.length (rowsOf near corrOf)).1
          (tallyCell types.length (rowsOf near corrOf)).2).2.2.length := by rw [hlenc]; exact hw
      rw [List.getD_eq_getElem?_getD, List.getElem?_eq_getElem hw', Option.getD_some]
      exact List.getElem_mem hw'
    · intro t ht
      have htm := (columns_types_mem types (tallyCell types.length (rowsOf near corrOf)).1
        (tallyCell types.length (rowsOf near corrOf)).2 t).2 ht
      obtain ⟨k, hk, hkt⟩ := List.mem_iff_getElem.1 htm
      have hlenc := columns_length types (tallyCell types.length (rowsOf near corrOf)).1
        (tallyCell types.length (rowsOf near corrOf)).2 (by rw [tallyCell_votes]; simp)
      have hk' : k < (columns types (tallyCell types.length (rowsOf near corrOf)).1
          (tallyCell types.length (rowsOf near corrOf)).2).1.length := by rw [← hlenc]; exact hk
      have hVk := columns_tally types (rowsOf near corrOf) hrows k hk'
      rw [List.getD_eq_getElem?_getD (l := (columns types _ _).2.2), List.getElem?_eq_getElem hk,
        Option.getD_some, hkt, hcount] at hVk
      rw [← hVk, ← hVw]
      exact hmax k hk'
    · rw [hprob, hVw]

end CTM.Election

namespace CTM.Election

/-! ### assemble_query_data rows -/


theorem mem_dictSet (d : List (Nat × Nat)) (k v : Nat) (e : Nat × Nat) :
    e ∈ dictSet d k v → e = (k, v) ∨ e ∈ d := by
  induction d with
  | nil => intro h; simp [dictSet] at h; exact Or.inl h
  | cons a d ih =>
    obtain ⟨k', v'⟩ := a
    unfold dictSet
    split
    · intro h
      rcases List.mem_cons.1 h with h | h
      · exact Or.inl h
      · exact Or.inr (List.mem_cons_of_mem _ h)
    · intro h
      rcases List.mem_cons.1 h with h | h
      · exact Or.inr (h ▸ List.mem_cons_self)
      · rcases ih h with h | h
        · exact Or.inl h
        · exact Or.inr (List.mem_cons_of_mem _ h)

theorem keys_dictSet (d : List (Nat × Nat)) (k v x : Nat) :
    x ∈ (dictSet d k v).map (·.1) ↔ x = k ∨ x ∈ d.map (·.1) := by
  induction d with
  | nil => simp [dictSet]
  | cons a d ih =>
    obtain ⟨k', v'⟩ := a
    unfold dictSet
    split
    · next h => subst h; simp
    · simp only [List.map_cons, List.mem_cons, ih]; tauto

theorem nodup_keys_dictSet (d : List (Nat × Nat)) (k v : Nat) (h : (d.map (·.1)).Nodup) :
    ((dictSet d k v).map (·.1)).Nodup := by
  induction d with
  | nil => simp [dictSet]
  | cons a d ih =>
    obtain ⟨k', v'⟩ := a
    simp only [List.map_cons, List.nodup_cons] at h
    unfold dictSet
    split
    · next hk => subst hk; simpa using h
    · next hk =>
      simp only [List.map_cons, List.nodup_cons]
      refine ⟨?_, ih h.2⟩
      rw [keys_dictSet]
      intro hc
      rcases hc with hc | hc
      · exact hk hc
      · exact h.1 hc

/-- invariant of the double loop: every entry maps a leaf to a child (among
    those processed) that contains it; the keys are the leaves seen so far -/
theorem inner_loop_inv (leavesOf : Nat → List Nat) (c : Nat) (P : Nat → Prop) (hc : P c) :
    ∀ (ls : List Nat) (acc : List (Nat × Nat)),
    (∀ l ∈ ls, l ∈ leavesOf c) →
    (∀ e ∈ acc, P e.2 ∧ e.1 ∈ leavesOf e.2) → (acc.map (·.1)).Nodup →
    (∀ e ∈ ls.foldl (fun acc leaf => dictSet acc leaf c) acc, P e.2 ∧ e.1 ∈ leavesOf e.2) ∧
    ((ls.foldl (fun acc leaf => dictSet acc leaf c) acc).map (·.1)).Nodup ∧
    (∀ x, x ∈ (ls.foldl (fun acc leaf => dictSet acc leaf c) acc).map (·.1) ↔
      x ∈ ls ∨ x ∈ acc.map (·.1))
  | [], acc, _, hacc, hnd => ⟨hacc, hnd, by simp⟩
  | l :: ls, acc, hls, hacc, hnd => by
    simp only [List.foldl_cons]
    have h1 : ∀ e ∈ dictSet acc l c, P e.2 ∧ e.1 ∈ leavesOf e.2 := by
      intro e he
      rcases mem_dictSet acc l c e he with rfl | he
      · exact ⟨hc, hls l (by simp)⟩
      · exact hacc e he
    obtain ⟨i1, i2, i3⟩ := inner_loop_inv leavesOf c P hc ls (dictSet acc l c)
      (fun x hx => hls x (by simp [hx])) h1 (nodup_keys_dictSet acc l c hnd)
    refine ⟨i1, i2, ?_⟩
    intro x
    rw [i3, keys_dictSet]
    simp only [List.mem_cons]
    tauto

theorem outer_loop_inv (leavesOf : Nat → List Nat) (P : Nat → Prop) :
    ∀ (cs : List Nat) (acc : List (Nat × Nat)), (∀ c ∈ cs, P c) →
    (∀ e ∈ acc, P e.2 ∧ e.1 ∈ leavesOf e.2) → (acc.map (·.1)).Nodup →
    (∀ e ∈ cs.foldl (fun acc c => (leavesOf c).foldl (fun acc leaf => dictSet acc leaf c) acc) acc,
      P e.2 ∧ e.1 ∈ leavesOf e.2) ∧
    ((cs.foldl (fun acc c => (leavesOf c).foldl (fun acc leaf => dictSet acc leaf c) acc) acc).map
      (·.1)).Nodup ∧
    (∀ x, x ∈ (cs.foldl (fun acc c => (leavesOf c).foldl (fun acc leaf => dictSet acc leaf c) acc)
      acc).map (·.1) ↔ (∃ c ∈ cs, x ∈ leavesOf c) ∨ x ∈ acc.map (·.1))
  | [], acc, _, hacc, hnd => ⟨hacc, hnd, by simp⟩
  | c :: cs, acc, hcs, hacc, hnd => by
    simp only [List.foldl_cons]
    obtain ⟨j1, j2, j3⟩ := inner_loop_inv leavesOf c P (hcs c (by simp)) (leavesOf c) acc
      (fun _ h => h) hacc hnd
    obtain ⟨i1, i2, i3⟩ := outer_loop_inv leavesOf P cs _
      (fun x hx => hcs x (by simp [hx])) j1 j2
    refine ⟨i1, i2, ?_⟩
    intro x
    rw [i3, j3]
    constructor
    · rintro (⟨c', hc', hx⟩ | hx | hx)
      · exact Or.inl ⟨c', List.mem_cons_of_mem _ hc', hx⟩
      · exact Or.inl ⟨c, List.mem_cons_self, hx⟩
      · exact Or.inr hx
    · rintro (⟨c', hc', hx⟩ | hx)
      · rcases List.mem_cons.1 hc' with rfl | hc'
        · exact Or.inr (Or.inl hx)
        · exact Or.inl ⟨c', hc', hx⟩
      · exact Or.inr (Or.inr hx)

theorem mem_insSorted (x a : Nat) : ∀ l : List Nat, a ∈ insSorted x l ↔ a = x ∨ a ∈ l
  | [] => by simp [insSorted]
  | y :: ys => by
    unfold insSorted
    split
    · simp
    · simp only [List.mem_cons, mem_insSorted x a ys]; tauto

theorem mem_sortList (a : Nat) : ∀ l : List Nat, a ∈ sortList l ↔ a ∈ l
  | [] => by simp [sortList]
  | x :: xs => by simp [sortList, mem_insSorted, mem_sortList a xs]

theorem sorted_insSorted (x : Nat) : ∀ l : List Nat, l.Pairwise (· ≤ ·) →
    (insSorted x l).Pairwise (· ≤ ·)
  | [], _ => by simp [insSorted]
  | y :: ys, h => by
    unfold insSorted
    rw [List.pairwise_cons] at h
    split
    · next hle =>
      rw [List.pairwise_cons]
      refine ⟨?_, List.pairwise_cons.2 h⟩
      intro a ha
      rcases List.mem_cons.1 ha with rfl | ha
      · exact hle
      · exact le_trans hle (h.1 a ha)
    · next hnle =>
      rw [List.pairwise_cons]
      refine ⟨?_, sorted_insSorted x ys h.2⟩
      intro a ha
      rcases (mem_insSorted x a ys).1 ha with rfl | ha
      · omega
      · exact h.1 a ha

theorem sorted_sortList : ∀ l : List Nat, (sortList l).Pairwise (· ≤ ·)
  | [] => by simp [sortList]
  | x :: xs => sorted_insSorted x _ (sorted_sortList xs)

theorem perm_insSorted (x : Nat) : ∀ l : List Nat, (insSorted x l).Perm (x :: l)
  | [] => by simp [insSorted]
  | y :: ys => by
    unfold insSorted
    split
    · exact List.Perm.refl _
    · exact ((perm_insSorted x ys).cons y).trans (List.Perm.swap x y ys)

theorem perm_sortList : ∀ l : List Nat, (sortList l).Perm l
  | [] => by simp [sortList]
  | x :: xs => (perm_insSorted x _).trans ((perm_sortList xs).cons x)

end CTM.Election

namespace CTM.Election

theorem lookup_of_mem_keys : ∀ (d : List (Nat × Nat)) (k : Nat), k ∈ d.map (·.1) →
    ∃ v, d.lookup k = some v ∧ (k, v) ∈ d
  | [], k, h => by simp at h
  | (k', v') :: d, k, h => by
    by_cases e : k = k'
    · subst e
      exact ⟨v', by simp [List.lookup], by simp⟩
    · have hk : k ∈ d.map (·.1) := by
        simp only [List.map_cons, List.mem_cons] at h
        rcases h with h | h
        · exact absurd h e
        · exact h
      obtain ⟨v, hv, hm⟩ := lookup_of_mem_keys d k hk
      refine ⟨v, ?_, List.mem_cons_of_mem _ hm⟩
      rw [List.lookup_cons]
      have : (k == k') = false := by simpa using e
      rw [this]; exact hv

/-- "considering only leaves below the node" / "the child that contains the
    leaf": the reference rows of a node are exactly the leaves of its children,
    sorted and without repetition, and the type recorded for a row is a child of
    the node that contains that leaf. -/
theorem assembleRows_spec (kids : List Nat) (leavesOf : Nat → List Nat) :
    (assembleRows kids leavesOf).1.Pairwise (· < ·) ∧
    (∀ x, x ∈ (assembleRows kids leavesOf).1 ↔ ∃ c ∈ kids, x ∈ leavesOf c) ∧
    (assembleRows kids leavesOf).2.length = (assembleRows kids leavesOf).1.length ∧
    (∀ (i : Nat) (hi : i < (assembleRows kids leavesOf).1.length),
      (assembleRows kids leavesOf).2.getD i 0 ∈ kids ∧
      (assembleRows kids leavesOf).1[i] ∈ leavesOf ((assembleRows kids leavesOf).2.getD i 0)) := by
  obtain ⟨i1, i2, i3⟩ := outer_loop_inv leavesOf (· ∈ kids) (sortList kids) []
    (fun c hc => (mem_sortList c kids).1 hc) (by simp) (by simp)
  have hd : leafToType kids leavesOf = (sortList kids).foldl
      (fun acc c => (leavesOf c).foldl (fun acc leaf => dictSet acc leaf c) acc) [] := rfl
  rw [← hd] at i1 i2 i3
  unfold assembleRows
  simp only
  refine ⟨?_, ?_, by simp, ?_⟩
  · have hs := sorted_sortList ((leafToType kids leavesOf).map (·.1))
    have hn : (sortList ((leafToType kids leavesOf).map (·.1))).Nodup :=
      (perm_sortList _).nodup_iff.2 i2
    exact (hs.and hn).imp (fun h => lt_of_le_of_ne h.1 h.2)
  · intro x
    rw [mem_sortList, i3]
    simp only [List.map_nil, List.not_mem_nil, or_false]
    constructor
    · rintro ⟨c, hc, hx⟩; exact ⟨c, (mem_sortList c kids).1 hc, hx⟩
    · rintro ⟨c, hc, hx⟩; exact ⟨c, (mem_sortList c kids).2 hc, hx⟩
  · intro i hi
    have hmem : (sortList ((leafToType kids leavesOf).map (·.1)))[i] ∈
        (leafToType kids leavesOf).map (·.1) :=
      (mem_sortList _ _).1 (List.getElem_mem hi)
    obtain ⟨v, hv, hm⟩ := lookup_of_mem_keys _ _ hmem
    have := i1 _ hm
    rw [List.getD_eq_getElem?_getD, List.getElem?_map, List.getElem?_eq_getElem hi,
      Option.map_some, Option.getD_some, hv, Option.getD_some]
    exact this

/-- in a strict tree (the leaf sets of distinct children are disjoint) the
    recorded type is THE child that contains the leaf -/
theorem assembleRows_unique (kids : List Nat) (leavesOf : Nat → List Nat)
    (hdisj : ∀ c ∈ kids, ∀ c' ∈ kids, ∀ x, x ∈ leavesOf c → x ∈ leavesOf c' → c = c')
    (i : Nat) (hi : i < (assembleRows kids leavesOf).1.length) (c : Nat) (hc : c ∈ kids)
    (hx : (assembleRows kids leavesOf).1[i] ∈ leavesOf c) :
    (assembleRows kids leavesOf).2.getD i 0 = c := by
  obtain ⟨_, _, _, h4⟩ := assembleRows_spec kids leavesOf
  obtain ⟨h5, h6⟩ := h4 i hi
  exact hdisj _ h5 _ hc _ h6 hx

end CTM.Election
namespace CTM.Election
open CTM.Numeric

/-- every kept runner-up is a column other than the winner's that received
    votes, reported with its share of the votes and the mean correlation over
    the iterations that voted for it -/
theorem chooseCols_runner_fields {V : List Nat} {C : List Rat} {T : List Nat} {iters nA : Nat}
    {order : List Nat} {ch : Choice} (hv : ValidOrder V order)
    (h : chooseCols V C T iters nA order = .ok ch) :
    ∃ (w : Nat) (idxs : List Nat), ch.winner = T.getD w 0 ∧ idxs.Nodup ∧ w ∉ idxs ∧
      (∀ i ∈ idxs, i < V.length ∧ 0 < V.getD i 0) ∧
      (keepRunners ch.runners).1 = idxs.map (fun i => T.getD i 0) ∧
      (keepRunners ch.runners).2.1 = idxs.map (fun i => C.getD i 0 / (V.getD i 0 : Rat)) ∧
      (keepRunners ch.runners).2.2 = idxs.map (fun i => (V.getD i 0 : Rat) / (iters : Rat)) := by
  obtain ⟨_, w, rest, tl2, ho, h1, _, _, k1, k2, k3⟩ := keepRunners_form' hv h
  have hnd := hv.nodup
  rw [ho] at hnd
  simp only [List.nodup_cons, List.nodup_append, List.mem_append, not_or] at hnd
  obtain ⟨⟨hwr, _⟩, hrest_nd, _, _⟩ := hnd
  refine ⟨w, rest.filter (fun i => decide (0 < V.getD i 0)), h1,
    hrest_nd.sublist List.filter_sublist, ?_, ?_, k1, ?_, k3⟩
  · intro hm; exact hwr (List.mem_filter.1 hm).1
  · intro i hi
    obtain ⟨hir, hp⟩ := List.mem_filter.1 hi
    exact ⟨hv.mem_lt (by rw [ho]; simp [hir]), by simpa using hp⟩
  · rw [k2]
    apply List.map_congr_left
    intro i hi
    have hp : 0 < V.getD i 0 := by simpa using (List.mem_filter.1 hi).2
    rw [if_pos hp]

end CTM.Election
namespace CTM.Election

/-- some valid tie order always exists (numpy returns one): the theorems'
    hypothesis `ValidOrder` is never vacuous -/
theorem validOrder_exists (V : List Nat) : ∃ order, ValidOrder V order := by
  refine ⟨(List.range V.length).mergeSort (fun i j => decide (V.getD j 0 ≤ V.getD i 0)), ?_, ?_⟩
  · exact List.mergeSort_perm _ _
  · rw [List.pairwise_map]
    have := List.pairwise_mergeSort (le := fun i j => decide (V.getD j 0 ≤ V.getD i 0))
      (by intro a b c hab hbc; simp only [decide_eq_true_eq] at *; omega)
      (by intro a b; simp only [Bool.or_eq_true, decide_eq_true_eq]; omega)
      (List.range V.length)
    exact this.imp (by intro a b h; simpa using h)

end CTM.Election
